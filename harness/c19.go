package main

import (
	"encoding/json"
	"fmt"
	"os"
	"strings"
	"time"

	imap "github.com/emersion/go-imap/v2"
	"github.com/emersion/go-imap/v2/imapserver"
)

func init() { runners["C19"] = runC19 }

// ---- rendering of criteria as Coq terms / JSON ------------------------------------------------

// calDay: the calendar date of t in t's own zone ("only the date is used, the time and timezone
// are ignored", search.go), as the UTC midnight of that date.
func calDay(t time.Time) time.Time {
	return time.Date(t.Year(), t.Month(), t.Day(), 0, 0, 0, 0, time.UTC)
}

// the model's dates are calendar dates (seconds of the date's UTC midnight), 0 = unset
func coqTime(t time.Time) string {
	if t.IsZero() {
		return "0%Z"
	}
	return coqZ(calDay(t).Unix())
}

func coqModSeq(q *imap.SearchCriteriaModSeq) string {
	if q == nil {
		return "None"
	}
	return fmt.Sprintf("(Some (%d%%N, %s, %s))", q.ModSeq, coqHxS(q.MetadataName), coqHxS(string(q.MetadataType)))
}

// coqXCriteria: criteria with the ModSeq field at every level (Model/SearchModSeq.v)
func coqXCriteria(c *imap.SearchCriteria) string {
	var seqs, uids, hdr, nots, ors []string
	for _, s := range c.SeqNum {
		seqs = append(seqs, coqNumSetRanges(s))
	}
	for _, s := range c.UID {
		uids = append(uids, coqNumSetRanges(s))
	}
	for _, h := range c.Header {
		hdr = append(hdr, "("+coqHxS(h.Key)+", "+coqHxS(h.Value)+")")
	}
	for i := range c.Not {
		nots = append(nots, coqXCriteria(&c.Not[i]))
	}
	for i := range c.Or {
		ors = append(ors, "("+coqXCriteria(&c.Or[i][0])+", "+coqXCriteria(&c.Or[i][1])+")")
	}
	return "(XCrit " + strings.Join([]string{
		coqList(seqs), coqList(uids), coqTime(c.Since), coqTime(c.Before), coqTime(c.SentSince), coqTime(c.SentBefore),
		coqList(hdr), coqStrs(c.Body), coqStrs(c.Text), coqFlags(c.Flag), coqFlags(c.NotFlag),
		coqZ(c.Larger), coqZ(c.Smaller), coqModSeq(c.ModSeq), coqList(nots), coqList(ors)}, " ") + ")"
}

func coqNumSetRanges(s imap.NumSet) string {
	var rs []string
	switch v := s.(type) {
	case imap.SeqSet:
		for _, r := range v {
			rs = append(rs, fmt.Sprintf("(%d, %d)", r.Start, r.Stop))
		}
	case imap.UIDSet:
		for _, r := range v {
			rs = append(rs, fmt.Sprintf("(%d, %d)", r.Start, r.Stop))
		}
	}
	return coqList(rs)
}

func coqStrs(l []string) string {
	var out []string
	for _, s := range l {
		out = append(out, coqHxS(s))
	}
	return coqList(out)
}

func coqFlags(l []imap.Flag) string {
	var out []string
	for _, s := range l {
		out = append(out, coqHxS(string(s)))
	}
	return coqList(out)
}

func coqCriteria(c *imap.SearchCriteria) string {
	var seqs, uids, hdr, nots, ors []string
	for _, s := range c.SeqNum {
		seqs = append(seqs, coqNumSetRanges(s))
	}
	for _, s := range c.UID {
		uids = append(uids, coqNumSetRanges(s))
	}
	for _, h := range c.Header {
		hdr = append(hdr, "("+coqHxS(h.Key)+", "+coqHxS(h.Value)+")")
	}
	for i := range c.Not {
		nots = append(nots, coqCriteria(&c.Not[i]))
	}
	for i := range c.Or {
		ors = append(ors, "("+coqCriteria(&c.Or[i][0])+", "+coqCriteria(&c.Or[i][1])+")")
	}
	return "(Crit " + strings.Join([]string{
		coqList(seqs), coqList(uids), coqTime(c.Since), coqTime(c.Before), coqTime(c.SentSince), coqTime(c.SentBefore),
		coqList(hdr), coqStrs(c.Body), coqStrs(c.Text), coqFlags(c.Flag), coqFlags(c.NotFlag),
		coqZ(c.Larger), coqZ(c.Smaller), coqList(nots), coqList(ors)}, " ") + ")"
}

// ---- finite message universe and independent matchers ----------------------------------------

type uMsg struct {
	Seq, UID uint32
	Date     time.Time  // internal date (already a day)
	Sent     *time.Time // nil = no/unparsable Date header
	Flags    map[string]bool
	Size     int64
	Text     string
	Body     string
	Hdr      map[string]string // lower-case key
	ModSeq   uint64            // mod-sequence of the message (entry "")
}

// modOf: the mod-sequence of one metadata entry of the message (RFC 7162 MODSEQ search key:
// the message matches when this value is >= the key's value); distinct entries differ
func modOf(m *uMsg, q *imap.SearchCriteriaModSeq) uint64 {
	if q.MetadataName == "" {
		return m.ModSeq
	}
	return (m.ModSeq*7 + uint64(len(q.MetadataName))*3 + uint64(len(q.MetadataType))*11) % 50
}

// the date universe spans months and years, with day-of-month and month inversions
// (20-Jan < 3-Feb, 31-Dec-2020 < 1-Jan-2021), ascending in the index
var c19Days = []time.Time{
	time.Date(2019, 12, 30, 0, 0, 0, 0, time.UTC),
	time.Date(2020, 1, 20, 0, 0, 0, 0, time.UTC),
	time.Date(2020, 2, 3, 0, 0, 0, 0, time.UTC),
	time.Date(2020, 2, 4, 0, 0, 0, 0, time.UTC),
	time.Date(2020, 3, 1, 0, 0, 0, 0, time.UTC),
	time.Date(2020, 12, 31, 0, 0, 0, 0, time.UTC),
	time.Date(2021, 1, 1, 0, 0, 0, 0, time.UTC),
}

func dayN(n int) time.Time {
	if n < 0 {
		n = 0
	}
	if n >= len(c19Days) {
		n = len(c19Days) - 1
	}
	return c19Days[n]
}

func universe() []uMsg {
	var u []uMsg
	flagsets := [][]string{{}, {`\seen`}, {`\recent`}, {`\recent`, `\seen`}, {`\deleted`, `$a`}, {`\answered`, `\flagged`, `\draft`, `$b`}}
	sizes := []int64{0, 1, 5, 6, 99, 100, 101, 5000}
	i := 0
	for d := 0; d < len(c19Days); d++ {
		for s := -1; s < len(c19Days); s += 2 {
			m := uMsg{Seq: uint32(i % 7), UID: uint32(i + 1), Date: dayN(d), Size: sizes[i%len(sizes)], Flags: map[string]bool{}}
			if s >= 0 {
				t := dayN(s)
				m.Sent = &t
			}
			for _, f := range flagsets[i%len(flagsets)] {
				m.Flags[f] = true
			}
			m.Text = []string{"hello world", "HELLO", "foo bar", ""}[i%4]
			m.Body = []string{"world", "bar", "", "hello"}[(i/2)%4]
			m.ModSeq = uint64(i*13) % 50
			m.Hdr = map[string]string{}
			if i%3 != 0 {
				m.Hdr["subject"] = []string{"Hello", "re: foo"}[i%2]
			}
			if i%5 == 0 {
				m.Hdr["x-k"] = "v"
			}
			if i%2 == 0 {
				m.Hdr["from"] = "alice@example.org"
			}
			u = append(u, m)
			i++
		}
	}
	return u
}

// only the calendar dates are compared (SearchCriteria: "Only the date is used, the time and
// timezone are ignored"; RFC 3501 SINCE/BEFORE disregard time and timezone)
func dateOK(t time.Time, since, before time.Time) bool {
	if !since.IsZero() && calDay(t).Before(calDay(since)) {
		return false
	}
	if !before.IsZero() && !calDay(t).Before(calDay(before)) {
		return false
	}
	return true
}

func hdrOK(m *uMsg, k, v string) bool {
	hv, ok := m.Hdr[strings.ToLower(k)]
	if !ok {
		return false
	}
	return v == "" || strings.Contains(strings.ToLower(hv), strings.ToLower(v))
}

// c19Saved: the saved result of the previous SEARCH, which the imap.SearchRes() marker ("$",
// RFC 5182) stands for wherever it occurs among the UID sets of a criteria value. It overlaps
// every other field's partition of the universe without coinciding with any.
func c19Saved(uid uint32) bool { return uid%3 == 2 || uid == 4 || uid == 7 }

// countSearchRes: how many times the criteria (at any depth) refer to the saved result
func countSearchRes(c *imap.SearchCriteria) int {
	n := 0
	for _, s := range c.UID {
		if imap.IsSearchRes(s) {
			n++
		}
	}
	for i := range c.Not {
		n += countSearchRes(&c.Not[i])
	}
	for i := range c.Or {
		n += countSearchRes(&c.Or[i][0]) + countSearchRes(&c.Or[i][1])
	}
	return n
}

func hasSearchRes(c *imap.SearchCriteria) bool { return countSearchRes(c) > 0 }

// resDesc: the UID sets of a criteria value with the "$" marker made visible (the Coq rendering
// shows it as a set without ranges)
func resDesc(c *imap.SearchCriteria) string {
	var p []string
	for _, s := range c.UID {
		if imap.IsSearchRes(s) {
			p = append(p, "$")
		} else {
			p = append(p, fmt.Sprintf("%q", s.String()))
		}
	}
	return "UID[" + strings.Join(p, " ") + "]"
}

// critMatch: documented meaning of a SearchCriteria value (every populated field must hold).
func critMatch(m *uMsg, c *imap.SearchCriteria) bool {
	for _, s := range c.SeqNum {
		if m.Seq == 0 || !s.Contains(m.Seq) {
			return false
		}
	}
	for _, s := range c.UID {
		if imap.IsSearchRes(s) {
			if !c19Saved(m.UID) {
				return false
			}
			continue
		}
		if !s.Contains(imap.UID(m.UID)) {
			return false
		}
	}
	if !dateOK(m.Date, c.Since, c.Before) {
		return false
	}
	if !c.SentSince.IsZero() || !c.SentBefore.IsZero() {
		if m.Sent == nil || !dateOK(*m.Sent, c.SentSince, c.SentBefore) {
			return false
		}
	}
	for _, h := range c.Header {
		if !hdrOK(m, h.Key, h.Value) {
			return false
		}
	}
	for _, s := range c.Body {
		if !strings.Contains(strings.ToLower(m.Body), strings.ToLower(s)) {
			return false
		}
	}
	for _, s := range c.Text {
		if !strings.Contains(strings.ToLower(m.Text), strings.ToLower(s)) {
			return false
		}
	}
	for _, f := range c.Flag {
		if !m.Flags[strings.ToLower(string(f))] {
			return false
		}
	}
	for _, f := range c.NotFlag {
		if m.Flags[strings.ToLower(string(f))] {
			return false
		}
	}
	if c.Larger != 0 && m.Size <= c.Larger {
		return false
	}
	if c.Smaller != 0 && m.Size >= c.Smaller {
		return false
	}
	if c.ModSeq != nil && modOf(m, c.ModSeq) < c.ModSeq.ModSeq {
		return false
	}
	for i := range c.Not {
		if critMatch(m, &c.Not[i]) {
			return false
		}
	}
	for i := range c.Or {
		if !critMatch(m, &c.Or[i][0]) && !critMatch(m, &c.Or[i][1]) {
			return false
		}
	}
	return true
}

// ---- SEARCH keys --------------------------------------------------------------------------------

type sKey struct {
	K   string `json:"k"`
	S   string `json:"s,omitempty"`
	S2  string `json:"s2,omitempty"`
	D   int    `json:"d,omitempty"` // day index
	N   int64  `json:"n,omitempty"`
	Sub []sKey `json:"sub,omitempty"`
}

func imapDate(t time.Time) string { return t.Format("2-Jan-2006") }

func (k sKey) wire() string {
	switch k.K {
	case "ALL", "NEW", "OLD", "ANSWERED", "DELETED", "DRAFT", "FLAGGED", "RECENT", "SEEN",
		"UNANSWERED", "UNDELETED", "UNDRAFT", "UNFLAGGED", "UNSEEN":
		return k.K
	case "SEQ":
		return k.S
	case "UID":
		return "UID " + k.S
	case "RES":
		// the saved result of the previous SEARCH, written "$" or "UID $" (RFC 5182)
		return k.S
	case "KEYWORD", "UNKEYWORD":
		return k.K + " " + k.S
	case "HEADER":
		return fmt.Sprintf("HEADER %q %q", k.S, k.S2)
	case "BCC", "CC", "FROM", "SUBJECT", "TO", "BODY", "TEXT":
		return fmt.Sprintf("%s %q", k.K, k.S)
	case "SINCE", "BEFORE", "ON", "SENTSINCE", "SENTBEFORE", "SENTON":
		return k.K + " " + imapDate(dayN(k.D))
	case "LARGER", "SMALLER":
		return fmt.Sprintf("%s %d", k.K, k.N)
	case "NOT":
		return "NOT " + k.Sub[0].wire()
	case "OR":
		return "OR " + k.Sub[0].wire() + " " + k.Sub[1].wire()
	case "LIST":
		var p []string
		for _, s := range k.Sub {
			p = append(p, s.wire())
		}
		return "(" + strings.Join(p, " ") + ")"
	}
	panic("bad key " + k.K)
}

func title(s string) string { return s[:1] + strings.ToLower(s[1:]) }

func coqSetText(s string) string {
	set, err := imapserverParseSet(s)
	if err != nil {
		panic(err)
	}
	return coqNumSetRanges(set)
}

func imapserverParseSet(s string) (imap.SeqSet, error) {
	var set imap.SeqSet
	for _, e := range strings.Split(s, ",") {
		p := strings.SplitN(e, ":", 2)
		num := func(x string) uint32 {
			if x == "*" {
				return 0
			}
			var v uint32
			fmt.Sscanf(x, "%d", &v)
			return v
		}
		a := num(p[0])
		b := a
		if len(p) == 2 {
			b = num(p[1])
		}
		set.AddRange(a, b)
	}
	return set, nil
}

func (k sKey) coq() string {
	switch k.K {
	case "ALL":
		return "KAll"
	case "NEW":
		return "KNew"
	case "OLD":
		return "KOld"
	case "ANSWERED", "DELETED", "DRAFT", "FLAGGED", "RECENT", "SEEN":
		return "(KFlag " + coqHxS(`\`+title(k.K)) + ")"
	case "UNANSWERED", "UNDELETED", "UNDRAFT", "UNFLAGGED", "UNSEEN":
		return "(KNotFlag " + coqHxS(`\`+title(k.K[2:])) + ")"
	case "SEQ":
		return "(KSeq " + coqSetText(k.S) + ")"
	case "UID":
		return "(KUid " + coqSetText(k.S) + ")"
	case "RES":
		// the model has no saved result: "$" is an opaque UID set without ranges there (the
		// structure of the parsed criteria is compared; its meaning is checked by the Go oracle)
		return "(KUid " + coqList(nil) + ")"
	case "KEYWORD":
		return "(KFlag " + coqHxS(k.S) + ")"
	case "UNKEYWORD":
		return "(KNotFlag " + coqHxS(k.S) + ")"
	case "HEADER":
		return "(KHeader " + coqHxS(k.S) + " " + coqHxS(k.S2) + ")"
	case "BCC", "CC", "FROM", "SUBJECT", "TO":
		return "(KHeader " + coqHxS(title(k.K)) + " " + coqHxS(k.S) + ")"
	case "BODY":
		return "(KBody " + coqHxS(k.S) + ")"
	case "TEXT":
		return "(KText " + coqHxS(k.S) + ")"
	case "SINCE":
		return "(KSince " + coqZ(dayN(k.D).Unix()) + ")"
	case "BEFORE":
		return "(KBefore " + coqZ(dayN(k.D).Unix()) + ")"
	case "ON":
		return "(KOn " + coqZ(dayN(k.D).Unix()) + ")"
	case "SENTSINCE":
		return "(KSentSince " + coqZ(dayN(k.D).Unix()) + ")"
	case "SENTBEFORE":
		return "(KSentBefore " + coqZ(dayN(k.D).Unix()) + ")"
	case "SENTON":
		return "(KSentOn " + coqZ(dayN(k.D).Unix()) + ")"
	case "LARGER":
		return "(KLarger " + coqZ(k.N) + ")"
	case "SMALLER":
		return "(KSmaller " + coqZ(k.N) + ")"
	case "NOT":
		return "(KNot " + k.Sub[0].coq() + ")"
	case "OR":
		return "(KOr " + k.Sub[0].coq() + " " + k.Sub[1].coq() + ")"
	case "LIST":
		var p []string
		for _, s := range k.Sub {
			p = append(p, s.coq())
		}
		return "(KList " + coqList(p) + ")"
	}
	panic("bad key")
}

// keyMatch: RFC 3501 meaning of one SEARCH key, independent of SearchCriteria.
func keyMatch(m *uMsg, k sKey) bool {
	sent := func(f func(t time.Time) bool) bool { return m.Sent != nil && f(*m.Sent) }
	d := dayN(k.D)
	switch k.K {
	case "ALL":
		return true
	case "NEW":
		return m.Flags[`\recent`] && !m.Flags[`\seen`]
	case "OLD":
		return !m.Flags[`\recent`]
	case "ANSWERED", "DELETED", "DRAFT", "FLAGGED", "RECENT", "SEEN":
		return m.Flags[`\`+strings.ToLower(k.K)]
	case "UNANSWERED", "UNDELETED", "UNDRAFT", "UNFLAGGED", "UNSEEN":
		return !m.Flags[`\`+strings.ToLower(k.K[2:])]
	case "SEQ":
		s, _ := imapserverParseSet(k.S)
		return m.Seq != 0 && s.Contains(m.Seq)
	case "UID":
		s, _ := imapserverParseSet(k.S)
		return s.Contains(m.UID)
	case "RES":
		return c19Saved(m.UID)
	case "KEYWORD":
		return m.Flags[strings.ToLower(k.S)]
	case "UNKEYWORD":
		return !m.Flags[strings.ToLower(k.S)]
	case "HEADER":
		return hdrOK(m, k.S, k.S2)
	case "BCC", "CC", "FROM", "SUBJECT", "TO":
		return hdrOK(m, k.K, k.S)
	case "BODY":
		return strings.Contains(strings.ToLower(m.Body), strings.ToLower(k.S))
	case "TEXT":
		return strings.Contains(strings.ToLower(m.Text), strings.ToLower(k.S))
	case "SINCE":
		return !m.Date.Before(d)
	case "BEFORE":
		return m.Date.Before(d)
	case "ON":
		return m.Date.Equal(d)
	case "SENTSINCE":
		return sent(func(t time.Time) bool { return !t.Before(d) })
	case "SENTBEFORE":
		return sent(func(t time.Time) bool { return t.Before(d) })
	case "SENTON":
		return sent(func(t time.Time) bool { return t.Equal(d) })
	case "LARGER":
		return m.Size > k.N
	case "SMALLER":
		return m.Size < k.N
	case "NOT":
		return !keyMatch(m, k.Sub[0])
	case "OR":
		return keyMatch(m, k.Sub[0]) || keyMatch(m, k.Sub[1])
	case "LIST":
		for _, s := range k.Sub {
			if !keyMatch(m, s) {
				return false
			}
		}
		return true
	}
	panic("bad key")
}

// ---- generators -----------------------------------------------------------------------------------

type c19 struct {
	h *H
	u []uMsg
}

func (g *c19) randSet() string {
	r := g.h.Rng
	e := func() string {
		if r.Intn(8) == 0 {
			return "*"
		}
		return fmt.Sprint(1 + r.Intn(8))
	}
	var p []string
	for k := 1 + r.Intn(2); k > 0; k-- {
		if r.Intn(2) == 0 {
			p = append(p, e())
		} else {
			p = append(p, e()+":"+e())
		}
	}
	return strings.Join(p, ",")
}

var simpleKeys = []string{"ALL", "NEW", "OLD", "ANSWERED", "DELETED", "DRAFT", "FLAGGED", "RECENT", "SEEN",
	"UNANSWERED", "UNDELETED", "UNDRAFT", "UNFLAGGED", "UNSEEN"}

func (g *c19) randKey(depth int) sKey {
	r := g.h.Rng
	n := 12
	if depth > 0 {
		n = 15
	}
	switch r.Intn(n) {
	case 0, 1:
		return sKey{K: simpleKeys[r.Intn(len(simpleKeys))]}
	case 2:
		return sKey{K: "SEQ", S: g.randSet()}
	case 3:
		if r.Intn(4) == 0 {
			return sKey{K: "RES", S: []string{"$", "UID $"}[r.Intn(2)]}
		}
		return sKey{K: "UID", S: g.randSet()}
	case 4:
		return sKey{K: []string{"KEYWORD", "UNKEYWORD"}[r.Intn(2)], S: []string{"$a", "$b", "$c"}[r.Intn(3)]}
	case 5:
		if r.Intn(2) == 0 {
			return sKey{K: "HEADER", S: []string{"X-K", "Subject", "from"}[r.Intn(3)], S2: []string{"", "v", "foo", "ALICE"}[r.Intn(4)]}
		}
		return sKey{K: []string{"BCC", "CC", "FROM", "SUBJECT", "TO"}[r.Intn(5)], S: []string{"", "hello", "foo", "alice"}[r.Intn(4)]}
	case 6, 7:
		return sKey{K: []string{"SINCE", "BEFORE", "ON", "SENTSINCE", "SENTBEFORE", "SENTON"}[r.Intn(6)], D: r.Intn(len(c19Days))}
	case 8:
		return sKey{K: []string{"BODY", "TEXT"}[r.Intn(2)], S: []string{"hello", "WORLD", "bar", "zzz"}[r.Intn(4)]}
	case 9, 10, 11:
		return sKey{K: []string{"LARGER", "SMALLER"}[r.Intn(2)], N: []int64{1, 5, 6, 99, 100, 101, 4999, 6000}[r.Intn(8)]}
	case 12:
		return sKey{K: "NOT", Sub: []sKey{g.randKey(depth - 1)}}
	case 13:
		return sKey{K: "OR", Sub: []sKey{g.randKey(depth - 1), g.randKey(depth - 1)}}
	default:
		var sub []sKey
		for k := 1 + r.Intn(3); k > 0; k-- {
			sub = append(sub, g.randKey(depth-1))
		}
		return sKey{K: "LIST", Sub: sub}
	}
}

func (g *c19) randCriteria(depth int) imap.SearchCriteria {
	r := g.h.Rng
	var c imap.SearchCriteria
	pick := func() bool { return r.Intn(3) == 0 }
	if pick() {
		s, _ := imapserverParseSet(g.randSet())
		c.SeqNum = append(c.SeqNum, s)
	}
	if pick() {
		s, _ := imapserverParseSet(g.randSet())
		var u imap.UIDSet
		for _, x := range s {
			u = append(u, imap.UIDRange{Start: imap.UID(x.Start), Stop: imap.UID(x.Stop)})
		}
		c.UID = append(c.UID, u)
	}
	// the saved search result as a UID constraint, alone or next to an ordinary UID set
	if r.Intn(8) == 0 {
		c.UID = append(c.UID, imap.SearchRes())
	}
	if pick() {
		c.Since = dayN(r.Intn(len(c19Days)))
	}
	if pick() {
		c.Before = dayN(r.Intn(len(c19Days)))
	}
	if pick() {
		c.SentSince = dayN(r.Intn(len(c19Days)))
	}
	if pick() {
		c.SentBefore = dayN(r.Intn(len(c19Days)))
	}
	if pick() {
		c.Header = append(c.Header, imap.SearchCriteriaHeaderField{Key: []string{"Subject", "X-K", "From"}[r.Intn(3)], Value: []string{"", "foo", "v"}[r.Intn(3)]})
	}
	if pick() {
		c.Body = append(c.Body, []string{"world", "bar"}[r.Intn(2)])
	}
	if pick() {
		c.Text = append(c.Text, []string{"hello", "foo"}[r.Intn(2)])
	}
	fl := []imap.Flag{imap.FlagSeen, imap.FlagDeleted, "\\Recent", "$a", "$b", imap.FlagFlagged}
	if pick() {
		c.Flag = append(c.Flag, fl[r.Intn(len(fl))])
	}
	if pick() {
		c.NotFlag = append(c.NotFlag, fl[r.Intn(len(fl))])
	}
	sz := []int64{0, 0, 1, 5, 6, 99, 100, 101, 5000, -1}
	if pick() {
		c.Larger = sz[r.Intn(len(sz))]
	}
	if pick() {
		c.Smaller = sz[r.Intn(len(sz))]
	}
	if r.Intn(4) == 0 {
		c.ModSeq = g.randModSeq()
	}
	// bounds that are not UTC midnights: only their calendar date (in their own zone) counts
	if r.Intn(6) == 0 {
		c.Since = g.zoned(c.Since)
		c.Before = g.zoned(c.Before)
		c.SentSince = g.zoned(c.SentSince)
		c.SentBefore = g.zoned(c.SentBefore)
	}
	if depth > 0 && r.Intn(4) == 0 {
		c.Not = append(c.Not, g.randCriteria(depth-1))
	}
	if depth > 0 && r.Intn(4) == 0 {
		c.Or = append(c.Or, [2]imap.SearchCriteria{g.randCriteria(depth - 1), g.randCriteria(depth - 1)})
	}
	return c
}

func (g *c19) randModSeq() *imap.SearchCriteriaModSeq {
	r := g.h.Rng
	q := &imap.SearchCriteriaModSeq{ModSeq: []uint64{1, 5, 20, 42, 49}[r.Intn(5)]}
	if r.Intn(3) == 0 {
		q.MetadataName = []string{"/flags/\\seen", "/flags/\\draft"}[r.Intn(2)]
		q.MetadataType = []imap.SearchCriteriaMetadataType{imap.SearchCriteriaMetadataAll, imap.SearchCriteriaMetadataPrivate, imap.SearchCriteriaMetadataShared}[r.Intn(3)]
	}
	return q
}

// zoned: the same calendar date written with a time of day and a zone far from UTC
func (g *c19) zoned(t time.Time) time.Time {
	if t.IsZero() {
		return t
	}
	r := g.h.Rng
	off := []int{14 * 3600, -10 * 3600, -12 * 3600, 5*3600 + 1800, 0}[r.Intn(5)]
	return time.Date(t.Year(), t.Month(), t.Day(), []int{0, 1, 12, 23}[r.Intn(4)], r.Intn(60), 0, 0, time.FixedZone("", off))
}

// the message is excluded by the operand's own (top-level) ModSeq constraint
func failsModSeq(m *uMsg, c *imap.SearchCriteria) bool {
	return c.ModSeq != nil && modOf(m, c.ModSeq) < c.ModSeq.ModSeq
}

func offDay(c *imap.SearchCriteria) bool {
	for _, t := range []time.Time{c.Since, c.Before, c.SentSince, c.SentBefore} {
		if !t.IsZero() && !t.Equal(calDay(t)) {
			return true
		}
	}
	return false
}

func cloneCrit(c imap.SearchCriteria) imap.SearchCriteria {
	b, _ := json.Marshal(c)
	_ = b
	// deep copy by hand for the slices And appends to
	d := c
	d.SeqNum = append([]imap.SeqSet(nil), c.SeqNum...)
	d.UID = append([]imap.UIDSet(nil), c.UID...)
	d.Header = append([]imap.SearchCriteriaHeaderField(nil), c.Header...)
	d.Body = append([]string(nil), c.Body...)
	d.Text = append([]string(nil), c.Text...)
	d.Flag = append([]imap.Flag(nil), c.Flag...)
	d.NotFlag = append([]imap.Flag(nil), c.NotFlag...)
	d.Not = append([]imap.SearchCriteria(nil), c.Not...)
	d.Or = append([][2]imap.SearchCriteria(nil), c.Or...)
	if c.ModSeq != nil {
		q := *c.ModSeq
		d.ModSeq = &q
	}
	return d
}

func critDesc(c *imap.SearchCriteria) string { return coqXCriteria(c) }

func runC19(h *H) {
	imports := []string{"From GoImap.Base Require Import Bytes.", "From GoImap.Model Require Import NumSet Search SearchCorr."}
	andCorr := h.NewCorr("and", append(append([]string(nil), imports...), "From GoImap.Model Require Import SearchModSeq."), "xand_mismatches", 400).Type("xand_case")
	keyCorr := h.NewCorr("keys", imports, "keys_mismatches", 400).Type("keys_case")
	g := &c19{h: h, u: universe()}
	h.Rule("(1) SearchCriteria.And on generated pairs of criteria (every field set/unset, sizes incl. 0 and negative, UID sets incl. the SEARCHRES marker imap.SearchRes() standing for a fixed saved result, nested NOT/OR to depth 2): field-by-field against the model, and match results of an independent matcher on a message universe whose dates span months and years distinguishing every field; (2) SEARCH commands (1..5 keys, all key kinds incl. the saved result $ / UID $, NOT/OR/parenthesised lists, every permutation when <= 4 keys) through the real server parser to a recording stub session: recorded criteria against the model's parse_keys and against the RFC meaning of each key on the universe. Non-trivial = both operands constrain the same date/size field, or the command has >= 2 keys; distinct by rendered case.")

	checkAnd := func(a, b imap.SearchCriteria, src string) {
		a0 := cloneCrit(a)
		res := cloneCrit(a)
		res.And(&b)
		desc := map[string]interface{}{"a": critDesc(&a0), "b": critDesc(&b), "and": critDesc(&res)}
		if hasSearchRes(&a0) || hasSearchRes(&b) {
			desc["uid_sets"] = map[string]string{"a": resDesc(&a0), "b": resDesc(&b), "and": resDesc(&res)}
			h.Hist("and:searchres-operand")
		}
		h.InFlight(desc)
		for i := range g.u {
			m := &g.u[i]
			want := critMatch(m, &a0) && critMatch(m, &b)
			if got := critMatch(m, &res); got != want {
				lost := "other"
				switch {
				case countSearchRes(&res) != countSearchRes(&a0)+countSearchRes(&b):
					lost = "searchres-lost"
				case got && (failsModSeq(m, &a0) || failsModSeq(m, &b)):
					lost = "modseq-lost"
				case offDay(&a0) || offDay(&b):
					lost = "date-zone"
				case a0.Smaller != 0 && b.Smaller == 0 && res.Smaller == 0:
					lost = "smaller-lost"
				case res.Larger != a0.Larger && res.Larger != b.Larger:
					lost = "larger"
				}
				desc["message"] = fmt.Sprintf("%+v", *m)
				h.Fail("and-not-intersection:"+lost, fmt.Sprintf("a.And(b) matches=%v but a matches=%v and b matches=%v on a message of size %d", got, critMatch(m, &a0), critMatch(m, &b), m.Size), desc)
				break
			}
		}
		key := ""
		if (a0.Smaller != 0 || b.Smaller != 0) || b.ModSeq != nil || hasSearchRes(&a0) || hasSearchRes(&b) || (a0.Larger != 0 && b.Larger != 0) || (!a0.Since.IsZero() && !b.Since.IsZero()) || (!a0.Before.IsZero() && !b.Before.IsZero()) {
			key = "and|" + critDesc(&a0) + "|" + critDesc(&b) + "|" + resDesc(&a0) + resDesc(&b)
		}
		h.Eval(key)
		h.Hist("and:" + src)
		andCorr.Add("("+coqXCriteria(&a0)+", "+coqXCriteria(&b)+", "+coqXCriteria(&res)+")", desc)
		if key != "" && h.Rng.Intn(200) == 0 {
			h.Sample(desc)
		}
	}

	// server with a recording stub
	var recorded *imap.SearchCriteria
	ts := startServer(srvOpts{InsecureAuth: true, Configure: func(s *stubSession) {
		s.onSearch = func(kind imapserver.NumKind, c *imap.SearchCriteria, o *imap.SearchOptions) (*imap.SearchData, error) {
			recorded = c
			return &imap.SearchData{All: imap.SeqSet{}}, nil
		}
	}})
	defer ts.Close()
	rc := ts.dial()
	defer rc.Close()
	rc.greeting()
	rc.cmd("LOGIN u p")
	rc.cmd("SELECT INBOX")

	checkKeys := func(keys []sKey, src string) {
		var ws, cs []string
		for _, k := range keys {
			ws = append(ws, k.wire())
			cs = append(cs, k.coq())
		}
		line := "SEARCH " + strings.Join(ws, " ")
		desc := map[string]interface{}{"command": line, "keys": keys}
		h.InFlight(desc)
		recorded = nil
		_, tagged, err := rc.cmd(line)
		if err != nil || respClass(tagged) != "OK" || recorded == nil {
			h.Fail("search-rejected", fmt.Sprintf("valid SEARCH command not accepted: %q -> %q (%v)", line, tagged, err), desc)
			if err != nil {
				panic(fmt.Sprintf("connection lost on %q: %v", line, err))
			}
			return
		}
		desc["recorded"] = critDesc(recorded)
		for i := range g.u {
			m := &g.u[i]
			want := true
			for _, k := range keys {
				want = want && keyMatch(m, k)
			}
			if got := critMatch(m, recorded); got != want {
				kind := "other"
				for _, k := range keys {
					if k.K == "NEW" {
						kind = "NEW"
					}
				}
				if kind == "other" && strings.Contains(line, "SMALLER") {
					kind = "SMALLER"
				}
				desc["message"] = fmt.Sprintf("%+v", *m)
				h.Fail("keys-not-conjunction:"+kind, fmt.Sprintf("%q: parsed criteria match=%v, conjunction of the keys=%v", line, got, want), desc)
				break
			}
		}
		key := ""
		if len(keys) >= 2 {
			key = "keys|" + line
		}
		h.Eval(key)
		h.Hist("keys:" + src)
		h.Hist(fmt.Sprintf("nkeys:%d", len(keys)))
		keyCorr.Add("("+coqList(cs)+", "+coqCriteria(recorded)+")", desc)
		if key != "" && h.Rng.Intn(300) == 0 {
			h.Sample(map[string]interface{}{"command": line})
		}
	}

	if h.Replay != "" {
		var wrap struct {
			Case struct {
				Keys []sKey `json:"keys"`
			} `json:"case"`
		}
		b, _ := os.ReadFile(h.Replay)
		json.Unmarshal(b, &wrap)
		if len(wrap.Case.Keys) > 0 {
			checkKeys(wrap.Case.Keys, "replay")
		} else {
			h.Note("And replays are re-run through the corpus (criteria are not serialised)")
		}
	}

	// corpus
	checkAnd(imap.SearchCriteria{Smaller: 100}, imap.SearchCriteria{Larger: 5}, "corpus")
	checkAnd(imap.SearchCriteria{Larger: 5}, imap.SearchCriteria{Smaller: 100}, "corpus")
	checkAnd(imap.SearchCriteria{Smaller: 100}, imap.SearchCriteria{Smaller: 6}, "corpus")
	checkAnd(imap.SearchCriteria{Smaller: 6}, imap.SearchCriteria{Smaller: 100}, "corpus")
	checkAnd(imap.SearchCriteria{Larger: 100}, imap.SearchCriteria{Larger: 5}, "corpus")
	checkAnd(imap.SearchCriteria{Since: dayN(1)}, imap.SearchCriteria{Since: dayN(3)}, "corpus")
	checkAnd(imap.SearchCriteria{Before: dayN(1)}, imap.SearchCriteria{Before: dayN(3)}, "corpus")
	checkAnd(imap.SearchCriteria{Smaller: 100, Since: dayN(1)}, imap.SearchCriteria{Before: dayN(3)}, "corpus")
	// ModSeq (CONDSTORE) is a constraint like any other: unset/set, same and different metadata entries
	{
		ms := func(v uint64, name string, typ imap.SearchCriteriaMetadataType) imap.SearchCriteria {
			return imap.SearchCriteria{ModSeq: &imap.SearchCriteriaModSeq{ModSeq: v, MetadataName: name, MetadataType: typ}}
		}
		seen := imap.SearchCriteria{Flag: []imap.Flag{imap.FlagSeen}}
		checkAnd(seen, ms(42, "", ""), "corpus-modseq")
		checkAnd(ms(42, "", ""), seen, "corpus-modseq")
		checkAnd(ms(5, "", ""), ms(42, "", ""), "corpus-modseq")
		checkAnd(ms(42, "", ""), ms(5, "", ""), "corpus-modseq")
		checkAnd(ms(20, "", ""), ms(20, "", ""), "corpus-modseq")
		checkAnd(ms(5, "/flags/\\seen", imap.SearchCriteriaMetadataAll), ms(42, "", ""), "corpus-modseq")
		checkAnd(ms(42, "/flags/\\seen", imap.SearchCriteriaMetadataPrivate), ms(5, "/flags/\\seen", imap.SearchCriteriaMetadataShared), "corpus-modseq")
		checkAnd(ms(5, "/flags/\\seen", imap.SearchCriteriaMetadataPrivate), ms(42, "/flags/\\seen", imap.SearchCriteriaMetadataPrivate), "corpus-modseq")
		checkAnd(imap.SearchCriteria{Not: []imap.SearchCriteria{ms(20, "", "")}}, ms(5, "", ""), "corpus-modseq")
	}
	// the saved search result "$" (imap.SearchRes(), recognised by identity) is a UID constraint
	// like any other: with every kind of other operand, in both orders, next to ordinary UID
	// sets, twice, and inside NOT / OR
	{
		res := func() imap.SearchCriteria { return imap.SearchCriteria{UID: []imap.UIDSet{imap.SearchRes()}} }
		var u14 imap.UIDSet
		u14.AddRange(1, 14)
		var s15 imap.SeqSet
		s15.AddRange(1, 5)
		others := []imap.SearchCriteria{
			{}, {Flag: []imap.Flag{imap.FlagSeen}}, {NotFlag: []imap.Flag{imap.FlagSeen}}, {UID: []imap.UIDSet{u14}}, {SeqNum: []imap.SeqSet{s15}},
			{Since: dayN(2)}, {Smaller: 100}, {Text: []string{"hello"}}, {ModSeq: &imap.SearchCriteriaModSeq{ModSeq: 20}}, res(),
			{UID: []imap.UIDSet{u14, imap.SearchRes()}},
			{Not: []imap.SearchCriteria{res()}},
			{Or: [][2]imap.SearchCriteria{{res(), {Flag: []imap.Flag{imap.FlagSeen}}}}},
		}
		for _, o := range others {
			checkAnd(o, res(), "corpus-searchres")
			checkAnd(res(), o, "corpus-searchres")
		}
	}
	// date bounds written in zones far from UTC: the calendar date decides, not the instant
	{
		east := time.FixedZone("", 14*3600)
		west := time.FixedZone("", -10*3600)
		for d := 1; d+1 < len(c19Days); d++ {
			y, mo, dd := dayN(d).Date()
			lateE := time.Date(y, mo, dd+1, 0, 0, 0, 0, east) // calendar date d+1, instant before (d, 23:00 west)
			earlyW := time.Date(y, mo, dd, 23, 0, 0, 0, west) // calendar date d
			checkAnd(imap.SearchCriteria{Since: lateE}, imap.SearchCriteria{Since: earlyW}, "corpus-zone")
			checkAnd(imap.SearchCriteria{Since: earlyW}, imap.SearchCriteria{Since: lateE}, "corpus-zone")
			checkAnd(imap.SearchCriteria{Before: lateE}, imap.SearchCriteria{Before: earlyW}, "corpus-zone")
			checkAnd(imap.SearchCriteria{Before: earlyW}, imap.SearchCriteria{Before: lateE}, "corpus-zone")
			checkAnd(imap.SearchCriteria{SentSince: lateE}, imap.SearchCriteria{SentSince: earlyW}, "corpus-zone")
			checkAnd(imap.SearchCriteria{SentBefore: earlyW}, imap.SearchCriteria{SentBefore: lateE}, "corpus-zone")
		}
	}
	for a := 0; a < len(c19Days); a++ {
		for b := 0; b < len(c19Days); b++ {
			checkAnd(imap.SearchCriteria{Since: dayN(a)}, imap.SearchCriteria{Since: dayN(b)}, "corpus")
			checkAnd(imap.SearchCriteria{Before: dayN(a)}, imap.SearchCriteria{Before: dayN(b)}, "corpus")
			checkAnd(imap.SearchCriteria{SentSince: dayN(a)}, imap.SearchCriteria{SentSince: dayN(b)}, "corpus")
			checkAnd(imap.SearchCriteria{SentBefore: dayN(a)}, imap.SearchCriteria{SentBefore: dayN(b)}, "corpus")
		}
	}
	for _, ks := range [][]sKey{
		{{K: "UNDELETED"}, {K: "NEW"}}, {{K: "NEW"}, {K: "UNDELETED"}}, {{K: "NEW"}},
		{{K: "SMALLER", N: 100}, {K: "LARGER", N: 5}}, {{K: "LARGER", N: 5}, {K: "SMALLER", N: 100}},
		{{K: "SMALLER", N: 100}, {K: "SINCE", D: 1}}, {{K: "SINCE", D: 1}, {K: "SMALLER", N: 100}},
		{{K: "ON", D: 2}, {K: "SINCE", D: 1}}, {{K: "SENTON", D: 2}, {K: "SENTBEFORE", D: 4}},
		// a date key whose day lies outside the range set by an earlier one: the result is empty
		{{K: "SINCE", D: 3}, {K: "ON", D: 1}}, {{K: "BEFORE", D: 1}, {K: "ON", D: 3}}, {{K: "ON", D: 1}, {K: "ON", D: 3}}, {{K: "ON", D: 3}, {K: "ON", D: 1}},
		{{K: "SENTSINCE", D: 3}, {K: "SENTON", D: 1}}, {{K: "SENTBEFORE", D: 1}, {K: "SENTON", D: 3}}, {{K: "SENTON", D: 2}, {K: "SENTON", D: 4}},
		{{K: "BEFORE", D: 2}, {K: "BEFORE", D: 1}}, {{K: "BEFORE", D: 1}, {K: "BEFORE", D: 2}}, {{K: "SINCE", D: 2}, {K: "SINCE", D: 1}}, {{K: "SINCE", D: 5}, {K: "SINCE", D: 6}},
		{{K: "SENTON", D: 2}, {K: "SENTBEFORE", D: 1}}, {{K: "SENTSINCE", D: 6}, {K: "SENTSINCE", D: 5}},
		{{K: "NOT", Sub: []sKey{{K: "LIST", Sub: []sKey{{K: "SEEN"}, {K: "SMALLER", N: 100}}}}}},
		{{K: "OR", Sub: []sKey{{K: "SEEN"}, {K: "LIST", Sub: []sKey{{K: "LARGER", N: 5}, {K: "SMALLER", N: 100}}}}}},
		// the saved result among other keys, in both spellings
		{{K: "SEEN"}, {K: "RES", S: "$"}}, {{K: "RES", S: "UID $"}, {K: "UID", S: "1:14"}, {K: "SMALLER", N: 100}},
		{{K: "NOT", Sub: []sKey{{K: "RES", S: "$"}}}, {K: "SINCE", D: 1}}, {{K: "LIST", Sub: []sKey{{K: "RES", S: "$"}, {K: "SEEN"}}}, {K: "RES", S: "UID $"}},
	} {
		checkKeys(ks, "corpus")
	}
	// And must copy: the receiver may not share memory with its operand (history-dependent: the
	// same base And-ed into two receivers, each extended afterwards)
	{
		mk := func() imap.SearchCriteria {
			b := imap.SearchCriteria{}
			b.Flag = append(make([]imap.Flag, 0, 4), imap.FlagSeen)
			b.NotFlag = append(make([]imap.Flag, 0, 4), imap.FlagDeleted)
			b.Text = append(make([]string, 0, 4), "hello")
			b.Body = append(make([]string, 0, 4), "world")
			b.Header = append(make([]imap.SearchCriteriaHeaderField, 0, 4), imap.SearchCriteriaHeaderField{Key: "Subject", Value: "foo"})
			b.Not = append(make([]imap.SearchCriteria, 0, 4), imap.SearchCriteria{Larger: 5})
			b.Or = append(make([][2]imap.SearchCriteria, 0, 4), [2]imap.SearchCriteria{{Smaller: 100}, {Larger: 5000}})
			var us imap.UIDSet
			us.AddRange(1, 9)
			b.UID = append(make([]imap.UIDSet, 0, 4), us)
			var ss imap.SeqSet
			ss.AddRange(1, 5)
			b.SeqNum = append(make([]imap.SeqSet, 0, 4), ss)
			b.ModSeq = &imap.SearchCriteriaModSeq{ModSeq: 7}
			return b
		}
		extra := func(i int) imap.SearchCriteria {
			var us imap.UIDSet
			us.AddNum(imap.UID(100 + i))
			var ss imap.SeqSet
			ss.AddNum(uint32(200 + i))
			return imap.SearchCriteria{Flag: []imap.Flag{imap.Flag(fmt.Sprintf("$k%d", i))}, NotFlag: []imap.Flag{imap.Flag(fmt.Sprintf("$n%d", i))},
				Text: []string{fmt.Sprintf("t%d", i)}, Body: []string{fmt.Sprintf("b%d", i)},
				Header: []imap.SearchCriteriaHeaderField{{Key: "X-K", Value: fmt.Sprint(i)}},
				Not:    []imap.SearchCriteria{{Smaller: int64(1000 + i)}}, Or: [][2]imap.SearchCriteria{{{Larger: int64(i)}, {Smaller: int64(i)}}},
				UID: []imap.UIDSet{us}, SeqNum: []imap.SeqSet{ss}}
		}
		base := mk()
		baseBefore := critDesc(&base)
		var d1, d2 imap.SearchCriteria
		d1.And(&base)
		e4 := extra(4)
		d1.And(&e4)
		d1Before := critDesc(&d1)
		d2.And(&base)
		e5 := extra(5)
		d2.And(&e5)
		desc := map[string]interface{}{"scenario": "base And-ed into two empty receivers, each then And-ed with its own extra criteria"}
		if got := critDesc(&d1); got != d1Before {
			h.Fail("and-aliases-operand", "building a second criteria from the same base changed the first one: "+d1Before+" became "+got, desc)
		}
		if got := critDesc(&base); got != baseBefore {
			h.Fail("and-aliases-operand", "And-ing further criteria into a receiver changed the operand it had been built from", desc)
		}
		// the operand keeps being modified by its owner
		var d3 imap.SearchCriteria
		base3 := mk()
		d3.And(&base3)
		d3Before := critDesc(&d3)
		base3.Flag = append(base3.Flag, "$later")
		base3.Text[0] = "changed"
		base3.ModSeq.ModSeq = 99
		if got := critDesc(&d3); got != d3Before {
			h.Fail("and-aliases-operand", "modifying the operand after And changed the receiver", desc)
		}
		h.Eval("and-aliasing")
		h.Hist("src:aliasing")
	}
	// random And pairs
	for i := 0; i < h.Pick(1500, 30000); i++ {
		checkAnd(g.randCriteria(2), g.randCriteria(2), "random")
	}
	// random key lists, with all permutations for short ones
	var perms func(a []sKey, k int, f func([]sKey))
	perms = func(a []sKey, k int, f func([]sKey)) {
		if k == len(a) {
			f(append([]sKey(nil), a...))
			return
		}
		for i := k; i < len(a); i++ {
			a[k], a[i] = a[i], a[k]
			perms(a, k+1, f)
			a[k], a[i] = a[i], a[k]
		}
	}
	for i := 0; i < h.Pick(250, 4000); i++ {
		var ks []sKey
		for k := 1 + h.Rng.Intn(5); k > 0; k-- {
			ks = append(ks, g.randKey(2))
		}
		if len(ks) <= h.Pick(3, 4) {
			perms(ks, 0, func(p []sKey) { checkKeys(p, "random-permuted") })
		} else {
			checkKeys(ks, "random")
		}
	}
}
