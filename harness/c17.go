package main

import (
	"bufio"
	"crypto/tls"
	"fmt"
	"io"
	"net"
	"strings"
	"sync"
	"time"

	imap "github.com/emersion/go-imap/v2"
	"github.com/emersion/go-imap/v2/imapclient"
)

func init() { runners["C17"] = runC17 }

// pipelineConn lets crypto/tls run over a raw connection on which the STARTTLS command line
// has not been written yet: the first TLS write (ClientHello) is sent together with the
// pending plaintext, cut into the given chunk sizes, and the plaintext reply line is consumed
// before the first TLS read.
type pipelineConn struct {
	net.Conn
	br       *bufio.Reader
	pending  []byte // plaintext to send in front of the first TLS write
	takeTLS  int    // how many bytes of the first TLS write go into the same burst (-1 = all)
	chunks   []int
	wrote    bool
	gotReply bool
	reply    string
	extra    []byte // plaintext written after the hello prefix? (unused)
}

func (p *pipelineConn) Write(b []byte) (int, error) {
	if p.wrote {
		return p.Conn.Write(b)
	}
	p.wrote = true
	n := p.takeTLS
	if n < 0 || n > len(b) {
		n = len(b)
	}
	burst := append(append([]byte(nil), p.pending...), b[:n]...)
	if err := writeChunks(p.Conn, burst, p.chunks); err != nil {
		return 0, err
	}
	if n < len(b) {
		if _, err := p.Conn.Write(b[n:]); err != nil {
			return 0, err
		}
	}
	return len(b), nil
}

func (p *pipelineConn) Read(b []byte) (int, error) {
	if !p.gotReply {
		p.gotReply = true
		l, err := p.br.ReadString('\n')
		p.reply = l
		if err != nil {
			return 0, err
		}
	}
	return p.br.Read(b)
}

func writeChunks(c net.Conn, data []byte, sizes []int) error {
	i := 0
	for len(data) > 0 {
		n := len(data)
		if i < len(sizes) && sizes[i] < n {
			n = sizes[i]
		}
		i++
		if _, err := c.Write(data[:n]); err != nil {
			return err
		}
		data = data[n:]
		if len(data) > 0 {
			time.Sleep(300 * time.Microsecond) // let the reads see separate segments
		}
	}
	return nil
}

func splitBy(data []byte, sizes []int) [][]byte {
	var out [][]byte
	i := 0
	for len(data) > 0 {
		n := len(data)
		if i < len(sizes) && sizes[i] < n {
			n = sizes[i]
		}
		i++
		out = append(out, data[:n])
		data = data[n:]
	}
	return out
}

func runC17(h *H) {
	imports := []string{"From GoImap.Base Require Import Bytes.", "From GoImap.Model Require Import StartTLS StartTLSCorr."}
	corr := h.NewCorr("switch", imports, "tls_mismatches", 400).Type("tls_case")
	h.Rule("server side: the STARTTLS command line followed, in the same bursts, by (a) plaintext commands with their own tags (LOGIN, CREATE, NOOP, several lines), (b) a prefix of length 0..n of the genuine TLS ClientHello, cut into network writes at every split pattern of a small family; oracle: a plaintext suffix is never answered nor executed (no backend call, no plaintext response after the STARTTLS OK) and makes the handshake fail, a genuine TLS prefix makes the handshake succeed with nothing lost or duplicated and LOGIN then works over TLS; after the failed handshake plaintext sent in a later write is not executed either; one server behind an implicit-TLS and a plaintext listener tells plaintext connections LOGINDISABLED/STARTTLS and no AUTH= whichever connection came first; servers with and without InsecureAuth never run LOGIN — nor AUTHENTICATE with a SessionSASL backend — before TLS unless InsecureAuth. Client side: a scripted server appends plaintext responses (CAPABILITY, EXISTS, BYE, tagged lines) to its STARTTLS OK — whose own shape varies: plain text, [ALERT], a [CAPABILITY ...] code, an unknown code with arguments, no text — under the same split patterns: the client must not act on them and, once NewStartTLS has succeeded, the first bytes the peer receives on the raw socket are a TLS handshake record, never a plaintext command (capabilities unchanged, first command fails in the TLS layer), and greetings PREAUTH and BYE make NewStartTLS fail. Model: for the same chunking the model's switch must hand exactly the suffix to the TLS layer. Non-trivial = non-empty suffix; distinct by (side, suffix, chunking).")

	line := "A1 STARTTLS\r\n"
	plainSuffixes := []string{"A2 LOGIN user pass\r\n", "A2 NOOP\r\n", "A2 CREATE evil\r\nA3 LOGIN u p\r\n", "A2 LOGIN {4+}\r\nuser pass\r\n", "\r\n", "x"}
	chunkings := [][]int{{1 << 20}, {len(line)}, {len(line) - 1}, {len(line) + 1}, {1, 1, 1, 1, 1, 1, 1, 1, 1, 1, 1, 1, 1, 1, 1, 1}, {3, 5, 7, 11}, {len(line) - 2, 1, 1, 1, 1}, {5, 1 << 20}}
	if h.Thorough() {
		for k := 1; k < len(line)+8; k++ {
			chunkings = append(chunkings, []int{k, 1 << 20}, []int{k, 2, 1 << 20})
		}
	}

	for _, insecure := range []bool{false, true} {
		ts := startServer(srvOpts{InsecureAuth: insecure, TLSConfig: testTLSConfig})
		// ---- (a) plaintext suffix ----
		for _, suf := range plainSuffixes {
			for ci, sizes := range chunkings {
				desc := map[string]interface{}{"side": "server", "suffix": suf, "chunks": sizes, "insecure": insecure}
				h.InFlight(desc)
				c, err := net.Dial("tcp", ts.ln.Addr().String())
				if err != nil {
					panic(err)
				}
				c.SetDeadline(time.Now().Add(15 * time.Second))
				br := bufio.NewReader(c)
				br.ReadString('\n')
				stub := ts.lastSession()
				burst := []byte(line + suf)
				writeChunks(c, burst, sizes)
				reply, _ := br.ReadString('\n')
				if !strings.HasPrefix(reply, "A1 OK") {
					h.Fail("starttls-refused", fmt.Sprintf("STARTTLS not accepted: %q", reply), desc)
				}
				// now try the handshake: it must fail, and nothing plaintext may come back
				hsErr := tls.Client(&readerConn{Conn: c, r: br}, &tls.Config{InsecureSkipVerify: true}).Handshake()
				// the handshake is over (failed): plaintext sent in a LATER write must not be
				// executed either — the server must not fall back to the unencrypted stream
				c.SetDeadline(time.Now().Add(time.Second))
				c.Write([]byte("A8 LOGIN mallory secret\r\nA9 NOOP\r\n"))
				// whatever arrives afterwards must not be a plaintext IMAP response to the suffix
				c.SetDeadline(time.Now().Add(150 * time.Millisecond))
				rest, _ := io.ReadAll(br)
				c.Close()
				time.Sleep(2 * time.Millisecond)
				calls := stub.Calls()
				for _, k := range calls {
					h.Fail("plaintext-after-starttls-executed:"+k.Name, fmt.Sprintf("backend call %s %v made from plaintext sent after the STARTTLS line", k.Name, k.Args), desc)
				}
				if strings.Contains(string(rest), "A2 ") || strings.Contains(string(rest), "A3 ") || strings.Contains(string(rest), "A8 ") || strings.Contains(string(rest), "A9 ") {
					h.Fail("plaintext-after-starttls-answered", fmt.Sprintf("plaintext response after STARTTLS OK: %q", rest), desc)
				}
				if hsErr == nil {
					h.Fail("handshake-with-plaintext-prefix", "TLS handshake succeeded although plaintext was injected in front of it", desc)
				}
				h.Eval(fmt.Sprintf("srv|%s|%d|%v", suf, ci, insecure))
				h.Hist("server_plaintext_suffix")
				var cs []string
				for _, ch := range splitBy(burst, sizes) {
					cs = append(cs, coqHx(ch))
				}
				corr.Add(fmt.Sprintf("(%s, %s, %s, false, %s)", coqList(cs), coqHxS(strings.TrimSuffix(line, "\n")), coqHxS(suf), coqBool(hsErr == nil)), desc)
			}
		}
		// ---- (b) genuine TLS prefix pipelined with the command line ----
		for _, take := range []int{0, 1, 5, 6, 50, -1} {
			for ci, sizes := range chunkings {
				desc := map[string]interface{}{"side": "server", "tls_prefix_bytes": take, "chunks": sizes, "insecure": insecure}
				h.InFlight(desc)
				c, err := net.Dial("tcp", ts.ln.Addr().String())
				if err != nil {
					panic(err)
				}
				c.SetDeadline(time.Now().Add(20 * time.Second))
				br := bufio.NewReader(c)
				br.ReadString('\n')
				stub := ts.lastSession()
				pc := &pipelineConn{Conn: c, br: br, pending: []byte(line), takeTLS: take, chunks: sizes}
				tc := tls.Client(pc, &tls.Config{InsecureSkipVerify: true})
				hsErr := tc.Handshake()
				ok := hsErr == nil
				if !ok {
					h.Fail("handshake-lost-bytes", fmt.Sprintf("TLS handshake failed although only genuine TLS bytes followed the STARTTLS line (%d of them in the same burst): %v; reply %q", take, hsErr, pc.reply), desc)
				} else {
					tbr := bufio.NewReader(tc)
					fmt.Fprintf(tc, "A2 LOGIN user pass\r\n")
					l, _ := tbr.ReadString('\n')
					if !strings.HasPrefix(l, "A2 OK") {
						h.Fail("login-over-tls", fmt.Sprintf("LOGIN over the upgraded connection: %q", l), desc)
					}
					if len(stub.Calls()) != 1 {
						h.Fail("login-over-tls-calls", fmt.Sprintf("expected one Login call, got %v", stub.Calls()), desc)
					}
				}
				c.Close()
				key := ""
				if take != 0 {
					key = fmt.Sprintf("srvtls|%d|%d|%v", take, ci, insecure)
				}
				h.Eval(key)
				h.Hist("server_tls_prefix")
				// the model is told the suffix abstractly: n bytes of value 0x16.. are not known to
				// the harness beforehand, so the case records only the plaintext part and chunking
				var cs []string
				for _, ch := range splitBy([]byte(line), sizes) {
					cs = append(cs, coqHx(ch))
				}
				corr.Add(fmt.Sprintf("(%s, %s, %s, true, %s)", coqList(cs), coqHxS(strings.TrimSuffix(line, "\n")), coqHxS(""), coqBool(ok)), desc)
			}
		}
		// plaintext LOGIN before TLS
		{
			rc := ts.dial()
			rc.greeting()
			_, tagged, _ := rc.cmd("LOGIN user pass")
			if (respClass(tagged) == "OK") != insecure {
				h.Fail("plaintext-login", fmt.Sprintf("LOGIN on plaintext with InsecureAuth=%v answered %q", insecure, tagged), map[string]interface{}{"insecure": insecure})
			}
			rc.Close()
			h.Eval("")
		}
		ts.Close()
		// a server that cannot offer STARTTLS at all (no TLS configuration): without InsecureAuth
		// nothing may authenticate over its plaintext connections
		{
			ts := startServer(srvOpts{InsecureAuth: insecure})
			for _, lineA := range []string{"LOGIN user pass", "AUTHENTICATE PLAIN AHVzZXIAcGFzcw=="} {
				rc := ts.dial()
				g, _ := rc.greeting()
				stub := ts.lastSession()
				_, tagged, _ := rc.cmd(lineA)
				desc := map[string]interface{}{"insecure": insecure, "tls_config": false, "line": lineA}
				if (respClass(tagged) == "OK") != insecure {
					h.Fail("plaintext-login", fmt.Sprintf("%s on plaintext with InsecureAuth=%v and no TLS configuration answered %q", lineA, insecure, tagged), desc)
				}
				if !insecure {
					for _, k := range stub.Calls() {
						h.Fail("creds-without-tls:"+k.Name, fmt.Sprintf("backend call %s %v over plaintext without InsecureAuth (server without TLS configuration)", k.Name, k.Args), desc)
					}
					if !strings.Contains(g, "LOGINDISABLED") || strings.Contains(g, "AUTH=") {
						h.Fail("auth-advertised-plaintext", fmt.Sprintf("greeting of a server without TLS configuration and without InsecureAuth: %q", g), desc)
					}
				}
				rc.Close()
				h.Eval(fmt.Sprintf("no-tlsconfig|%v|%s", insecure, lineA))
				h.Hist("server_without_tlsconfig")
			}
			ts.Close()
		}
		// a Unix domain socket is an unencrypted transport like TCP: the same rules apply, with and
		// without a TLS configuration
		for _, withTLS := range []bool{false, true} {
			o := srvOpts{InsecureAuth: insecure, Unix: true}
			if withTLS {
				o.TLSConfig = testTLSConfig
			}
			ts := startServer(o)
			for _, lineA := range []string{"LOGIN user pass", "AUTHENTICATE PLAIN AHVzZXIAcGFzcw=="} {
				rc := ts.dial()
				g, _ := rc.greeting()
				stub := ts.lastSession()
				_, tagged, _ := rc.cmd(lineA)
				desc := map[string]interface{}{"insecure": insecure, "tls_config": withTLS, "transport": "unix", "line": lineA}
				if (respClass(tagged) == "OK") != insecure {
					h.Fail("plaintext-login", fmt.Sprintf("%s on a plaintext Unix socket with InsecureAuth=%v answered %q", lineA, insecure, tagged), desc)
				}
				if !insecure {
					for _, k := range stub.Calls() {
						h.Fail("creds-without-tls:"+k.Name, fmt.Sprintf("backend call %s %v over a plaintext Unix socket without InsecureAuth", k.Name, k.Args), desc)
					}
					if !strings.Contains(g, "LOGINDISABLED") || strings.Contains(g, "AUTH=") {
						h.Fail("auth-advertised-plaintext", fmt.Sprintf("greeting on a plaintext Unix socket without InsecureAuth: %q", g), desc)
					}
				}
				rc.Close()
				h.Eval(fmt.Sprintf("unix|%v|%v|%s", insecure, withTLS, lineA))
				h.Hist("server_unix_socket")
			}
			ts.Close()
		}
		// the same with a backend that brings its own SASL mechanisms (SessionSASL): AUTHENTICATE
		// on the unencrypted connection must be refused before the backend sees the credentials
		{
			ts := startServer(srvOpts{InsecureAuth: insecure, TLSConfig: testTLSConfig, SASL: true})
			for _, lineA := range []string{"AUTHENTICATE PLAIN AHVzZXIAcGFzcw==", "AUTHENTICATE PLAIN"} {
				rc := ts.dial()
				g, _ := rc.greeting()
				stub := ts.lastSession()
				_, _, tagged, _ := rc.interactive(lineA, []string{"AHVzZXIAcGFzcw==\r\n"})
				desc := map[string]interface{}{"insecure": insecure, "backend": "SessionSASL", "line": lineA}
				if (respClass(tagged) == "OK") != insecure {
					h.Fail("plaintext-authenticate", fmt.Sprintf("%s on plaintext with InsecureAuth=%v and a SessionSASL backend answered %q", lineA, insecure, tagged), desc)
				}
				if !insecure {
					for _, k := range stub.Calls() {
						h.Fail("creds-without-tls:"+k.Name, fmt.Sprintf("backend call %s %v over plaintext without InsecureAuth", k.Name, k.Args), desc)
					}
					if !strings.Contains(g, "LOGINDISABLED") {
						h.Fail("logindisabled-missing", fmt.Sprintf("greeting on plaintext without InsecureAuth lacks LOGINDISABLED: %q", g), desc)
					}
					if strings.Contains(g, "AUTH=") {
						h.Fail("auth-advertised-plaintext", fmt.Sprintf("greeting on plaintext without InsecureAuth advertises AUTH=: %q", g), desc)
					}
				}
				rc.Close()
				h.Eval(fmt.Sprintf("sasl|%v|%s", insecure, lineA))
				h.Hist("server_sasl_plaintext")
			}
			ts.Close()
		}
	}

	// ---- one server behind an implicit-TLS listener and a plaintext listener: what a plaintext
	// connection is told must not depend on which kind of connection came first ----
	for _, tlsFirst := range []bool{true, false} {
		ts := startServer(srvOpts{InsecureAuth: false, TLSConfig: testTLSConfig})
		raw, err := net.Listen("tcp", "127.0.0.1:0")
		if err != nil {
			panic(err)
		}
		tln := tls.NewListener(raw, testTLSConfig)
		go ts.srv.Serve(tln)
		desc := map[string]interface{}{"side": "server", "scenario": "two listeners on one server", "tls_connection_first": tlsFirst}
		h.InFlight(desc)
		greetTLS := func() string {
			c, err := tls.Dial("tcp", raw.Addr().String(), &tls.Config{InsecureSkipVerify: true})
			if err != nil {
				return "dial: " + err.Error()
			}
			defer c.Close()
			c.SetDeadline(time.Now().Add(10 * time.Second))
			br := bufio.NewReader(c)
			g, _ := br.ReadString('\n')
			fmt.Fprintf(c, "a CAPABILITY\r\n")
			l, _ := br.ReadString('\n')
			return g + l
		}
		greetPlain := func() string {
			rc := ts.dial()
			defer rc.Close()
			g, _ := rc.greeting()
			un, _, _ := rc.cmd("CAPABILITY")
			return g + strings.Join(un, "")
		}
		var plain, overTLS string
		if tlsFirst {
			overTLS = greetTLS()
			plain = greetPlain()
		} else {
			plain = greetPlain()
			overTLS = greetTLS()
		}
		plain2 := greetPlain()
		for _, p := range []string{plain, plain2} {
			if strings.Contains(p, "AUTH=") || !strings.Contains(p, "LOGINDISABLED") {
				h.Fail("auth-advertised-plaintext", fmt.Sprintf("plaintext connection (TLS connection first: %v) without InsecureAuth is told %q", tlsFirst, p), desc)
			}
			if !strings.Contains(p, "STARTTLS") {
				h.Fail("starttls-not-advertised", fmt.Sprintf("plaintext connection with a TLS configuration is not offered STARTTLS: %q", p), desc)
			}
		}
		if !strings.Contains(overTLS, "AUTH=PLAIN") {
			h.Fail("tls-connection-cannot-authenticate", fmt.Sprintf("TLS connection (first: %v) is told %q", tlsFirst, overTLS), desc)
		}
		h.Eval(fmt.Sprintf("two-listeners|%v", tlsFirst))
		h.Hist("server_two_listeners")
		tln.Close()
		ts.Close()
	}

	// ---- client side ----
	injected := []string{"", "* OK [CAPABILITY IMAP4rev1 XINJECTED] hi\r\n", "* CAPABILITY IMAP4rev1 XINJECTED\r\n", "* 5 EXISTS\r\n", "* BYE go away\r\n", "T2 OK injected\r\n", "* OK x\r\n* CAPABILITY IMAP4rev1 XINJECTED\r\n"}
	// the shape of the tagged OK that ends the plaintext part is the server's (or the man in the
	// middle's) choice: bare text, a response code without arguments, a CAPABILITY code (a server
	// may announce its capabilities there), an unknown code with arguments, no text at all
	okShapes := []string{" begin TLS", " [ALERT] begin TLS", " [CAPABILITY IMAP4rev1 AUTH=PLAIN] Begin TLS negotiation now", " [XUNKNOWN 1 (2 3)] go ahead", " [CAPABILITY IMAP4rev1 STARTTLS LOGINDISABLED]"}
	type cliCase struct {
		greeting, inj, okShape string
		ci                     int
	}
	var cliCases []cliCase
	for _, greeting := range []string{"* OK hello\r\n", "* OK [CAPABILITY IMAP4rev1 STARTTLS] hello\r\n", "* PREAUTH hello\r\n", "* BYE busy\r\n"} {
		for _, inj := range injected {
			for ci := range chunkings {
				if (greeting != "* OK hello\r\n") && ci > 1 {
					continue
				}
				cliCases = append(cliCases, cliCase{greeting, inj, okShapes[0], ci})
			}
		}
	}
	for si, shape := range okShapes[1:] {
		for gi, greeting := range []string{"* OK hello\r\n", "* OK [CAPABILITY IMAP4rev1 STARTTLS] hello\r\n"} {
			for ii, inj := range injected {
				for ci := range chunkings {
					// quick tier: one split pattern per (shape, greeting, suffix), rotating through all
					if !h.Thorough() && ci != (si+gi+ii)%len(chunkings) {
						continue
					}
					cliCases = append(cliCases, cliCase{greeting, inj, shape, ci})
				}
			}
		}
	}
	for _, cc := range cliCases {
		greeting, inj, okShape, ci, sizes := cc.greeting, cc.inj, cc.okShape, cc.ci, chunkings[cc.ci]
		desc := map[string]interface{}{"side": "client", "greeting": greeting, "injected": inj, "chunks": sizes, "starttls_ok": okShape}
		h.InFlight(desc)
		ln, err := net.Listen("tcp", "127.0.0.1:0")
		if err != nil {
			panic(err)
		}
		var wg sync.WaitGroup
		wg.Add(1)
		var sawMu sync.Mutex
		var srvSawTLS string // every command line the peer received over TLS
		sawTLS := func() string { sawMu.Lock(); defer sawMu.Unlock(); return srvSawTLS }
		var afterOK headRecorder // what the peer received on the raw socket after its STARTTLS OK
		go func() {
			defer wg.Done()
			sc, err := ln.Accept()
			if err != nil {
				return
			}
			defer sc.Close()
			sc.SetDeadline(time.Now().Add(30 * time.Second))
			sbr := bufio.NewReader(sc)
			io.WriteString(sc, greeting)
			var tag []string
			for {
				l, err := sbr.ReadString('\n')
				if err != nil {
					return
				}
				tag = strings.Fields(l)
				if len(tag) >= 2 && strings.ToUpper(tag[1]) == "CAPABILITY" {
					// the client may ask for the capabilities first (the greeting carries
					// none): a legitimate plaintext command before STARTTLS
					fmt.Fprintf(sc, "* CAPABILITY IMAP4rev1 STARTTLS LOGINDISABLED\r\n%s OK done\r\n", tag[0])
					continue
				}
				break
			}
			if len(tag) < 2 || strings.ToUpper(tag[1]) != "STARTTLS" {
				return
			}
			reply := []byte(tag[0] + " OK" + okShape + "\r\n" + inj)
			writeChunks(sc, reply, sizes)
			tsrv := tls.Server(&readerConn{Conn: sc, r: io.TeeReader(sbr, &afterOK)}, testTLSConfig)
			if err := tsrv.Handshake(); err != nil {
				return
			}
			tbr := bufio.NewReader(tsrv)
			for {
				l, err := tbr.ReadString('\n')
				if err != nil {
					return
				}
				sawMu.Lock()
				srvSawTLS += l
				sawMu.Unlock()
				f := strings.Fields(l)
				if len(f) >= 2 && strings.ToUpper(f[1]) == "CAPABILITY" {
					fmt.Fprintf(tsrv, "* CAPABILITY IMAP4rev1 AUTH=PLAIN\r\n%s OK done\r\n", f[0])
				} else if len(f) >= 1 {
					fmt.Fprintf(tsrv, "%s OK done\r\n", f[0])
				}
			}
		}()
		conn, err := net.Dial("tcp", ln.Addr().String())
		if err != nil {
			panic(err)
		}
		type result struct {
			c   *imapclient.Client
			err error
		}
		resCh := make(chan result, 1)
		go func() {
			c, err := imapclient.NewStartTLS(conn, &imapclient.Options{TLSConfig: &tls.Config{InsecureSkipVerify: true}})
			resCh <- result{c, err}
		}()
		var res result
		select {
		case res = <-resCh:
		case <-time.After(20 * time.Second):
			h.Fail("client-starttls-hang", "NewStartTLS did not return", desc)
			conn.Close()
			ln.Close()
			continue
		}
		ok := res.err == nil
		switch {
		case strings.HasPrefix(greeting, "* PREAUTH"):
			if ok {
				h.Fail("client-accepts-preauth", "NewStartTLS accepted a PREAUTH greeting on an unencrypted connection", desc)
			}
		case strings.HasPrefix(greeting, "* BYE"):
			if ok {
				h.Fail("client-accepts-bye", "NewStartTLS succeeded after a BYE greeting", desc)
			}
		default:
			if !ok {
				if inj == "" {
					h.Fail("client-starttls-failed", fmt.Sprintf("NewStartTLS failed on a clean exchange: %v", res.err), desc)
				}
			} else {
				// the injected plaintext must not have been interpreted
				done := make(chan struct{})
				var caps imap.CapSet
				var noopErr error
				go func() {
					caps = res.c.Caps()
					noopErr = res.c.Noop().Wait()
					close(done)
				}()
				select {
				case <-done:
				case <-time.After(5 * time.Second):
					h.Fail("client-hang-after-starttls", "Caps/Noop after STARTTLS did not return", desc)
				}
				if caps.Has("XINJECTED") {
					h.Fail("client-uses-plaintext-injected", "the client adopted capabilities from plaintext injected after the STARTTLS OK", desc)
				}
				if inj == "" {
					if saw := sawTLS(); noopErr != nil || !strings.Contains(saw, "NOOP") {
						h.Fail("client-tls-broken", fmt.Sprintf("NOOP over the upgraded connection failed: %v (server saw %q)", noopErr, saw), desc)
					}
				} else if noopErr == nil {
					h.Fail("client-ignores-injection", "a command succeeded although plaintext was injected in front of the TLS handshake (the injected bytes must reach the TLS layer and break it)", desc)
				}
			}
		}
		if res.c != nil {
			res.c.Close()
		}
		conn.Close()
		ln.Close()
		wg.Wait()
		// a client that reported a successful upgrade may only send TLS records from then on:
		// the first thing on the raw socket after the STARTTLS OK has to be a handshake record
		if raw := afterOK.Bytes(); ok && len(raw) > 0 && raw[0] != 0x16 {
			h.Fail("client-plaintext-after-starttls", fmt.Sprintf("NewStartTLS succeeded, yet the client carried on in plaintext: after its STARTTLS OK the peer received %q", raw), desc)
		}
		key := ""
		if inj != "" || okShape != okShapes[0] {
			key = fmt.Sprintf("cli|%s|%s|%d|%s", greeting, inj, ci, okShape)
		}
		h.Eval(key)
		h.Hist("client:" + strings.Fields(greeting)[1])
		var cs []string
		reply := []byte("T1 OK" + okShape + "\r\n" + inj)
		for _, ch := range splitBy(reply, sizes) {
			cs = append(cs, coqHx(ch))
		}
		corr.Add(fmt.Sprintf("(%s, %s, %s, %s, %s)", coqList(cs), coqHxS("T1 OK"+okShape+"\r"), coqHxS(inj), coqBool(inj == ""), coqBool(inj == "")), desc)
	}
}

// headRecorder keeps the first bytes written to it (safe for use from two goroutines).
type headRecorder struct {
	mu sync.Mutex
	b  []byte
}

func (f *headRecorder) Write(p []byte) (int, error) {
	f.mu.Lock()
	if room := 64 - len(f.b); room > 0 {
		f.b = append(f.b, p[:min(len(p), room)]...)
	}
	f.mu.Unlock()
	return len(p), nil
}

func (f *headRecorder) Bytes() []byte {
	f.mu.Lock()
	defer f.mu.Unlock()
	return append([]byte(nil), f.b...)
}

// readerConn reads through a bufio.Reader that may already hold bytes of the connection.
type readerConn struct {
	net.Conn
	r io.Reader
}

func (c *readerConn) Read(b []byte) (int, error) { return c.r.Read(b) }
