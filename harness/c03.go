package main

// C03 — server responses are decoded by the client into the data the backend supplied.
// A real imapserver with a stub Session is driven by a real imapclient.Client over TCP
// loopback.  The stub hands generated data to the server's writer API; the bytes the client
// receives are captured; the values the client delivers to the requesting command are
// compared (a) directly with what was supplied, modulo the documented normal form, and (b)
// in Coq with the model of Model/Resp*.v: the server model on the data must reproduce the
// captured bytes (length and two checksums), the client model run on these bytes must give the
// delivered data, and for data inside the domain of the C03 theorems also the normal form
// the theorems promise (Proofs/RespSpecCorr.v).

import (
	"bytes"
	"encoding/json"
	"fmt"
	"io"
	"mime"
	"net"
	netmail "net/mail"
	"os"
	"reflect"
	"sort"
	"strings"
	"sync"
	"time"
	"unicode/utf8"

	imap "github.com/emersion/go-imap/v2"
	"github.com/emersion/go-imap/v2/imapclient"
	"github.com/emersion/go-message/mail"
)

func init() { runners["C03"] = runC03 }

// ---- connection plumbing -----------------------------------------------------------------

// c3Proxy sits between the client and the server and records both directions, so that the
// server's complete output is known even when the client stops reading.
type c3Proxy struct {
	mu       sync.Mutex
	down, up bytes.Buffer // server->client, client->server
	client   net.Conn     // the proxy's side of the client connection
	server   net.Conn
}

func c3NewProxy(serverAddr string) (*c3Proxy, net.Conn) {
	ln, err := net.Listen("tcp", "127.0.0.1:0")
	if err != nil {
		panic(err)
	}
	defer ln.Close()
	p := &c3Proxy{}
	acc := make(chan net.Conn, 1)
	go func() {
		c, err := ln.Accept()
		if err != nil {
			panic(err)
		}
		acc <- c
	}()
	cc, err := net.Dial("tcp", ln.Addr().String())
	if err != nil {
		panic(err)
	}
	p.client = <-acc
	p.server, err = net.Dial("tcp", serverAddr)
	if err != nil {
		panic(err)
	}
	// server -> client: keep recording the server's output even when the client has stopped
	// reading (it closes its connection on a decoding error)
	go func() {
		buf := make([]byte, 32768)
		clientGone := false
		for {
			n, err := p.server.Read(buf)
			if n > 0 {
				p.mu.Lock()
				p.down.Write(buf[:n])
				p.mu.Unlock()
				if !clientGone {
					if _, werr := p.client.Write(buf[:n]); werr != nil {
						clientGone = true
					}
				}
			}
			if err != nil {
				break
			}
		}
		p.client.Close()
		p.server.Close()
	}()
	// client -> server: when the client is gone only the sending half towards the server is
	// closed, so that the server can finish writing its response
	go func() {
		buf := make([]byte, 32768)
		for {
			n, err := p.client.Read(buf)
			if n > 0 {
				p.mu.Lock()
				p.up.Write(buf[:n])
				p.mu.Unlock()
				if _, werr := p.server.Write(buf[:n]); werr != nil {
					break
				}
			}
			if err != nil {
				break
			}
		}
		if tc, ok := p.server.(*net.TCPConn); ok {
			tc.CloseWrite()
		} else {
			p.server.Close()
		}
	}()
	return p, cc
}
func (p *c3Proxy) take() (down, up []byte) {
	p.mu.Lock()
	defer p.mu.Unlock()
	down = append([]byte(nil), p.down.Bytes()...)
	up = append([]byte(nil), p.up.Bytes()...)
	p.down.Reset()
	p.up.Reset()
	return
}
func (p *c3Proxy) take0up() (down, up []byte) {
	p.mu.Lock()
	defer p.mu.Unlock()
	up = append([]byte(nil), p.up.Bytes()...)
	p.up.Reset()
	return nil, up
}
func (p *c3Proxy) peekDown() []byte {
	p.mu.Lock()
	defer p.mu.Unlock()
	return append([]byte(nil), p.down.Bytes()...)
}
func (p *c3Proxy) close() { p.client.Close(); p.server.Close() }

func readAllLimited(r io.Reader) ([]byte, error) { return io.ReadAll(io.LimitReader(r, 1<<24)) }

type c3Conn struct {
	proxy    *c3Proxy
	raw      net.Conn
	client   *imapclient.Client
	sess     *stubSession
	selected bool
	mu       sync.Mutex
	srvErr   bool     // a writer call returned an error or panicked in the stub
	expunged []uint32 // unilateral EXPUNGE notifications
	exists   []uint32 // unilateral EXISTS
	mflags   [][]string
	fetched  []c3Msgd // unilateral FETCH data
}

func (c *c3Conn) setSrvErr() { c.mu.Lock(); c.srvErr = true; c.mu.Unlock() }
func (c *c3Conn) takeSrvErr() bool {
	c.mu.Lock()
	defer c.mu.Unlock()
	e := c.srvErr
	c.srvErr = false
	return e
}

type c3Ctx struct {
	h          *H
	g          *c3Gen
	corr       *CorrFile
	ts         *testServer
	conn       *c3Conn
	rev2, utf8 bool
	lastSess   *stubSession
	sessMu     sync.Mutex
}

func c3Timeout(d time.Duration, f func()) bool {
	done := make(chan struct{})
	go func() { defer close(done); f() }()
	select {
	case <-done:
		return true
	case <-time.After(d):
		return false
	}
}

// run executes a client command.  When the stub backend has seen a writer error, the response
// stream is broken (an announced literal may never be completed): the connection is cut
// shortly afterwards so that the client does not wait for its read timeout.
func (c *c3Conn) run(d time.Duration, f func()) bool {
	done := make(chan struct{})
	go func() { defer close(done); f() }()
	deadline := time.After(d)
	tick := time.NewTicker(5 * time.Millisecond)
	defer tick.Stop()
	var errSeen time.Time
	for {
		select {
		case <-done:
			return true
		case <-deadline:
			return false
		case <-tick.C:
			c.mu.Lock()
			e := c.srvErr
			c.mu.Unlock()
			if e {
				if errSeen.IsZero() {
					errSeen = time.Now()
				} else if time.Since(errSeen) > 150*time.Millisecond {
					c.raw.Close()
					c.proxy.close()
					select {
					case <-done:
						return true
					case <-time.After(3 * time.Second):
						return false
					}
				}
			}
		}
	}
}

// c3TaggedOK reports whether the server completed the command with OK.
func c3TaggedOK(wire []byte, tag string) bool {
	return tag != "" && (bytes.HasPrefix(wire, []byte(tag+" OK")) || bytes.Contains(wire, []byte("\r\n"+tag+" OK")))
}

func (x *c3Ctx) q() bool { return x.rev2 || x.utf8 }

func (x *c3Ctx) drop() {
	if x.conn != nil {
		c := x.conn
		x.conn = nil
		c3Timeout(2*time.Second, func() { c.client.Close() })
		c.raw.Close()
		c.proxy.close()
	}
}

// get returns a logged-in connection in the context's configuration.
func (x *c3Ctx) get() *c3Conn {
	if x.conn != nil {
		return x.conn
	}
	proxy, raw := c3NewProxy(x.ts.ln.Addr().String())
	c := &c3Conn{proxy: proxy, raw: raw}
	opts := &imapclient.Options{UnilateralDataHandler: &imapclient.UnilateralDataHandler{
		Expunge: func(seq uint32) { c.mu.Lock(); c.expunged = append(c.expunged, seq); c.mu.Unlock() },
		Mailbox: func(d *imapclient.UnilateralDataMailbox) {
			c.mu.Lock()
			if d.NumMessages != nil {
				c.exists = append(c.exists, *d.NumMessages)
			}
			if d.Flags != nil {
				c.mflags = append(c.mflags, c3Flags(d.Flags))
			}
			c.mu.Unlock()
		},
		Fetch: func(msg *imapclient.FetchMessageData) {
			md := c3Msgd{Seq: msg.SeqNum}
			for {
				it := msg.Next()
				if it == nil {
					break
				}
				if ci, _ := c3ItemOf(it); ci != nil {
					md.Items = append(md.Items, ci)
				}
			}
			c.mu.Lock()
			c.fetched = append(c.fetched, md)
			c.mu.Unlock()
		},
	}}
	c.client = imapclient.New(raw, opts)
	ok := c3Timeout(10*time.Second, func() {
		if err := c.client.WaitGreeting(); err != nil {
			panic(err)
		}
		if err := c.client.Login("u", "p").Wait(); err != nil {
			panic(err)
		}
		var caps []imap.Cap
		if x.rev2 {
			caps = append(caps, imap.CapIMAP4rev2)
		}
		if x.utf8 {
			caps = append(caps, imap.CapUTF8Accept)
		}
		if len(caps) > 0 {
			if _, err := c.client.Enable(caps...).Wait(); err != nil {
				panic(err)
			}
		}
	})
	if !ok {
		panic("C03: cannot set up a connection")
	}
	x.sessMu.Lock()
	c.sess = x.lastSess
	x.sessMu.Unlock()
	c.proxy.take()
	x.conn = c
	return c
}

func (x *c3Ctx) ensureSelected() *c3Conn {
	c := x.get()
	if !c.selected {
		c.sess.onSelect = nil
		ok := c3Timeout(10*time.Second, func() {
			if _, err := c.client.Select("box", nil).Wait(); err != nil {
				panic(err)
			}
		})
		if !ok {
			panic("C03: SELECT timed out")
		}
		c.selected = true
		c.proxy.take()
	}
	return c
}

// c3TagOf extracts the tag of the command the client sent (first token of its bytes).
func c3TagOf(up []byte) string {
	if j := bytes.IndexByte(up, ' '); j > 0 {
		return string(up[:j])
	}
	return ""
}

// finish waits until the server's tagged completion for tag has gone through the proxy (or the
// stream has been quiet for a while), and returns everything the server sent for the command.
func (c *c3Conn) finish(failed ...bool) (wire []byte, tag string) {
	_, up := c.proxy.take0up()
	tag = c3TagOf(up)
	broken := len(failed) > 0 && failed[0]
	deadline := time.Now().Add(1500 * time.Millisecond)
	last, lastChange := -1, time.Now()
	for {
		d := c.proxy.peekDown()
		if tag != "" && bytes.HasSuffix(d, []byte("\r\n")) {
			if bytes.HasPrefix(d, []byte(tag+" ")) || bytes.Contains(d, []byte("\r\n"+tag+" ")) {
				break
			}
		}
		if len(d) != last {
			last, lastChange = len(d), time.Now()
		}
		// after a failure the tagged completion may never come: stop once the stream is quiet
		if broken && time.Since(lastChange) > 40*time.Millisecond {
			break
		}
		if time.Now().After(deadline) {
			break
		}
		time.Sleep(2 * time.Millisecond)
	}
	wire, _ = c.proxy.take()
	return wire, tag
}

// ---- generators ----------------------------------------------------------------------------

type c3Gen struct {
	h *H
}

func (g *c3Gen) n(k int) int             { return g.h.Rng.Intn(k) }
func (g *c3Gen) p(pct int) bool          { return g.h.Rng.Intn(100) < pct }
func (g *c3Gen) pick(l ...string) string { return l[g.n(len(l))] }

var c3Words = []string{"hello", "Re: meeting", "a", "x y", "report.pdf", "naïve café", "日本語のメール", "Ünïcödé", "tab\there", "semi;colon", "100%", "star*", "paren(s)", "brace{}", "[brackets]"}
var c3Nasty = []string{`quo"te`, `back\slash`, `\`, `"`, "line\r\nbreak", "nul\x00byte", "cr\rlone", "lf\nlone", "\xff\xfe raw", "\x80", "caf\xe9 latin1", "~tilde", "{5}", "{3}\r\nabc", "NIL", "nil", "()", ")", "(", " lead", "trail ", "  "}
var c3Lookalike = []string{"=?utf-8?q?hello?=", "=?UTF-8?B?aGk=?=", "=?", "a=?b", "=?x?q?y?=", "=?utf-8?q?a?= =?utf-8?q?b?=", "=?iso-8859-1?q?caf=E9?=", "=?utf-8?q?", "?= =?", "=?us-ascii?Q?a_b?=", "x =?utf-8?b?!!!?= y", "=?utf-8?q?é?=", "=?=?=?"}

// text: any string a header-ish field may hold
func (g *c3Gen) text() string {
	switch r := g.n(100); {
	case r < 8:
		return ""
	case r < 50:
		return c3Words[g.n(len(c3Words))]
	case r < 65:
		return c3Nasty[g.n(len(c3Nasty))]
	case r < 82:
		return c3Lookalike[g.n(len(c3Lookalike))]
	case r < 92:
		return c3Words[g.n(len(c3Words))] + " " + c3Lookalike[g.n(len(c3Lookalike))] + c3Nasty[g.n(len(c3Nasty))]
	case r < 93:
		return g.long()
	default:
		b := make([]byte, 1+g.n(12))
		for i := range b {
			b[i] = byte(g.n(256))
		}
		return string(b)
	}
}

// long strings around the quoted-string limit
func (g *c3Gen) long() string {
	n := []int{100, 4095, 4096, 4097, 5000}[g.n(5)]
	c := g.pick("a", "b", "é", " ", "=?")
	s := strings.Repeat(c, n/len(c)+1)[:n]
	if g.p(30) {
		s = s[:n/2] + "\r\n" + s[n/2:]
	}
	return s
}

// token: short mostly-ASCII strings (types, subtypes, encodings, keys, values)
func (g *c3Gen) token() string {
	switch r := g.n(100); {
	case r < 70:
		return g.pick("text", "plain", "html", "application", "octet-stream", "image", "png", "mixed", "alternative", "related", "charset", "utf-8", "name", "filename", "boundary", "format", "flowed", "base64", "7bit", "8bit", "quoted-printable", "inline", "attachment", "en", "fr", "de-CH", "X-foo", "a b", "TEXT", "Message", "RFC822", "global")
	case r < 80:
		return c3Words[g.n(len(c3Words))]
	case r < 90:
		return c3Nasty[g.n(len(c3Nasty))]
	case r < 95:
		return g.pick("meſſage", "Key", "teſt", "ſd", "TeXt", "MESSAGE")
	default:
		return ""
	}
}

// caseToken: a token on which strings.ToLower / ToUpper act as on ASCII (7-bit, or letters
// without case): parameter names and transfer encodings, which the code case-maps
func (g *c3Gen) caseToken() string {
	t := g.token()
	if !c3IsASCII(t) {
		return g.pick("日本", "→x", "k1", "a b", "X-Key", "name*0", "x", "FileName")
	}
	return t
}

func (g *c3Gen) mailbox() string {
	switch r := g.n(100); {
	case r < 15:
		return g.pick("INBOX", "inbox", "Inbox", "iNBOX")
	case r < 60:
		return g.pick("Sent", "Drafts", "Archive/2024", "a.b.c", "INBOX/sub", "inbox.x", "Trash", "box", "with space", "amp&ersand", "tilde~", "per%cent", "st*ar", "x")
	case r < 80:
		return g.pick("Entwürfe", "日本語/受信", "Boîte d'envoi", "&&", "&-", "a&b-c", "€uro", "\U0001F600mail", "né/é/è")
	case r < 88:
		return g.pick(`quo"te`, `back\slash`, "line\r\nbreak", "nul\x00", "{5}", "NIL", "")
	case r < 94:
		return g.pick("bad\xffutf8", "\x80", "trunc\xe6\x97", "caf\xe9")
	default:
		return strings.Repeat("m", []int{4095, 4096, 4097}[g.n(3)]) + g.pick("", "é")
	}
}

func (g *c3Gen) flag(perm bool) string {
	switch r := g.n(100); {
	case r < 40:
		return g.pick(`\Seen`, `\Answered`, `\Flagged`, `\Deleted`, `\Draft`, `$Forwarded`, `$MDNSent`, `$Junk`, `$NotJunk`, `$Phishing`, `$Important`)
	case r < 55:
		return g.pick(`\seen`, `\ANSWERED`, `\fLAGGED`, `$forwarded`, `$JUNK`, `$important`, `\Recent`, `\draft`)
	case r < 85:
		// keywords are case-preserved: variants differing only in case are different spellings
		return g.pick("custom", "Work", "$label1", "a.b", "x-y_z", "caf\xe9", "\xc4\xb0mportant", `\Custom`, "k:v", "1",
			"Custom", "CUSTOM", "work", "$Label1", "$LABEL1", "TODO", "Todo", `\custom`)
	case r < 96:
		if perm {
			return `\*`
		}
		return "NonJunk"
	default:
		return g.pick("bad flag", "", `\`, "par(en", `a\b`, "{", "sta*r", "per%", `qu"o`, "\x7f", "]")
	}
}
func (g *c3Gen) flags(perm bool) []string {
	n := []int{0, 0, 1, 2, 3, 5}[g.n(6)]
	var l []string
	clean := g.p(60)
	for i := 0; i < n; i++ {
		f := g.flag(perm)
		if clean && !c3ValidFlag(f) {
			f = "ok" + fmt.Sprint(i)
		}
		l = append(l, f)
	}
	return l
}

func (g *c3Gen) attr() string {
	switch r := g.n(100); {
	case r < 60:
		return g.pick(`\NonExistent`, `\Noinferiors`, `\Noselect`, `\HasChildren`, `\HasNoChildren`, `\Marked`, `\Unmarked`, `\Subscribed`, `\Remote`, `\All`, `\Archive`, `\Drafts`, `\Flagged`, `\Junk`, `\Sent`, `\Trash`, `\Important`)
	case r < 80:
		return g.pick(`\noselect`, `\HASCHILDREN`, `\sent`, `\X-Custom`, `\seen`, `\a.b`, `\x-custom`, `\X-CUSTOM`)
	case r < 92:
		return g.pick(`\caf`+"\xe9", `\1`, `\$x`)
	default:
		return g.pick("NoBackslash", `\`, "", `\bad attr`, `\*`)
	}
}

func (g *c3Gen) delim() int32 {
	switch r := g.n(100); {
	case r < 15:
		return 0
	case r < 65:
		return []int32{'/', '.', '/', '|', '\\', '"'}[g.n(6)]
	case r < 85:
		return []int32{'é', '→', 0x1F600, 0x7f, 1, ' ', '\n', '\r', 0x80, 0xff, 0x10FFFF}[g.n(11)]
	default:
		return []int32{0xFFFD, 0xD800, 0xDFFF, 0x110000, -1, 0x7fffffff}[g.n(6)]
	}
}

func (g *c3Gen) u32() uint32 {
	switch g.n(6) {
	case 0:
		return 0
	case 1:
		return uint32(g.n(10))
	case 2:
		return uint32(g.n(100000))
	case 3:
		return 4294967295
	case 4:
		return 4294967294 - uint32(g.n(5))
	default:
		return uint32(g.h.Rng.Int63n(1 << 32))
	}
}
func (g *c3Gen) i64(neg bool) int64 {
	switch g.n(8) {
	case 0:
		return 0
	case 1:
		return int64(g.n(1000))
	case 2:
		return 4294967295 + int64(g.n(3))
	case 3:
		return 9223372036854775807
	case 4:
		if neg && g.p(35) {
			return -int64(1 + g.n(5))
		}
		return 1
	default:
		return g.h.Rng.Int63n(1 << 40)
	}
}

func (g *c3Gen) time(allowZero bool) c3Time {
	r := g.n(100)
	if allowZero && r < 12 {
		return c3TimeOf(time.Time{})
	}
	offs := []int{0, 3600, -18000, 19800, 20700, -34200, 50400, -43200, 86340, -86340}
	off := offs[g.n(len(offs))]
	var sec int64
	switch {
	case r < 60:
		sec = 946684800 + g.h.Rng.Int63n(1200000000) // 2000..2038
	case r < 75:
		sec = g.h.Rng.Int63n(946684800) // 1970..2000
	case r < 82:
		sec = -g.h.Rng.Int63n(2000000000) // before 1970
	case r < 90:
		sec = 253402300799 - 86400 - g.h.Rng.Int63n(100000) // end of year 9999
	case r < 96:
		sec = -62135596800 + 86400 + g.h.Rng.Int63n(100000) // year 1
	default:
		sec = []int64{253402300800 + 86400*400, -62167219200 - 86400*400, 0, 951782400}[g.n(4)] // year 10000+, year -1, epoch, leap day
	}
	var nsec int64
	if g.p(25) {
		nsec = g.h.Rng.Int63n(1000000000)
	}
	if g.p(3) {
		off = []int{3601, -59, 37, 90000, -100000}[g.n(5)]
	}
	return c3Time{sec, nsec, off}
}

func (g *c3Gen) msgid() string {
	switch r := g.n(100); {
	case r < 88:
		return g.pick("a@b", "1234.5678@example.org", "x.y.z@host.example", "CAF=abc+def@mail.gmail.com", "id@[192.168.0.1]", "a!#$%&'*+-/=?^_`{|}~b@c", "m@[IPv6:::1]", "u@d.")
	case r < 96:
		return ""
	default:
		return g.pick("abc", "x y@z", "a@b> <c@d", "<a@b>", "a@", "@b", "a@b@c", "a(c)@b", "é@b", "a@b c", "a\"b@c", "a@[b", "a,b@c", "=?utf-8?q?x?=@y")
	}
}

func (g *c3Gen) addr() c3Addr {
	a := c3Addr{Name: g.text(), Mailbox: g.pick("alice", "bob", "", "a.b", "x y", "né", "undisclosed-recipients", "q\"uote"), Host: g.pick("example.org", "", "h", "münchen.de", "[1.2.3.4]")}
	if g.p(10) {
		a.Mailbox, a.Host = g.text(), g.text()
	}
	return a
}
func (g *c3Gen) addrs() *[]c3Addr {
	switch r := g.n(100); {
	case r < 45:
		return nil
	case r < 55:
		return &[]c3Addr{}
	}
	n := []int{1, 1, 1, 2, 3}[g.n(5)]
	l := make([]c3Addr, 0, n)
	for i := 0; i < n; i++ {
		l = append(l, g.addr())
	}
	return &l
}

func (g *c3Gen) env() *c3Env {
	e := &c3Env{Date: g.time(true), Subject: g.text(), From: g.addrs(), Sender: g.addrs(), ReplyTo: g.addrs(), To: g.addrs(), Cc: g.addrs(), Bcc: g.addrs(), MsgID: g.msgid()}
	for i, n := 0, []int{0, 0, 1, 2, 3}[g.n(5)]; i < n; i++ {
		id := g.msgid()
		if id == "" && g.p(90) {
			id = "ref" + fmt.Sprint(i) + "@example.net"
		}
		e.InReplyTo = append(e.InReplyTo, id)
	}
	if g.p(8) {
		e.InReplyTo = []string{}
	}
	if g.p(70) { // most envelopes are what a well-behaved backend supplies
		for !c3IsZeroTime(e.Date) && !c3TimeOK(e.Date) {
			e.Date = g.time(true)
		}
		for i, id := range e.InReplyTo {
			if !c3MsgIDOK(id) {
				e.InReplyTo[i] = "r" + fmt.Sprint(i) + "@example.com"
			}
		}
		if e.MsgID != "" && !c3MsgIDOK(e.MsgID) {
			e.MsgID = "m@example.com"
		}
	}
	return e
}

func (g *c3Gen) params() *[]c3KV {
	switch r := g.n(100); {
	case r < 35:
		return nil
	case r < 42:
		return &[]c3KV{}
	}
	n := 1 + g.n(3)
	seen := map[string]bool{}
	l := []c3KV{}
	for i := 0; i < n; i++ {
		k := g.caseToken()
		if k == "" {
			k = "p" + fmt.Sprint(i)
		}
		if g.p(4) {
			k = g.pick("", "Charset", "CHARSET", "charset")
		}
		// RFC 2231 extended parameters travel as opaque name/value pairs
		ext := g.p(8)
		if ext {
			k = g.pick("filename*", "name*", "Title*", "filename*0*", "x-mark*", "filename")
		}
		if seen[k] {
			continue
		}
		seen[k] = true
		v := g.token()
		if g.p(40) {
			v = g.text()
		}
		if ext {
			v = g.pick("utf-8''r%C3%A9sum%C3%A9.pdf", "us-ascii'en'a%20b.txt", "UTF-8''%e2%82%ac", "iso-8859-1''%e9", "utf-8'x", "100%", "r_sum_.pdf")
		}
		l = append(l, c3KV{k, v})
	}
	g.h.Rng.Shuffle(len(l), func(i, j int) { l[i], l[j] = l[j], l[i] })
	return &l
}
func (g *c3Gen) disp() *c3Disp {
	if g.p(40) {
		return nil
	}
	return &c3Disp{Value: g.token(), Params: g.params()}
}
func (g *c3Gen) lang() *[]string {
	switch r := g.n(100); {
	case r < 40:
		return nil
	case r < 50:
		return &[]string{}
	}
	l := []string{}
	for i, n := 0, 1+g.n(3); i < n; i++ {
		l = append(l, g.token())
	}
	return &l
}

// bs generates a body structure.  coherent: message/text payloads agree with the media type and
// every node has extension data (what a well-behaved backend supplies).
func (g *c3Gen) bs(depth int, coherent bool) *c3BS {
	if depth > 0 && g.p(35) {
		b := &c3BS{Multi: true, Subtype: g.token()}
		for i, n := 0, 1+g.n(3); i < n; i++ {
			b.Children = append(b.Children, g.bs(depth-1, coherent))
		}
		if !coherent && g.p(10) {
			b.Children = nil
		}
		if coherent || g.p(70) {
			b.Ext = &c3Ext{Params: g.params(), Disp: g.disp(), Lang: g.lang(), Loc: g.text()}
		}
		return b
	}
	b := &c3BS{Type: g.token(), Subtype: g.token(), Params: g.params(), ID: g.pick("", "<id@x>", "cid:1", g.text()), Desc: g.text(), Enc: g.pick("", "7bit", "8BIT", "base64", "Quoted-Printable", "binary", "x-uu"), Size: g.u32()}
	if !coherent && g.p(10) {
		b.Enc = g.caseToken()
	}
	kind := g.n(10)
	switch {
	case kind < 3:
		b.Type = g.pick("text", "TEXT", "Text", "teſt")
		b.Subtype = g.pick("plain", "html", "x")
		l := g.i64(!coherent)
		b.Text = &l
	case kind < 5 && depth > 0:
		b.Type = g.pick("message", "MESSAGE", "meſſage")
		b.Subtype = g.pick("rfc822", "RFC822", "global")
		m := &c3Msg{Body: g.bs(depth-1, coherent), Lines: g.i64(!coherent)}
		if g.p(80) {
			m.Env = g.env()
		}
		b.Msg = m
	default:
		if !coherent {
			if g.p(15) {
				l := g.i64(false)
				b.Text = &l
			}
			if g.p(8) && depth > 0 {
				b.Msg = &c3Msg{Body: g.bs(depth-1, coherent), Lines: 1}
			}
		} else if c3IsText(b.Type) || c3IsMessage(b.Type, b.Subtype) {
			b.Type = "application"
		}
	}
	if !coherent && g.p(10) {
		b.Text, b.Msg = nil, nil
	}
	if coherent || g.p(70) {
		b.Ext = &c3Ext{Disp: g.disp(), Lang: g.lang(), Loc: g.text()}
	}
	return b
}

func (g *c3Gen) part() []int {
	switch r := g.n(100); {
	case r < 40:
		return nil
	case r < 90:
		var p []int
		for i, n := 0, 1+g.n(3); i < n; i++ {
			p = append(p, 1+g.n(5))
		}
		return p
	case r < 97:
		return []int{0, 4294967295}
	default:
		return []int{g.n(3) - 1, 1 << 32, -7}[0 : 1+g.n(3)]
	}
}

func (g *c3Gen) payload() []byte {
	var n int
	switch r := g.n(100); {
	case r < 15:
		n = 0
	case r < 60:
		n = 1 + g.n(60)
	case r < 85:
		n = []int{4095, 4096, 4097}[g.n(3)]
	default:
		n = g.h.Pick(8192, 70000)
	}
	b := make([]byte, n)
	if n <= 64 {
		switch g.n(3) {
		case 0:
			for i := range b {
				b[i] = byte(g.n(256))
			}
		case 1:
			copy(b, []byte("Subject: x\r\n\r\nbody)\r\n* 1 FETCH (UID 5)\r\nT1 OK x\r\n{3}\r\nabc \"q\" \\ NIL"))
		default:
			for i := range b {
				b[i] = 'a' + byte(i%3)
			}
		}
		return b
	}
	// long payloads: runs of one byte (compact as Coq terms) with distinct bytes at the ends and
	// at a few positions inside, so that truncation, reordering and off-by-one show
	fill := []byte{'x', 0, 0xff, '\n', ')'}[g.n(5)]
	for i := range b {
		b[i] = fill
	}
	copy(b, []byte("HEAD\r\n"))
	copy(b[n-6:], []byte(")\r\nEND"))
	for k := 0; k < 3; k++ {
		b[g.n(n)] = byte(g.n(256))
	}
	return b
}

func (g *c3Gen) section() *c3Section {
	s := &c3Section{Part: g.part()}
	switch r := g.n(100); {
	case r < 38:
	case r < 62:
		s.Spec = g.pick("HEADER", "TEXT", "MIME")
	case r < 94:
		s.Spec = "HEADER"
		l := []string{}
		for i, n := 0, 1+g.n(3); i < n; i++ {
			l = append(l, g.pick("From", "To", "Subject", "X-Weird Header", "x\"y", "né", ""))
		}
		if g.p(50) {
			s.Fields = l
		} else {
			s.NotFields = l
		}
	case r < 97:
		s.Spec = g.pick("header", "Text", "HEADER.FIELDS", "BOGUS", "1", "a b")
	default:
		s.Spec = g.pick("TEXT", "MIME")
		s.Fields = []string{"From"}
		if g.p(50) {
			s.NotFields = []string{"To"}
			s.Spec = "HEADER"
		}
	}
	if g.p(30) {
		s.Partial = &[2]int64{g.i64(true), g.i64(false)}
	}
	s.Peek = g.p(20)
	return s
}

// one message worth of FETCH items
func (g *c3Gen) items(uidFirst bool, uid uint32) []*c3Item {
	var l []*c3Item
	if uidFirst {
		l = append(l, &c3Item{Kind: "uid", N: uint64(uid)})
	}
	n := []int{0, 1, 1, 2, 2, 3, 4, 6}[g.n(8)]
	if g.p(2) {
		n = 34 + g.n(4) // more items than the client's channel buffers
	}
	for i := 0; i < n; i++ {
		switch r := g.n(100); {
		case r < 12:
			l = append(l, &c3Item{Kind: "flags", Flags: g.flags(false)})
		case r < 20:
			l = append(l, &c3Item{Kind: "size", Z: g.i64(true)})
		case r < 30:
			l = append(l, &c3Item{Kind: "idate", Time: g.time(g.p(10))})
		case r < 48:
			it := &c3Item{Kind: "env"}
			if g.p(92) {
				it.Env = g.env()
			}
			l = append(l, it)
		case r < 66:
			l = append(l, &c3Item{Kind: "body", BS: g.bs(g.h.Pick(2, 4), g.p(93))})
		case r < 82:
			l = append(l, &c3Item{Kind: "section", Sec: g.section(), Data: g.payload()})
		case r < 90:
			l = append(l, &c3Item{Kind: "binary", Part: g.part(), Data: g.payload()})
		case r < 96:
			l = append(l, &c3Item{Kind: "binsize", Part: g.part(), N: uint64(g.u32())})
		default:
			if !uidFirst {
				l = append(l, &c3Item{Kind: "uid", N: uint64(g.u32())})
			}
		}
	}
	return l
}

func (g *c3Gen) statusOpts() *c3StatusOpts {
	o := &c3StatusOpts{g.p(60), g.p(40), g.p(40), g.p(40), g.p(30), g.p(30), g.p(30), g.p(20)}
	return o
}
func (g *c3Gen) status(o *c3StatusOpts, mbox string, complete bool) *c3Status {
	s := &c3Status{Mailbox: mbox, UIDNext: g.u32(), UIDValidity: g.u32()}
	set := func(req bool) bool { return (req && complete) || g.p(50) }
	if set(o.Messages) {
		v := g.u32()
		s.Messages = &v
	}
	if set(o.Unseen) {
		v := g.u32()
		s.Unseen = &v
	}
	if set(o.Deleted) {
		v := g.u32()
		s.Deleted = &v
	}
	if set(o.Size) {
		v := g.i64(!complete)
		s.Size = &v
	}
	if set(o.DeletedStorage) {
		v := g.i64(!complete)
		s.DeletedStorage = &v
	}
	if g.p(60) {
		v := g.u32()
		s.AppendLimit = &v
	}
	return s
}

func (g *c3Gen) listData(rs *c3StatusOpts) *c3List {
	l := &c3List{Delim: g.delim(), Mailbox: g.mailbox()}
	for i, n := 0, []int{0, 1, 1, 2, 3}[g.n(5)]; i < n; i++ {
		l.Attrs = append(l.Attrs, g.attr())
	}
	if g.p(25) {
		b := g.p(50)
		l.ChildInfo = &b
	}
	if g.p(20) {
		l.OldName = g.mailbox()
	}
	if rs != nil && g.p(75) || rs == nil && g.p(10) {
		mb := l.Mailbox
		if g.p(8) {
			mb = g.mailbox()
		}
		o := rs
		if o == nil {
			o = &c3StatusOpts{}
		}
		l.Status = g.status(o, mb, g.p(92))
	}
	return l
}

// canonical number sets (as SeqSet.AddNum / AddRange build them), occasionally not
func (g *c3Gen) numset(allowDynamic, allowBad bool) c3Set {
	s := c3Set{}
	n := []int{0, 1, 1, 2, 3, 5}[g.n(6)]
	cur := uint32(1 + g.n(5))
	for i := 0; i < n; i++ {
		ln := uint32(0)
		if g.p(50) {
			ln = uint32(1 + g.n(20))
		}
		s = append(s, [2]uint32{cur, cur + ln})
		cur += ln + 2 + uint32(g.n(50))
	}
	if g.p(8) {
		s = append(s, [2]uint32{4294967290, 4294967295})
	}
	if allowDynamic && g.p(10) {
		s = append(s, [2]uint32{cur + 5, 0})
	}
	if allowBad && g.p(8) {
		switch g.n(4) {
		case 0:
			s = c3Set{{5, 3}}
		case 1:
			s = c3Set{{1, 2}, {2, 5}}
		case 2:
			s = c3Set{{9, 9}, {1, 1}}
		default:
			s = c3Set{{0, 0}}
		}
	}
	return s
}

// ---- library tables -------------------------------------------------------------------------

func c3NeedsEncoding(s string) bool {
	for _, b := range s {
		if (b < ' ' || b > '~') && b != '\t' {
			return true
		}
	}
	return false
}

// c3DecodeText is imapclient's Options.decodeText with the default word decoder.
func c3DecodeText(s string) string {
	out, err := (&mime.WordDecoder{}).DecodeHeader(s)
	if err != nil {
		return s
	}
	return out
}
func c3MsgID(s string) string {
	var h mail.Header
	h.Set("Message-Id", s)
	id, _ := h.MessageID()
	return id
}
func c3MsgIDList(s string) []string {
	var h mail.Header
	h.Set("In-Reply-To", s)
	l, _ := h.MsgIDList("In-Reply-To")
	return l
}

const c3EnvLayout = "Mon, 02 Jan 2006 15:04:05 -0700"
const c3IDateLayout = "_2-Jan-2006 15:04:05 -0700"

// c3WireStrings extracts the quoted strings and literals of a response stream.
func c3WireStrings(w []byte) []string {
	var out []string
	for i := 0; i < len(w); {
		switch w[i] {
		case '"':
			var sb []byte
			j := i + 1
			for j < len(w) && w[j] != '"' {
				if w[j] == '\\' && j+1 < len(w) {
					j++
				}
				sb = append(sb, w[j])
				j++
			}
			out = append(out, string(sb))
			i = j + 1
		case '{':
			j := i + 1
			n := 0
			for j < len(w) && w[j] >= '0' && w[j] <= '9' {
				n = n*10 + int(w[j]-'0')
				j++
			}
			if j > i+1 && j+2 < len(w) && w[j] == '}' && w[j+1] == '\r' && w[j+2] == '\n' && j+3+n <= len(w) {
				out = append(out, string(w[j+3:j+3+n]))
				i = j + 3 + n
			} else {
				i++
			}
		default:
			i++
		}
	}
	return out
}

type c3Tables struct {
	qword, dech, fenv, penv, fid, pid, msgid, msgids []string
	seen                                             map[string]bool
}

func (t *c3Tables) once(k string) bool {
	if t.seen == nil {
		t.seen = map[string]bool{}
	}
	if t.seen[k] {
		return false
	}
	t.seen[k] = true
	return true
}
func (t *c3Tables) text(s string) {
	if c3NeedsEncoding(s) && t.once("q"+s) {
		t.qword = append(t.qword, coqPair(c3HxS(s), c3HxS(mime.QEncoding.Encode("utf-8", s))))
	}
}
func (t *c3Tables) time(tm c3Time) {
	if f := c3ZoneFix(tm); f != tm {
		t.time(f)
	}
	k := fmt.Sprint("t", tm)
	if !t.once(k) {
		return
	}
	gt := tm.goTime()
	t.fenv = append(t.fenv, coqPair(tm.coq(), c3HxS(gt.Format(c3EnvLayout))))
	t.fid = append(t.fid, coqPair(tm.coq(), c3HxS(gt.Format(c3IDateLayout))))
}
func (t *c3Tables) env(e *c3Env) {
	if e == nil {
		return
	}
	t.time(e.Date)
	t.text(e.Subject)
	for _, l := range []*[]c3Addr{e.From, e.Sender, e.ReplyTo, e.To, e.Cc, e.Bcc} {
		if l != nil {
			for _, a := range *l {
				t.text(a.Name)
			}
		}
	}
}
func (t *c3Tables) bs(b *c3BS) {
	if b == nil {
		return
	}
	if b.Msg != nil {
		t.env(b.Msg.Env)
		t.bs(b.Msg.Body)
	}
	for _, c := range b.Children {
		t.bs(c)
	}
}
func (t *c3Tables) wire(w []byte) {
	for _, s := range c3WireStrings(w) {
		if len(s) > 40000 || !t.once("w"+s) {
			continue
		}
		if strings.Contains(s, "=?") {
			t.dech = append(t.dech, coqPair(c3HxS(s), c3HxS(c3DecodeText(s))))
		}
		if len(s) > 200 {
			continue
		}
		if tm, err := netmail.ParseDate(s); err == nil {
			t.penv = append(t.penv, coqPair(c3HxS(s), c3TimeOf(tm).coq()))
		}
		if tm, err := time.Parse(c3IDateLayout, s); err == nil {
			t.pid = append(t.pid, coqPair(c3HxS(s), c3TimeOf(tm).coq()))
		}
		if id := c3MsgID(s); id != "" {
			t.msgid = append(t.msgid, coqPair(c3HxS(s), c3HxS(id)))
		}
		if l := c3MsgIDList(s); len(l) > 0 {
			t.msgids = append(t.msgids, coqPair(c3HxS(s), c3Strs(l)))
		}
	}
}
func (t *c3Tables) coq() string {
	return fmt.Sprintf("(mkTb %s %s %s %s %s %s %s %s)", coqList(t.qword), coqList(t.dech), coqList(t.fenv), coqList(t.penv),
		coqList(t.fid), coqList(t.pid), coqList(t.msgid), coqList(t.msgids))
}

// ---- the normal form the property allows, written from the property text -----------------------

var c3KnownFlags = []string{`\Seen`, `\Answered`, `\Flagged`, `\Deleted`, `\Draft`, `$Forwarded`, `$MDNSent`, `$Junk`, `$NotJunk`, `$Phishing`, `$Important`}
var c3KnownAttrs = []string{`\NonExistent`, `\Noinferiors`, `\Noselect`, `\HasChildren`, `\HasNoChildren`, `\Marked`, `\Unmarked`, `\Subscribed`, `\Remote`, `\All`, `\Archive`, `\Drafts`, `\Flagged`, `\Junk`, `\Sent`, `\Trash`, `\Important`}

func c3IsASCII(s string) bool {
	for i := 0; i < len(s); i++ {
		if s[i] >= 0x80 {
			return false
		}
	}
	return true
}
func c3Canon(known []string, s string) string {
	if c3IsASCII(s) {
		for _, k := range known {
			if strings.EqualFold(k, s) {
				return k
			}
		}
	}
	return s
}
func c3IsAtomChar(ch byte) bool {
	switch ch {
	case '(', ')', '{', ' ', '%', '*', '"', '\\', ']':
		return false
	}
	return !(ch < 0x20 || (ch >= 0x7f && ch <= 0x9f))
}
func c3ValidFlag(s string) bool {
	if s == `\*` {
		return true
	}
	if s == "" || s == `\` {
		return false
	}
	for i := 0; i < len(s); i++ {
		if s[i] == '\\' {
			if i != 0 {
				return false
			}
		} else if !c3IsAtomChar(s[i]) {
			return false
		}
	}
	// 8-bit flag names are outside the oracle's domain (case folding of non-ASCII names)
	return c3IsASCII(s)
}
func c3NormFlags(l []string) []string {
	var out []string
	for _, f := range l {
		out = append(out, c3Canon(c3KnownFlags, f))
	}
	return out
}
func c3FlagsOK(l []string) bool {
	for _, f := range l {
		if !c3ValidFlag(f) {
			return false
		}
	}
	return true
}
func c3ValidAttr(s string) bool {
	return strings.HasPrefix(s, `\`) && s != `\*` && c3ValidFlag(s)
}

func c3EqualFoldConst(s, k string) bool { return strings.EqualFold(s, k) }
func c3IsText(t string) bool            { return c3EqualFoldConst(t, "text") }
func c3IsMessage(t, st string) bool {
	return c3EqualFoldConst(t, "message") && (c3EqualFoldConst(st, "rfc822") || c3EqualFoldConst(st, "global"))
}

// c3ZoneFix: a time whose zone offset has seconds is sent in UTC (the zone is written as +hhmm)
func c3ZoneFix(t c3Time) c3Time {
	if t.Off%60 != 0 {
		return c3Time{t.Sec, t.Nsec, 0}
	}
	return t
}

// times the protocol can carry: years 0..9999, zone offset below 24 h
func c3TimeOK(t c3Time) bool {
	t = c3ZoneFix(t)
	y := t.goTime().Year()
	return y >= 0 && y <= 9999 && t.Off > -86400 && t.Off < 86400
}
func c3NormTime(t c3Time) c3Time { t = c3ZoneFix(t); return c3Time{t.Sec, 0, t.Off} }
func c3IsZeroTime(t c3Time) bool { return t.Sec == -62135596800 && t.Nsec == 0 }

func c3MsgIDOK(id string) bool {
	i := strings.IndexByte(id, '@')
	if i <= 0 || i == len(id)-1 {
		return false
	}
	atext := func(s string, dtext bool) bool {
		for j := 0; j < len(s); j++ {
			c := s[j]
			if c < '!' || c > '~' {
				return false
			}
			if dtext {
				if c == '[' || c == ']' || c == '\\' {
					return false
				}
			} else if strings.IndexByte("()[];@\\,<>\":", c) >= 0 {
				return false
			}
		}
		return true
	}
	left, right := id[:i], id[i+1:]
	if !atext(left, false) {
		return false
	}
	if strings.HasPrefix(right, "[") {
		return strings.HasSuffix(right, "]") && len(right) >= 2 && atext(right[1:len(right)-1], true)
	}
	return atext(right, false)
}

func c3NormAddrs(l *[]c3Addr) *[]c3Addr {
	if l == nil || len(*l) == 0 {
		return nil
	}
	c := append([]c3Addr{}, (*l)...)
	return &c
}

// (normal form, within the domain the property can hold on)
func c3NormEnv(e *c3Env) (*c3Env, bool) {
	if e == nil {
		e = &c3Env{Date: c3TimeOf(time.Time{})}
	}
	ok := true
	out := &c3Env{Subject: e.Subject, MsgID: e.MsgID}
	if c3IsZeroTime(e.Date) {
		out.Date = c3TimeOf(time.Time{})
	} else {
		out.Date = c3NormTime(e.Date)
		ok = ok && c3TimeOK(e.Date) && !c3IsZeroTime(out.Date)
	}
	out.From = c3NormAddrs(e.From)
	out.Sender = c3NormAddrs(e.Sender)
	if e.Sender == nil {
		out.Sender = c3NormAddrs(e.From)
	}
	out.ReplyTo = c3NormAddrs(e.ReplyTo)
	if e.ReplyTo == nil {
		out.ReplyTo = c3NormAddrs(e.From)
	}
	out.To, out.Cc, out.Bcc = c3NormAddrs(e.To), c3NormAddrs(e.Cc), c3NormAddrs(e.Bcc)
	if len(e.InReplyTo) > 0 {
		out.InReplyTo = append([]string{}, e.InReplyTo...)
		for _, id := range e.InReplyTo {
			ok = ok && c3MsgIDOK(id)
		}
	}
	if e.MsgID != "" {
		ok = ok && c3MsgIDOK(e.MsgID)
	}
	return out, ok
}

func c3NormParams(p *[]c3KV) (*[]c3KV, bool) {
	if p == nil || len(*p) == 0 {
		return nil, true
	}
	ok := true
	m := map[string]string{}
	for _, kv := range *p {
		// an empty name is a string like any other ("arbitrary strings in every string field")
		ok = ok && c3IsASCII(kv.K)
		k := strings.ToLower(kv.K)
		if _, dup := m[k]; dup {
			ok = false
		}
		m[k] = kv.V
	}
	return c3ParamsOf(m), ok
}
func c3NormDisp(d *c3Disp) (*c3Disp, bool) {
	if d == nil {
		return nil, true
	}
	p, ok := c3NormParams(d.Params)
	return &c3Disp{d.Value, p}, ok
}
func c3NormLang(l *[]string) *[]string {
	if l == nil || len(*l) == 0 {
		return nil
	}
	c := append([]string{}, (*l)...)
	return &c
}
func c3NormBS(b *c3BS, extended bool) (*c3BS, bool) {
	ok := true
	if b.Multi {
		out := &c3BS{Multi: true, Subtype: b.Subtype}
		ok = len(b.Children) > 0
		for _, c := range b.Children {
			nc, o := c3NormBS(c, extended)
			ok = ok && o
			out.Children = append(out.Children, nc)
		}
		if extended {
			if b.Ext == nil {
				return out, false
			}
			p, o1 := c3NormParams(b.Ext.Params)
			d, o2 := c3NormDisp(b.Ext.Disp)
			ok = ok && o1 && o2
			out.Ext = &c3Ext{Params: p, Disp: d, Lang: c3NormLang(b.Ext.Lang), Loc: b.Ext.Loc}
		}
		return out, ok
	}
	out := &c3BS{Type: b.Type, Subtype: b.Subtype, ID: b.ID, Desc: b.Desc, Size: b.Size}
	var o bool
	out.Params, o = c3NormParams(b.Params)
	ok = ok && o
	out.Enc = strings.ToUpper(b.Enc)
	ok = ok && c3IsASCII(b.Enc)
	if b.Enc == "" {
		out.Enc = "7BIT"
	}
	isMsg, isText := c3IsMessage(b.Type, b.Subtype), c3IsText(b.Type)
	if b.Msg != nil {
		ok = ok && isMsg && b.Text == nil && b.Msg.Lines >= 0
		e, o1 := c3NormEnv(b.Msg.Env)
		nb, o2 := c3NormBS(b.Msg.Body, extended)
		ok = ok && o1 && o2
		out.Msg = &c3Msg{Env: e, Body: nb, Lines: b.Msg.Lines}
	} else if b.Text != nil {
		ok = ok && isText && *b.Text >= 0
		l := *b.Text
		out.Text = &l
	} else if isText {
		// nil == empty: the protocol's body-type-text always carries a line count; an unset
		// Text and zero lines are the same data (c3TextNilIsZero is applied to what is delivered)
		l := int64(0)
		out.Text = &l
	}
	if extended {
		ok = ok && (!isMsg || b.Msg != nil)
		if b.Ext == nil {
			return out, false
		}
		d, o := c3NormDisp(b.Ext.Disp)
		ok = ok && o
		out.Ext = &c3Ext{Disp: d, Lang: c3NormLang(b.Ext.Lang), Loc: b.Ext.Loc}
	}
	return out, ok
}

// c3TextNilIsZero returns the delivered items with a text part's missing line count read as
// zero lines (nil == empty), so that either delivery of an unset Text is accepted.
func c3TextNilIsZero(l []c3Msgd) []c3Msgd {
	var fill func(b *c3BS) *c3BS
	fill = func(b *c3BS) *c3BS {
		if b == nil {
			return nil
		}
		c := *b
		c.Children = nil
		for _, k := range b.Children {
			c.Children = append(c.Children, fill(k))
		}
		if b.Msg != nil {
			m := *b.Msg
			m.Body = fill(m.Body)
			c.Msg = &m
		} else if !b.Multi && b.Text == nil && c3IsText(b.Type) {
			z := int64(0)
			c.Text = &z
		}
		return &c
	}
	var out []c3Msgd
	for _, m := range l {
		n := c3Msgd{Seq: m.Seq}
		for _, it := range m.Items {
			if it.Kind == "body" {
				c := *it
				c.BS = fill(it.BS)
				it = &c
			}
			n.Items = append(n.Items, it)
		}
		out = append(out, n)
	}
	return out
}

func c3PartOK(p []int) bool {
	for _, n := range p {
		if n < 0 || int64(n) > 4294967295 {
			return false
		}
	}
	return true
}
func c3NormSection(s *c3Section) (*c3Section, bool) {
	ok := c3PartOK(s.Part)
	switch s.Spec {
	case "", "HEADER", "TEXT", "MIME":
	default:
		ok = false
	}
	if len(s.Fields) > 0 || len(s.NotFields) > 0 {
		ok = ok && s.Spec == "HEADER" && !(len(s.Fields) > 0 && len(s.NotFields) > 0)
	}
	if len(s.Part) == 0 && s.Spec == "MIME" {
		// BODY[MIME] without a part is not valid IMAP but goes through unchanged
	}
	out := &c3Section{Spec: s.Spec, Part: append([]int(nil), s.Part...)}
	if len(s.Fields) > 0 {
		out.Fields = append([]string(nil), s.Fields...)
	} else if len(s.NotFields) > 0 {
		out.NotFields = append([]string(nil), s.NotFields...)
	}
	if s.Partial != nil {
		ok = ok && s.Partial[0] >= 0
		out.Partial = &[2]int64{s.Partial[0], 0}
	}
	return out, ok
}

// c3NormItems: the items the client should deliver for one message; ok=false: outside the domain
func c3NormItems(items []*c3Item, bodyMode int) ([]*c3Item, bool) {
	ok := true
	var out []*c3Item
	for _, it := range items {
		switch it.Kind {
		case "uid":
			out = append(out, &c3Item{Kind: "uid", N: it.N})
		case "flags":
			ok = ok && c3FlagsOK(it.Flags)
			out = append(out, &c3Item{Kind: "flags", Flags: c3NormFlags(it.Flags)})
		case "size":
			ok = ok && it.Z >= 0
			out = append(out, &c3Item{Kind: "size", Z: it.Z})
		case "idate":
			ok = ok && c3TimeOK(it.Time) && !c3IsZeroTime(c3NormTime(it.Time))
			out = append(out, &c3Item{Kind: "idate", Time: c3NormTime(it.Time)})
		case "env":
			e, o := c3NormEnv(it.Env)
			ok = ok && o
			out = append(out, &c3Item{Kind: "env", Env: e})
		case "body":
			if bodyMode != 0 {
				b, o := c3NormBS(it.BS, bodyMode == 2)
				ok = ok && o
				out = append(out, &c3Item{Kind: "body", BS: b, Ext: bodyMode == 2})
			}
		case "section":
			s, o := c3NormSection(it.Sec)
			ok = ok && o
			out = append(out, &c3Item{Kind: "section", Sec: s, Data: it.Data, HasData: true})
		case "binary":
			ok = ok && c3PartOK(it.Part)
			out = append(out, &c3Item{Kind: "binary", Part: it.Part, Data: it.Data, HasData: true})
		case "binsize":
			ok = ok && c3PartOK(it.Part)
			out = append(out, &c3Item{Kind: "binsize", Part: it.Part, N: it.N})
		}
	}
	return out, ok
}

func c3JSON(v interface{}) string {
	b, _ := json.Marshal(v)
	return string(b)
}

// c3Diff names the first place where two JSON-able values differ (for failure signatures).
func c3Diff(a, b interface{}) string {
	var x, y interface{}
	json.Unmarshal([]byte(c3JSON(a)), &x)
	json.Unmarshal([]byte(c3JSON(b)), &y)
	return c3DiffVal("", x, y)
}
func c3DiffVal(path string, x, y interface{}) string {
	if reflect.DeepEqual(x, y) {
		return ""
	}
	switch xv := x.(type) {
	case map[string]interface{}:
		if yv, ok := y.(map[string]interface{}); ok {
			var ks []string
			for k := range xv {
				ks = append(ks, k)
			}
			sort.Strings(ks)
			for _, k := range ks {
				if d := c3DiffVal(path+"."+k, xv[k], yv[k]); d != "" {
					return d
				}
			}
		}
	case []interface{}:
		if yv, ok := y.([]interface{}); ok {
			if len(xv) != len(yv) {
				return path + ".len"
			}
			for i := range xv {
				if d := c3DiffVal(path, xv[i], yv[i]); d != "" {
					return d
				}
			}
		}
	}
	return path
}

func c3ValidUTF8Mailbox(s string) bool { return utf8.ValidString(s) }
func c3NormMailbox(s string) string {
	if strings.EqualFold(s, "INBOX") {
		return "INBOX"
	}
	return s
}
func c3DelimOK(d int32) bool {
	return d >= 0 && d <= 0x10FFFF && !(d >= 0xD800 && d <= 0xDFFF) && d != 0xFFFD
}

// ---- the run -----------------------------------------------------------------------------------

func runC03(h *H) {
	h.Rule("real imapserver (stub Session handing generated data to FetchWriter/ListWriter/StatusData/SelectData/SearchData/" +
		"AppendData/CopyData/MoveWriter/NamespaceData/ExpungeWriter/UpdateWriter) behind a real imapclient over TCP, with IMAP4rev2 enabled, " +
		"UTF8=ACCEPT enabled, or neither; oracle: data delivered by Next/Collect/Wait == normal form of the supplied data " +
		"(nil==empty, sender/reply-to default to from, encoding upper-cased/7BIT, parameter keys lower-cased, times to the second, " +
		"INBOX canonical, well-known flags canonical, only requested STATUS items, LIST-STATUS paired) for data inside the stated " +
		"domain, literals byte-identical and in order; correspondence: Coq server model on the data == captured bytes and Coq " +
		"client model on the captured bytes == delivered data, for all generated data including data outside the domain; " +
		"non-trivial = distinct (family, configuration, shape of data) keys")
	h.Note("unilateral updates written from Session.Poll (UpdateWriter: EXPUNGE, EXISTS, FLAGS, FETCH FLAGS) and the EXPUNGE lines of MOVE are checked by the direct oracle through the client's UnilateralDataHandler; the Coq model covers the data delivered to the requesting command")
	h.Note("FETCH data is observed through FetchCommand.Next / FetchMessageData.Next (item stream, literals read in full); FetchMessageBuffer (Collect) is a plain regrouping of these items and is not exercised")
	h.Note("library facts assumed by the theorems (ext_ok) are re-validated on every run: mime Q-encoding round trip, DecodeHeader identity without \"=?\", go-message msg-id parsing, time.Format/Parse and net/mail.ParseDate round trips, strings.EqualFold folding onto ASCII (exhaustive over all runes)")
	caps := imap.CapSet{}
	for _, c := range []imap.Cap{imap.CapIMAP4rev1, imap.CapIMAP4rev2, imap.CapBinary, imap.CapStatusSize, imap.CapListStatus, imap.CapListExtended,
		imap.CapNamespace, imap.CapUIDPlus, imap.CapESearch, imap.CapMove, imap.CapSearchRes, imap.CapSpecialUse} {
		caps[c] = struct{}{}
	}
	x := &c3Ctx{h: h, g: &c3Gen{h}}
	x.ts = startServer(srvOpts{InsecureAuth: true, Caps: caps, Configure: func(s *stubSession) {
		x.sessMu.Lock()
		x.lastSess = s
		x.sessMu.Unlock()
	}})
	defer x.ts.Close()
	x.corr = h.NewCorr("resp", []string{
		"From GoImap.Base Require Import Bytes.",
		"From GoImap.Model Require Import NumSet Wire Resp RespFetch RespCmd RespCorr.",
		"From GoImap.Proofs Require Import RespSpecCorr.",
	}, "resp_mismatches", 20).Type("ccase")

	c3MimeFacts(h)

	rounds := h.Pick(6, 36)
	per := 36
	cfgs := [][2]bool{{false, false}, {false, true}, {true, false}}
	c3Corpus(x)
	for r := 0; r < rounds; r++ {
		cfg := cfgs[r%3]
		x.drop()
		x.rev2, x.utf8 = cfg[0], cfg[1]
		timed := func(name string, f func()) {
			t0 := time.Now()
			f()
			if d := time.Since(t0); d > 300*time.Millisecond && os.Getenv("C03_TIMING") != "" {
				fmt.Fprintf(os.Stderr, "slow %s %v\n", name, d)
			}
		}
		for i := 0; i < per; i++ {
			timed("fetch", func() { x.fetchCase(nil) })
		}
		for i := 0; i < per/3; i++ {
			timed("list", func() { x.listCase(nil) })
			timed("status", x.statusCase)
			timed("select", x.selectCase)
			timed("search", x.searchCase)
			timed("namespace", x.namespaceCase)
			timed("cma", x.copyMoveAppendCase)
			timed("expunge", x.expungeCase)
			if i%2 == 0 {
				timed("poll", x.pollCase)
			}
		}
		x.capabilityCase()
	}
	x.drop()
}
