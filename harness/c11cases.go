package main

// C11: the corpus of known nasty inputs, nesting bombs, the case list, and the size
// families for the time/allocation growth oracle.

import (
	"fmt"
	"sort"
	"strconv"
	"strings"
	"syscall"
	"time"
)

// cpuTime is the CPU time (user + system) this process has used so far: unlike wall time it
// does not grow while other processes keep the machine busy.
func c11CPUTime() time.Duration {
	var ru syscall.Rusage
	if syscall.Getrusage(syscall.RUSAGE_SELF, &ru) != nil {
		return 0
	}
	return time.Duration(ru.Utime.Nano() + ru.Stime.Nano())
}

type c11CorpusEntry struct {
	kind, param, stream string
	// reject names the protocol invariant the stream violates: the client must report an
	// error (Close returns one) instead of accepting the stream
	reject string
}

// Known nasty inputs (each one was delivered or crashed something on the unfixed code).
var c11Corpus = []c11CorpusEntry{
	{"Search", "", "* SEARCH 0\r\nT1 OK done\r\n", "search-zero"},
	{"UIDSearch", "", "* SEARCH 3 0 5\r\nT1 OK done\r\n", "search-zero"},
	{"Search", "", "* SEARCH 1 2 3 (MODSEQ 917162500)\r\nT1 OK done\r\n", ""},
	{"Search", "", "* ESEARCH (TAG \"T1\") ALL 1:4294967295\r\nT1 OK done\r\n", ""},
	{"UIDSearch", "", "* ESEARCH (TAG \"T1\") UID ALL 1:4294967295\r\nT1 OK done\r\n", ""},
	{"Search", "", "* ESEARCH (TAG \"T1\") ALL 1:*\r\nT1 OK done\r\n", "esearch-dynamic"},
	{"Search", "", "* ESEARCH (TAG \"T1\") ALL $\r\nT1 OK done\r\n", "esearch-dynamic"},
	{"Search", "", "* ESEARCH (TAG \"T1\") ALL *\r\nT1 OK done\r\n", "esearch-dynamic"},
	{"Search", "", "* ESEARCH (TAG \"T1\") ALL 0\r\nT1 OK done\r\n", "esearch-zero"},
	{"Search", "", "* ESEARCH (TAG \"T1\") MIN 0\r\nT1 OK done\r\n", "esearch-min-zero"},
	{"Search", "", "* ESEARCH (TAG \"T1\") MAX 0 COUNT 0\r\nT1 OK done\r\n", "esearch-max-zero"},
	{"Search", "", "* ESEARCH (TAG \"T1\") MIN 1 MAX 4294967295 COUNT 0 ALL 1,4294967295\r\nT1 OK done\r\n", ""},
	{"UIDSearch", "", "* ESEARCH (TAG \"T1\") ALL 2:4\r\n* SEARCH 9\r\nT1 OK done\r\n", ""},
	{"Search", "", "* ESEARCH (TAG \"T2\") ALL 2:4\r\nT1 OK done\r\n", ""},
	{"Search", "", "* ESEARCH UID COUNT 5 X-EXT ((a b) {abc) MODSEQ 7\r\nT1 OK done\r\n", ""},
	{"Sort", "", "* SORT 0 5\r\nT1 OK done\r\n", "sort-zero"},
	{"Sort", "", "* SORT 5 4294967295 4294967296\r\nT1 OK done\r\n", "sort-overflow"},
	{"Sort", "", "* SORT 1 2 ", ""},
	{"Thread", "", "* THREAD (0 1)(2 (0))\r\nT1 OK done\r\n", "thread-zero"},
	{"Thread", "", "* THREAD (2)(3 6 (4 23)(44 7 96))()\r\nT1 OK done\r\n", ""},
	{"Thread", "", "* THREAD ((1)(2) 3)\r\nT1 OK done\r\n", ""},
	{"Expunge", "", "* 0 EXPUNGE\r\n* 3 EXPUNGE\r\nT1 OK done\r\n", "expunge-zero"},
	{"Expunge", "", "* 0 EXPUNGE\r\n* 0 EXPUNGE\r\n" + strings.Repeat("* 1 EXPUNGE\r\n", 200) + "T1 OK done\r\n", ""},
	{"Noop", "", "* 0 EXPUNGE\r\nT1 OK done\r\n", "expunge-zero"},
	{"Noop", "", "* EXPUNGE\r\nT1 OK done\r\n", "expunge-zero"},
	{"Noop", "", "* 0 FETCH (UID 5)\r\nT1 OK done\r\n", "fetch-seq-zero"},
	{"Noop", "", "* 5 FETCH (UID 0)\r\nT1 OK done\r\n", "fetch-uid-zero"},
	{"Fetch", "", "* 5 FETCH (FLAGS (\\Seen) UID 0)\r\nT1 OK done\r\n", "fetch-uid-zero"},
	{"Fetch", "", "* 0 FETCH (FLAGS (\\Seen))\r\nT1 OK done\r\n", "fetch-seq-zero"},
	{"Noop", "", "* 0 EXISTS\r\n* 0 RECENT\r\nT1 OK done\r\n", ""},
	{"Append", "", "T1 OK [APPENDUID 0 0] x\r\n", "appenduid-zero"},
	{"Append", "", "T1 OK [APPENDUID 7 0] x\r\n", "appenduid-zero"},
	{"Append", "", "T1 OK [APPENDUID 0 7] x\r\n", ""},
	{"Append", "", "T1 OK [APPENDUID 38505 3955] APPEND completed\r\n", ""},
	{"Append", "", "T1 OK [APPENDUID 38505 3955 garbage\r\n", ""},
	{"Copy", "", "T1 OK [COPYUID 0 1:3 0] x\r\n", "copyuid-zero"},
	{"Copy", "", "T1 OK [COPYUID 5 1:3 4:*] x\r\n", "copyuid-dynamic"},
	{"Copy", "", "T1 OK [COPYUID 5 $ 4] x\r\n", "copyuid-dynamic"},
	{"Copy", "", "T1 OK [COPYUID 38505 304,319:320 3956:3958] Done\r\n", ""},
	{"Copy", "", "T1 OK [COPYUID 38505 304,319:320 3956:3958 garbage\r\n", ""},
	{"Copy", "", "T1 OK [COPYUID 1 1:4294967295 1:4294967295] Done\r\n", ""},
	{"Move", "", "* OK [COPYUID 432432 42:69 1202:1229] Moved\r\n* 22 EXPUNGE\r\nT1 OK done\r\n", ""},
	{"Move", "", "* OK [COPYUID 432432 42:* 1202:1229] Moved\r\nT1 OK done\r\n", "copyuid-dynamic"},
	{"Status", "INBOX", "* STATUS INBOX (UIDNEXT 0 UIDVALIDITY 0 MESSAGES 4294967295)\r\nT1 OK done\r\n", ""},
	{"Status", "inbox", "* STATUS INBOX (MESSAGES 231 UIDNEXT 44292 X-UNKNOWN (1 2 (3)) SIZE 9223372036854775807 APPENDLIMIT NIL)\r\nT1 OK done\r\n", ""},
	{"Status", "foo", "* STATUS foo (X {abc)\r\n* STATUS foo (MESSAGES 1)\r\nT1 OK done\r\n", ""},
	{"Status", "foo", "* LIST () \"/\" x (\"X\" {abc)\r\n* STATUS foo (MESSAGES 1)\r\nT1 OK done\r\n", ""},
	{"Status", "foo", "* STATUS foo (X {abc)\r\n* STATUS foo (Y 5)\r\nT1 OK done\r\n", ""},
	{"GetMetadata", "foo", "* METADATA foo (/shared/comment {NIL)\r\n* STATUS foo (MESSAGES 1)\r\nT1 OK done\r\n", ""},
	{"Fetch", "", "* 1 FETCH (BODYSTRUCTURE " + strings.Repeat("(", 3000) + "\r\n", ""},
	{"Fetch", "", "* 1 FETCH (BODYSTRUCTURE " + c11NestedBody(1200) + ")\r\nT1 OK done\r\n", "body-too-deep"},
	{"Fetch", "", "* 1 FETCH (BODYSTRUCTURE " + c11NestedBody(1000) + ")\r\nT1 OK done\r\n", "body-too-deep"},
	{"Fetch", "", "* 1 FETCH (BODYSTRUCTURE " + c11NestedBody(999) + ")\r\nT1 OK done\r\n", ""},
	{"Fetch", "", "* 1 FETCH (BODYSTRUCTURE " + c11NestedMsg(600) + ")\r\nT1 OK done\r\n", ""},
	{"Fetch", "", "* 1 FETCH (BODY (\"text\" \"plain\" NIL NIL NIL \"7BIT\" 1 1 NIL NIL NIL NIL " + c11NestedList(1100, "x") + "))\r\nT1 OK done\r\n", ""},
	{"Fetch", "", "* 1 FETCH (BODY (\"text\" \"plain\" NIL NIL NIL \"7BIT\" 1 1 NIL NIL NIL NIL " + c11NestedList(997, "x") + "))\r\nT1 OK done\r\n", ""},
	{"Fetch", "", "* 1 FETCH (BODY (\"text\" \"plain\" NIL NIL NIL \"7BIT\" 1 1 NIL NIL NIL NIL " + c11NestedList(998, "x") + "))\r\nT1 OK done\r\n", ""},
	{"Thread", "", "* THREAD " + c11NestedList(999, "1") + "\r\nT1 OK done\r\n", ""},
	{"Thread", "", "* THREAD " + c11NestedList(1000, "1") + "\r\nT1 OK done\r\n", "thread-too-deep"},
	{"Thread", "", "* THREAD " + strings.Repeat("(", 5000) + "\r\n", ""},
	{"Search", "", "* ESEARCH (TAG \"T1\") X " + c11NestedList(999, "1") + "\r\nT1 OK done\r\n", ""},
	{"Search", "", "* ESEARCH (TAG \"T1\") X " + c11NestedList(1000, "1") + "\r\nT1 OK done\r\n", "list-too-deep"},
	{"List", "", "* LIST () \"/\" x (\"X\" " + c11NestedList(998, "1") + ")\r\nT1 OK done\r\n", ""},
	{"List", "", "* LIST () \"/\" x (\"X\" " + c11NestedList(999, "1") + ")\r\nT1 OK done\r\n", ""},
	{"Namespace", "", "* NAMESPACE ((\"\" \"/\" \"X\" " + c11NestedList(1200, "\"a\"") + ")) NIL NIL\r\nT1 OK done\r\n", ""},
	{"Namespace", "", "* NAMESPACE ((\"\" \"/\")) NIL NIL\r\nT1 OK done\r\n", ""},
	{"Namespace", "", "* NAMESPACE NIL NIL NIL\r\nT1 OK done\r\n", ""},
	{"Fetch", "", "* 12 FETCH (FLAGS (\\Seen) INTERNALDATE \"17-Jul-1996 02:44:25 -0700\" RFC822.SIZE 4286 ENVELOPE (\"Wed, 17 Jul 1996 02:23:25 -0700 (PDT)\" \"IMAP4rev1 WG mtg summary and minutes\" ((\"Terry Gray\" NIL \"gray\" \"cac.washington.edu\")) ((\"Terry Gray\" NIL \"gray\" \"cac.washington.edu\")) ((\"Terry Gray\" NIL \"gray\" \"cac.washington.edu\")) ((NIL NIL \"imap\" \"cac.washington.edu\")) ((NIL NIL \"minutes\" \"CNRI.Reston.VA.US\")(\"John Klensin\" NIL \"KLENSIN\" \"MIT.EDU\")) NIL NIL \"<B27397-0100000@cac.washington.edu>\") BODY (\"TEXT\" \"PLAIN\" (\"CHARSET\" \"US-ASCII\") NIL NIL \"7BIT\" 3028 92))\r\nT1 OK done\r\n", ""},
	{"Fetch", "", "* 1 FETCH (BODY[HEADER.FIELDS (From To)]<0> {5}\r\nhello UID 7 BINARY[1.2] ~{3}\r\nabc BINARY.SIZE[1] 42 MODSEQ (12345))\r\nT1 OK done\r\n", ""},
	{"Fetch", "", "* 1 FETCH (BODY[] {9223372036854775807}\r\nshort", ""},
	{"Fetch", "", "* 1 FETCH (BODY[] {5}\r\nab", "literal-cut-off"},
	{"Fetch", "", "* 1 FETCH (BODY[1.] NIL)\r\nT1 OK done\r\n", ""},
	{"Fetch", "", "* 1 FETCH (BODY[4294967296] NIL)\r\nT1 OK done\r\n", "number-overflow"},
	{"Fetch", "", "* 1 FETCH (RFC822.SIZE 9223372036854775808)\r\nT1 OK done\r\n", "number-overflow"},
	{"Fetch", "", "* 4294967296 FETCH (UID 1)\r\nT1 OK done\r\n", "number-overflow"},
	{"Fetch", "", "* 4294967295 FETCH (UID 4294967295 MODSEQ (18446744073709551615))\r\n* 4294967295 FETCH (UID 4294967295)\r\nT1 OK done\r\n", ""},
	{"Fetch", "", "* 1 FETCH (INTERNALDATE \"1-Jan-0001 00:00:00 +0000\")\r\nT1 OK done\r\n", ""},
	{"Fetch", "", "* 1 FETCH (BODYSTRUCTURE (\"a\" \"b\" (\"\" \"k\" \"v\") NIL NIL NIL -1))\r\nT1 OK done\r\n", ""},
	{"Fetch", "", "* 1 FETCH (BODYSTRUCTURE (\"application\" \"octet-stream\" NIL NIL NIL \"base64\" -))\r\nT1 OK done\r\n", ""},
	{"Fetch", "", "* 1 FETCH (BODY ((\"a\" \"b\" NIL NIL NIL \"7bit\" -)(\"text\" \"plain\" NIL NIL NIL \"7bit\" - 1) \"mixed\"))\r\nT1 OK done\r\n", ""},
	{"Fetch", "", "* 1 FETCH (BODYSTRUCTURE (\"application\" \"octet-stream\" NIL NIL NIL \"base64\" -4294967296))\r\nT1 OK done\r\n", ""},
	{"Fetch", "", "* 1 FETCH (BODY ((\"a\" \"b\" NIL NIL NIL \"7bit\" -4294967296)(\"text\" \"plain\" NIL NIL NIL \"7bit\" -4294967296 1) \"mixed\"))\r\nT1 OK done\r\n", ""},
	{"Fetch", "", "* 1 FETCH (BODYSTRUCTURE (\"application\" \"octet-stream\" NIL NIL NIL \"base64\" -99999999999))\r\nT1 OK done\r\n", ""},
	{"Fetch", "", "* 1 FETCH (BODY ((\"a\" \"b\" NIL NIL NIL \"7bit\" -99999999999)(\"text\" \"plain\" NIL NIL NIL \"7bit\" -99999999999 1) \"mixed\"))\r\nT1 OK done\r\n", ""},
	{"Fetch", "", "* 1 FETCH (BODYSTRUCTURE (\"application\" \"octet-stream\" NIL NIL NIL \"base64\" -0))\r\nT1 OK done\r\n", ""},
	{"Fetch", "", "* 1 FETCH (BODY ((\"a\" \"b\" NIL NIL NIL \"7bit\" -0)(\"text\" \"plain\" NIL NIL NIL \"7bit\" -0 1) \"mixed\"))\r\nT1 OK done\r\n", ""},
	{"Fetch", "", "* 1 FETCH (BODYSTRUCTURE (\"application\" \"octet-stream\" NIL NIL NIL \"base64\" -2))\r\nT1 OK done\r\n", ""},
	{"Fetch", "", "* 1 FETCH (BODY ((\"a\" \"b\" NIL NIL NIL \"7bit\" -2)(\"text\" \"plain\" NIL NIL NIL \"7bit\" -2 1) \"mixed\"))\r\nT1 OK done\r\n", ""},
	{"Fetch", "", "* 1 FETCH (BODYSTRUCTURE (\"application\" \"octet-stream\" NIL NIL NIL \"base64\" --1))\r\nT1 OK done\r\n", ""},
	{"Fetch", "", "* 1 FETCH (BODY ((\"a\" \"b\" NIL NIL NIL \"7bit\" --1)(\"text\" \"plain\" NIL NIL NIL \"7bit\" --1 1) \"mixed\"))\r\nT1 OK done\r\n", ""},
	{"Fetch", "", "* 1 FETCH (BODYSTRUCTURE (\"application\" \"octet-stream\" NIL NIL NIL \"base64\" -1x))\r\nT1 OK done\r\n", ""},
	{"Fetch", "", "* 1 FETCH (BODY ((\"a\" \"b\" NIL NIL NIL \"7bit\" -1x)(\"text\" \"plain\" NIL NIL NIL \"7bit\" -1x 1) \"mixed\"))\r\nT1 OK done\r\n", ""},
	{"Fetch", "", "* 1 FETCH (BODYSTRUCTURE (\"application\" \"octet-stream\" NIL NIL NIL \"base64\" - 1))\r\nT1 OK done\r\n", ""},
	{"Fetch", "", "* 1 FETCH (BODY ((\"a\" \"b\" NIL NIL NIL \"7bit\" - 1)(\"text\" \"plain\" NIL NIL NIL \"7bit\" - 1 1) \"mixed\"))\r\nT1 OK done\r\n", ""},
	{"Fetch", "", "* 1 FETCH (BODYSTRUCTURE (\"application\" \"octet-stream\" NIL NIL NIL \"base64\" -4294967295))\r\nT1 OK done\r\n", ""},
	{"Fetch", "", "* 1 FETCH (BODY ((\"a\" \"b\" NIL NIL NIL \"7bit\" -4294967295)(\"text\" \"plain\" NIL NIL NIL \"7bit\" -4294967295 1) \"mixed\"))\r\nT1 OK done\r\n", ""},
	{"Fetch", "", "* 1 FETCH (BODYSTRUCTURE (\"a\" \"b\" (\"k\") NIL NIL NIL 1))\r\nT1 OK done\r\n", ""},
	{"Select", "INBOX", "* 172 EXISTS\r\n* 1 RECENT\r\n* OK [UNSEEN 12] x\r\n* OK [UIDVALIDITY 3857529045] UIDs valid\r\n* OK [UIDNEXT 4392] Predicted next UID\r\n* FLAGS (\\Answered \\Flagged \\Deleted \\Seen \\Draft)\r\n* OK [PERMANENTFLAGS (\\Deleted \\Seen \\*)] Limited\r\n* OK [HIGHESTMODSEQ 715194045007]\r\n* LIST () \"/\" INBOX\r\nT1 OK [READ-WRITE] SELECT completed\r\n* 173 EXISTS\r\n* FLAGS (a)\r\n", ""},
	{"List", "", "* LIST (\\Noselect) \"/\" \"\"\r\n* LIST () NIL inbox\r\n* LIST (\\Marked \\HasChildren) \".\" \"a&AOk-b\" (\"CHILDINFO\" (\"SUBSCRIBED\") \"OLDNAME\" (\"old\"))\r\nT1 OK done\r\n", ""},
	{"GetQuotaRoot", "INBOX", "* QUOTAROOT INBOX \"\" user\r\n* QUOTA \"\" (STORAGE 10 512)\r\n* QUOTA other (STORAGE 1 2)\r\n* QUOTA user (MESSAGE 9223372036854775807 0 STORAGE 1 2 STORAGE 3 4)\r\nT1 OK done\r\n", ""},
	{"GetQuota", "user", "* QUOTA user (STORAGE 10 512)\r\nT1 OK done\r\n", ""},
	{"GetMetadata", "INBOX", "* METADATA INBOX (/shared/comment \"My comment\" /private/x NIL /shared/comment {2}\r\nhi)\r\n* METADATA \"INBOX\" /shared/comment /private/x\r\nT1 OK done\r\n", ""},
	{"Capability", "", "* CAPABILITY IMAP4rev1 IDLE IDLE\r\nT1 OK done\r\n* CAPABILITY X\r\n", ""},
	{"Enable", "", "* ENABLED UTF8=ACCEPT\r\nT1 OK done\r\n", ""},
	{"Noop", "", "+ idling\r\n", ""},
	{"Noop", "", "T1 NO [ALERT] no\r\n* 1 EXISTS\r\nT1 OK again\r\n", ""},
	{"Noop", "", "T1 BAD\r\n", ""},
	{"Noop", "", "T1 OK", ""},
	{"Noop", "", "T1 BYE x\r\n", ""},
	{"Noop", "", "T9 OK x\r\n", ""},
	{"Noop", "", "", ""},
	{"Noop", "", "* OK [CAPABILITY] x\r\n* OK [CAPABILITY IMAP4rev1 X] x\r\n* BYE\r\n", ""},
	{"Noop", "", "* 1 FETCH (BODY\xc5\xbfTRUCTURE (\"me\xc5\xbf\xc5\xbfage\" \"rfc822\" NIL NIL NIL \"7BIT\" 1 (NIL NIL NIL NIL NIL NIL NIL NIL NIL NIL) (\"a\" \"b\" NIL NIL NIL \"7BIT\" 1) 5))\r\n", ""},
}

// c11NestedBody returns a multipart body structure nested n deep around one text part.
func c11NestedBody(n int) string {
	return strings.Repeat("(", n) + `("text" "plain" NIL NIL NIL "7BIT" 1 1)` + strings.Repeat(` "mixed")`, n)
}

// c11NestedMsg nests message/rfc822 parts n deep.
func c11NestedMsg(n int) string {
	env := "(NIL NIL NIL NIL NIL NIL NIL NIL NIL NIL)"
	return strings.Repeat(`("message" "rfc822" NIL NIL NIL "7BIT" 1 `+env+" ", n) + `("text" "plain" NIL NIL NIL "7BIT" 1 1)` + strings.Repeat(" 1)", n)
}

func c11NestedList(n int, leaf string) string {
	return strings.Repeat("(", n) + leaf + strings.Repeat(")", n)
}

func c11Cases(h *H) []c11Case {
	var cases []c11Case
	for i, c := range c11Corpus {
		cases = append(cases, c11Case{cmd: c11Cmd{Kind: c.kind, Param: c.param}, stream: []byte(c.stream), origin: fmt.Sprintf("corpus#%d", i), reject: c.reject})
	}
	// LIST-STATUS: STATUS before any LIST, two in a row, for another mailbox, after the last LIST,
	// malformed; with and without the tagged completion
	for i, st := range []string{
		"* STATUS x (MESSAGES 1)\r\n* LIST () \"/\" x\r\n",
		"* LIST () \"/\" x\r\n* STATUS x (MESSAGES 1 UNSEEN 0)\r\n* STATUS x (MESSAGES 2)\r\n",
		"* LIST () \"/\" x\r\n* STATUS y (MESSAGES 1)\r\n* LIST () \"/\" y\r\n* STATUS y (MESSAGES 3)\r\n",
		"* STATUS x (MESSAGES 1)\r\n* STATUS x (MESSAGES 1)\r\n",
		"* LIST () \"/\" INBOX\r\n* STATUS inbox (UNSEEN 4294967295)\r\n",
		"* LIST (\\Noselect) NIL \"\"\r\n* STATUS \"\" ()\r\n",
		"* STATUS x (MESSAGES\r\n", "* STATUS\r\n* LIST () \"/\" x\r\n", "* LIST () \"/\" x\r\n* STATUS x (MESSAGES 0 X (1 (2)))\r\n",
	} {
		for _, end := range []string{"T1 OK done\r\n", "T1 NO no\r\n", ""} {
			cases = append(cases, c11Case{cmd: c11Cmd{Kind: "ListStatus"}, stream: []byte(st + end), origin: fmt.Sprintf("corpus#list-status-%d", i), noCorr: true})
		}
	}
	g := &c11Gen{r: h.Rng}
	// every command kind sees a plain completion and a cut-off one
	for _, k := range c11Kinds {
		c := g.cmdFor([]string{k})
		c.Kind = k
		if c.Param == "" && (k == "Status" || k == "Select" || k == "GetQuotaRoot" || k == "GetMetadata" || k == "GetQuota") {
			c.Param = "INBOX"
		}
		cases = append(cases, c11Case{cmd: c, stream: []byte("T1 OK done\r\n"), origin: "corpus#completion"})
		cases = append(cases, c11Case{cmd: c, stream: []byte("T1 NO [X] no\r\n"), origin: "corpus#completion"})
		cases = append(cases, c11Case{cmd: c, stream: []byte("* 1 EXISTS\r\n"), origin: "corpus#completion"})
	}
	nGrammar, nMut, nGarbage := h.Pick(900, 6000), h.Pick(1100, 8000), h.Pick(250, 2000)
	var pool []struct {
		s string
		c c11Cmd
	}
	for i := 0; i < nGrammar; i++ {
		s, c := g.stream()
		pool = append(pool, struct {
			s string
			c c11Cmd
		}{s, c})
		cases = append(cases, c11Case{cmd: c, stream: []byte(s), origin: "grammar"})
	}
	for i := 0; i < nMut; i++ {
		p := pool[g.r.Intn(len(pool))]
		cases = append(cases, c11Case{cmd: p.c, stream: []byte(g.mutate(p.s)), origin: "mutated"})
	}
	for i := 0; i < nGarbage; i++ {
		cases = append(cases, c11Case{cmd: g.cmdFor(c11Kinds), stream: []byte(g.garbage()), origin: "garbage"})
	}
	// nesting bombs far beyond the caps: direct oracles only (too long for in-kernel evaluation
	// in the quick tier), a few moderate ones with the model
	for _, n := range []int{1500, 20000, h.Pick(100000, 1000000)} {
		big := n > 2000
		cases = append(cases,
			c11Case{cmd: c11Cmd{Kind: "Fetch"}, stream: []byte("* 1 FETCH (BODYSTRUCTURE " + strings.Repeat("(", n) + "\r\n"), origin: "depth:body-open", noCorr: big},
			c11Case{cmd: c11Cmd{Kind: "Fetch"}, stream: []byte("* 1 FETCH (BODYSTRUCTURE " + c11NestedBody(n) + ")\r\nT1 OK x\r\n"), origin: "depth:body-mpart", noCorr: big},
			c11Case{cmd: c11Cmd{Kind: "Fetch"}, stream: []byte("* 1 FETCH (BODYSTRUCTURE " + c11NestedMsg(n) + ")\r\nT1 OK x\r\n"), origin: "depth:body-msg", noCorr: big},
			c11Case{cmd: c11Cmd{Kind: "Thread"}, stream: []byte("* THREAD " + c11NestedList(n, "1") + "\r\nT1 OK x\r\n"), origin: "depth:thread", noCorr: big},
			c11Case{cmd: c11Cmd{Kind: "Search"}, stream: []byte("* ESEARCH (TAG \"T1\") X " + c11NestedList(n, "1") + "\r\nT1 OK x\r\n"), origin: "depth:esearch-ext", noCorr: big},
			c11Case{cmd: c11Cmd{Kind: "Status", Param: "x"}, stream: []byte("* STATUS x (Y " + c11NestedList(n, "1") + ")\r\nT1 OK x\r\n"), origin: "depth:status-ext", noCorr: big},
			c11Case{cmd: c11Cmd{Kind: "Fetch"}, stream: []byte("* 1 FETCH (BODY (\"a\" \"b\" NIL NIL NIL NIL 1 NIL NIL NIL NIL " + c11NestedList(n, "1") + "))\r\nT1 OK x\r\n"), origin: "depth:body-ext", noCorr: big},
		)
	}
	return cases
}

// ---- growth: time and allocation as a function of input size ------------------------------------

type c11Family struct {
	name string
	cmd  c11Cmd
	gen  func(n int) string
	base int // n for the small run (the large run uses 4n)
}

func c11Repeat(prefix string, n int, item func(i int) string, suffix string) string {
	var sb strings.Builder
	sb.WriteString(prefix)
	for i := 0; i < n; i++ {
		sb.WriteString(item(i))
	}
	sb.WriteString(suffix)
	return sb.String()
}

func c11Families(h *H) []c11Family {
	q := func(quick, thorough int) int { return h.Pick(quick, thorough) }
	env := `("Mon, 2 Jan 2006 15:04:05 -0700" "=?utf-8?q?subject?=" (("n" NIL "a" "b")) NIL NIL (("n" NIL "a" "b")("n" NIL "c" "d")) NIL NIL "<a@b> <c@d>" "<id@x>")`
	fams := []c11Family{
		{"body-open-parens", c11Cmd{Kind: "Fetch"}, func(n int) string { return "* 1 FETCH (BODYSTRUCTURE " + strings.Repeat("(", n) + "\r\n" }, q(50000, 500000)},
		{"body-nested-mpart", c11Cmd{Kind: "Fetch"}, func(n int) string { return "* 1 FETCH (BODYSTRUCTURE " + c11NestedBody(n) + ")\r\n" }, q(20000, 200000)},
		{"body-wide-mpart", c11Cmd{Kind: "Fetch"}, func(n int) string {
			return "* 1 FETCH (BODYSTRUCTURE (" + strings.Repeat(`("text" "plain" ("charset" "utf-8") NIL NIL "7BIT" 1 1 NIL ("inline" ("filename" "x")) ("en") NIL)`, n) + ` "mixed"))` + "\r\nT1 OK x\r\n"
		}, q(5000, 50000)},
		{"body-ext-nested", c11Cmd{Kind: "Fetch"}, func(n int) string {
			return "* 1 FETCH (BODY (\"a\" \"b\" NIL NIL NIL NIL 1 NIL NIL NIL NIL " + c11NestedList(n, "1") + "))\r\n"
		}, q(50000, 500000)},
		{"thread-nested", c11Cmd{Kind: "Thread"}, func(n int) string { return "* THREAD " + c11NestedList(n, "1") + "\r\n" }, q(50000, 500000)},
		{"thread-wide", c11Cmd{Kind: "Thread"}, func(n int) string {
			return c11Repeat("* THREAD", n, func(i int) string { return "(1 2 (3)(4 5))" }, "\r\nT1 OK x\r\n")
		}, q(10000, 100000)},
		{"esearch-ext-nested", c11Cmd{Kind: "Search"}, func(n int) string { return "* ESEARCH (TAG \"T1\") X " + c11NestedList(n, "1") + "\r\n" }, q(50000, 500000)},
		{"search-ascending", c11Cmd{Kind: "Search"}, func(n int) string {
			return c11Repeat("* SEARCH", n, func(i int) string { return " " + strconv.Itoa(2*i+2) }, "\r\nT1 OK x\r\n")
		}, q(40000, 100000)},
		{"search-descending", c11Cmd{Kind: "Search"}, func(n int) string {
			return c11Repeat("* SEARCH", n, func(i int) string { return " " + strconv.Itoa(2*(n-i)) }, "\r\nT1 OK x\r\n")
		}, q(40000, 50000)},
		{"sort-numbers", c11Cmd{Kind: "Sort"}, func(n int) string {
			return c11Repeat("* SORT", n, func(i int) string { return " " + strconv.Itoa(2*(n-i)) }, "\r\nT1 OK x\r\n")
		}, q(40000, 200000)},
		{"fetch-many", c11Cmd{Kind: "Fetch"}, func(n int) string {
			return c11Repeat("", n, func(i int) string {
				return "* " + strconv.Itoa(i+1) + " FETCH (UID " + strconv.Itoa(i+1) + " FLAGS (\\Seen))\r\n"
			}, "T1 OK x\r\n")
		}, q(5000, 40000)},
		{"fetch-envelopes", c11Cmd{Kind: "Fetch"}, func(n int) string {
			return c11Repeat("", n, func(i int) string { return "* " + strconv.Itoa(i+1) + " FETCH (ENVELOPE " + env + ")\r\n" }, "T1 OK x\r\n")
		}, q(2000, 20000)},
		{"envelope-long-strings", c11Cmd{Kind: "Fetch"}, func(n int) string {
			long := strings.Repeat("<a@b> ", n)
			return "* 1 FETCH (ENVELOPE (" + c11Quote(long) + " " + c11Quote(strings.Repeat("=?utf-8?q?x?= ", n)) + " NIL NIL NIL NIL NIL NIL " + c11Quote(long) + " " + c11Quote(long) + "))\r\nT1 OK x\r\n"
		}, q(5000, 50000)},
		{"unilateral-fetch", c11Cmd{Kind: "Noop"}, func(n int) string {
			return c11Repeat("", n, func(i int) string { return "* 7 FETCH (FLAGS (\\Seen))\r\n" }, "T1 OK x\r\n")
		}, q(2000, 20000)},
		{"long-atom", c11Cmd{Kind: "Noop"}, func(n int) string { return "* " + strings.Repeat("A", n) + "\r\n" }, q(500000, 4000000)},
		{"long-quoted", c11Cmd{Kind: "List"}, func(n int) string { return "* LIST () \"/\" \"" + strings.Repeat("a", n) + "\"\r\nT1 OK x\r\n" }, q(500000, 4000000)},
		{"long-literal", c11Cmd{Kind: "Fetch"}, func(n int) string {
			return fmt.Sprintf("* 1 FETCH (BODY[] {%d}\r\n%s)\r\nT1 OK x\r\n", n, strings.Repeat("x", n))
		}, q(500000, 4000000)},
		{"caps-many", c11Cmd{Kind: "Capability"}, func(n int) string {
			return c11Repeat("* CAPABILITY", n, func(i int) string { return " X" + strconv.Itoa(i) }, "\r\nT1 OK x\r\n")
		}, q(20000, 200000)},
		{"flags-many", c11Cmd{Kind: "Select", Param: "x"}, func(n int) string {
			return c11Repeat("* FLAGS (", n, func(i int) string { return "f" + strconv.Itoa(i) + " " }, "x)\r\nT1 OK x\r\n")
		}, q(20000, 200000)},
		// a selected mailbox with n flags, then n unilateral updates of its summary: each update
		// must cost O(1), not O(number of flags)
		{"selected-mailbox-updates", c11Cmd{Kind: "Select", Param: "x"}, func(n int) string {
			fl := c11Repeat("* FLAGS (", n, func(i int) string { return "f" + strconv.Itoa(i) + " " }, "x)\r\n* 1 EXISTS\r\nT1 OK [READ-WRITE] x\r\n")
			return fl + c11Repeat("", n, func(i int) string { return "* " + strconv.Itoa(i+2) + " EXISTS\r\n* 1 EXPUNGE\r\n" }, "")
		}, q(4000, 20000)},
		{"list-many", c11Cmd{Kind: "List"}, func(n int) string {
			return c11Repeat("", n, func(i int) string { return "* LIST (\\HasNoChildren) \"/\" \"box" + strconv.Itoa(i) + "\"\r\n" }, "T1 OK x\r\n")
		}, q(5000, 50000)},
		{"status-many-items", c11Cmd{Kind: "Status", Param: "x"}, func(n int) string {
			return c11Repeat("* STATUS x (", n, func(i int) string { return "MESSAGES " + strconv.Itoa(i) + " " }, "UNSEEN 1)\r\nT1 OK x\r\n")
		}, q(20000, 200000)},
		{"metadata-many", c11Cmd{Kind: "GetMetadata", Param: "x"}, func(n int) string {
			return c11Repeat("* METADATA x (", n, func(i int) string { return "/shared/e" + strconv.Itoa(i) + " \"v\" " }, "/shared/z NIL)\r\nT1 OK x\r\n")
		}, q(10000, 100000)},
		{"garbage-lines", c11Cmd{Kind: "Noop"}, func(n int) string {
			return c11Repeat("", n, func(i int) string { return "* OK [X " + strconv.Itoa(i) + "] still here\r\n" }, "T1 OK x\r\n")
		}, q(10000, 100000)},
		{"esearch-all-ascending", c11Cmd{Kind: "Search"}, func(n int) string {
			return c11Repeat("* ESEARCH (TAG \"T1\") ALL 1", n, func(i int) string { return "," + strconv.Itoa(2*i+3) }, "\r\nT1 OK x\r\n")
		}, q(20000, 100000)},
	}
	if h.Thorough() {
		fams = append(fams,
			c11Family{"esearch-all-descending", c11Cmd{Kind: "Search"}, func(n int) string {
				return c11Repeat("* ESEARCH (TAG \"T1\") ALL 1", n, func(i int) string { return "," + strconv.Itoa(2*(n-i)+1) }, "\r\nT1 OK x\r\n")
			}, 40000},
			c11Family{"copyuid-descending", c11Cmd{Kind: "Copy"}, func(n int) string {
				set := c11Repeat("1", n, func(i int) string { return "," + strconv.Itoa(2*(n-i)+1) }, "")
				return "T1 OK [COPYUID 1 " + set + " " + set + "] x\r\n"
			}, 40000},
			c11Family{"fetch-descending-seq", c11Cmd{Kind: "Fetch"}, func(n int) string {
				return c11Repeat("", n, func(i int) string { return "* " + strconv.Itoa(2*(n-i)) + " FETCH (UID 1)\r\n" }, "T1 OK x\r\n")
			}, 60000},
		)
	}
	return fams
}

type c11GrowthRow struct {
	Family        string  `json:"family"`
	N             int     `json:"n"`
	Bytes1        int     `json:"bytes_small"`
	Bytes4        int     `json:"bytes_large"`
	Ms1           float64 `json:"ms_small"`
	Ms4           float64 `json:"ms_large"`
	Alloc1        uint64  `json:"alloc_small"`
	Alloc4        uint64  `json:"alloc_large"`
	TimeRatio     float64 `json:"time_ratio"`
	CPUms1        float64 `json:"cpu_ms_small"`
	CPUms4        float64 `json:"cpu_ms_large"`
	CPURatio      float64 `json:"cpu_ratio"`
	AllocRatio    float64 `json:"alloc_ratio"`
	AllocPerByte4 float64 `json:"alloc_per_input_byte_large"`
}

// c11Growth runs each family at n and 4n (best of several runs) and flags super-linear growth:
// linear growth gives a ratio of 4, quadratic growth 16.
func c11Growth(h *H) {
	reps := h.Pick(2, 3)
	var rows []c11GrowthRow
	for _, f := range c11Families(h) {
		measure := func(n int) (time.Duration, time.Duration, uint64, int, *c11Result) {
			s := []byte(f.gen(n))
			var best, bestCPU time.Duration
			var alloc uint64
			var last *c11Result
			for i := 0; i < reps; i++ {
				h.InFlight(map[string]interface{}{"growth_family": f.name, "n": n, "bytes": len(s)})
				c0 := c11CPUTime()
				r := c11Exec(f.cmd, s, 120*time.Second, true)
				cpu := c11CPUTime() - c0
				last = r
				if r.Hung != "" {
					return 0, 0, 0, len(s), r
				}
				if i == 0 || r.Dur < best {
					best = r.Dur
				}
				if i == 0 || cpu < bestCPU {
					bestCPU = cpu
				}
				if i == 0 || r.Alloc < alloc {
					alloc = r.Alloc
				}
			}
			return best, bestCPU, alloc, len(s), last
		}
		t1, c1, a1, b1, r1 := measure(f.base)
		t4, c4, a4, b4, r4 := measure(4 * f.base)
		h.Eval("growth|" + f.name)
		h.Hist("growth")
		desc := map[string]interface{}{"family": f.name, "cmd": f.cmd.Kind, "n_small": f.base, "n_large": 4 * f.base, "sample": fmt.Sprintf("%q", c11Trunc([]byte(f.gen(6)), 400))}
		for _, r := range []*c11Result{r1, r4} {
			if r.Hung != "" {
				h.Fail("hang:growth:"+f.name, "the client hangs on a large input: "+r.Hung, desc)
			}
			for _, v := range r.Violations {
				p := strings.SplitN(v, "\x00", 2)
				h.Fail(p[0], p[1], desc)
			}
		}
		if r1.Hung != "" || r4.Hung != "" {
			c11Polluted = true
			continue
		}
		if c11Polluted {
			h.Note("growth %s: not judged, an earlier run was abandoned as hung and is still using the machine", f.name)
			continue
		}
		row := c11GrowthRow{Family: f.name, N: f.base, Bytes1: b1, Bytes4: b4, Ms1: c11Ms(t1), Ms4: c11Ms(t4), Alloc1: a1, Alloc4: a4}
		row.TimeRatio = float64(t4) / float64(c11MaxDur(t1, time.Millisecond))
		row.CPUms1, row.CPUms4 = c11Ms(c1), c11Ms(c4)
		row.CPURatio = float64(c4) / float64(c11MaxDur(c1, 5*time.Millisecond))
		row.AllocRatio = float64(a4) / float64(c11MaxU64(a1, 1<<20))
		row.AllocPerByte4 = float64(a4) / float64(b4)
		rows = append(rows, row)
		// both the wall time and the CPU time of the process must show it: x4 input, more than x8 time,
		// and enough absolute time that start-up, GC pauses and a busy machine cannot explain it
		if row.TimeRatio > 8 && row.CPURatio > 8 && t4 > time.Second && c4 > time.Second {
			h.Fail("superlinear-time:"+f.name, fmt.Sprintf("parse time grows super-linearly: %d bytes take %.0f ms, %d bytes take %.0f ms (x%.1f for x4 input)", b1, c11Ms(t1), b4, c11Ms(t4), row.TimeRatio), desc)
		}
		if row.AllocRatio > 8 && a4 > 64<<20 {
			h.Fail("superlinear-alloc:"+f.name, fmt.Sprintf("allocation grows super-linearly: %d bytes allocate %d MB, %d bytes allocate %d MB", b1, a1>>20, b4, a4>>20), desc)
		}
		if row.AllocPerByte4 > 2000 && a4 > 256<<20 {
			h.Fail("alloc-per-byte:"+f.name, fmt.Sprintf("%d MB allocated for %d input bytes", a4>>20, b4), desc)
		}
	}
	sort.Slice(rows, func(i, j int) bool { return rows[i].TimeRatio > rows[j].TimeRatio })
	for _, r := range rows {
		h.Note("growth %-24s n=%d: %d B -> %.1f ms (cpu %.0f) / %d KB alloc; %d B -> %.1f ms (cpu %.0f) / %d KB alloc; time x%.1f cpu x%.1f alloc x%.1f", r.Family, r.N, r.Bytes1, r.Ms1, r.CPUms1, r.Alloc1>>10, r.Bytes4, r.Ms4, r.CPUms4, r.Alloc4>>10, r.TimeRatio, r.CPURatio, r.AllocRatio)
	}
}

func c11Ms(d time.Duration) float64 { return float64(d) / float64(time.Millisecond) }
func c11MaxDur(a, b time.Duration) time.Duration {
	if a > b {
		return a
	}
	return b
}
func c11MaxU64(a, b uint64) uint64 {
	if a > b {
		return a
	}
	return b
}
