package main

import (
	"bufio"
	"fmt"
	"io"
	"net"
	"regexp"
	"strconv"
	"strings"
	"sync"
	"time"

	"github.com/emersion/go-imap/v2/imapclient"
)

// scriptedPeer is a scripted IMAP server for driving the real imapclient.Client.
// It reads the client's commands with an independent tokenizer, records every byte the
// client wrote (with the points at which continuation requests were sent), and answers
// through a callback.
type scriptedPeer struct {
	ln       net.Listener
	Greeting string

	mu         sync.Mutex
	conn       net.Conn
	br         *bufio.Reader
	received   []byte     // everything the client wrote
	cmds       []*peerCmd // parsed commands in order
	violations []string   // protocol violations seen by the peer (payload before "+", ...)

	// OnCommand decides what to do with a fully received command; it runs in the peer's
	// goroutine and may call Send.
	OnCommand func(p *scriptedPeer, c *peerCmd)
	// OnLiteral decides whether a synchronising literal is accepted: return "" to send "+",
	// or a tagged refusal line body such as "NO too big" (the tag is prepended).
	OnLiteral func(p *scriptedPeer, c *peerCmd, size int) string
	// ContDelay is waited before sending "+": bytes of the payload arriving earlier are a
	// violation of literal synchronisation.
	ContDelay time.Duration
	done      chan struct{}
}

type peerLiteral struct {
	Size    int
	NonSync bool
	Refused bool
	Data    []byte
}

type peerCmd struct {
	Tag  string
	Name string
	Raw  []byte // the complete command as received, literal headers and payloads included
	Line string // command text with literals replaced by <LIT:i>
	Lits []peerLiteral
}

var reLitHdr = regexp.MustCompile(`\{(\d+)(\+?)\}\r\n$`)

func newPeer(greeting string) *scriptedPeer {
	ln, err := net.Listen("tcp", "127.0.0.1:0")
	if err != nil {
		panic(err)
	}
	p := &scriptedPeer{ln: ln, Greeting: greeting, done: make(chan struct{})}
	go p.serve()
	return p
}

func (p *scriptedPeer) Addr() string { return p.ln.Addr().String() }

func (p *scriptedPeer) Send(s string) error {
	p.mu.Lock()
	c := p.conn
	p.mu.Unlock()
	if c == nil {
		return fmt.Errorf("no connection")
	}
	_, err := io.WriteString(c, s)
	return err
}

func (p *scriptedPeer) CloseConn() {
	p.mu.Lock()
	c := p.conn
	p.mu.Unlock()
	if c != nil {
		c.Close()
	}
}

func (p *scriptedPeer) Close() {
	p.ln.Close()
	p.CloseConn()
}

func (p *scriptedPeer) Commands() []*peerCmd {
	p.mu.Lock()
	defer p.mu.Unlock()
	return append([]*peerCmd(nil), p.cmds...)
}

func (p *scriptedPeer) Violations() []string {
	p.mu.Lock()
	defer p.mu.Unlock()
	return append([]string(nil), p.violations...)
}

func (p *scriptedPeer) violate(format string, a ...interface{}) {
	p.mu.Lock()
	p.violations = append(p.violations, fmt.Sprintf(format, a...))
	p.mu.Unlock()
}

func (p *scriptedPeer) serve() {
	defer close(p.done)
	c, err := p.ln.Accept()
	if err != nil {
		return
	}
	p.mu.Lock()
	p.conn = c
	p.br = bufio.NewReader(c)
	p.mu.Unlock()
	if p.Greeting != "" {
		io.WriteString(c, p.Greeting)
	}
	for {
		cmd, err := p.readCommand()
		if cmd != nil {
			p.mu.Lock()
			p.cmds = append(p.cmds, cmd)
			p.mu.Unlock()
			if cmd.Tag != "" && p.OnCommand != nil {
				p.OnCommand(p, cmd)
			}
		}
		if err != nil {
			return
		}
	}
}

// readCommand reads one command: a line, continued over literals.
func (p *scriptedPeer) readCommand() (*peerCmd, error) {
	cmd := &peerCmd{}
	var text strings.Builder
	for {
		line, err := p.br.ReadString('\n')
		cmd.Raw = append(cmd.Raw, line...)
		p.mu.Lock()
		p.received = append(p.received, line...)
		p.mu.Unlock()
		if err != nil {
			if len(cmd.Raw) == 0 {
				return nil, err
			}
			cmd.Line = text.String() + line
			p.fillName(cmd)
			return cmd, err
		}
		if cmd.Tag == "" {
			f := strings.SplitN(strings.TrimRight(line, "\r\n"), " ", 3)
			cmd.Tag = f[0]
		}
		m := reLitHdr.FindStringSubmatch(line)
		if m == nil {
			text.WriteString(line)
			cmd.Line = text.String()
			p.fillName(cmd)
			return cmd, nil
		}
		size, _ := strconv.Atoi(m[1])
		lit := peerLiteral{Size: size, NonSync: m[2] == "+"}
		text.WriteString(line[:len(line)-len(m[0])])
		text.WriteString(fmt.Sprintf("<LIT:%d>", len(cmd.Lits)))
		p.fillName(cmd)
		if !lit.NonSync {
			refusal := ""
			if p.OnLiteral != nil {
				refusal = p.OnLiteral(p, cmd, size)
			}
			// literal synchronisation: nothing of the payload may arrive before "+"
			if p.ContDelay > 0 || refusal != "" {
				p.conn.SetReadDeadline(time.Now().Add(p.ContDelay + 30*time.Millisecond))
				if b, err := p.br.Peek(1); err == nil && len(b) > 0 && refusal == "" {
					p.violate("payload of the synchronising literal of %s %s arrived before the continuation request", cmd.Tag, cmd.Name)
				} else if err == nil && len(b) > 0 && refusal != "" {
					// bytes after a header we are about to refuse: only a new command would be legal,
					// which cannot come before the refusal either
					p.violate("bytes arrived after the synchronising literal header of %s %s before any server reply", cmd.Tag, cmd.Name)
				}
				p.conn.SetReadDeadline(time.Time{})
			}
			if refusal != "" {
				lit.Refused = true
				cmd.Lits = append(cmd.Lits, lit)
				cmd.Line = text.String()
				p.Send(cmd.Tag + " " + refusal + "\r\n")
				// the command ends here; whatever follows must be a new command
				cmd.Tag = "" // already answered: OnCommand must not answer it again
				return cmd, nil
			}
			p.Send("+ go ahead\r\n")
		}
		buf := make([]byte, size)
		if _, err := io.ReadFull(p.br, buf); err != nil {
			return cmd, err
		}
		lit.Data = buf
		cmd.Raw = append(cmd.Raw, buf...)
		p.mu.Lock()
		p.received = append(p.received, buf...)
		p.mu.Unlock()
		cmd.Lits = append(cmd.Lits, lit)
	}
}

func (p *scriptedPeer) fillName(cmd *peerCmd) {
	if cmd.Name != "" {
		return
	}
	f := strings.Fields(strings.TrimRight(string(cmd.Raw), "\r\n"))
	if len(f) >= 2 {
		cmd.Name = strings.ToUpper(f[1])
		if cmd.Name == "UID" && len(f) >= 3 {
			cmd.Name = "UID " + strings.ToUpper(f[2])
		}
	}
}

// dialClient connects a real client to the peer.
func (p *scriptedPeer) dialClient(options *imapclient.Options) (*imapclient.Client, net.Conn) {
	conn, err := net.Dial("tcp", p.Addr())
	if err != nil {
		panic(err)
	}
	return imapclient.New(conn, options), conn
}

// withTimeout runs f and reports whether it returned in time.
func withTimeout(d time.Duration, f func()) bool {
	done := make(chan struct{})
	go func() {
		defer close(done)
		f()
	}()
	select {
	case <-done:
		return true
	case <-time.After(d):
		return false
	}
}

// okAll answers every command with OK (and CAPABILITY data when asked).
func okAll(caps string) func(p *scriptedPeer, c *peerCmd) {
	return func(p *scriptedPeer, c *peerCmd) {
		switch c.Name {
		case "CAPABILITY":
			p.Send("* CAPABILITY " + caps + "\r\n" + c.Tag + " OK done\r\n")
		case "LOGOUT":
			p.Send("* BYE bye\r\n" + c.Tag + " OK done\r\n")
		case "IDLE":
			p.Send("+ idling\r\n")
		case "DONE":
		default:
			p.Send(c.Tag + " OK done\r\n")
		}
	}
}
