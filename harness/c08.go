package main

// C08 — on-the-wire mailbox view consistency across sessions.
//
// 1..4 raw connections to a real imapserver with the in-memory backend run one history of
// commands, one command at a time. Everything each connection receives is parsed by the
// tokenizer in this file (independent of imapclient) into wire events. Two checks:
//   * direct oracles, written from the property text, on each connection's event stream
//     (c08Obs), plus the mailbox's true UID list fetched through a fresh probe session;
//   * the whole history is replayed on the Coq model (Model/MemView.v) inside the kernel,
//     which must predict every connection's event stream exactly (Model/MemViewCorr.v).

import (
	"encoding/json"
	"fmt"
	"io"
	"math/rand"
	"os"
	"path/filepath"
	"regexp"
	"sort"
	"strconv"
	"strings"
	"time"

	imap "github.com/emersion/go-imap/v2"
)

func init() { runners["C08"] = runC08 }

// ---- commands ---------------------------------------------------------------------------

type c08Cmd struct {
	Conn    int    `json:"c"`
	K       string `json:"k"` // append select unselect close noop idle done fetch store expunge uidexpunge copy move search bad
	UID     bool   `json:"uid,omitempty"`
	Set     string `json:"set,omitempty"`
	Mb      int    `json:"mb,omitempty"` // mailbox index; == number of mailboxes: a name that does not exist
	Del     bool   `json:"del,omitempty"`
	Sop     int    `json:"sop,omitempty"` // 0 set \Deleted, 1 clear \Deleted, 2 leave it
	Form    int    `json:"form,omitempty"`
	Silent  bool   `json:"silent,omitempty"`
	WFlags  bool   `json:"wflags,omitempty"`
	Seen    bool   `json:"seen,omitempty"`
	SQ      string `json:"sq,omitempty"`
	UQ      string `json:"uq,omitempty"`
	DQ      int    `json:"dq,omitempty"` // 0 none 1 DELETED 2 UNDELETED
	ESearch int    `json:"esearch,omitempty"`
	Line    string `json:"line,omitempty"`
}

var c08Names = []string{"A", "B", "C", "D"}

func c08MbName(i, nmb int) string {
	if i >= nmb || i < 0 {
		return "Zz"
	}
	return c08Names[i]
}

func (c *c08Cmd) verb() string {
	u := ""
	if c.UID {
		u = "UID "
	}
	switch c.K {
	case "fetch":
		return u + "FETCH"
	case "store":
		return u + "STORE"
	case "copy":
		return u + "COPY"
	case "move":
		return u + "MOVE"
	case "search":
		return u + "SEARCH"
	case "uidexpunge":
		return "UID EXPUNGE"
	}
	return strings.ToUpper(c.K)
}

// text renders the command line (without tag); APPEND is sent with a literal by the runner.
// Command names are case-insensitive: a share of the lines spells them in lower or mixed case.
func (c *c08Cmd) text(nmb int) string {
	line := c.textUpper(nmb)
	v := c.verb()
	if !strings.HasPrefix(line, v) || c.K == "done" || c.K == "idle" {
		return line
	}
	switch ((c.Form % 7) + 7) % 7 {
	case 5:
		return strings.ToLower(v) + line[len(v):]
	case 6:
		b := []byte(strings.ToLower(v))
		for i := 0; i < len(b); i += 2 {
			if b[i] >= 'a' && b[i] <= 'z' {
				b[i] -= 32
			}
		}
		return string(b) + line[len(v):]
	}
	return line
}

// examine says whether a "select" command is sent as EXAMINE (a read-only view) rather than
// SELECT; the model's TSelect carries the same bit.
func (c *c08Cmd) examine() bool { return c.K == "select" && ((c.Form%2)+2)%2 == 1 }

func (c *c08Cmd) textUpper(nmb int) string {
	pick := func(opts ...string) string { return opts[((c.Form%len(opts))+len(opts))%len(opts)] }
	switch c.K {
	case "select":
		if c.examine() {
			return "EXAMINE " + c08MbName(c.Mb, nmb)
		}
		return "SELECT " + c08MbName(c.Mb, nmb)
	case "unselect":
		return "UNSELECT"
	case "close":
		return "CLOSE"
	case "noop":
		return pick("NOOP", "CHECK")
	case "idle":
		return "IDLE"
	case "done":
		return "DONE"
	case "bad":
		return pick("FROB", "FETCH", "STORE 1 +FLOGS (x)", "EXPUNGE 1")
	case "fetch":
		var items string
		switch {
		case c.WFlags && c.Seen:
			items = pick("(FLAGS BODY[])", "(UID FLAGS BODY[TEXT])", "(FLAGS RFC822)")
		case c.WFlags:
			items = pick("(UID FLAGS)", "FLAGS", "(FLAGS)", "FAST", "(FLAGS BODY.PEEK[])", "(FLAGS INTERNALDATE)")
		case c.Seen:
			items = pick("BODY[]", "(UID BODY[TEXT])", "RFC822.TEXT", "(BODY[HEADER])")
		default:
			items = pick("UID", "(UID)", "BODY.PEEK[HEADER]", "RFC822.SIZE", "(UID RFC822.SIZE BODY.PEEK[])", "ENVELOPE")
		}
		return c.verb() + " " + c.Set + " " + items
	case "store":
		var it string
		switch c.Sop {
		case 0:
			it = pick(`+FLAGS%s (\Deleted)`, `FLAGS%s (\Deleted)`, `+FLAGS%s \Deleted`, `+flags%s (\deleted \Seen)`)
		case 1:
			it = pick(`-FLAGS%s (\Deleted)`, `FLAGS%s (\Seen)`, `FLAGS%s ()`, `-FLAGS%s \Deleted`)
		default:
			it = pick(`+FLAGS%s (\Seen)`, `-FLAGS%s (\Flagged)`, `+FLAGS%s (custom)`)
		}
		sl := ""
		if c.Silent {
			sl = ".SILENT"
		}
		return c.verb() + " " + c.Set + " " + fmt.Sprintf(it, sl)
	case "expunge":
		return "EXPUNGE"
	case "uidexpunge":
		return "UID EXPUNGE " + c.Set
	case "copy", "move":
		return c.verb() + " " + c.Set + " " + c08MbName(c.Mb, nmb)
	case "search":
		var keys []string
		if c.SQ != "" {
			keys = append(keys, c.SQ)
		}
		if c.UQ != "" {
			keys = append(keys, "UID "+c.UQ)
		}
		switch c.DQ {
		case 1:
			keys = append(keys, "DELETED")
		case 2:
			keys = append(keys, "UNDELETED")
		}
		if len(keys) == 0 {
			keys = []string{"ALL"}
		}
		ret := ""
		switch c.ESearch {
		case 1:
			ret = "RETURN (ALL) "
		case 2:
			ret = "RETURN (MIN MAX COUNT ALL) "
		case 3:
			ret = "RETURN () "
		}
		return c.verb() + " " + ret + strings.Join(keys, " ")
	}
	panic("c08: bad command kind " + c.K)
}

func c08OptHx(s string) string {
	if s == "" {
		return "None"
	}
	return coqSome(coqHxS(s))
}

func (c *c08Cmd) coq() string {
	sop := []string{"SDel", "SUndel", "SKeep"}
	switch c.K {
	case "append":
		return fmt.Sprintf("TAppend %d %s", c.Mb, coqBool(c.Del))
	case "select":
		return fmt.Sprintf("TSelect %d %s", c.Mb, coqBool(c.examine()))
	case "unselect":
		return "TUnselect"
	case "close":
		return "TClose"
	case "noop":
		return "TNoop"
	case "idle":
		return "TIdle"
	case "done":
		return "TDone"
	case "bad":
		return "TBad"
	case "fetch":
		return fmt.Sprintf("TFetch %s %s %s %s", coqBool(c.UID), coqHxS(c.Set), coqBool(c.WFlags), coqBool(c.Seen))
	case "store":
		return fmt.Sprintf("TStore %s %s %s %s", coqBool(c.UID), coqHxS(c.Set), sop[c.Sop], coqBool(c.Silent))
	case "expunge":
		return "TExpunge"
	case "uidexpunge":
		return "TUidExpunge " + coqHxS(c.Set)
	case "copy":
		return fmt.Sprintf("TCopy %s %s %d", coqBool(c.UID), coqHxS(c.Set), c.Mb)
	case "move":
		return fmt.Sprintf("TMove %s %s %d", coqBool(c.UID), coqHxS(c.Set), c.Mb)
	case "search":
		dq := "None"
		if c.DQ == 1 {
			dq = "(Some true)"
		} else if c.DQ == 2 {
			dq = "(Some false)"
		}
		return fmt.Sprintf("TSearch %s %s %s %s", coqBool(c.UID), c08OptHx(c.SQ), c08OptHx(c.UQ), dq)
	}
	panic("c08: bad command kind " + c.K)
}

// c08Enc writes the compact form decoded by Model/MemViewCorr.v (decode_case): numbers as
// groups of six bits (low group first, bit 6 = another group follows), nine 7-bit symbols per
// 63-bit word, the first number being the count of the numbers that follow.
type c08Enc struct{ toks []uint32 }

func (e *c08Enc) num(n uint32) { e.toks = append(e.toks, n) }

func (e *c08Enc) coq() string {
	var syms []byte
	put := func(n uint32) {
		for {
			s := byte(n & 63)
			n >>= 6
			if n != 0 {
				syms = append(syms, s|64)
			} else {
				syms = append(syms, s)
				return
			}
		}
	}
	put(uint32(len(e.toks)))
	for _, t := range e.toks {
		put(t)
	}
	for len(syms)%9 != 0 {
		syms = append(syms, 0)
	}
	var sb strings.Builder
	sb.WriteString("[")
	for i := 0; i < len(syms); i += 9 {
		var w uint64
		for k := 0; k < 9; k++ {
			w |= uint64(syms[i+k]) << (7 * uint(k))
		}
		if i > 0 {
			sb.WriteString("; ")
		}
		sb.WriteString(strconv.FormatUint(w, 10))
	}
	sb.WriteString("]%uint63")
	return sb.String()
}
func (e *c08Enc) boolean(b bool) {
	if b {
		e.num(1)
	} else {
		e.num(0)
	}
}
func (e *c08Enc) nums(l []uint32) {
	e.num(uint32(len(l)))
	for _, v := range l {
		e.num(v)
	}
}
func (e *c08Enc) str(s string) {
	e.num(uint32(len(s)))
	for i := 0; i < len(s); i++ {
		e.num(uint32(s[i]))
	}
}
func (e *c08Enc) ostr(s string) {
	if s == "" {
		e.num(0)
		return
	}
	e.num(1)
	e.str(s)
}

func (c *c08Cmd) enc(e *c08Enc) {
	switch c.K {
	case "append":
		e.num(0)
		e.num(uint32(c.Mb))
		e.boolean(c.Del)
	case "select":
		e.num(1)
		e.num(uint32(c.Mb))
		e.boolean(c.examine())
	case "unselect":
		e.num(2)
	case "close":
		e.num(3)
	case "noop":
		e.num(4)
	case "idle":
		e.num(5)
	case "done":
		e.num(6)
	case "fetch":
		e.num(7)
		e.boolean(c.UID)
		e.boolean(c.WFlags)
		e.boolean(c.Seen)
		e.str(c.Set)
	case "store":
		e.num(8)
		e.boolean(c.UID)
		e.num(uint32(c.Sop))
		e.boolean(c.Silent)
		e.str(c.Set)
	case "expunge":
		e.num(9)
	case "uidexpunge":
		e.num(10)
		e.str(c.Set)
	case "copy", "move":
		if c.K == "copy" {
			e.num(11)
		} else {
			e.num(12)
		}
		e.boolean(c.UID)
		e.num(uint32(c.Mb))
		e.str(c.Set)
	case "search":
		e.num(13)
		e.boolean(c.UID)
		e.num(map[int]uint32{0: 0, 1: 2, 2: 1}[c.DQ]) // 0 none, 1 Some false (UNDELETED), 2 Some true (DELETED)
		e.ostr(c.SQ)
		e.ostr(c.UQ)
	case "bad":
		e.num(14)
	default:
		panic("c08: bad command kind " + c.K)
	}
}

func (v *c08Ev) enc(e *c08Enc) {
	switch v.K {
	case "exists":
		e.num(0)
		e.num(v.N)
	case "expunge":
		e.num(1)
		e.num(v.N)
	case "fetch":
		e.num(2)
		e.num(v.N)
		e.num(v.UID)
		switch {
		case !v.HasDel:
			e.num(0)
		case v.Del:
			e.num(2)
		default:
			e.num(1)
		}
	case "search":
		e.num(3)
		e.boolean(v.UIDK)
		e.nums(v.Nums)
	case "closed":
		e.num(4)
	case "uidnext":
		e.num(5)
		e.num(v.N)
	case "copyuid":
		e.num(6)
		e.nums(v.Src)
		e.nums(v.Dst)
	case "flags":
		e.num(7)
	case "cont":
		e.num(8)
	case "done":
		e.num(9)
		e.num(map[string]uint32{"OK": 0, "NO": 1, "BAD": 2}[v.St])
		switch v.Data {
		case "appenduid":
			e.num(1)
			e.num(v.UID)
		case "copyuid":
			e.num(2)
			e.nums(v.Src)
			e.nums(v.Dst)
		default:
			e.num(0)
		}
	default:
		panic("c08: bad event kind " + v.K)
	}
}

// ---- wire events and the tokenizer --------------------------------------------------------

type c08Ev struct {
	K      string   `json:"k"` // exists expunge fetch search closed uidnext copyuid flags cont done
	N      uint32   `json:"n,omitempty"`
	UID    uint32   `json:"uid,omitempty"`
	HasUID bool     `json:"-"`
	HasDel bool     `json:"hasdel,omitempty"`
	Del    bool     `json:"del,omitempty"`
	UIDK   bool     `json:"uidk,omitempty"`
	Nums   []uint32 `json:"nums,omitempty"`
	Src    []uint32 `json:"src,omitempty"`
	Dst    []uint32 `json:"dst,omitempty"`
	St     string   `json:"st,omitempty"`
	Data   string   `json:"data,omitempty"` // "", appenduid, copyuid
	Raw    string   `json:"raw,omitempty"`
}

func c08NumList(l []uint32) string {
	s := make([]string, len(l))
	for i, v := range l {
		s[i] = strconv.FormatUint(uint64(v), 10)
	}
	return coqList(s)
}

func (e *c08Ev) coq() string {
	switch e.K {
	case "exists":
		return fmt.Sprintf("EvExists %d []", e.N)
	case "expunge":
		return fmt.Sprintf("EvExpunge %d", e.N)
	case "fetch":
		d := "None"
		if e.HasDel {
			d = coqSome(coqBool(e.Del))
		}
		return fmt.Sprintf("EvFetch %d %d %s", e.N, e.UID, d)
	case "search":
		return fmt.Sprintf("EvSearch %s %s", coqBool(e.UIDK), c08NumList(e.Nums))
	case "closed":
		return "EvClosed"
	case "uidnext":
		return fmt.Sprintf("EvUidNext %d", e.N)
	case "copyuid":
		return fmt.Sprintf("EvCopyUid %s %s", c08NumList(e.Src), c08NumList(e.Dst))
	case "flags":
		return "EvFlags"
	case "cont":
		return "EvCont"
	case "done":
		st := map[string]string{"OK": "StOK", "NO": "StNO", "BAD": "StBAD"}[e.St]
		if st == "" {
			st = "StBAD"
		}
		d := "DNone"
		switch e.Data {
		case "appenduid":
			d = fmt.Sprintf("(DAppendUid %d)", e.UID)
		case "copyuid":
			d = fmt.Sprintf("(DCopyUid %s %s)", c08NumList(e.Src), c08NumList(e.Dst))
		}
		return fmt.Sprintf("EvDone %s %s", st, d)
	}
	panic("c08: bad event kind " + e.K)
}

type c08Tok struct {
	k byte // 'a' atom, 'q' quoted, 'l' literal, '(' , ')'
	s string
}

// c08Lex splits a response line (literal payloads inline after "{n}\r\n") into tokens.
func c08Lex(s string) ([]c08Tok, error) {
	var out []c08Tok
	i := 0
	for i < len(s) {
		switch ch := s[i]; {
		case ch == ' ':
			i++
		case ch == '(' || ch == ')':
			out = append(out, c08Tok{ch, ""})
			i++
		case ch == '"':
			j := i + 1
			var sb strings.Builder
			for j < len(s) && s[j] != '"' {
				if s[j] == '\\' && j+1 < len(s) {
					j++
				}
				sb.WriteByte(s[j])
				j++
			}
			if j >= len(s) {
				return out, fmt.Errorf("unterminated quoted string")
			}
			out = append(out, c08Tok{'q', sb.String()})
			i = j + 1
		case ch == '{':
			j := strings.IndexByte(s[i:], '}')
			if j < 0 {
				return out, fmt.Errorf("bad literal header")
			}
			n, err := strconv.Atoi(s[i+1 : i+j])
			if err != nil || !strings.HasPrefix(s[i+j+1:], "\r\n") || i+j+3+n > len(s) {
				return out, fmt.Errorf("bad literal")
			}
			out = append(out, c08Tok{'l', s[i+j+3 : i+j+3+n]})
			i = i + j + 3 + n
		default:
			j := i
			depth := 0
			for j < len(s) {
				if s[j] == '[' {
					depth++
				} else if s[j] == ']' {
					depth--
				} else if depth <= 0 && (s[j] == ' ' || s[j] == '(' || s[j] == ')') {
					break
				}
				j++
			}
			out = append(out, c08Tok{'a', s[i:j]})
			i = j
		}
	}
	return out, nil
}

func c08U32(s string) (uint32, bool) {
	if s == "" || (len(s) > 1 && s[0] == '0') {
		return 0, s == "0"
	}
	v, err := strconv.ParseUint(s, 10, 32)
	return uint32(v), err == nil
}

// c08Expand turns the text of a sequence set without '*' into its ascending number list.
func c08Expand(s string) ([]uint32, bool) {
	var out []uint32
	for _, part := range strings.Split(s, ",") {
		lo, hi := part, part
		if i := strings.IndexByte(part, ':'); i >= 0 {
			lo, hi = part[:i], part[i+1:]
		}
		a, ok1 := c08U32(lo)
		b, ok2 := c08U32(hi)
		if !ok1 || !ok2 || a == 0 || b == 0 || b < a || b-a > 100000 {
			return nil, false
		}
		for v := a; v <= b; v++ {
			out = append(out, v)
		}
	}
	sort.Slice(out, func(i, j int) bool { return out[i] < out[j] })
	return out, true
}

var (
	c08ReCode     = regexp.MustCompile(`^\[([A-Za-z0-9-]+)(?: ([^\]]*))?\]`)
	c08ReNumbered = regexp.MustCompile(`^\* (\d+) ([A-Za-z]+)(?: (.*))?$`)
)

// c08Parse parses one line received on a connection. ignore = a line that carries nothing
// this property speaks about (SELECT's FLAGS/PERMANENTFLAGS/UIDVALIDITY/RECENT).
func c08Parse(line, tag string, inSelect bool) (ev *c08Ev, ignore bool, err error) {
	fail := func(f string, a ...interface{}) (*c08Ev, bool, error) {
		return nil, false, fmt.Errorf(f, a...)
	}
	raw := line
	if len(raw) > 160 {
		raw = raw[:160] + "..."
	}
	code := func(rest string) (name, arg string) {
		if m := c08ReCode.FindStringSubmatch(rest); m != nil {
			return strings.ToUpper(m[1]), m[2]
		}
		return "", ""
	}
	copyuid := func(arg string, e *c08Ev) bool {
		f := strings.Fields(arg)
		if len(f) != 3 {
			return false
		}
		var ok1, ok2 bool
		e.Src, ok1 = c08Expand(f[1])
		e.Dst, ok2 = c08Expand(f[2])
		return ok1 && ok2
	}
	switch {
	case strings.HasPrefix(line, "+"):
		return &c08Ev{K: "cont", Raw: raw}, false, nil
	case strings.HasPrefix(line, tag+" "):
		f := strings.SplitN(line[len(tag)+1:], " ", 2)
		e := &c08Ev{K: "done", St: strings.ToUpper(f[0]), Raw: raw}
		if e.St != "OK" && e.St != "NO" && e.St != "BAD" {
			return fail("tagged response with unknown status %q", line)
		}
		if len(f) == 2 {
			switch name, arg := code(f[1]); name {
			case "APPENDUID":
				a := strings.Fields(arg)
				if len(a) != 2 {
					return fail("bad APPENDUID %q", line)
				}
				u, ok := c08U32(a[1])
				if !ok {
					return fail("bad APPENDUID %q", line)
				}
				e.Data, e.UID = "appenduid", u
			case "COPYUID":
				if !copyuid(arg, e) {
					return fail("bad COPYUID %q", line)
				}
				e.Data = "copyuid"
			}
		}
		return e, false, nil
	case strings.HasPrefix(line, "* "):
		if m := c08ReNumbered.FindStringSubmatch(strings.SplitN(line, "\r\n", 2)[0]); m != nil {
			n, ok := c08U32(m[1])
			if !ok {
				return fail("bad number in %q", raw)
			}
			switch strings.ToUpper(m[2]) {
			case "EXISTS":
				return &c08Ev{K: "exists", N: n, Raw: raw}, false, nil
			case "EXPUNGE":
				return &c08Ev{K: "expunge", N: n, Raw: raw}, false, nil
			case "RECENT":
				return nil, inSelect, errIf(!inSelect, "RECENT outside SELECT")
			case "FETCH":
				toks, err := c08Lex(line[strings.Index(line, "FETCH")+5:])
				if err != nil {
					return fail("FETCH response does not tokenize: %v: %q", err, raw)
				}
				if len(toks) < 2 || toks[0].k != '(' || toks[len(toks)-1].k != ')' {
					return fail("FETCH response without item list: %q", raw)
				}
				e := &c08Ev{K: "fetch", N: n, Raw: raw}
				toks = toks[1 : len(toks)-1]
				for i := 0; i < len(toks); {
					if toks[i].k != 'a' {
						return fail("FETCH item name expected: %q", raw)
					}
					name := strings.ToUpper(toks[i].s)
					i++
					if i >= len(toks) {
						return fail("FETCH item %s without value: %q", name, raw)
					}
					switch {
					case name == "UID":
						u, ok := c08U32(toks[i].s)
						if toks[i].k != 'a' || !ok {
							return fail("bad UID item: %q", raw)
						}
						e.UID, e.HasUID = u, true
						i++
					case name == "FLAGS":
						if toks[i].k != '(' {
							return fail("bad FLAGS item: %q", raw)
						}
						i++
						e.HasDel = true
						for i < len(toks) && toks[i].k != ')' {
							if strings.EqualFold(toks[i].s, `\Deleted`) {
								e.Del = true
							}
							i++
						}
						i++
					default:
						// any other item: one value, possibly a parenthesised list
						if toks[i].k == '(' {
							d := 0
							for i < len(toks) {
								if toks[i].k == '(' {
									d++
								} else if toks[i].k == ')' {
									d--
								}
								i++
								if d == 0 {
									break
								}
							}
						} else {
							i++
						}
					}
				}
				return e, false, nil
			}
			return fail("unknown numbered response %q", raw)
		}
		rest := line[2:]
		up := strings.ToUpper(rest)
		switch {
		case strings.HasPrefix(up, "SEARCH"):
			e := &c08Ev{K: "search", Raw: raw}
			for _, f := range strings.Fields(rest[6:]) {
				v, ok := c08U32(f)
				if !ok {
					return fail("bad SEARCH response %q", raw)
				}
				e.Nums = append(e.Nums, v)
			}
			return e, false, nil
		case strings.HasPrefix(up, "ESEARCH"):
			e := &c08Ev{K: "search", Raw: raw}
			toks, err := c08Lex(rest[7:])
			if err != nil {
				return fail("bad ESEARCH response %q", raw)
			}
			i := 0
			if i < len(toks) && toks[i].k == '(' { // (TAG "T5")
				for i < len(toks) && toks[i].k != ')' {
					i++
				}
				i++
			}
			var min, max, count uint32
			var hasMin, hasMax, hasCount, hasAll bool
			for i < len(toks) {
				name := strings.ToUpper(toks[i].s)
				i++
				if name == "UID" {
					e.UIDK = true
					continue
				}
				if i >= len(toks) {
					return fail("bad ESEARCH response %q", raw)
				}
				val := toks[i].s
				i++
				var ok bool
				switch name {
				case "ALL":
					e.Nums, ok = c08Expand(val)
					hasAll = true
				case "MIN":
					min, ok = c08U32(val)
					hasMin = true
				case "MAX":
					max, ok = c08U32(val)
					hasMax = true
				case "COUNT":
					count, ok = c08U32(val)
					hasCount = true
				}
				if !ok {
					return fail("bad ESEARCH response %q", raw)
				}
			}
			// MIN/MAX/COUNT carry sequence numbers too: they must agree with ALL when both are there
			if hasAll {
				if hasMin && (len(e.Nums) == 0 || e.Nums[0] != min) || hasMax && (len(e.Nums) == 0 || e.Nums[len(e.Nums)-1] != max) || hasCount && int(count) != len(e.Nums) {
					return fail("ESEARCH MIN/MAX/COUNT disagree with ALL: %q", raw)
				}
			} else if hasCount && count != 0 && !hasMin && !hasMax {
				return fail("ESEARCH COUNT without ALL: %q", raw)
			}
			return e, false, nil
		case strings.HasPrefix(up, "FLAGS "):
			if inSelect {
				return nil, true, nil
			}
			return &c08Ev{K: "flags", Raw: raw}, false, nil
		case strings.HasPrefix(up, "OK "):
			switch name, arg := code(rest[3:]); name {
			case "CLOSED":
				return &c08Ev{K: "closed", Raw: raw}, false, nil
			case "UIDNEXT":
				n, ok := c08U32(arg)
				if !ok {
					return fail("bad UIDNEXT %q", raw)
				}
				return &c08Ev{K: "uidnext", N: n, Raw: raw}, false, nil
			case "COPYUID":
				e := &c08Ev{K: "copyuid", Raw: raw}
				if !copyuid(arg, e) {
					return fail("bad COPYUID %q", raw)
				}
				return e, false, nil
			case "UIDVALIDITY", "PERMANENTFLAGS":
				return nil, inSelect, errIf(!inSelect, name+" outside SELECT")
			}
			return fail("unexpected untagged OK %q", raw)
		}
		return fail("unexpected untagged response %q", raw)
	}
	return fail("unexpected line %q", raw)
}

func errIf(b bool, s string) error {
	if b {
		return fmt.Errorf("%s", s)
	}
	return nil
}

// ---- the observer: the property's clauses, checked on one connection's stream --------------

type c08Cell struct{ uid uint32 } // 0 = not learnt yet

type c08Obs struct {
	sel   bool
	mb    int // which mailbox (as sent by this connection)
	cells []*c08Cell
	cur   *c08Cmd
	// broken: a violation was reported for the current view; what follows on it would only
	// repeat the same defect (the reconstructed view is off), so it is not judged until the
	// next SELECT gives a fresh view
	broken bool
}

type c08Violation struct{ sig, what string }

func (o *c08Obs) feed(e *c08Ev) *c08Violation {
	if o.broken {
		switch {
		case e.K == "closed", e.K == "done" && e.St == "OK" && o.cur != nil && (o.cur.K == "close" || o.cur.K == "unselect"):
			o.broken = false
		default:
			if e.K == "done" {
				o.cur = nil
			}
			return nil
		}
	}
	viol := o.feed1(e)
	if viol != nil {
		o.broken = true
		if e.K == "done" {
			o.cur = nil
		}
	}
	return viol
}

func (o *c08Obs) feed1(e *c08Ev) *c08Violation {
	verb := "(none)"
	if o.cur != nil {
		verb = o.cur.verb()
	}
	v := func(sig, f string, a ...interface{}) *c08Violation {
		return &c08Violation{sig + ":" + verb, fmt.Sprintf(f, a...) + fmt.Sprintf(" [%s, while answering %s; announced count %d]", e.Raw, verb, len(o.cells))}
	}
	inRange := func(n uint32) bool { return o.sel && n >= 1 && int(n) <= len(o.cells) }
	switch e.K {
	case "exists":
		if !o.sel {
			if o.cur == nil || o.cur.K != "select" {
				return v("exists-without-mailbox", "EXISTS on a connection with no mailbox selected")
			}
			o.sel = true
			o.mb = o.cur.Mb
			o.cells = nil
			for i := uint32(0); i < e.N; i++ {
				o.cells = append(o.cells, &c08Cell{})
			}
			return nil
		}
		if int(e.N) < len(o.cells) {
			return v("exists-shrinks", "EXISTS %d lowers the announced message count %d without EXPUNGE", e.N, len(o.cells))
		}
		for len(o.cells) < int(e.N) {
			o.cells = append(o.cells, &c08Cell{})
		}
	case "expunge":
		if !inRange(e.N) {
			return v("seq-range:EXPUNGE", "EXPUNGE %d is outside 1..%d", e.N, len(o.cells))
		}
		if o.cur != nil && !o.cur.UID && (o.cur.K == "fetch" || o.cur.K == "store" || o.cur.K == "search") {
			return v("expunge-during", "EXPUNGE sent while answering a non-UID FETCH/STORE/SEARCH")
		}
		o.cells = append(o.cells[:e.N-1:e.N-1], o.cells[e.N:]...)
	case "fetch":
		if !inRange(e.N) {
			return v("seq-range:FETCH", "FETCH %d is outside 1..%d", e.N, len(o.cells))
		}
		if e.HasUID {
			c := o.cells[e.N-1]
			if c.uid != 0 && c.uid != e.UID {
				return v("fetch-uid-changed", "message %d was UID %d, now reported as UID %d", e.N, c.uid, e.UID)
			}
			for i, d := range o.cells {
				if d != c && d.uid == e.UID {
					return v("fetch-uid-twice", "UID %d reported at %d and at %d", e.UID, i+1, e.N)
				}
			}
			c.uid = e.UID
		}
	case "search":
		if !e.UIDK {
			for _, n := range e.Nums {
				if !inRange(n) {
					return v("seq-range:SEARCH", "SEARCH result %d is outside 1..%d", n, len(o.cells))
				}
			}
		}
	case "closed":
		o.sel, o.cells = false, nil
	case "done":
		if e.St == "OK" && o.cur != nil && (o.cur.K == "close" || o.cur.K == "unselect") {
			o.sel, o.cells = false, nil
		}
		o.cur = nil
	}
	return nil
}

// ---- running one history --------------------------------------------------------------------

type c08Conn struct {
	rc   *rawConn
	tag  int
	idle string // tag of the IDLE in progress
	obs  c08Obs
	evs  []*c08Ev
}

type c08Run struct {
	h     *H
	nmb   int
	ms    *memServer
	conns []*c08Conn
	probe *rawConn
	hist  []c08Cmd
	trace []string
	fails []Failure
	kinds map[string]bool
	modN  []int // per mailbox: number of successful mutations so far
	seenN []int // per connection: modN of its mailbox when it last polled with expunges allowed
	keys  []string
}

func (r *c08Run) desc() map[string]interface{} {
	tr := r.trace
	if len(tr) > 120 {
		tr = tr[len(tr)-120:]
	}
	return map[string]interface{}{"nmb": r.nmb, "nconn": len(r.conns), "history": r.hist, "trace": tr}
}

func (r *c08Run) fail(sig, what string) {
	for _, f := range r.fails {
		if f.Sig == sig {
			return
		}
	}
	r.fails = append(r.fails, Failure{sig, what, nil})
}

// truth returns the mailbox's actual (UID, \Deleted) list through a fresh session.
func (r *c08Run) truth(mb int) (uids []uint32, dels []bool, err error) {
	name := c08MbName(mb, r.nmb)
	if _, tg, e := r.probe.cmd("EXAMINE " + name); e != nil || !isOK(tg) {
		return nil, nil, fmt.Errorf("probe EXAMINE %s: %v %s", name, e, tg)
	}
	un, tg, e := r.probe.cmd("UID FETCH 1:* (UID FLAGS)")
	if e != nil || !isOK(tg) {
		return nil, nil, fmt.Errorf("probe UID FETCH: %v %s", e, tg)
	}
	for _, l := range un {
		ev, ign, perr := c08Parse(l, "-", false)
		if perr != nil || ign || ev.K != "fetch" {
			continue
		}
		if int(ev.N) != len(uids)+1 {
			return nil, nil, fmt.Errorf("probe: a fresh session got FETCH %d as its response number %d", ev.N, len(uids)+1)
		}
		uids = append(uids, ev.UID)
		dels = append(dels, ev.Del)
	}
	r.probe.cmd("UNSELECT")
	// cross-check with STATUS through the backend API
	st, e2 := r.ms.user.Status(name, &imap.StatusOptions{NumMessages: true})
	if e2 == nil && st.NumMessages != nil && int(*st.NumMessages) != len(uids) {
		return nil, nil, fmt.Errorf("probe: STATUS says %d messages, a fresh session's UID FETCH 1:* lists %d", *st.NumMessages, len(uids))
	}
	return uids, dels, nil
}

// checkView compares the connection's reconstructed view with the mailbox's actual list.
func (r *c08Run) checkView(ci int, exact bool, when string) {
	c := r.conns[ci]
	if !c.obs.sel || c.obs.broken {
		return
	}
	uids, _, err := r.truth(c.obs.mb)
	if err != nil {
		r.fail("probe", err.Error())
		return
	}
	var view []uint32
	for _, cell := range c.obs.cells {
		view = append(view, cell.uid)
	}
	what := fmt.Sprintf("%s on connection %d: reconstructed view %v (0 = UID not learnt), mailbox %s actually holds %v", when, ci, view, c08MbName(c.obs.mb, r.nmb), uids)
	if len(view) != len(uids) {
		r.fail("noop-view:count", what)
		return
	}
	for i := range view {
		if view[i] != uids[i] && (exact || view[i] != 0) {
			r.fail("noop-view:uid", what)
			return
		}
	}
}

// exec runs one command on its connection, feeding the observer and the event log.
func (r *c08Run) exec(cm c08Cmd) bool {
	c := r.conns[cm.Conn]
	line := cm.text0(r.nmb)
	cm.Line = line
	r.hist = append(r.hist, cm)
	cmp := &r.hist[len(r.hist)-1]
	send := func(s string) bool {
		r.trace = append(r.trace, fmt.Sprintf("C%d> %s", cm.Conn, strings.TrimRight(s, "\r\n")))
		if _, err := io.WriteString(c.rc.c, s); err != nil {
			r.fail("io", fmt.Sprintf("write on connection %d: %v", cm.Conn, err))
			return false
		}
		return true
	}
	var tag string
	var followup string
	staleBefore := c.obs.sel && r.seenN[cm.Conn] != r.modN[c.obs.mb]
	switch cm.K {
	case "done":
		if c.idle == "" {
			return true // never generated
		}
		tag = c.idle
		c.idle = ""
		if !send("DONE\r\n") {
			return false
		}
	case "append":
		c.tag++
		tag = fmt.Sprintf("T%d", c.tag)
		body := fmt.Sprintf("From: a@example.org\r\nSubject: m\r\n\r\nbody of message %d\r\n", len(r.hist))
		fl := ""
		if cm.Del {
			fl = ` (\Deleted)`
		}
		c.obs.cur = cmp
		if cm.Form%2 == 0 {
			if !send(fmt.Sprintf("%s APPEND %s%s {%d+}\r\n%s\r\n", tag, c08MbName(cm.Mb, r.nmb), fl, len(body), body)) {
				return false
			}
		} else {
			followup = body + "\r\n"
			if !send(fmt.Sprintf("%s APPEND %s%s {%d}\r\n", tag, c08MbName(cm.Mb, r.nmb), fl, len(body))) {
				return false
			}
		}
	default:
		if c.idle != "" {
			// a line other than DONE ends the IDLE with BAD (tag of the IDLE)
			tag = c.idle
			c.idle = ""
			if !send(line + "\r\n") {
				return false
			}
		} else {
			c.tag++
			tag = fmt.Sprintf("T%d", c.tag)
			c.obs.cur = cmp
			if !send(tag + " " + line + "\r\n") {
				return false
			}
		}
	}
	var got []*c08Ev
	for {
		l, err := c.rc.readLine(5 * time.Second)
		if err != nil {
			r.trace = append(r.trace, fmt.Sprintf("C%d< %q !! %v", cm.Conn, l, err))
			r.fail("stall:"+cm.verb(), fmt.Sprintf("connection %d got no tagged completion for %q: %v", cm.Conn, line, err))
			return false
		}
		tl := l
		if len(tl) > 120 {
			tl = tl[:120] + "..."
		}
		r.trace = append(r.trace, fmt.Sprintf("C%d< %s", cm.Conn, tl))
		ev, ign, perr := c08Parse(l, tag, cm.K == "select")
		if perr != nil {
			r.fail("unexpected-response:"+cm.verb(), perr.Error())
			continue
		}
		if ign {
			continue
		}
		if ev.K == "cont" && followup != "" {
			if !send(followup) {
				return false
			}
			followup = ""
			continue // the continuation request of a synchronising APPEND literal is not an event
		}
		if ev.K == "search" {
			if strings.HasPrefix(strings.ToUpper(ev.Raw), "* ESEARCH") {
				if ev.UIDK != (cm.K == "search" && cm.UID) {
					r.fail("esearch-uid-marker:"+cm.verb(), "ESEARCH UID marker does not match the command: "+ev.Raw)
				}
			} else {
				ev.UIDK = cm.K == "search" && cm.UID // a SEARCH response carries the kind of numbers the command asked for
			}
		}
		if ev.K == "fetch" && !ev.HasUID {
			r.fail("fetch-without-uid:"+cm.verb(), "FETCH response without UID: "+ev.Raw)
		}
		if viol := c.obs.feed(ev); viol != nil {
			r.fail(viol.sig, fmt.Sprintf("connection %d: %s", cm.Conn, viol.what))
		}
		c.evs = append(c.evs, ev)
		got = append(got, ev)
		if ev.K == "done" {
			break
		}
		if ev.K == "cont" && cm.K == "idle" {
			c.idle = tag
			break
		}
	}
	// bookkeeping for the non-triviality rule
	last := got[len(got)-1]
	ok := last.K == "done" && last.St == "OK"
	stale := staleBefore
	numbered := 0
	for _, e := range got {
		if e.K == "fetch" || e.K == "expunge" || e.K == "exists" || (e.K == "search" && !e.UIDK && len(e.Nums) > 0) {
			numbered++
		}
	}
	key := ""
	if stale && numbered > 0 {
		var sb strings.Builder
		sb.WriteString(line)
		for _, e := range got {
			sb.WriteString("|" + e.coq())
		}
		key = sb.String()
	}
	r.keys = append(r.keys, key)
	r.kinds[cm.verb()] = true
	if ok {
		switch cm.K {
		case "append", "copy":
			if cm.Mb < r.nmb {
				r.modN[cm.Mb]++
			}
		case "move":
			r.modN[cm.Mb]++
			r.modN[c.obs.mb]++
		case "expunge", "uidexpunge", "store":
			r.modN[c.obs.mb]++
		case "close":
			for i := range r.modN {
				r.modN[i]++ // the mailbox it had selected may have been expunged
			}
		}
		if c.obs.sel && !(!cm.UID && (cm.K == "fetch" || cm.K == "store" || cm.K == "search")) && cm.K != "idle" {
			r.seenN[cm.Conn] = r.modN[c.obs.mb]
		}
		if cm.K == "select" && c.obs.sel {
			r.seenN[cm.Conn] = r.modN[c.obs.mb]
		}
		if cm.K == "noop" {
			r.checkView(cm.Conn, false, "after NOOP")
		}
	}
	return true
}

func (cm *c08Cmd) text0(nmb int) string {
	if cm.K == "append" {
		fl := ""
		if cm.Del {
			fl = ` (\Deleted)`
		}
		return "APPEND " + c08MbName(cm.Mb, nmb) + fl + " {..}"
	}
	return cm.text(nmb)
}

// c08RunHistory runs one history against a fresh server; quiesce appends DONE / NOOP /
// UID FETCH 1:* for every connection and compares with the mailbox's actual list.
func c08RunHistory(h *H, nmb, nconn int, cmds []c08Cmd, quiesce bool) *c08Run {
	r := &c08Run{h: h, nmb: nmb, kinds: map[string]bool{}, modN: make([]int, nmb+1), seenN: make([]int, nconn)}
	h.InFlight(map[string]interface{}{"nmb": nmb, "nconn": nconn, "history": cmds})
	r.ms = startMemServer(c08Names[:nmb], false)
	defer r.ms.Close()
	dial := func() *rawConn {
		mc := r.ms.dial(0)
		if _, tg, err := mc.rc.cmd("LOGIN u p"); err != nil || !isOK(tg) {
			r.fail("setup", fmt.Sprintf("LOGIN: %v %s", err, tg))
		}
		return mc.rc
	}
	for i := 0; i < nconn; i++ {
		rc := dial()
		rc.tag = 0
		r.conns = append(r.conns, &c08Conn{rc: rc})
	}
	r.probe = dial()
	defer func() {
		for _, c := range r.conns {
			c.rc.Close()
		}
		r.probe.Close()
	}()
	alive := true
	for _, cm := range cmds {
		if cm.Conn >= nconn {
			continue
		}
		if cm.K == "done" && r.conns[cm.Conn].idle == "" {
			continue
		}
		if cm.K != "done" && r.conns[cm.Conn].idle != "" {
			continue // an idling connection only ever sends DONE
		}
		if !r.exec(cm) {
			alive = false
			break
		}
	}
	if alive && quiesce {
		for ci := range r.conns {
			if r.conns[ci].idle != "" {
				if !r.exec(c08Cmd{Conn: ci, K: "done"}) {
					alive = false
					break
				}
			}
			if r.conns[ci].obs.sel {
				if !r.exec(c08Cmd{Conn: ci, K: "noop"}) || !r.exec(c08Cmd{Conn: ci, K: "fetch", UID: true, Set: "1:*", WFlags: true}) {
					alive = false
					break
				}
				r.checkView(ci, true, "at quiescence, after NOOP and UID FETCH 1:*")
			}
		}
	}
	if lg := r.ms.log.String(); strings.Contains(lg, "panic") {
		r.fail("server-panic", firstLine(lg))
	}
	return r
}

// ---- history generation ------------------------------------------------------------------------

type c08Gen struct {
	rng   *rand.Rand
	nmb   int
	nconn int
	sel   []int // guessed selection per connection (-1 none)
	idle  []bool
	cnt   []int // guessed upper bound of message count per mailbox
	next  []int // guessed uidNext per mailbox
}

func (g *c08Gen) num(max int) int {
	if max < 1 {
		max = 1
	}
	return 1 + g.rng.Intn(max+2)
}

func (g *c08Gen) set(max int) string {
	one := func() string {
		switch g.rng.Intn(12) {
		case 0:
			return "*"
		case 1:
			return fmt.Sprintf("%d:*", g.num(max))
		case 2:
			return fmt.Sprintf("*:%d", g.num(max))
		case 3:
			return "1:*"
		case 4, 5, 6:
			return fmt.Sprintf("%d:%d", g.num(max), g.num(max))
		default:
			return fmt.Sprintf("%d", g.num(max))
		}
	}
	s := one()
	for g.rng.Intn(4) == 0 {
		s += "," + one()
	}
	return s
}

func (g *c08Gen) setFor(uid bool, mb int) string {
	if mb < 0 || mb >= g.nmb {
		return g.set(3)
	}
	if uid {
		return g.set(g.next[mb])
	}
	return g.set(g.cnt[mb])
}

func (g *c08Gen) step() c08Cmd {
	rng := g.rng
	c := rng.Intn(g.nconn)
	if g.idle[c] {
		// mostly leave it idling and let somebody else act
		if rng.Intn(3) != 0 {
			for k := 0; k < 4 && g.idle[c]; k++ {
				c = rng.Intn(g.nconn)
			}
		}
		if g.idle[c] {
			g.idle[c] = false
			return c08Cmd{Conn: c, K: "done"}
		}
	}
	cm := c08Cmd{Conn: c, Form: rng.Intn(12)}
	mbAny := func() int {
		if rng.Intn(25) == 0 {
			return g.nmb // does not exist
		}
		if rng.Intn(3) != 0 {
			return 0
		}
		return rng.Intn(g.nmb)
	}
	sel := g.sel[c]
	w := rng.Intn(100)
	if sel < 0 {
		switch {
		case w < 55:
			cm.K, cm.Mb = "select", mbAny()
		case w < 88:
			cm.K, cm.Mb, cm.Del = "append", mbAny(), rng.Intn(3) == 0
		case w < 92:
			cm.K = "noop"
		case w < 94:
			cm.K = "idle"
		case w < 96:
			cm.K, cm.Set = "fetch", "1:*"
		case w < 98:
			cm.K = "expunge"
		default:
			cm.K = "bad"
		}
	} else {
		switch {
		case w < 20:
			cm.K, cm.UID = "fetch", rng.Intn(2) == 0
			cm.Set = g.setFor(cm.UID, sel)
			cm.WFlags, cm.Seen = rng.Intn(2) == 0, rng.Intn(5) == 0
		case w < 32:
			cm.K, cm.UID = "store", rng.Intn(3) == 0
			cm.Set = g.setFor(cm.UID, sel)
			cm.Sop = []int{0, 0, 0, 1, 2}[rng.Intn(5)]
			cm.Silent = rng.Intn(3) == 0
		case w < 41:
			cm.K = "expunge"
		case w < 45:
			cm.K, cm.Set = "uidexpunge", g.setFor(true, sel)
		case w < 50:
			cm.K, cm.UID, cm.Mb = "copy", rng.Intn(3) == 0, mbAny()
			if g.nmb > 1 && rng.Intn(4) != 0 {
				cm.Mb = (sel + 1 + rng.Intn(g.nmb-1)) % g.nmb
			}
			cm.Set = g.setFor(cm.UID, sel)
		case w < 59:
			cm.K, cm.UID, cm.Mb = "move", rng.Intn(3) == 0, mbAny()
			if g.nmb > 1 && rng.Intn(4) != 0 {
				cm.Mb = (sel + 1 + rng.Intn(g.nmb-1)) % g.nmb
			}
			cm.Set = g.setFor(cm.UID, sel)
		case w < 68:
			cm.K, cm.UID = "search", rng.Intn(3) == 0
			if rng.Intn(2) == 0 {
				cm.SQ = g.setFor(false, sel)
			}
			if rng.Intn(4) == 0 {
				cm.UQ = g.setFor(true, sel)
			}
			cm.DQ = []int{0, 0, 1, 2}[rng.Intn(4)]
			cm.ESearch = []int{0, 0, 0, 1, 2, 3}[rng.Intn(6)]
		case w < 76:
			cm.K = "noop"
		case w < 88:
			cm.K, cm.Mb, cm.Del = "append", mbAny(), rng.Intn(3) == 0
			if rng.Intn(2) == 0 {
				cm.Mb = sel
			}
		case w < 92:
			cm.K, cm.Mb = "select", mbAny()
		case w < 94:
			cm.K = "close"
		case w < 95:
			cm.K = "unselect"
		case w < 99:
			cm.K = "idle"
		default:
			cm.K = "bad"
		}
	}
	// guessed state, only used to keep later commands meaningful
	switch cm.K {
	case "select":
		// one view in four is read-only (EXAMINE): most sessions must be able to change the mailbox
		if cm.examine() && rng.Intn(2) == 0 {
			cm.Form--
		}
		if cm.Mb < g.nmb {
			g.sel[c] = cm.Mb
		} else {
			g.sel[c] = -1
		}
	case "close", "unselect":
		g.sel[c] = -1
	case "idle":
		g.idle[c] = true
	case "append":
		if cm.Mb < g.nmb {
			g.cnt[cm.Mb]++
			g.next[cm.Mb]++
		}
	case "copy", "move":
		if cm.Mb < g.nmb && sel >= 0 {
			g.cnt[cm.Mb] += 2
			g.next[cm.Mb] += 2
		}
	}
	return cm
}

func c08RandomHistory(rng *rand.Rand, maxLen int) (nmb, nconn int, cmds []c08Cmd) {
	nconn = []int{1, 2, 2, 2, 2, 3, 3, 3, 4, 4}[rng.Intn(10)]
	nmb = []int{1, 2, 2, 2, 3}[rng.Intn(5)]
	g := &c08Gen{rng: rng, nmb: nmb, nconn: nconn, sel: make([]int, nconn), idle: make([]bool, nconn), cnt: make([]int, nmb), next: make([]int, nmb)}
	for i := range g.sel {
		g.sel[i] = -1
	}
	for i := range g.next {
		g.next[i] = 1
	}
	// a prefix that fills a mailbox and gets the sessions selected
	for k := rng.Intn(6); k > 0; k-- {
		mb := 0
		if rng.Intn(4) == 0 {
			mb = rng.Intn(nmb)
		}
		cmds = append(cmds, c08Cmd{Conn: rng.Intn(nconn), K: "append", Mb: mb, Del: rng.Intn(3) == 0, Form: rng.Intn(4)})
		g.cnt[mb]++
		g.next[mb]++
	}
	for c := 0; c < nconn; c++ {
		if rng.Intn(5) != 0 {
			mb := 0
			if rng.Intn(4) == 0 {
				mb = rng.Intn(nmb)
			}
			cmds = append(cmds, c08Cmd{Conn: c, K: "select", Mb: mb, Form: rng.Intn(4) / 3}) // EXAMINE: one in four
			g.sel[c] = mb
		}
	}
	n := 6 + rng.Intn(maxLen)
	for i := 0; i < n; i++ {
		cmds = append(cmds, g.step())
	}
	return
}

// ---- the runner ---------------------------------------------------------------------------------

func runC08(h *H) {
	imports := []string{"From GoImap.Base Require Import Bytes.", "From Coq Require Import Uint63.", "From GoImap.Model Require Import NumSet Tracker MemView MemViewCorr."}
	corr := h.NewCorr("memview", imports, "mvb_mismatches", h.Pick(300, 2500)).Type("(list int)")
	h.Rule("histories of APPEND (sync and non-sync literal, with/without \\Deleted) / SELECT / EXAMINE / STORE (+-FLAGS, FLAGS, .SILENT) / EXPUNGE / UID EXPUNGE / COPY / MOVE / FETCH (with and without a \\Seen-setting body section) / SEARCH and ESEARCH (sequence set, UID set, DELETED/UNDELETED) / NOOP / CHECK / IDLE..DONE / CLOSE / UNSELECT / a rejected line, in UID and non-UID forms with numbers, ranges, lists and '*', issued one at a time by 1..4 raw connections over 1..3 shared mailboxes of a real imapserver + imapmemserver; views are stale whenever another session changed the mailbox. Corpus of known nasty histories, then every sequence of 2 (quick) / 3 (thorough) commands from a 16-command alphabet of two sessions after a fixed prefix, then seeded random histories; each history ends with DONE/NOOP/UID FETCH 1:* on every connection. Oracles on every connection's stream (own tokenizer): every FETCH/EXPUNGE/SEARCH number within 1..announced count, no EXPUNGE while a non-UID FETCH/STORE/SEARCH is being answered, EXISTS never lowers the count, a UID never moves or appears twice in a view, and after every NOOP the reconstructed view has the length and the known UIDs of the mailbox's actual list (fresh probe session + STATUS); at the end it equals it exactly. Correspondence: the Coq model replays the whole history and must predict each connection's event stream (EXISTS n, EXPUNGE n, FETCH n uid \\Deleted?, SEARCH numbers, CLOSED, UIDNEXT, COPYUID/APPENDUID sets, continuation, tagged status). One evaluation = one command answered and checked; non-trivial = it produced a numbered response on a connection whose view was stale; distinct by command text and response.")

	total := map[string]bool{}
	runOne := func(nmb, nconn int, cmds []c08Cmd, src string) {
		r := c08RunHistory(h, nmb, nconn, cmds, src != "replay")
		if src == "replay" {
			for _, l := range r.trace {
				fmt.Println(l)
			}
			for _, f := range r.fails {
				fmt.Println("FAIL", f.Sig, f.What)
			}
		}
		for _, k := range r.keys {
			h.Eval(k)
		}
		for k := range r.kinds {
			total[k] = true
		}
		h.Hist("src:" + src)
		h.Hist(fmt.Sprintf("sessions:%d", nconn))
		for _, cm := range r.hist {
			h.Hist("cmd:" + cm.verb())
		}
		desc := r.desc()
		for _, f := range r.fails {
			h.Fail(f.Sig, f.What, desc)
		}
		var hs, streams []string
		var enc c08Enc
		enc.num(uint32(nmb))
		enc.num(uint32(nconn))
		enc.num(uint32(len(r.hist)))
		for _, cm := range r.hist {
			hs = append(hs, fmt.Sprintf("(%d, %s)", cm.Conn, cm.coq()))
			enc.num(uint32(cm.Conn))
			cm.enc(&enc)
		}
		for _, c := range r.conns {
			var es []string
			enc.num(uint32(len(c.evs)))
			for _, e := range c.evs {
				es = append(es, e.coq())
				e.enc(&enc)
			}
			streams = append(streams, coqList(es))
		}
		// the readable form of the case (an mv_case term for mv_mismatches) goes into the replay description
		desc["coq_case"] = fmt.Sprintf("(%d, %d, %s, %s)", nmb, nconn, coqList(hs), coqList(streams))
		corr.Add(enc.coq(), desc)
		if len(h.samples) < 6 {
			tr := r.trace
			if len(tr) > 40 {
				tr = tr[:40]
			}
			h.Sample(map[string]interface{}{"sessions": nconn, "mailboxes": nmb, "trace_head": tr})
		}
	}

	if h.Replay != "" {
		var wrap struct {
			Case struct {
				Nmb     int      `json:"nmb"`
				Nconn   int      `json:"nconn"`
				History []c08Cmd `json:"history"`
			} `json:"case"`
		}
		b, _ := os.ReadFile(h.Replay)
		json.Unmarshal(b, &wrap)
		// the recorded history already ends with the quiescence commands: run it as it is, apply
		// the oracles, and hand the observation to the model again
		runOne(wrap.Case.Nmb, wrap.Case.Nconn, wrap.Case.History, "replay")
		return
	}

	// 1. corpus
	for _, cc := range c08Corpus() {
		runOne(cc.nmb, cc.nconn, cc.cmds, "corpus")
	}
	if dir := filepath.Join(filepath.Dir(filepath.Dir(h.Out)), "corpus", "C08"); true {
		if ents, err := os.ReadDir(dir); err == nil {
			for _, ent := range ents {
				var cs struct {
					Nmb     int      `json:"nmb"`
					Nconn   int      `json:"nconn"`
					History []c08Cmd `json:"history"`
				}
				if b, err := os.ReadFile(dir + "/" + ent.Name()); err == nil && json.Unmarshal(b, &cs) == nil && cs.Nconn > 0 {
					runOne(cs.Nmb, cs.Nconn, cs.History, "corpus-file")
				}
			}
		}
	}

	// 2. exhaustive short suffixes over a small alphabet after a fixed prefix
	// both sessions SELECT (read-write views: every command of the alphabet takes effect); a second
	// pass of depth 2 has session 1 EXAMINE instead (a read-only view next to a read-write one)
	prefixFor := func(form1 int) []c08Cmd {
		return []c08Cmd{
			{Conn: 0, K: "append", Mb: 0}, {Conn: 1, K: "append", Mb: 0, Del: true, Form: 1}, {Conn: 0, K: "append", Mb: 0},
			{Conn: 0, K: "select", Mb: 0}, {Conn: 1, K: "select", Mb: 0, Form: form1},
		}
	}
	prefix := prefixFor(0)
	var alpha []c08Cmd
	for c := 0; c < 2; c++ {
		alpha = append(alpha,
			c08Cmd{Conn: c, K: "append", Mb: 0},
			c08Cmd{Conn: c, K: "store", Set: "1", Sop: 0},
			c08Cmd{Conn: c, K: "expunge"},
			c08Cmd{Conn: c, K: "move", Set: "1", Mb: 1},
			c08Cmd{Conn: c, K: "fetch", Set: "1:*"},
			c08Cmd{Conn: c, K: "fetch", UID: true, Set: "1:*", WFlags: true},
			c08Cmd{Conn: c, K: "noop"},
			c08Cmd{Conn: c, K: "search"},
		)
	}
	depth := h.Pick(2, 3)
	var rec func(suffix []c08Cmd, d int)
	rec = func(suffix []c08Cmd, d int) {
		if d == 0 {
			cmds := append(append([]c08Cmd{}, prefix...), suffix...)
			runOne(2, 2, cmds, "exhaustive")
			return
		}
		for _, a := range alpha {
			rec(append(append([]c08Cmd{}, suffix...), a), d-1)
		}
	}
	rec(nil, depth)
	prefix = prefixFor(1)
	rec(nil, 2)

	// 3. seeded random histories
	n := h.Pick(260, 6000)
	for i := 0; i < n; i++ {
		nmb, nconn, cmds := c08RandomHistory(h.Rng, h.Pick(30, 60))
		runOne(nmb, nconn, cmds, "random")
	}
	var ks []string
	for k := range total {
		ks = append(ks, k)
	}
	sort.Strings(ks)
	h.Note("command forms exercised: %s", strings.Join(ks, ", "))
}

type c08Case struct {
	nmb, nconn int
	cmds       []c08Cmd
}

// c08Corpus: histories that broke the property on earlier trees, and boundary shapes.
func c08Corpus() []c08Case {
	ap := func(c, mb int, del bool) c08Cmd { return c08Cmd{Conn: c, K: "append", Mb: mb, Del: del} }
	sl := func(c, mb int) c08Cmd { return c08Cmd{Conn: c, K: "select", Mb: mb} }
	ex := func(c, mb int) c08Cmd { return c08Cmd{Conn: c, K: "select", Mb: mb, Form: 1} } // EXAMINE
	return []c08Case{
		// EXAMINE: a read-only view next to a read-write one; STORE / UID EXPUNGE / MOVE are refused,
		// FETCH of a body sets nothing, EXPUNGE and CLOSE remove nothing
		{2, 2, []c08Cmd{ap(0, 0, true), ap(0, 0, false), sl(0, 0), ex(1, 0), {Conn: 1, K: "store", Set: "1:*", Sop: 0}, {Conn: 1, K: "store", UID: true, Set: "2", Sop: 1, Silent: true},
			{Conn: 1, K: "fetch", Set: "1:*", WFlags: true, Seen: true}, {Conn: 0, K: "noop"}, {Conn: 1, K: "expunge"}, {Conn: 1, K: "uidexpunge", Set: "1:*"}, {Conn: 1, K: "move", Set: "1", Mb: 1},
			{Conn: 1, K: "move", UID: true, Set: "1:*", Mb: 9}, {Conn: 1, K: "copy", Set: "1:*", Mb: 1}, {Conn: 0, K: "noop"}, {Conn: 1, K: "close"}, {Conn: 0, K: "fetch", Set: "1:*", WFlags: true}}},
		// the bit belongs to the view: EXAMINE then SELECT is read-write, SELECT then EXAMINE read-only, a failed
		// EXAMINE leaves nothing selected, UNSELECT/CLOSE forget it; it survives IDLE..DONE
		{2, 2, []c08Cmd{ap(0, 0, true), ap(0, 0, true), ap(0, 0, false), sl(1, 0), ex(0, 0), sl(0, 0), {Conn: 0, K: "store", Set: "3", Sop: 0}, ex(0, 0), {Conn: 0, K: "store", Set: "1", Sop: 1},
			{Conn: 0, K: "idle"}, ap(1, 0, false), {Conn: 0, K: "done"}, {Conn: 0, K: "expunge"}, {Conn: 0, K: "uidexpunge", Set: "1"}, {Conn: 1, K: "noop"},
			ex(0, 5), {Conn: 0, K: "store", Set: "1", Sop: 0}, ex(0, 0), {Conn: 0, K: "unselect"}, sl(0, 0), {Conn: 0, K: "move", Set: "1", Mb: 1}, {Conn: 1, K: "noop"}}},
		// a read-only view is still told what the others do, also while idling and under a stale view
		{2, 3, []c08Cmd{ap(0, 0, true), ap(0, 0, false), ap(0, 0, true), ex(0, 0), sl(1, 0), ex(2, 0), {Conn: 2, K: "idle"}, {Conn: 1, K: "expunge"}, ap(1, 0, false),
			{Conn: 0, K: "fetch", Set: "1:*", Seen: true}, {Conn: 0, K: "store", Set: "1:*", Sop: 0}, {Conn: 0, K: "search"}, {Conn: 0, K: "expunge"}, {Conn: 0, K: "fetch", Set: "1:*", WFlags: true},
			{Conn: 2, K: "done"}, {Conn: 2, K: "close"}, {Conn: 1, K: "noop"}}},
		// MOVE: explicit EXPUNGE responses and queued ones (duplicates, wrong numbers, 0)
		{2, 1, []c08Cmd{ap(0, 0, false), ap(0, 0, false), ap(0, 0, false), sl(0, 0), {Conn: 0, K: "move", Set: "1", Mb: 1}}},
		{2, 1, []c08Cmd{ap(0, 0, false), ap(0, 0, false), ap(0, 0, false), sl(0, 0), {Conn: 0, K: "move", Set: "3", Mb: 1}, {Conn: 0, K: "fetch", Set: "1:*"}}},
		{2, 2, []c08Cmd{ap(0, 0, false), ap(0, 0, false), ap(0, 0, false), sl(0, 0), sl(1, 0), {Conn: 0, K: "move", Set: "1:2", Mb: 1}, {Conn: 1, K: "noop"}}},
		{2, 2, []c08Cmd{ap(0, 0, false), ap(0, 0, false), sl(0, 0), sl(1, 0), {Conn: 1, K: "move", UID: true, Set: "2", Mb: 1}, {Conn: 0, K: "move", Set: "1:*", Mb: 1}}},
		// UID FETCH / UID STORE of a message the session has not been told about yet
		{1, 2, []c08Cmd{ap(0, 0, false), sl(0, 0), ap(1, 0, false), {Conn: 0, K: "fetch", UID: true, Set: "1:*", WFlags: true}}},
		{1, 2, []c08Cmd{ap(0, 0, false), sl(0, 0), ap(1, 0, false), {Conn: 0, K: "store", UID: true, Set: "1:*", Sop: 0}}},
		{1, 2, []c08Cmd{ap(0, 0, false), sl(0, 0), ap(1, 0, false), {Conn: 0, K: "fetch", UID: true, Set: "2", Seen: true}, {Conn: 0, K: "noop"}}},
		// '*' while an EXISTS / an EXPUNGE is still queued
		{1, 2, []c08Cmd{ap(0, 0, false), ap(0, 0, false), sl(0, 0), ap(1, 0, false), {Conn: 0, K: "fetch", Set: "*"}, {Conn: 0, K: "fetch", Set: "*"}}},
		{1, 2, []c08Cmd{ap(0, 0, true), ap(0, 0, false), ap(0, 0, false), sl(0, 0), sl(1, 0), {Conn: 1, K: "expunge"}, {Conn: 0, K: "fetch", Set: "*"}, {Conn: 0, K: "fetch", Set: "3"}, {Conn: 0, K: "search", SQ: "*"}}},
		// expunge under a stale view, then non-UID commands, then NOOP
		{1, 3, []c08Cmd{ap(0, 0, true), ap(0, 0, true), ap(0, 0, false), ap(0, 0, false), sl(0, 0), sl(1, 0), sl(2, 0), {Conn: 1, K: "expunge"}, ap(2, 0, false),
			{Conn: 0, K: "fetch", Set: "1:*", WFlags: true}, {Conn: 0, K: "store", Set: "1:*", Sop: 2}, {Conn: 0, K: "search"}, {Conn: 0, K: "search", UID: true}, {Conn: 2, K: "fetch", Set: "1:*", Seen: true}, {Conn: 0, K: "noop"}}},
		// an EXISTS queued before an EXPUNGE of an older message, the new message still there: non-UID
		// SEARCH / FETCH / STORE under that stale view
		{1, 2, []c08Cmd{ap(0, 0, true), ap(0, 0, false), sl(0, 0), sl(1, 0), ap(1, 0, false), {Conn: 1, K: "expunge"}, {Conn: 0, K: "search"}, {Conn: 0, K: "search", UID: true},
			{Conn: 0, K: "fetch", Set: "1:*"}, {Conn: 0, K: "noop"}, {Conn: 0, K: "search"}}},
		{1, 2, []c08Cmd{ap(0, 0, false), ap(0, 0, true), ap(0, 0, false), sl(0, 0), sl(1, 0), ap(1, 0, false), ap(1, 0, false), {Conn: 1, K: "expunge"}, {Conn: 0, K: "search"},
			{Conn: 0, K: "store", Set: "1:*", Sop: 0}, {Conn: 0, K: "search", SQ: "*"}, {Conn: 0, K: "noop"}}},
		{1, 3, []c08Cmd{ap(0, 0, true), ap(0, 0, true), sl(0, 0), sl(1, 0), sl(2, 0), ap(1, 0, false), {Conn: 1, K: "uidexpunge", Set: "2"}, ap(2, 0, false), {Conn: 2, K: "expunge"}, {Conn: 0, K: "search"},
			{Conn: 0, K: "fetch", Set: "1:*", WFlags: true}, {Conn: 0, K: "noop"}}},
		// IDLE while others append, expunge and move
		{2, 3, []c08Cmd{ap(0, 0, true), ap(0, 0, false), sl(0, 0), sl(1, 0), sl(2, 0), {Conn: 0, K: "idle"}, ap(1, 0, false), {Conn: 1, K: "expunge"}, {Conn: 2, K: "move", Set: "1", Mb: 1}, {Conn: 0, K: "done"}, {Conn: 0, K: "fetch", Set: "1:*"}}},
		// CLOSE expunges silently; reselecting
		{2, 2, []c08Cmd{ap(0, 0, true), ap(0, 0, false), sl(0, 0), sl(1, 0), {Conn: 0, K: "close"}, {Conn: 1, K: "fetch", Set: "1:*"}, {Conn: 1, K: "noop"}, sl(0, 1), sl(0, 0), sl(0, 2)}},
		// COPY into a mailbox another session has selected
		{2, 2, []c08Cmd{ap(0, 0, false), ap(0, 0, true), ap(0, 1, false), sl(0, 0), sl(1, 1), {Conn: 0, K: "copy", Set: "1:*", Mb: 1}, {Conn: 1, K: "fetch", Set: "1:*"}, {Conn: 1, K: "copy", UID: true, Set: "1:*", Mb: 0}, {Conn: 0, K: "copy", Set: "1", Mb: 0}, {Conn: 0, K: "copy", Set: "9", Mb: 1}}},
	}
}
