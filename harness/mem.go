package main

import (
	"fmt"
	"net"
	"strings"
	"sync"
	"time"

	imap "github.com/emersion/go-imap/v2"
	"github.com/emersion/go-imap/v2/imapserver"
	"github.com/emersion/go-imap/v2/imapserver/imapmemserver"
)

// memServer is a real imapserver with the in-memory backend.
type memServer struct {
	srv  *imapserver.Server
	mem  *imapmemserver.Server
	user *imapmemserver.User
	ln   net.Listener
	log  *logBuf
}

func startMemServer(mailboxes []string, rev2 bool) *memServer {
	ms := &memServer{log: &logBuf{}}
	ms.mem = imapmemserver.New()
	ms.user = imapmemserver.NewUser("u", "p")
	for _, m := range mailboxes {
		ms.user.Create(m, nil)
	}
	ms.mem.AddUser(ms.user)
	caps := imap.CapSet{imap.CapIMAP4rev1: {}, imap.CapUIDPlus: {}, imap.CapMove: {}, imap.CapNamespace: {}, imap.CapESearch: {}}
	if rev2 {
		caps[imap.CapIMAP4rev2] = struct{}{}
	}
	ms.srv = imapserver.New(&imapserver.Options{
		NewSession: func(c *imapserver.Conn) (imapserver.Session, *imapserver.GreetingData, error) {
			return ms.mem.NewSession(), nil, nil
		},
		Caps:         caps,
		InsecureAuth: true,
		Logger:       ms.log,
	})
	ln, err := net.Listen("tcp", "127.0.0.1:0")
	if err != nil {
		panic(err)
	}
	ms.ln = ln
	go ms.srv.Serve(ln)
	return ms
}

func (ms *memServer) Close() { ms.srv.Close() }

// memConn is one client connection with a command log and a watchdog.
type memConn struct {
	id   int
	rc   *rawConn
	mu   sync.Mutex
	hist []string
}

func (ms *memServer) dial(id int) *memConn {
	c, err := net.Dial("tcp", ms.ln.Addr().String())
	if err != nil {
		panic(err)
	}
	mc := &memConn{id: id, rc: &rawConn{c: c}}
	mc.rc.br = newBufReader(c)
	mc.rc.greeting()
	return mc
}

// run sends one command and returns its responses; stalled = no tagged completion in time.
func (mc *memConn) run(line string, timeout time.Duration) (untagged []string, tagged string, stalled bool, err error) {
	mc.mu.Lock()
	mc.hist = append(mc.hist, line)
	mc.mu.Unlock()
	type res struct {
		un  []string
		tg  string
		err error
	}
	ch := make(chan res, 1)
	go func() {
		un, tg, err := mc.rc.cmd(line)
		ch <- res{un, tg, err}
	}()
	select {
	case r := <-ch:
		if ne, ok := r.err.(net.Error); ok && ne.Timeout() {
			return r.un, "", true, nil // the read deadline of the raw connection expired: no completion
		}
		return r.un, r.tg, false, r.err
	case <-time.After(timeout):
		return nil, "", true, nil
	}
}

func (mc *memConn) history() []string {
	mc.mu.Lock()
	defer mc.mu.Unlock()
	return append([]string(nil), mc.hist...)
}

// appendMsg appends a small RFC 5322 message with a synchronising literal.
func (mc *memConn) appendMsg(mbox, flags, body string) error {
	msg := "From: a@example.org\r\nSubject: " + body + "\r\nDate: Tue, 10 Mar 2020 10:00:00 +0000\r\n\r\n" + body + "\r\n"
	fl := ""
	if flags != "" {
		fl = " (" + flags + ")"
	}
	_, _, tagged, err := mc.rc.interactive(fmt.Sprintf("APPEND %s%s {%d}", mbox, fl, len(msg)), []string{msg + "\r\n"})
	if err != nil {
		return err
	}
	if respClass(tagged) != "OK" {
		return fmt.Errorf("APPEND: %s", tagged)
	}
	return nil
}

func isOK(tagged string) bool { return strings.ToUpper(respClass(tagged)) == "OK" }
