package main

import (
	"fmt"
	"io"
	"net"
	"strings"
	"sync"
	"time"

	imap "github.com/emersion/go-imap/v2"
	"github.com/emersion/go-imap/v2/imapserver"
	"github.com/emersion/go-imap/v2/imapserver/imapmemserver"
)

// memServer is a real imapserver with the in-memory backend.
type memServer struct {
	srv  *imapserver.Server
	mem  *imapmemserver.Server
	user *imapmemserver.User
	ln   net.Listener
	log  *logBuf
}

func startMemServer(mailboxes []string, rev2 bool) *memServer {
	ms := &memServer{log: &logBuf{}}
	ms.mem = imapmemserver.New()
	ms.user = imapmemserver.NewUser("u", "p")
	for _, m := range mailboxes {
		ms.user.Create(m, nil)
	}
	ms.mem.AddUser(ms.user)
	caps := imap.CapSet{imap.CapIMAP4rev1: {}, imap.CapUIDPlus: {}, imap.CapMove: {}, imap.CapNamespace: {}, imap.CapESearch: {}}
	if rev2 {
		caps[imap.CapIMAP4rev2] = struct{}{}
	}
	ms.srv = imapserver.New(&imapserver.Options{
		NewSession: func(c *imapserver.Conn) (imapserver.Session, *imapserver.GreetingData, error) {
			return ms.mem.NewSession(), nil, nil
		},
		Caps:         caps,
		InsecureAuth: true,
		Logger:       ms.log,
	})
	ln, err := net.Listen("tcp", "127.0.0.1:0")
	if err != nil {
		panic(err)
	}
	ms.ln = ln
	go ms.srv.Serve(ln)
	return ms
}

func (ms *memServer) Close() { ms.srv.Close() }

// memConn is one client connection with a command log and a watchdog.
type memConn struct {
	id   int
	rc   *rawConn
	mu   sync.Mutex
	hist []string
	// grace: how long a command that exceeded its watchdog may still take before it counts as
	// stalled (0 = the watchdog alone decides); slow counts commands that needed the grace period
	grace time.Duration
	slow  int
	// hurry, when set and true, caps the grace period at 8 s: it is set to "the server has logged a
	// panic", after which a command that does not complete is not merely slow (a panic inside a
	// critical section whose unlock is not deferred leaves the mutex locked)
	hurry func() bool
}

// graceLeft is what remains of the grace period that started at start.
func (mc *memConn) graceLeft(start time.Time) time.Duration {
	g := mc.grace
	if mc.hurry != nil && g > 8*time.Second && mc.hurry() {
		g = 8 * time.Second
	}
	return g - time.Since(start)
}

func (ms *memServer) dial(id int) *memConn {
	c, err := net.Dial("tcp", ms.ln.Addr().String())
	if err != nil {
		panic(err)
	}
	mc := &memConn{id: id, rc: &rawConn{c: c}}
	mc.rc.br = newBufReader(c)
	mc.rc.greeting()
	return mc
}

// run sends one command and returns its responses; stalled = no tagged completion in time.
func (mc *memConn) run(line string, timeout time.Duration) (untagged []string, tagged string, stalled bool, err error) {
	mc.mu.Lock()
	mc.hist = append(mc.hist, line)
	mc.mu.Unlock()
	type res struct {
		un  []string
		tg  string
		err error
	}
	ch := make(chan res, 1)
	go func() {
		un, tg, err := mc.rc.cmd(line)
		ch <- res{un, tg, err}
	}()
	var r res
	select {
	case r = <-ch:
	case <-time.After(timeout):
		if mc.grace == 0 {
			return nil, "", true, nil
		}
		// slow is not stalled: keep waiting for a while
		start := time.Now()
		for got := false; !got; {
			select {
			case r = <-ch:
				got = true
				mc.mu.Lock()
				mc.slow++
				mc.mu.Unlock()
			case <-time.After(time.Second):
				if mc.graceLeft(start) <= 0 {
					return nil, "", true, nil
				}
			}
		}
	}
	if ne, ok := r.err.(net.Error); ok && ne.Timeout() {
		// the read deadline of the raw connection expired without a completion; with a grace
		// period keep reading for the tagged response (a command that is merely slow completes)
		start := time.Now()
		tag := fmt.Sprintf("T%d", mc.rc.tag)
		for mc.graceLeft(start) > 0 {
			un, tg, err := mc.rc.until(tag)
			r.un = append(r.un, un...)
			if err == nil {
				mc.mu.Lock()
				mc.slow++
				mc.mu.Unlock()
				return r.un, tg, false, nil
			}
			if ne, ok := err.(net.Error); !ok || !ne.Timeout() {
				return r.un, "", false, err
			}
		}
		return r.un, "", true, nil
	}
	return r.un, r.tg, false, r.err
}

func (mc *memConn) history() []string {
	mc.mu.Lock()
	defer mc.mu.Unlock()
	return append([]string(nil), mc.hist...)
}

// appendMsg appends a small RFC 5322 message with a synchronising literal.
func (mc *memConn) appendMsg(mbox, flags, body string) error {
	msg := "From: a@example.org\r\nSubject: " + body + "\r\nDate: Tue, 10 Mar 2020 10:00:00 +0000\r\n\r\n" + body + "\r\n"
	fl := ""
	if flags != "" {
		fl = " (" + flags + ")"
	}
	_, _, tagged, err := mc.rc.interactive(fmt.Sprintf("APPEND %s%s {%d}", mbox, fl, len(msg)), []string{msg + "\r\n"})
	if err != nil {
		return err
	}
	if respClass(tagged) != "OK" {
		return fmt.Errorf("APPEND: %s", tagged)
	}
	return nil
}

func isOK(tagged string) bool { return strings.ToUpper(respClass(tagged)) == "OK" }

// idle runs IDLE for the given time and ends it with DONE; stalled = no "+" or no tagged
// completion in time.
func (mc *memConn) idle(d time.Duration, timeout time.Duration) (stalled bool, err error) {
	mc.mu.Lock()
	mc.hist = append(mc.hist, "IDLE")
	mc.mu.Unlock()
	res := make(chan error, 1)
	go func() {
		mc.rc.tag++
		tag := fmt.Sprintf("T%d", mc.rc.tag)
		if _, err := io.WriteString(mc.rc.c, tag+" IDLE\r\n"); err != nil {
			res <- err
			return
		}
		// wait for the continuation request (updates may come first)
		for {
			l, err := mc.rc.readLine(timeout)
			if err != nil {
				res <- err
				return
			}
			if strings.HasPrefix(l, "+") {
				break
			}
			if strings.HasPrefix(l, tag+" ") {
				res <- nil // refused
				return
			}
		}
		time.Sleep(d)
		if _, err := io.WriteString(mc.rc.c, "DONE\r\n"); err != nil {
			res <- err
			return
		}
		for {
			l, err := mc.rc.readLine(timeout)
			if err != nil {
				res <- err
				return
			}
			if strings.HasPrefix(l, tag+" ") {
				res <- nil
				return
			}
		}
	}()
	select {
	case err := <-res:
		if ne, ok := err.(net.Error); ok && ne.Timeout() {
			return true, nil
		}
		return false, err
	case <-time.After(timeout + d + 2*time.Second):
		return true, nil
	}
}
