package main

import (
	"encoding/json"
	"fmt"
	"os"
	"regexp"
	"strings"

	"github.com/emersion/go-imap/v2/imapserver"
)

func init() { runners["C20"] = runC20 }

type mlCase struct {
	Name  string `json:"name"`
	Delim rune   `json:"delim"`
	Ref   string `json:"ref"`
	Pat   string `json:"pattern"`
	Got   bool   `json:"got"`
}

// specMatch is the independent textbook matcher: '*' any sequence, '%' any sequence in which
// the delimiter does not start, other bytes themselves.
func specMatch(pat, name, delim string) bool {
	type key struct{ p, n int }
	memo := map[key]bool{}
	var rec func(p, n int) bool
	rec = func(p, n int) bool {
		k := key{p, n}
		if v, ok := memo[k]; ok {
			return v
		}
		var res bool
		switch {
		case p == len(pat):
			res = n == len(name)
		case pat[p] == '*':
			for j := n; j <= len(name) && !res; j++ {
				res = rec(p+1, j)
			}
		case pat[p] == '%':
			for j := n; j <= len(name) && !res; j++ {
				res = rec(p+1, j)
				if j < len(name) && delim != "" && strings.HasPrefix(name[j:], delim) {
					break
				}
			}
		default:
			res = n < len(name) && name[n] == pat[p] && rec(p+1, n+1)
		}
		memo[k] = res
		return res
	}
	return rec(0, 0)
}

func specMatchList(name string, delim rune, ref, pat string) bool {
	d := ""
	if delim != 0 {
		d = string(delim)
	}
	lit := ""
	switch {
	case d != "" && strings.HasPrefix(pat, d):
		pat = pat[len(d):]
	case ref == "":
	case d != "" && !strings.HasSuffix(ref, d):
		lit = ref + d
	default:
		lit = ref
	}
	if !strings.HasPrefix(name, lit) {
		return false
	}
	return specMatch(pat, name[len(lit):], d)
}

// regexMatch: second, structurally different oracle for a one-byte ASCII delimiter.
func regexMatch(pat, name string, delim byte) bool {
	var sb strings.Builder
	sb.WriteString(`^(?s:`)
	for i := 0; i < len(pat); i++ {
		switch pat[i] {
		case '*':
			sb.WriteString(`.*`)
		case '%':
			if delim == 0 {
				sb.WriteString(`.*`)
			} else {
				sb.WriteString(`[^` + regexp.QuoteMeta(string(delim)) + `]*`)
			}
		default:
			sb.WriteString(regexp.QuoteMeta(string(pat[i])))
		}
	}
	sb.WriteString(`)$`)
	return regexp.MustCompile(sb.String()).MatchString(name)
}

func runC20(h *H) {
	imports := []string{"From GoImap.Base Require Import Bytes.", "From GoImap.Model Require Import MatchList."}
	corr := h.NewCorr("matchlist", imports, "ml_mismatches", 2500).Type("ml_case")
	h.Rule("MatchList(name, delim, ref, pattern): corpus (incl. non-ASCII delimiters), exhaustive over names in {a,b,/}* and patterns in {a,b,/,*,%}* up to the tier's lengths x 5 references x delimiter {'/', none}, names over {a,/} x short patterns x references ending in two or more delimiters, seeded random up to length 12. Non-trivial = the pattern contains a wildcard and the name is non-empty; distinct by (name, delim, ref, pattern).")

	one := func(name string, delim rune, ref, pat, src string) {
		h.InFlight(mlCase{name, delim, ref, pat, false})
		got := imapserver.MatchList(name, delim, ref, pat)
		c := mlCase{name, delim, ref, pat, got}
		want := specMatchList(name, delim, ref, pat)
		if got != want {
			kind := "ascii"
			if delim >= 0x80 {
				kind = "nonascii-delim"
			}
			h.Fail(fmt.Sprintf("matchlist-wrong:%s", kind),
				fmt.Sprintf("MatchList(%q, %q, %q, %q) = %v, textbook semantics say %v", name, delim, ref, pat, got, want), c)
		}
		if delim < 0x80 && ref == "" && !(delim != 0 && strings.HasPrefix(pat, string(delim))) {
			if rx := regexMatch(pat, name, byte(delim)); rx != want {
				h.Fail("oracle-disagree", "internal: the two independent oracles disagree", c)
			}
		}
		key := ""
		if strings.ContainsAny(pat, "*%") && name != "" {
			key = fmt.Sprintf("%q|%d|%q|%q", name, delim, ref, pat)
		}
		h.Eval(key)
		h.Hist("src:" + src)
		h.Hist(fmt.Sprintf("result:%v", got))
		d := ""
		if delim != 0 {
			d = string(delim)
		}
		corr.Add(fmt.Sprintf("(%s, %s, %s, %s, %s)", coqHxS(name), coqHxS(d), coqHxS(ref), coqHxS(pat), coqBool(got)), c)
		if key != "" && h.Rng.Intn(2000) == 0 {
			h.Sample(c)
		}
	}

	if h.Replay != "" {
		var wrap struct {
			Case mlCase `json:"case"`
		}
		b, _ := os.ReadFile(h.Replay)
		json.Unmarshal(b, &wrap)
		c := wrap.Case
		one(c.Name, c.Delim, c.Ref, c.Pat, "replay")
		return
	}

	// corpus: the repository's own table plus non-ASCII delimiter cases
	for _, c := range []mlCase{
		{Name: "û", Delim: 0xBB, Pat: "%"}, {Name: "a»b", Delim: 0xBB, Pat: "%"}, {Name: "a»b", Delim: 0xBB, Pat: "a%b"},
		{Name: "a»b", Delim: 0xBB, Pat: "%»%"}, {Name: "a»b", Delim: 0xBB, Ref: "a", Pat: "%"}, {Name: "a»b", Delim: 0xBB, Pat: "»a»b"},
		{Name: "a・b", Delim: '・', Pat: "%"}, {Name: "a・b", Delim: '・', Pat: "a・%"}, {Name: "ab", Delim: '・', Pat: "%"},
		{Name: "\xbb", Delim: 0xBB, Pat: "%"}, {Name: "x\xc2", Delim: 0xBB, Pat: "%"},
		{Name: "INBOX", Delim: '/', Pat: "%"}, {Name: "a/b", Delim: '/', Pat: "%"}, {Name: "a/b", Delim: '/', Pat: "%/%"},
		{Name: "a/b", Delim: '/', Ref: "a", Pat: "%"}, {Name: "a/b", Delim: '/', Ref: "a/", Pat: "%"}, {Name: "a/b", Delim: '/', Ref: "x", Pat: "/a/b"},
		{Name: "a/b", Delim: 0, Ref: "a", Pat: "/b"}, {Name: "a%b", Delim: '/', Pat: "a%b"}, {Name: "a*b", Delim: '/', Pat: "a*b"},
		{Name: "", Delim: '/', Pat: ""}, {Name: "", Delim: '/', Pat: "*"}, {Name: "", Delim: '/', Pat: "%"}, {Name: "/", Delim: '/', Pat: "%"},
		{Name: "/", Delim: '/', Pat: "/"}, {Name: "//", Delim: '/', Pat: "//"}, {Name: "a", Delim: '%', Pat: "%"}, {Name: "a%b", Delim: '%', Pat: "%"},
	} {
		one(c.Name, c.Delim, c.Ref, c.Pat, "corpus")
	}
	// exhaustive
	var gen func(alpha string, n int) []string
	gen = func(alpha string, n int) []string {
		out := []string{""}
		prev := []string{""}
		for l := 1; l <= n; l++ {
			var cur []string
			for _, p := range prev {
				for i := 0; i < len(alpha); i++ {
					cur = append(cur, p+string(alpha[i]))
				}
			}
			out = append(out, cur...)
			prev = cur
		}
		return out
	}
	names := gen("ab/", h.Pick(3, 4))
	pats := gen("ab/*%", h.Pick(3, 4))
	refs := []string{"", "a", "a/", "/", "ab/"}
	for _, delim := range []rune{'/', 0} {
		for _, ref := range refs {
			for _, n := range names {
				for _, p := range pats {
					one(n, delim, ref, p, "exhaustive")
				}
			}
		}
	}
	// references ending in two or more delimiters (the reference is a literal prefix: "a//" is
	// not "a/")
	for _, ref := range []string{"a//", "//", "a///", "/a//"} {
		for _, n := range gen("a/", 5) {
			for _, p := range gen("a/*%", 2) {
				one(n, '/', ref, p, "exhaustive-double-delimiter-reference")
			}
		}
	}
	h.Note("exhaustive: %d names x %d patterns x %d refs x 2 delimiters", len(names), len(pats), len(refs))
	// random, longer
	alpha := "abc/.*%"
	rs := func(n int, a string) string {
		b := make([]byte, h.Rng.Intn(n+1))
		for i := range b {
			b[i] = a[h.Rng.Intn(len(a))]
		}
		return string(b)
	}
	for i := 0; i < h.Pick(3000, 100000); i++ {
		delim := []rune{'/', '/', '/', '.', 0, 0xBB, '・'}[h.Rng.Intn(7)]
		na := "abc/."
		if delim >= 0x80 {
			na = "ab" + string(delim) + "\xc2\xbb\xc3"
		}
		name := rs(12, na)
		// derive the pattern from the name most of the time so that matches are frequent
		pat := rs(8, alpha)
		if h.Rng.Intn(3) > 0 && len(name) > 0 {
			b := []byte(name)
			for k := h.Rng.Intn(3) + 1; k > 0 && len(b) > 0; k-- {
				i := h.Rng.Intn(len(b))
				j := i + h.Rng.Intn(len(b)-i+1)
				w := "*%"[h.Rng.Intn(2)]
				b = append(b[:i], append([]byte{w}, b[j:]...)...)
			}
			pat = string(b)
		}
		ref := ""
		if h.Rng.Intn(4) == 0 {
			ref = rs(3, "abc/.")
			if h.Rng.Intn(2) == 0 && len(name) > 1 {
				ref = name[:h.Rng.Intn(len(name))]
				if strings.HasPrefix(pat, ref) {
					pat = pat[len(ref):]
				}
			}
		}
		one(name, delim, ref, pat, "random")
	}
}
