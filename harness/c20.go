package main

import (
	"encoding/json"
	"fmt"
	"os"
	"regexp"
	"strings"
	"time"

	"github.com/emersion/go-imap/v2/imapserver"
)

func init() { runners["C20"] = runC20 }

type mlCase struct {
	Name  string `json:"name"`
	Delim rune   `json:"delim"`
	Ref   string `json:"ref"`
	Pat   string `json:"pattern"`
	Got   bool   `json:"got"`
}

// specMatch is the independent textbook matcher: '*' any sequence, '%' any sequence in which
// the delimiter does not start, other bytes themselves.
func specMatch(pat, name, delim string) bool {
	type key struct{ p, n int }
	memo := map[key]bool{}
	var rec func(p, n int) bool
	rec = func(p, n int) bool {
		k := key{p, n}
		if v, ok := memo[k]; ok {
			return v
		}
		var res bool
		switch {
		case p == len(pat):
			res = n == len(name)
		case pat[p] == '*':
			for j := n; j <= len(name) && !res; j++ {
				res = rec(p+1, j)
			}
		case pat[p] == '%':
			for j := n; j <= len(name) && !res; j++ {
				res = rec(p+1, j)
				if j < len(name) && delim != "" && strings.HasPrefix(name[j:], delim) {
					break
				}
			}
		default:
			res = n < len(name) && name[n] == pat[p] && rec(p+1, n+1)
		}
		memo[k] = res
		return res
	}
	return rec(0, 0)
}

func specMatchList(name string, delim rune, ref, pat string) bool {
	d := ""
	if delim != 0 {
		d = string(delim)
	}
	lit := ""
	switch {
	case d != "" && strings.HasPrefix(pat, d):
		pat = pat[len(d):]
	case ref == "":
	case d != "" && !strings.HasSuffix(ref, d):
		lit = ref + d
	default:
		lit = ref
	}
	if !strings.HasPrefix(name, lit) {
		return false
	}
	return specMatch(pat, name[len(lit):], d)
}

// regexMatch: second, structurally different oracle for a one-byte ASCII delimiter.
func regexMatch(pat, name string, delim byte) bool {
	var sb strings.Builder
	sb.WriteString(`^(?s:`)
	for i := 0; i < len(pat); i++ {
		switch pat[i] {
		case '*':
			sb.WriteString(`.*`)
		case '%':
			if delim == 0 {
				sb.WriteString(`.*`)
			} else {
				sb.WriteString(`[^` + regexp.QuoteMeta(string(delim)) + `]*`)
			}
		default:
			sb.WriteString(regexp.QuoteMeta(string(pat[i])))
		}
	}
	sb.WriteString(`)$`)
	return regexp.MustCompile(sb.String()).MatchString(name)
}

func runC20(h *H) {
	imports := []string{"From GoImap.Base Require Import Bytes.", "From GoImap.Model Require Import MatchList."}
	corr := h.NewCorr("matchlist", imports, "ml_mismatches", 2500).Type("ml_case")
	h.Rule("MatchList(name, delim, ref, pattern): corpus (incl. non-ASCII delimiters), exhaustive over names in {a,b,/}* and patterns in {a,b,/,*,%}* up to the tier's lengths x 5 references x delimiter {'/', none}, names over {a,/} x short patterns x references ending in two or more delimiters, seeded random up to length 12. Non-trivial = the pattern contains a wildcard and the name is non-empty; distinct by (name, delim, ref, pattern).")

	// toCoq: whether the case also goes to the in-kernel evaluation of the model. The model
	// transcribes the backtracking matcher, so wildcard-heavy cases (exponential there) are
	// decided by the two Go oracles only. call runs the real function (replaced by a watchdog
	// for the adversarial cases).
	toCoq := true
	call := imapserver.MatchList
	one := func(name string, delim rune, ref, pat, src string) {
		h.InFlight(mlCase{name, delim, ref, pat, false})
		got := call(name, delim, ref, pat)
		c := mlCase{name, delim, ref, pat, got}
		want := specMatchList(name, delim, ref, pat)
		if got != want {
			kind := "ascii"
			if delim >= 0x80 {
				kind = "nonascii-delim"
			}
			h.Fail(fmt.Sprintf("matchlist-wrong:%s", kind),
				fmt.Sprintf("MatchList(%q, %q, %q, %q) = %v, textbook semantics say %v", name, delim, ref, pat, got, want), c)
		}
		if delim < 0x80 && ref == "" && !(delim != 0 && strings.HasPrefix(pat, string(delim))) {
			if rx := regexMatch(pat, name, byte(delim)); rx != want {
				h.Fail("oracle-disagree", "internal: the two independent oracles disagree", c)
			}
		}
		key := ""
		if strings.ContainsAny(pat, "*%") && name != "" {
			key = fmt.Sprintf("%q|%d|%q|%q", name, delim, ref, pat)
		}
		h.Eval(key)
		h.Hist("src:" + src)
		h.Hist(fmt.Sprintf("result:%v", got))
		d := ""
		if delim != 0 {
			d = string(delim)
		}
		if toCoq {
			corr.Add(fmt.Sprintf("(%s, %s, %s, %s, %s)", coqHxS(name), coqHxS(d), coqHxS(ref), coqHxS(pat), coqBool(got)), c)
		}
		if key != "" && h.Rng.Intn(2000) == 0 {
			h.Sample(c)
		}
	}

	if h.Replay != "" {
		var wrap struct {
			Case mlCase `json:"case"`
		}
		b, _ := os.ReadFile(h.Replay)
		json.Unmarshal(b, &wrap)
		c := wrap.Case
		one(c.Name, c.Delim, c.Ref, c.Pat, "replay")
		return
	}

	// corpus: the repository's own table plus non-ASCII delimiter cases
	for _, c := range []mlCase{
		{Name: "û", Delim: 0xBB, Pat: "%"}, {Name: "a»b", Delim: 0xBB, Pat: "%"}, {Name: "a»b", Delim: 0xBB, Pat: "a%b"},
		{Name: "a»b", Delim: 0xBB, Pat: "%»%"}, {Name: "a»b", Delim: 0xBB, Ref: "a", Pat: "%"}, {Name: "a»b", Delim: 0xBB, Pat: "»a»b"},
		{Name: "a・b", Delim: '・', Pat: "%"}, {Name: "a・b", Delim: '・', Pat: "a・%"}, {Name: "ab", Delim: '・', Pat: "%"},
		{Name: "\xbb", Delim: 0xBB, Pat: "%"}, {Name: "x\xc2", Delim: 0xBB, Pat: "%"},
		{Name: "INBOX", Delim: '/', Pat: "%"}, {Name: "a/b", Delim: '/', Pat: "%"}, {Name: "a/b", Delim: '/', Pat: "%/%"},
		{Name: "a/b", Delim: '/', Ref: "a", Pat: "%"}, {Name: "a/b", Delim: '/', Ref: "a/", Pat: "%"}, {Name: "a/b", Delim: '/', Ref: "x", Pat: "/a/b"},
		{Name: "a/b", Delim: 0, Ref: "a", Pat: "/b"}, {Name: "a%b", Delim: '/', Pat: "a%b"}, {Name: "a*b", Delim: '/', Pat: "a*b"},
		{Name: "", Delim: '/', Pat: ""}, {Name: "", Delim: '/', Pat: "*"}, {Name: "", Delim: '/', Pat: "%"}, {Name: "/", Delim: '/', Pat: "%"},
		{Name: "/", Delim: '/', Pat: "/"}, {Name: "//", Delim: '/', Pat: "//"}, {Name: "a", Delim: '%', Pat: "%"}, {Name: "a%b", Delim: '%', Pat: "%"},
	} {
		one(c.Name, c.Delim, c.Ref, c.Pat, "corpus")
	}
	// exhaustive
	var gen func(alpha string, n int) []string
	gen = func(alpha string, n int) []string {
		out := []string{""}
		prev := []string{""}
		for l := 1; l <= n; l++ {
			var cur []string
			for _, p := range prev {
				for i := 0; i < len(alpha); i++ {
					cur = append(cur, p+string(alpha[i]))
				}
			}
			out = append(out, cur...)
			prev = cur
		}
		return out
	}
	names := gen("ab/", h.Pick(3, 4))
	pats := gen("ab/*%", h.Pick(3, 4))
	refs := []string{"", "a", "a/", "/", "ab/"}
	for _, delim := range []rune{'/', 0} {
		for _, ref := range refs {
			for _, n := range names {
				for _, p := range pats {
					one(n, delim, ref, p, "exhaustive")
				}
			}
		}
	}
	// references ending in two or more delimiters (the reference is a literal prefix: "a//" is
	// not "a/")
	for _, ref := range []string{"a//", "//", "a///", "/a//"} {
		for _, n := range gen("a/", 5) {
			for _, p := range gen("a/*%", 2) {
				one(n, '/', ref, p, "exhaustive-double-delimiter-reference")
			}
		}
	}
	h.Note("exhaustive: %d names x %d patterns x %d refs x 2 delimiters", len(names), len(pats), len(refs))
	// random, longer
	alpha := "abc/.*%"
	rs := func(n int, a string) string {
		b := make([]byte, h.Rng.Intn(n+1))
		for i := range b {
			b[i] = a[h.Rng.Intn(len(a))]
		}
		return string(b)
	}
	for i := 0; i < h.Pick(3000, 100000); i++ {
		delim := []rune{'/', '/', '/', '.', 0, 0xBB, '・'}[h.Rng.Intn(7)]
		na := "abc/."
		if delim >= 0x80 {
			na = "ab" + string(delim) + "\xc2\xbb\xc3"
		}
		name := rs(12, na)
		// derive the pattern from the name most of the time so that matches are frequent
		pat := rs(8, alpha)
		if h.Rng.Intn(3) > 0 && len(name) > 0 {
			b := []byte(name)
			for k := h.Rng.Intn(3) + 1; k > 0 && len(b) > 0; k-- {
				i := h.Rng.Intn(len(b))
				j := i + h.Rng.Intn(len(b)-i+1)
				w := "*%"[h.Rng.Intn(2)]
				b = append(b[:i], append([]byte{w}, b[j:]...)...)
			}
			pat = string(b)
		}
		ref := ""
		if h.Rng.Intn(4) == 0 {
			ref = rs(3, "abc/.")
			if h.Rng.Intn(2) == 0 && len(name) > 1 {
				ref = name[:h.Rng.Intn(len(name))]
				if strings.HasPrefix(pat, ref) {
					pat = pat[len(ref):]
				}
			}
		}
		one(name, delim, ref, pat, "random")
	}

	// ---- long patterns (64..300 bytes, at most two wildcards): model, both oracles, real code
	long := func(n int, a string) string {
		b := make([]byte, n)
		for i := range b {
			b[i] = a[h.Rng.Intn(len(a))]
		}
		return string(b)
	}
	for i := 0; i < h.Pick(240, 4000); i++ {
		delim := []rune{'/', '/', '.', 0, 0xBB}[h.Rng.Intn(5)]
		na := "abc/."
		if delim >= 0x80 {
			na = "ab" + string(delim) + "\xc2"
		}
		n := 64 + h.Rng.Intn(40)
		if i%2 == 1 {
			n = 200 + h.Rng.Intn(100)
		}
		name := long(n, na)
		b := []byte(name)
		for k := h.Rng.Intn(3); k > 0; k-- {
			i := h.Rng.Intn(len(b))
			j := i + h.Rng.Intn(min(len(b)-i, 6)+1)
			b = append(b[:i:i], append([]byte{"*%"[h.Rng.Intn(2)]}, b[j:]...)...)
		}
		switch h.Rng.Intn(4) {
		case 0: // one byte differs somewhere
			k := h.Rng.Intn(len(b))
			b[k] = na[h.Rng.Intn(len(na))]
		case 1: // something extra at the end of the name
			name += string(na[h.Rng.Intn(len(na))])
		}
		pat, ref := string(b), ""
		if h.Rng.Intn(4) == 0 {
			k := h.Rng.Intn(8)
			if strings.HasPrefix(pat, name[:k]) {
				ref, pat = name[:k], pat[k:]
			}
		}
		one(name, delim, ref, pat, fmt.Sprintf("long-pattern-%d", min(len(pat)/100*100, 200)))
	}

	// ---- wildcard-heavy cases: many wildcards against names that match late or almost. The
	// property's "accepts exactly when" presupposes an answer: a call that does not return
	// within 2 s is a failure (and a spinning command handler for C06). Oracles only.
	toCoq = false
	spun := false
	call = func(name string, delim rune, ref, pat string) bool {
		ch := make(chan bool, 1)
		go func() { ch <- imapserver.MatchList(name, delim, ref, pat) }()
		select {
		case r := <-ch:
			return r
		case <-time.After(2 * time.Second):
			spun = true
			h.Fail("matchlist-spins", fmt.Sprintf("MatchList(%q, %q, %q, %q) did not return within 2 s (name %d bytes, pattern %d bytes)", name, delim, ref, pat, len(name), len(pat)),
				mlCase{name, delim, ref, pat, false})
			return specMatchList(name, delim, ref, pat)
		}
	}
	rep := strings.Repeat
	type adv struct {
		name, pat string
		delim     rune
		ref       string
	}
	advs := []adv{
		{rep("a", 40), rep("*a", 20) + "b", '/', ""},
		{rep("a", 40), rep("*a", 20), '/', ""},
		{rep("a", 40), rep("%a", 20) + "b", '/', ""},
		{rep("a", 40), rep("%a", 20) + "b", 0, ""},
		{rep("a", 300), rep("*a", 100) + "b", '/', ""},
		{rep("a", 300), rep("*a", 100) + "*", '/', ""},
		{rep("a", 300), rep("*a", 150) + rep("a", 151), '/', ""},
		{rep("a", 300), rep("*a", 150) + rep("a", 150), '/', ""},
		{rep("a/", 40) + "a", rep("%/", 40) + "%", '/', ""},
		{rep("a/", 40) + "a", rep("%/", 39) + "%", '/', ""},
		{rep("a/", 40) + "a", rep("%/", 41) + "%", '/', ""},
		{rep("a/", 40) + "a", rep("*%/", 30) + "b", '/', ""},
		{rep("a/", 40) + "a", rep("%*", 30) + "/b", '/', ""},
		{rep("a/", 40) + "a", rep("%a", 41), '/', ""},
		{rep("a/", 40) + "a", rep("%a", 41), 0, ""},
		{rep("a/", 40) + "a", rep("%a/", 40) + "%a", '/', "a/"},
		{rep("a/", 40) + "a", rep("%a/", 39) + "%a", '/', "a"},
		{rep("ab", 100), rep("%a*b", 60) + "c", '/', "ababab"},
		{rep("ab", 100), rep("%a*b", 60), '/', "ababab"},
		{rep("a»", 40) + "a", rep("%»", 40) + "%", 0xBB, ""},
		{rep("a»", 40) + "a", rep("%a", 30) + "»b", 0xBB, ""},
		{rep("\xc2", 60) + "»", rep("%\xc2", 30) + "%", 0xBB, ""},
		{rep("\xc2", 60) + "»x", rep("%\xc2", 30) + "%", 0xBB, ""},
		{rep("a", 64), rep("*", 64) + "b", '/', ""},
		{rep("a", 64), rep("*%", 100), '/', ""},
		{rep("a/", 64), rep("%*", 100) + "/", '/', ""},
		{rep("a/", 64), rep("%", 200), '/', ""},
	}
	for _, a := range advs {
		if spun {
			break
		}
		one(a.name, a.delim, a.ref, a.pat, "adversarial")
	}
	for i := 0; i < h.Pick(1500, 40000) && !spun; i++ {
		delim := []rune{'/', '/', '/', 0, 0xBB}[h.Rng.Intn(5)]
		na := []string{"a", "ab", "a/", "ab/", "a/."}[h.Rng.Intn(5)]
		if delim >= 0x80 {
			na = []string{"a" + string(delim), "ab" + string(delim) + "\xc2", "\xc2\xbb"}[h.Rng.Intn(3)]
		}
		name := long(1+h.Rng.Intn(90), na)
		// the pattern: pieces of the name in order, separated by wildcard runs, sometimes with a
		// piece that does not occur or a missing/extra tail
		var sb strings.Builder
		pos := 0
		for pos < len(name) && sb.Len() < 260 {
			if h.Rng.Intn(3) > 0 {
				for k := 1 + h.Rng.Intn(2); k > 0; k-- {
					sb.WriteByte("*%%"[h.Rng.Intn(3)])
				}
				pos += h.Rng.Intn(4)
			}
			if pos < len(name) {
				l := 1 + h.Rng.Intn(2)
				if pos+l > len(name) {
					l = len(name) - pos
				}
				sb.WriteString(name[pos : pos+l])
				pos += l
			}
		}
		switch h.Rng.Intn(5) {
		case 0:
			sb.WriteString("b")
		case 1:
			sb.WriteString("*")
		case 2:
			sb.WriteString("%")
		}
		pat, ref := sb.String(), ""
		if h.Rng.Intn(5) == 0 {
			k := h.Rng.Intn(min(len(name), 6) + 1)
			if strings.HasPrefix(pat, name[:k]) {
				ref, pat = name[:k], pat[k:]
			}
		}
		one(name, delim, ref, pat, fmt.Sprintf("adversarial-random-%d", min(len(pat)/64*64, 192)))
	}
}
