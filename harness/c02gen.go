package main

// C02: request generators, the fixed corpus of nasty inputs, and the run loop.

import (
	"crypto/sha1"
	"fmt"
	"math/rand"
	"net"
	"os"
	"path/filepath"
	"sort"
	"strings"
	"time"

	imap "github.com/emersion/go-imap/v2"
)

var c02Strings = []string{
	"", "a", "INBOX", "inbox", "InBoX", "a b", `a"b`, `a\b`, "a\r\nb", "x\x00y", "été", "\xff\xfe", "&", "a&b", "&-",
	"R&D", "~peter/mail", "日本語", "{5}", "(", ")", "*", "%", "]", "NIL", "a]b", "Sent Items", "Archive/2024",
	"ſubject", "\xe9", "T1 LOGOUT\r\nT2 NOOP", "\U0001F600", "a{3+}", "\"", "\\", " ", "tab\there", "\u0080ctl",
}

var c02Mailboxes = []string{
	"INBOX", "inbox", "iNbOx", "Sent", "Sent Items", "Archive/2024", "été", "日本語/受信", "a&b", "&", "&-", "R&D",
	"~peter/mail", "a\"b", "a\\b", "x]y", "%", "*", "\U0001F600", "", "(", "a b c", "NIL", "{5}", "INBOX/sub", "inboxx",
}

var c02FlagPool = []imap.Flag{
	"\\Seen", "\\seen", "\\SEEN", "\\Answered", "\\Flagged", "\\Deleted", "\\Draft", "\\Recent", "$Forwarded", "$junk", "$MDNSent",
	"custom", "Key-Word", "\\*", "\\Foo", "été", "$Important", "\\answered", "\\DELETED", "\\draft", "\\flagged", "NonJunk",
}
var c02BadFlags = []imap.Flag{"", "a b", "\\", "a\\b", "(x)", "\u0080", "a\r\nb"}

var c02AttrPool = []imap.MailboxAttr{"\\Sent", "\\Drafts", "\\trash", "\\Custom", "\\ARCHIVE", "\\Junk", "\\All", "\\Flagged", "\\important"}
var c02BadAttrs = []imap.MailboxAttr{"Sent", "", "\\", "\\a b"}

type c02Gen struct {
	rng      *rand.Rand
	thorough bool
	zones    []*time.Location
}

func newC02Gen(rng *rand.Rand, thorough bool) *c02Gen {
	g := &c02Gen{rng: rng, thorough: thorough}
	g.zones = []*time.Location{time.UTC, time.FixedZone("", 3600), time.FixedZone("", -5*3600), time.FixedZone("", 5*3600+1800),
		time.FixedZone("", 13*3600+2700), time.FixedZone("", -11*3600)}
	for _, n := range []string{"Europe/Berlin", "America/New_York", "Australia/Lord_Howe", "Asia/Kathmandu"} {
		if l, err := time.LoadLocation(n); err == nil {
			g.zones = append(g.zones, l)
		}
	}
	return g
}

func (g *c02Gen) p(percent int) bool { return g.rng.Intn(100) < percent }

func (g *c02Gen) str() string {
	switch g.rng.Intn(40) {
	case 0:
		return strings.Repeat("x", 4096)
	case 1:
		if g.p(30) {
			return strings.Repeat("y", 4097)
		}
	case 2:
		// random bytes
		b := make([]byte, g.rng.Intn(12))
		for i := range b {
			b[i] = byte(g.rng.Intn(256))
		}
		return string(b)
	case 3:
		return strings.Repeat("é", 100+g.rng.Intn(50))
	}
	return c02Strings[g.rng.Intn(len(c02Strings))]
}

func (g *c02Gen) mailbox() string {
	switch g.rng.Intn(60) {
	case 0:
		return strings.Repeat("m", 4096)
	case 1:
		return strings.Repeat("é", 700+g.rng.Intn(400)) // around the 4096-byte limit once encoded
	case 2:
		return "\xff\xfe" // invalid UTF-8
	case 3, 4, 5:
		// random runes
		var sb strings.Builder
		for i := g.rng.Intn(6); i >= 0; i-- {
			rs := []rune{'a', '&', '-', '/', 0xe9, 0x20ac, 0x1f600, ' ', '~', 'Z', 0x7f, 0x1}
			sb.WriteRune(rs[g.rng.Intn(len(rs))])
		}
		return sb.String()
	}
	return c02Mailboxes[g.rng.Intn(len(c02Mailboxes))]
}

func (g *c02Gen) flags(max int) []imap.Flag {
	n := g.rng.Intn(max + 1)
	var l []imap.Flag
	for i := 0; i < n; i++ {
		if g.p(2) {
			l = append(l, c02BadFlags[g.rng.Intn(len(c02BadFlags))])
		} else {
			l = append(l, c02FlagPool[g.rng.Intn(len(c02FlagPool))])
		}
	}
	return l
}

var c02Nums = []uint32{1, 2, 3, 4, 5, 7, 10, 11, 100, 1000, 4294967294, 4294967295, 0}

func (g *c02Gen) set(uid bool) c02Set {
	if uid && g.p(8) {
		return c02Set{Res: true}
	}
	if g.p(3) {
		// raw, possibly non-canonical or empty
		switch g.rng.Intn(4) {
		case 0:
			return c02Set{}
		case 1:
			return c02Set{Ranges: [][2]uint32{{5, 3}}}
		case 2:
			return c02Set{Ranges: [][2]uint32{{1, 5}, {3, 8}}}
		default:
			return c02Set{Ranges: [][2]uint32{{0, 4}}}
		}
	}
	var s imap.SeqSet
	for i := g.rng.Intn(4); i >= 0; i-- {
		a := c02Nums[g.rng.Intn(len(c02Nums))]
		if g.p(50) {
			s.AddNum(a)
		} else {
			s.AddRange(a, c02Nums[g.rng.Intn(len(c02Nums))])
		}
	}
	var out c02Set
	for _, r := range s {
		out.Ranges = append(out.Ranges, [2]uint32{r.Start, r.Stop})
	}
	return out
}

func (g *c02Gen) time() time.Time {
	loc := g.zones[g.rng.Intn(len(g.zones))]
	switch g.rng.Intn(30) {
	case 0:
		return time.Time{}
	case 1:
		return time.Date(1, 1, 1, 12, 0, 0, 0, time.UTC) // formats as the zero date
	case 2:
		return time.Date(10000, 1, 1, 0, 0, 0, 0, time.UTC)
	case 3:
		return time.Date(9999, 12, 31, 23, 59, 59, 999999999, loc)
	case 4:
		return time.Date(1, 1, 2, 0, 0, 0, 0, time.UTC)
	case 5:
		return time.Date(1900+g.rng.Intn(200), 2, 29, 1, 2, 3, 0, loc) // normalises in non-leap years
	case 6:
		return time.Date(2024, 3, 31, g.rng.Intn(24), 30, 0, 0, loc) // around DST changes
	case 7:
		return time.Date(2024, 10, 27, g.rng.Intn(24), 30, 0, 0, loc)
	case 8:
		return time.Date(1890, 5, 1, 12, 0, 0, 0, loc) // LMT offsets with seconds
	case 9:
		return time.Date(2000, 1, 1, 0, 0, 0, 0, time.FixedZone("", 3600+17))
	}
	y := 1970 + g.rng.Intn(80)
	if g.p(15) {
		y = 1 + g.rng.Intn(9999)
	}
	ns := 0
	if g.p(30) {
		ns = g.rng.Intn(1000000000)
	}
	return time.Date(y, time.Month(1+g.rng.Intn(12)), 1+g.rng.Intn(31), g.rng.Intn(24), g.rng.Intn(60), g.rng.Intn(60), ns, loc)
}

// a (since, before) pair with the relations that matter for the ON optimisation
func (g *c02Gen) datePair() (time.Time, time.Time) {
	if g.p(40) {
		return time.Time{}, time.Time{}
	}
	s := g.time()
	switch g.rng.Intn(8) {
	case 0:
		return s, time.Time{}
	case 1:
		return time.Time{}, s
	case 2:
		return s, s.Add(24 * time.Hour)
	case 3:
		y, m, d := s.Date()
		return s, time.Date(y, m, d+1, g.rng.Intn(24), g.rng.Intn(60), 0, 0, s.Location())
	case 4:
		y, m, d := s.Date()
		return s, time.Date(y, m, d+2, 0, 30, 0, 0, s.Location())
	case 5:
		return s, s.Add(24 * time.Hour).In(g.zones[g.rng.Intn(len(g.zones))])
	case 6:
		return s, s.Add(24*time.Hour + time.Nanosecond)
	}
	return s, g.time()
}

var c02HeaderKeys = []string{"Subject", "subject", "SUBJECT", "From", "to", "CC", "bcc", "X-Mailer", "Message-ID", "ſubject", "ſUBJECT",
	"Sub ject", "", "Reply-To", "Tö", "from ", "List-Id"}

func (g *c02Gen) criteria(depth int) *imap.SearchCriteria {
	c := &imap.SearchCriteria{}
	r := g.rng
	if g.p(25) {
		for i := r.Intn(2); i >= 0; i-- {
			s := g.set(false)
			if !s.Res {
				c.SeqNum = append(c.SeqNum, s.numSet(false).(imap.SeqSet))
			}
		}
	}
	if g.p(25) {
		for i := r.Intn(2); i >= 0; i-- {
			c.UID = append(c.UID, g.set(true).numSet(true).(imap.UIDSet))
		}
	}
	if g.p(40) {
		c.Since, c.Before = g.datePair()
	}
	if g.p(25) {
		c.SentSince, c.SentBefore = g.datePair()
	}
	if g.p(35) {
		for i := r.Intn(3); i >= 0; i-- {
			c.Header = append(c.Header, imap.SearchCriteriaHeaderField{Key: c02HeaderKeys[r.Intn(len(c02HeaderKeys))], Value: g.str()})
		}
	}
	if g.p(25) {
		for i := r.Intn(2); i >= 0; i-- {
			c.Body = append(c.Body, g.str())
		}
	}
	if g.p(25) {
		for i := r.Intn(2); i >= 0; i-- {
			c.Text = append(c.Text, g.str())
		}
	}
	if g.p(35) {
		c.Flag = g.flags(3)
	}
	if g.p(35) {
		c.NotFlag = g.flags(3)
	}
	if g.p(25) {
		c.Larger = []int64{1, 100, 4096, 9223372036854775807, 0, -1}[r.Intn(6)]
	}
	if g.p(25) {
		c.Smaller = []int64{1, 100, 4096, 9223372036854775807, 0, -5}[r.Intn(6)]
	}
	if g.p(2) {
		c.ModSeq = &imap.SearchCriteriaModSeq{ModSeq: uint64(r.Intn(3) * 7)}
		if g.p(50) {
			c.ModSeq.MetadataName, c.ModSeq.MetadataType = "/flags/\\draft", imap.SearchCriteriaMetadataAll
		}
	}
	if depth > 0 {
		if g.p(30) {
			for i := r.Intn(2); i >= 0; i-- {
				c.Not = append(c.Not, *g.criteria(depth - 1))
			}
		}
		if g.p(30) {
			for i := r.Intn(2); i >= 0; i-- {
				c.Or = append(c.Or, [2]imap.SearchCriteria{*g.criteria(depth - 1), *g.criteria(depth - 1)})
			}
		}
	}
	return c
}

func (g *c02Gen) part() []int {
	var p []int
	for i := g.rng.Intn(4); i > 0; i-- {
		switch g.rng.Intn(30) {
		case 0:
			p = append(p, 0)
		case 1:
			p = append(p, 4294967295)
		case 2:
			p = append(p, -1)
		case 3:
			p = append(p, 4294967296)
		default:
			p = append(p, 1+g.rng.Intn(12))
		}
	}
	return p
}
func (g *c02Gen) partial() *imap.SectionPartial {
	switch g.rng.Intn(12) {
	case 0, 1, 2:
		return &imap.SectionPartial{Offset: int64(g.rng.Intn(1000)), Size: int64(g.rng.Intn(5000))}
	case 3:
		return &imap.SectionPartial{Offset: 0, Size: 0}
	case 4:
		return &imap.SectionPartial{Offset: 9223372036854775807, Size: 9223372036854775807}
	case 5:
		if g.p(20) {
			return &imap.SectionPartial{Offset: -1, Size: 5}
		}
	}
	return nil
}

func (g *c02Gen) fetchOpts() *imap.FetchOptions {
	r := g.rng
	if g.p(3) {
		return nil
	}
	o := &imap.FetchOptions{Envelope: g.p(40), Flags: g.p(40), InternalDate: g.p(40), RFC822Size: g.p(40), UID: g.p(30)}
	if g.p(40) {
		o.BodyStructure = &imap.FetchItemBodyStructure{Extended: g.p(50)}
	}
	specs := []imap.PartSpecifier{imap.PartSpecifierNone, imap.PartSpecifierHeader, imap.PartSpecifierMIME, imap.PartSpecifierText}
	for i := r.Intn(4); i > 0; i-- {
		s := &imap.FetchItemBodySection{Specifier: specs[r.Intn(4)], Part: g.part(), Partial: g.partial(), Peek: g.p(50)}
		if s.Specifier == imap.PartSpecifierHeader && g.p(60) {
			var l []string
			for k := r.Intn(3); k >= 0; k-- {
				if g.p(70) {
					l = append(l, c02HeaderKeys[r.Intn(len(c02HeaderKeys))])
				} else {
					l = append(l, g.str())
				}
			}
			if g.p(50) {
				s.HeaderFields = l
			} else {
				s.HeaderFieldsNot = l
			}
		}
		switch r.Intn(60) {
		case 0:
			s.Specifier = "FOO"
		case 1:
			s.Specifier = "header"
		case 2:
			s.Specifier, s.HeaderFields = imap.PartSpecifierText, []string{"Subject"}
		case 3:
			s.Specifier, s.HeaderFields = imap.PartSpecifierNone, []string{"Subject"}
		case 4:
			s.Specifier, s.HeaderFields, s.HeaderFieldsNot = imap.PartSpecifierHeader, []string{"a"}, []string{"b"}
		}
		o.BodySection = append(o.BodySection, s)
	}
	if g.p(25) {
		for i := r.Intn(3); i > 0; i-- {
			o.BinarySection = append(o.BinarySection, &imap.FetchItemBinarySection{Part: g.part(), Partial: g.partial(), Peek: g.p(50)})
		}
	}
	if g.p(20) {
		for i := r.Intn(3); i > 0; i-- {
			o.BinarySectionSize = append(o.BinarySectionSize, &imap.FetchItemBinarySectionSize{Part: g.part()})
		}
	}
	if g.p(2) {
		o.ModSeq = true
	}
	if g.p(2) {
		o.ChangedSince = uint64(1 + r.Intn(99))
	}
	return o
}

func (g *c02Gen) statusOpts() *imap.StatusOptions {
	if g.p(4) {
		return nil
	}
	return &imap.StatusOptions{NumMessages: g.p(50), UIDNext: g.p(50), UIDValidity: g.p(50), NumUnseen: g.p(50), NumDeleted: g.p(50),
		Size: g.p(50), AppendLimit: g.p(30), DeletedStorage: g.p(30), HighestModSeq: g.p(3)}
}

func (g *c02Gen) listOpts() *imap.ListOptions {
	if g.p(25) {
		return nil
	}
	o := &imap.ListOptions{SelectSubscribed: g.p(40), SelectRemote: g.p(30), ReturnSubscribed: g.p(40), ReturnChildren: g.p(40)}
	if o.SelectSubscribed && g.p(50) {
		o.SelectRecursiveMatch = true
	}
	if g.p(3) {
		o.SelectRecursiveMatch = true
	}
	if g.p(40) {
		o.ReturnStatus = g.statusOpts()
	}
	if g.p(2) {
		o.SelectSpecialUse = true
	}
	if g.p(2) {
		o.ReturnSpecialUse = true
	}
	return o
}

func (g *c02Gen) searchOpts() *imap.SearchOptions {
	if g.p(40) {
		return nil
	}
	return &imap.SearchOptions{ReturnMin: g.p(40), ReturnMax: g.p(40), ReturnAll: g.p(40), ReturnCount: g.p(40), ReturnSave: g.p(40)}
}

func (g *c02Gen) payload() []byte {
	switch g.rng.Intn(14) {
	case 0:
		return nil
	case 1:
		return []byte("From: a@b\r\nSubject: hi\r\n\r\nT9 LOGOUT\r\n* BYE\r\n{5}\r\n")
	case 2:
		b := make([]byte, 256)
		for i := range b {
			b[i] = byte(i)
		}
		return b
	case 3:
		return []byte(strings.Repeat("p", 4096))
	case 4:
		return []byte(strings.Repeat("q", 4097))
	case 5:
		if g.thorough {
			return []byte(strings.Repeat("r", 70000))
		}
		return []byte(strings.Repeat("r", 9000))
	case 6:
		b := make([]byte, g.rng.Intn(300))
		g.rng.Read(b)
		return b
	}
	return []byte("Subject: test\r\n\r\nhello\r\n")
}

var c02Ops = []string{"Search", "Search", "Search", "Search", "Fetch", "Fetch", "Fetch", "List", "List", "Status", "Store", "Store", "Append",
	"Append", "Copy", "Move", "Select", "Create", "Delete", "Rename", "Subscribe", "Unsubscribe", "Login", "AuthPlain", "UIDExpunge", "Expunge", "Unselect", "Close"}

func (g *c02Gen) request() *c02Req {
	q := &c02Req{Op: c02Ops[g.rng.Intn(len(c02Ops))]}
	switch q.Op {
	case "Login", "AuthPlain":
		q.A, q.B = g.str(), g.str()
	case "Select":
		q.A, q.ReadOnly, q.CondStore = g.mailbox(), g.p(40), g.p(3)
	case "Create":
		q.A = g.mailbox()
		if g.p(50) {
			for i := g.rng.Intn(3); i >= 0; i-- {
				if g.p(3) {
					q.Attrs = append(q.Attrs, c02BadAttrs[g.rng.Intn(len(c02BadAttrs))])
				} else {
					q.Attrs = append(q.Attrs, c02AttrPool[g.rng.Intn(len(c02AttrPool))])
				}
			}
		}
	case "Delete", "Subscribe", "Unsubscribe":
		q.A = g.mailbox()
	case "Rename":
		q.A, q.B = g.mailbox(), g.mailbox()
	case "List":
		q.A = g.mailbox()
		pats := []string{"*", "%", "", "INBOX", "inbox", "a&b", "&", "&-", "R&D*", "été/%", "Sent*", "a b", "*]*", "日本*", "x\"y", "&AOk-", "%/%",
			strings.Repeat("é", 900), strings.Repeat("x", 4097)}
		q.B = pats[g.rng.Intn(len(pats))]
		if g.p(15) {
			q.B = g.mailbox()
		}
		q.LOpts = g.listOpts()
	case "Status":
		q.A, q.StOpts = g.mailbox(), g.statusOpts()
	case "Append":
		q.A, q.Payload = g.mailbox(), g.payload()
		if g.p(60) {
			q.Flags = g.flags(3)
		}
		if g.p(60) {
			q.Time = g.time()
		}
	case "UIDExpunge":
		q.Set = g.set(true)
	case "Search":
		q.UID = g.p(40)
		d := 2
		if g.thorough {
			d = 3
		}
		q.Crit, q.SrOpts = g.criteria(g.rng.Intn(d+1)), g.searchOpts()
	case "Fetch":
		q.UID = g.p(40)
		q.Set, q.FOpts = g.set(q.UID), g.fetchOpts()
	case "Store":
		q.UID = g.p(40)
		q.Set, q.StoreOp, q.Silent, q.Flags = g.set(q.UID), g.rng.Intn(3), g.p(50), g.flags(4)
		if g.p(2) {
			q.UnchangedSince = 12345
		}
	case "Copy", "Move":
		q.UID = g.p(40)
		q.Set, q.A = g.set(q.UID), g.mailbox()
	}
	return q
}

// ---- fixed corpus: inputs that broke or could break the property ------------------------------

func c02Corpus() []*c02Req {
	berlin, _ := time.LoadLocation("Europe/Berlin")
	if berlin == nil {
		berlin = time.UTC
	}
	sm := func(n int64) imap.SearchCriteria { return imap.SearchCriteria{Smaller: n} }
	deep := &imap.SearchCriteria{Body: []string{"x"}}
	for i := 0; i < 40; i++ {
		deep = &imap.SearchCriteria{Not: []imap.SearchCriteria{*deep}}
	}
	l := []*c02Req{
		// SEARCH RETURN (SAVE) and friends
		{Op: "Search", Crit: &imap.SearchCriteria{Flag: []imap.Flag{imap.FlagSeen}}, SrOpts: &imap.SearchOptions{ReturnSave: true}},
		{Op: "Search", UID: true, Crit: &imap.SearchCriteria{}, SrOpts: &imap.SearchOptions{ReturnSave: true, ReturnMin: true}},
		{Op: "Search", Crit: &imap.SearchCriteria{}, SrOpts: &imap.SearchOptions{ReturnCount: true}},
		// LIST reference / pattern with UTF-7-significant characters
		{Op: "List", A: "", B: "a&b"},
		{Op: "List", A: "", B: "&-"},
		{Op: "List", A: "R&D", B: "été*"},
		{Op: "List", A: "é", B: "%", LOpts: &imap.ListOptions{ReturnStatus: &imap.StatusOptions{NumMessages: true, NumDeleted: true, Size: true}}},
		{Op: "List", A: "", B: strings.Repeat("x", 5000)},
		{Op: "List", A: "", B: "*", LOpts: &imap.ListOptions{SelectSubscribed: true, SelectRecursiveMatch: true, SelectRemote: true, ReturnChildren: true, ReturnSubscribed: true}},
		{Op: "List", A: "", B: ""},
		// search keys merged by And on the server
		{Op: "Search", Crit: &imap.SearchCriteria{Smaller: 100, Not: []imap.SearchCriteria{sm(5)}}},
		{Op: "Search", Crit: &imap.SearchCriteria{Larger: 7, Smaller: 100, Or: [][2]imap.SearchCriteria{{sm(5), {Larger: 9}}}}},
		{Op: "Search", Crit: &imap.SearchCriteria{Not: []imap.SearchCriteria{{Not: []imap.SearchCriteria{{}}}}}},
		{Op: "Search", Crit: deep},
		// ON detection across a DST change / different zones
		{Op: "Search", Crit: &imap.SearchCriteria{Since: time.Date(2024, 3, 30, 23, 30, 0, 0, berlin), Before: time.Date(2024, 4, 1, 0, 30, 0, 0, berlin)}},
		{Op: "Search", Crit: &imap.SearchCriteria{SentSince: time.Date(2024, 10, 27, 0, 30, 0, 0, berlin), SentBefore: time.Date(2024, 10, 27, 23, 30, 0, 0, berlin)}},
		{Op: "Search", Crit: &imap.SearchCriteria{Since: time.Date(2024, 1, 1, 20, 0, 0, 0, time.FixedZone("", -5*3600)), Before: time.Date(2024, 1, 3, 1, 0, 0, 0, time.UTC)}},
		{Op: "Search", Crit: &imap.SearchCriteria{Since: time.Date(2024, 1, 1, 0, 0, 0, 0, time.UTC), Before: time.Date(2024, 1, 2, 0, 0, 0, 0, time.UTC)}},
		{Op: "Search", Crit: &imap.SearchCriteria{Since: time.Date(2024, 1, 1, 10, 0, 0, 0, time.UTC), Before: time.Date(2024, 1, 2, 9, 0, 0, 0, time.UTC)}},
		// header keys
		{Op: "Search", Crit: &imap.SearchCriteria{Header: []imap.SearchCriteriaHeaderField{{Key: "ſubject", Value: "x"}, {Key: "subject", Value: "y"}, {Key: "X-é", Value: "é"}}}},
		// unsupported keys must not turn into something else
		{Op: "Search", Crit: &imap.SearchCriteria{Not: []imap.SearchCriteria{{ModSeq: &imap.SearchCriteriaModSeq{ModSeq: 5}}}}},
		{Op: "Search", Crit: &imap.SearchCriteria{ModSeq: &imap.SearchCriteriaModSeq{ModSeq: 5}}},
		{Op: "Search", Crit: &imap.SearchCriteria{Or: [][2]imap.SearchCriteria{{{ModSeq: &imap.SearchCriteriaModSeq{ModSeq: 5}}, {Flag: []imap.Flag{"\\Seen"}}}}}},
		// flags in every spelling, $ marker
		{Op: "Search", UID: true, Crit: &imap.SearchCriteria{UID: []imap.UIDSet{imap.SearchRes()}, Flag: []imap.Flag{"\\seen", "\\Recent", "\\*", "$FORWARDED"}, NotFlag: []imap.Flag{"\\Seen", "\\recent"}}},
		{Op: "Store", UID: true, Set: c02Set{Res: true}, StoreOp: 1, Silent: true, Flags: []imap.Flag{"\\seen", "foo"}},
		{Op: "Store", Set: c02Set{Ranges: [][2]uint32{{1, 0}}}, StoreOp: 2, Flags: nil},
		{Op: "Store", Set: c02Set{Ranges: [][2]uint32{{4294967295, 4294967295}}}, StoreOp: 0, Flags: []imap.Flag{"\\Deleted"}, UnchangedSince: 7},
		// FETCH items
		{Op: "Fetch", Set: c02Set{Ranges: [][2]uint32{{1, 0}}}, FOpts: &imap.FetchOptions{BodyStructure: &imap.FetchItemBodyStructure{}, Flags: true,
			BodySection: []*imap.FetchItemBodySection{{}, {Specifier: imap.PartSpecifierHeader, Part: []int{1, 2}, HeaderFieldsNot: []string{"Subject", "a b", "FLAGS"}, Partial: &imap.SectionPartial{Offset: 0, Size: 10}, Peek: true},
				{Specifier: imap.PartSpecifierMIME, Part: []int{3}}, {Specifier: imap.PartSpecifierText, Peek: true}},
			BinarySection:     []*imap.FetchItemBinarySection{{Part: []int{1}, Partial: &imap.SectionPartial{Offset: 5, Size: 6}, Peek: true}, {}},
			BinarySectionSize: []*imap.FetchItemBinarySectionSize{{Part: []int{1, 2}}, {}}}},
		{Op: "Fetch", UID: true, Set: c02Set{Res: true}, FOpts: &imap.FetchOptions{BodyStructure: &imap.FetchItemBodyStructure{Extended: true}}},
		{Op: "Fetch", Set: c02Set{Ranges: [][2]uint32{{1, 1}}}, FOpts: &imap.FetchOptions{BodySection: []*imap.FetchItemBodySection{{HeaderFields: []string{"Subject"}}}}},
		{Op: "Fetch", Set: c02Set{Ranges: [][2]uint32{{1, 1}}}, FOpts: &imap.FetchOptions{ModSeq: true, Flags: true}},
		{Op: "Fetch", Set: c02Set{Ranges: [][2]uint32{{1, 1}}}, FOpts: &imap.FetchOptions{Flags: true, ChangedSince: 9}},
		{Op: "Fetch", Set: c02Set{Ranges: [][2]uint32{{1, 1}}}, FOpts: &imap.FetchOptions{BodySection: []*imap.FetchItemBodySection{{Part: []int{4294967296}, Peek: true}, {Part: []int{1, 4294967296}}}}},
		{Op: "Fetch", Set: c02Set{Ranges: [][2]uint32{{1, 1}}}, FOpts: &imap.FetchOptions{BodySection: []*imap.FetchItemBodySection{{Part: []int{4294967295, 0}, Partial: &imap.SectionPartial{Offset: 9223372036854775807, Size: 1}}}}},
		// STATUS items
		{Op: "Status", A: "INBOX", StOpts: &imap.StatusOptions{NumDeleted: true, Size: true, AppendLimit: true, DeletedStorage: true}},
		{Op: "Status", A: "x", StOpts: &imap.StatusOptions{NumMessages: true, HighestModSeq: true}},
		{Op: "Status", A: "x", StOpts: &imap.StatusOptions{}},
		// APPEND
		{Op: "Append", A: "Sent", Flags: []imap.Flag{"\\Seen", "x"}, Time: time.Date(2021, 7, 29, 19, 31, 1, 5, time.FixedZone("", -19800)), Payload: []byte("hello")},
		{Op: "Append", A: "Sent", Time: time.Date(2000, 1, 1, 0, 0, 0, 0, time.FixedZone("", 3600+17)), Payload: []byte("x")},
		{Op: "Append", A: "inbox", Payload: []byte(strings.Repeat("z", 5000))},
		{Op: "Append", A: "é", Time: time.Date(9, 1, 2, 3, 4, 5, 0, time.UTC), Payload: nil},
		// CREATE / LOGIN / SELECT
		{Op: "Create", A: "é", Attrs: []imap.MailboxAttr{"\\Sent", "\\drafts"}},
		{Op: "Login", A: "a\r\nb", B: "p w"},
		{Op: "AuthPlain", A: "us\"er é", B: "p w\r\n{3}"},
		{Op: "Login", A: "", B: "\xff\""},
		{Op: "Login", A: strings.Repeat("u", 4097), B: "p"},
		{Op: "Select", A: "x", CondStore: true},
		{Op: "Select", A: "inbox", ReadOnly: true},
		{Op: "Move", UID: true, Set: c02Set{Ranges: [][2]uint32{{1, 3}}}, A: "x"},
		{Op: "Copy", UID: true, Set: c02Set{Res: true}, A: "iNbOx"},
		{Op: "UIDExpunge", Set: c02Set{Res: true}},
		{Op: "Close"}, {Op: "Unselect"}, {Op: "Expunge"},
	}
	return l
}

// ---- run loop -----------------------------------------------------------------------------------

func c02CapTerm(caps []string) string {
	var it []string
	for _, c := range caps {
		it = append(it, coqHxS(c))
	}
	return coqList(it)
}

func c02SrOptsDiff(want, got *imap.SearchOptions) string {
	switch {
	case want.ReturnSave != got.ReturnSave:
		return "ReturnSave"
	case want.ReturnAll != got.ReturnAll:
		return "ReturnAll"
	case want.ReturnMin != got.ReturnMin:
		return "ReturnMin"
	case want.ReturnMax != got.ReturnMax:
		return "ReturnMax"
	case want.ReturnCount != got.ReturnCount:
		return "ReturnCount"
	}
	return "?"
}

func runC02(h *H) {
	h.Rule("a real imapclient.Client drives a real imapserver connection (TCP loopback) whose Session records every backend call with its typed arguments; requests = every client command the server implements (LOGIN, AUTHENTICATE PLAIN, SELECT/EXAMINE, CREATE, DELETE, RENAME, SUBSCRIBE, UNSUBSCRIBE, LIST, STATUS, APPEND, EXPUNGE, UID EXPUNGE, SEARCH, FETCH, STORE, COPY, MOVE incl. its COPY/STORE/EXPUNGE fallback, UNSELECT, CLOSE and the UID variants) with generated arguments (8-bit / CRLF / quote / NUL / UTF-7-significant strings, strings around the 4096-byte literal limit, number sets incl. * and $, all fetch-item / status / list / search-return subsets, search criteria trees up to depth 3 (40 in the corpus) with dates in many zones incl. DST changes and second-granular offsets, flags in all spellings, payloads around the literal thresholds, plus unsupported features (CONDSTORE, SPECIAL-USE) and malformed arguments) under 16 server configurations {IMAP4rev1, rev1+extensions, rev1+rev2, rev2} x {LITERAL+} x {UTF8=ACCEPT enabled}; a fixed corpus of the inputs that broke the property runs first in every configuration. Direct oracle (Go, from the property text, independent of the model): for well-formed arguments the recorded backend calls must equal the caller's arguments up to the allowed normalisation (INBOX case, canonical case of well-known flags/attributes, search dates as calendar days, header-key case of BCC/CC/FROM/SUBJECT/TO, UID implied by UID FETCH, no SEARCH return option = ALL, empty LIST pattern = no pattern, number sets by denotation, APPEND time to the second) and the command must complete; a request using a feature the server does not implement must deliver nothing; a malformed one must deliver nothing or the right thing; API misuse (range with Start > Stop, invalid UTF-8 name, negative size, header list without HEADER) is only required not to hang. Model correspondence (Coq, vm_compute): (cmd) the model client writes exactly the bytes the real client wrote (Go map iteration order read off the wire) and the model server, run on them, makes exactly the recorded calls; (srv) ~180 raw command lines in syntax the client never produces (atoms for strings, mixed case, FETCH macros, RFC822.*, bare STORE flags, several LIST patterns, UTF8 APPEND, malformed lines) sent to the real server x {LITERAL+}: the model server makes exactly the recorded calls. AUTHENTICATE PLAIN is checked by the direct oracle only. Non-trivial = request with at least one argument; distinct by command bytes.")
	configs := c02Configs()
	perCfg := h.Pick(140, 900)
	if env := os.Getenv("C02_PERCFG"); env != "" {
		fmt.Sscanf(env, "%d", &perCfg)
	}
	corr := h.NewCorr("cmd", []string{
		"From GoImap.Base Require Import Bytes.",
		"From GoImap.Model Require Import NumSet Wire Search ClientWrite CmdDate CmdTypes CmdClient CmdServer CmdCorr.",
	}, "c02_mismatches", h.Pick(330, 700)).Type("c02_case")
	corpus := c02Corpus()
	logf, _ := os.Create(filepath.Join(h.Out, "c02_wire.log"))
	defer logf.Close()

	for ci, cfg := range configs {
		env := newC02Env(cfg)
		gen := newC02Gen(newRand(h.Seed*7919+int64(ci)), h.Thorough())
		var reqs []*c02Req
		reqs = append(reqs, corpus...)
		for i := 0; i < perCfg; i++ {
			reqs = append(reqs, gen.request())
		}
		lp := false
		if _, ok := cfg.Caps[imap.CapLiteralPlus]; ok {
			lp = true
		}
		for ri, q := range reqs {
			desc := map[string]interface{}{"config": cfg.Name, "index": ri, "request": c02JSON(q)}
			h.InFlight(desc)
			obs, err := env.run(q)
			if err != nil {
				h.Note("config %s: could not prepare the connection for request %d: %v", cfg.Name, ri, err)
				env.drop()
				continue
			}
			capset := map[string]bool{}
			for _, c := range obs.Caps {
				capset[c] = true
			}
			exp := c02Expected(q, capset)
			desc["wire"] = string(obs.Wire)
			desc["client_error"] = obs.Err
			var got []string
			for i := range obs.Calls {
				got = append(got, c02CallTerm(&obs.Calls[i]))
			}
			desc["delivered"] = got
			fmt.Fprintf(logf, "%s #%d %s wf=%v sup=%v err=%q\n  %q\n  %v\n", cfg.Name, ri, q.Op, exp.WF, exp.Supported, obs.Err, obs.Wire, got)

			// ---- direct oracle ----
			key := ""
			if len(obs.Wire) > 0 && q.Op != "Expunge" && q.Op != "Unselect" && q.Op != "Close" {
				sum := sha1.Sum(obs.Wire[bytesIndexSpace(obs.Wire):])
				key = q.Op + string(sum[:])
			}
			h.Eval(key)
			h.Hist(q.Op)
			cls := "wf"
			if exp.Garbage {
				cls = "misuse"
			} else if !exp.Supported {
				cls = "unsupported"
			} else if !exp.WF {
				cls = "malformed"
			}
			h.Hist("class:" + cls)
			h.Hist("config:" + cfg.Name)
			if ri%97 == 0 {
				h.Sample(desc)
			}
			calls := obs.Calls
			if q.Op == "Select" && len(calls) > 1 && calls[0].Op == "Unselect" {
				calls = calls[1:] // selecting a mailbox closes the one that was selected
				got = got[1:]
			}
			switch {
			case obs.Hung:
				h.Fail("c02:"+q.Op+":hang", "the command did not complete within 8 s", desc)
			case exp.Garbage:
				// API misuse: only "does not hang" is demanded
			case !exp.Supported:
				if len(calls) > 0 {
					h.Fail("c02:"+q.Op+":unsupported-delivered", "a request using "+exp.Why+" (not implemented by the server) reached the backend as something else", desc)
				}
			default:
				faithful := len(calls) == len(exp.Calls)
				diff := ""
				if faithful {
					for i := range exp.Calls {
						if d := c02CallDiff(&exp.Calls[i], &calls[i]); d != "" {
							faithful = false
							diff = d
							if d == "searchoptions" {
								diff = "searchoptions." + c02SrOptsDiff(exp.Calls[i].SrOpts, calls[i].SrOpts)
							}
							break
						}
					}
				}
				switch {
				case faithful:
				case len(calls) == 0 && !exp.WF:
					// refused: fine for arguments the syntax cannot carry
				case len(calls) == 0:
					h.Fail("c02:"+q.Op+":not-delivered", "well-formed arguments did not reach the backend (client error: "+obs.Err+")", desc)
				case diff == "":
					h.Fail("c02:"+q.Op+":call-count", fmt.Sprintf("expected %d backend calls, got %d", len(exp.Calls), len(calls)), desc)
				default:
					what := "the backend received a different " + diff + " than the caller passed"
					if !exp.WF {
						what += " (malformed argument: " + exp.Why + ")"
					}
					h.Fail("c02:"+q.Op+":"+diff, what, desc)
				}
				if exp.WF && faithful && obs.Err != "" && q.Op != "Move" {
					h.Fail("c02:"+q.Op+":client-error", "delivered faithfully but the client reported "+obs.Err, desc)
				}
			}

			// ---- model correspondence ----
			if q.Op == "AuthPlain" {
				continue // SASL framing is not modelled: direct oracle only
			}
			cont := "(Some true)"
			if obs.Refused {
				cont = "(Some false)"
			}
			var ord []string
			for _, i := range c02Order(q, obs.Wire) {
				ord = append(ord, fmt.Sprintf("%d%%nat", i))
			}
			term := coqPair(
				fmt.Sprintf("(mkCcfg %s %s %s)", c02CapTerm(obs.Caps), coqBool(cfg.UTF8 && q.Op != "Login"), cont),
				coqBool(lp), coqList(ord), coqN(uint64(obs.FirstTag)), c02ReqTerm(q), coqHx(obs.Wire),
				coqBool(obs.Err != ""), coqList(got))
			corr.Add(term, desc)
		}
		env.close()
	}
	c02RunRaw(h)
	_ = sort.Strings
}

// ---- raw command lines against the real server (server model only) ----------------------------

func c02RawLines() []string {
	return []string{
		`LOGIN u p`, `login "u x" {3+}` + "\r\np w",
		`SELECT inbox`, `examine "Sent Items"`, `SELECT &AOk-`, `SELECT {5+}` + "\r\na\r\nbc", `SELECT &AOk`, `SELECT a b`,
		`CREATE x`, `CREATE x (USE (\Sent \drafts))`, `create x (use ())`, `CREATE x (FOO (\Sent))`, `CREATE x (USE (\Sent)`,
		`DELETE INBOX`, `RENAME a "b c"`, `SUBSCRIBE a`, `UNSUBSCRIBE a`, `RENAME a`,
		`STATUS x (MESSAGES)`, `status x (messages recent UIDNEXT)`, `STATUS x ()`, `STATUS x (HIGHESTMODSEQ)`, `STATUS x MESSAGES`,
		`LIST "" *`, `LIST "" %`, `LIST "" ""`, `LIST ref a*b%c]`, `LIST "" (a b "c d")`, `LIST "" ()`, `LIST "" ("")`, `LIST (SUBSCRIBED) "" *`,
		`LIST (subscribed remote) "" * RETURN (CHILDREN SUBSCRIBED)`, `LIST (RECURSIVEMATCH) "" *`, `LIST (SPECIAL-USE) "" *`,
		`LIST "" * RETURN (STATUS (MESSAGES RECENT))`, `LIST "" * return (status ())`, `LIST "" * RETURN (SPECIAL-USE)`, `LIST () "" *`,
		`LIST "" &AOk-*`, `LIST "" a&b`, `LIST "" {3+}` + "\r\na*b", `LIST "" *  `,
		`APPEND x {5+}` + "\r\nhello", `APPEND x (\Seen foo) {5+}` + "\r\nhello", `APPEND x () {0+}` + "\r\n",
		`APPEND x "29-Jul-2021 19:31:01 -0530" {2+}` + "\r\nhi", `APPEND x (\Seen) " 1-Jan-2000 00:00:00 +0000" {2+}` + "\r\nhi",
		`APPEND x "1-Jan-2000 00:00:00 +0000" {2+}` + "\r\nhi", `APPEND x "32-Jan-2000 00:00:00 +0000" {2+}` + "\r\nhi",
		`APPEND x UTF8 (~{2+}` + "\r\nhi)", `APPEND x ~{2+}` + "\r\nhi", `APPEND x FOO {2+}` + "\r\nhi", `APPEND x {5000+}` + "\r\n" + strings.Repeat("z", 5000),
		`EXPUNGE`, `UID EXPUNGE 1:*`, `UID EXPUNGE $`, `UID EXPUNGE`, `EXPUNGE 1`, `CLOSE`, `UNSELECT`, `close `,
		`COPY 1 x`, `UID COPY 1:3,5 "x y"`, `COPY $ x`, `MOVE 1,2 inbox`, `uid move * x`, `COPY 0 x`, `COPY 1:2:3 x`, `COPY 01 x`, `COPY 4294967296 x`,
		`STORE 1 FLAGS (\Seen)`, `STORE 1 +flags.silent (\seen $Junk)`, `STORE 1 -FLAGS \Deleted foo`, `STORE 1 FLAGS ()`, `UID STORE $ FLAGS.SILENT \Answered`,
		`STORE 1 +FLAGS`, `STORE 1 BLAGS (\Seen)`, `STORE 1 +-FLAGS (\Seen)`, `STORE 1 FLAGS.SILENT.SILENT (\Seen)`, `STORE 1 FLAGS (\Seen`, `STORE 1 FLAGS \*`,
		`FETCH 1 ALL`, `FETCH 1 FAST`, `fetch 1 full`, `FETCH 1 (ALL)`, `FETCH 1 FLAGS`, `FETCH 1 (flags uid)`, `UID FETCH 1 (FLAGS)`, `FETCH 1 BODY`, `FETCH 1 (BODY BODYSTRUCTURE)`,
		`FETCH 1 (BODYSTRUCTURE BODY)`, `FETCH 1 RFC822`, `FETCH 1 (RFC822.HEADER RFC822.TEXT RFC822.SIZE)`, `FETCH 1 BODY[]`, `FETCH 1 body.peek[header]<0.10>`,
		`FETCH 1 BODY[1.2.MIME]`, `FETCH 1 BODY[1.2.]`, `FETCH 1 BODY[1.]`, `FETCH 1 BODY[.1]`, `FETCH 1 BODY[HEADER.FIELDS (a "b c" {1+}` + "\r\nd)]", `FETCH 1 BODY[HEADER.FIELDS.NOT ()]`,
		`FETCH 1 BODY[HEADER.FIELDS]`, `FETCH 1 BODY[1.HEADER.FIELDS (x)]<5.0>`, `FETCH 1 BODY[TEXT]<1>`, `FETCH 1 BODY[FOO]`, `FETCH 1 BODY[4294967296]`, `FETCH 1 BODY[1.4294967296]`,
		`FETCH 1 BODY[0]`, `FETCH 1 BODY[1`, `FETCH 1 BINARY[1.2]<0.5>`, `FETCH 1 BINARY.PEEK[]`, `FETCH 1 BINARY.SIZE[3]`, `FETCH 1 BINARY[1.]`, `FETCH 1 BINARY[HEADER]`, `FETCH 1 BINARY.SIZE[4294967296]`,
		`FETCH 1 (FLAGS MODSEQ)`, `FETCH 1 (FLAGS) (CHANGEDSINCE 5)`, `FETCH 1 ()`, `FETCH 1 (FLAGS  UID)`, `FETCH 1:* (ENVELOPE INTERNALDATE)`, `FETCH $ FLAGS`, `FETCH 1 BODY.PEEK`, `FETCH 1 (BODY[]<0.9223372036854775808>)`,
		`SEARCH ALL`, `SEARCH 1:3`, `search all seen`, `SEARCH (ALL)`, `SEARCH ()`, `SEARCH (SEEN (UNSEEN (NEW)))`, `SEARCH NEW OLD RECENT`, `SEARCH UID 1:* $`, `SEARCH $`,
		`SEARCH KEYWORD foo UNKEYWORD \seen`, `SEARCH FROM a TO "b c" CC {1+}` + "\r\nd BCC e SUBJECT f", `SEARCH HEADER x y`, `SEARCH HEADER x`, `SEARCH BODY a TEXT b`,
		`SEARCH SINCE 1-Jan-2020`, `SEARCH BEFORE "1-jan-2020"`, `SEARCH ON 01-Jan-2020 SENTON 31-Dec-1999`, `SEARCH SINCE 1-Jan-2020 SINCE 5-Jan-2020 BEFORE 1-Feb-2020 BEFORE 1-Mar-2020`,
		`SEARCH SENTSINCE 29-Feb-2021`, `SEARCH SENTBEFORE 29-Feb-2020`, `SEARCH SINCE 1-Foo-2020`, `SEARCH SINCE 1-Jan-20`, `SEARCH ON 1-Jan-0001`,
		`SEARCH LARGER 5 LARGER 3 SMALLER 10 SMALLER 20`, `SEARCH SMALLER 100 NOT SMALLER 5`, `SEARCH LARGER 0`, `SEARCH LARGER 9223372036854775808`, `SEARCH LARGER -1`,
		`SEARCH NOT SEEN`, `SEARCH NOT (SEEN DELETED)`, `SEARCH NOT NOT SEEN`, `SEARCH OR SEEN DELETED`, `SEARCH OR (SEEN) (OR DELETED DRAFT)`, `SEARCH OR SEEN`, `SEARCH NOT`, `SEARCH NOT FOO`, `SEARCH OR FOO SEEN`, `SEARCH NOT MODSEQ 5`,
		`SEARCH RETURN () ALL`, `SEARCH RETURN (MIN MAX COUNT ALL SAVE) ALL`, `SEARCH RETURN (SAVE) ALL`, `SEARCH RETURN (FOO) ALL`, `search return (min) charset utf-8 all`, `SEARCH CHARSET US-ASCII ALL`,
		`SEARCH CHARSET latin1 ALL`, `SEARCH CHARSET "UTF-8" TEXT {2+}` + "\r\n\xc3\xa9", `UID SEARCH RETURN (COUNT) 1:* UNSEEN`, `SEARCH ALL `, `SEARCH  ALL`, `SEARCH FLAGGED UNFLAGGED ANSWERED UNANSWERED DRAFT UNDRAFT DELETED UNDELETED`,
		`SEARCH 1,2,3:5 4`, `SEARCH *`, `SEARCH 1:*`, `SEARCH UID *:1`, `SEARCH 0`, `SEARCH UNKNOWNKEY`, `NOOP`, `FOO`, `UID FOO 1`,
	}
}

func c02RunRaw(h *H) {
	corr := h.NewCorr("srv", []string{
		"From GoImap.Base Require Import Bytes.",
		"From GoImap.Model Require Import NumSet Wire Search ClientWrite CmdDate CmdTypes CmdClient CmdServer CmdCorr.",
	}, "srv_mismatches", 400).Type("srv_case")
	mk := func(caps ...imap.Cap) imap.CapSet {
		s := imap.CapSet{}
		for _, c := range caps {
			s[c] = struct{}{}
		}
		return s
	}
	for _, lp := range []bool{false, true} {
		caps := mk(imap.CapIMAP4rev1, imap.CapIMAP4rev2, imap.CapMove, imap.CapUIDPlus, imap.CapESearch, imap.CapSearchRes, imap.CapListExtended, imap.CapListStatus, imap.CapBinary, imap.CapCreateSpecialUse)
		if lp {
			caps[imap.CapLiteralPlus] = struct{}{}
		}
		env := newC02Env(c02Config{Name: "raw", Caps: caps})
		var rc *rawConn
		var ses *c02Session
		state := ""
		open := func(login bool) bool {
			if rc != nil {
				rc.Close()
			}
			c, err := net.Dial("tcp", env.ln.Addr().String())
			if err != nil {
				return false
			}
			rc = &rawConn{c: c, br: newBufReader(c)}
			if _, err := rc.greeting(); err != nil {
				return false
			}
			env.mu.Lock()
			ses = env.lastSes
			env.mu.Unlock()
			state = "notauth"
			if login {
				if _, _, err := rc.cmd("LOGIN u p"); err != nil {
					return false
				}
				if _, _, err := rc.cmd("SELECT INBOX"); err != nil {
					return false
				}
				state = "selected"
			}
			ses.take()
			return true
		}
		for i, line := range c02RawLines() {
			isLogin := strings.HasPrefix(strings.ToUpper(line), "LOGIN")
			if rc == nil || isLogin || state != "selected" {
				if !open(!isLogin) {
					h.Note("raw: cannot open a connection")
					break
				}
			}
			desc := map[string]interface{}{"raw": line, "literal_plus": lp, "index": i}
			h.InFlight(desc)
			_, tagged, err := rc.cmd(line)
			tag := fmt.Sprintf("T%d", rc.tag)
			calls := ses.take()
			up := strings.ToUpper(line)
			if strings.HasPrefix(up, "SELECT") || strings.HasPrefix(up, "EXAMINE") {
				if len(calls) > 1 && calls[0].Op == "Unselect" {
					calls = calls[1:]
				}
			}
			var got []string
			for k := range calls {
				got = append(got, c02CallTerm(&calls[k]))
			}
			desc["tagged"], desc["delivered"] = tagged, got
			h.Eval("raw" + line)
			h.Hist("raw")
			corr.Add(coqPair(coqBool(lp), coqHxS(tag+" "+line+"\r\n"), coqList(got)), desc)
			// keep the connection in the selected state for the next line
			if err != nil || respClass(tagged) != "OK" || strings.HasPrefix(up, "CLOSE") || strings.HasPrefix(up, "UNSELECT") || isLogin || strings.Contains(line, "5000") {
				state = ""
			}
		}
		if rc != nil {
			rc.Close()
		}
		env.close()
	}
}

func bytesIndexSpace(b []byte) int {
	for i, c := range b {
		if c == ' ' {
			return i
		}
	}
	return 0
}
