package main

import (
	"bufio"
	"encoding/json"
	"fmt"
	"os"
	"os/exec"
	"regexp"
	"sort"
	"strconv"
	"strings"
	"time"

	imap "github.com/emersion/go-imap/v2"
	shim "github.com/emersion/go-imap/v2/verifshim"
)

func init() {
	runners["C15"] = runC15
	runners["C15-child-nums"] = c15ChildNums
}

const max32 = 4294967295

type nsOp struct {
	Kind string      `json:"k"` // num | range | set
	A    uint32      `json:"a"`
	B    uint32      `json:"b"`
	Set  [][2]uint32 `json:"set,omitempty"`
}

func (o nsOp) coq() string {
	switch o.Kind {
	case "num":
		return fmt.Sprintf("AddNum %d", o.A)
	case "range":
		return fmt.Sprintf("AddRange %d %d", o.A, o.B)
	default:
		var rs []string
		for _, r := range o.Set {
			rs = append(rs, fmt.Sprintf("(%d, %d)", r[0], r[1]))
		}
		return "AddSet " + coqList(rs)
	}
}

// the three public flavours behind one interface
type nsImpl interface {
	apply(o nsOp)
	str() string
	dynamic() bool
	contains(q uint32) bool
	ranges() [][2]uint32
	nums() ([]uint32, bool)
	// argsChanged reports an argument of an earlier AddSet whose value has changed since
	// (the receiver must not alias the sets that were added to it)
	argsChanged() string
}

// argKeeper remembers the sets passed to AddSet and their text at that moment.
type argKeeper struct {
	cur  []func() string
	want []string
}

func (k *argKeeper) keep(f func() string) { k.cur = append(k.cur, f); k.want = append(k.want, f()) }
func (k *argKeeper) argsChanged() string {
	for i, f := range k.cur {
		if got := f(); got != k.want[i] {
			return fmt.Sprintf("the set %q passed to AddSet earlier now reads %q", k.want[i], got)
		}
	}
	return ""
}

type implNum struct {
	s shim.NumSet
	argKeeper
}

func (i *implNum) apply(o nsOp) {
	switch o.Kind {
	case "num":
		i.s.AddNum(o.A)
	case "range":
		i.s.AddRange(o.A, o.B)
	default:
		var t shim.NumSet
		for _, r := range o.Set {
			t = append(t, shim.NumRange{Start: r[0], Stop: r[1]})
		}
		i.s.AddSet(t)
		i.keep(func() string { return t.String() })
	}
}
func (i *implNum) str() string            { return i.s.String() }
func (i *implNum) dynamic() bool          { return i.s.Dynamic() }
func (i *implNum) contains(q uint32) bool { return i.s.Contains(q) }
func (i *implNum) nums() ([]uint32, bool) { return i.s.Nums() }
func (i *implNum) ranges() (out [][2]uint32) {
	for _, r := range i.s {
		out = append(out, [2]uint32{r.Start, r.Stop})
	}
	return
}

type implSeq struct {
	s imap.SeqSet
	argKeeper
}

func (i *implSeq) apply(o nsOp) {
	switch o.Kind {
	case "num":
		i.s.AddNum(o.A)
	case "range":
		i.s.AddRange(o.A, o.B)
	default:
		var t imap.SeqSet
		for _, r := range o.Set {
			t = append(t, imap.SeqRange{Start: r[0], Stop: r[1]})
		}
		i.s.AddSet(t)
		i.keep(func() string { return t.String() })
	}
}
func (i *implSeq) str() string            { return i.s.String() }
func (i *implSeq) dynamic() bool          { return i.s.Dynamic() }
func (i *implSeq) contains(q uint32) bool { return i.s.Contains(q) }
func (i *implSeq) nums() ([]uint32, bool) { return i.s.Nums() }
func (i *implSeq) ranges() (out [][2]uint32) {
	for _, r := range i.s {
		out = append(out, [2]uint32{r.Start, r.Stop})
	}
	return
}

type implUID struct {
	s imap.UIDSet
	argKeeper
}

func (i *implUID) apply(o nsOp) {
	switch o.Kind {
	case "num":
		i.s.AddNum(imap.UID(o.A))
	case "range":
		i.s.AddRange(imap.UID(o.A), imap.UID(o.B))
	default:
		var t imap.UIDSet
		for _, r := range o.Set {
			t = append(t, imap.UIDRange{Start: imap.UID(r[0]), Stop: imap.UID(r[1])})
		}
		i.s.AddSet(t)
		i.keep(func() string { return t.String() })
	}
}
func (i *implUID) str() string            { return i.s.String() }
func (i *implUID) dynamic() bool          { return i.s.Dynamic() }
func (i *implUID) contains(q uint32) bool { return i.s.Contains(imap.UID(q)) }
func (i *implUID) nums() ([]uint32, bool) {
	u, ok := i.s.Nums()
	var out []uint32
	for _, x := range u {
		out = append(out, uint32(x))
	}
	return out, ok
}
func (i *implUID) ranges() (out [][2]uint32) {
	for _, r := range i.s {
		out = append(out, [2]uint32{uint32(r.Start), uint32(r.Stop)})
	}
	return
}

func newImpl(flavour int) nsImpl {
	switch flavour {
	case 0:
		return &implNum{}
	case 1:
		return &implSeq{}
	default:
		return &implUID{}
	}
}

var flavourName = []string{"imapnum.Set", "imap.SeqSet", "imap.UIDSet"}

// ---- independent oracle: explicit membership over a probe universe ----------------------

func normRange(a, b uint32) (uint32, uint32) {
	// what a range *means*, independent of the implementation: endpoints in either order,
	// 0 = "*" is the largest element
	if a == 0 && b == 0 {
		return 0, 0
	}
	if a == 0 {
		return b, 0
	}
	if b == 0 {
		return a, 0
	}
	if b < a {
		return b, a
	}
	return a, b
}

// member reports whether probe q (0 = "*") belongs to the range a:b.
func member(a, b, q uint32) bool {
	lo, hi := normRange(a, b)
	if lo == 0 { // "*"
		return q == 0
	}
	if q == 0 {
		return hi == 0
	}
	return lo <= q && (hi == 0 || q <= hi)
}

func (o nsOp) member(q uint32) bool {
	switch o.Kind {
	case "num":
		return member(o.A, o.A, q)
	case "range":
		return member(o.A, o.B, q)
	default:
		for _, r := range o.Set {
			if member(r[0], r[1], q) {
				return true
			}
		}
		return false
	}
}

func staticSize(rs [][2]uint32) (uint64, bool) {
	// size counts the members of the static ranges only (Nums() enumerates them in order
	// before it meets a dynamic range)
	var n uint64
	static := true
	for _, r := range rs {
		if r[0] == 0 || r[1] == 0 {
			static = false
			continue
		}
		if r[1] >= r[0] {
			n += uint64(r[1]-r[0]) + 1
		}
	}
	return n, static
}

func touchesMax(rs [][2]uint32) bool {
	for _, r := range rs {
		if r[1] == max32 {
			return true
		}
	}
	return false
}

func canonical(rs [][2]uint32) string {
	for i, r := range rs {
		a, b := r[0], r[1]
		if a == 0 && b != 0 {
			return fmt.Sprintf("range %d has start * and stop %d", i, b)
		}
		if a != 0 && b != 0 && a > b {
			return fmt.Sprintf("range %d reversed", i)
		}
		if i+1 < len(rs) {
			if b == 0 {
				return fmt.Sprintf("dynamic range %d is not last", i)
			}
			na := rs[i+1][0]
			if na != 0 && !(uint64(b)+1 < uint64(na)) {
				return fmt.Sprintf("ranges %d and %d overlap, touch or are out of order", i, i+1)
			}
		}
	}
	return ""
}

var reSeqSet = regexp.MustCompile(`^(?:[1-9][0-9]*|\*)(?::(?:[1-9][0-9]*|\*))?(?:,(?:[1-9][0-9]*|\*)(?::(?:[1-9][0-9]*|\*))?)*$`)

// grammarParse is the independent RFC 3501 sequence-set recogniser.
func grammarParse(t string) ([][2]uint32, bool) {
	if !reSeqSet.MatchString(t) {
		return nil, false
	}
	var out [][2]uint32
	num := func(s string) (uint32, bool) {
		if s == "*" {
			return 0, true
		}
		v, err := strconv.ParseUint(s, 10, 64)
		if err != nil || v > max32 {
			return 0, false
		}
		return uint32(v), true
	}
	for _, e := range strings.Split(t, ",") {
		p := strings.SplitN(e, ":", 2)
		a, ok := num(p[0])
		if !ok {
			return nil, false
		}
		b := a
		if len(p) == 2 {
			if b, ok = num(p[1]); !ok {
				return nil, false
			}
		}
		out = append(out, [2]uint32{a, b})
	}
	return out, true
}

// ---- the run ------------------------------------------------------------------------------

type c15Step struct {
	Op       nsOp        `json:"op"`
	Str      string      `json:"str"`
	Dyn      bool        `json:"dyn"`
	Contains []bool      `json:"contains"`
	Ranges   [][2]uint32 `json:"ranges"`
	Nums     *[]uint32   `json:"nums,omitempty"`
	NumsOK   *bool       `json:"nums_ok,omitempty"`
}

func coqRanges(rs [][2]uint32) string {
	var out []string
	for _, r := range rs {
		out = append(out, fmt.Sprintf("(%d, %d)", r[0], r[1]))
	}
	return coqList(out)
}

func (s c15Step) coq() string {
	var cs []string
	for _, c := range s.Contains {
		cs = append(cs, coqBool(c))
	}
	nums := "None"
	if s.NumsOK != nil {
		if !*s.NumsOK {
			nums = "(Some None)"
		} else {
			var ns []string
			for _, n := range *s.Nums {
				ns = append(ns, coqN(uint64(n)))
			}
			nums = "(Some (Some " + coqList(ns) + "))"
		}
	}
	return fmt.Sprintf("(%s, %s, (%s, %s, %s, %s, %s))", s.Op.coq(), coqBool(s.NumsOK != nil),
		coqHxS(s.Str), coqBool(s.Dyn), coqList(cs), coqRanges(s.Ranges), nums)
}

type c15Deferred struct {
	Flavour int         `json:"flavour"`
	Ops     []nsOp      `json:"ops"`
	Ranges  [][2]uint32 `json:"ranges"`
}

type c15Run struct {
	h        *H
	corr     *CorrFile
	pcorr    *CorrFile
	deferred []c15Deferred // Nums() calls on sets touching 2^32-1: run in a child process
}

func probesFor(ops []nsOp) []uint32 {
	m := map[uint32]bool{}
	add := func(v uint32) {
		if v != 0 {
			m[v] = true
		}
	}
	for _, v := range []uint32{1, 2, 3, 4, 5, 6, 7, max32 - 2, max32 - 1, max32} {
		add(v)
	}
	var walk func(a uint32)
	walk = func(a uint32) {
		if a == 0 {
			return
		}
		add(a)
		add(a - 1)
		if a != max32 {
			add(a + 1)
		}
	}
	for _, o := range ops {
		walk(o.A)
		walk(o.B)
		for _, r := range o.Set {
			walk(r[0])
			walk(r[1])
		}
	}
	var out []uint32
	for v := range m {
		out = append(out, v)
	}
	sort.Slice(out, func(i, j int) bool { return out[i] < out[j] })
	if len(out) > 40 {
		// long sets: keep both ends of the number space (the 16 smallest, the 16 largest, which
		// include 2^32-3..2^32-1) and 8 evenly spaced probes in between
		mid := out[16 : len(out)-16]
		keep := append([]uint32(nil), out[:16]...)
		for k := 0; k < 8; k++ {
			keep = append(keep, mid[k*len(mid)/8])
		}
		keep = append(keep, out[len(out)-16:]...)
		out = keep[:0]
		for i, v := range keep {
			if i == 0 || v != keep[i-1] {
				out = append(out, v)
			}
		}
	}
	return out
}

// runOps drives one operation sequence through one flavour, applies the oracle after every
// step and records the observations for the model.
func (r *c15Run) runOps(flavour int, ops []nsOp, src string) {
	h := r.h
	probes := probesFor(ops)
	im := newImpl(flavour)
	var steps []c15Step
	nontrivial := false
	prevLen := 0
	for i, o := range ops {
		h.InFlight(map[string]interface{}{"flavour": flavourName[flavour], "ops": ops[:i+1]})
		im.apply(o)
		st := c15Step{Op: o, Str: im.str(), Dyn: im.dynamic(), Ranges: im.ranges()}
		for _, q := range probes {
			st.Contains = append(st.Contains, im.contains(q))
		}
		// merged or split: the number of ranges did not simply grow by the number inserted
		grow := 1
		if o.Kind == "set" {
			grow = len(o.Set)
		}
		if len(st.Ranges) != prevLen+grow {
			nontrivial = true
		}
		prevLen = len(st.Ranges)

		desc := map[string]interface{}{"flavour": flavourName[flavour], "ops": ops[:i+1]}
		// --- oracle ---
		if msg := canonical(st.Ranges); msg != "" {
			h.Fail("canon:"+msg, "set not canonical after insertions: "+msg, desc)
		}
		if msg := im.argsChanged(); msg != "" {
			h.Fail("argument-aliased", "an insertion into the receiver changed another set: "+msg, desc)
		}
		star := false
		for _, p := range ops[:i+1] {
			if p.member(0) {
				star = true
			}
		}
		if st.Dyn != star {
			h.Fail(fmt.Sprintf("dynamic:%v", st.Dyn), fmt.Sprintf("Dynamic()=%v but '*' inserted=%v", st.Dyn, star), desc)
		}
		for k, q := range probes {
			want := false
			for _, p := range ops[:i+1] {
				if p.member(q) {
					want = true
				}
			}
			if st.Contains[k] != want {
				h.Fail(fmt.Sprintf("contains:%v", st.Contains[k]), fmt.Sprintf("Contains(%d)=%v, union of insertions says %v", q, st.Contains[k], want), desc)
			}
		}
		if st.Str != "" {
			back, err := shim.ParseNumSet(st.Str)
			if err != nil || back.String() != st.Str || len(back) != len(st.Ranges) {
				h.Fail("string-roundtrip", fmt.Sprintf("String()=%q does not parse back to an equal set (err=%v)", st.Str, err), desc)
			}
		}
		// Nums(): directly when small and away from 2^32-1; in a guarded child otherwise
		// (a range ending at 2^32-1 makes a wrapping enumeration loop run forever, also
		// when a later range is dynamic)
		size, static := staticSize(st.Ranges)
		if touchesMax(st.Ranges) {
			if size <= 64 && (i == len(ops)-1 || h.Rng.Intn(4) == 0) {
				r.deferred = append(r.deferred, c15Deferred{flavour, append([]nsOp(nil), ops[:i+1]...), st.Ranges})
			}
		} else if !static && size <= 64 {
			_, ok := im.nums()
			f := false
			st.NumsOK = &f
			if ok {
				h.Fail("nums-dynamic-ok", "Nums() reports ok on a dynamic set", desc)
				t := true
				st.NumsOK = &t
				st.Nums = &[]uint32{}
			}
		} else if static && size <= 64 {
			nums, ok := im.nums()
			if nums == nil {
				nums = []uint32{}
			}
			st.Nums, st.NumsOK = &nums, &ok
			r.checkNums(nums, ok, st.Ranges, desc)
		}
		steps = append(steps, st)
	}
	key := ""
	if nontrivial {
		key = fmt.Sprintf("%d|%v", flavour, ops)
	}
	h.Eval(key)
	h.Hist("ops:" + src)
	h.Hist("flavour:" + flavourName[flavour])
	h.Hist(fmt.Sprintf("ops_len:%d", len(ops)))
	var ps, ss []string
	for _, q := range probes {
		ps = append(ps, coqN(uint64(q)))
	}
	for _, s := range steps {
		ss = append(ss, s.coq())
	}
	r.corr.Add("("+coqList(ps)+", "+coqList(ss)+")", map[string]interface{}{"flavour": flavourName[flavour], "ops": ops, "observed": steps, "probes": probes})
	if nontrivial {
		h.Sample(map[string]interface{}{"flavour": flavourName[flavour], "ops": ops, "final": steps[len(steps)-1].Str})
	}
}

func (r *c15Run) checkNums(nums []uint32, ok bool, rs [][2]uint32, desc interface{}) {
	if _, static := staticSize(rs); !static {
		if ok {
			r.h.Fail("nums-dynamic-ok", "Nums() reports ok on a dynamic set", desc)
		}
		return
	}
	if !ok {
		r.h.Fail("nums-static-notok", "Nums() reports !ok on a static set", desc)
		return
	}
	var want []uint32
	for _, x := range rs {
		for n := uint64(x[0]); n <= uint64(x[1]); n++ {
			want = append(want, uint32(n))
		}
	}
	if fmt.Sprint(want) != fmt.Sprint(nums) && !(len(want) == 0 && len(nums) == 0) {
		r.h.Fail("nums-wrong", fmt.Sprintf("Nums()=%v, members ascending are %v", nums, want), desc)
	}
}

func (r *c15Run) runParse(t string, src string) {
	h := r.h
	h.InFlight(map[string]interface{}{"parse": t})
	s, err := shim.ParseNumSet(t)
	seq, err2 := shim.ParseSeqSet(t)
	desc := map[string]interface{}{"parse": t}
	if (err == nil) != (err2 == nil) || (err == nil && seq.String() != s.String()) {
		h.Fail("parse-flavours-differ", "imapnum.ParseSet and imapwire.ParseSeqSet disagree", desc)
	}
	want, valid := grammarParse(t)
	term := "None"
	if err == nil {
		var rs [][2]uint32
		for _, x := range s {
			rs = append(rs, [2]uint32{x.Start, x.Stop})
		}
		term = fmt.Sprintf("(Some (%s, %s, %s))", coqHxS(s.String()), coqBool(s.Dynamic()), coqRanges(rs))
		if !valid {
			h.Fail("parse-accepts-invalid", fmt.Sprintf("ParseSet accepts %q which is not a sequence-set", t), desc)
		} else {
			if msg := canonical(rs); msg != "" {
				h.Fail("parse-canon:"+msg, "parsed set not canonical: "+msg, desc)
			}
			var ops []nsOp
			for _, w := range want {
				ops = append(ops, nsOp{Kind: "range", A: w[0], B: w[1]})
			}
			for _, q := range probesFor(ops) {
				m := false
				for _, o := range ops {
					if o.member(q) {
						m = true
					}
				}
				if s.Contains(q) != m {
					h.Fail("parse-members", fmt.Sprintf("parsed %q: Contains(%d)=%v, text says %v", t, q, s.Contains(q), m), desc)
				}
			}
			star := false
			for _, o := range ops {
				if o.member(0) {
					star = true
				}
			}
			if s.Dynamic() != star {
				h.Fail("parse-dynamic", fmt.Sprintf("parsed %q: Dynamic()=%v", t, s.Dynamic()), desc)
			}
		}
	} else if valid {
		h.Fail("parse-rejects-valid", fmt.Sprintf("ParseSet rejects valid sequence-set %q: %v", t, err), desc)
	}
	key := ""
	if valid && strings.ContainsAny(t, ":,") {
		key = "p|" + t
	}
	h.Eval(key)
	h.Hist("parse:" + src)
	if valid {
		h.Hist("parse_valid")
	} else {
		h.Hist("parse_invalid")
	}
	r.pcorr.Add("("+coqHxS(t)+", "+term+")", map[string]interface{}{"parse": t, "ok": err == nil})
}

func (r *c15Run) randEndpoint() uint32 {
	rng := r.h.Rng
	switch rng.Intn(10) {
	case 0:
		return 0
	case 1:
		return max32 - uint32(rng.Intn(4))
	case 2:
		return uint32(rng.Intn(1000)) + 1
	default:
		return uint32(rng.Intn(24)) + 1
	}
}

func (r *c15Run) randOp() nsOp {
	rng := r.h.Rng
	switch rng.Intn(6) {
	case 0, 1:
		return nsOp{Kind: "num", A: r.randEndpoint()}
	case 2, 3, 4:
		return nsOp{Kind: "range", A: r.randEndpoint(), B: r.randEndpoint()}
	default:
		// a set built through the API itself (so its ranges are well-formed)
		var t shim.NumSet
		for i := rng.Intn(4); i >= 0; i-- {
			t.AddRange(r.randEndpoint(), r.randEndpoint())
		}
		o := nsOp{Kind: "set"}
		for _, x := range t {
			o.Set = append(o.Set, [2]uint32{x.Start, x.Stop})
		}
		return o
	}
}

// longOps builds an operation sequence that makes a set of many entries (10 and more disjoint,
// non-adjacent ranges laid out with a stride, low in the number space or right below 2^32-1),
// inserted one by one and/or through AddSet arguments of many ranges, in ascending or shuffled
// order, with '*' or 'n:*' somewhere along the way, followed by a few wide insertions whose
// endpoints sit next to existing entries, at the uint32 boundary or at '*' (so that they absorb
// long runs of entries). The AddSet arguments are canonical by construction.
func (r *c15Run) longOps() []nsOp {
	rng := r.h.Rng
	n := 10 + rng.Intn(r.h.Pick(16, 40))
	stride := []uint32{2, 3, 5, 10}[rng.Intn(4)]
	base := uint32(1 + rng.Intn(4))
	if rng.Intn(4) == 0 {
		base = max32 - uint32(n)*stride - uint32(rng.Intn(4))
	}
	var ents [][2]uint32
	for i := 0; i < n; i++ {
		lo := base + uint32(i)*stride
		hi := lo
		if stride > 2 && rng.Intn(3) == 0 {
			hi = lo + uint32(rng.Intn(int(stride)-1))
		}
		ents = append(ents, [2]uint32{lo, hi})
	}
	top := ents[n-1][1]
	switch rng.Intn(4) {
	case 0: // lone '*'
		ents = append(ents, [2]uint32{0, 0})
	case 1: // n:* above everything
		if top < max32-8 {
			ents = append(ents, [2]uint32{top + 2 + uint32(rng.Intn(6)), 0})
		} else {
			ents = append(ents, [2]uint32{0, 0})
		}
	case 2: // '*' comes with the wide insertions, if at all
	}
	if rng.Intn(2) == 0 {
		rng.Shuffle(len(ents), func(i, j int) { ents[i], ents[j] = ents[j], ents[i] })
	}
	var ops []nsOp
	for len(ents) > 0 {
		k := 1
		if rng.Intn(3) > 0 {
			k = 1 + rng.Intn(20)
		}
		if k > len(ents) {
			k = len(ents)
		}
		chunk := append([][2]uint32(nil), ents[:k]...)
		ents = ents[k:]
		if k == 1 && rng.Intn(4) > 0 {
			e := chunk[0]
			switch {
			case e[0] == e[1]:
				ops = append(ops, nsOp{Kind: "num", A: e[0]})
			case rng.Intn(2) == 0:
				ops = append(ops, nsOp{Kind: "range", A: e[1], B: e[0]})
			default:
				ops = append(ops, nsOp{Kind: "range", A: e[0], B: e[1]})
			}
			continue
		}
		// a canonical argument: ascending, the dynamic entry last
		sort.Slice(chunk, func(i, j int) bool {
			a, b := chunk[i], chunk[j]
			if (a[1] == 0) != (b[1] == 0) {
				return b[1] == 0
			}
			return a[0] < b[0]
		})
		ops = append(ops, nsOp{Kind: "set", Set: chunk})
	}
	// wide insertions
	near := func() uint32 {
		o := ops[rng.Intn(len(ops))]
		v := o.A
		if o.Kind == "set" {
			v = o.Set[rng.Intn(len(o.Set))][rng.Intn(2)]
		} else if o.Kind == "range" && rng.Intn(2) == 0 {
			v = o.B
		}
		if v == 0 {
			return 0
		}
		switch rng.Intn(3) {
		case 0:
			if v > 1 {
				v--
			}
		case 1:
			if v < max32 {
				v++
			}
		}
		return v
	}
	far := func() uint32 {
		switch rng.Intn(6) {
		case 0:
			return 0
		case 1, 2:
			return max32
		case 3:
			return max32 - 1 - uint32(rng.Intn(2))
		default:
			return near()
		}
	}
	for k := 1 + rng.Intn(3); k > 0; k-- {
		a, b := near(), far()
		if rng.Intn(2) == 0 {
			a, b = b, a
		}
		switch rng.Intn(4) {
		case 0:
			ops = append(ops, nsOp{Kind: "num", A: a})
		case 1:
			var t shim.NumSet
			t.AddRange(a, b)
			o := nsOp{Kind: "set"}
			for _, x := range t {
				o.Set = append(o.Set, [2]uint32{x.Start, x.Stop})
			}
			ops = append(ops, o)
		default:
			ops = append(ops, nsOp{Kind: "range", A: a, B: b})
		}
	}
	return ops
}

// opsText renders an operation sequence as the sequence-set text that lists the same values.
func opsText(ops []nsOp) string {
	e := func(v uint32) string {
		if v == 0 {
			return "*"
		}
		return strconv.FormatUint(uint64(v), 10)
	}
	var parts []string
	one := func(a, b uint32) {
		if a == b {
			parts = append(parts, e(a))
		} else {
			parts = append(parts, e(a)+":"+e(b))
		}
	}
	for _, o := range ops {
		switch o.Kind {
		case "num":
			one(o.A, o.A)
		case "range":
			one(o.A, o.B)
		default:
			for _, x := range o.Set {
				one(x[0], x[1])
			}
		}
	}
	return strings.Join(parts, ",")
}

func runC15(h *H) {
	imports := []string{"From GoImap.Base Require Import Bytes.", "From GoImap.Model Require Import NumSet NumSetCorr."}
	r := &c15Run{h: h}
	r.corr = h.NewCorr("ops", imports, "ops_mismatches", 400).Type("ops_case")
	r.pcorr = h.NewCorr("parse", imports, "parse_mismatches", 1500).Type("parse_case")
	h.Rule("op sequences (AddNum/AddRange/AddSet) on imapnum.Set, imap.SeqSet and imap.UIDSet: corpus, exhaustive over endpoints {*,1,2,3,5,2^32-2,2^32-1} up to the tier's length, seeded random up to 40 ops, long sets (10 and more strided entries low or right below 2^32-1, inserted singly or through AddSet arguments of up to 20 ranges, ascending or shuffled, with * or n:*, then wide insertions next to entries, at 2^32-1 or *); ParseSet on all strings over {0,1,9,:,,,*} up to the tier's length plus corpus, mutated valid sets and the long value lists as text. Non-trivial = an insertion merged or split ranges (range count did not grow by the number of ranges inserted), or a valid parse input with ':' or ','; distinct by (flavour, ops) / text.")

	if h.Replay != "" {
		var c struct {
			Flavour string  `json:"flavour"`
			Ops     []nsOp  `json:"ops"`
			Parse   *string `json:"parse"`
		}
		b, _ := os.ReadFile(h.Replay)
		var wrap struct {
			Case json.RawMessage `json:"case"`
		}
		json.Unmarshal(b, &wrap)
		json.Unmarshal(wrap.Case, &c)
		if c.Parse != nil {
			r.runParse(*c.Parse, "replay")
		} else {
			for f := range flavourName {
				r.runOps(f, c.Ops, "replay")
			}
		}
		r.runDeferred()
		return
	}

	// 1. corpus (past failures and boundary cases first)
	corpus := [][]nsOp{
		{{Kind: "num", A: max32}},
		{{Kind: "range", A: max32 - 1, B: max32}, {Kind: "num", A: 0}},
		{{Kind: "range", A: 1, B: 3}, {Kind: "num", A: 0}, {Kind: "range", A: 5, B: max32}, {Kind: "num", A: 4}},
		{{Kind: "num", A: 1}, {Kind: "num", A: 3}, {Kind: "num", A: 5}, {Kind: "num", A: 7}, {Kind: "range", A: 2, B: 6}},
		{{Kind: "range", A: 0, B: 5}, {Kind: "num", A: 0}, {Kind: "num", A: 4}},
		{{Kind: "num", A: 0}, {Kind: "num", A: 3}, {Kind: "range", A: 4, B: 0}},
		{{Kind: "num", A: 1}, {Kind: "num", A: 4}, {Kind: "num", A: 2}},
		{{Kind: "num", A: 1}, {Kind: "num", A: 5}, {Kind: "num", A: 3}},
		{{Kind: "range", A: 10, B: 20}, {Kind: "set", Set: [][2]uint32{{1, 9}, {21, 30}, {40, 0}}}},
		{{Kind: "num", A: max32}, {Kind: "range", A: 7, B: 0}},
		{{Kind: "num", A: max32 - 1}, {Kind: "num", A: max32}, {Kind: "num", A: max32 - 2}},
	}
	for _, ops := range corpus {
		for f := range flavourName {
			r.runOps(f, ops, "corpus")
			r.runOps(f, []nsOp{{Kind: "set", Set: [][2]uint32{{1, 3}, {10, 10}}}, {Kind: "num", A: 4}, {Kind: "num", A: 9}, {Kind: "range", A: 2, B: 12}}, "corpus")
		}
	}
	// the SEARCHRES marker "$" is one particular value: empty sets of every provenance are not it
	{
		empties := map[string]imap.UIDSet{"nil": nil, "literal": {}, "make": make(imap.UIDSet, 0, 4), "truncated": imap.UIDSetNum(5)[:0]}
		for name, u := range empties {
			desc := map[string]interface{}{"empty_uid_set": name}
			h.InFlight(desc)
			if imap.IsSearchRes(u) || u.Dynamic() || u.String() != "" || u.Contains(1) {
				h.Fail("searchres-confused:"+name, fmt.Sprintf("an empty UID set (%s) is taken for the '$' marker: IsSearchRes=%v Dynamic=%v String=%q", name, imap.IsSearchRes(u), u.Dynamic(), u.String()), desc)
			}
			u.AddNum(7)
			if imap.IsSearchRes(u) || u.Dynamic() || u.String() != "7" {
				h.Fail("searchres-confused:"+name, fmt.Sprintf("after AddNum(7) on an empty UID set (%s): IsSearchRes=%v Dynamic=%v String=%q", name, imap.IsSearchRes(u), u.Dynamic(), u.String()), desc)
			}
			h.Eval("searchres|" + name)
		}
		m := imap.SearchRes()
		if !imap.IsSearchRes(m) || !m.Dynamic() || m.String() != "$" {
			h.Fail("searchres-marker", fmt.Sprintf("SearchRes(): IsSearchRes=%v Dynamic=%v String=%q", imap.IsSearchRes(m), m.Dynamic(), m.String()), nil)
		}
		var sq imap.SeqSet
		for _, q := range []imap.NumSet{sq, imap.SeqSet{}, imap.SeqSetNum(3)} {
			if imap.IsSearchRes(q) {
				h.Fail("searchres-confused:seqset", "a sequence set is taken for the '$' marker", nil)
			}
		}
		h.Eval("searchres|marker")
	}
	// 2. exhaustive small scope
	E := []uint32{0, 1, 2, 3, 5, max32 - 1, max32}
	var all []nsOp
	for _, a := range E {
		for _, b := range E {
			all = append(all, nsOp{Kind: "range", A: a, B: b})
		}
	}
	depth := h.Pick(2, 3)
	var rec func(prefix []nsOp)
	n := 0
	rec = func(prefix []nsOp) {
		if len(prefix) == depth {
			r.runOps(n%3, append([]nsOp(nil), prefix...), "exhaustive")
			n++
			return
		}
		for _, o := range all {
			rec(append(prefix, o))
		}
	}
	rec(nil)
	h.Note("exhaustive: all %d^%d AddRange sequences over endpoints %v (flavour rotated)", len(all), depth, E)
	// 3. random
	for i := 0; i < h.Pick(400, 6000); i++ {
		var ops []nsOp
		for k := 1 + h.Rng.Intn(h.Pick(14, 40)); k > 0; k-- {
			ops = append(ops, r.randOp())
		}
		r.runOps(i%3, ops, "random")
	}
	// 3b. long sets: many entries, AddSet arguments of many ranges, wide insertions over them
	var longTexts []string
	for i := 0; i < h.Pick(120, 2000); i++ {
		ops := r.longOps()
		r.runOps(i%3, ops, "long")
		if i%3 == 0 {
			longTexts = append(longTexts, opsText(ops))
		}
	}
	// 4. parser
	for _, t := range []string{"", "*", "1", "0", "01", "1:", ":1", "1,,2", "1,", ",1", "4294967295", "4294967296", "99999999999999999999",
		"4294967295:*", "*:4294967295", "*:*", "3:1", "1:2:3", "1:2,2:3,10", "+1", "-1", "1_0", " 1", "1 ", "1:*,*", "$", "1:4294967295",
		"2,4:7,9,12:*", "*:4,5:7", "1:0", "0:1", "1,2,3,4,5", "5,4,3,2,1", "1:3,2:4", "4294967294:4294967295,1",
		"5000000000", "1:5000000000", "4772185884", "8589934591", "8589934592", "9544371768", "9999999999", "4294967297", "42949672950", "18446744073709551616", "18446744073709551617"} {
		r.runParse(t, "corpus")
	}
	// numbers beyond 2^32-1 of every length (an overflow check that wraps would accept some)
	for i := 0; i < h.Pick(400, 6000); i++ {
		var v uint64
		switch h.Rng.Intn(3) {
		case 0:
			v = 4294967296 + uint64(h.Rng.Int63n(10000000000-4294967296))
		case 1:
			v = uint64(h.Rng.Int63n(1 << 62))
		default:
			v = 4294967296*uint64(1+h.Rng.Intn(9)) + uint64(h.Rng.Intn(1000))
		}
		t := strconv.FormatUint(v, 10)
		switch h.Rng.Intn(3) {
		case 1:
			t = "1:" + t
		case 2:
			t = t + ":*"
		}
		r.runParse(t, "overflow")
	}
	// the same long value lists as text
	for _, t := range longTexts {
		r.runParse(t, "long")
	}
	alpha := []byte("019:,*")
	plen := h.Pick(4, 6)
	var prec func(p []byte)
	prec = func(p []byte) {
		if len(p) > 0 {
			r.runParse(string(p), "exhaustive")
		}
		if len(p) == plen {
			return
		}
		for _, c := range alpha {
			prec(append(p, c))
		}
	}
	prec(nil)
	h.Note("parser exhaustive: all strings of length 1..%d over %q", plen, alpha)
	for i := 0; i < h.Pick(300, 5000); i++ {
		// mostly valid texts, 20% mutated
		var parts []string
		for k := 1 + h.Rng.Intn(6); k > 0; k-- {
			e := func() string {
				v := r.randEndpoint()
				if v == 0 {
					return "*"
				}
				return strconv.FormatUint(uint64(v), 10)
			}
			if h.Rng.Intn(2) == 0 {
				parts = append(parts, e())
			} else {
				parts = append(parts, e()+":"+e())
			}
		}
		t := strings.Join(parts, ",")
		if h.Rng.Intn(5) == 0 && len(t) > 0 {
			b := []byte(t)
			p := h.Rng.Intn(len(b))
			switch h.Rng.Intn(3) {
			case 0:
				b[p] = "0:,*x -+"[h.Rng.Intn(8)]
			case 1:
				b = append(b[:p], b[p+1:]...)
			default:
				b = append(b[:p], append([]byte{"0:,*9"[h.Rng.Intn(5)]}, b[p:]...)...)
			}
			t = string(b)
		}
		r.runParse(t, "random")
	}
	r.runDeferred()
}

// runDeferred evaluates Nums() on small static sets that contain 2^32-1 in a child process
// with a time and memory limit: on a tree where the enumeration loop wraps around, the
// call never returns and allocates without bound.
func (r *c15Run) runDeferred() {
	h := r.h
	if len(r.deferred) == 0 {
		return
	}
	if len(r.deferred) > 300 {
		r.deferred = r.deferred[:300]
	}
	in, _ := json.Marshal(r.deferred)
	self, _ := os.Executable()
	cmd := exec.Command("sh", "-c", "ulimit -v 3000000; exec \"$0\" C15-child-nums", self)
	cmd.Stdin = strings.NewReader(string(in))
	outPipe, _ := cmd.StdoutPipe()
	cmd.Stderr = nil
	if err := cmd.Start(); err != nil {
		h.Note("child start failed: %v", err)
		return
	}
	type res struct {
		I    int      `json:"i"`
		Nums []uint32 `json:"nums"`
		OK   bool     `json:"ok"`
	}
	results := make(chan res)
	begun := make(chan int, 1000)
	go func() {
		sc := bufio.NewScanner(outPipe)
		sc.Buffer(make([]byte, 1<<20), 1<<24)
		for sc.Scan() {
			line := sc.Text()
			if strings.HasPrefix(line, "BEGIN ") {
				i, _ := strconv.Atoi(line[6:])
				begun <- i
				continue
			}
			var x res
			if json.Unmarshal([]byte(line), &x) == nil {
				results <- x
			}
		}
		close(results)
	}()
	last := -1
	done := 0
	timeout := time.After(20 * time.Second)
loop:
	for {
		select {
		case i := <-begun:
			last = i
		case x, ok := <-results:
			if !ok {
				break loop
			}
			done++
			d := r.deferred[x.I]
			desc := map[string]interface{}{"flavour": flavourName[d.Flavour], "ops": d.Ops, "call": "Nums"}
			if x.Nums == nil {
				x.Nums = []uint32{}
			}
			r.checkNums(x.Nums, x.OK, d.Ranges, desc)
			h.Eval(fmt.Sprintf("nums-at-max|%d|%v", d.Flavour, d.Ops))
			h.Hist("nums_at_uint32_max")
		case <-timeout:
			break loop
		}
	}
	cmd.Process.Kill()
	cmd.Wait()
	if done < len(r.deferred) {
		i := last
		if i < 0 {
			i = 0
		}
		d := r.deferred[i]
		h.Fail("nums-nonterminating", fmt.Sprintf("Nums() on the static set %v (contains 2^32-1) did not return within the time/memory limit", d.Ranges),
			map[string]interface{}{"flavour": flavourName[d.Flavour], "ops": d.Ops, "call": "Nums"})
	}
}

func c15ChildNums(h *H) {
	var ds []c15Deferred
	json.NewDecoder(os.Stdin).Decode(&ds)
	w := bufio.NewWriter(os.Stdout)
	for i, d := range ds {
		fmt.Fprintf(w, "BEGIN %d\n", i)
		w.Flush()
		im := newImpl(d.Flavour)
		for _, o := range d.Ops {
			im.apply(o)
		}
		nums, ok := im.nums()
		b, _ := json.Marshal(map[string]interface{}{"i": i, "nums": nums, "ok": ok})
		w.Write(b)
		w.WriteString("\n")
		w.Flush()
	}
	os.Exit(0)
}
