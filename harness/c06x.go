package main

// C06, second part: inputs that can take the whole server *process* down or make a command
// handler spin. A Go stack overflow ("fatal error: stack overflow") is not a panic: no recover
// catches it and it would kill the harness itself, so every probe runs in a child process
// (this binary re-executed as "C06-child-probe") and the parent turns a dead or silent child
// into a violation with the probe as failing input.

import (
	"bufio"
	"bytes"
	"encoding/json"
	"fmt"
	"io"
	"net"
	"os"
	"os/exec"
	"path/filepath"
	"strings"
	"time"
)

func init() {
	// c04.go registers the C06 runner; Go runs the init functions of a package in file-name
	// order, so it is already there. The extra probes run after the framing part.
	prev := runners["C06"]
	if prev == nil {
		panic("c06x.go: the C06 runner of c04.go is not registered yet")
	}
	runners["C06"] = func(h *H) {
		isProbe := h.Replay != "" && replayField(h.Replay, "probe") != ""
		if !isProbe {
			prev(h)
		}
		if h.Replay == "" || isProbe {
			runC06Probes(h)
		}
	}
	runners["C06-child-probe"] = c06ChildProbe
}

// c06Probe is one process-level probe: a byte stream for a fresh connection.
type c06Probe struct {
	Probe  string `json:"probe"`  // name, also the failure signature suffix
	Server string `json:"server"` // "stub" (recording session, nobody logged in) | "mem" (imapmemserver)
	Unit   string `json:"unit"`   // repeated text
	Count  int    `json:"count"`  // how often
	Head   string `json:"head"`   // bytes before the repetition (may contain several commands)
	Tail   string `json:"tail"`   // bytes after it, ends the command
	Tag    string `json:"tag"`    // tag of the command under test
	// BoundMs: the tagged completion of the command under test and of the NOOP that follows
	// must both arrive within this time
	BoundMs int `json:"bound_ms"`
}

func (p c06Probe) stream() []byte {
	return []byte(p.Head + strings.Repeat(p.Unit, p.Count) + p.Tail + "Z9 NOOP\r\n")
}

type c06ProbeResult struct {
	Tagged    string `json:"tagged"`     // completion of the command under test ("" = none)
	ElapsedMs int64  `json:"elapsed_ms"` // until that completion
	Noop      string `json:"noop"`       // completion of the NOOP sent right behind it
	NoopMs    int64  `json:"noop_ms"`
	LogPanic  string `json:"log_panic"` // first line of a panic report in the server log
	Err       string `json:"err"`
}

func c06Probes(h *H) []c06Probe {
	notN, orN := 3000000, 1000000
	ps := []c06Probe{
		// search keys nested through NOT / OR: one recursion per key, no parenthesis involved.
		// Sent before any LOGIN: the server parses a command's arguments before it looks at
		// the connection state.
		{Probe: "search-not-nesting", Server: "stub", Head: "A1 SEARCH ", Unit: "NOT ", Count: notN, Tail: "ALL\r\n", Tag: "A1", BoundMs: 10000},
		{Probe: "search-or-nesting", Server: "stub", Head: "A1 SEARCH ", Unit: "OR ALL ", Count: orN, Tail: "ALL\r\n", Tag: "A1", BoundMs: 10000},
		{Probe: "search-not-nesting", Server: "stub", Head: "A1 UID SEARCH RETURN (MIN) CHARSET UTF-8 ", Unit: "not ", Count: 400000, Tail: "ALL\r\n", Tag: "A1", BoundMs: 10000},
		{Probe: "search-or-nesting", Server: "stub", Head: "L1 LOGIN u p\r\nL2 SELECT INBOX\r\nA1 SEARCH ", Unit: "OR (ALL) NOT ", Count: 300000, Tail: "ALL\r\n", Tag: "A1", BoundMs: 10000},
		// LIST pattern with many '*' against a name that almost matches
		{Probe: "list-wildcards", Server: "mem", Head: "L1 LOGIN u p\r\nL2 CREATE " + strings.Repeat("a", 40) + "\r\nA1 LIST \"\" ", Unit: "*a", Count: 20, Tail: "b\r\n", Tag: "A1", BoundMs: 2000},
		{Probe: "list-wildcards", Server: "mem", Head: "L1 LOGIN u p\r\nL2 CREATE " + strings.Repeat("a/", 30) + "a\r\nA1 LIST \"\" ", Unit: "%/*", Count: 24, Tail: "b\r\n", Tag: "A1", BoundMs: 2000},
		{Probe: "list-wildcards", Server: "mem", Head: "L1 LOGIN u p\r\nL2 CREATE " + strings.Repeat("ab", 100) + "\r\nA1 LIST " + strings.Repeat("ab", 3) + " ", Unit: "%a*b", Count: 60, Tail: "c\r\n", Tag: "A1", BoundMs: 2000},
	}
	if h.Thorough() {
		ps = append(ps,
			c06Probe{Probe: "search-not-nesting", Server: "stub", Head: "A1 SEARCH ", Unit: "NOT ", Count: 6000000, Tail: "ALL\r\n", Tag: "A1", BoundMs: 40000},
			c06Probe{Probe: "search-or-nesting", Server: "stub", Head: "A1 SEARCH ", Unit: "OR 1 ", Count: 3000000, Tail: "ALL\r\n", Tag: "A1", BoundMs: 40000},
			c06Probe{Probe: "list-wildcards", Server: "mem", Head: "L1 LOGIN u p\r\nL2 CREATE " + strings.Repeat("a", 200) + "\r\nA1 LIST \"\" ", Unit: "*a", Count: 100, Tail: "b\r\n", Tag: "A1", BoundMs: 2000})
	}
	return ps
}

func runC06Probes(h *H) {
	self, err := os.Executable()
	if err != nil {
		h.Note("process probes skipped: %v", err)
		return
	}
	probes := c06Probes(h)
	if h.Replay != "" {
		var wrap struct {
			Case c06Probe `json:"case"`
		}
		b, _ := os.ReadFile(h.Replay)
		json.Unmarshal(b, &wrap)
		probes = []c06Probe{wrap.Case}
	}
	dead := map[string]bool{}
	for i, p := range probes {
		if dead[p.Probe] {
			continue // one witness per family: the next one would cost the same long wait
		}
		h.InFlight(p)
		childOut := filepath.Join(h.Out, fmt.Sprintf("probe%d", i))
		in, _ := json.Marshal(p)
		cmd := exec.Command(self, "C06-child-probe", "-out", childOut)
		cmd.Stdin = bytes.NewReader(in)
		var stdout, stderr bytes.Buffer
		cmd.Stdout, cmd.Stderr = &stdout, &stderr
		t0 := time.Now()
		if err := cmd.Start(); err != nil {
			h.Note("probe child did not start: %v", err)
			continue
		}
		done := make(chan error, 1)
		go func() { done <- cmd.Wait() }()
		var werr error
		killed := false
		select {
		case werr = <-done:
		case <-time.After(time.Duration(2*p.BoundMs)*time.Millisecond + 60*time.Second):
			cmd.Process.Kill()
			werr = <-done
			killed = true
		}
		os.RemoveAll(childOut)
		wall := time.Since(t0)
		h.Eval(fmt.Sprintf("probe|%s|%s|%d|%s", p.Probe, p.Unit, p.Count, p.Head))
		h.Hist("src:process-probe-" + p.Probe)
		var res c06ProbeResult
		haveRes := false
		for _, l := range strings.Split(stdout.String(), "\n") {
			if strings.HasPrefix(l, "RESULT ") && json.Unmarshal([]byte(l[7:]), &res) == nil {
				haveRes = true
			}
		}
		desc := map[string]interface{}{"probe": p.Probe, "server": p.Server, "head": p.Head, "unit": p.Unit, "count": p.Count,
			"tail": p.Tail, "tag": p.Tag, "bound_ms": p.BoundMs, "child_wall_ms": wall.Milliseconds()}
		what := fmt.Sprintf("%q + %q x %d + %q", p.Head, p.Unit, p.Count, p.Tail)
		if !haveRes {
			fatal := ""
			for _, l := range strings.Split(stderr.String(), "\n") {
				if strings.HasPrefix(l, "fatal error:") || strings.HasPrefix(l, "runtime: goroutine stack exceeds") || strings.HasPrefix(l, "panic:") {
					fatal += l + "; "
				}
			}
			desc["child_exit"] = fmt.Sprint(werr)
			desc["child_stderr_head"] = firstBytes(stderr.String(), 600)
			dead[p.Probe] = true
			if killed {
				h.Fail("server-process-hang:"+p.Probe, "the server process neither answered nor ended while handling "+what, desc)
			} else {
				h.Fail("server-process-crash:"+p.Probe, fmt.Sprintf("the whole server process died (%v; %s) while handling %s", werr, strings.TrimSpace(fatal), what), desc)
			}
			continue
		}
		desc["result"] = res
		if res.LogPanic != "" {
			h.Fail("server-panic", "server log reports a panic: "+res.LogPanic, desc)
		}
		bound := int64(p.BoundMs)
		if res.Tagged == "" || res.ElapsedMs > bound {
			dead[p.Probe] = true
			h.Fail("command-spins:"+p.Probe, fmt.Sprintf("no tagged completion within %d ms (waited %d ms, got %q) for %s", bound, res.ElapsedMs, res.Tagged, what), desc)
			continue
		}
		if res.Noop == "" || res.NoopMs > bound {
			h.Fail("connection-dead-after:"+p.Probe, fmt.Sprintf("the NOOP following the command was not completed within %d ms (err %q) after %s", bound, res.Err, what), desc)
		} else if !strings.HasPrefix(res.Noop, "Z9 OK") {
			h.Fail("connection-dead-after:"+p.Probe, fmt.Sprintf("the NOOP following the command was answered %q after %s", res.Noop, what), desc)
		}
	}
}

func firstBytes(s string, n int) string {
	if len(s) > n {
		return s[:n]
	}
	return s
}

// c06ChildProbe runs in the child process: real server, one connection, the probe's stream;
// prints "RESULT {json}" on stdout. A fatal runtime error ends the process before that line.
func c06ChildProbe(h *H) {
	var p c06Probe
	in, _ := io.ReadAll(os.Stdin)
	if err := json.Unmarshal(in, &p); err != nil {
		fmt.Println("RESULT {\"err\":\"bad probe\"}")
		return
	}
	var addr string
	var log *logBuf
	switch p.Server {
	case "mem":
		ms := startMemServer(nil, false)
		addr, log = ms.ln.Addr().String(), ms.log
	default:
		ts := startServer(srvOpts{InsecureAuth: true})
		addr, log = ts.ln.Addr().String(), ts.log
	}
	var res c06ProbeResult
	emit := func() {
		if s := log.String(); strings.Contains(s, "panic") {
			res.LogPanic = firstLine(s[strings.Index(s, "panic"):])
		}
		b, _ := json.Marshal(res)
		fmt.Println("RESULT " + string(b))
	}
	c, err := net.Dial("tcp", addr)
	if err != nil {
		res.Err = err.Error()
		emit()
		return
	}
	br := bufio.NewReaderSize(c, 1<<16)
	c.SetReadDeadline(time.Now().Add(5 * time.Second))
	if _, err := br.ReadString('\n'); err != nil {
		res.Err = "greeting: " + err.Error()
		emit()
		return
	}
	stream := p.stream()
	cmdStart := len(stream) - len(p.Tag+" ") // recomputed below
	if i := strings.LastIndex(p.Head, p.Tag+" "); i >= 0 {
		cmdStart = i
	}
	// the commands in front of the one under test are sent and answered first, so that the
	// time bound covers the command under test alone
	pre := stream[:cmdStart]
	if len(pre) > 0 {
		c.Write(pre)
		want := strings.Count(string(pre), "\r\n")
		for got := 0; got < want; {
			c.SetReadDeadline(time.Now().Add(5 * time.Second))
			l, err := br.ReadString('\n')
			if err != nil {
				res.Err = "setup: " + err.Error()
				emit()
				return
			}
			if !strings.HasPrefix(l, "* ") && !strings.HasPrefix(l, "+ ") {
				got++
			}
		}
	}
	t0 := time.Now()
	go func() {
		c.Write(stream[cmdStart:])
	}()
	deadline := t0.Add(time.Duration(2*p.BoundMs) * time.Millisecond)
	for {
		c.SetReadDeadline(deadline)
		l, err := br.ReadString('\n')
		if err != nil {
			res.Err = err.Error()
			if res.Tagged == "" {
				res.ElapsedMs = time.Since(t0).Milliseconds()
			} else {
				res.NoopMs = time.Since(t0).Milliseconds() - res.ElapsedMs
			}
			break
		}
		l = strings.TrimRight(l, "\r\n")
		if strings.HasPrefix(l, p.Tag+" ") && res.Tagged == "" {
			res.Tagged = firstBytes(l, 200)
			res.ElapsedMs = time.Since(t0).Milliseconds()
		} else if strings.HasPrefix(l, "Z9 ") {
			res.Noop = firstBytes(l, 200)
			res.NoopMs = time.Since(t0).Milliseconds() - res.ElapsedMs
			break
		}
	}
	emit()
}
