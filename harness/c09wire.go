package main

// C09: raw connection with an independent response tokenizer, and the projection of the
// responses of one command onto the observables of the reference model (Model/MemRef.v).
// Nothing here uses go-imap's own decoder.

import (
	"bufio"
	"fmt"
	"io"
	"net"
	"sort"
	"strconv"
	"strings"
	"time"
)

// ---- tokens --------------------------------------------------------------------------------------

type c09Tok struct {
	K string // "atom", "str" (quoted or literal), "(", ")", "[", "]"
	V string
}

// one response: either a status response (tagged or untagged OK/NO/BAD/BYE/PREAUTH) or data
type c09Resp struct {
	Raw    string   // wire bytes (literals included), for replays
	Tag    string   // "*" or the tag, "+" for a continuation request
	Status string   // OK NO BAD BYE PREAUTH, "" for data
	Code   []c09Tok // tokens between [ and ] of a status response
	Text   string
	Toks   []c09Tok // data response: tokens after the leading "*"
}

type c09Conn struct {
	c   net.Conn
	br  *bufio.Reader
	tag int
	log []string // transcript
}

func c09Dial(addr string) (*c09Conn, error) {
	c, err := net.Dial("tcp", addr)
	if err != nil {
		return nil, err
	}
	cc := &c09Conn{c: c, br: bufio.NewReaderSize(c, 1<<16)}
	if _, err := cc.readResp(); err != nil {
		return nil, err
	}
	return cc, nil
}

func (cc *c09Conn) Close() { cc.c.Close() }

func (cc *c09Conn) rawLine() (string, error) {
	cc.c.SetReadDeadline(time.Now().Add(10 * time.Second))
	l, err := cc.br.ReadString('\n')
	if err != nil {
		return l, err
	}
	if !strings.HasSuffix(l, "\r\n") {
		return l, fmt.Errorf("response line without CRLF: %q", l)
	}
	return l[:len(l)-2], nil
}

// lexLine tokenizes one physical line; lit = size of the literal announced at its end (-1: none)
func c09LexLine(s string, toks []c09Tok) ([]c09Tok, int, error) {
	i := 0
	for i < len(s) {
		ch := s[i]
		switch {
		case ch == ' ':
			i++
		case ch == '(' || ch == ')' || ch == '[' || ch == ']':
			toks = append(toks, c09Tok{string(ch), ""})
			i++
		case ch == '"':
			var sb strings.Builder
			i++
			closed := false
			for i < len(s) {
				if s[i] == '\\' && i+1 < len(s) {
					sb.WriteByte(s[i+1])
					i += 2
					continue
				}
				if s[i] == '"' {
					closed = true
					i++
					break
				}
				sb.WriteByte(s[i])
				i++
			}
			if !closed {
				return toks, -1, fmt.Errorf("unterminated quoted string in %q", s)
			}
			toks = append(toks, c09Tok{"str", sb.String()})
		case ch == '{' || (ch == '~' && i+1 < len(s) && s[i+1] == '{'):
			j := strings.IndexByte(s[i:], '}')
			if j < 0 || i+j != len(s)-1 {
				return toks, -1, fmt.Errorf("bad literal announcement in %q", s)
			}
			num := s[i+1 : i+j]
			num = strings.TrimPrefix(num, "{")
			n, err := strconv.Atoi(num)
			if err != nil || n < 0 {
				return toks, -1, fmt.Errorf("bad literal size in %q", s)
			}
			return toks, n, nil
		default:
			j := i
			for j < len(s) && !strings.ContainsRune(" ()[]\"", rune(s[j])) {
				j++
			}
			toks = append(toks, c09Tok{"atom", s[i:j]})
			i = j
		}
	}
	return toks, -1, nil
}

func (cc *c09Conn) readResp() (*c09Resp, error) {
	l, err := cc.rawLine()
	if err != nil {
		return nil, err
	}
	r := &c09Resp{Raw: l}
	if strings.HasPrefix(l, "+") {
		r.Tag = "+"
		r.Text = strings.TrimPrefix(l[1:], " ")
		return r, nil
	}
	sp := strings.SplitN(l, " ", 3)
	if len(sp) < 2 {
		return nil, fmt.Errorf("malformed response %q", l)
	}
	r.Tag = sp[0]
	switch w := strings.ToUpper(sp[1]); w {
	case "OK", "NO", "BAD", "BYE", "PREAUTH":
		r.Status = w
		rest := ""
		if len(sp) == 3 {
			rest = sp[2]
		}
		if strings.HasPrefix(rest, "[") {
			end := strings.IndexByte(rest, ']')
			if end < 0 {
				return nil, fmt.Errorf("unterminated response code in %q", l)
			}
			toks, lit, err := c09LexLine(rest[1:end], nil)
			if err != nil || lit >= 0 {
				return nil, fmt.Errorf("bad response code in %q", l)
			}
			r.Code = toks
			rest = strings.TrimPrefix(rest[end+1:], " ")
		}
		r.Text = rest
		return r, nil
	}
	if r.Tag != "*" {
		return nil, fmt.Errorf("tagged response without status: %q", l)
	}
	// data response, possibly with literals
	line := l[2:]
	for {
		toks, lit, err := c09LexLine(line, r.Toks)
		if err != nil {
			return nil, err
		}
		r.Toks = toks
		if lit < 0 {
			return r, nil
		}
		buf := make([]byte, lit)
		cc.c.SetReadDeadline(time.Now().Add(10 * time.Second))
		if _, err := io.ReadFull(cc.br, buf); err != nil {
			return nil, err
		}
		r.Toks = append(r.Toks, c09Tok{"str", string(buf)})
		r.Raw += "\r\n" + string(buf)
		line, err = cc.rawLine()
		if err != nil {
			return nil, err
		}
		r.Raw += line
	}
}

// exchange sends one command (with an optional synchronising literal) and reads up to the
// tagged completion.  err != nil: the connection failed or sent something unparsable.
func (cc *c09Conn) exchange(line string, lit []byte) (tag string, un []*c09Resp, tagged *c09Resp, err error) {
	cc.tag++
	tag = fmt.Sprintf("T%d", cc.tag)
	cc.log = append(cc.log, "C: "+tag+" "+line)
	cc.c.SetWriteDeadline(time.Now().Add(10 * time.Second))
	if _, err = io.WriteString(cc.c, tag+" "+line+"\r\n"); err != nil {
		return
	}
	sent := lit == nil
	for {
		var r *c09Resp
		r, err = cc.readResp()
		if err != nil {
			cc.log = append(cc.log, "S: <"+err.Error()+">")
			return
		}
		cc.log = append(cc.log, "S: "+c09Clip(r.Raw))
		switch {
		case r.Tag == "+":
			if sent {
				err = fmt.Errorf("unexpected continuation request")
				return
			}
			sent = true
			if _, err = cc.c.Write(append(append([]byte{}, lit...), '\r', '\n')); err != nil {
				return
			}
		case r.Tag == tag:
			tagged = r
			return
		case r.Tag == "*":
			un = append(un, r)
			if r.Status == "BYE" {
				// the server is about to close; keep reading until it does
			}
		default:
			err = fmt.Errorf("response with foreign tag %q", r.Tag)
			return
		}
	}
}

func c09Clip(s string) string {
	if len(s) > 600 {
		return s[:600] + fmt.Sprintf("...(%d bytes)", len(s))
	}
	return s
}

// ---- observables (mirror of Model/MemRef.v: rcode, fitem, resp, result) ---------------------------

type c09Item struct {
	K     string // UID FLAGS DATE SIZE BODY OTHER
	N     uint64
	Flags []string
	T, Z  int64
	Label string
	Data  []byte
}

type c09Data struct {
	K                        string // CLOSED SELECT STATUS LIST SEARCH ESEARCH FETCH COPYUID
	Exists, UV, Next         uint64
	Flags, Perm              []string
	Name                     string
	Items                    [][2]string // STATUS: name, value ("" = NIL)
	Lsub                     bool
	Attrs                    []string
	Nums                     []uint64
	UID                      bool
	HasMin, HasMax, HasCount bool
	Min, Max, Count          uint64
	Seq                      uint64
	FItems                   []c09Item
	Src, Dst                 []uint64
}

type c09Result struct {
	Crash bool // connection closed / panic: no result
	Data  []c09Data
	Class int    // 0 OK 1 NO 2 BAD
	Code  string // "" none, atom, "APPENDUID", "COPYUID"
	UV    uint64
	UID   uint64
	Src   []uint64
	Dst   []uint64
}

const c09Epoch = 62135596800 // seconds from 0001-01-01 to 1970-01-01

func c09ExpandSet(s string) ([]uint64, error) {
	var out []uint64
	for _, e := range strings.Split(s, ",") {
		p := strings.SplitN(e, ":", 2)
		a, err := strconv.ParseUint(p[0], 10, 32)
		if err != nil {
			return nil, fmt.Errorf("bad set %q", s)
		}
		b := a
		if len(p) == 2 {
			if b, err = strconv.ParseUint(p[1], 10, 32); err != nil {
				return nil, fmt.Errorf("bad set %q", s)
			}
		}
		if b < a {
			a, b = b, a
		}
		if b-a > 100000 {
			return nil, fmt.Errorf("set too large %q", s)
		}
		for x := a; x <= b; x++ {
			out = append(out, x)
		}
	}
	return out, nil
}

func c09Num(t c09Tok) (uint64, error) {
	if t.K != "atom" {
		return 0, fmt.Errorf("number expected, got %v", t)
	}
	return strconv.ParseUint(t.V, 10, 64)
}

// list of atoms/strings between ( and ) starting at toks[i] == "("; returns values and next index
func c09FlatList(toks []c09Tok, i int) ([]string, int, error) {
	if i >= len(toks) || toks[i].K != "(" {
		return nil, i, fmt.Errorf("( expected")
	}
	i++
	var out []string
	for i < len(toks) && toks[i].K != ")" {
		if toks[i].K != "atom" && toks[i].K != "str" {
			return nil, i, fmt.Errorf("nested list not expected")
		}
		out = append(out, toks[i].V)
		i++
	}
	if i >= len(toks) {
		return nil, i, fmt.Errorf(") expected")
	}
	return out, i + 1, nil
}

// skip one balanced value
func c09SkipValue(toks []c09Tok, i int) (int, error) {
	if i >= len(toks) {
		return i, fmt.Errorf("value expected")
	}
	if toks[i].K != "(" {
		return i + 1, nil
	}
	depth := 0
	for i < len(toks) {
		switch toks[i].K {
		case "(":
			depth++
		case ")":
			depth--
			if depth == 0 {
				return i + 1, nil
			}
		}
		i++
	}
	return i, fmt.Errorf("unbalanced list")
}

func c09ParseFetch(toks []c09Tok) ([]c09Item, error) {
	// toks: ( item value ... )
	if len(toks) < 2 || toks[0].K != "(" || toks[len(toks)-1].K != ")" {
		return nil, fmt.Errorf("FETCH list expected")
	}
	toks = toks[1 : len(toks)-1]
	var items []c09Item
	i := 0
	for i < len(toks) {
		if toks[i].K != "atom" {
			return nil, fmt.Errorf("FETCH item name expected, got %v", toks[i])
		}
		name := strings.ToUpper(toks[i].V)
		i++
		switch name {
		case "UID", "RFC822.SIZE":
			if i >= len(toks) {
				return nil, fmt.Errorf("%s value missing", name)
			}
			n, err := c09Num(toks[i])
			if err != nil {
				return nil, err
			}
			i++
			k := "UID"
			if name != "UID" {
				k = "SIZE"
			}
			items = append(items, c09Item{K: k, N: n})
		case "FLAGS":
			fl, j, err := c09FlatList(toks, i)
			if err != nil {
				return nil, err
			}
			i = j
			sort.Strings(fl)
			items = append(items, c09Item{K: "FLAGS", Flags: fl})
		case "INTERNALDATE":
			if i >= len(toks) || toks[i].K != "str" {
				return nil, fmt.Errorf("INTERNALDATE string expected")
			}
			t, err := time.Parse("_2-Jan-2006 15:04:05 -0700", toks[i].V)
			if err != nil {
				return nil, err
			}
			_, off := t.Zone()
			items = append(items, c09Item{K: "DATE", T: t.Unix() + c09Epoch, Z: int64(off)})
			i++
		case "RFC822", "RFC822.HEADER", "RFC822.TEXT":
			if i >= len(toks) || toks[i].K != "str" {
				return nil, fmt.Errorf("%s string expected", name)
			}
			items = append(items, c09Item{K: "BODY", Label: name, Data: []byte(toks[i].V)})
			i++
		case "BODY", "BINARY":
			if i < len(toks) && toks[i].K == "[" {
				label := name + "["
				i++
				for i < len(toks) && toks[i].K != "]" {
					switch toks[i].K {
					case "atom":
						label += toks[i].V
						i++
					case "(":
						fl, j, err := c09FlatList(toks, i)
						if err != nil {
							return nil, err
						}
						i = j
						label += " (" + strings.Join(fl, " ") + ")"
					default:
						return nil, fmt.Errorf("unexpected token in section: %v", toks[i])
					}
				}
				if i >= len(toks) {
					return nil, fmt.Errorf("] expected")
				}
				i++
				label += "]"
				if i < len(toks) && toks[i].K == "atom" && strings.HasPrefix(toks[i].V, "<") {
					label += toks[i].V
					i++
				}
				if i >= len(toks) || (toks[i].K != "str" && !(toks[i].K == "atom" && toks[i].V == "NIL")) {
					return nil, fmt.Errorf("section data expected after %s", label)
				}
				items = append(items, c09Item{K: "BODY", Label: label, Data: []byte(toks[i].V)})
				if toks[i].K == "atom" {
					items[len(items)-1].Data = nil
					items[len(items)-1].Label += "=NIL"
				}
				i++
			} else {
				j, err := c09SkipValue(toks, i)
				if err != nil {
					return nil, err
				}
				i = j
				items = append(items, c09Item{K: "OTHER", Label: name})
			}
		default:
			j, err := c09SkipValue(toks, i)
			if err != nil {
				return nil, err
			}
			i = j
			items = append(items, c09Item{K: "OTHER", Label: name})
		}
	}
	return items, nil
}

// c09Project turns the responses of one command into the model's observables.
// kind: the command name (SELECT, EXAMINE, FETCH, STORE, ...); dropFlagUpdates: the FETCH command
// has a non-peek section, so FETCH responses without a section are the poll's flag updates.
func c09Project(kind, tag string, un []*c09Resp, tagged *c09Resp, dropFlagUpdates bool) (*c09Result, error) {
	res := &c09Result{}
	switch tagged.Status {
	case "OK":
		res.Class = 0
	case "NO":
		res.Class = 1
	case "BAD":
		res.Class = 2
	default:
		return nil, fmt.Errorf("tagged %s", tagged.Status)
	}
	if len(tagged.Code) > 0 {
		c := tagged.Code
		name := strings.ToUpper(c[0].V)
		switch name {
		case "APPENDUID":
			if len(c) != 3 {
				return nil, fmt.Errorf("bad APPENDUID")
			}
			res.Code = name
			var err error
			if res.UV, err = c09Num(c[1]); err != nil {
				return nil, err
			}
			if res.UID, err = c09Num(c[2]); err != nil {
				return nil, err
			}
		case "COPYUID":
			if len(c) != 4 {
				return nil, fmt.Errorf("bad COPYUID")
			}
			res.Code = name
			var err error
			if res.UV, err = c09Num(c[1]); err != nil {
				return nil, err
			}
			if res.Src, err = c09ExpandSet(c[2].V); err != nil {
				return nil, err
			}
			if res.Dst, err = c09ExpandSet(c[3].V); err != nil {
				return nil, err
			}
		default:
			res.Code = name
		}
	}
	var sel *c09Data
	isSelect := kind == "SELECT" || kind == "EXAMINE"
	for _, r := range un {
		if r.Status != "" {
			if r.Status == "BYE" {
				return nil, fmt.Errorf("BYE: %s", r.Text)
			}
			if r.Status != "OK" || len(r.Code) == 0 {
				continue // informational
			}
			switch strings.ToUpper(r.Code[0].V) {
			case "CLOSED":
				res.Data = append(res.Data, c09Data{K: "CLOSED"})
			case "UIDVALIDITY", "UIDNEXT":
				if !isSelect || len(r.Code) != 2 {
					return nil, fmt.Errorf("unexpected %s", r.Raw)
				}
				if sel == nil {
					sel = &c09Data{K: "SELECT"}
				}
				n, err := c09Num(r.Code[1])
				if err != nil {
					return nil, err
				}
				if strings.ToUpper(r.Code[0].V) == "UIDNEXT" {
					sel.Next = n
				} else {
					sel.UV = n
				}
			case "PERMANENTFLAGS":
				if !isSelect {
					return nil, fmt.Errorf("unexpected %s", r.Raw)
				}
				fl, _, err := c09FlatList(r.Code, 1)
				if err != nil {
					return nil, err
				}
				if sel == nil {
					sel = &c09Data{K: "SELECT"}
				}
				sel.Perm = fl // order as sent
			case "COPYUID":
				c := r.Code
				if len(c) != 4 {
					return nil, fmt.Errorf("bad COPYUID")
				}
				d := c09Data{K: "COPYUID"}
				var err error
				if d.UV, err = c09Num(c[1]); err != nil {
					return nil, err
				}
				if d.Src, err = c09ExpandSet(c[2].V); err != nil {
					return nil, err
				}
				if d.Dst, err = c09ExpandSet(c[3].V); err != nil {
					return nil, err
				}
				res.Data = append(res.Data, d)
			}
			continue
		}
		t := r.Toks
		if len(t) == 0 {
			return nil, fmt.Errorf("empty data response")
		}
		if n, err := c09Num(t[0]); err == nil && len(t) >= 2 {
			switch strings.ToUpper(t[1].V) {
			case "EXISTS":
				if isSelect {
					if sel == nil {
						sel = &c09Data{K: "SELECT"}
					}
					sel.Exists = n
				}
			case "RECENT", "EXPUNGE":
			case "FETCH":
				items, err := c09ParseFetch(t[2:])
				if err != nil {
					return nil, fmt.Errorf("%v in %s", err, c09Clip(r.Raw))
				}
				hasBody := false
				for _, it := range items {
					if it.K == "BODY" {
						hasBody = true
					}
				}
				if kind != "FETCH" && kind != "STORE" {
					continue // unilateral flag update
				}
				if dropFlagUpdates && !hasBody {
					continue
				}
				res.Data = append(res.Data, c09Data{K: "FETCH", Seq: n, FItems: items})
			default:
				return nil, fmt.Errorf("unknown data response %s", c09Clip(r.Raw))
			}
			continue
		}
		switch strings.ToUpper(t[0].V) {
		case "FLAGS":
			fl, _, err := c09FlatList(t, 1)
			if err != nil {
				return nil, err
			}
			if isSelect {
				if sel == nil {
					sel = &c09Data{K: "SELECT"}
				}
				sel.Flags = fl // order as sent: the backend sorts them
			}
		case "SEARCH":
			d := c09Data{K: "SEARCH"}
			for _, x := range t[1:] {
				n, err := c09Num(x)
				if err != nil {
					return nil, err
				}
				d.Nums = append(d.Nums, n)
			}
			res.Data = append(res.Data, d)
		case "ESEARCH":
			d := c09Data{K: "ESEARCH"}
			i := 1
			if i < len(t) && t[i].K == "(" {
				l, j, err := c09FlatList(t, i)
				if err != nil {
					return nil, err
				}
				if len(l) != 2 || strings.ToUpper(l[0]) != "TAG" || l[1] != tag {
					return nil, fmt.Errorf("ESEARCH correlator %v does not name tag %s", l, tag)
				}
				i = j
			}
			for i < len(t) {
				k := strings.ToUpper(t[i].V)
				i++
				if k == "UID" {
					d.UID = true
					continue
				}
				if i >= len(t) {
					return nil, fmt.Errorf("ESEARCH %s without value", k)
				}
				switch k {
				case "ALL":
					nums, err := c09ExpandSet(t[i].V)
					if err != nil {
						return nil, err
					}
					d.Nums = nums
				case "MIN", "MAX", "COUNT":
					n, err := c09Num(t[i])
					if err != nil {
						return nil, err
					}
					switch k {
					case "MIN":
						d.HasMin, d.Min = true, n
					case "MAX":
						d.HasMax, d.Max = true, n
					default:
						d.HasCount, d.Count = true, n
					}
				default:
					return nil, fmt.Errorf("unknown ESEARCH item %s", k)
				}
				i++
			}
			res.Data = append(res.Data, d)
		case "STATUS":
			if len(t) < 3 {
				return nil, fmt.Errorf("bad STATUS")
			}
			d := c09Data{K: "STATUS", Name: t[1].V}
			l, _, err := c09FlatList(t, 2)
			if err != nil || len(l)%2 != 0 {
				return nil, fmt.Errorf("bad STATUS list")
			}
			for i := 0; i < len(l); i += 2 {
				v := l[i+1]
				if strings.ToUpper(v) == "NIL" {
					v = ""
				}
				d.Items = append(d.Items, [2]string{strings.ToUpper(l[i]), v})
			}
			res.Data = append(res.Data, d)
		case "LIST", "LSUB":
			attrs, j, err := c09FlatList(t, 1)
			if err != nil || j+1 >= len(t) {
				return nil, fmt.Errorf("bad LIST")
			}
			if t[j].V != "/" {
				return nil, fmt.Errorf("LIST delimiter %q", t[j].V)
			}
			sort.Strings(attrs)
			res.Data = append(res.Data, c09Data{K: "LIST", Lsub: strings.ToUpper(t[0].V) == "LSUB", Attrs: attrs, Name: t[j+1].V})
		default:
			return nil, fmt.Errorf("unknown data response %s", c09Clip(r.Raw))
		}
	}
	if sel != nil {
		res.Data = append(res.Data, *sel)
	}
	return res, nil
}

// ---- Coq rendering ----------------------------------------------------------------------------------

func c09Nums(l []uint64) string {
	var s []string
	for _, n := range l {
		s = append(s, coqN(n))
	}
	return coqList(s)
}
func c09Strs(l []string) string {
	var s []string
	for _, x := range l {
		s = append(s, coqHxS(x))
	}
	return coqList(s)
}
func c09OptN(has bool, n uint64) string {
	if has {
		return coqSome(coqN(n))
	}
	return "None"
}

func (d *c09Data) coq() string {
	switch d.K {
	case "CLOSED":
		return "RClosed"
	case "SELECT":
		return fmt.Sprintf("(RSelect %d %d %d %s %s)", d.Exists, d.UV, d.Next, c09Strs(d.Flags), c09Strs(d.Perm))
	case "STATUS":
		var it []string
		for _, kv := range d.Items {
			v := "None"
			if kv[1] != "" {
				v = coqSome(kv[1])
			}
			it = append(it, coqPair(coqHxS(kv[0]), v))
		}
		return fmt.Sprintf("(RStatus %s %s)", coqHxS(d.Name), coqList(it))
	case "LIST":
		return fmt.Sprintf("(RList %s %s %s)", coqBool(d.Lsub), c09Strs(d.Attrs), coqHxS(d.Name))
	case "SEARCH":
		return "(RSearch " + c09Nums(d.Nums) + ")"
	case "ESEARCH":
		return fmt.Sprintf("(RESearch %s %s %s %s %s)", coqBool(d.UID), c09Nums(d.Nums), c09OptN(d.HasMin, d.Min), c09OptN(d.HasMax, d.Max), c09OptN(d.HasCount, d.Count))
	case "FETCH":
		var it []string
		for _, x := range d.FItems {
			switch x.K {
			case "UID":
				it = append(it, fmt.Sprintf("FUid %d", x.N))
			case "SIZE":
				it = append(it, fmt.Sprintf("FSize %d", x.N))
			case "FLAGS":
				it = append(it, "FFlags "+c09Strs(x.Flags))
			case "DATE":
				it = append(it, fmt.Sprintf("FDate %s %s", coqZ(x.T), coqZ(x.Z)))
			case "BODY":
				it = append(it, fmt.Sprintf("FBody %s %s", coqHxS(x.Label), coqHx(x.Data)))
			default:
				it = append(it, fmt.Sprintf("FBody %s %s", coqHxS("?"+x.Label), coqHxS("")))
			}
		}
		return fmt.Sprintf("(RFetch %d %s)", d.Seq, coqList(it))
	case "COPYUID":
		return fmt.Sprintf("(RCopyUid %d %s %s)", d.UV, c09Nums(d.Src), c09Nums(d.Dst))
	}
	panic("c09Data kind " + d.K)
}

func (r *c09Result) coq() string {
	if r == nil || r.Crash {
		return "None"
	}
	var ds []string
	for i := range r.Data {
		ds = append(ds, r.Data[i].coq())
	}
	code := "CodeNone"
	switch r.Code {
	case "":
	case "APPENDUID":
		code = fmt.Sprintf("(CodeAppendUid %d %d)", r.UV, r.UID)
	case "COPYUID":
		code = fmt.Sprintf("(CodeCopyUid %d %s %s)", r.UV, c09Nums(r.Src), c09Nums(r.Dst))
	default:
		code = "(CodeAtom " + coqHxS(r.Code) + ")"
	}
	return fmt.Sprintf("(Some {| r_data := %s; r_class := %d; r_code := %s |})", coqList(ds), r.Class, code)
}
