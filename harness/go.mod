module verifharness

go 1.18

require (
	github.com/emersion/go-imap/v2 v2.0.0
	github.com/emersion/go-message v0.18.0
	github.com/emersion/go-sasl v0.0.0-20231106173351-e73c9f7bad43
	golang.org/x/text v0.14.0
)

require github.com/emersion/go-textwrapper v0.0.0-20200911093747-65d896831594 // indirect

replace github.com/emersion/go-imap/v2 => /repo
