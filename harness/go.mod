module verifharness

go 1.18

require github.com/emersion/go-imap/v2 v2.0.0

require golang.org/x/text v0.14.0 // indirect

replace github.com/emersion/go-imap/v2 => /repo
