package main

// C03: Go mirror of the Coq data types of Model/Resp*.v, conversions from/to the imap types,
// and Coq term printers.  A nil pointer/slice/map is the Coq None, a non-nil one Some.

import (
	"bytes"
	"crypto/sha1"
	"encoding/hex"
	"encoding/json"
	"fmt"
	"sort"
	"strings"
	"time"

	imap "github.com/emersion/go-imap/v2"
	"github.com/emersion/go-imap/v2/imapclient"
)

type c3Time struct {
	Sec  int64 `json:"sec"`
	Nsec int64 `json:"nsec"`
	Off  int   `json:"off"`
}

func c3TimeOf(t time.Time) c3Time {
	_, off := t.Zone()
	return c3Time{t.Unix(), int64(t.Nanosecond()), off}
}
func (t c3Time) coq() string {
	return fmt.Sprintf("(mkTime %s %d %s)", coqZ(t.Sec), t.Nsec, coqZ(int64(t.Off)))
}
func (t c3Time) goTime() time.Time {
	return time.Unix(t.Sec, t.Nsec).In(time.FixedZone("", t.Off))
}

type c3Addr struct{ Name, Mailbox, Host string }

func (a c3Addr) coq() string {
	return fmt.Sprintf("(mkAddr %s %s %s)", c3HxS(a.Name), c3HxS(a.Mailbox), c3HxS(a.Host))
}

type c3Env struct {
	Date                               c3Time
	Subject                            string
	From, Sender, ReplyTo, To, Cc, Bcc *[]c3Addr
	InReplyTo                          []string
	MsgID                              string
}

func coqOpt(present bool, s string) string {
	if !present {
		return "None"
	}
	return "(Some " + s + ")"
}
func c3Strs(l []string) string {
	var it []string
	for _, s := range l {
		it = append(it, c3HxS(s))
	}
	return coqList(it)
}
func coqAddrs(l *[]c3Addr) string {
	if l == nil {
		return "None"
	}
	var it []string
	for _, a := range *l {
		it = append(it, a.coq())
	}
	return "(Some " + coqList(it) + ")"
}
func (e *c3Env) coq() string {
	return fmt.Sprintf("(mkEnv %s %s %s %s %s %s %s %s %s %s)", e.Date.coq(), c3HxS(e.Subject),
		coqAddrs(e.From), coqAddrs(e.Sender), coqAddrs(e.ReplyTo), coqAddrs(e.To), coqAddrs(e.Cc), coqAddrs(e.Bcc),
		c3Strs(e.InReplyTo), c3HxS(e.MsgID))
}
func coqEnvOpt(e *c3Env) string {
	if e == nil {
		return "None"
	}
	return "(Some " + e.coq() + ")"
}

type c3KV struct{ K, V string }

func coqParams(p *[]c3KV) string {
	if p == nil {
		return "None"
	}
	var it []string
	for _, kv := range *p {
		it = append(it, coqPair(c3HxS(kv.K), c3HxS(kv.V)))
	}
	return "(Some " + coqList(it) + ")"
}

type c3Disp struct {
	Value  string
	Params *[]c3KV
}

func coqDisp(d *c3Disp) string {
	if d == nil {
		return "None"
	}
	return "(Some " + coqPair(c3HxS(d.Value), coqParams(d.Params)) + ")"
}
func coqLang(l *[]string) string {
	if l == nil {
		return "None"
	}
	return "(Some " + c3Strs(*l) + ")"
}

type c3Msg struct {
	Env   *c3Env
	Body  *c3BS
	Lines int64
}
type c3Ext struct { // single-part or multi-part extension data (Params only for multi-part)
	Params *[]c3KV
	Disp   *c3Disp
	Lang   *[]string
	Loc    string
}
type c3BS struct {
	Multi    bool    `json:"multi,omitempty"`
	Type     string  `json:"type,omitempty"`
	Subtype  string  `json:"subtype,omitempty"`
	Params   *[]c3KV `json:"params,omitempty"`
	ID       string  `json:"id,omitempty"`
	Desc     string  `json:"desc,omitempty"`
	Enc      string  `json:"enc,omitempty"`
	Size     uint32  `json:"size,omitempty"`
	Msg      *c3Msg  `json:"msg,omitempty"`
	Text     *int64  `json:"text,omitempty"`
	Ext      *c3Ext  `json:"ext,omitempty"`
	Children []*c3BS `json:"children,omitempty"`
}

func (b *c3BS) coq() string {
	if b.Multi {
		var ch []string
		for _, c := range b.Children {
			ch = append(ch, c.coq())
		}
		ext := "None"
		if b.Ext != nil {
			ext = fmt.Sprintf("(Some (mkMPX %s %s %s %s))", coqParams(b.Ext.Params), coqDisp(b.Ext.Disp), coqLang(b.Ext.Lang), c3HxS(b.Ext.Loc))
		}
		return fmt.Sprintf("(BMulti %s %s %s)", coqList(ch), c3HxS(b.Subtype), ext)
	}
	msg := "None"
	if b.Msg != nil {
		msg = fmt.Sprintf("(Some (%s, %s, %s))", coqEnvOpt(b.Msg.Env), b.Msg.Body.coq(), coqZ(b.Msg.Lines))
	}
	text := "None"
	if b.Text != nil {
		text = "(Some " + coqZ(*b.Text) + ")"
	}
	ext := "None"
	if b.Ext != nil {
		ext = fmt.Sprintf("(Some (mkSPX %s %s %s))", coqDisp(b.Ext.Disp), coqLang(b.Ext.Lang), c3HxS(b.Ext.Loc))
	}
	return fmt.Sprintf("(BSingle %s %s %s %s %s %s %d %s %s %s)", c3HxS(b.Type), c3HxS(b.Subtype), coqParams(b.Params),
		c3HxS(b.ID), c3HxS(b.Desc), c3HxS(b.Enc), b.Size, msg, text, ext)
}

type c3Section struct {
	Spec      string
	Part      []int
	Fields    []string
	NotFields []string
	Partial   *[2]int64
	Peek      bool
}

func coqZs(l []int) string {
	var it []string
	for _, n := range l {
		it = append(it, coqZ(int64(n)))
	}
	return coqList(it)
}
func (s *c3Section) coq() string {
	p := "None"
	if s.Partial != nil {
		p = "(Some " + coqPair(coqZ(s.Partial[0]), coqZ(s.Partial[1])) + ")"
	}
	return fmt.Sprintf("(mkSec %s %s %s %s %s %s)", c3HxS(s.Spec), coqZs(s.Part), c3Strs(s.Fields), c3Strs(s.NotFields), p, coqBool(s.Peek))
}

// c3Item is one FETCH item: what the stub writes (F*) or what the client delivered (C*).
type c3Item struct {
	Kind    string     `json:"k"` // uid flags size idate env body section binary binsize modseq
	N       uint64     `json:"n,omitempty"`
	Z       int64      `json:"z,omitempty"`
	Flags   []string   `json:"flags,omitempty"`
	Time    c3Time     `json:"time"`
	Env     *c3Env     `json:"env,omitempty"`
	BS      *c3BS      `json:"bs,omitempty"`
	Ext     bool       `json:"ext,omitempty"` // client: IsExtended
	Sec     *c3Section `json:"sec,omitempty"`
	Part    []int      `json:"part,omitempty"`
	Data    c3Bytes    `json:"data,omitempty"`
	HasData bool       `json:"has_data,omitempty"` // client: Literal != nil
}

// c3Bytes prints as a quoted Go string in JSON descriptions (run-length compressed when long).
type c3Bytes []byte

func (b c3Bytes) MarshalJSON() ([]byte, error) {
	if len(b) <= 200 {
		return json.Marshal(fmt.Sprintf("%q", []byte(b)))
	}
	return json.Marshal(fmt.Sprintf("%q...%q (%d bytes, sha1 %x)", []byte(b[:60]), []byte(b[len(b)-30:]), len(b), sha1.Sum(b)))
}

func (i *c3Item) coqF() string {
	switch i.Kind {
	case "uid":
		return fmt.Sprintf("(FUid %d)", i.N)
	case "flags":
		return "(FFlags " + c3Strs(i.Flags) + ")"
	case "size":
		return "(FSize " + coqZ(i.Z) + ")"
	case "idate":
		return "(FIDate " + i.Time.coq() + ")"
	case "env":
		return "(FEnvelope " + coqEnvOpt(i.Env) + ")"
	case "body":
		return "(FBody " + i.BS.coq() + ")"
	case "section":
		return "(FSection " + i.Sec.coq() + " " + c3Hx(i.Data) + ")"
	case "binary":
		return "(FBinary " + coqZs(i.Part) + " " + c3Hx(i.Data) + ")"
	case "binsize":
		return fmt.Sprintf("(FBinSize %s %d)", coqZs(i.Part), i.N)
	}
	panic("c3Item.coqF: " + i.Kind)
}
func (i *c3Item) coqC() string {
	lit := "None"
	if i.HasData {
		lit = "(Some " + c3Hx(i.Data) + ")"
	}
	switch i.Kind {
	case "uid":
		return fmt.Sprintf("(CUid %d)", i.N)
	case "flags":
		return "(CFlags " + c3Strs(i.Flags) + ")"
	case "size":
		return fmt.Sprintf("(CSize %d)", i.Z)
	case "idate":
		return "(CIDate " + i.Time.coq() + ")"
	case "env":
		return "(CEnvelope " + i.Env.coq() + ")"
	case "body":
		return "(CBody " + i.BS.coq() + " " + coqBool(i.Ext) + ")"
	case "section":
		return "(CSection " + i.Sec.coq() + " " + lit + ")"
	case "binary":
		return "(CBinary " + coqZs(i.Part) + " " + lit + ")"
	case "binsize":
		return fmt.Sprintf("(CBinSize %s %d)", coqZs(i.Part), i.N)
	case "modseq":
		return fmt.Sprintf("(CModSeq %d)", i.N)
	}
	panic("c3Item.coqC: " + i.Kind)
}

type c3Msgd struct {
	Seq   uint32
	Items []*c3Item
}

func coqMsgs(l []c3Msgd, client bool) string {
	var ms []string
	for _, m := range l {
		var it []string
		for _, i := range m.Items {
			if client {
				it = append(it, i.coqC())
			} else {
				it = append(it, i.coqF())
			}
		}
		ms = append(ms, coqPair(fmt.Sprint(m.Seq), coqList(it)))
	}
	return coqList(ms)
}

// ---- conversions to the imap types (what the stub hands to the server) ----

func c3Addrs(l *[]c3Addr) []imap.Address {
	if l == nil {
		return nil
	}
	out := make([]imap.Address, 0, len(*l))
	for _, a := range *l {
		out = append(out, imap.Address{Name: a.Name, Mailbox: a.Mailbox, Host: a.Host})
	}
	return out
}
func (e *c3Env) imap() *imap.Envelope {
	if e == nil {
		return nil
	}
	env := &imap.Envelope{Subject: e.Subject, From: c3Addrs(e.From), Sender: c3Addrs(e.Sender), ReplyTo: c3Addrs(e.ReplyTo),
		To: c3Addrs(e.To), Cc: c3Addrs(e.Cc), Bcc: c3Addrs(e.Bcc), InReplyTo: e.InReplyTo, MessageID: e.MsgID}
	env.Date = e.Date.goTime()
	return env
}
func c3Map(p *[]c3KV) map[string]string {
	if p == nil {
		return nil
	}
	m := make(map[string]string)
	for _, kv := range *p {
		m[kv.K] = kv.V
	}
	return m
}
func c3DispImap(d *c3Disp) *imap.BodyStructureDisposition {
	if d == nil {
		return nil
	}
	return &imap.BodyStructureDisposition{Value: d.Value, Params: c3Map(d.Params)}
}
func c3LangImap(l *[]string) []string {
	if l == nil {
		return nil
	}
	return append([]string{}, (*l)...)
}
func (b *c3BS) imap() imap.BodyStructure {
	if b.Multi {
		mp := &imap.BodyStructureMultiPart{Subtype: b.Subtype}
		for _, c := range b.Children {
			mp.Children = append(mp.Children, c.imap())
		}
		if b.Ext != nil {
			mp.Extended = &imap.BodyStructureMultiPartExt{Params: c3Map(b.Ext.Params), Disposition: c3DispImap(b.Ext.Disp), Language: c3LangImap(b.Ext.Lang), Location: b.Ext.Loc}
		}
		return mp
	}
	sp := &imap.BodyStructureSinglePart{Type: b.Type, Subtype: b.Subtype, Params: c3Map(b.Params), ID: b.ID, Description: b.Desc, Encoding: b.Enc, Size: b.Size}
	if b.Msg != nil {
		sp.MessageRFC822 = &imap.BodyStructureMessageRFC822{Envelope: b.Msg.Env.imap(), BodyStructure: b.Msg.Body.imap(), NumLines: b.Msg.Lines}
	}
	if b.Text != nil {
		sp.Text = &imap.BodyStructureText{NumLines: *b.Text}
	}
	if b.Ext != nil {
		sp.Extended = &imap.BodyStructureSinglePartExt{Disposition: c3DispImap(b.Ext.Disp), Language: c3LangImap(b.Ext.Lang), Location: b.Ext.Loc}
	}
	return sp
}
func (s *c3Section) imap() *imap.FetchItemBodySection {
	sec := &imap.FetchItemBodySection{Specifier: imap.PartSpecifier(s.Spec), Part: s.Part, HeaderFields: s.Fields, HeaderFieldsNot: s.NotFields, Peek: s.Peek}
	if s.Partial != nil {
		sec.Partial = &imap.SectionPartial{Offset: s.Partial[0], Size: s.Partial[1]}
	}
	return sec
}

// ---- conversions from the imap types (what the client delivered) ----

func c3AddrsOf(l []imap.Address) *[]c3Addr {
	if l == nil {
		return nil
	}
	out := make([]c3Addr, 0, len(l))
	for _, a := range l {
		out = append(out, c3Addr{a.Name, a.Mailbox, a.Host})
	}
	return &out
}
func c3EnvOf(e *imap.Envelope) *c3Env {
	if e == nil {
		return nil
	}
	return &c3Env{Date: c3TimeOf(e.Date), Subject: e.Subject, From: c3AddrsOf(e.From), Sender: c3AddrsOf(e.Sender), ReplyTo: c3AddrsOf(e.ReplyTo),
		To: c3AddrsOf(e.To), Cc: c3AddrsOf(e.Cc), Bcc: c3AddrsOf(e.Bcc), InReplyTo: append([]string(nil), e.InReplyTo...), MsgID: e.MessageID}
}
func c3ParamsOf(m map[string]string) *[]c3KV {
	if m == nil {
		return nil
	}
	var ks []string
	for k := range m {
		ks = append(ks, k)
	}
	sort.Strings(ks)
	out := make([]c3KV, 0, len(ks))
	for _, k := range ks {
		out = append(out, c3KV{k, m[k]})
	}
	return &out
}
func c3DispOf(d *imap.BodyStructureDisposition) *c3Disp {
	if d == nil {
		return nil
	}
	return &c3Disp{d.Value, c3ParamsOf(d.Params)}
}
func c3LangOf(l []string) *[]string {
	if l == nil {
		return nil
	}
	c := append([]string{}, l...)
	return &c
}
func c3BSOf(bs imap.BodyStructure) *c3BS {
	switch b := bs.(type) {
	case *imap.BodyStructureSinglePart:
		out := &c3BS{Type: b.Type, Subtype: b.Subtype, Params: c3ParamsOf(b.Params), ID: b.ID, Desc: b.Description, Enc: b.Encoding, Size: b.Size}
		if b.MessageRFC822 != nil {
			out.Msg = &c3Msg{Env: c3EnvOf(b.MessageRFC822.Envelope), Body: c3BSOf(b.MessageRFC822.BodyStructure), Lines: b.MessageRFC822.NumLines}
		}
		if b.Text != nil {
			l := b.Text.NumLines
			out.Text = &l
		}
		if b.Extended != nil {
			out.Ext = &c3Ext{Disp: c3DispOf(b.Extended.Disposition), Lang: c3LangOf(b.Extended.Language), Loc: b.Extended.Location}
		}
		return out
	case *imap.BodyStructureMultiPart:
		out := &c3BS{Multi: true, Subtype: b.Subtype}
		for _, c := range b.Children {
			out.Children = append(out.Children, c3BSOf(c))
		}
		if b.Extended != nil {
			out.Ext = &c3Ext{Params: c3ParamsOf(b.Extended.Params), Disp: c3DispOf(b.Extended.Disposition), Lang: c3LangOf(b.Extended.Language), Loc: b.Extended.Location}
		}
		return out
	}
	return &c3BS{Type: fmt.Sprintf("?unknown body structure %T", bs)}
}
func c3SectionOf(s *imap.FetchItemBodySection) *c3Section {
	out := &c3Section{Spec: string(s.Specifier), Part: s.Part, Fields: s.HeaderFields, NotFields: s.HeaderFieldsNot, Peek: s.Peek}
	if s.Partial != nil {
		out.Partial = &[2]int64{s.Partial.Offset, s.Partial.Size}
	}
	return out
}
func c3Flags(l []imap.Flag) []string {
	var out []string
	for _, f := range l {
		out = append(out, string(f))
	}
	return out
}
func c3ImapFlags(l []string) []imap.Flag {
	if l == nil {
		return nil
	}
	out := make([]imap.Flag, 0, len(l))
	for _, f := range l {
		out = append(out, imap.Flag(f))
	}
	return out
}

// c3ItemOf converts one delivered FETCH item, reading its literal in full.
func c3ItemOf(item imapclient.FetchItemData) (*c3Item, error) {
	readLit := func(lit imap.LiteralReader) ([]byte, bool, error) {
		if lit == nil {
			return nil, false, nil
		}
		b, err := readAllLimited(lit)
		return b, true, err
	}
	switch it := item.(type) {
	case imapclient.FetchItemDataUID:
		return &c3Item{Kind: "uid", N: uint64(it.UID)}, nil
	case imapclient.FetchItemDataFlags:
		return &c3Item{Kind: "flags", Flags: c3Flags(it.Flags)}, nil
	case imapclient.FetchItemDataRFC822Size:
		return &c3Item{Kind: "size", Z: it.Size}, nil
	case imapclient.FetchItemDataInternalDate:
		return &c3Item{Kind: "idate", Time: c3TimeOf(it.Time)}, nil
	case imapclient.FetchItemDataEnvelope:
		return &c3Item{Kind: "env", Env: c3EnvOf(it.Envelope)}, nil
	case imapclient.FetchItemDataBodyStructure:
		return &c3Item{Kind: "body", BS: c3BSOf(it.BodyStructure), Ext: it.IsExtended}, nil
	case imapclient.FetchItemDataBodySection:
		b, has, err := readLit(it.Literal)
		return &c3Item{Kind: "section", Sec: c3SectionOf(it.Section), Data: b, HasData: has}, err
	case imapclient.FetchItemDataBinarySection:
		b, has, err := readLit(it.Literal)
		return &c3Item{Kind: "binary", Part: it.Section.Part, Data: b, HasData: has}, err
	case imapclient.FetchItemDataBinarySectionSize:
		return &c3Item{Kind: "binsize", Part: it.Part, N: uint64(it.Size)}, nil
	case imapclient.FetchItemDataModSeq:
		return &c3Item{Kind: "modseq", N: it.ModSeq}, nil
	}
	return nil, fmt.Errorf("unknown item type %T", item)
}

// ---- LIST / STATUS / SELECT / SEARCH / NAMESPACE ----

type c3Status struct {
	Mailbox                   string
	Messages, Unseen, Deleted *uint32
	UIDNext, UIDValidity      uint32
	Size, DeletedStorage      *int64
	AppendLimit               *uint32
}

func coqOptN(p *uint32) string {
	if p == nil {
		return "None"
	}
	return fmt.Sprintf("(Some %d)", *p)
}
func coqOptZ(p *int64) string {
	if p == nil {
		return "None"
	}
	return "(Some " + coqZ(*p) + ")"
}
func (s *c3Status) coq() string {
	return fmt.Sprintf("(mkSD %s %s %d %d %s %s %s %s %s)", c3HxS(s.Mailbox), coqOptN(s.Messages), s.UIDNext, s.UIDValidity,
		coqOptN(s.Unseen), coqOptN(s.Deleted), coqOptZ(s.Size), coqOptN(s.AppendLimit), coqOptZ(s.DeletedStorage))
}
func (s *c3Status) imap() *imap.StatusData {
	return &imap.StatusData{Mailbox: s.Mailbox, NumMessages: s.Messages, UIDNext: imap.UID(s.UIDNext), UIDValidity: s.UIDValidity,
		NumUnseen: s.Unseen, NumDeleted: s.Deleted, Size: s.Size, AppendLimit: s.AppendLimit, DeletedStorage: s.DeletedStorage}
}
func c3StatusOf(d *imap.StatusData) *c3Status {
	if d == nil {
		return nil
	}
	return &c3Status{Mailbox: d.Mailbox, Messages: d.NumMessages, UIDNext: uint32(d.UIDNext), UIDValidity: d.UIDValidity,
		Unseen: d.NumUnseen, Deleted: d.NumDeleted, Size: d.Size, AppendLimit: d.AppendLimit, DeletedStorage: d.DeletedStorage}
}

type c3StatusOpts struct{ Messages, UIDNext, UIDValidity, Unseen, Deleted, Size, AppendLimit, DeletedStorage bool }

func (o *c3StatusOpts) coq() string {
	return fmt.Sprintf("(mkSO %s %s %s %s %s %s %s %s false)", coqBool(o.Messages), coqBool(o.UIDNext), coqBool(o.UIDValidity), coqBool(o.Unseen),
		coqBool(o.Deleted), coqBool(o.Size), coqBool(o.AppendLimit), coqBool(o.DeletedStorage))
}
func (o *c3StatusOpts) imap() *imap.StatusOptions {
	return &imap.StatusOptions{NumMessages: o.Messages, UIDNext: o.UIDNext, UIDValidity: o.UIDValidity, NumUnseen: o.Unseen,
		NumDeleted: o.Deleted, Size: o.Size, AppendLimit: o.AppendLimit, DeletedStorage: o.DeletedStorage}
}

type c3List struct {
	Attrs     []string
	Delim     int32
	Mailbox   string
	ChildInfo *bool
	OldName   string
	Status    *c3Status
}

func (l *c3List) coq() string {
	ci := "None"
	if l.ChildInfo != nil {
		ci = "(Some " + coqBool(*l.ChildInfo) + ")"
	}
	st := "None"
	if l.Status != nil {
		st = "(Some " + l.Status.coq() + ")"
	}
	d := uint32(l.Delim) // negative runes are out of the model's domain: printed as large numbers
	return fmt.Sprintf("(mkLD %s %d %s %s %s %s)", c3Strs(l.Attrs), d, c3HxS(l.Mailbox), ci, c3HxS(l.OldName), st)
}
func (l *c3List) imap() *imap.ListData {
	d := &imap.ListData{Delim: rune(l.Delim), Mailbox: l.Mailbox, OldName: l.OldName}
	for _, a := range l.Attrs {
		d.Attrs = append(d.Attrs, imap.MailboxAttr(a))
	}
	if l.ChildInfo != nil {
		d.ChildInfo = &imap.ListDataChildInfo{Subscribed: *l.ChildInfo}
	}
	if l.Status != nil {
		d.Status = l.Status.imap()
	}
	return d
}
func c3ListOf(d *imap.ListData) *c3List {
	if d == nil {
		return nil
	}
	out := &c3List{Delim: int32(d.Delim), Mailbox: d.Mailbox, OldName: d.OldName, Status: c3StatusOf(d.Status)}
	for _, a := range d.Attrs {
		out.Attrs = append(out.Attrs, string(a))
	}
	if d.ChildInfo != nil {
		b := d.ChildInfo.Subscribed
		out.ChildInfo = &b
	}
	return out
}

type c3Select struct {
	Flags, PermFlags          []string
	Num, UIDNext, UIDValidity uint32
	List                      *c3List
}

func (s *c3Select) coq() string {
	l := "None"
	if s.List != nil {
		l = "(Some " + s.List.coq() + ")"
	}
	return fmt.Sprintf("(mkSel %s %s %d %d %d %s)", c3Strs(s.Flags), c3Strs(s.PermFlags), s.Num, s.UIDNext, s.UIDValidity, l)
}

// number sets as lists of (start, stop) with 0 = "*"
type c3Set [][2]uint32

func (s c3Set) coq() string {
	var it []string
	for _, r := range s {
		it = append(it, fmt.Sprintf("(%d, %d)", r[0], r[1]))
	}
	return coqList(it)
}
func c3SetOfSeq(s imap.SeqSet) c3Set {
	out := c3Set{}
	for _, r := range s {
		out = append(out, [2]uint32{r.Start, r.Stop})
	}
	return out
}
func c3SetOfUID(s imap.UIDSet) c3Set {
	out := c3Set{}
	for _, r := range s {
		out = append(out, [2]uint32{uint32(r.Start), uint32(r.Stop)})
	}
	return out
}
func (s c3Set) seq() imap.SeqSet {
	out := imap.SeqSet{}
	for _, r := range s {
		out = append(out, imap.SeqRange{Start: r[0], Stop: r[1]})
	}
	return out
}
func (s c3Set) uid() imap.UIDSet {
	out := imap.UIDSet{}
	for _, r := range s {
		out = append(out, imap.UIDRange{Start: imap.UID(r[0]), Stop: imap.UID(r[1])})
	}
	return out
}

// c3SetOfNumSet: nil interface = None
func coqNumSetOpt(n imap.NumSet) string {
	switch s := n.(type) {
	case imap.SeqSet:
		return "(Some " + c3SetOfSeq(s).coq() + ")"
	case imap.UIDSet:
		return "(Some " + c3SetOfUID(s).coq() + ")"
	}
	return "None"
}

type c3Search struct {
	All             imap.NumSet
	UID             bool
	Min, Max, Count uint32
}

func (s *c3Search) coq() string {
	return fmt.Sprintf("(mkSeD %s %s %d %d %d)", coqNumSetOpt(s.All), coqBool(s.UID), s.Min, s.Max, s.Count)
}

type c3NS struct {
	Prefix string
	Delim  int32
}

func coqNSList(l *[]c3NS) string {
	if l == nil {
		return "None"
	}
	var it []string
	for _, d := range *l {
		it = append(it, fmt.Sprintf("(%s, %d)", c3HxS(d.Prefix), uint32(d.Delim)))
	}
	return "(Some " + coqList(it) + ")"
}
func c3NSImap(l *[]c3NS) []imap.NamespaceDescriptor {
	if l == nil {
		return nil
	}
	out := make([]imap.NamespaceDescriptor, 0, len(*l))
	for _, d := range *l {
		out = append(out, imap.NamespaceDescriptor{Prefix: d.Prefix, Delim: rune(d.Delim)})
	}
	return out
}
func c3NSOf(l []imap.NamespaceDescriptor) *[]c3NS {
	if l == nil {
		return nil
	}
	out := make([]c3NS, 0, len(l))
	for _, d := range l {
		out = append(out, c3NS{d.Prefix, int32(d.Delim)})
	}
	return &out
}

func coqBytesOpt(b []byte, ok bool) string {
	if !ok {
		return "None"
	}
	return "(Some " + c3Hx(b) + ")"
}

// c3Cksum: length and two polynomial checksums modulo 2^64 of the bytes (RespCorr.cksum)
func c3Cksum(b []byte, ok bool) string {
	if !ok {
		return "None"
	}
	h1, h2 := uint64(5381), uint64(7)
	for _, c := range b {
		h1 = h1*33 + uint64(c) + 1
		h2 = h2*131 + uint64(c) + 1
	}
	return fmt.Sprintf("(Some (%d, %d, %d))", len(b), h1, h2)
}

// c3Hx renders a byte string as a Coq term like coqHx, but also run-length encodes periodic
// runs (period up to 320 bytes), which the generated long strings and their Q-encoded forms are.
func c3Hx(b []byte) string {
	if len(b) < 96 {
		return `(hx "` + hex.EncodeToString(b) + `")`
	}
	var parts []string
	lit := 0 // start of pending literal bytes
	flush := func(end int) {
		for lit < end {
			e := lit + 800
			if e > end {
				e = end
			}
			parts = append(parts, `hx "`+hex.EncodeToString(b[lit:e])+`"`)
			lit = e
		}
	}
	i := 0
	for i < len(b) {
		bestP, bestK := 0, 0
		for p := 1; p <= 320 && i+2*p <= len(b); p++ {
			if b[i] != b[i+p] {
				continue
			}
			k := 1
			for i+(k+1)*p <= len(b) && bytes.Equal(b[i:i+p], b[i+k*p:i+(k+1)*p]) {
				k++
			}
			if k >= 2 && p*k > bestP*bestK {
				bestP, bestK = p, k
			}
			if bestP*bestK > 4000 {
				break
			}
		}
		if bestP*bestK >= 64 {
			flush(i)
			parts = append(parts, fmt.Sprintf(`rep %d (hx "%s")`, bestK, hex.EncodeToString(b[i:i+bestP])))
			i += bestP * bestK
			lit = i
		} else {
			i++
		}
	}
	flush(len(b))
	if len(parts) == 0 {
		return `(hx "")`
	}
	return "(" + strings.Join(parts, " ++ ") + ")"
}
func c3HxS(s string) string { return c3Hx([]byte(s)) }
