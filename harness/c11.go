package main

// C11 — the client never panics or blows up on arbitrary server bytes.
//
// A real imapclient.Client (TCP loopback) with exactly one pending command (tag T1) is fed a
// complete server byte stream; the harness reads everything the client hands out (command
// results through every accessor, unilateral data handlers, every FETCH message and item)
// and records the error class of Wait and Close.  Direct oracles (written from the property
// text): no panic in the reader or an accessor, no hang, no zero message number / dynamic
// set / over-deep structure delivered, accessor cost and parse time/allocation linear in the
// input size.  The same cases are re-evaluated on the Gallina model (Model/ClientResp.v)
// inside Coq (c11gen.go has the generators).

import (
	"bytes"
	"fmt"
	"io"
	"net"
	"runtime"
	"sort"
	"strings"
	"sync"
	"time"

	imap "github.com/emersion/go-imap/v2"
	"github.com/emersion/go-imap/v2/imapclient"
)

func init() { runners["C11"] = runC11 }

const c11Greeting = "* OK [CAPABILITY IMAP4rev1 LITERAL+ MOVE UIDPLUS] ready\r\n"

var c11GreetingCaps = []string{"IMAP4rev1", "LITERAL+", "MOVE", "UIDPLUS"}

// ---- observation terms (Model/ClientRespCorr.v: ov) -----------------------------------

func ovN(n uint64) string     { return fmt.Sprintf("ON %d", n) }
func ovB(b []byte) string     { return "OB " + coqHx(b) }
func ovS(s string) string     { return ovB([]byte(s)) }
func ovL(it ...string) string { return "OL [" + strings.Join(c11ParenAll(it), "; ") + "]" }
func ovBool(b bool) string {
	if b {
		return "ON 1"
	}
	return "ON 0"
}
func c11ParenAll(it []string) []string {
	out := make([]string, len(it))
	for i, s := range it {
		out[i] = "(" + s + ")"
	}
	return out
}
func ovOpt(present bool, v string) string {
	if present {
		return ovL(v)
	}
	return ovL()
}
func ovStrs(l []string) string {
	var it []string
	for _, s := range l {
		it = append(it, ovS(s))
	}
	return ovL(it...)
}

// ---- the pending command -------------------------------------------------------------

type c11Cmd struct {
	Kind  string // Noop Fetch Search UIDSearch Sort Thread Expunge Status List Select Copy Move Append GetQuota GetQuotaRoot GetMetadata Namespace Capability Enable
	Param string // mailbox / quota root
}

func (k c11Cmd) coq() string {
	switch k.Kind {
	case "Search":
		return "KSearch false"
	case "UIDSearch":
		return "KSearch true"
	case "Status", "Select", "GetQuota", "GetQuotaRoot", "GetMetadata":
		return "K" + k.Kind + " " + coqHxS(k.Param)
	}
	return "K" + k.Kind
}

// c11Result is everything observed in one run.
type c11Result struct {
	Close, Wait int
	Uni         []string
	Fetch       []string
	Caps        string
	Data        string

	Delivered  int      // number of delivered data items of any kind
	Violations []string // direct-oracle findings: "sig\x00what"
	Hung       string
	CloseErr   string
	Dur        time.Duration // from sending the stream until the reader stopped
	Alloc      uint64
}

func (r *c11Result) violate(sig, what string) {
	r.Violations = append(r.Violations, sig+"\x00"+what)
}

// watchConn tells when the client's reader has finished (it closes the connection itself).
type c11WatchConn struct {
	net.Conn
	once   sync.Once
	closed chan struct{}
}

func (w *c11WatchConn) Close() error {
	w.once.Do(func() { close(w.closed) })
	return w.Conn.Close()
}

const c11AccLimit = 2000

// structures deeper than this are compared by (depth, number of nodes) only
const c11Deep = 40

func c11BodySize(bs imap.BodyStructure) int {
	switch b := bs.(type) {
	case *imap.BodyStructureSinglePart:
		if b != nil && b.MessageRFC822 != nil {
			return 1 + c11BodySize(b.MessageRFC822.BodyStructure)
		}
		return 1
	case *imap.BodyStructureMultiPart:
		n := 1
		if b != nil {
			for _, c := range b.Children {
				n += c11BodySize(c)
			}
		}
		return n
	}
	return 1
}

func c11BodyDepth(bs imap.BodyStructure) int {
	switch b := bs.(type) {
	case *imap.BodyStructureSinglePart:
		if b != nil && b.MessageRFC822 != nil {
			return 1 + c11BodyDepth(b.MessageRFC822.BodyStructure)
		}
		return 1
	case *imap.BodyStructureMultiPart:
		d := 0
		if b != nil {
			for _, c := range b.Children {
				if x := c11BodyDepth(c); x > d {
					d = x
				}
			}
		}
		return 1 + d
	}
	return 1
}

func c11ThreadHasZero(t imapclient.ThreadData) bool {
	for _, n := range t.Chain {
		if n == 0 {
			return true
		}
	}
	for _, s := range t.SubThreads {
		if c11ThreadHasZero(s) {
			return true
		}
	}
	return false
}

func c11ThreadDepth(t imapclient.ThreadData) int {
	d := 0
	for _, s := range t.SubThreads {
		if x := c11ThreadDepth(s); x > d {
			d = x
		}
	}
	return 1 + d
}

func c11ThreadSize(t imapclient.ThreadData) int {
	n := 1 + len(t.Chain)
	for _, s := range t.SubThreads {
		n += c11ThreadSize(s)
	}
	return n
}

func c11SetSize(ranges [][2]uint32) (size uint64, dynamic bool) {
	for _, r := range ranges {
		if r[1] == 0 || r[0] == 0 {
			return 0, true
		}
		size += uint64(r[1]-r[0]) + 1
	}
	return size, false
}

func c11SeqRanges(s imap.SeqSet) [][2]uint32 {
	var out [][2]uint32
	for _, r := range s {
		out = append(out, [2]uint32{r.Start, r.Stop})
	}
	return out
}
func c11UIDRanges(s imap.UIDSet) [][2]uint32 {
	var out [][2]uint32
	for _, r := range s {
		out = append(out, [2]uint32{uint32(r.Start), uint32(r.Stop)})
	}
	return out
}

// accessor runs f (an accessor on delivered data) and converts a panic into a violation.
func (r *c11Result) accessor(name string, f func()) (panicked bool) {
	defer func() {
		if v := recover(); v != nil {
			panicked = true
			r.violate("accessor-panic:"+name, fmt.Sprintf("%s panicked on data the client delivered: %v", name, v))
		}
	}()
	f()
	return false
}

// accOv renders the result of AllSeqNums/AllUIDs/Nums the way ClientRespCorr.acc_ov does,
// without calling the accessor when the static size of the set exceeds the limit.
func (r *c11Result) accOv(name string, ranges [][2]uint32, isKind bool, streamLen int, call func() []uint32) string {
	if !isKind {
		// the accessor returns nil for the other kind of set: still call it
		r.accessor(name, func() { call() })
		return ovL(ovN(1), ovL())
	}
	size, dyn := c11SetSize(ranges)
	if dyn {
		r.violate("dynamic-set-delivered:"+name, "a dynamic number set was delivered to the caller")
		if r.accessor(name, func() { call() }) {
			return ovL(ovN(3))
		}
		return ovL(ovN(1), ovL())
	}
	if size > uint64(64*streamLen+4096) {
		r.violate("accessor-blowup:"+name, fmt.Sprintf("%s would enumerate %d numbers for a %d-byte response", name, size, streamLen))
	}
	if size > c11AccLimit {
		return ovL(ovN(2))
	}
	var nums []uint32
	if r.accessor(name, func() { nums = call() }) {
		return ovL(ovN(3))
	}
	var it []string
	for _, n := range nums {
		if n == 0 {
			r.violate("zero-delivered:"+name, "message number 0 delivered")
		}
		it = append(it, ovN(uint64(n)))
	}
	return ovL(ovN(1), ovL(it...))
}

func c11FlagsOv(fl []imap.Flag) string {
	var it []string
	for _, f := range fl {
		it = append(it, ovS(string(f)))
	}
	return ovL(it...)
}

func c11IsASCII7(s string) bool {
	for i := 0; i < len(s); i++ {
		if s[i] >= 0x80 {
			return false
		}
	}
	return true
}

func c11IntsOv(l []int) string {
	var it []string
	for _, n := range l {
		it = append(it, ovN(uint64(n)))
	}
	return ovL(it...)
}

// bodyOv renders a body structure and returns its nesting depth.
func (r *c11Result) bodyOv(bs imap.BodyStructure) (string, int) {
	switch b := bs.(type) {
	case *imap.BodyStructureSinglePart:
		if b == nil {
			r.violate("nil-body", "nil single part in a delivered body structure")
			return ovL(), 1
		}
		lines, hasLines := int64(0), false
		msg, depth := ovL(), 1
		if b.MessageRFC822 != nil {
			lines, hasLines = b.MessageRFC822.NumLines, true
			s, d := r.bodyOv(b.MessageRFC822.BodyStructure)
			msg, depth = ovL(s), d+1
		} else if b.Text != nil {
			lines, hasLines = b.Text.NumLines, true
		}
		r.accessor("BodyStructureSinglePart.accessors", func() { b.MediaType(); b.Disposition(); b.Filename() })
		return ovL(ovN(1), ovS(b.Type), ovS(b.Subtype), ovN(uint64(b.Size)), ovOpt(hasLines, ovN(uint64(lines))), msg), depth
	case *imap.BodyStructureMultiPart:
		if b == nil {
			r.violate("nil-body", "nil multipart in a delivered body structure")
			return ovL(), 1
		}
		var it []string
		depth := 1
		for _, c := range b.Children {
			s, d := r.bodyOv(c)
			it = append(it, s)
			if d+1 > depth {
				depth = d + 1
			}
		}
		r.accessor("BodyStructureMultiPart.accessors", func() { b.MediaType(); b.Disposition() })
		return ovL(ovN(2), ovL(it...), ovS(b.Subtype)), depth
	default:
		r.violate("nil-body", fmt.Sprintf("unexpected body structure value %T delivered", bs))
		return ovL(), 1
	}
}

func c11SectionOv(part []int, spec string, fields, fieldsNot []string, partial *imap.SectionPartial) string {
	if !c11IsASCII7(spec) {
		spec = "?"
	}
	fl := fields
	not := false
	if len(fieldsNot) > 0 {
		fl, not = fieldsNot, true
	}
	origin := ovL()
	if partial != nil {
		origin = ovL(ovN(uint64(partial.Offset)))
	}
	return ovL(c11IntsOv(part), ovS(spec), ovStrs(fl), ovBool(not), origin)
}

// collectMsg reads every item of a FETCH message in order.
func (r *c11Result) collectMsg(msg *imapclient.FetchMessageData) string {
	if msg.SeqNum == 0 {
		r.violate("zero-delivered:FETCH-seq", "FETCH message with sequence number 0 delivered")
	}
	var items []string
	for {
		item := msg.Next()
		if item == nil {
			break
		}
		r.Delivered++
		switch it := item.(type) {
		case imapclient.FetchItemDataFlags:
			items = append(items, ovL(ovN(1), c11FlagsOv(it.Flags)))
		case imapclient.FetchItemDataEnvelope:
			var lists []string
			if it.Envelope == nil {
				r.violate("nil-envelope", "nil envelope delivered")
			} else {
				for _, l := range [][]imap.Address{it.Envelope.From, it.Envelope.Sender, it.Envelope.ReplyTo, it.Envelope.To, it.Envelope.Cc, it.Envelope.Bcc} {
					var as []string
					for i := range l {
						a := l[i]
						r.accessor("Address.accessors", func() { a.Addr(); a.IsGroupStart(); a.IsGroupEnd() })
						as = append(as, ovL(ovS(a.Mailbox), ovS(a.Host)))
					}
					lists = append(lists, ovL(as...))
				}
			}
			items = append(items, ovL(ovN(2), ovL(lists...)))
		case imapclient.FetchItemDataInternalDate:
			if it.Time.IsZero() {
				r.violate("zero-date", "zero INTERNALDATE delivered")
			}
			items = append(items, ovL(ovN(3)))
		case imapclient.FetchItemDataRFC822Size:
			if it.Size < 0 {
				r.violate("negative-size", "negative RFC822.SIZE delivered")
			}
			items = append(items, ovL(ovN(4), ovN(uint64(it.Size))))
		case imapclient.FetchItemDataUID:
			if it.UID == 0 {
				r.violate("zero-delivered:FETCH-UID", "FETCH item UID 0 delivered")
			}
			items = append(items, ovL(ovN(5), ovN(uint64(it.UID))))
		case imapclient.FetchItemDataBodySection:
			content := ovL()
			if it.Literal != nil {
				b, _ := io.ReadAll(it.Literal)
				content = ovL(ovB(b))
			}
			items = append(items, ovL(ovN(6), ovBool(false),
				c11SectionOv(it.Section.Part, string(it.Section.Specifier), it.Section.HeaderFields, it.Section.HeaderFieldsNot, it.Section.Partial), content))
		case imapclient.FetchItemDataBinarySection:
			content := ovL()
			if it.Literal != nil {
				b, _ := io.ReadAll(it.Literal)
				content = ovL(ovB(b))
			}
			items = append(items, ovL(ovN(6), ovBool(true), c11SectionOv(it.Section.Part, "", nil, nil, nil), content))
		case imapclient.FetchItemDataBodyStructure:
			// measure first: rendering a structure nested 100000 deep would take the harness for ever
			var s string
			depth := c11BodyDepth(it.BodyStructure)
			if depth > c11Deep {
				s = ovL(ovN(3), ovN(uint64(depth)), ovN(uint64(c11BodySize(it.BodyStructure))))
			} else {
				s, _ = r.bodyOv(it.BodyStructure)
			}
			if depth > 1000 {
				r.violate("deep-structure:BODYSTRUCTURE", fmt.Sprintf("body structure nested %d deep delivered", depth))
			}
			if it.BodyStructure != nil && depth <= 2000 {
				r.accessor("BodyStructure.Walk", func() {
					n := 0
					it.BodyStructure.Walk(func(path []int, part imap.BodyStructure) bool { n++; return true })
				})
			}
			items = append(items, ovL(ovN(7), ovBool(it.IsExtended), s))
		case imapclient.FetchItemDataBinarySectionSize:
			items = append(items, ovL(ovN(8), c11IntsOv(it.Part), ovN(uint64(it.Size))))
		case imapclient.FetchItemDataModSeq:
			items = append(items, ovL(ovN(9), ovN(it.ModSeq)))
		default:
			r.violate("unknown-item", fmt.Sprintf("unknown FETCH item %T", item))
		}
	}
	return ovL(ovN(uint64(msg.SeqNum)), ovL(items...))
}

func (r *c11Result) threadOv(t imapclient.ThreadData, depth int) (string, int) {
	var chain, subs []string
	for _, n := range t.Chain {
		if n == 0 {
			r.violate("zero-delivered:THREAD", "message number 0 delivered in THREAD data")
		}
		chain = append(chain, ovN(uint64(n)))
	}
	max := depth
	for _, s := range t.SubThreads {
		o, d := r.threadOv(s, depth+1)
		subs = append(subs, o)
		if d > max {
			max = d
		}
	}
	return ovL(ovL(chain...), ovL(subs...)), max
}

func c11WaitClass(err error) int { return statusOf(err) }

func c11NumSetStr(s imap.NumSet) string {
	if s == nil {
		return ""
	}
	return s.String()
}

func c11QuotaOv(q *imapclient.QuotaData) string {
	var names []string
	for k := range q.Resources {
		names = append(names, string(k))
	}
	sort.Strings(names)
	var it []string
	for _, n := range names {
		v := q.Resources[imap.QuotaResourceType(n)]
		it = append(it, ovL(ovS(n), ovN(uint64(v.Usage)), ovN(uint64(v.Limit))))
	}
	return ovL(ovS(q.Root), ovL(it...))
}

func c11CapsOv(c imap.CapSet) string {
	var names []string
	for k := range c {
		names = append(names, string(k))
	}
	sort.Strings(names)
	return ovStrs(names)
}

// c11Exec runs the real client with one pending command against the stream.
func c11Exec(k c11Cmd, stream []byte, timeout time.Duration, measure bool) *c11Result {
	res := &c11Result{Wait: 3}
	// the loopback can be short of ports for a moment when many checks run at once: retry
	var ln net.Listener
	var err error
	for try := 0; try < 50; try++ {
		if ln, err = net.Listen("tcp", "127.0.0.1:0"); err == nil {
			break
		}
		time.Sleep(200 * time.Millisecond)
	}
	if err != nil {
		panic(err)
	}
	defer ln.Close()
	sendCh := make(chan struct{})
	srvQuit := make(chan struct{})
	var srvConn net.Conn
	var srvMu sync.Mutex
	go func() {
		c, err := ln.Accept()
		if err != nil {
			return
		}
		srvMu.Lock()
		srvConn = c
		srvMu.Unlock()
		io.WriteString(c, c11Greeting)
		go io.Copy(io.Discard, c)
		select {
		case <-sendCh:
		case <-srvQuit:
			return
		}
		c.Write(stream)
		if tc, ok := c.(*net.TCPConn); ok {
			tc.CloseWrite()
		}
	}()
	defer func() {
		close(srvQuit)
		srvMu.Lock()
		if srvConn != nil {
			srvConn.Close()
		}
		srvMu.Unlock()
	}()

	var raw net.Conn
	for try := 0; try < 50; try++ {
		if raw, err = net.Dial("tcp", ln.Addr().String()); err == nil {
			break
		}
		time.Sleep(200 * time.Millisecond)
	}
	if err != nil {
		panic(err)
	}
	wc := &c11WatchConn{Conn: raw, closed: make(chan struct{})}

	var mu sync.Mutex
	opts := &imapclient.Options{UnilateralDataHandler: &imapclient.UnilateralDataHandler{
		Expunge: func(n uint32) {
			mu.Lock()
			defer mu.Unlock()
			res.Delivered++
			if n == 0 {
				res.violate("zero-delivered:EXPUNGE", "sequence number 0 delivered to the Expunge handler")
			}
			res.Uni = append(res.Uni, ovL(ovN(1), ovN(uint64(n))))
		},
		Mailbox: func(d *imapclient.UnilateralDataMailbox) {
			mu.Lock()
			defer mu.Unlock()
			res.Delivered++
			switch {
			case d.NumMessages != nil:
				res.Uni = append(res.Uni, ovL(ovN(2), ovN(uint64(*d.NumMessages))))
			case d.PermanentFlags != nil:
				res.Uni = append(res.Uni, ovL(ovN(4), c11FlagsOv(d.PermanentFlags)))
			default:
				res.Uni = append(res.Uni, ovL(ovN(3), c11FlagsOv(d.Flags)))
			}
		},
		Fetch: func(msg *imapclient.FetchMessageData) {
			// runs in its own goroutine (go handler(msg)); collect under a private result, then merge
			tmp := &c11Result{}
			s := tmp.collectMsg(msg)
			mu.Lock()
			res.Fetch = append(res.Fetch, s)
			res.Delivered += tmp.Delivered + 1
			res.Violations = append(res.Violations, tmp.Violations...)
			mu.Unlock()
		},
		Metadata: func(mailbox string, entries []string) {
			mu.Lock()
			defer mu.Unlock()
			res.Delivered++
			res.Uni = append(res.Uni, ovL(ovN(5), ovS(mailbox), ovStrs(entries)))
		},
	}}
	cl := imapclient.New(wc, opts)
	if err := cl.WaitGreeting(); err != nil {
		res.Hung = "greeting failed: " + err.Error()
		cl.Close()
		return res
	}

	var ms0, ms1 runtime.MemStats
	if measure {
		runtime.ReadMemStats(&ms0)
	}
	t0 := time.Now()

	// issue the command and start collecting its result right away (channels must be drained)
	collected := make(chan struct{})
	var data string
	var werr error
	local := &c11Result{}
	slen := len(stream)
	go func() {
		defer close(collected)
		defer func() {
			if v := recover(); v != nil {
				local.violate("accessor-panic:collect", fmt.Sprintf("panic while reading the command result: %v", v))
			}
		}()
		switch k.Kind {
		case "Noop":
			cmd := cl.Noop()
			close(sendCh)
			werr = cmd.Wait()
			data = ovL()
		case "Fetch":
			cmd := cl.Fetch(imap.SeqSet{{Start: 1, Stop: 0}}, &imap.FetchOptions{UID: true})
			close(sendCh)
			for {
				msg := cmd.Next()
				if msg == nil {
					break
				}
				s := local.collectMsg(msg)
				local.Fetch = append(local.Fetch, s)
				local.Delivered++
			}
			werr = cmd.Close()
			data = ovL()
		case "Search", "UIDSearch":
			var cmd *imapclient.SearchCommand
			if k.Kind == "Search" {
				cmd = cl.Search(&imap.SearchCriteria{}, nil)
			} else {
				cmd = cl.UIDSearch(&imap.SearchCriteria{}, nil)
			}
			close(sendCh)
			var d *imap.SearchData
			d, werr = cmd.Wait()
			allKind, allStr := 0, ""
			var seqR, uidR [][2]uint32
			switch a := d.All.(type) {
			case imap.SeqSet:
				allKind, allStr, seqR = 1, a.String(), c11SeqRanges(a)
				if len(a) > 0 {
					local.Delivered++
				}
			case imap.UIDSet:
				allKind, allStr, uidR = 2, a.String(), c11UIDRanges(a)
				if len(a) > 0 {
					local.Delivered++
				}
			}
			if d.All != nil && d.All.Dynamic() {
				local.violate("dynamic-set-delivered:SearchData.All", "SearchData.All is a dynamic set: "+allStr)
			}
			accSeq := local.accOv("SearchData.AllSeqNums", seqR, allKind == 1, slen, func() []uint32 { return d.AllSeqNums() })
			accUID := local.accOv("SearchData.AllUIDs", uidR, allKind == 2, slen, func() []uint32 {
				var out []uint32
				for _, u := range d.AllUIDs() {
					out = append(out, uint32(u))
				}
				return out
			})
			if d.Min != 0 || d.Max != 0 || d.Count != 0 || d.ModSeq != 0 {
				local.Delivered++
			}
			data = ovL(ovN(uint64(allKind)), ovS(allStr), ovBool(d.UID), ovN(uint64(d.Min)), ovN(uint64(d.Max)),
				ovN(uint64(d.Count)), ovN(d.ModSeq), accSeq, accUID)
		case "Sort":
			cmd := cl.Sort(&imapclient.SortOptions{SearchCriteria: &imap.SearchCriteria{}, SortCriteria: []imapclient.SortCriterion{{Key: imapclient.SortKeyDate}}})
			close(sendCh)
			var nums []uint32
			nums, werr = cmd.Wait()
			var it []string
			for _, n := range nums {
				local.Delivered++
				if n == 0 {
					local.violate("zero-delivered:SORT", "message number 0 delivered in SORT data")
				}
				it = append(it, ovN(uint64(n)))
			}
			data = ovL(it...)
		case "Thread":
			cmd := cl.Thread(&imapclient.ThreadOptions{Algorithm: "REFERENCES", SearchCriteria: &imap.SearchCriteria{}})
			close(sendCh)
			var ts []imapclient.ThreadData
			ts, werr = cmd.Wait()
			var it []string
			for _, t := range ts {
				local.Delivered++
				var s string
				d := c11ThreadDepth(t)
				if d > c11Deep {
					s = ovL(ovN(3), ovN(uint64(d)), ovN(uint64(c11ThreadSize(t))))
				} else {
					s, _ = local.threadOv(t, 1)
				}
				if d > c11Deep && c11ThreadHasZero(t) {
					local.violate("zero-delivered:THREAD", "message number 0 delivered in THREAD data")
				}
				if d > 1000 {
					local.violate("deep-structure:THREAD", fmt.Sprintf("thread nested %d deep delivered", d))
				}
				it = append(it, s)
			}
			data = ovL(it...)
		case "Expunge":
			cmd := cl.Expunge()
			close(sendCh)
			var nums []uint32
			nums, werr = cmd.Collect()
			var it []string
			for _, n := range nums {
				local.Delivered++
				it = append(it, ovN(uint64(n)))
			}
			data = ovL(it...)
		case "Status":
			cmd := cl.Status(k.Param, &imap.StatusOptions{NumMessages: true})
			close(sendCh)
			var d *imap.StatusData
			d, werr = cmd.Wait()
			received := d.Mailbox != "" || d.NumMessages != nil || d.UIDNext != 0 || d.UIDValidity != 0 || d.NumUnseen != nil ||
				d.NumDeleted != nil || d.Size != nil || d.AppendLimit != nil || d.DeletedStorage != nil || d.HighestModSeq != 0
			if !received {
				data = ovL()
			} else {
				local.Delivered++
				p32 := func(p *uint32) string {
					if p == nil {
						return ovL()
					}
					return ovL(ovN(uint64(*p)))
				}
				p64 := func(p *int64) string {
					if p == nil {
						return ovL()
					}
					if *p < 0 {
						local.violate("negative-size", "negative 64-bit STATUS number delivered")
					}
					return ovL(ovN(uint64(*p)))
				}
				data = ovL(ovS(d.Mailbox), p32(d.NumMessages), ovN(uint64(d.UIDNext)), ovN(uint64(d.UIDValidity)), p32(d.NumUnseen),
					p32(d.NumDeleted), p64(d.Size), p32(d.AppendLimit), p64(d.DeletedStorage), ovN(d.HighestModSeq))
			}
		case "List", "ListStatus":
			var lo *imap.ListOptions
			if k.Kind == "ListStatus" {
				// LIST ... RETURN (STATUS ...): untagged STATUS responses are attached to the
				// mailbox listed last (direct oracles only, the model has no such command)
				lo = &imap.ListOptions{ReturnStatus: &imap.StatusOptions{NumMessages: true, NumUnseen: true}}
			}
			cmd := cl.List("", "*", lo)
			close(sendCh)
			var it []string
			for {
				d := cmd.Next()
				if d == nil {
					break
				}
				local.Delivered++
				var attrs []string
				for _, a := range d.Attrs {
					attrs = append(attrs, ovS(string(a)))
				}
				ci := ovL()
				if d.ChildInfo != nil {
					ci = ovL(ovBool(d.ChildInfo.Subscribed))
				}
				if d.Delim < 0 {
					local.violate("negative-delim", "negative delimiter delivered")
				}
				it = append(it, ovL(ovL(attrs...), ovN(uint64(d.Delim)), ovS(d.Mailbox), ci, ovS(d.OldName)))
			}
			werr = cmd.Close()
			data = ovL(it...)
		case "Select":
			cmd := cl.Select(k.Param, nil)
			close(sendCh)
			var d *imap.SelectData
			d, werr = cmd.Wait()
			lst := ovL()
			if d.List != nil {
				lst = ovL(ovS(d.List.Mailbox))
			}
			data = ovL(ovN(uint64(d.NumMessages)), c11FlagsOv(d.Flags), c11FlagsOv(d.PermanentFlags), ovN(uint64(d.UIDNext)),
				ovN(uint64(d.UIDValidity)), ovN(d.HighestModSeq), lst)
		case "Copy":
			cmd := cl.Copy(imap.SeqSet{{Start: 1, Stop: 1}}, "x")
			close(sendCh)
			var d *imap.CopyData
			d, werr = cmd.Wait()
			if d.SourceUIDs.Dynamic() || d.DestUIDs.Dynamic() {
				local.violate("dynamic-set-delivered:COPYUID", "dynamic UID set delivered in CopyData")
			}
			if len(d.SourceUIDs) > 0 {
				local.Delivered++
			}
			local.accOv("CopyData.SourceUIDs.Nums", c11UIDRanges(d.SourceUIDs), true, slen, func() []uint32 { n, _ := d.SourceUIDs.Nums(); return c11UIDNums(n) })
			local.accOv("CopyData.DestUIDs.Nums", c11UIDRanges(d.DestUIDs), true, slen, func() []uint32 { n, _ := d.DestUIDs.Nums(); return c11UIDNums(n) })
			data = ovL(ovN(uint64(d.UIDValidity)), ovS(d.SourceUIDs.String()), ovS(d.DestUIDs.String()))
		case "Move":
			cmd := cl.Move(imap.SeqSet{{Start: 1, Stop: 1}}, "x")
			close(sendCh)
			var d *imapclient.MoveData
			d, werr = cmd.Wait()
			if d == nil {
				data = ovL()
			} else if d.SourceUIDs == nil {
				data = ovL(ovN(uint64(d.UIDValidity)))
			} else {
				local.Delivered++
				if d.SourceUIDs.Dynamic() || d.DestUIDs.Dynamic() {
					local.violate("dynamic-set-delivered:COPYUID", "dynamic UID set delivered in MoveData")
				}
				data = ovL(ovN(uint64(d.UIDValidity)), ovS(c11NumSetStr(d.SourceUIDs)), ovS(c11NumSetStr(d.DestUIDs)))
			}
		case "Append":
			cmd := cl.Append("INBOX", 1, nil)
			cmd.Write([]byte("x"))
			cmd.Close()
			close(sendCh)
			var d *imap.AppendData
			d, werr = cmd.Wait()
			if d.UID != 0 || d.UIDValidity != 0 {
				local.Delivered++
			}
			data = ovL(ovN(uint64(d.UIDValidity)), ovN(uint64(d.UID)))
		case "GetQuota":
			cmd := cl.GetQuota(k.Param)
			close(sendCh)
			var d *imapclient.QuotaData
			d, werr = cmd.Wait()
			if d == nil {
				data = ovL()
			} else {
				local.Delivered++
				data = ovL(c11QuotaOv(d))
			}
		case "GetQuotaRoot":
			cmd := cl.GetQuotaRoot(k.Param)
			close(sendCh)
			var ds []imapclient.QuotaData
			ds, werr = cmd.Wait()
			var it []string
			for i := range ds {
				local.Delivered++
				it = append(it, c11QuotaOv(&ds[i]))
			}
			data = ovL(it...)
		case "GetMetadata":
			cmd := cl.GetMetadata(k.Param, []string{"/shared/comment"}, nil)
			close(sendCh)
			var d *imapclient.GetMetadataData
			d, werr = cmd.Wait()
			if d.Entries == nil {
				data = ovL()
			} else {
				local.Delivered++
				var names []string
				for n := range d.Entries {
					names = append(names, n)
				}
				sort.Strings(names)
				var it []string
				for _, n := range names {
					v := d.Entries[n]
					if v == nil {
						it = append(it, ovL(ovS(n), ovL()))
					} else {
						it = append(it, ovL(ovS(n), ovL(ovB(*v))))
					}
				}
				data = ovL(ovS(d.Mailbox), ovL(it...))
			}
		case "Namespace":
			cmd := cl.Namespace()
			close(sendCh)
			var d *imap.NamespaceData
			d, werr = cmd.Wait()
			if d.Personal != nil || d.Other != nil || d.Shared != nil {
				local.Delivered++
			}
			var ls []string
			for _, l := range [][]imap.NamespaceDescriptor{d.Personal, d.Other, d.Shared} {
				var it []string
				for _, n := range l {
					if n.Delim < 0 {
						local.violate("negative-delim", "negative delimiter delivered")
					}
					it = append(it, ovL(ovS(n.Prefix), ovN(uint64(n.Delim))))
				}
				ls = append(ls, ovL(it...))
			}
			data = ovL(ls...)
		case "Capability":
			cmd := cl.Capability()
			close(sendCh)
			var c imap.CapSet
			c, werr = cmd.Wait()
			if c == nil {
				data = ovL()
			} else {
				local.Delivered++
				data = ovL(c11CapsOv(c))
			}
		case "Enable":
			cmd := cl.Enable(imap.CapUTF8Accept)
			close(sendCh)
			var d *imapclient.EnableData
			d, werr = cmd.Wait()
			if d.Caps == nil {
				data = ovL()
			} else {
				local.Delivered++
				data = ovL(c11CapsOv(d.Caps))
			}
		default:
			panic("unknown command kind " + k.Kind)
		}
	}()

	select {
	case <-wc.closed:
	case <-time.After(timeout):
		res.Hung = "the reader did not finish within " + timeout.String()
	}
	res.Dur = time.Since(t0)
	if measure {
		runtime.ReadMemStats(&ms1)
		res.Alloc = ms1.TotalAlloc - ms0.TotalAlloc
	}
	if res.Hung == "" {
		select {
		case <-collected:
		case <-time.After(timeout):
			res.Hung = "the command result could not be read within " + timeout.String() + " after the reader finished"
		}
	}
	if res.Hung != "" {
		// unblock everything; the goroutines of this run are abandoned
		wc.Close()
		select {
		case <-collected:
		case <-time.After(2 * time.Second):
		}
		return res
	}
	var cerr error
	if !withTimeout(timeout, func() { cerr = cl.Close() }) {
		res.Hung = "Client.Close did not return"
		return res
	}
	// unilateral FETCH handlers run in goroutines started by the reader ("go handler(msg)"),
	// all of them created by now: wait until no new message has arrived for a while
	if bytes.Contains(stream, []byte("FETCH")) {
		deadline := time.Now().Add(3 * time.Second)
		last, stable := -1, 0
		for stable < 6 && time.Now().Before(deadline) {
			mu.Lock()
			n := len(res.Fetch)
			mu.Unlock()
			if n == last {
				stable++
			} else {
				last, stable = n, 0
			}
			time.Sleep(2 * time.Millisecond)
		}
	}
	mu.Lock()
	defer mu.Unlock()
	res.Wait = c11WaitClass(werr)
	res.Data = data
	res.Fetch = append(res.Fetch, local.Fetch...)
	res.Delivered += local.Delivered
	res.Violations = append(res.Violations, local.Violations...)
	switch {
	case cerr == nil:
		res.Close = 0
	case strings.Contains(cerr.Error(), "panic reading response"):
		res.Close = 2
		res.CloseErr = cerr.Error()
		res.violate("reader-panic", "the reader goroutine panicked (recovered): "+c11FirstLine(cerr.Error()))
	default:
		res.Close = 1
		res.CloseErr = c11FirstLine(cerr.Error())
	}
	// Caps() goes through WaitGreeting, whose select between the greeting and the "reader has
	// stopped" channel is random once both are closed: retry until the greeting branch wins
	var caps imap.CapSet
	for i := 0; i < 60 && caps == nil; i++ {
		caps = cl.Caps()
	}
	res.Caps = c11CapsOv(caps)
	return res
}

func c11UIDNums(l []imap.UID) []uint32 {
	out := make([]uint32, len(l))
	for i, u := range l {
		out[i] = uint32(u)
	}
	return out
}

func c11FirstLine(s string) string {
	if i := strings.IndexByte(s, '\n'); i >= 0 {
		s = s[:i]
	}
	if len(s) > 300 {
		s = s[:300]
	}
	return s
}

// ---- Coq case ---------------------------------------------------------------------------

func (r *c11Result) coqObs() string {
	fetch := append([]string(nil), r.Fetch...)
	sort.Strings(fetch)
	return fmt.Sprintf("mkObs %d %d (%s) %s (%s) (%s)", r.Close, r.Wait, ovL(r.Uni...), coqList(c11ParenAll(fetch)), r.Caps, r.Data)
}

func c11CoqCase(k c11Cmd, stream []byte, r *c11Result) string {
	var caps []string
	for _, c := range c11GreetingCaps {
		caps = append(caps, coqHxS(c))
	}
	return fmt.Sprintf("(%s, %s, %s, %s)", k.coq(), coqList(caps), coqHx(stream), r.coqObs())
}

var c11Imports = []string{
	"From GoImap.Base Require Import Bytes.",
	"From GoImap.Model Require Import NumSet MatchList ClientResp ClientRespCorr.",
}

type c11CaseDesc struct {
	Cmd    string `json:"cmd"`
	Param  string `json:"param,omitempty"`
	Stream string `json:"stream"` // Go-quoted
	Origin string `json:"origin"`
	Close  int    `json:"close_class"`
	Wait   int    `json:"wait_class"`
	Err    string `json:"close_error,omitempty"`
}

func c11Desc(k c11Cmd, stream []byte, origin string, r *c11Result) c11CaseDesc {
	s := fmt.Sprintf("%q", stream)
	if len(s) > 6000 {
		s = s[:3000] + "…" + s[len(s)-3000:]
	}
	return c11CaseDesc{Cmd: k.Kind, Param: k.Param, Stream: s, Origin: origin, Close: r.Close, Wait: r.Wait, Err: r.CloseErr}
}

// ---- the run ------------------------------------------------------------------------------

// c11Polluted is set once a run has been abandoned as hung: its goroutines may still be burning
// CPU and memory, so time and allocation measured afterwards prove nothing
var c11Polluted bool

type c11Case struct {
	cmd    c11Cmd
	stream []byte
	origin string // corpus / grammar:<kind> / mutated:<kind> / garbage / depth:<family>
	noCorr bool   // direct oracles only (e.g. streams too long for the in-kernel evaluation)
	reject string // corpus: the invariant this stream violates; the client must report an error
}

func runC11(h *H) {
	h.Rule("A real imapclient.Client with one pending command (18 command kinds) is fed complete server byte streams: a corpus of known nasty inputs, " +
		"grammar-generated responses of every kind the client parses (status responses and codes, CAPABILITY, ENABLED, FLAGS, EXISTS, EXPUNGE, FETCH with " +
		"envelopes/body structures/sections/literals, SEARCH, ESEARCH, SORT, THREAD, LIST, STATUS, NAMESPACE, QUOTA, QUOTAROOT, METADATA, tagged responses with " +
		"APPENDUID/COPYUID), byte- and token-level mutations of them, boundary numbers, nesting bombs and garbage. Direct oracles: no reader panic, no accessor " +
		"panic (every accessor of every delivered value is called under recover), no hang, no message number 0 / dynamic set / structure deeper than 1000 delivered, " +
		"accessor cost and parse time/allocation linear in the input size (size families at n, 4n). Correspondence: Wait/Close error class, command data, unilateral " +
		"handler calls, all FETCH messages and the capability set against Model/ClientResp.v evaluated in Coq. An evaluation is one stream run on the real client; " +
		"non-trivial = something was delivered or the stream was read to its end; distinct by (command, stream).")
	c11LibraryFacts(h)

	corr := h.NewCorr("resp", c11Imports, "resp_mismatches", h.Pick(300, 300)).Type("resp_case")
	corrBig := h.NewCorr("respbig", c11Imports, "resp_mismatches", 8).Type("resp_case")
	cases := c11Cases(h)
	type done struct {
		c c11Case
		r *c11Result
	}
	results := make([]done, len(cases))
	workers := 8
	var wg sync.WaitGroup
	next := make(chan int)
	for w := 0; w < workers; w++ {
		wg.Add(1)
		go func() {
			defer wg.Done()
			for i := range next {
				results[i] = done{cases[i], c11Exec(cases[i].cmd, cases[i].stream, 20*time.Second, false)}
			}
		}()
	}
	// a panic in a goroutine of the library kills the process: keep the cases that can be
	// running (8 workers) on disk so that the crash can be attributed
	var ring []map[string]interface{}
	for i := range cases {
		ring = append(ring, map[string]interface{}{"index": i, "cmd": cases[i].cmd.Kind, "param": cases[i].cmd.Param, "origin": cases[i].origin, "stream": fmt.Sprintf("%q", c11Trunc(cases[i].stream, 600))})
		if len(ring) > workers+2 {
			ring = ring[1:]
		}
		h.InFlight(map[string]interface{}{"running_or_recent": ring})
		next <- i
	}
	close(next)
	wg.Wait()

	for _, d := range results {
		c, r := d.c, d.r
		desc := c11Desc(c.cmd, c.stream, c.origin, r)
		h.Hist(strings.SplitN(strings.SplitN(c.origin, ":", 2)[0], "#", 2)[0])
		h.Hist("cmd:" + c.cmd.Kind)
		h.Hist(fmt.Sprintf("close=%d", r.Close))
		key := ""
		if r.Delivered > 0 || r.Close == 0 {
			key = c.cmd.Kind + "|" + c.cmd.Param + "|" + string(c.stream)
		}
		h.Eval(key)
		if r.Hung != "" {
			c11Polluted = true
			h.Fail("hang:"+c11OriginFamily(c.origin), "the client hangs: "+r.Hung, desc)
			continue
		}
		for _, v := range r.Violations {
			p := strings.SplitN(v, "\x00", 2)
			h.Fail(p[0], p[1], desc)
		}
		if c.reject != "" && r.Close == 0 {
			h.Fail("accepted-invalid:"+c.reject, "a stream that violates a protocol invariant ("+c.reject+") was accepted without an error", desc)
		}
		// quick tier: long streams are checked by the direct oracles only (reading a 20 kB hex
		// literal into the kernel costs more than running the case)
		if !c.noCorr && (h.Thorough() || len(c.stream) <= 5000) {
			if len(c.stream) > 1500 {
				corrBig.Add(c11CoqCase(c.cmd, c.stream, r), desc)
			} else {
				corr.Add(c11CoqCase(c.cmd, c.stream, r), desc)
			}
		}
		if len(h.samples) < 12 && r.Delivered > 0 && h.Rng.Intn(40) == 0 {
			h.Sample(desc)
		}
	}
	c11Growth(h)
}

func c11OriginFamily(origin string) string {
	return strings.SplitN(origin, "#", 2)[0]
}

func c11Trunc(b []byte, n int) []byte {
	if len(b) > n {
		return b[:n]
	}
	return b
}

// c11LibraryFacts re-measures the facts about Go's string functions the model relies on.
func c11LibraryFacts(h *H) {
	for r := rune(0x80); r <= 0x10FFFF; r++ {
		u := strings.ToUpper(string(r))
		if len(u) == 1 && !(r == 0x131 && u == "I") && !(r == 0x17F && u == "S") {
			h.Fail("library-fact:ToUpper", fmt.Sprintf("strings.ToUpper(%U) = %q is ASCII: the model's go_upper is wrong", r, u), nil)
		}
		if (r == 0x131 && u != "I") || (r == 0x17F && u != "S") {
			h.Fail("library-fact:ToUpper", fmt.Sprintf("strings.ToUpper(%U) = %q", r, u), nil)
		}
	}
	for r := rune(0x80); r <= 0x10FFFF; r++ {
		for c := 'a'; c <= 'z'; c++ {
			if strings.EqualFold(string(r), string(c)) != ((r == 0x17F && c == 's') || (r == 0x212A && c == 'k')) {
				h.Fail("library-fact:EqualFold", fmt.Sprintf("strings.EqualFold(%U, %q) differs from the model's go_equal_fold", r, c), nil)
			}
		}
	}
	if strings.ToUpper("a\xffb") == "A\xffB" || c11IsASCII7(strings.ToUpper("\xff")) {
		h.Fail("library-fact:ToUpper", "strings.ToUpper keeps or maps invalid UTF-8 to ASCII", nil)
	}
	h.Eval("")
}
