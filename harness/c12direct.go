package main

import (
	"fmt"
	"time"

	imap "github.com/emersion/go-imap/v2"
	"github.com/emersion/go-imap/v2/imapclient"
)

// Directed C12 cases that the random scripts do not reach.
//
//   - data responses are delivered to the command they answer: FETCH / UID FETCH whose set ends in
//     "*" (the last message of the mailbox, whatever its number) or is the saved search result "$".
//   - STATUS data is delivered to the command for the mailbox it names: every ordered pair of
//     mailbox names (spellings that differ only in case are different mailboxes, except INBOX),
//     two pipelined STATUS commands, answered in either order.
//   - the reported state equals what the transcript so far implies: when a command's Wait has
//     returned, the tagged response is part of the transcript the caller knows about, so State()
//     and Mailbox() read right after Wait must already reflect it.
func c12Directed(h *H) {
	c12StarFetch(h)
	c12StatusNames(h)
	c12WaitThenState(h)
}

type c12StarCase struct {
	name  string
	set   imap.NumSet
	reply []string // untagged FETCH lines the server sends in answer
	want  []uint32 // sequence numbers the command must collect
}

func c12StarFetch(h *H) {
	seq := func(start, stop uint32) imap.NumSet {
		var s imap.SeqSet
		if start == stop {
			s.AddNum(start)
		} else {
			s.AddRange(start, stop)
		}
		return s
	}
	uid := func(start, stop imap.UID) imap.NumSet {
		var s imap.UIDSet
		if start == stop {
			s.AddNum(start)
		} else {
			s.AddRange(start, stop)
		}
		return s
	}
	// the selected mailbox has 3 messages with UIDs 7, 8, 9 (0 stands for "*")
	last := `* 3 FETCH (UID 9 FLAGS (\Seen))`
	all := []string{`* 1 FETCH (UID 7 FLAGS ())`, `* 2 FETCH (FLAGS () UID 8)`, last}
	cases := []c12StarCase{
		{"seq-star", seq(0, 0), []string{last}, []uint32{3}},
		{"seq-5-star", seq(5, 0), []string{last}, []uint32{3}}, // 5:* = 3:5 on a 3-message mailbox
		{"seq-1-star", seq(1, 0), all, []uint32{1, 2, 3}},
		{"seq-2-star", seq(2, 0), all[1:], []uint32{2, 3}},
		{"uid-star", uid(0, 0), []string{last}, []uint32{3}},
		{"uid-20-star", uid(20, 0), []string{last}, []uint32{3}}, // 20:* = 9:20
		{"uid-8-star", uid(8, 0), all[1:], []uint32{2, 3}},
		{"uid-searchres", imap.SearchRes(), all[1:], []uint32{2, 3}},
	}
	for _, tc := range cases {
		for _, grown := range []bool{false, true} {
			desc := map[string]interface{}{"directed": "star-fetch", "set": tc.name, "set_text": tc.set.String(), "reply": tc.reply, "mailbox_grown_before": grown}
			h.InFlight(desc)
			peer := newPeer("* OK [CAPABILITY IMAP4rev1 SEARCHRES] hi\r\n")
			reply := tc.reply
			peer.OnCommand = func(p *scriptedPeer, c *peerCmd) {
				switch c.Name {
				case "SELECT":
					n := 3
					if grown {
						n = 2 // the third message arrives later, announced by a unilateral EXISTS
					}
					p.Send(fmt.Sprintf("* %d EXISTS\r\n* FLAGS (\\Seen)\r\n%s OK [READ-WRITE] selected\r\n", n, c.Tag))
				case "NOOP":
					p.Send("* 3 EXISTS\r\n" + c.Tag + " OK done\r\n")
				case "FETCH", "UID FETCH":
					out := ""
					for _, l := range reply {
						out += l + "\r\n"
					}
					p.Send(out + c.Tag + " OK done\r\n")
				default:
					p.Send(c.Tag + " OK done\r\n")
				}
			}
			unilateral := 0
			client, _ := peer.dialClient(&imapclient.Options{UnilateralDataHandler: &imapclient.UnilateralDataHandler{
				Fetch: func(msg *imapclient.FetchMessageData) {
					unilateral++
					for msg.Next() != nil {
					}
				},
			}})
			var got []uint32
			var err error
			ok := withTimeout(5*time.Second, func() {
				if _, err = client.Select("boxa", nil).Wait(); err != nil {
					return
				}
				if grown {
					if err = client.Noop().Wait(); err != nil {
						return
					}
				}
				var msgs []*imapclient.FetchMessageBuffer
				msgs, err = client.Fetch(tc.set, &imap.FetchOptions{Flags: true, UID: true}).Collect()
				for _, m := range msgs {
					got = append(got, m.SeqNum)
				}
			})
			withTimeout(3*time.Second, func() { client.Close() })
			peer.Close()
			desc["collected"] = got
			if !ok || err != nil {
				h.Fail("directed-star-fetch-failed", fmt.Sprintf("FETCH %s did not complete: returned=%v err=%v", tc.set.String(), ok, err), desc)
			} else if fmt.Sprint(got) != fmt.Sprint(tc.want) {
				h.Fail("data-misrouted:fetch-star:"+tc.name, fmt.Sprintf("FETCH %s on a 3-message mailbox (UIDs 7,8,9) was answered with %v but Collect returned the messages %v (want %v); %d went to the unilateral-data handler", tc.set.String(), tc.reply, got, tc.want, unilateral), desc)
			}
			h.Eval("star-fetch|" + tc.name + fmt.Sprint(grown))
			h.Hist("directed:star-fetch")
		}
	}
}

// c12WaitThenState: SELECT of two mailboxes alternately and UNSELECT, each followed at once by
// State() and Mailbox(), while other goroutines keep calling State() (which is allowed, C13).
func c12WaitThenState(h *H) {
	desc := map[string]interface{}{"directed": "wait-then-state"}
	h.InFlight(desc)
	peer := newPeer("* OK [CAPABILITY IMAP4rev1 UNSELECT] hi\r\n")
	peer.OnCommand = func(p *scriptedPeer, c *peerCmd) {
		switch c.Name {
		case "SELECT":
			p.Send("* 3 EXISTS\r\n" + c.Tag + " OK [READ-WRITE] selected\r\n")
		default:
			p.Send(c.Tag + " OK done\r\n")
		}
	}
	client, _ := peer.dialClient(nil)
	defer peer.Close()
	defer func() { withTimeout(3*time.Second, func() { client.Close() }) }()
	stop := make(chan struct{})
	defer close(stop)
	for g := 0; g < 4; g++ {
		go func() {
			for {
				select {
				case <-stop:
					return
				default:
					client.State()
				}
			}
		}()
	}
	trials := h.Pick(3000, 30000)
	lag := 0
	first := ""
	ok := withTimeout(60*time.Second, func() {
		for i := 0; i < trials; i++ {
			name := []string{"boxa", "boxb"}[i%2]
			if i%5 == 4 {
				if err := client.Unselect().Wait(); err != nil {
					first = "UNSELECT failed: " + err.Error()
					lag++
					return
				}
				st, mb := client.State(), client.Mailbox()
				if st != imap.ConnStateAuthenticated || mb != nil {
					if lag == 0 {
						first = fmt.Sprintf("trial %d: after Unselect().Wait() returned OK, State() = %v and Mailbox() nil=%v", i, st, mb == nil)
					}
					lag++
				}
				continue
			}
			if _, err := client.Select(name, nil).Wait(); err != nil {
				first = "SELECT failed: " + err.Error()
				lag++
				return
			}
			st, mb := client.State(), client.Mailbox()
			if st != imap.ConnStateSelected || mb == nil || mb.Name != name {
				if lag == 0 {
					got := "nil"
					if mb != nil {
						got = mb.Name
					}
					first = fmt.Sprintf("trial %d: after Select(%q).Wait() returned OK, State() = %v and Mailbox() = %s", i, name, st, got)
				}
				lag++
			}
		}
	})
	desc["trials"] = trials
	desc["lagging"] = lag
	if !ok {
		h.Fail("directed-wait-then-state-hang", "the SELECT/UNSELECT loop did not finish", desc)
	} else if lag > 0 {
		h.Fail("state-lags-wait", fmt.Sprintf("in %d of %d trials the mirrored state was still the old one after the command's Wait had returned (%s)", lag, trials, first), desc)
	}
	h.Eval("wait-then-state")
	h.Hist("directed:wait-then-state")
}

// c12StatusNames: two pipelined STATUS commands for every ordered pair of names of c12Boxes,
// answered in submission order and (when the names designate different mailboxes, so that the
// commands are independent and their responses unambiguous, RFC 9051 5.5) in reverse order. Each
// command's Wait must return the data of the STATUS response naming its own mailbox.
func c12StatusNames(h *H) {
	peer := newPeer("* OK [CAPABILITY IMAP4rev1] hi\r\n")
	defer peer.Close()
	client, _ := peer.dialClient(nil)
	defer func() { withTimeout(3*time.Second, func() { client.Close() }) }()
	type res struct {
		box string
		num int
		err error
	}
	n := 0
	for _, a := range c12Boxes {
		for _, b := range c12Boxes {
			for _, reverse := range []bool{false, true} {
				if reverse && boxKey(a) == boxKey(b) {
					continue
				}
				n += 2
				want := [2]int{1000 + n, 1001 + n}
				desc := map[string]interface{}{"directed": "status-names", "first": a, "second": b, "answered_in_reverse_order": reverse}
				h.InFlight(desc)
				var got [2]res
				ok := withTimeout(5*time.Second, func() {
					cmds := [2]*imapclient.StatusCommand{
						client.Status(a, &imap.StatusOptions{NumMessages: true}),
						client.Status(b, &imap.StatusOptions{NumMessages: true}),
					}
					var rcv []*peerCmd
					for i := 0; i < 2000; i++ {
						if rcv = peer.Commands(); len(rcv) >= n {
							break
						}
						time.Sleep(time.Millisecond)
					}
					if len(rcv) < n {
						got[0].err = fmt.Errorf("the peer received %d of %d commands", len(rcv), n)
						return
					}
					order := []int{0, 1}
					if reverse {
						order = []int{1, 0}
					}
					var lines []string
					for _, k := range order {
						name := []string{a, b}[k]
						if boxKey(name) == "INBOX" && (n/2)%2 == 0 {
							name = "INBOX"
						}
						lines = append(lines, fmt.Sprintf("* STATUS %q (MESSAGES %d)", name, want[k]), rcv[n-2+k].Tag+" OK done")
					}
					desc["server"] = lines
					for _, l := range lines {
						peer.Send(l + "\r\n")
					}
					for k, c := range cmds {
						d, err := c.Wait()
						got[k].err = err
						if d != nil {
							got[k].box = d.Mailbox
							if d.NumMessages != nil {
								got[k].num = int(*d.NumMessages)
							}
						}
					}
				})
				if !ok || got[0].err != nil || got[1].err != nil {
					h.Fail("directed-status-names-failed", fmt.Sprintf("STATUS %q and STATUS %q did not both complete: returned=%v err=%v / %v", a, b, ok, got[0].err, got[1].err), desc)
					return
				}
				for k, name := range []string{a, b} {
					if got[k].num != want[k] || boxKey(got[k].box) != boxKey(name) {
						h.Fail("data-misrouted:status-names", fmt.Sprintf("STATUS %q (pipelined with STATUS %q, reverse=%v) was answered with MESSAGES %d but its Wait returned Mailbox=%q MESSAGES=%d", name, []string{b, a}[k], reverse, want[k], got[k].box, got[k].num), desc)
					}
				}
				h.Eval(fmt.Sprintf("status-names|%s|%s|%v", a, b, reverse))
				h.Hist("directed:status-names")
			}
		}
	}
}
