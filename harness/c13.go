package main

import (
	"fmt"
	"net"
	"os"
	"strings"
	"sync"
	"sync/atomic"
	"time"

	imap "github.com/emersion/go-imap/v2"
	"github.com/emersion/go-imap/v2/imapclient"
)

func init() { runners["C13"] = runC13 }

// slowCloseConn delays Close, widening the window between the moment the client decides to
// tear the connection down and the moment writes start to fail.
type slowCloseConn struct {
	net.Conn
	delay time.Duration
}

func (c *slowCloseConn) Close() error {
	time.Sleep(c.delay)
	return c.Conn.Close()
}

// runC13: N goroutines share one client and issue commands of every kind while another
// goroutine queries State/Caps/Mailbox, ENABLE changes the enabled set, and the server or the
// caller ends the connection at a random moment. Every command must complete exactly once
// (its Wait returns once, within the watchdog), tags on the wire must be unique, Close must
// return. Run natively and (by bin/check) under the race detector.
func runC13(h *H) {
	h.Rule("one imapclient.Client shared by 2..8 goroutines issuing NOOP, STATUS, LIST (streamed), FETCH with a body literal (streamed), SEARCH (with non-ASCII criteria, so that the enabled set is consulted), APPEND (literal-bearing), ENABLE, IDLE (every third one refused by the server), UNAUTHENTICATE followed by LOGIN, concurrently with a goroutine calling State/Caps/Mailbox and reading the fields of the returned mailbox snapshot while unilateral EXISTS/EXPUNGE/FLAGS arrive, and with the connection ended at a random moment by the server (close) or by the caller (Client.Close); in half of the runs the connection's Close takes 1-4 ms (30 ms when combined with the stop-after-error mode), so that commands are submitted while the client is tearing down; in half of the runs every goroutine stops after its first failed command and one more attempt (so that no later failing write rescues a command orphaned by the teardown). Targeted: 2 goroutines in Idle/Close/Wait loops against 2 in Append loops (synchronising literal) on a connection that stays up — all 240 operations must complete. Oracle: every Wait returns exactly once within the watchdog, with an error if the command had not completed; tags received by the server are pairwise distinct; Close returns; the same run under the Go race detector must report no race whose stack involves imapclient or internal/imapwire. Non-trivial = the run ended the connection while commands were in flight; distinct by seed.")
	// targeted: one command submitted while the client is tearing down after the server went
	// away, with a slow connection Close and nobody else around to fail a write later
	for k := 0; k < h.Pick(20, 100); k++ {
		desc := map[string]interface{}{"scenario": "submit-during-teardown", "round": k}
		h.InFlight(desc)
		peer := newPeer("* OK [CAPABILITY IMAP4rev1] ready\r\n")
		peer.OnCommand = okAll("IMAP4rev1")
		conn, err := net.Dial("tcp", peer.Addr())
		if err != nil {
			panic(err)
		}
		client := imapclient.New(&slowCloseConn{Conn: conn, delay: 40 * time.Millisecond}, nil)
		if err := client.WaitGreeting(); err != nil {
			h.Fail("greeting", err.Error(), desc)
			peer.Close()
			continue
		}
		res := make(chan bool, 1)
		go func() {
			ok := true
			for ok {
				var err error
				ok = withTimeout(3*time.Second, func() { err = client.Noop().Wait() })
				if err != nil {
					break
				}
			}
			// the connection is gone: one more attempt must fail, not hang
			res <- ok && withTimeout(3*time.Second, func() { client.Noop().Wait() })
		}()
		time.Sleep(time.Duration(1+k%3) * time.Millisecond)
		peer.CloseConn()
		select {
		case ok := <-res:
			if !ok {
				h.Fail("completion-missing", "a NOOP submitted around the moment the server closed the connection (while the client was closing its side) never completed", desc)
			}
		case <-time.After(8 * time.Second):
			h.Fail("completion-missing", "the NOOP loop did not notice that the server closed the connection", desc)
		}
		withTimeout(3*time.Second, func() { client.Close() })
		peer.Close()
		h.Eval(fmt.Sprintf("teardown-%d", k))
		h.Hist("scenario:submit-during-teardown")
		if h.failed("completion-missing") {
			break
		}
	}

	// targeted: commands that wait for a continuation request (IDLE, AUTHENTICATE-like) against
	// literal-bearing commands (APPEND, which waits for "+" too), on a connection that stays up:
	// nobody's failing write or connection loss comes to the rescue, every command must complete
	for k := 0; k < h.Pick(6, 40) && !h.failed("completion-missing:idle-vs-append"); k++ {
		desc := map[string]interface{}{"scenario": "idle-vs-append", "round": k}
		h.InFlight(desc)
		peer := newPeer("* OK [CAPABILITY IMAP4rev1 IDLE] ready\r\n")
		var idleTag string
		peer.OnCommand = func(p *scriptedPeer, c *peerCmd) {
			switch {
			case c.Name == "IDLE":
				idleTag = c.Tag
				p.Send("+ idling\r\n")
			case c.Tag == "DONE":
				p.Send(idleTag + " OK done\r\n")
			default:
				p.Send(c.Tag + " OK done\r\n")
			}
		}
		client, _ := peer.dialClient(nil)
		if err := client.WaitGreeting(); err != nil {
			h.Fail("greeting", err.Error(), desc)
			peer.Close()
			continue
		}
		var wg sync.WaitGroup
		var nDone int64
		const perG = 60
		for g := 0; g < 4; g++ {
			wg.Add(1)
			go func(g int) {
				defer wg.Done()
				for i := 0; i < perG; i++ {
					if g%2 == 0 {
						ic, err := client.Idle()
						if err != nil {
							return
						}
						ic.Close()
						ic.Wait()
					} else {
						ac := client.Append("INBOX", 5, nil)
						ac.Write([]byte("hello"))
						ac.Close()
						ac.Wait()
					}
					atomic.AddInt64(&nDone, 1)
				}
			}(g)
		}
		if !withTimeout(6*time.Second, wg.Wait) {
			desc["completed"] = atomic.LoadInt64(&nDone)
			h.Fail("completion-missing:idle-vs-append", fmt.Sprintf("2 goroutines calling Idle/Close/Wait and 2 calling Append (5-byte synchronising literal) on one healthy connection: only %d of %d operations completed, the rest never returned (a \"+\" meant for one command was handed to another)", atomic.LoadInt64(&nDone), 4*perG), desc)
		}
		withTimeout(3*time.Second, func() { client.Close() })
		for _, v := range peer.Violations() {
			h.Fail("literal-sync-violated:idle-vs-append", v, desc)
		}
		peer.Close()
		h.Eval(fmt.Sprintf("idle-vs-append-%d", k))
		h.Hist("scenario:idle-vs-append")
	}

	iters := h.Pick(60, 600)
	if os.Getenv("VERIF_RACE") != "" {
		iters = h.Pick(25, 200)
	}
	for it := 0; it < iters; it++ {
		seed := h.Seed*1000 + int64(it)
		rng := newRand(seed)
		desc := map[string]interface{}{"seed": seed}
		h.InFlight(desc)
		peer := newPeer("* OK [CAPABILITY IMAP4rev1 ENABLE UTF8=ACCEPT IDLE UNAUTHENTICATE] ready\r\n")
		var idleTag string
		idles := 0
		peer.OnCommand = func(p *scriptedPeer, c *peerCmd) {
			switch {
			case c.Name == "CAPABILITY":
				p.Send("* CAPABILITY IMAP4rev1 ENABLE UTF8=ACCEPT IDLE UNAUTHENTICATE\r\n" + c.Tag + " OK done\r\n")
			case c.Name == "ENABLE":
				p.Send("* ENABLED UTF8=ACCEPT\r\n" + c.Tag + " OK done\r\n")
			case c.Name == "LIST":
				p.Send("* LIST () \"/\" INBOX\r\n* LIST () \"/\" {3}\r\nabc\r\n" + c.Tag + " OK done\r\n")
			case c.Name == "FETCH":
				p.Send("* 1 FETCH (UID 7 BODY[] {11}\r\nhello world)\r\n" + c.Tag + " OK done\r\n")
			case c.Name == "SEARCH":
				p.Send("* SEARCH 1 2\r\n" + c.Tag + " OK done\r\n")
			case c.Name == "STATUS":
				// with unilateral updates of the selected mailbox in front of the answer
				p.Send("* 9 EXISTS\r\n* 2 EXPUNGE\r\n* FLAGS (\\Seen $x)\r\n* STATUS INBOX (MESSAGES 3)\r\n" + c.Tag + " OK done\r\n")
			case c.Name == "NOOP":
				p.Send("* 7 EXISTS\r\n* 1 EXPUNGE\r\n" + c.Tag + " OK done\r\n")
			case c.Name == "SELECT":
				p.Send("* 5 EXISTS\r\n* FLAGS (\\Seen \\Deleted)\r\n* OK [PERMANENTFLAGS (\\Seen \\*)] perm\r\n* OK [UIDVALIDITY 9] v\r\n" + c.Tag + " OK [READ-WRITE] selected\r\n")
			case c.Name == "IDLE":
				idles++
				if idles%3 == 0 {
					// the server is not willing to idle right now
					p.Send(c.Tag + " NO not now\r\n")
					return
				}
				idleTag = c.Tag
				p.Send("+ idling\r\n")
			case c.Name == "LOGIN" || c.Name == "UNAUTHENTICATE":
				p.Send(c.Tag + " OK [CAPABILITY IMAP4rev1 ENABLE UTF8=ACCEPT IDLE UNAUTHENTICATE] done\r\n")
			case c.Tag == "DONE":
				p.Send(idleTag + " OK done\r\n")
			default:
				p.Send(c.Tag + " OK done\r\n")
			}
		}
		// half of the runs use a connection whose Close is slow (as a TLS close_notify or a
		// congested socket can be): commands submitted while the client is tearing down must
		// still complete
		var client *imapclient.Client
		slow := it%2 == 1
		stopOnErr := it%4 >= 2
		if slow {
			conn, err := net.Dial("tcp", peer.Addr())
			if err != nil {
				panic(err)
			}
			delay := time.Duration(1+rng.Intn(4)) * time.Millisecond
			if stopOnErr {
				// long enough for every goroutine's last attempt to fall inside the teardown
				delay = 30 * time.Millisecond
			}
			client = imapclient.New(&slowCloseConn{Conn: conn, delay: delay}, nil)
		} else {
			client, _ = peer.dialClient(nil)
		}
		if err := client.WaitGreeting(); err != nil {
			h.Fail("greeting", err.Error(), desc)
			peer.Close()
			continue
		}
		// a selected mailbox, so that the snapshot handed out by Mailbox() is live
		if !withTimeout(5*time.Second, func() { client.Select("INBOX", nil).Wait() }) {
			h.Fail("completion-missing", "SELECT did not return", desc)
			peer.Close()
			continue
		}
		n := 2 + rng.Intn(7)
		perG := 3 + rng.Intn(8)
		var wg sync.WaitGroup
		var issued, completed, hung int64
		endAfter := time.Duration(rng.Intn(6000)) * time.Microsecond
		endByServer := rng.Intn(2) == 0
		inflightAtEnd := int64(0)
		kinds := make([][]int, n)
		for g := 0; g < n; g++ {
			for k := 0; k < perG; k++ {
				kinds[g] = append(kinds[g], rng.Intn(9))
			}
		}
		for g := 0; g < n; g++ {
			wg.Add(1)
			go func(g int) {
				defer wg.Done()
				triedAgain := false
				for _, kind := range kinds[g] {
					atomic.AddInt64(&issued, 1)
					var wait func() error
					switch kind {
					case 0:
						c := client.Noop()
						wait = c.Wait
					case 1:
						c := client.Status("INBOX", &imap.StatusOptions{NumMessages: true})
						wait = func() error { _, err := c.Wait(); return err }
					case 2:
						c := client.List("", "*", nil)
						wait = func() error {
							for c.Next() != nil {
							}
							return c.Close()
						}
					case 3:
						c := client.Fetch(imap.SeqSetNum(1), &imap.FetchOptions{BodySection: []*imap.FetchItemBodySection{{}}})
						wait = func() error { _, err := c.Collect(); return err }
					case 4:
						c := client.Search(&imap.SearchCriteria{Body: []string{"héllo"}}, nil)
						wait = func() error { _, err := c.Wait(); return err }
					case 5:
						ac := client.Append("INBOX", 5, nil)
						wait = func() error {
							ac.Write([]byte("hello"))
							if err := ac.Close(); err != nil {
								return err
							}
							_, err := ac.Wait()
							return err
						}
					case 6:
						c := client.Enable(imap.CapUTF8Accept)
						wait = func() error { _, err := c.Wait(); return err }
					case 7:
						// IDLE, which the server sometimes refuses; whatever happens the client
						// must stay usable for everybody else
						wait = func() error {
							ic, err := client.Idle()
							if err != nil {
								return nil
							}
							time.Sleep(200 * time.Microsecond)
							ic.Close()
							return ic.Wait()
						}
					default:
						// back to the not-authenticated state and in again: command tags must
						// stay unique over the whole connection
						wait = func() error {
							if err := client.Unauthenticate().Wait(); err != nil {
								return err
							}
							return client.Login("u", "p").Wait()
						}
					}
					var werr error
					ok := withTimeout(5*time.Second, func() { werr = wait() })
					if ok {
						atomic.AddInt64(&completed, 1)
					} else {
						atomic.AddInt64(&hung, 1)
						return
					}
					if werr != nil && stopOnErr {
						// like most callers: give up soon after the first failure (one more
						// attempt, submitted while the client is still tearing down) — then nobody
						// else's failing write can come to the rescue of a command orphaned by the
						// teardown
						if triedAgain {
							return
						}
						triedAgain = true
					}
				}
			}(g)
		}
		// observer
		stopObs := make(chan struct{})
		obsSink := 0
		go func() {
			for {
				select {
				case <-stopObs:
					return
				default:
					client.State()
					// the snapshot returned by Mailbox() belongs to the caller: reading its
					// fields must not race with the reader goroutine applying EXISTS/EXPUNGE/FLAGS
					if mb := client.Mailbox(); mb != nil {
						obsSink += int(mb.NumMessages) + len(mb.Flags) + len(mb.PermanentFlags) + len(mb.Name)
					}
					client.Caps()
				}
			}
		}()
		time.Sleep(endAfter)
		inflightAtEnd = atomic.LoadInt64(&issued) - atomic.LoadInt64(&completed)
		closeOK := true
		if endByServer {
			peer.CloseConn()
		} else {
			closeOK = withTimeout(5*time.Second, func() { client.Close() })
		}
		done := make(chan struct{})
		go func() { wg.Wait(); close(done) }()
		select {
		case <-done:
		case <-time.After(10 * time.Second):
		}
		close(stopObs)
		if !closeOK {
			h.Fail("close-hangs", "Client.Close did not return while commands were in flight", desc)
		}
		if atomic.LoadInt64(&hung) > 0 {
			h.Fail("completion-missing", fmt.Sprintf("%d of %d commands never completed (Wait did not return) after the connection ended", hung, issued), desc)
		}
		if !withTimeout(5*time.Second, func() { client.Close() }) {
			h.Fail("close-hangs", "final Client.Close did not return", desc)
		}
		// tags unique on the wire
		seen := map[string]int{}
		for _, c := range peer.Commands() {
			if c.Tag != "DONE" && c.Tag != "" && strings.HasPrefix(c.Tag, "T") {
				seen[c.Tag]++
				if seen[c.Tag] > 1 {
					h.Fail("duplicate-tag", fmt.Sprintf("tag %s used for two commands", c.Tag), desc)
				}
			}
		}
		peer.Close()
		key := ""
		if inflightAtEnd > 0 {
			key = fmt.Sprint(seed)
		}
		h.Eval(key)
		h.Hist(fmt.Sprintf("goroutines:%d", n))
		if slow {
			h.Hist("conn:slow-close")
		}
		if stopOnErr {
			h.Hist("callers:stop-on-first-error")
		}
		if endByServer {
			h.Hist("ended_by:server")
		} else {
			h.Hist("ended_by:caller")
		}
		if key != "" && it%20 == 0 {
			h.Sample(map[string]interface{}{"seed": seed, "goroutines": n, "commands_each": perG, "in_flight_at_end": inflightAtEnd, "ended_by_server": endByServer})
		}
	}
}
