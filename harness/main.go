// Command verifharness runs the real go-imap code (from /repo's working tree, built with
// -tags verif) on generated cases, applies the direct property oracles, and writes the
// observations as Coq case files for the in-kernel correspondence check.
package main

import (
	"flag"
	"fmt"
	"os"
	"sort"
)

type propRunner func(h *H)

var runners = map[string]propRunner{}

func main() {
	if len(os.Args) < 2 {
		fmt.Fprintln(os.Stderr, "usage: verifharness <Cxx> [-tier quick|thorough] [-seed n] [-out dir] [-replay file]")
		os.Exit(2)
	}
	prop := os.Args[1]
	fs := flag.NewFlagSet(prop, flag.ExitOnError)
	tier := fs.String("tier", "quick", "quick|thorough")
	seed := fs.Int64("seed", 1, "PRNG seed")
	out := fs.String("out", "", "output directory")
	replay := fs.String("replay", "", "replay file")
	fs.Parse(os.Args[2:])
	r, ok := runners[prop]
	if !ok {
		var ks []string
		for k := range runners {
			ks = append(ks, k)
		}
		sort.Strings(ks)
		fmt.Fprintf(os.Stderr, "unknown property %q (have %v)\n", prop, ks)
		os.Exit(2)
	}
	h := newH(prop, *tier, *seed, *out, *replay)
	r(h)
	h.finish()
}
