package main

import (
	"fmt"
	"sort"
	"strings"
	"sync"
	"time"

	imap "github.com/emersion/go-imap/v2"
	"github.com/emersion/go-imap/v2/imapclient"
)

func init() { runners["C12"] = runC12 }

var c12Flags = []string{`\Seen`, `\Deleted`, `$x`, `\*`, `\Answered`}

func flagIdx(f imap.Flag) int {
	for i, s := range c12Flags {
		if strings.EqualFold(s, string(f)) {
			return i + 1
		}
	}
	return 99
}

func flagList(idx []int) string {
	var s []string
	for _, i := range idx {
		s = append(s, c12Flags[i-1])
	}
	return "(" + strings.Join(s, " ") + ")"
}

func coqNs(l []int) string {
	var s []string
	for _, x := range l {
		s = append(s, fmt.Sprint(x))
	}
	return coqList(s)
}

// a submitted command and its eventual outcome
type c12Handle struct {
	tag     int
	kind    string
	mu      sync.Mutex
	done    bool
	status  int
	count   int    // number of completions observed (must end up 1)
	data    []int  // what Collect/Wait delivered (list: mailbox ids, search: numbers, expunge: numbers, status: MESSAGES)
	sent    []int  // oracle: data the server sent in answer to this command
	box     string // status: the mailbox name the command was issued for
	sentBox string // status: the name as the server spelled it in its STATUS response
	gotBox  string // status: StatusData.Mailbox returned by Wait
}

// c12Boxes: mailbox names of STATUS commands. Names other than INBOX are case-sensitive (RFC 9051
// 5.1), so "boxa", "Boxa" and "BOXA" are three mailboxes; INBOX in any spelling is one.
var c12Boxes = []string{"boxa", "Boxa", "BOXA", "INBOX", "inbox", "Drafts", "drafts/2020", "Drafts/2020"}

// boxKey: two names designate the same mailbox iff their keys are equal
func boxKey(name string) string {
	if strings.EqualFold(name, "INBOX") {
		return "INBOX"
	}
	return name
}

func statusOf(err error) int {
	if err == nil {
		return 0
	}
	if ie, ok := err.(*imap.Error); ok {
		switch ie.Type {
		case imap.StatusResponseTypeNo:
			return 1
		case imap.StatusResponseTypeBad:
			return 2
		}
	}
	return 3
}

type c12Session struct {
	h       *H
	peer    *scriptedPeer
	client  *imapclient.Client
	handles []*c12Handle
	nextBox string        // mailbox of the next "status" submission ("" = boxa)
	steps   []string      // Coq terms "(events, obs)"
	log     []interface{} // replay description
	// oracle state (reference interpretation of the transcript)
	oState   int
	oMbox    *[4]interface{} // name idx, num, flags, perm
	oPending map[int]*struct {
		num         int
		flags, perm []int
		name        int
	}
	oStatus map[int]int
	bad     string
}

func (s *c12Session) submit(kind string, name int) *c12Handle {
	hd := &c12Handle{tag: len(s.handles) + 1, kind: kind}
	s.handles = append(s.handles, hd)
	mbox := []string{"", "boxa", "boxb"}[name]
	var wait func() error
	var got []int
	gotBox := ""
	switch kind {
	case "noop":
		c := s.client.Noop()
		wait = c.Wait
	case "login":
		c := s.client.Login("u", "p")
		wait = c.Wait
	case "login-lit":
		// both arguments need a synchronising literal; the peer refuses the first one or accepts both
		c := s.client.Login("a\nb", "p\r\nq")
		wait = c.Wait
	case "select":
		c := s.client.Select(mbox, nil)
		wait = func() error { _, err := c.Wait(); return err }
	case "unselect":
		c := s.client.Unselect()
		wait = c.Wait
	case "status":
		hd.box = s.nextBox
		if hd.box == "" {
			hd.box = "boxa"
		}
		s.nextBox = ""
		c := s.client.Status(hd.box, &imap.StatusOptions{NumMessages: true})
		wait = func() error {
			d, err := c.Wait()
			if d != nil && err == nil {
				gotBox = d.Mailbox
				if d.NumMessages != nil {
					got = append(got, int(*d.NumMessages))
				}
			}
			return err
		}
	case "list":
		c := s.client.List("", "*", nil)
		wait = func() error {
			l, err := c.Collect()
			for _, d := range l {
				var j int
				fmt.Sscanf(d.Mailbox, "m%d", &j)
				got = append(got, j)
			}
			return err
		}
	case "fetch":
		// messages 1..3 (their UIDs are 101..103)
		var set imap.SeqSet
		set.AddRange(1, 3)
		c := s.client.Fetch(set, &imap.FetchOptions{Flags: true})
		wait = func() error {
			l, err := c.Collect()
			for _, m := range l {
				got = append(got, int(m.SeqNum))
			}
			return err
		}
	case "uidfetch":
		// UIDs 7..9 (their sequence numbers are 11..13)
		var set imap.UIDSet
		set.AddRange(7, 9)
		c := s.client.Fetch(set, &imap.FetchOptions{Flags: true})
		wait = func() error {
			l, err := c.Collect()
			for _, m := range l {
				got = append(got, int(m.UID))
			}
			return err
		}
	case "esearch":
		c := s.client.Search(&imap.SearchCriteria{}, &imap.SearchOptions{ReturnCount: true})
		wait = func() error {
			d, err := c.Wait()
			if d != nil && err == nil {
				got = append(got, int(d.Count))
			}
			return err
		}
	case "expunge":
		c := s.client.Expunge()
		wait = func() error {
			l, err := c.Collect()
			for _, n := range l {
				got = append(got, int(n))
			}
			return err
		}
	case "search":
		c := s.client.Search(&imap.SearchCriteria{}, nil)
		wait = func() error {
			d, err := c.Wait()
			if d != nil && d.All != nil {
				if ss, ok := d.All.(imap.SeqSet); ok {
					if nums, ok := ss.Nums(); ok {
						for _, n := range nums {
							got = append(got, int(n))
						}
					}
				}
			}
			return err
		}
	case "logout":
		c := s.client.Logout()
		wait = c.Wait
	}
	go func() {
		err := wait()
		hd.mu.Lock()
		hd.done = true
		hd.status = statusOf(err)
		hd.data = got
		hd.gotBox = gotBox
		hd.count++
		hd.mu.Unlock()
	}()
	return hd
}

func kindCoq(kind string, name int) string {
	switch kind {
	case "login", "login-lit":
		return "KLogin"
	case "select":
		return fmt.Sprintf("(KSelect %d)", name)
	case "unselect":
		return "KUnselect"
	case "logout":
		return "KLogout"
	case "expunge":
		return "KExpunge"
	case "list":
		return "KList"
	case "search":
		return "KSearch"
	}
	return "KPlain"
}

// waitReceived blocks until the peer has received n commands.
func (s *c12Session) waitReceived(n int) bool {
	for i := 0; i < 600; i++ {
		if len(s.peer.Commands()) >= n {
			return true
		}
		time.Sleep(2 * time.Millisecond)
	}
	return false
}

// observe renders the client's visible state and the completions so far.
func (s *c12Session) observe() (string, map[string]interface{}) {
	st := map[imap.ConnState]int{imap.ConnStateNone: 0, imap.ConnStateNotAuthenticated: 1, imap.ConnStateAuthenticated: 2, imap.ConnStateSelected: 3, imap.ConnStateLogout: 4}[s.client.State()]
	mb := s.client.Mailbox()
	mbT := "None"
	obsJ := map[string]interface{}{"state": st}
	if mb != nil {
		name := map[string]int{"boxa": 1, "boxb": 2}[mb.Name]
		var fl, pf []int
		for _, f := range mb.Flags {
			fl = append(fl, flagIdx(f))
		}
		for _, f := range mb.PermanentFlags {
			pf = append(pf, flagIdx(f))
		}
		mbT = fmt.Sprintf("(Some (%d, %d, %s, %s))", name, mb.NumMessages, coqNs(fl), coqNs(pf))
		obsJ["mailbox"] = map[string]interface{}{"name": mb.Name, "num": mb.NumMessages, "flags": mb.Flags, "permanent": mb.PermanentFlags}
	}
	var done []string
	dj := map[int]int{}
	for _, hd := range s.handles {
		hd.mu.Lock()
		if hd.done {
			done = append(done, fmt.Sprintf("(%d, %d)", hd.tag, hd.status))
			dj[hd.tag] = hd.status
		}
		hd.mu.Unlock()
	}
	obsJ["completed"] = dj
	return fmt.Sprintf("(%d, %s, %s)", st, mbT, coqList(done)), obsJ
}

func runC12(h *H) {
	imports := []string{"From GoImap.Base Require Import Bytes.", "From GoImap.Model Require Import ClientConn ClientConnCorr."}
	corr := h.NewCorr("events", imports, "cc_mismatches", 150).Type("cc_case")
	corrData := h.NewCorr("data", imports, "cd_mismatches", 150).Type("cd_case")
	h.Rule("real imapclient.Client against a scripted server: batches of 1..4 pipelined commands (NOOP, STATUS, LIST, FETCH, UID FETCH, SEARCH, extended SEARCH, EXPUNGE) answered in every/random order with OK/NO/BAD (commands whose data would be ambiguous — two LISTs, two SEARCHes, two EXPUNGEs — in submission order), each LIST/SEARCH answer preceded by 0..3 data lines with globally unique items, a LOGIN whose synchronising literal the server refuses with a tagged NO or BAD, state-changing commands (LOGIN, SELECT of two mailboxes with their data block, UNSELECT, LOGOUT) on their own, unilateral EXISTS / EXPUNGE / FLAGS / PERMANENTFLAGS / FETCH / [CLOSED] / BYE-less noise interleaved anywhere, and finally the connection cut with commands still pending. After every step (closed by a NOOP round trip) State(), Mailbox() and the outcome of every Wait are compared with the model inside Coq and with a Go reference interpretation of the transcript (oracle: each command completes exactly once with the status of its own tagged response; a NO/BAD changes nothing else; the mailbox summary equals what the transcript implies; every LIST/SEARCH command's Collect/Wait returns exactly the data sent in answer to it; FETCH and UID FETCH get the messages of their own set whatever the order of the data items (UID last), extended SEARCH results are routed by their tag correlator even when answered out of order; the data collected by LIST/SEARCH/EXPUNGE commands is also re-derived by the model's routing function). Directed cases (c12direct.go): FETCH / UID FETCH of a set ending in \"*\" (*, 5:*, 1:*, 2:*, UID *, UID 20:*, UID 8:*) and of the saved search result $ on a 3-message mailbox, before and after a unilateral EXISTS, must collect exactly the messages sent in answer; State()/Mailbox() read immediately after Select().Wait() / Unselect().Wait() returned must already show the new state (3000 trials with concurrent State() callers). Non-trivial = a step delivered responses out of submission order or changed the mailbox summary; distinct by script.")

	runScript := func(seed int64, src string) {
		rng := newRand(seed)
		peer := newPeer("* OK [CAPABILITY IMAP4rev1] hi\r\n")
		defer peer.Close()
		var refusalMu sync.Mutex
		refusal := ""
		peer.OnLiteral = func(p *scriptedPeer, c *peerCmd, size int) string {
			refusalMu.Lock()
			defer refusalMu.Unlock()
			r := refusal
			refusal = ""
			return r
		}
		client, _ := peer.dialClient(nil)
		s := &c12Session{h: h, peer: peer, client: client, oStatus: map[int]int{}}
		desc := map[string]interface{}{"script_seed": seed}
		h.InFlight(desc)
		if err := client.WaitGreeting(); err != nil {
			h.Fail("greeting", err.Error(), desc)
			return
		}
		// oracle state
		oState := 1
		var oMb *struct {
			name, num   int
			flags, perm []int
		}
		nontrivial := false
		nontrivialData := false
		datum := 100 // data items are globally unique and increasing
		var evs, allEvs []string
		ev := func(e string) { evs = append(evs, e); allEvs = append(allEvs, e) }
		ev("EvGreeting 0")
		var transcript []string
		send := func(line string) {
			transcript = append(transcript, "S: "+line)
			peer.Send(line + "\r\n")
		}
		closeStep := func() bool {
			// barrier: a NOOP round trip, then observe
			hd := s.submit("noop", 0)
			ev("EvSubmit KPlain")
			if !s.waitReceived(len(s.handles)) {
				h.Fail("client-did-not-send", "command not received by the peer", desc)
				return false
			}
			send(fmt.Sprintf("T%d OK noop", hd.tag))
			ev(fmt.Sprintf("EvTagged %d 0", hd.tag))
			s.oStatus[hd.tag] = 0
			ok := false
			for i := 0; i < 1500; i++ {
				hd.mu.Lock()
				d := hd.done
				hd.mu.Unlock()
				if d {
					ok = true
					break
				}
				time.Sleep(2 * time.Millisecond)
			}
			if !ok {
				desc["transcript"] = transcript
				h.Fail("barrier-hang", "a NOOP answered OK did not complete: the client stopped processing responses", desc)
				return false
			}
			time.Sleep(time.Millisecond)
			// the callers' goroutines (Wait/Collect of the commands answered in this step) may not
			// have been scheduled yet on a loaded machine: give them up to 500 ms before observing;
			// a command that really did not complete is still reported
			for i := 0; i < 250; i++ {
				all := true
				for _, o := range s.handles {
					if _, answered := s.oStatus[o.tag]; answered {
						o.mu.Lock()
						if !o.done {
							all = false
						}
						o.mu.Unlock()
					}
				}
				if all {
					break
				}
				time.Sleep(2 * time.Millisecond)
			}
			obsT, obsJ := s.observe()
			s.steps = append(s.steps, "("+coqList(evs)+", "+obsT+")")
			s.log = append(s.log, map[string]interface{}{"events": evs, "observed": obsJ})
			evs = nil
			// ---- oracle ----
			st := obsJ["state"].(int)
			if st != oState {
				desc["transcript"] = transcript
				h.Fail(fmt.Sprintf("state-mirror:%d-vs-%d", st, oState), fmt.Sprintf("Client.State() = %d but the transcript implies %d", st, oState), desc)
			}
			mb := client.Mailbox()
			if (mb == nil) != (oMb == nil) {
				desc["transcript"] = transcript
				h.Fail("mailbox-mirror:presence", fmt.Sprintf("Client.Mailbox() nil=%v but the transcript implies selected=%v", mb == nil, oMb != nil), desc)
			} else if mb != nil {
				var fl, pf []int
				for _, f := range mb.Flags {
					fl = append(fl, flagIdx(f))
				}
				for _, f := range mb.PermanentFlags {
					pf = append(pf, flagIdx(f))
				}
				if int(mb.NumMessages) != oMb.num {
					desc["transcript"] = transcript
					h.Fail("mailbox-mirror:count", fmt.Sprintf("Mailbox().NumMessages = %d, transcript implies %d", mb.NumMessages, oMb.num), desc)
				}
				if fmt.Sprint(fl) != fmt.Sprint(oMb.flags) {
					desc["transcript"] = transcript
					h.Fail("mailbox-mirror:flags", fmt.Sprintf("Mailbox().Flags = %v, transcript implies %v", mb.Flags, flagList(oMb.flags)), desc)
				}
				if fmt.Sprint(pf) != fmt.Sprint(oMb.perm) {
					desc["transcript"] = transcript
					h.Fail("mailbox-mirror:permanentflags", fmt.Sprintf("Mailbox().PermanentFlags = %v, transcript implies %v", mb.PermanentFlags, flagList(oMb.perm)), desc)
				}
			}
			for _, hd := range s.handles {
				hd.mu.Lock()
				want, answered := s.oStatus[hd.tag]
				if hd.done != answered {
					desc["transcript"] = transcript
					h.Fail("completion-mismatch", fmt.Sprintf("command T%d (%s): completed=%v but tagged response sent=%v", hd.tag, hd.kind, hd.done, answered), desc)
				} else if hd.done && hd.status != want {
					desc["transcript"] = transcript
					h.Fail("wrong-status", fmt.Sprintf("command T%d (%s) completed with status %d, its tagged response said %d", hd.tag, hd.kind, hd.status, want), desc)
				}
				if hd.count > 1 {
					h.Fail("completed-twice", fmt.Sprintf("command T%d completed %d times", hd.tag, hd.count), desc)
				}
				hd.mu.Unlock()
			}
			return true
		}
		unilateral := func() {
			switch rng.Intn(6) {
			case 0:
				n := rng.Intn(9)
				send(fmt.Sprintf("* %d EXISTS", n))
				ev(fmt.Sprintf("EvExists %d", n))
				if oMb != nil {
					oMb.num = n
					nontrivial = true
				}
			case 1:
				n := 1 + rng.Intn(5)
				send(fmt.Sprintf("* %d EXPUNGE", n))
				ev(fmt.Sprintf("EvExpunge %d", n))
				if oMb != nil && oMb.num > 0 {
					oMb.num--
					nontrivial = true
				}
			case 2:
				fl := []int{1 + rng.Intn(3), 5}
				send("* FLAGS " + flagList(fl))
				ev("EvFlags " + coqNs(fl))
				if oMb != nil {
					oMb.flags = fl
					nontrivial = true
				}
			case 3:
				fl := []int{1 + rng.Intn(3), 4}
				send("* OK [PERMANENTFLAGS " + flagList(fl) + "] perm")
				ev("EvPermFlags " + coqNs(fl))
				if oMb != nil {
					oMb.perm = fl
					nontrivial = true
				}
			case 4:
				send(`* 20 FETCH (FLAGS (\Seen))`)
				ev("EvOther")
			default:
				send("* OK still here")
				ev("EvOther")
			}
		}
		respond := func(hd *c12Handle, status int) {
			word := []string{"OK", "NO", "BAD"}[status]
			if hd.kind == "login" && status == 0 {
				send(fmt.Sprintf("T%d OK [CAPABILITY IMAP4rev1] logged in", hd.tag))
			} else if hd.kind == "search" {
				// data first (also before a NO: the server may have produced part of the result)
				for k := rng.Intn(3); k > 0; k-- {
					var nums, ns []string
					for j := rng.Intn(3); j >= 0; j-- {
						datum++
						nums = append(nums, fmt.Sprint(datum))
						ns = append(ns, fmt.Sprint(datum))
						hd.sent = append(hd.sent, datum)
					}
					send("* SEARCH " + strings.Join(nums, " "))
					ev("EvSearchData " + coqList(ns))
					nontrivialData = true
				}
				send(fmt.Sprintf("T%d %s done", hd.tag, word))
			} else if hd.kind == "fetch" || hd.kind == "uidfetch" {
				// answers in a random order of the three messages; UID after FLAGS (the order of
				// the data items is free)
				for _, k := range rng.Perm(3)[:rng.Intn(4)] {
					seq, uid := 1+k, 101+k
					if hd.kind == "uidfetch" {
						seq, uid = 11+k, 7+k
					}
					send(fmt.Sprintf(`* %d FETCH (FLAGS (\Seen) UID %d)`, seq, uid))
					ev("EvOther")
					if hd.kind == "uidfetch" {
						hd.sent = append(hd.sent, uid)
					} else {
						hd.sent = append(hd.sent, seq)
					}
					nontrivialData = true
				}
				send(fmt.Sprintf("T%d %s done", hd.tag, word))
			} else if hd.kind == "esearch" {
				if status == 0 {
					datum++
					send(fmt.Sprintf(`* ESEARCH (TAG "T%d") COUNT %d`, hd.tag, datum))
					ev("EvOther")
					hd.sent = append(hd.sent, datum)
					nontrivialData = true
				}
				send(fmt.Sprintf("T%d %s done", hd.tag, word))
			} else if hd.kind == "status" {
				// the STATUS response names its mailbox (INBOX in the server's own spelling)
				if status == 0 {
					datum++
					hd.sentBox = hd.box
					if boxKey(hd.box) == "INBOX" && rng.Intn(2) == 0 {
						hd.sentBox = "INBOX"
					}
					send(fmt.Sprintf(`* STATUS %q (MESSAGES %d)`, hd.sentBox, datum))
					ev("EvOther")
					hd.sent = append(hd.sent, datum)
					nontrivialData = true
				}
				send(fmt.Sprintf("T%d %s done", hd.tag, word))
			} else if hd.kind == "list" {
				for k := rng.Intn(4); k > 0; k-- {
					datum++
					send(fmt.Sprintf(`* LIST () "/" m%d`, datum))
					ev(fmt.Sprintf("EvListData %d", datum))
					hd.sent = append(hd.sent, datum)
					nontrivialData = true
				}
				send(fmt.Sprintf("T%d %s done", hd.tag, word))
			} else if hd.kind == "logout" && status == 0 {
				send("* BYE bye")
				ev("EvOther")
				send(fmt.Sprintf("T%d OK done", hd.tag))
			} else {
				send(fmt.Sprintf("T%d %s done", hd.tag, word))
			}
			ev(fmt.Sprintf("EvTagged %d %d", hd.tag, status))
			s.oStatus[hd.tag] = status
		}
		randStatus := func() int {
			if rng.Intn(3) == 0 {
				return 1 + rng.Intn(2)
			}
			return 0
		}

		nsteps := 4 + rng.Intn(8)
		for i := 0; i < nsteps; i++ {
			switch r := rng.Intn(10); {
			case r < 4: // pipelined plain commands answered in random order
				k := 1 + rng.Intn(4)
				var batch []*c12Handle
				var kinds []string
				plainSearch := false
				// one batch in five consists of STATUS commands only (mailboxes of c12Boxes)
				statusBurst := rng.Intn(5) == 0
				if statusBurst {
					h.Hist("step:status-burst")
				}
				for j := 0; j < k; j++ {
					kind := []string{"noop", "status", "list", "fetch", "search", "expunge", "uidfetch", "esearch"}[rng.Intn(8)]
					if statusBurst {
						kind = "status"
					}
					kinds = append(kinds, kind)
					if kind == "search" {
						plainSearch = true
					}
				}
				for _, kind := range kinds {
					if kind == "esearch" && plainSearch {
						// a plain SEARCH and an extended SEARCH in flight together: untagged SEARCH
						// data carries no correlator, so the two are not pipelined together here
						kind = "search"
					}
					if kind == "status" {
						s.nextBox = c12Boxes[rng.Intn(len(c12Boxes))]
					}
					batch = append(batch, s.submit(kind, 0))
					ev("EvSubmit " + kindCoq(kind, 0))
				}
				if !s.waitReceived(len(s.handles)) {
					h.Fail("client-did-not-send", "commands not received by the peer", desc)
					return
				}
				perm := rng.Perm(k)
				if k > 1 && fmt.Sprint(perm) != fmt.Sprint(rng.Perm(1)) {
					nontrivial = true
				}
				// commands whose untagged data would be ambiguous (two LISTs, two SEARCHes, two
				// EXPUNGEs, two STATUSes of the same mailbox) are answered in submission order
				// (RFC 9051 5.5); everything else in any order -- in particular STATUS commands
				// for different mailboxes, whose responses name their mailbox
				group := func(hd *c12Handle) string {
					if hd.kind == "status" {
						return "status|" + boxKey(hd.box)
					}
					return hd.kind
				}
				groups := []string{"list", "search", "expunge", "fetch", "uidfetch"}
				seenGroup := map[string]bool{}
				for _, hd := range batch {
					if g := group(hd); hd.kind == "status" && !seenGroup[g] {
						seenGroup[g] = true
						groups = append(groups, g)
					}
				}
				for _, kind := range groups {
					var pos []int
					for i, pi := range perm {
						if group(batch[pi]) == kind {
							pos = append(pos, i)
						}
					}
					var idx []int
					for _, i := range pos {
						idx = append(idx, perm[i])
					}
					sort.Ints(idx)
					for j, i := range pos {
						perm[i] = idx[j]
					}
				}
				for _, pi := range perm {
					if rng.Intn(2) == 0 {
						unilateral()
					}
					respond(batch[pi], randStatus())
				}
			case r >= 8 && oState == 1:
				// LOGIN whose literal the server refuses with a tagged NO or BAD: the command fails
				// with that status and nothing else changes
				st := 1 + rng.Intn(2)
				refusalMu.Lock()
				refusal = []string{"", "NO literal refused", "BAD [TOOBIG] literal refused"}[st]
				refusalMu.Unlock()
				hd := s.submit("login-lit", 0)
				h.Hist("step:login-literal-refused")
				ev("EvSubmit KLogin")
				s.waitReceived(len(s.handles))
				transcript = append(transcript, fmt.Sprintf("S: T%d %s (in answer to the literal header)", hd.tag, []string{"", "NO", "BAD"}[st]))
				ev(fmt.Sprintf("EvTagged %d %d", hd.tag, st))
				s.oStatus[hd.tag] = st
				for i := 0; i < 1500; i++ {
					hd.mu.Lock()
					d := hd.done
					hd.mu.Unlock()
					if d {
						break
					}
					time.Sleep(2 * time.Millisecond)
				}
				nontrivial = true
				if rng.Intn(2) == 0 {
					// the refusal leaves the connection usable for the next command that needs
					// continuation requests: the same LOGIN, both literals accepted, answered NO
					hd2 := s.submit("login-lit", 0)
					h.Hist("step:login-literals-accepted-after-refusal")
					ev("EvSubmit KLogin")
					s.waitReceived(len(s.handles))
					respond(hd2, 1)
				}
			case r < 5 && oState == 1:
				hd := s.submit("login", 0)
				ev("EvSubmit KLogin")
				s.waitReceived(len(s.handles))
				st := randStatus()
				respond(hd, st)
				if st == 0 {
					oState = 2
				}
			case r < 8 && oState >= 2:
				name := 1 + rng.Intn(2)
				hd := s.submit("select", name)
				ev(fmt.Sprintf("EvSubmit (KSelect %d)", name))
				s.waitReceived(len(s.handles))
				if oState == 3 && rng.Intn(2) == 0 {
					send("* OK [CLOSED] previous mailbox closed")
					ev("EvClosed")
					oState, oMb = 2, nil
				}
				num := rng.Intn(7)
				fl := []int{1, 2, 1 + rng.Intn(3)}[:1+rng.Intn(3)]
				pf := []int{1 + rng.Intn(3), 4}
				send(fmt.Sprintf("* %d EXISTS", num))
				ev(fmt.Sprintf("EvExists %d", num))
				send("* 0 RECENT")
				ev("EvOther")
				send("* FLAGS " + flagList(fl))
				ev("EvFlags " + coqNs(fl))
				send("* OK [PERMANENTFLAGS " + flagList(pf) + "] perm")
				ev("EvPermFlags " + coqNs(pf))
				send("* OK [UIDVALIDITY 7] v")
				ev("EvOther")
				st := randStatus()
				respond(hd, st)
				if st == 0 {
					oState = 3
					oMb = &struct {
						name, num   int
						flags, perm []int
					}{name, num, fl, pf}
					nontrivial = true
				} else if oState == 3 {
					// the data lines of the failed SELECT were sent while the old mailbox was still
					// selected: by the transcript they update its FLAGS / PERMANENTFLAGS (EXISTS is
					// routed to the pending SELECT)
					oMb.flags, oMb.perm = fl, pf
				}
			case r < 9 && oState == 3:
				hd := s.submit("unselect", 0)
				ev("EvSubmit KUnselect")
				s.waitReceived(len(s.handles))
				st := randStatus()
				respond(hd, st)
				if st == 0 {
					oState, oMb = 2, nil
				}
			default:
				for k := 1 + rng.Intn(3); k > 0; k-- {
					unilateral()
				}
			}
			if !closeStep() {
				withTimeout(2*time.Second, func() { client.Close() })
				return
			}
		}
		// final: some commands pending, then the server drops the connection
		var pend []*c12Handle
		for k := rng.Intn(3); k > 0; k-- {
			pend = append(pend, s.submit("status", 0))
			ev("EvSubmit KPlain")
		}
		s.waitReceived(len(s.handles))
		peer.CloseConn()
		ev("EvConnLost")
		allDone := false
		for i := 0; i < 1500 && !allDone; i++ {
			allDone = true
			for _, hd := range pend {
				hd.mu.Lock()
				if !hd.done {
					allDone = false
				}
				hd.mu.Unlock()
			}
			if client.State() != imap.ConnStateLogout {
				allDone = false
			}
			time.Sleep(2 * time.Millisecond)
		}
		if !allDone {
			desc["transcript"] = transcript
			h.Fail("pending-not-completed-on-close", "commands pending when the server dropped the connection never completed", desc)
		}
		for _, hd := range pend {
			hd.mu.Lock()
			if hd.done && hd.status != 3 {
				h.Fail("pending-completed-without-error", fmt.Sprintf("command T%d completed with status %d although its tagged response never arrived", hd.tag, hd.status), desc)
			}
			hd.mu.Unlock()
		}
		obsT, obsJ := s.observe()
		s.steps = append(s.steps, "("+coqList(evs)+", "+obsT+")")
		s.log = append(s.log, map[string]interface{}{"events": evs, "observed": obsJ})
		if !withTimeout(3*time.Second, func() { client.Close() }) {
			h.Fail("close-hangs", "Client.Close did not return", desc)
		}
		// data delivery: every LIST / SEARCH command got exactly the data sent in answer to it
		var dataObs []string
		for _, hd := range s.handles {
			hd.mu.Lock()
			if hd.done && (hd.kind == "fetch" || hd.kind == "uidfetch" || hd.kind == "esearch") && fmt.Sprint(hd.data) != fmt.Sprint(hd.sent) && hd.status != 3 {
				// routed by sequence number / UID / tag correlator: checked by the oracle only
				desc["transcript"] = transcript
				h.Fail("data-misrouted:"+hd.kind, fmt.Sprintf("command T%d (%s) was answered with data %v but its Collect/Wait returned %v", hd.tag, hd.kind, hd.sent, hd.data), desc)
			}
			if hd.done && hd.kind == "status" && hd.status == 0 {
				// the STATUS response that answers the command is the one naming its mailbox
				if fmt.Sprint(hd.data) != fmt.Sprint(hd.sent) || boxKey(hd.gotBox) != boxKey(hd.sentBox) {
					desc["transcript"] = transcript
					h.Fail("data-misrouted:status", fmt.Sprintf("command T%d (STATUS %q) was answered with * STATUS %q (MESSAGES %v) but its Wait returned Mailbox=%q MESSAGES=%v", hd.tag, hd.box, hd.sentBox, hd.sent, hd.gotBox, hd.data), desc)
				}
			}
			if hd.done && (hd.kind == "list" || hd.kind == "search" || hd.kind == "expunge") {
				dataObs = append(dataObs, fmt.Sprintf("(%d, %s)", hd.tag, coqNs(hd.data)))
				if hd.kind != "expunge" && fmt.Sprint(hd.data) != fmt.Sprint(hd.sent) {
					desc["transcript"] = transcript
					h.Fail("data-misrouted:"+hd.kind, fmt.Sprintf("command T%d (%s) was answered with data %v but its Collect/Wait returned %v", hd.tag, hd.kind, hd.sent, hd.data), desc)
				}
			}
			hd.mu.Unlock()
		}
		corrData.Add("("+coqList(allEvs)+", "+coqList(dataObs)+")", desc)
		key := ""
		if nontrivial || nontrivialData {
			key = fmt.Sprint(seed)
		}
		h.Eval(key)
		h.Hist("src:" + src)
		h.Hist(fmt.Sprintf("steps:%d", len(s.steps)))
		desc["steps"] = s.log
		corr.Add(coqList(s.steps), desc)
		if nontrivial && rng.Intn(25) == 0 {
			h.Sample(map[string]interface{}{"transcript": transcript})
		}
	}

	if h.Replay != "" && replayField(h.Replay, "directed") != "" {
		c12Directed(h)
		return
	}
	if h.Replay != "" {
		var seed int64
		fmt.Sscan(replayField(h.Replay, "script_seed"), &seed)
		runScript(seed, "replay")
		return
	}
	c12Directed(h)
	for i := 0; i < h.Pick(250, 4000); i++ {
		runScript(h.Seed*100000+int64(i), "random")
	}
}
