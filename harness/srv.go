package main

import (
	"bufio"
	"bytes"
	"crypto/ecdsa"
	"crypto/elliptic"
	"crypto/rand"
	"crypto/tls"
	"crypto/x509"
	"crypto/x509/pkix"
	"fmt"
	"io"
	"math/big"
	"net"
	"strings"
	"sync"
	"time"

	imap "github.com/emersion/go-imap/v2"
	"github.com/emersion/go-imap/v2/imapserver"
	"github.com/emersion/go-sasl"
	"os"
	"path/filepath"
)

// Call is one recorded backend call.
type Call struct {
	Name  string                 `json:"name"`
	State string                 `json:"state,omitempty"` // connection state seen through the stub
	Args  map[string]interface{} `json:"args,omitempty"`
	raw   interface{}            // typed argument for in-process inspection
}

// stubSession implements imapserver.SessionIMAP4rev2 and records every call.
type stubSession struct {
	mu     sync.Mutex
	calls  []Call
	closes int
	conn   *imapserver.Conn // for state snapshots (verif hook)
	// recordPoll makes Poll a recorded call (args: allow)
	recordPoll bool
	// fail(name) reports whether the backend call should fail with NO.
	fail func(name string) bool
	// appendRefuse(mailbox): Append fails at once, WITHOUT reading the message literal
	appendRefuse func(mailbox string) bool
	// hooks
	onSearch    func(kind imapserver.NumKind, c *imap.SearchCriteria, o *imap.SearchOptions) (*imap.SearchData, error)
	onPoll      func(w *imapserver.UpdateWriter, allowExpunge bool) error
	onFetch     func(w *imapserver.FetchWriter, numSet imap.NumSet, options *imap.FetchOptions) error
	onList      func(w *imapserver.ListWriter, ref string, patterns []string, options *imap.ListOptions) error
	onSelect    func(mailbox string, options *imap.SelectOptions) (*imap.SelectData, error)
	onStatus    func(mailbox string, options *imap.StatusOptions) (*imap.StatusData, error)
	onAppend    func(mailbox string, r imap.LiteralReader, options *imap.AppendOptions) (*imap.AppendData, error)
	onStore     func(w *imapserver.FetchWriter, numSet imap.NumSet, flags *imap.StoreFlags, options *imap.StoreOptions) error
	onCopy      func(numSet imap.NumSet, dest string) (*imap.CopyData, error)
	onExpunge   func(w *imapserver.ExpungeWriter, uids *imap.UIDSet) error
	onMove      func(w *imapserver.MoveWriter, numSet imap.NumSet, dest string) error
	onNamespace func() (*imap.NamespaceData, error)
}

func (s *stubSession) rec(name string, raw interface{}, args map[string]interface{}) error {
	st := ""
	if s.conn != nil {
		st = connStateName(s.conn.VerifState())
	}
	s.mu.Lock()
	s.calls = append(s.calls, Call{Name: name, State: st, Args: args, raw: raw})
	s.mu.Unlock()
	if s.fail != nil && s.fail(name) {
		return &imap.Error{Type: imap.StatusResponseTypeNo, Text: "stub refuses " + name}
	}
	return nil
}

func connStateName(st imap.ConnState) string {
	switch st {
	case imap.ConnStateNotAuthenticated:
		return "notauth"
	case imap.ConnStateAuthenticated:
		return "auth"
	case imap.ConnStateSelected:
		return "selected"
	case imap.ConnStateLogout:
		return "logout"
	}
	return "none"
}

// TakeCalls returns and clears the recorded calls.
func (s *stubSession) TakeCalls() []Call {
	s.mu.Lock()
	defer s.mu.Unlock()
	c := s.calls
	s.calls = nil
	return c
}

// stubUnauth additionally implements SessionUnauthenticate.
type stubUnauth struct{ *stubSession }

func (s stubUnauth) Unauthenticate() error { return s.rec("Unauthenticate", nil, nil) }

// stubSASL / stubSASLUnauth additionally implement imapserver.SessionSASL: the session offers
// its own PLAIN mechanism whose credentials are recorded as a Login call, so that the call
// trace is the same as with the server's built-in PLAIN path.
type stubSASL struct{ *stubSession }
type stubSASLUnauth struct{ stubUnauth }

func (s *stubSession) saslMechanisms() []string { return []string{"PLAIN"} }
func (s *stubSession) saslServer(mech string) (sasl.Server, error) {
	if !strings.EqualFold(mech, "PLAIN") {
		return nil, &imap.Error{Type: imap.StatusResponseTypeNo, Text: "SASL mechanism not supported"}
	}
	return sasl.NewPlainServer(func(identity, username, password string) error {
		return s.Login(username, password)
	}), nil
}
func (s stubSASL) AuthenticateMechanisms() []string              { return s.saslMechanisms() }
func (s stubSASL) Authenticate(mech string) (sasl.Server, error) { return s.saslServer(mech) }
func (s stubSASLUnauth) AuthenticateMechanisms() []string        { return s.saslMechanisms() }
func (s stubSASLUnauth) Authenticate(mech string) (sasl.Server, error) {
	return s.saslServer(mech)
}

func (s *stubSession) Calls() []Call {
	s.mu.Lock()
	defer s.mu.Unlock()
	return append([]Call(nil), s.calls...)
}

func (s *stubSession) Close() error {
	s.mu.Lock()
	s.closes++
	s.mu.Unlock()
	return nil
}
func (s *stubSession) Login(username, password string) error {
	return s.rec("Login", nil, map[string]interface{}{"username": username, "password": password})
}
func (s *stubSession) Select(mailbox string, options *imap.SelectOptions) (*imap.SelectData, error) {
	if err := s.rec("Select", options, map[string]interface{}{"mailbox": mailbox, "readonly": options != nil && options.ReadOnly}); err != nil {
		return nil, err
	}
	if s.onSelect != nil {
		return s.onSelect(mailbox, options)
	}
	return &imap.SelectData{NumMessages: 3, UIDNext: 4, UIDValidity: 1}, nil
}
func (s *stubSession) Create(mailbox string, options *imap.CreateOptions) error {
	return s.rec("Create", options, map[string]interface{}{"mailbox": mailbox})
}
func (s *stubSession) Delete(mailbox string) error {
	return s.rec("Delete", nil, map[string]interface{}{"mailbox": mailbox})
}
func (s *stubSession) Rename(mailbox, newName string) error {
	return s.rec("Rename", nil, map[string]interface{}{"mailbox": mailbox, "newname": newName})
}
func (s *stubSession) Subscribe(mailbox string) error {
	return s.rec("Subscribe", nil, map[string]interface{}{"mailbox": mailbox})
}
func (s *stubSession) Unsubscribe(mailbox string) error {
	return s.rec("Unsubscribe", nil, map[string]interface{}{"mailbox": mailbox})
}
func (s *stubSession) List(w *imapserver.ListWriter, ref string, patterns []string, options *imap.ListOptions) error {
	if err := s.rec("List", options, map[string]interface{}{"ref": ref, "patterns": patterns}); err != nil {
		return err
	}
	if s.onList != nil {
		return s.onList(w, ref, patterns, options)
	}
	return nil
}
func (s *stubSession) Status(mailbox string, options *imap.StatusOptions) (*imap.StatusData, error) {
	if err := s.rec("Status", options, map[string]interface{}{"mailbox": mailbox}); err != nil {
		return nil, err
	}
	if s.onStatus != nil {
		return s.onStatus(mailbox, options)
	}
	n, sz := uint32(3), int64(10)
	return &imap.StatusData{Mailbox: mailbox, NumMessages: &n, NumUnseen: &n, NumDeleted: &n, Size: &sz, UIDNext: 4, UIDValidity: 1}, nil
}
func (s *stubSession) Append(mailbox string, r imap.LiteralReader, options *imap.AppendOptions) (*imap.AppendData, error) {
	if s.onAppend != nil {
		if err := s.rec("Append", options, map[string]interface{}{"mailbox": mailbox, "size": r.Size()}); err != nil {
			return nil, err
		}
		return s.onAppend(mailbox, r, options)
	}
	if s.appendRefuse != nil && s.appendRefuse(mailbox) {
		s.rec("Append", options, map[string]interface{}{"mailbox": mailbox, "size": r.Size(), "payload": ""})
		return nil, &imap.Error{Type: imap.StatusResponseTypeNo, Code: imap.ResponseCodeTryCreate, Text: "no such mailbox"}
	}
	b, _ := io.ReadAll(r)
	if err := s.rec("Append", options, map[string]interface{}{"mailbox": mailbox, "size": r.Size(), "payload": string(b)}); err != nil {
		return nil, err
	}
	return &imap.AppendData{UID: 10, UIDValidity: 1}, nil
}
func (s *stubSession) Poll(w *imapserver.UpdateWriter, allowExpunge bool) error {
	if s.recordPoll {
		st := ""
		if s.conn != nil {
			st = connStateName(s.conn.VerifState())
		}
		s.mu.Lock()
		s.calls = append(s.calls, Call{Name: "Poll", State: st, Args: map[string]interface{}{"allow": allowExpunge}})
		s.mu.Unlock()
	}
	if s.onPoll != nil {
		return s.onPoll(w, allowExpunge)
	}
	return nil
}
func (s *stubSession) Idle(w *imapserver.UpdateWriter, stop <-chan struct{}) error {
	if err := s.rec("Idle", nil, nil); err != nil {
		return err
	}
	<-stop
	return nil
}
func (s *stubSession) Unselect() error { return s.rec("Unselect", nil, nil) }
func (s *stubSession) Expunge(w *imapserver.ExpungeWriter, uids *imap.UIDSet) error {
	a := map[string]interface{}{}
	if uids != nil {
		a["uids"] = uids.String()
	}
	if err := s.rec("Expunge", uids, a); err != nil {
		return err
	}
	if s.onExpunge != nil {
		return s.onExpunge(w, uids)
	}
	return nil
}
func (s *stubSession) Search(kind imapserver.NumKind, criteria *imap.SearchCriteria, options *imap.SearchOptions) (*imap.SearchData, error) {
	if err := s.rec("Search", criteria, map[string]interface{}{"kind": kind.String()}); err != nil {
		return nil, err
	}
	if s.onSearch != nil {
		return s.onSearch(kind, criteria, options)
	}
	return &imap.SearchData{All: imap.SeqSet{}}, nil
}
func (s *stubSession) Fetch(w *imapserver.FetchWriter, numSet imap.NumSet, options *imap.FetchOptions) error {
	if err := s.rec("Fetch", options, map[string]interface{}{"set": numSet.String()}); err != nil {
		return err
	}
	if s.onFetch != nil {
		return s.onFetch(w, numSet, options)
	}
	return nil
}
func (s *stubSession) Store(w *imapserver.FetchWriter, numSet imap.NumSet, flags *imap.StoreFlags, options *imap.StoreOptions) error {
	if err := s.rec("Store", flags, map[string]interface{}{"set": numSet.String()}); err != nil {
		return err
	}
	if s.onStore != nil {
		return s.onStore(w, numSet, flags, options)
	}
	return nil
}
func (s *stubSession) Copy(numSet imap.NumSet, dest string) (*imap.CopyData, error) {
	if err := s.rec("Copy", nil, map[string]interface{}{"set": numSet.String(), "dest": dest}); err != nil {
		return nil, err
	}
	if s.onCopy != nil {
		return s.onCopy(numSet, dest)
	}
	return nil, nil
}
func (s *stubSession) Namespace() (*imap.NamespaceData, error) {
	if err := s.rec("Namespace", nil, nil); err != nil {
		return nil, err
	}
	if s.onNamespace != nil {
		return s.onNamespace()
	}
	return &imap.NamespaceData{Personal: []imap.NamespaceDescriptor{{Prefix: "", Delim: '/'}}}, nil
}
func (s *stubSession) Move(w *imapserver.MoveWriter, numSet imap.NumSet, dest string) error {
	if err := s.rec("Move", nil, map[string]interface{}{"set": numSet.String(), "dest": dest}); err != nil {
		return err
	}
	if s.onMove != nil {
		return s.onMove(w, numSet, dest)
	}
	return nil
}

// ---- server under test ------------------------------------------------------------------

type logBuf struct {
	mu sync.Mutex
	b  bytes.Buffer
}

func (l *logBuf) Printf(format string, args ...interface{}) {
	l.mu.Lock()
	fmt.Fprintf(&l.b, format+"\n", args...)
	l.mu.Unlock()
}
func (l *logBuf) String() string {
	l.mu.Lock()
	defer l.mu.Unlock()
	return l.b.String()
}

type testServer struct {
	tlsListener bool
	sockDir     string
	srv         *imapserver.Server
	ln          net.Listener
	log         *logBuf
	mu          sync.Mutex
	sess        []*stubSession
	newSession  func(c *imapserver.Conn) (imapserver.Session, *imapserver.GreetingData, error)
}

type srvOpts struct {
	Caps         imap.CapSet
	InsecureAuth bool
	PreAuth      bool
	TLSConfig    *tls.Config // Options.TLSConfig (STARTTLS)
	TLSListener  bool        // serve implicit TLS
	Unauth       bool        // session implements SessionUnauthenticate
	SASL         bool        // session implements SessionSASL (its own PLAIN mechanism)
	Unix         bool        // listen on a Unix domain socket instead of TCP loopback
	Configure    func(s *stubSession)
	NewSession   func(c *imapserver.Conn) (imapserver.Session, *imapserver.GreetingData, error)
}

func startServer(o srvOpts) *testServer {
	ts := &testServer{log: &logBuf{}}
	newSession := o.NewSession
	if newSession == nil {
		newSession = func(c *imapserver.Conn) (imapserver.Session, *imapserver.GreetingData, error) {
			s := &stubSession{conn: c}
			if o.Configure != nil {
				o.Configure(s)
			}
			ts.mu.Lock()
			ts.sess = append(ts.sess, s)
			ts.mu.Unlock()
			switch {
			case o.Unauth && o.SASL:
				return stubSASLUnauth{stubUnauth{s}}, &imapserver.GreetingData{PreAuth: o.PreAuth}, nil
			case o.SASL:
				return stubSASL{s}, &imapserver.GreetingData{PreAuth: o.PreAuth}, nil
			case o.Unauth:
				return stubUnauth{s}, &imapserver.GreetingData{PreAuth: o.PreAuth}, nil
			}
			return s, &imapserver.GreetingData{PreAuth: o.PreAuth}, nil
		}
	}
	ts.srv = imapserver.New(&imapserver.Options{
		NewSession:   newSession,
		Caps:         o.Caps,
		Logger:       ts.log,
		InsecureAuth: o.InsecureAuth,
		TLSConfig:    o.TLSConfig,
	})
	network, addr := "tcp", "127.0.0.1:0"
	if o.Unix {
		dir, err := os.MkdirTemp("", "verifsock")
		if err != nil {
			panic(err)
		}
		ts.sockDir = dir
		network, addr = "unix", filepath.Join(dir, "imap.sock")
	}
	ln, err := net.Listen(network, addr)
	if err != nil {
		panic(err)
	}
	ts.tlsListener = o.TLSListener
	if o.TLSListener {
		ln = tls.NewListener(ln, o.TLSConfig)
	}
	ts.ln = ln
	go ts.srv.Serve(ln)
	return ts
}

func (ts *testServer) Close() {
	ts.srv.Close()
	if ts.sockDir != "" {
		os.RemoveAll(ts.sockDir)
	}
}

func (ts *testServer) lastSession() *stubSession {
	ts.mu.Lock()
	defer ts.mu.Unlock()
	if len(ts.sess) == 0 {
		return nil
	}
	return ts.sess[len(ts.sess)-1]
}

// rawConn is a raw client connection to the server under test.
type rawConn struct {
	c   net.Conn
	br  *bufio.Reader
	tag int
}

func (ts *testServer) dial() *rawConn {
	c, err := net.Dial(ts.ln.Addr().Network(), ts.ln.Addr().String())
	if err != nil {
		panic(err)
	}
	if ts.tlsListener {
		tc := tls.Client(c, &tls.Config{InsecureSkipVerify: true})
		if err := tc.Handshake(); err != nil {
			panic(err)
		}
		c = tc
	}
	return &rawConn{c: c, br: bufio.NewReader(c)}
}

func (rc *rawConn) Close() { rc.c.Close() }

// readLine reads one response line (without CRLF); literals inside the line are returned
// appended (the "{n}" marker stays, followed by the payload).
func (rc *rawConn) readLine(timeout time.Duration) (string, error) {
	rc.c.SetReadDeadline(time.Now().Add(timeout))
	var sb strings.Builder
	for {
		l, err := rc.br.ReadString('\n')
		if err != nil {
			return sb.String() + l, err
		}
		l = strings.TrimRight(l, "\r\n")
		sb.WriteString(l)
		// literal?
		if strings.HasSuffix(l, "}") {
			if i := strings.LastIndexByte(l, '{'); i >= 0 {
				var n int
				if _, err := fmt.Sscanf(l[i:], "{%d}", &n); err == nil {
					buf := make([]byte, n)
					if _, err := io.ReadFull(rc.br, buf); err != nil {
						return sb.String(), err
					}
					sb.WriteString("\r\n")
					sb.Write(buf)
					continue
				}
			}
		}
		return sb.String(), nil
	}
}

// cmd sends one command line with a fresh tag and collects the responses up to and
// including the tagged completion. Returns untagged lines and the tagged line.
func (rc *rawConn) cmd(line string) (untagged []string, tagged string, err error) {
	rc.tag++
	tag := fmt.Sprintf("T%d", rc.tag)
	if _, err = io.WriteString(rc.c, tag+" "+line+"\r\n"); err != nil {
		return
	}
	return rc.until(tag)
}

func (rc *rawConn) until(tag string) (untagged []string, tagged string, err error) {
	for {
		var l string
		l, err = rc.readLine(5 * time.Second)
		if err != nil {
			return
		}
		if strings.HasPrefix(l, tag+" ") {
			return untagged, l, nil
		}
		untagged = append(untagged, l)
	}
}

func (rc *rawConn) greeting() (string, error) { return rc.readLine(5 * time.Second) }

func respClass(tagged string) string {
	f := strings.Fields(tagged)
	if len(f) >= 2 {
		return strings.ToUpper(f[1])
	}
	return "?"
}

// upgradeTLS performs the client side of STARTTLS on a raw connection.
func (rc *rawConn) upgradeTLS() error {
	tc := tls.Client(rc.c, &tls.Config{InsecureSkipVerify: true})
	rc.c.SetDeadline(time.Now().Add(5 * time.Second))
	if err := tc.Handshake(); err != nil {
		return err
	}
	rc.c = tc
	rc.br = bufio.NewReader(tc)
	return nil
}

// interactive sends a command line and answers continuation requests with the given
// follow-up chunks (each written verbatim); returns untagged lines, continuation lines and
// the tagged completion.
func (rc *rawConn) interactive(line string, followups []string) (untagged, conts []string, tagged string, err error) {
	rc.tag++
	tag := fmt.Sprintf("T%d", rc.tag)
	if _, err = io.WriteString(rc.c, tag+" "+line+"\r\n"); err != nil {
		return
	}
	for {
		var l string
		l, err = rc.readLine(5 * time.Second)
		if err != nil {
			return
		}
		switch {
		case strings.HasPrefix(l, tag+" "):
			return untagged, conts, l, nil
		case strings.HasPrefix(l, "+"):
			conts = append(conts, l)
			if len(followups) > 0 {
				if _, err = io.WriteString(rc.c, followups[0]); err != nil {
					return
				}
				followups = followups[1:]
			}
		default:
			untagged = append(untagged, l)
		}
	}
}

var testTLSConfig = func() *tls.Config {
	key, err := ecdsa.GenerateKey(elliptic.P256(), rand.Reader)
	if err != nil {
		panic(err)
	}
	tmpl := &x509.Certificate{SerialNumber: big.NewInt(1), Subject: pkix.Name{CommonName: "localhost"},
		NotBefore: time.Now().Add(-time.Hour), NotAfter: time.Now().Add(24 * time.Hour),
		KeyUsage: x509.KeyUsageDigitalSignature, ExtKeyUsage: []x509.ExtKeyUsage{x509.ExtKeyUsageServerAuth}, DNSNames: []string{"localhost"}}
	der, err := x509.CreateCertificate(rand.Reader, tmpl, tmpl, &key.PublicKey, key)
	if err != nil {
		panic(err)
	}
	return &tls.Config{Certificates: []tls.Certificate{{Certificate: [][]byte{der}, PrivateKey: key}}}
}()

func newBufReader(c net.Conn) *bufio.Reader { return bufio.NewReader(c) }
