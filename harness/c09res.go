package main

import (
	"fmt"
	"math/rand"
	"sort"
	"strconv"
	"strings"
)

// searchRes: the saved search result "$" (SEARCHRES). After `SEARCH RETURN (SAVE) <key>` the
// set "$" denotes exactly the messages that search matched — also when it matched nothing —
// until the next SAVE search; FETCH/STORE/COPY/SEARCH on "$" address those messages only.
// Direct oracle, no model: the matched set is obtained from a plain SEARCH of the same key.
func (r *c09Runner) searchRes(seed int64) {
	h := r.h
	rng := rand.New(rand.NewSource(seed))
	src := fmt.Sprintf("scenario:searchres:%d", seed)
	ms := startMemServer(nil, false)
	defer ms.Close()
	cc, err := c09Dial(ms.ln.Addr().String())
	if err != nil {
		h.Fail("c09/setup", err.Error(), map[string]interface{}{"src": src})
		return
	}
	defer cc.Close()
	var script []string
	do := func(line string, lit []byte) ([]*c09Resp, *c09Resp, bool) {
		script = append(script, line)
		_, un, tg, err := cc.exchange(line, lit)
		if err != nil || tg == nil {
			h.Fail("c09/crash:searchres", fmt.Sprintf("the connection broke while handling %q: %v", line, err), map[string]interface{}{"src": src, "lines": script, "transcript": cc.log})
			return nil, nil, false
		}
		return un, tg, true
	}
	seqs := func(un []*c09Resp, kind string) []uint64 {
		var out []uint64
		for _, u := range un {
			if len(u.Toks) >= 2 && strings.EqualFold(u.Toks[1].V, kind) && kind == "FETCH" {
				v, _ := strconv.ParseUint(u.Toks[0].V, 10, 64)
				out = append(out, v)
			}
			if len(u.Toks) >= 1 && strings.EqualFold(u.Toks[0].V, kind) && kind == "SEARCH" {
				for _, t := range u.Toks[1:] {
					if v, err := strconv.ParseUint(t.V, 10, 64); err == nil {
						out = append(out, v)
					}
				}
			}
		}
		sort.Slice(out, func(i, j int) bool { return out[i] < out[j] })
		return out
	}
	if _, _, ok := do("LOGIN u p", nil); !ok {
		return
	}
	setup := func(line string, lit []byte) bool {
		_, tg, ok := do(line, lit)
		if ok && tg.Status != "OK" {
			h.Fail("c09/setup", fmt.Sprintf("scenario set-up command %q answered %s", line, tg.Status), map[string]interface{}{"src": src, "lines": script, "transcript": cc.log})
			return false
		}
		return ok
	}
	if !setup("CREATE INBOX", nil) {
		return
	}
	n := 3 + rng.Intn(4)
	for i := 0; i < n; i++ {
		fl := []string{"", "(\\Seen) ", "(\\Flagged) ", "(\\Seen \\Flagged) "}[rng.Intn(4)]
		msg := []byte(fmt.Sprintf("Subject: m%d\r\n\r\nbody %d\r\n", i, i))
		if !setup(fmt.Sprintf("APPEND INBOX %s{%d}", fl, len(msg)), msg) {
			return
		}
	}
	if !setup("SELECT INBOX", nil) {
		return
	}
	keys := []string{"ALL", "SEEN", "UNSEEN", "FLAGGED", "DELETED", "SEEN FLAGGED", "LARGER 100000", "SUBJECT m1", "SUBJECT nothing-has-this", "1:2", "UID 2:4", "KEYWORD $nope", "NOT ALL"}
	fail := func(what, text string) {
		h.Fail("c09/searchres:"+what, text, map[string]interface{}{"src": src, "lines": script, "transcript": cc.log})
	}
	for step := 0; step < 8; step++ {
		key := keys[rng.Intn(len(keys))]
		un, _, ok := do("SEARCH "+key, nil)
		if !ok {
			return
		}
		want := seqs(un, "SEARCH")
		if !setup("SEARCH RETURN (SAVE) "+key, nil) {
			return
		}
		// the saved result through FETCH, SEARCH and (sometimes) STORE
		un, tg, ok := do("FETCH $ (UID)", nil)
		if !ok {
			return
		}
		if got := seqs(un, "FETCH"); tg.Status == "OK" && fmt.Sprint(got) != fmt.Sprint(want) {
			fail("fetch", fmt.Sprintf("after SEARCH RETURN (SAVE) %s (which matches %v) FETCH $ returned messages %v", key, want, got))
			return
		}
		un, tg, ok = do("SEARCH $", nil)
		if !ok {
			return
		}
		if got := seqs(un, "SEARCH"); tg.Status == "OK" && fmt.Sprint(got) != fmt.Sprint(want) {
			fail("search", fmt.Sprintf("after SEARCH RETURN (SAVE) %s (which matches %v) SEARCH $ returned %v", key, want, got))
			return
		}
		if rng.Intn(2) == 0 {
			un, tg, ok = do("STORE $ +FLAGS (\\Flagged)", nil)
			if !ok {
				return
			}
			inWant := map[uint64]bool{}
			for _, w := range want {
				inWant[w] = true
			}
			outside := false
			got := seqs(un, "FETCH")
			for _, g := range got {
				outside = outside || !inWant[g]
			}
			if tg.Status == "OK" && outside {
				fail("store", fmt.Sprintf("after SEARCH RETURN (SAVE) %s (which matches %v) STORE $ changed messages %v", key, want, got))
				return
			}
		}
		h.Eval(fmt.Sprintf("searchres|%d|%d|%s", seed, step, key))
		h.Hist("scenario:searchres")
	}
}
