package main

import (
	"crypto/sha1"
	"encoding/hex"
	"encoding/json"
	"fmt"
	"math/rand"
	"os"
	"path/filepath"
	"strings"
	"time"
)

// H is the per-run harness context.
type H struct {
	Prop   string
	Tier   string
	Seed   int64
	Out    string
	Replay string
	Rng    *rand.Rand
	start  time.Time

	evals      int
	nontrivial map[string]struct{}
	hist       map[string]int
	samples    []interface{}
	failures   []Failure
	corr       []*CorrFile
	notes      []string
	rule       string
	exhaustive bool
}

// Failure is a violation of the property observed on the real code.
type Failure struct {
	Sig  string      `json:"sig"`  // stable signature used for known-finding matching
	What string      `json:"what"` // human description
	Case interface{} `json:"case"` // concrete replayable input
}

func newH(prop, tier string, seed int64, out, replay string) *H {
	if out == "" {
		out = filepath.Join("/verif/work", prop)
	}
	os.MkdirAll(out, 0o755)
	return &H{Prop: prop, Tier: tier, Seed: seed, Out: out, Replay: replay,
		Rng: rand.New(rand.NewSource(seed)), start: time.Now(),
		nontrivial: map[string]struct{}{}, hist: map[string]int{}}
}

func (h *H) Thorough() bool { return h.Tier == "thorough" }

// Pick returns q for the quick tier and t for the thorough tier.
func (h *H) Pick(q, t int) int {
	if h.Thorough() {
		return t
	}
	return q
}

// Eval counts one evaluated case; key != "" marks it non-trivial (distinct by key).
func (h *H) Eval(nontrivialKey string) {
	h.evals++
	if nontrivialKey != "" {
		sum := sha1.Sum([]byte(nontrivialKey))
		h.nontrivial[string(sum[:8])] = struct{}{}
	}
}

func (h *H) Hist(k string)           { h.hist[k]++ }
func (h *H) Note(f string, a ...any) { h.notes = append(h.notes, fmt.Sprintf(f, a...)) }
func (h *H) Rule(s string)           { h.rule = s }
func (h *H) Sample(v interface{}) {
	if len(h.samples) < 12 {
		h.samples = append(h.samples, v)
	}
}

// Fail records a property violation on the real code.
func (h *H) Fail(sig, what string, c interface{}) {
	for _, f := range h.failures {
		if f.Sig == sig {
			return // one witness per signature is enough
		}
	}
	if len(h.failures) < 200 {
		h.failures = append(h.failures, Failure{sig, what, c})
	}
}

// failed reports whether a failure with this signature has been recorded.
func (h *H) failed(sig string) bool {
	for _, f := range h.failures {
		if f.Sig == sig {
			return true
		}
	}
	return false
}

// InFlight records the case about to be run, so that a crash/hang of the harness process
// itself can be attributed to an input by the orchestrator.
func (h *H) InFlight(v interface{}) {
	b, _ := json.Marshal(v)
	os.WriteFile(filepath.Join(h.Out, "inflight.json"), b, 0o644)
}

// ---- correspondence case files ------------------------------------------------------

// CorrFile accumulates cases for one Coq evaluation; files are sharded so that one coqc
// call stays small.
type CorrFile struct {
	h       *H
	name    string // correspondence name, e.g. "numset_ops"
	imports []string
	fn      string // Coq function: list case -> list (N * obs)
	shard   int
	max     int
	terms   []string
	descs   []interface{}
	files   []string
	total   int
	size    int
	typ     string // optional Coq type of one case (needed when a shard could be all-None)
}

// Type sets the Coq type annotation of the case list.
func (c *CorrFile) Type(t string) *CorrFile { c.typ = t; return c }

func (h *H) NewCorr(name string, imports []string, mismatchFn string, perShard int) *CorrFile {
	c := &CorrFile{h: h, name: name, imports: imports, fn: mismatchFn, max: perShard}
	h.corr = append(h.corr, c)
	return c
}

// Add appends one case: a Coq term and a JSON-able description for replay files.
func (c *CorrFile) Add(term string, desc interface{}) {
	c.terms = append(c.terms, term)
	c.descs = append(c.descs, desc)
	c.total++
	c.size += len(term)
	if len(c.terms) >= c.max || c.size > 400000 {
		c.flush()
	}
}

func (c *CorrFile) flush() {
	if len(c.terms) == 0 {
		return
	}
	base := fmt.Sprintf("cases_%s_%s_%d", c.h.Prop, c.name, c.shard)
	var sb strings.Builder
	for _, im := range c.imports {
		sb.WriteString(im + "\n")
	}
	if c.typ != "" {
		sb.WriteString("Open Scope N_scope.\nDefinition cases : list " + c.typ + " := [\n")
	} else {
		sb.WriteString("Open Scope N_scope.\nDefinition cases := [\n")
	}
	for i, t := range c.terms {
		if i > 0 {
			sb.WriteString(";\n")
		}
		sb.WriteString(t)
	}
	sb.WriteString("\n].\n")
	sb.WriteString("Definition bad := Eval vm_compute in (" + c.fn + " cases).\n")
	sb.WriteString("Definition nbad := Eval vm_compute in (N.of_nat (List.length bad)).\nPrint nbad.\nPrint bad.\n")
	os.WriteFile(filepath.Join(c.h.Out, base+".v"), []byte(sb.String()), 0o644)
	b, _ := json.Marshal(c.descs)
	os.WriteFile(filepath.Join(c.h.Out, base+".json"), b, 0o644)
	c.files = append(c.files, base)
	c.shard++
	c.terms, c.descs, c.size = nil, nil, 0
}

func (h *H) finish() {
	type corrOut struct {
		Name  string   `json:"name"`
		Files []string `json:"files"`
		Cases int      `json:"cases"`
	}
	var cos []corrOut
	for _, c := range h.corr {
		c.flush()
		cos = append(cos, corrOut{c.name, c.files, c.total})
	}
	rep := map[string]interface{}{
		"property":            h.Prop,
		"tier":                h.Tier,
		"seed":                h.Seed,
		"evaluations":         h.evals,
		"distinct_nontrivial": len(h.nontrivial),
		"rule":                h.rule,
		"samples":             h.samples,
		"histogram":           h.hist,
		"failures":            h.failures,
		"correspondences":     cos,
		"notes":               h.notes,
		"exhaustive":          h.exhaustive,
		"harness_wall_s":      time.Since(h.start).Seconds(),
	}
	b, _ := json.MarshalIndent(rep, "", " ")
	os.WriteFile(filepath.Join(h.Out, "report.json"), b, 0o644)
	os.Remove(filepath.Join(h.Out, "inflight.json"))
}

// ---- Coq term printing -----------------------------------------------------------------

// coqHx renders a byte string as a Coq term; runs of >= 48 equal bytes are run-length
// encoded so that strings around the 4096-byte threshold stay small terms.
func coqHx(b []byte) string {
	if len(b) < 96 {
		return `(hx "` + hex.EncodeToString(b) + `")`
	}
	var parts []string
	start := 0
	flushLit := func(end int) {
		// long literals are cut into pieces: one huge string constant overflows Coq's stack
		for start < end {
			e := start + 800
			if e > end {
				e = end
			}
			parts = append(parts, `hx "`+hex.EncodeToString(b[start:e])+`"`)
			start = e
		}
	}
	i := 0
	for i < len(b) {
		j := i
		for j < len(b) && b[j] == b[i] {
			j++
		}
		if j-i >= 48 {
			flushLit(i)
			parts = append(parts, fmt.Sprintf(`rep %d (hx "%02x")`, j-i, b[i]))
			start = j
		}
		i = j
	}
	flushLit(len(b))
	if len(parts) == 0 {
		return `(hx "")`
	}
	return "(" + strings.Join(parts, " ++ ") + ")"
}
func coqHxS(s string) string { return coqHx([]byte(s)) }
func coqBool(b bool) string {
	if b {
		return "true"
	}
	return "false"
}
func coqN(n uint64) string { return fmt.Sprintf("%d", n) }
func coqZ(n int64) string {
	if n < 0 {
		return fmt.Sprintf("(%d)%%Z", n)
	}
	return fmt.Sprintf("%d%%Z", n)
}
func coqList(items []string) string { return "[" + strings.Join(items, "; ") + "]" }
func coqSome(s string) string       { return "(Some " + s + ")" }
func coqPair(a ...string) string    { return "(" + strings.Join(a, ", ") + ")" }

func newRand(seed int64) *rand.Rand { return rand.New(rand.NewSource(seed)) }

// replayField extracts a top-level field of the "case" object of a replay file as text.
func replayField(path, field string) string {
	b, err := os.ReadFile(path)
	if err != nil {
		return ""
	}
	var wrap struct {
		Case map[string]json.RawMessage `json:"case"`
	}
	if json.Unmarshal(b, &wrap) != nil {
		return ""
	}
	return strings.Trim(string(wrap.Case[field]), `"`)
}
