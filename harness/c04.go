package main

import (
	"bufio"
	"encoding/json"
	"fmt"
	"io"
	"net"
	"os"
	"regexp"
	"runtime"
	"strconv"
	"strings"
	"time"

	imap "github.com/emersion/go-imap/v2"
	"github.com/emersion/go-imap/v2/imapserver"
	shim "github.com/emersion/go-imap/v2/verifshim"
)

func init() {
	runners["C04"] = func(h *H) { runFraming(h, false) }
	runners["C06"] = func(h *H) { runFraming(h, true) }
}

// ---- structured commands -------------------------------------------------------------------

type argForm int

const (
	formAtom argForm = iota
	formQuoted
	formSync
	formNonSync
)

type fArg struct {
	Val      string  `json:"val"`
	Form     argForm `json:"form"`
	Announce int     `json:"announce"` // announced size (may differ from len(Val) for refused literals)
	Omit     bool    `json:"omit"`     // honest client: payload not sent because no "+" arrived
	// AnnounceText replaces the announced size by this text (sizes that overflow int64)
	AnnounceText string `json:"announce_text,omitempty"`
}

type fCmd struct {
	Tag  string `json:"tag"`
	Name string `json:"name"`
	Args []fArg `json:"args"`
	// APPEND only
	Flags   string `json:"flags,omitempty"`
	Date    string `json:"date,omitempty"`
	Trailer string `json:"trailer,omitempty"` // junk between the last argument and CRLF
	IdleEnd string `json:"idle_end,omitempty"`
	// After: raw octets written after the CRLF of the command line (the octets a literal header
	// in Trailer announces)
	After string `json:"after,omitempty"`
}

func quoteIMAP(s string) string {
	var sb strings.Builder
	sb.WriteByte('"')
	for i := 0; i < len(s); i++ {
		if s[i] == '"' || s[i] == '\\' {
			sb.WriteByte('\\')
		}
		sb.WriteByte(s[i])
	}
	sb.WriteByte('"')
	return sb.String()
}

func (a fArg) render() string {
	switch a.Form {
	case formAtom:
		return a.Val
	case formQuoted:
		return quoteIMAP(a.Val)
	case formSync:
		if a.Omit {
			return fmt.Sprintf("{%d}\r\n", a.Announce)
		}
		return fmt.Sprintf("{%d}\r\n%s", a.Announce, a.Val)
	default:
		if a.AnnounceText != "" {
			return fmt.Sprintf("{%s+}\r\n%s", a.AnnounceText, a.Val)
		}
		return fmt.Sprintf("{%d+}\r\n%s", a.Announce, a.Val)
	}
}

func (c fCmd) render() string {
	var sb strings.Builder
	sb.WriteString(c.Tag + " " + c.Name)
	for i, a := range c.Args {
		sb.WriteByte(' ')
		if c.Name == "APPEND" && i == 1 {
			if c.Flags != "" {
				sb.WriteString(c.Flags + " ")
			}
			if c.Date != "" {
				sb.WriteString(quoteIMAP(c.Date) + " ")
			}
		}
		sb.WriteString(a.render())
	}
	sb.WriteString(c.Trailer)
	sb.WriteString("\r\n")
	if c.Name == "IDLE" {
		sb.WriteString(c.IdleEnd)
	}
	sb.WriteString(c.After)
	return sb.String()
}

// segments of a command for an honest client: after a segment that ends with a synchronising
// literal header the client waits for "+" (then sends the next segment) or for the tagged
// completion of this command (then drops the command's remaining segments).
type fSeg struct {
	Data    string
	WaitTag string // non-empty: wait after this segment
	Final   bool   // last segment of a command: wait for the tagged completion only
}

func (c fCmd) segments() []fSeg {
	full := c.render()
	var segs []fSeg
	// split after every "{n}\r\n" that belongs to a sync literal argument, in order
	rest := full
	for _, a := range c.Args {
		if a.Form != formSync {
			continue
		}
		hdr := fmt.Sprintf("{%d}\r\n", a.Announce)
		i := strings.Index(rest, hdr)
		if i < 0 {
			break
		}
		segs = append(segs, fSeg{Data: rest[:i+len(hdr)], WaitTag: c.Tag})
		rest = rest[i+len(hdr):]
	}
	if c.Name == "IDLE" && strings.HasSuffix(rest, c.IdleEnd) && c.IdleEnd != "" {
		// wait for "+ idling" before ending the IDLE
		segs = append(segs, fSeg{Data: rest[:len(rest)-len(c.IdleEnd)], WaitTag: c.Tag})
		rest = c.IdleEnd
	}
	// a synchronous client: the next command is sent after this one has completed
	segs = append(segs, fSeg{Data: rest, WaitTag: c.Tag, Final: true})
	return segs
}

// ---- running a stream --------------------------------------------------------------------------

type fTok struct {
	Kind int    `json:"kind"` // 0 tagged 1 cont 2 bye
	Tag  string `json:"tag,omitempty"`
	Cls  int    `json:"cls,omitempty"`
}

var reAnnounce = regexp.MustCompile(`\{(\d+)\+?\}`)
var reTagged = regexp.MustCompile(`^(\S+) (OK|NO|BAD)( .*)?$`)

type streamResult struct {
	// Truncated: the server closed while client data was still unread, which makes TCP reset
	// the connection and may drop responses the client had not read yet
	Truncated bool
	Toks      []fTok
	Calls     []Call
	Raw       string
	Malformed string
	Closes    int
	Log       string
	// Abandoned: offsets in the sent bytes at which the honest client gave up a command because
	// the tagged completion arrived instead of the continuation request it was waiting for
	Abandoned map[int]bool
}

// ---- independent framing tokenizer ---------------------------------------------------------
//
// IMAP framing, written from the protocol and not from the decoder: a command line ends at the
// first CRLF that is not inside an announced literal, and nothing else ends it (not a bare CR,
// not a quote, not a parenthesis). A literal is announced by "{n}" or "{n+}" immediately before
// the CRLF (one SP before the CRLF is tolerated, as the server documents for line ends): the
// next n octets are payload and the same line goes on after them. After "{n}" the honest client
// of runStream sends the payload only when the continuation request arrived; the offsets where
// it gave up instead are passed in. A size that is not a readable number, or that exceeds what
// was sent, makes everything that follows payload.
type framedLine struct {
	Start int
	Tag   string // bytes up to the first SP ("" when the line has no SP: not a command)
	Text  string
}

var reLitAtEnd = regexp.MustCompile(`\{([0-9]+)(\+?)\} ?$`)

func frameStream(sent []byte, abandoned map[int]bool) []framedLine {
	var out []framedLine
	i := 0
	for i < len(sent) {
		start := i
		for {
			j := strings.Index(string(sent[i:]), "\r\n")
			if j < 0 {
				i = len(sent)
				break
			}
			seg := string(sent[i : i+j])
			i += j + 2
			m := reLitAtEnd.FindStringSubmatch(seg)
			if m == nil {
				break
			}
			n, err := strconv.ParseUint(m[1], 10, 63)
			if m[2] == "" && abandoned[i] {
				break // the command was completed by the server's refusal
			}
			if err != nil || uint64(len(sent)-i) < n {
				i = len(sent) // everything else is payload
				break
			}
			i += int(n)
		}
		// a line the stream ends in (or whose announced octets are all that follows) is still a
		// command that was started: the server may answer it before it gives up
		text := string(sent[start:i])
		tag := ""
		if k := strings.IndexByte(text, ' '); k > 0 {
			tag = text[:k]
		}
		out = append(out, framedLine{Start: start, Tag: tag, Text: text})
	}
	return out
}

// runStream plays the segments as an honest client (waiting for "+" after synchronising
// literal headers), half-closes (or resets) and reads everything the server sends. It
// returns the bytes actually sent.
func runStream(ts *testServer, segs [][]fSeg, cutReset bool) (streamResult, []byte) {
	c, err := net.Dial("tcp", ts.ln.Addr().String())
	if err != nil {
		panic(err)
	}
	br := bufio.NewReader(c)
	c.SetDeadline(time.Now().Add(15 * time.Second))
	greet, _ := br.ReadString('\n')
	_ = greet
	stub := ts.lastSession()
	var res streamResult
	res.Abandoned = map[int]bool{}
	lines := make(chan string, 100000)
	var readErr error
	go func() {
		for {
			l, err := br.ReadString('\n')
			if l != "" {
				lines <- l
			}
			if err != nil {
				readErr = err
				close(lines)
				return
			}
		}
	}()
	var out []byte
	var sent []byte
	for _, cmd := range segs {
	segloop:
		for _, sg := range cmd {
			c.Write([]byte(sg.Data))
			sent = append(sent, sg.Data...)
			if sg.WaitTag == "" {
				continue
			}
			// wait for "+" or the tagged completion of this command
			timeout := time.After(3 * time.Second)
			for {
				select {
				case l, ok := <-lines:
					if !ok {
						break segloop
					}
					out = append(out, l...)
					if strings.HasPrefix(l, "+") && !sg.Final {
						continue segloop
					}
					if strings.HasPrefix(l, sg.WaitTag+" ") {
						if !sg.Final {
							res.Abandoned[len(sent)] = true
						}
						break segloop
					}
				case <-timeout:
					if !sg.Final {
						res.Malformed = fmt.Sprintf("no continuation request and no tagged completion for %s within 3s (both sides wait)", sg.WaitTag)
					}
					break segloop
				}
			}
		}
	}
	if cutReset {
		c.(*net.TCPConn).SetLinger(0)
		c.Close()
	} else {
		c.(*net.TCPConn).CloseWrite()
	}
	for l := range lines {
		out = append(out, l...)
	}
	if readErr != nil && readErr != io.EOF {
		res.Truncated = true
	}
	c.Close()
	// wait for the server side to finish (session closed)
	for i := 0; i < 400; i++ {
		stub.mu.Lock()
		n := stub.closes
		stub.mu.Unlock()
		if n > 0 {
			break
		}
		time.Sleep(5 * time.Millisecond)
	}
	stub.mu.Lock()
	res.Closes = stub.closes
	stub.mu.Unlock()
	res.Calls = stub.Calls()
	res.Raw = string(out)
	// tokenize: every line must be a whole well-formed response line
	rest := res.Raw
	for len(rest) > 0 {
		i := strings.Index(rest, "\r\n")
		if i < 0 {
			if res.Malformed == "" {
				res.Malformed = fmt.Sprintf("output does not end with CRLF: %q", rest)
			}
			break
		}
		line := rest[:i]
		rest = rest[i+2:]
		switch {
		case strings.HasPrefix(line, "+ ") || line == "+":
			res.Toks = append(res.Toks, fTok{Kind: 1})
		case strings.HasPrefix(line, "* BYE"):
			res.Toks = append(res.Toks, fTok{Kind: 2})
		case strings.HasPrefix(line, "* "):
			if strings.ContainsAny(line, "\r\n") {
				res.Malformed = fmt.Sprintf("bare CR/LF inside response line %q", line)
			}
		default:
			m := reTagged.FindStringSubmatch(line)
			if m == nil {
				res.Malformed = fmt.Sprintf("not a response line: %q", line)
				continue
			}
			res.Toks = append(res.Toks, fTok{Kind: 0, Tag: m[1], Cls: map[string]int{"OK": 0, "NO": 1, "BAD": 2}[m[2]]})
		}
	}
	return res, sent
}

func rawSegs(b []byte) [][]fSeg { return [][]fSeg{{{Data: string(b)}}} }

func cmdSegs(cmds []fCmd) [][]fSeg {
	var out [][]fSeg
	for _, c := range cmds {
		out = append(out, c.segments())
	}
	return out
}

func callTerm(k Call) (string, bool) {
	s := func(key string) string { v, _ := k.Args[key].(string); return v }
	switch k.Name {
	case "Login":
		return "SLogin " + coqHxS(s("username")) + " " + coqHxS(s("password")), true
	case "Create":
		var use []string
		if o, ok := k.raw.(*imap.CreateOptions); ok && o != nil {
			for _, a := range o.SpecialUse {
				use = append(use, coqHxS(string(a)))
			}
		}
		return "SCreate " + coqHxS(s("mailbox")) + " " + coqList(use), true
	case "Delete":
		return "SDelete " + coqHxS(s("mailbox")), true
	case "Rename":
		return "SRename " + coqHxS(s("mailbox")) + " " + coqHxS(s("newname")), true
	case "Subscribe":
		return "SSubscribe " + coqHxS(s("mailbox")), true
	case "Unsubscribe":
		return "SUnsubscribe " + coqHxS(s("mailbox")), true
	case "Select":
		ro, _ := k.Args["readonly"].(bool)
		return "SSelect " + coqHxS(s("mailbox")) + " " + coqBool(ro), true
	case "Unselect":
		return "SUnselect", true
	case "Expunge":
		return "SExpunge", true
	case "Idle":
		return "", false // scheduled in its own goroutine: not compared
	case "Append":
		var flags []string
		date := ""
		if o, ok := k.raw.(*imap.AppendOptions); ok && o != nil {
			for _, f := range o.Flags {
				flags = append(flags, coqHxS(string(f)))
			}
			if !o.Time.IsZero() {
				date = o.Time.Format("_2-Jan-2006 15:04:05 -0700")
			}
		}
		return "SAppend " + coqHxS(s("mailbox")) + " " + coqList(flags) + " " + coqHxS(date) + " " + coqHxS(s("payload")), true
	}
	return "", false
}

const validDate = " 5-Nov-2020 12:34:56 +0100"

var c04QuotedRe = regexp.MustCompile(`"([^"\r\n]{8,40})"`)

func runFraming(h *H, cuts bool) {
	imports := []string{"From GoImap.Base Require Import Bytes.", "From GoImap.Model Require Import Wire ServerConn ServerFrame ServerFrameCorr."}
	corr := h.NewCorr("stream", imports, "sf_mismatches", 200).Type("sf_case")
	if !cuts {
		h.Rule("client byte streams built from structured commands (LOGIN, SELECT/EXAMINE, CREATE, DELETE, RENAME, SUBSCRIBE, UNSUBSCRIBE, APPEND with flags/date, ENABLE, IDLE, CLOSE/UNSELECT/EXPUNGE, NOOP, CAPABILITY, LOGOUT, unknown) whose string arguments are rendered as atom / quoted / synchronising literal / non-synchronising literal with announced sizes 0, 1, 4096, 4097, 5000 and APPEND limit+1, payloads containing CRLF and command-like text (with their own tags), with and without the payload of a refused synchronising literal (honest vs pipelining client), syntax errors before a literal announcement, servers with and without LITERAL+, greeting OK and PREAUTH; plus byte-level mutations. The whole stream is written at once, the connection half-closed and all output read. Oracle on the structured streams: every tagged response carries the tag of a real command, in order, at most once; no backend call that the structured description does not contain (i.e. none originating from payload text); '+' only for accepted synchronising literals and IDLE; every output line well-formed. Model: token sequence and backend calls with arguments re-evaluated inside Coq. Non-trivial = the stream contains a literal; distinct by stream.")
	} else {
		h.Rule("every prefix (cut at every byte offset, clean half-close and TCP reset) of a corpus of multi-command transcripts incl. literals, IDLE and APPEND, AUTHENTICATE exchanges with every kind of answer to the continuation request, SEARCH keys nested beyond the cap (plain and with empty lists), plus fuzzed streams (grammar-generated, mutated, raw garbage): the server log must contain no panic, the session must be closed exactly once, no string argument longer than 4096 bytes may reach a handler other than APPEND's streamed payload, an APPEND above the limit must be refused without its payload being awaited, goroutines must return to the baseline, and the backend calls must equal the model's on the same truncated stream. Non-trivial = the cut falls inside a command (not on a line boundary) or the stream contains a literal; distinct by stream.")
	}

	servers := map[string]*testServer{}
	getServer := func(litPlus, preauth bool) *testServer {
		key := fmt.Sprintf("%v/%v", litPlus, preauth)
		if ts := servers[key]; ts != nil {
			return ts
		}
		o := srvOpts{InsecureAuth: true, PreAuth: preauth,
			Configure: func(s *stubSession) { s.appendRefuse = func(m string) bool { return m == "failbox" } }}
		if litPlus {
			o.Caps = imap.CapSet{imap.CapIMAP4rev1: {}, imap.CapLiteralPlus: {}}
		}
		ts := startServer(o)
		servers[key] = ts
		return ts
	}
	defer func() {
		for _, ts := range servers {
			ts.Close()
		}
	}()

	baseGoroutines := 0

	// run one stream; cmds != nil enables the structural oracle
	one := func(stream []byte, cmds []fCmd, litPlus, preauth bool, cutAt int, reset bool, src string) {
		segs := rawSegs(stream)
		if cmds != nil {
			segs = cmdSegs(cmds)
		}
		desc := map[string]interface{}{"literal_plus": litPlus, "preauth": preauth}
		if cutAt >= 0 {
			desc["cut_at"] = cutAt
			desc["reset"] = reset
		}
		h.InFlight(desc)
		ts := getServer(litPlus, preauth)
		logBefore := len(ts.log.String())
		res, sent := runStream(ts, segs, reset)
		stream = sent
		desc["stream"] = string(stream)
		desc["stream_hex"] = fmt.Sprintf("%x", stream)
		logNew := ts.log.String()[logBefore:]
		desc["output"] = res.Raw
		if strings.Contains(logNew, "panic") {
			h.Fail("server-panic", "server log reports a panic: "+firstLine(logNew), desc)
		}
		if res.Closes != 1 {
			h.Fail(fmt.Sprintf("session-close-count:%d", res.Closes), fmt.Sprintf("Session.Close was called %d times", res.Closes), desc)
		}
		if res.Malformed != "" && !reset && !res.Truncated {
			h.Fail("malformed-output", res.Malformed, desc)
		}
		for _, k := range res.Calls {
			for name, v := range k.Args {
				if s, ok := v.(string); ok && len(s) > 4096 && !(k.Name == "Append" && name == "payload") {
					h.Fail("buffered-literal-too-big", fmt.Sprintf("%s received a %d-byte %s (literals above 4096 bytes must not be buffered)", k.Name, len(s), name), desc)
				}
			}
		}
		// ---- structural oracle ----
		if cmds != nil && cutAt < 0 && !res.Truncated {
			tags := map[string]int{}
			var order []string
			for _, c := range cmds {
				tags[c.Tag] = 0
				order = append(order, c.Tag)
			}
			pos := 0
			for _, t := range res.Toks {
				if t.Kind != 0 {
					continue
				}
				if _, ok := tags[t.Tag]; !ok {
					h.Fail("payload-parsed-as-command", fmt.Sprintf("tagged response for tag %q, which is not the tag of any command in the stream (it occurs only inside literal payload or discarded text)", t.Tag), desc)
					continue
				}
				tags[t.Tag]++
				if tags[t.Tag] > 1 {
					h.Fail("two-completions", fmt.Sprintf("command %q received %d tagged completions", t.Tag, tags[t.Tag]), desc)
				}
				for pos < len(order) && order[pos] != t.Tag {
					pos++
				}
				if pos == len(order) {
					h.Fail("completion-order", fmt.Sprintf("tagged completion for %q out of order", t.Tag), desc)
				}
			}
			// the server may end the connection (BYE, or a framing error it logs)
			closed := strings.Contains(logNew, "failed to read command")
			for _, t := range res.Toks {
				if t.Kind == 2 {
					closed = true
				}
			}
			if !closed {
				for _, c := range cmds {
					if tags[c.Tag] == 0 {
						h.Fail("no-completion", fmt.Sprintf("command %q (%s) received no tagged completion although the connection stayed open", c.Tag, c.Name), desc)
						break
					}
				}
			}
			// calls must come from the structured commands (mailbox names after the documented
			// INBOX folding and UTF-7 decoding)
			mb := func(v string) string {
				if strings.EqualFold(v, "INBOX") {
					return "INBOX"
				}
				d, err := shim.UTF7().NewDecoder().String(v)
				if err != nil {
					return "\x00undecodable"
				}
				return d
			}
			intended := map[string]int{}
			for _, c := range cmds {
				switch c.Name {
				case "LOGIN":
					if len(c.Args) == 2 {
						intended["Login|"+c.Args[0].Val+"|"+c.Args[1].Val]++
					}
				case "CREATE", "DELETE", "SUBSCRIBE", "UNSUBSCRIBE", "SELECT", "EXAMINE":
					if len(c.Args) >= 1 {
						intended[c.Name+"|"+mb(c.Args[0].Val)]++
					}
				case "RENAME":
					if len(c.Args) == 2 {
						intended["RENAME|"+mb(c.Args[0].Val)+"|"+mb(c.Args[1].Val)]++
					}
				case "APPEND":
					if len(c.Args) == 2 {
						pl := c.Args[1].Val
						if mb(c.Args[0].Val) == "failbox" {
							pl = "" // the refusing backend does not read the message
						}
						intended["APPEND|"+mb(c.Args[0].Val)+"|"+pl]++
					}
				}
			}
			conts := 0
			for _, t := range res.Toks {
				if t.Kind == 1 {
					conts++
				}
			}
			maxConts := 0
			for _, c := range cmds {
				if c.Name == "IDLE" {
					maxConts++
				}
				for _, a := range c.Args {
					if a.Form == formSync {
						maxConts++
					}
				}
			}
			if conts > maxConts {
				h.Fail("unsolicited-continuation", fmt.Sprintf("%d continuation requests for %d synchronising literals / IDLE commands", conts, maxConts), desc)
			}
			for _, k := range res.Calls {
				key := ""
				s := func(x string) string { v, _ := k.Args[x].(string); return v }
				switch k.Name {
				case "Login":
					key = "Login|" + s("username") + "|" + s("password")
				case "Create", "Delete", "Subscribe", "Unsubscribe":
					key = strings.ToUpper(k.Name) + "|" + s("mailbox")
				case "Select":
					key = "SELECT|" + s("mailbox")
					if intended[key] == 0 {
						key = "EXAMINE|" + s("mailbox")
					}
				case "Rename":
					key = "RENAME|" + s("mailbox") + "|" + s("newname")
				case "Append":
					key = "APPEND|" + s("mailbox") + "|" + s("payload")
				default:
					continue
				}
				// mailbox names are compared after the documented canonicalisation
				if intended[key] == 0 {
					h.Fail("call-from-payload:"+k.Name, fmt.Sprintf("backend call %s %v does not correspond to any command of the stream: its arguments come from literal payload or discarded text", k.Name, k.Args), desc)
				} else if intended[key] > 0 {
					intended[key]--
				}
			}
		}
		// ---- framing oracle: the independent tokenizer decides which tags may be answered ----
		hasIdle := false
		for _, c := range cmds {
			if strings.EqualFold(c.Name, "IDLE") {
				hasIdle = true // the line after an accepted IDLE is not a command line
			}
		}
		if cmds != nil && cutAt < 0 && !res.Truncated && !hasIdle {
			framed := frameStream(stream, res.Abandoned)
			shape := src
			pos := 0
			answered := -1
			for _, t := range res.Toks {
				if t.Kind != 0 {
					continue
				}
				k := pos
				for k < len(framed) && framed[k].Tag != t.Tag {
					k++
				}
				if k == len(framed) {
					h.Fail("framing:"+shape+":unframed-tag", fmt.Sprintf("tagged response for %q, but no command line delimited by IMAP framing (CRLF outside announced literals) starts with that tag at or after the previously answered line: text inside another command's line or inside announced literal octets was executed", t.Tag), desc)
					continue
				}
				for q := answered + 1; q < k; q++ {
					if q >= pos {
						h.Fail("framing:"+shape+":skipped-command", fmt.Sprintf("the command line %q delimited by IMAP framing received no tagged completion although the later command %q was answered on the same connection", framed[q].Text, t.Tag), desc)
						break
					}
				}
				answered = k
				pos = k + 1
			}
			if len(framed) != len(cmds) {
				h.Hist("framer_and_generator_count_differ")
			}
		}
		if cuts && baseGoroutines > 0 {
			// goroutines of finished connections must go away
			ok := false
			for i := 0; i < 100; i++ {
				if runtime.NumGoroutine() <= baseGoroutines+2 {
					ok = true
					break
				}
				time.Sleep(5 * time.Millisecond)
			}
			if !ok {
				h.Fail("goroutine-leak", fmt.Sprintf("%d goroutines remain (baseline %d) after the connection ended", runtime.NumGoroutine(), baseGoroutines), desc)
				baseGoroutines = runtime.NumGoroutine()
			}
		}
		// ---- model ----
		var toks []string
		for _, t := range res.Toks {
			toks = append(toks, fmt.Sprintf("(%d, %s, %d)", t.Kind, coqHxS(t.Tag), t.Cls))
		}
		var calls []string
		for _, k := range res.Calls {
			if t, ok := callTerm(k); ok {
				calls = append(calls, "("+t+")")
			}
		}
		tokTerm := coqSome(coqList(toks))
		if cutAt >= 0 || res.Truncated {
			tokTerm = "None"
			h.Hist("tokens_not_compared")
		}
		st0 := 0
		if preauth {
			st0 = 1
		}
		key := ""
		if strings.Contains(string(stream), "}\r\n") || (cutAt >= 0 && !strings.HasSuffix(string(stream), "\r\n")) {
			key = string(stream)
		}
		h.Eval(key)
		h.Hist("src:" + src)
		// the model materialises an accepted APPEND payload of the announced size: streams that
		// announce between 1 MB and the append limit (never generated on purpose, possible by
		// mutation) are left to the oracles
		hugeAnnounce := false
		for _, m := range reAnnounce.FindAllStringSubmatch(string(stream), -1) {
			if n, err := strconv.ParseUint(m[1], 10, 64); err == nil && n > 1000000 && n <= 104857600 {
				hugeAnnounce = true
			}
		}
		if hugeAnnounce {
			h.Hist("model_skipped_large_announced_literal")
		}
		if reset || hugeAnnounce || strings.HasPrefix(src, "oracle-only") {
			// after a TCP reset the server may never see data it had not read yet: only the
			// cleanup oracles above apply, the calls are not comparable; "oracle-only" streams
			// use commands outside the byte-level model (AUTHENTICATE, SEARCH)
			return
		}
		// the model takes "which strings are valid date-times" as an oracle: every quoted string of
		// the stream that Go's time.Parse accepts for the server's layout (a mutated stream may
		// contain variants of the generator's date, e.g. without the padding space)
		dateTerms := []string{coqHxS(validDate)}
		for _, m := range c04QuotedRe.FindAllSubmatch(stream, -1) {
			if q := string(m[1]); q != validDate {
				if _, err := time.Parse("_2-Jan-2006 15:04:05 -0700", q); err == nil {
					dateTerms = append(dateTerms, coqHxS(q))
				}
			}
		}
		corr.Add(fmt.Sprintf("(true, %s, [%s], [%s], %d, %s, %s, %s)", coqBool(litPlus), strings.Join(dateTerms, "; "), coqHxS("failbox"), st0, coqHx(stream), tokTerm, coqList(calls)), desc)
		if key != "" && h.Rng.Intn(150) == 0 {
			h.Sample(map[string]interface{}{"stream": string(stream), "output": res.Raw})
		}
	}

	if h.Replay != "" {
		var wrap struct {
			Case struct {
				Hex     string `json:"stream_hex"`
				LitPlus bool   `json:"literal_plus"`
				PreAuth bool   `json:"preauth"`
				CutAt   *int   `json:"cut_at"`
				Reset   bool   `json:"reset"`
			} `json:"case"`
		}
		b, _ := os.ReadFile(h.Replay)
		json.Unmarshal(b, &wrap)
		var raw []byte
		fmt.Sscanf(wrap.Case.Hex, "%x", &raw)
		cut := -1
		if wrap.Case.CutAt != nil {
			cut = *wrap.Case.CutAt
		}
		one(raw, nil, wrap.Case.LitPlus, wrap.Case.PreAuth, cut, wrap.Case.Reset, "replay")
		return
	}

	tagN := 0
	newTag := func() string { tagN++; return fmt.Sprintf("A%d", tagN) }
	payloadText := func(n int) string {
		// command-like text with its own tags, CRLF inside
		base := "X1 CREATE evil\r\nX2 DELETE INBOX\r\nX3 LOGIN eve pw\r\n"
		var sb strings.Builder
		for sb.Len() < n {
			sb.WriteString(base)
		}
		return sb.String()[:n]
	}
	mkArg := func(val string, form argForm, announce int, honest bool) fArg {
		a := fArg{Val: val, Form: form, Announce: announce}
		if form == formSync && honest && announce > 4096 {
			a.Omit = true
		}
		return a
	}
	strForms := func(val string) []fArg {
		var out []fArg
		if val != "" && !strings.ContainsAny(val, " \r\n\"\\(){%*") {
			out = append(out, fArg{Val: val, Form: formAtom})
		}
		if !strings.ContainsAny(val, "\r\n") {
			out = append(out, fArg{Val: val, Form: formQuoted})
		}
		out = append(out, fArg{Val: val, Form: formSync, Announce: len(val)}, fArg{Val: val, Form: formNonSync, Announce: len(val)})
		return out
	}

	if !cuts {
		// ---- corpus: the literal-refusal and discard cases ----
		for _, litPlus := range []bool{false, true} {
			for _, size := range []int{0, 1, 4096, 4097, 5000} {
				for _, form := range []argForm{formSync, formNonSync} {
					for _, honest := range []bool{true, false} {
						if form == formNonSync && honest {
							continue
						}
						pl := payloadText(size)
						cmds := []fCmd{
							{Tag: newTag(), Name: "LOGIN", Args: []fArg{mkArg(pl, form, size, honest), {Val: "pw", Form: formAtom}}},
							{Tag: newTag(), Name: "NOOP"},
						}
						var sb strings.Builder
						for _, c := range cmds {
							sb.WriteString(c.render())
						}
						one([]byte(sb.String()), cmds, litPlus, false, -1, false, "corpus-login-literal")
						// second argument as the literal
						cmds2 := []fCmd{
							{Tag: newTag(), Name: "LOGIN", Args: []fArg{{Val: "user", Form: formAtom}, mkArg(pl, form, size, honest)}},
							{Tag: newTag(), Name: "NOOP"},
						}
						sb.Reset()
						for _, c := range cmds2 {
							sb.WriteString(c.render())
						}
						one([]byte(sb.String()), cmds2, litPlus, false, -1, false, "corpus-login-literal")
						// APPEND payloads
						cmds3 := []fCmd{
							{Tag: newTag(), Name: "LOGIN", Args: []fArg{{Val: "u", Form: formAtom}, {Val: "p", Form: formAtom}}},
							{Tag: newTag(), Name: "APPEND", Args: []fArg{{Val: "box", Form: formAtom}, {Val: pl, Form: form, Announce: size}}},
							{Tag: newTag(), Name: "NOOP"},
						}
						sb.Reset()
						for _, c := range cmds3 {
							sb.WriteString(c.render())
						}
						one([]byte(sb.String()), cmds3, litPlus, false, -1, false, "corpus-append")
						// syntax error before the literal announcement
						cmds4 := []fCmd{
							{Tag: newTag(), Name: "NOOP", Args: []fArg{mkArg(pl, form, size, honest)}},
							{Tag: newTag(), Name: "NOOP"},
						}
						sb.Reset()
						for _, c := range cmds4 {
							sb.WriteString(c.render())
						}
						one([]byte(sb.String()), cmds4, litPlus, true, -1, false, "corpus-error-before-literal")
					}
				}
			}
			// a non-synchronising literal whose announced size is not a readable number (it
			// overflows int64): its octets cannot be skipped, so they must not be executed
			for _, big := range []string{"9223372036854775808", "99999999999999999999", "18446744073709551616"} {
				pl := "X8 LOGIN user pass\r\nX9 CREATE fromoverflow\r\n"
				for _, cmdsO := range [][]fCmd{
					{{Tag: newTag(), Name: "LOGIN", Args: []fArg{{Val: pl, Form: formNonSync, AnnounceText: big}}}, {Tag: newTag(), Name: "NOOP"}},
					{{Tag: newTag(), Name: "LOGIN", Args: []fArg{{Val: "u", Form: formAtom}, {Val: "p", Form: formAtom}}},
						{Tag: newTag(), Name: "CREATE", Args: []fArg{{Val: pl, Form: formNonSync, AnnounceText: big}}}, {Tag: newTag(), Name: "NOOP"}},
					{{Tag: newTag(), Name: "LOGIN", Args: []fArg{{Val: "u", Form: formAtom}, {Val: "p", Form: formAtom}}},
						{Tag: newTag(), Name: "APPEND", Args: []fArg{{Val: "box", Form: formAtom}, {Val: pl, Form: formNonSync, AnnounceText: big}}}, {Tag: newTag(), Name: "NOOP"}},
				} {
					var sb strings.Builder
					for _, c := range cmdsO {
						sb.WriteString(c.render())
					}
					one([]byte(sb.String()), cmdsO, litPlus, false, -1, false, "corpus-overflowing-literal-size")
				}
			}
			// a tag containing "+": its tagged response would read as a continuation request
			for _, tg := range []string{"+", "A+", "+1"} {
				cmdsT := []fCmd{{Tag: tg, Name: "LOGIN", Args: []fArg{{Val: "u", Form: formAtom}, {Val: "p", Form: formAtom}}}, {Tag: newTag(), Name: "NOOP"}}
				var sb strings.Builder
				for _, c := range cmdsT {
					sb.WriteString(c.render())
				}
				one([]byte(sb.String()), cmdsT, litPlus, false, -1, false, "corpus-plus-in-tag")
			}
			// APPEND above the limit: announced only (sizes around the limit and around 2^31, 2^32, 2^63)
			for _, big := range []int{104857601, 104857602, 2147483647, 2147483648, 4294967295, 4294967296, 4294967301, 8589934592, 9223372036854775807} {
				cmds := []fCmd{
					{Tag: newTag(), Name: "APPEND", Args: []fArg{{Val: "box", Form: formAtom}, {Val: "", Form: formSync, Announce: big, Omit: true}}},
					{Tag: newTag(), Name: "NOOP"},
				}
				one([]byte(cmds[0].render()+cmds[1].render()), cmds, litPlus, true, -1, false, "corpus-append-limit")
			}
			// the same before authentication: the refusal must not depend on the connection state
			for _, form := range []argForm{formSync, formNonSync} {
				for _, big := range []int{104857601, 4294967296} {
					cmds := []fCmd{
						{Tag: newTag(), Name: "APPEND", Args: []fArg{{Val: "box", Form: formAtom}, {Val: "", Form: form, Announce: big, Omit: true}}},
						{Tag: newTag(), Name: "NOOP"},
					}
					s := cmds[0].render() + cmds[1].render()
					if form == formNonSync {
						s = strings.Replace(cmds[0].render(), "\r\n\r\n", "\r\n", 1) + cmds[1].render()
					}
					one([]byte(s), cmds, litPlus, false, -1, false, "corpus-append-limit-unauthenticated")
				}
			}
			for _, form := range []argForm{formSync, formNonSync} {
				cmds := []fCmd{
					{Tag: newTag(), Name: "APPEND", Args: []fArg{{Val: "box", Form: formAtom}, {Val: "", Form: form, Announce: 104857601, Omit: true}}},
					{Tag: newTag(), Name: "NOOP"},
				}
				s := cmds[0].render() + cmds[1].render()
				if form == formNonSync {
					s = strings.Replace(cmds[0].render(), "\r\n\r\n", "\r\n", 1) + cmds[1].render()
				}
				one([]byte(s), cmds, litPlus, true, -1, false, "corpus-append-limit")
			}
			// APPEND with junk after the literal, flags, date
			for _, tr := range []string{"", " junk", "x"} {
				cmds := []fCmd{
					{Tag: newTag(), Name: "APPEND", Args: []fArg{{Val: "box", Form: formQuoted}, {Val: "hello\r\nworld", Form: formNonSync, Announce: 12}}, Flags: `(\Seen $Foo)`, Date: validDate, Trailer: tr},
					{Tag: newTag(), Name: "NOOP"},
				}
				one([]byte(cmds[0].render()+cmds[1].render()), cmds, litPlus, true, -1, false, "corpus-append-trailer")
			}
		}
		// ---- framing shapes: what ends a command line and what does not ----
		runCmds := func(cmds []fCmd, litPlus, preauth bool, src string) {
			var sb strings.Builder
			for _, c := range cmds {
				sb.WriteString(c.render())
			}
			one([]byte(sb.String()), cmds, litPlus, preauth, -1, false, src)
		}
		login := func() fCmd {
			return fCmd{Tag: newTag(), Name: "LOGIN", Args: []fArg{{Val: "u", Form: formAtom}, {Val: "p", Form: formAtom}}}
		}
		for _, litPlus := range []bool{false, true} {
			// (1) every command with a string argument: the argument as a literal, then text on
			// the same line (which is not a new line: nothing in it may be executed)
			type shape struct {
				name string
				nArg int
			}
			for _, sh := range []shape{{"LOGIN", 2}, {"SELECT", 1}, {"EXAMINE", 1}, {"CREATE", 1}, {"DELETE", 1}, {"RENAME", 2}, {"SUBSCRIBE", 1}, {"UNSUBSCRIBE", 1}, {"APPEND", 2}} {
				for litAt := 0; litAt < sh.nArg; litAt++ {
					for _, form := range []argForm{formSync, formNonSync} {
						for _, val := range []string{"&&&", "abc", ""} {
							for _, garbage := range []string{"Z7 DELETE Victim", " Z7 DELETE Victim", "\rZ7 DELETE Victim", ")Z7 DELETE Victim"} {
								c := fCmd{Tag: newTag(), Name: sh.name}
								for k := 0; k < sh.nArg; k++ {
									if k == litAt {
										c.Args = append(c.Args, fArg{Val: val, Form: form, Announce: len(val)})
									} else if k < litAt {
										c.Args = append(c.Args, fArg{Val: "m" + strconv.Itoa(k), Form: formAtom})
									}
								}
								c.Trailer = garbage
								cmds := []fCmd{c, {Tag: newTag(), Name: "NOOP"}}
								if sh.name != "LOGIN" {
									cmds = append([]fCmd{login()}, cmds...)
								}
								runCmds(cmds, litPlus, false, "literal-then-garbage")
							}
						}
					}
				}
			}
			// (2) a CR that is not followed by LF, at every position of a line
			for _, line := range []string{"FROB x Z7 DELETE Victim", "DELETE box Z7 DELETE Victim", "LOGIN u p Z7 DELETE Victim", "NOOP", "CREATE \"a b\" Z7 DELETE Victim"} {
				tg := newTag()
				full := tg + " " + line
				for p := 0; p <= len(full); p++ {
					if p > 0 && full[p-1] == '\r' {
						continue // CR LF inside the literal header
					}
					mut := full[:p] + "\r" + full[p:]
					k := strings.IndexByte(mut, ' ')
					cmds := []fCmd{login(), {Tag: mut[:k], Name: mut[k+1:]}, {Tag: newTag(), Name: "NOOP"}}
					if strings.HasPrefix(line, "LOGIN") {
						cmds = cmds[1:]
					}
					runCmds(cmds, litPlus, false, "bare-cr")
				}
			}
			// (3) the header of a non-synchronising literal at the end of a discarded line, in the
			// forms the server itself accepts as a literal header (with and without SP before CRLF):
			// the announced octets are command-like and must not be executed
			octets := "Z7 DELETE Victim\r\nZ8 CREATE fromoctets\r\n"
			for _, nm := range []string{"NOOP", "FROB", "DELETE box", "SELECT (", "CREATE \"a\"", "UID", "UID FROB", "uid", "STARTTLS", "LOGOUT x", "IDLE x", "ENABLE", "AUTHENTICATE"} {
				for _, hdr := range []string{"{%d+}", "{%d+} ", "x{%d+} ", "{0%d+} "} {
					cmds := []fCmd{login(), {Tag: newTag(), Name: nm, Trailer: " " + fmt.Sprintf(hdr, len(octets)), After: octets}, {Tag: newTag(), Name: "NOOP"}}
					runCmds(cmds, litPlus, false, "nonsync-header-in-discarded-line")
				}
			}
			// (3b) the same at the end of a long discarded line: the header lies anywhere relative to
			// the 4096-byte units in which the server's buffered reader delivers an overlong line
			for pad := 4020; pad <= 4100; pad += h.Pick(2, 1) {
				cmds := []fCmd{login(), {Tag: newTag(), Name: "FROB", Trailer: " " + strings.Repeat("p", pad) + fmt.Sprintf(" {%d+}", len(octets)), After: octets}, {Tag: newTag(), Name: "NOOP"}}
				runCmds(cmds, litPlus, false, "nonsync-header-in-long-discarded-line")
			}
			for _, pad := range []int{8170, 8185, 8190, 8192, 12280} {
				cmds := []fCmd{login(), {Tag: newTag(), Name: "FROB", Trailer: " " + strings.Repeat("p", pad) + fmt.Sprintf(" {%d+}", len(octets)), After: octets}, {Tag: newTag(), Name: "NOOP"}}
				runCmds(cmds, litPlus, false, "nonsync-header-in-long-discarded-line")
			}
			// (4) AUTHENTICATE whose initial response is followed by the header of a
			// non-synchronising literal (AUTHENTICATE is outside the byte-level model)
			octets = "Z7 LOGIN u p\r\nZ8 CREATE fromoctets\r\n"
			for _, ir := range []string{"!!!! ", "AHUAcA== ", "= ", "", "AHUAcA=="} {
				for _, hdr := range []string{"{%d+}", "{%d+} "} {
					cmds := []fCmd{{Tag: newTag(), Name: "AUTHENTICATE", Trailer: " PLAIN " + ir + fmt.Sprintf(hdr, len(octets)), After: octets}, {Tag: newTag(), Name: "NOOP"}}
					runCmds(cmds, litPlus, false, "oracle-only-authenticate-ir-literal")
				}
			}
			// (5) CRLF inside a quoted string: by IMAP framing the line ends there
			for _, nm := range []string{"CREATE", "DELETE", "SELECT"} {
				cmds := []fCmd{login(), {Tag: newTag(), Name: nm, Trailer: " \"x\r\nZ7 DELETE Victim\r\n\""}, {Tag: newTag(), Name: "NOOP"}}
				runCmds(cmds, litPlus, false, "quoted-crlf")
			}
		}
		// ---- random structured streams ----
		names := []string{"INBOX", "inbox", "a", "Foo Bar", "a\"b", "x\r\ny", "&AOk-", "&bad", "Entw&APw-rfe", "(x", "a*b", "NIL", ""}
		for i := 0; i < h.Pick(1200, 12000); i++ {
			litPlus := h.Rng.Intn(2) == 0
			preauth := h.Rng.Intn(3) == 0
			var cmds []fCmd
			arg := func() fArg {
				v := names[h.Rng.Intn(len(names))]
				if h.Rng.Intn(6) == 0 {
					v = payloadText([]int{10, 40, 4096, 4097, 5000}[h.Rng.Intn(5)])
				}
				fs := strForms(v)
				a := fs[h.Rng.Intn(len(fs))]

				return a
			}
			for k := 1 + h.Rng.Intn(6); k > 0; k-- {
				c := fCmd{Tag: newTag()}
				switch h.Rng.Intn(14) {
				case 0, 1:
					c.Name, c.Args = "LOGIN", []fArg{arg(), arg()}
				case 2:
					c.Name, c.Args = []string{"SELECT", "EXAMINE"}[h.Rng.Intn(2)], []fArg{arg()}
				case 3:
					c.Name, c.Args = "CREATE", []fArg{arg()}
					if h.Rng.Intn(4) == 0 {
						c.Trailer = ` (USE (\Sent \drafts))`
					}
				case 4:
					c.Name, c.Args = []string{"DELETE", "SUBSCRIBE", "UNSUBSCRIBE"}[h.Rng.Intn(3)], []fArg{arg()}
				case 5:
					c.Name, c.Args = "RENAME", []fArg{arg(), arg()}
				case 6, 7:
					pl := payloadText([]int{0, 5, 60, 4097}[h.Rng.Intn(4)])
					f := []argForm{formSync, formNonSync}[h.Rng.Intn(2)]
					mbArg := arg()
					if h.Rng.Intn(3) == 0 {
						// the backend refuses this mailbox without reading the message
						mbArg = fArg{Val: "failbox", Form: []argForm{formAtom, formQuoted}[h.Rng.Intn(2)]}
						if pl == "" || h.Rng.Intn(2) == 0 {
							pl = "x1 CREATE fromappendbody\r\nx2 DELETE INBOX\r\n"
						}
					}
					c.Name, c.Args = "APPEND", []fArg{mbArg, {Val: pl, Form: f, Announce: len(pl)}}
					c.Flags = []string{"", "", `(\Seen)`, `(\Seen $x)`, `()`, `(\)`}[h.Rng.Intn(6)]
					c.Date = []string{"", "", validDate, "yesterday"}[h.Rng.Intn(4)]
				case 8:
					c.Name = "ENABLE"
					c.Trailer = []string{"", " UTF8=ACCEPT", " IMAP4rev2 X", "  X"}[h.Rng.Intn(4)]
				case 9:
					c.Name = "IDLE"
					c.IdleEnd = []string{"DONE\r\n", "DONE\r\n", "done\r\n", "STOP\r\n", "DONE\n",
						// one line longer than the server's 4096-byte read buffer, with command-like text in its tail
						strings.Repeat("x", 4090+h.Rng.Intn(12)) + " Z9 CREATE fromidletail\r\n"}[h.Rng.Intn(6)]
				case 10:
					c.Name = []string{"CLOSE", "UNSELECT", "EXPUNGE", "CHECK"}[h.Rng.Intn(4)]
				case 11:
					c.Name = []string{"NOOP", "CAPABILITY", "noop", "Capability"}[h.Rng.Intn(4)]
					c.Trailer = []string{"", "", " ", " x", " {3+}"}[h.Rng.Intn(5)]
				case 12:
					c.Name = []string{"FROB", "XYZZY", "UID NOOPX"}[h.Rng.Intn(3)]
				default:
					c.Name = "LOGOUT"
				}
				if n := len(c.Args); n > 0 && c.Trailer == "" && c.Name != "APPEND" && (c.Args[n-1].Form == formSync || c.Args[n-1].Form == formNonSync) && h.Rng.Intn(4) == 0 {
					// text on the same line after a literal: not a new line
					c.Trailer = []string{"Z7 DELETE Victim", " Z7 CREATE fromtrailer", "\rZ7 DELETE Victim", "\r"}[h.Rng.Intn(4)]
				} else if c.Trailer == "" && c.Name != "IDLE" && h.Rng.Intn(25) == 0 {
					c.Trailer = []string{"\rZ7 DELETE Victim", " x\rZ7 CREATE fromtrailer", "\r"}[h.Rng.Intn(3)]
				}
				cmds = append(cmds, c)
			}
			var sb strings.Builder
			for _, c := range cmds {
				sb.WriteString(c.render())
			}
			stream := []byte(sb.String())
			structured := cmds
			src := "random-structured"
			if h.Rng.Intn(5) == 0 && len(stream) > 0 {
				// byte-level mutation: no structural oracle any more
				structured = nil
				src = "mutated"
				p := h.Rng.Intn(len(stream))
				switch h.Rng.Intn(4) {
				case 0:
					stream[p] = " \r\n{}+\"\\()A0"[h.Rng.Intn(12)]
				case 1:
					stream = append(stream[:p], stream[p+1:]...)
				case 2:
					stream = append(stream[:p], append([]byte{" \r\n{}+\"9"[h.Rng.Intn(8)]}, stream[p:]...)...)
				default:
					stream = append(stream[:p], append([]byte("\r\n"), stream[p:]...)...)
				}
				if !strings.HasSuffix(string(stream), "\r\n") {
					stream = append(stream, "\r\n"...)
				}
			}
			one(stream, structured, litPlus, preauth, -1, false, src)
		}
		return
	}

	// ---- C06: cut points and fuzz ----
	transcripts := []string{
		"A1 LOGIN user pass\r\nA2 SELECT INBOX\r\nA3 NOOP\r\nA4 CLOSE\r\nA5 LOGOUT\r\n",
		"B1 LOGIN {4}\r\nuser {4+}\r\npass\r\nB2 CREATE \"a b\"\r\nB3 APPEND INBOX (\\Seen) {11}\r\nhello\r\nworld\r\nB4 IDLE\r\nDONE\r\nB5 LOGOUT\r\n",
		"C1 LOGIN u p\r\nC2 APPEND box {5000+}\r\n" + strings.Repeat("x", 5000) + "\r\nC3 RENAME {3+}\r\nabc {3}\r\ndef\r\nC4 ENABLE UTF8=ACCEPT\r\nC5 EXAMINE &AOk-\r\nC6 UNSELECT\r\n",
		"D1 CAPABILITY\r\nD2 FROB\r\n",
		"E1 LOGIN u p\r\nE2 IDLE\r\n",
		"G1 LOGIN u p\r\nG2 IDLE\r\n" + strings.Repeat("x", 4096) + "G3 CREATE fromidletail\r\nG4 NOOP\r\n",
		"H1 LOGIN u p\r\nH2 IDLE\r\n" + strings.Repeat("y", 9000) + "\r\nH4 NOOP\r\n",
	}
	_ = getServer(false, false)
	runStream(getServer(false, false), rawSegs([]byte("W1 NOOP\r\n")), false)
	time.Sleep(50 * time.Millisecond)
	baseGoroutines = runtime.NumGoroutine()
	step := h.Pick(1, 1)
	for ti, tr := range transcripts {
		_ = ti
		limit := len(tr)
		for cut := 0; cut <= limit; cut += step {
			if cut > 1 && cut < limit && tr[cut-1] == tr[cut] && tr[cut-2] == tr[cut] && (tr[cut] == 'x' || tr[cut] == 'y') && cut%257 != 0 && !(h.Thorough() && ti == 2) {
				continue // inside a long run of filler bytes: sample
			}
			one([]byte(tr[:cut]), nil, false, false, cut, false, "cut-eof")
			if cut%3 == 0 || h.Thorough() {
				one([]byte(tr[:cut]), nil, false, false, cut, true, "cut-reset")
			}
		}
	}
	// LITERAL+ servers: a non-synchronising literal above 4096 bytes as a buffered string
	// argument must still be refused (only APPEND's streamed payload may be larger)
	for _, n := range []int{4096, 4097, 5000, 70000} {
		for _, tmpl := range []string{"L1 LOGIN {%d+}\r\n%s pw\r\nL2 NOOP\r\n", "L1 LOGIN u p\r\nL2 CREATE {%d+}\r\n%s\r\nL3 NOOP\r\n", "L1 LOGIN u p\r\nL2 SELECT {%d+}\r\n%s\r\n"} {
			stream := []byte(fmt.Sprintf(tmpl, n, strings.Repeat("k", n)))
			one(stream, nil, true, false, len(stream), false, "litplus-oversize")
		}
	}

	// APPEND sizes above the limit, up to 2^63-1: refused before any octet is awaited (no "+")
	for _, big := range []string{"104857601", "2147483648", "4294967296", "4294967301", "8589934592", "9223372036854775807"} {
		stream := []byte("P1 LOGIN u p\r\nP2 APPEND box {" + big + "}\r\n")
		one(stream, nil, false, false, len(stream), false, "append-over-limit")
		ts := getServer(false, false)
		res, _ := runStream(ts, rawSegs(stream), false)
		for _, t := range res.Toks {
			if t.Kind == 1 {
				h.Fail("append-limit-not-enforced", fmt.Sprintf("APPEND {%s} (above the append limit) was answered with a continuation request", big), map[string]interface{}{"stream": string(stream)})
			}
		}
	}

	// ... and without waiting for the payload, in every connection state: the announced octets
	// never arrive in full here, the tagged refusal must come anyway
	for _, login := range []bool{false, true} {
		for _, hdr := range []string{"{104857601+}", "{314572800+}", "{104857601}"} {
			ts := getServer(true, false)
			rc := ts.dial()
			rc.greeting()
			if login {
				rc.cmd("LOGIN u p")
			}
			desc := map[string]interface{}{"logged_in": login, "stream": "Q1 APPEND box " + hdr + "\r\n + 65536 octets, connection kept open"}
			h.InFlight(desc)
			io.WriteString(rc.c, "Q1 APPEND box "+hdr+"\r\n")
			if strings.HasSuffix(hdr, "+}") {
				io.WriteString(rc.c, strings.Repeat("x", 65536))
			}
			answered := false
			for i := 0; i < 4; i++ {
				l, err := rc.readLine(3 * time.Second)
				if strings.HasPrefix(l, "Q1 ") {
					answered = true
				}
				if err != nil || answered {
					break
				}
			}
			if !answered {
				h.Fail("append-payload-awaited", fmt.Sprintf("APPEND %s (above the append limit, logged in: %v): no tagged refusal within 3 s while the payload has not arrived in full", hdr, login), desc)
			}
			rc.Close()
			h.Eval(fmt.Sprintf("append-awaited|%v|%s", login, hdr))
			h.Hist("append_over_limit_payload_withheld")
		}
	}

	// AUTHENTICATE exchanges (outside the byte-level model: cleanup and no-panic oracles only),
	// every way of answering the continuation request, cut at every byte offset
	for _, resp := range []string{"AHVzZXIAcGFzcw==\r\n", "\r\n", "*\r\n", "=\r\n", " \r\n", "!!!\r\n", "AHVzZXIAcGFzcw=\r\n", "\n", strings.Repeat("QUJD", 2000) + "\r\n"} {
		tr := "N1 AUTHENTICATE PLAIN\r\n" + resp + "N2 NOOP\r\nN3 AUTHENTICATE PLAIN AHVzZXIAcGFzcw==\r\nN4 AUTHENTICATE XOAUTH2\r\n" + resp + "N5 LOGOUT\r\n"
		for cut := 0; cut <= len(tr); cut++ {
			if cut > 1 && cut < len(tr) && tr[cut-1] == tr[cut] && tr[cut-2] == tr[cut] && cut%257 != 0 {
				continue
			}
			one([]byte(tr[:cut]), nil, false, false, cut, false, "oracle-only-authenticate")
		}
	}
	// nesting bombs in a SEARCH command, plain and with an empty list at every level: never OK
	for _, depth := range []int{1001, 1500, 20000} {
		for _, open := range []string{"(", "(() "} {
			stream := "S1 LOGIN u p\r\nS2 SELECT INBOX\r\nS3 SEARCH " + strings.Repeat(open, depth) + "ALL" + strings.Repeat(")", depth) + "\r\nS4 NOOP\r\n"
			ts := getServer(false, false)
			res, _ := runStream(ts, rawSegs([]byte(stream)), false)
			desc := map[string]interface{}{"stream": fmt.Sprintf("S3 SEARCH %q x %d ALL ...", open, depth)}
			for _, t := range res.Toks {
				if t.Kind == 0 && t.Tag == "S3" && t.Cls == 0 {
					h.Fail("nesting-unbounded", fmt.Sprintf("a SEARCH key nested %d levels deep (each level opened by %q) was accepted", depth, open), desc)
				}
			}
			if strings.Contains(ts.log.String(), "panic") {
				h.Fail("server-panic", "server log reports a panic: "+firstLine(ts.log.String()), desc)
			}
			if res.Closes != 1 {
				h.Fail(fmt.Sprintf("session-close-count:%d", res.Closes), fmt.Sprintf("Session.Close was called %d times", res.Closes), desc)
			}
			h.Eval(fmt.Sprintf("search-nesting|%s|%d", open, depth))
			h.Hist("src:search-nesting")
		}
	}

	// crash point 0: the peer is gone before or while the greeting is written (reset right
	// after connect, or close after reading a few bytes of the greeting): every session the
	// server created must still be closed exactly once
	{
		ts := getServer(false, false)
		ts.mu.Lock()
		before := len(ts.sess)
		ts.mu.Unlock()
		n := h.Pick(120, 1200)
		for i := 0; i < n; i++ {
			c, err := net.Dial("tcp", ts.ln.Addr().String())
			if err != nil {
				continue
			}
			switch i % 4 {
			case 0:
				c.(*net.TCPConn).SetLinger(0)
				c.Close()
			case 1:
				c.Close()
			case 2:
				buf := make([]byte, 1+h.Rng.Intn(20))
				c.SetReadDeadline(time.Now().Add(time.Second))
				io.ReadFull(c, buf)
				c.(*net.TCPConn).SetLinger(0)
				c.Close()
			default:
				c.(*net.TCPConn).CloseWrite()
				c.Close()
			}
		}
		ok := false
		var bad []int
		for try := 0; try < 200 && !ok; try++ {
			time.Sleep(10 * time.Millisecond)
			ok = true
			bad = nil
			ts.mu.Lock()
			for _, st := range ts.sess[before:] {
				st.mu.Lock()
				if st.closes != 1 {
					ok = false
					bad = append(bad, st.closes)
				}
				st.mu.Unlock()
			}
			ts.mu.Unlock()
		}
		ts.mu.Lock()
		created := len(ts.sess) - before
		ts.mu.Unlock()
		if !ok {
			h.Fail(fmt.Sprintf("session-close-count:%d", bad[0]), fmt.Sprintf("%d of %d sessions created for connections that went away around the greeting were not closed exactly once (Close counts: %v)", len(bad), created, bad[:min(len(bad), 10)]), map[string]interface{}{"scenario": "peer gone before/while the greeting is written", "connections": n})
		}
		for i := 0; i < created; i++ {
			h.Eval(fmt.Sprintf("greeting-cut-%d", i))
		}
		h.Hist(fmt.Sprintf("src:greeting-cut x%d", created))
		if strings.Contains(ts.log.String(), "panic") {
			h.Fail("panic", "panic in the server log: "+firstLine(ts.log.String()), nil)
		}
	}

	// fuzz: garbage and mutated transcripts, complete (not cut) so that outputs are compared too
	for i := 0; i < h.Pick(300, 6000); i++ {
		var stream []byte
		switch h.Rng.Intn(3) {
		case 0:
			n := h.Rng.Intn(60)
			stream = make([]byte, n)
			for j := range stream {
				stream[j] = byte(h.Rng.Intn(256))
			}
		case 1:
			stream = []byte(transcripts[h.Rng.Intn(2)])
			for k := 1 + h.Rng.Intn(4); k > 0 && len(stream) > 0; k-- {
				p := h.Rng.Intn(len(stream))
				switch h.Rng.Intn(3) {
				case 0:
					stream[p] = byte(h.Rng.Intn(256))
				case 1:
					stream = append(stream[:p], stream[p+1:]...)
				default:
					stream = append(stream[:p], append([]byte{"(){}+\"\\ \r\n"[h.Rng.Intn(10)]}, stream[p:]...)...)
				}
			}
		default:
			// deep nesting / huge numbers in arguments
			stream = []byte("F1 LOGIN " + strings.Repeat("(", h.Rng.Intn(1200)) + " x\r\nF2 APPEND a {99999999999999999999}\r\nF3 CREATE a (USE (" + strings.Repeat("\\a ", h.Rng.Intn(50)) + "))\r\n")
		}
		if !strings.HasSuffix(string(stream), "\n") {
			stream = append(stream, "\r\n"...)
		}
		// garbage streams are compared on calls only (EOF inside a command is ambiguous on the wire)
		one(stream, nil, false, false, len(stream), false, "fuzz")
	}
	_ = imapserver.ErrAuthFailed
}

func firstLine(s string) string {
	if i := strings.IndexByte(s, '\n'); i >= 0 {
		return s[:i]
	}
	return s
}
