package main

// C02 — client commands reach the server backend with the caller's arguments intact.
//
// A real imapclient.Client talks over TCP loopback to a real imapserver whose Session records
// every backend call with its typed arguments (c02Session).  A tap on the client's net.Conn
// records the bytes the client writes and the continuation requests it receives.

import (
	"encoding/json"
	"fmt"
	"io"
	"net"
	"sort"
	"strings"
	"sync"
	"time"
	_ "time/tzdata"

	imap "github.com/emersion/go-imap/v2"
	"github.com/emersion/go-imap/v2/imapclient"
	"github.com/emersion/go-imap/v2/imapserver"
	"github.com/emersion/go-sasl"
)

func init() { runners["C02"] = runC02 }

// ---- observed backend call ---------------------------------------------------------------

type c02Call struct {
	Op       string
	A, B     string // mailbox / user, newname / password / dest
	ReadOnly bool
	Attrs    []imap.MailboxAttr
	Patterns []string
	LOpts    *imap.ListOptions
	StOpts   *imap.StatusOptions
	Flags    []imap.Flag
	Time     time.Time
	Payload  []byte
	HasSet   bool // Expunge: uids != nil
	UID      bool
	Set      imap.NumSet
	Crit     *imap.SearchCriteria
	SrOpts   *imap.SearchOptions
	FOpts    *imap.FetchOptions
	StoreOp  imap.StoreFlagsOp
	Silent   bool
}

type c02Session struct {
	mu    sync.Mutex
	calls []c02Call
}

func (s *c02Session) rec(c c02Call) {
	s.mu.Lock()
	s.calls = append(s.calls, c)
	s.mu.Unlock()
}
func (s *c02Session) take() []c02Call {
	s.mu.Lock()
	defer s.mu.Unlock()
	c := s.calls
	s.calls = nil
	return c
}

func setIsUID(ns imap.NumSet) bool { _, ok := ns.(imap.UIDSet); return ok }

func (s *c02Session) Close() error { return nil }
func (s *c02Session) Login(u, p string) error {
	s.rec(c02Call{Op: "Login", A: u, B: p})
	return nil
}
func (s *c02Session) Select(m string, o *imap.SelectOptions) (*imap.SelectData, error) {
	s.rec(c02Call{Op: "Select", A: m, ReadOnly: o != nil && o.ReadOnly})
	return &imap.SelectData{NumMessages: 3, UIDNext: 4, UIDValidity: 1}, nil
}
func (s *c02Session) Create(m string, o *imap.CreateOptions) error {
	var a []imap.MailboxAttr
	if o != nil {
		a = append(a, o.SpecialUse...)
	}
	s.rec(c02Call{Op: "Create", A: m, Attrs: a})
	return nil
}
func (s *c02Session) Delete(m string) error      { s.rec(c02Call{Op: "Delete", A: m}); return nil }
func (s *c02Session) Rename(a, b string) error   { s.rec(c02Call{Op: "Rename", A: a, B: b}); return nil }
func (s *c02Session) Subscribe(m string) error   { s.rec(c02Call{Op: "Subscribe", A: m}); return nil }
func (s *c02Session) Unsubscribe(m string) error { s.rec(c02Call{Op: "Unsubscribe", A: m}); return nil }
func (s *c02Session) List(w *imapserver.ListWriter, ref string, patterns []string, o *imap.ListOptions) error {
	oc := *o
	if o.ReturnStatus != nil {
		st := *o.ReturnStatus
		oc.ReturnStatus = &st
	}
	s.rec(c02Call{Op: "List", A: ref, Patterns: append([]string(nil), patterns...), LOpts: &oc})
	return nil
}
func (s *c02Session) Status(m string, o *imap.StatusOptions) (*imap.StatusData, error) {
	oc := *o
	s.rec(c02Call{Op: "Status", A: m, StOpts: &oc})
	n, sz := uint32(3), int64(10)
	return &imap.StatusData{Mailbox: m, NumMessages: &n, NumUnseen: &n, NumDeleted: &n, Size: &sz, DeletedStorage: &sz, UIDNext: 4, UIDValidity: 1}, nil
}
func (s *c02Session) Append(m string, r imap.LiteralReader, o *imap.AppendOptions) (*imap.AppendData, error) {
	b, _ := io.ReadAll(r)
	s.rec(c02Call{Op: "Append", A: m, Flags: append([]imap.Flag(nil), o.Flags...), Time: o.Time, Payload: b})
	return &imap.AppendData{UID: 10, UIDValidity: 1}, nil
}
func (s *c02Session) Poll(w *imapserver.UpdateWriter, allowExpunge bool) error { return nil }
func (s *c02Session) Idle(w *imapserver.UpdateWriter, stop <-chan struct{}) error {
	<-stop
	return nil
}
func (s *c02Session) Unselect() error { s.rec(c02Call{Op: "Unselect"}); return nil }
func (s *c02Session) Expunge(w *imapserver.ExpungeWriter, uids *imap.UIDSet) error {
	c := c02Call{Op: "Expunge"}
	if uids != nil {
		c.HasSet = true
		c.Set = *uids
	}
	s.rec(c)
	return nil
}
func (s *c02Session) Search(kind imapserver.NumKind, cr *imap.SearchCriteria, o *imap.SearchOptions) (*imap.SearchData, error) {
	oc := *o
	s.rec(c02Call{Op: "Search", UID: kind == imapserver.NumKindUID, Crit: cr, SrOpts: &oc})
	if kind == imapserver.NumKindUID {
		return &imap.SearchData{All: imap.UIDSet{}, UID: true}, nil
	}
	return &imap.SearchData{All: imap.SeqSet{}}, nil
}
func (s *c02Session) Fetch(w *imapserver.FetchWriter, ns imap.NumSet, o *imap.FetchOptions) error {
	s.rec(c02Call{Op: "Fetch", UID: setIsUID(ns), Set: ns, FOpts: o})
	return nil
}
func (s *c02Session) Store(w *imapserver.FetchWriter, ns imap.NumSet, f *imap.StoreFlags, o *imap.StoreOptions) error {
	s.rec(c02Call{Op: "Store", UID: setIsUID(ns), Set: ns, StoreOp: f.Op, Silent: f.Silent, Flags: append([]imap.Flag(nil), f.Flags...)})
	return nil
}
func (s *c02Session) Copy(ns imap.NumSet, dest string) (*imap.CopyData, error) {
	s.rec(c02Call{Op: "Copy", UID: setIsUID(ns), Set: ns, A: dest})
	return nil, nil
}
func (s *c02Session) Move(w *imapserver.MoveWriter, ns imap.NumSet, dest string) error {
	s.rec(c02Call{Op: "Move", UID: setIsUID(ns), Set: ns, A: dest})
	return nil
}
func (s *c02Session) Namespace() (*imap.NamespaceData, error) {
	return &imap.NamespaceData{Personal: []imap.NamespaceDescriptor{{Prefix: "", Delim: '/'}}}, nil
}

// ---- wire tap ------------------------------------------------------------------------------

type c02Tap struct {
	net.Conn
	mu  sync.Mutex
	out []byte // client -> server
	in  []byte // server -> client
}

func (t *c02Tap) Write(b []byte) (int, error) {
	t.mu.Lock()
	t.out = append(t.out, b...)
	t.mu.Unlock()
	return t.Conn.Write(b)
}
func (t *c02Tap) Read(b []byte) (int, error) {
	n, err := t.Conn.Read(b)
	if n > 0 {
		t.mu.Lock()
		t.in = append(t.in, b[:n]...)
		t.mu.Unlock()
	}
	return n, err
}
func (t *c02Tap) marks() (int, int) {
	t.mu.Lock()
	defer t.mu.Unlock()
	return len(t.out), len(t.in)
}
func (t *c02Tap) since(o, i int) ([]byte, []byte) {
	t.mu.Lock()
	defer t.mu.Unlock()
	return append([]byte(nil), t.out[o:]...), append([]byte(nil), t.in[i:]...)
}

// ---- server configurations -----------------------------------------------------------------

type c02Config struct {
	Name string
	Caps imap.CapSet
	UTF8 bool // the client ENABLEs UTF8=ACCEPT
}

func c02Configs() []c02Config {
	mk := func(caps ...imap.Cap) imap.CapSet {
		s := imap.CapSet{}
		for _, c := range caps {
			s[c] = struct{}{}
		}
		return s
	}
	ext := []imap.Cap{imap.CapNamespace, imap.CapUIDPlus, imap.CapESearch, imap.CapSearchRes, imap.CapListExtended,
		imap.CapListStatus, imap.CapMove, imap.CapStatusSize, imap.CapBinary, imap.CapCreateSpecialUse}
	var out []c02Config
	for _, utf8 := range []bool{false, true} {
		for _, lp := range []bool{false, true} {
			for _, base := range []string{"rev1", "rev1uidplus", "rev1ext", "rev1rev2", "rev2"} {
				var caps []imap.Cap
				switch base {
				case "rev1":
					caps = []imap.Cap{imap.CapIMAP4rev1}
				case "rev1uidplus":
					// UIDPLUS without MOVE: Client.Move falls back to COPY + STORE + UID EXPUNGE
					caps = []imap.Cap{imap.CapIMAP4rev1, imap.CapUIDPlus}
				case "rev1ext":
					caps = append([]imap.Cap{imap.CapIMAP4rev1}, ext...)
				case "rev1rev2":
					caps = append([]imap.Cap{imap.CapIMAP4rev1, imap.CapIMAP4rev2}, ext...)
				case "rev2":
					caps = []imap.Cap{imap.CapIMAP4rev2, imap.CapCreateSpecialUse}
				}
				name := base
				if lp {
					caps = append(caps, imap.CapLiteralPlus)
					name += "+lit"
				}
				if utf8 {
					name += "+utf8"
				}
				out = append(out, c02Config{Name: name, Caps: mk(caps...), UTF8: utf8})
			}
		}
	}
	return out
}

// ---- one client/server pair ----------------------------------------------------------------

type c02Env struct {
	cfg     c02Config
	srv     *imapserver.Server
	ln      net.Listener
	mu      sync.Mutex
	lastSes *c02Session

	client *imapclient.Client
	tap    *c02Tap
	ses    *c02Session
	state  string // "notauth", "auth", "selected"
}

func newC02Env(cfg c02Config) *c02Env {
	e := &c02Env{cfg: cfg}
	e.srv = imapserver.New(&imapserver.Options{
		NewSession: func(c *imapserver.Conn) (imapserver.Session, *imapserver.GreetingData, error) {
			s := &c02Session{}
			e.mu.Lock()
			e.lastSes = s
			e.mu.Unlock()
			return s, &imapserver.GreetingData{}, nil
		},
		Caps:         cfg.Caps,
		InsecureAuth: true,
		Logger:       &logBuf{},
	})
	ln, err := net.Listen("tcp", "127.0.0.1:0")
	if err != nil {
		panic(err)
	}
	e.ln = ln
	go e.srv.Serve(ln)
	return e
}

func (e *c02Env) close() {
	e.drop()
	e.srv.Close()
}

func (e *c02Env) drop() {
	if e.client != nil {
		c := e.client
		go c.Close()
		e.client = nil
	}
}

// connect opens a fresh connection (not-authenticated state).
func (e *c02Env) connect() error {
	e.drop()
	conn, err := net.Dial("tcp", e.ln.Addr().String())
	if err != nil {
		return err
	}
	e.tap = &c02Tap{Conn: conn}
	e.client = imapclient.New(e.tap, nil)
	if err := e.client.WaitGreeting(); err != nil {
		return err
	}
	e.mu.Lock()
	e.ses = e.lastSes
	e.mu.Unlock()
	e.state = "notauth"
	return nil
}

// ready brings the connection into the selected state (housekeeping, not evaluated).
func (e *c02Env) ready() error {
	if e.client == nil || e.client.State() == imap.ConnStateLogout || e.client.State() == imap.ConnStateNone {
		if err := e.connect(); err != nil {
			return err
		}
	}
	if e.state == "notauth" {
		if err := e.client.Login("u", "p").Wait(); err != nil {
			return err
		}
		if e.cfg.UTF8 {
			if _, err := e.client.Enable(imap.CapUTF8Accept).Wait(); err != nil {
				return err
			}
		}
		e.state = "auth"
	}
	if e.state == "auth" {
		if _, err := e.client.Select("INBOX", nil).Wait(); err != nil {
			return err
		}
		e.state = "selected"
	}
	e.ses.take()
	return nil
}

// ---- request -------------------------------------------------------------------------------

type c02Set struct {
	Res    bool        `json:"res,omitempty"`
	Ranges [][2]uint32 `json:"ranges,omitempty"`
}

func (s c02Set) numSet(uid bool) imap.NumSet {
	if s.Res {
		return imap.SearchRes()
	}
	if uid {
		u := make(imap.UIDSet, 0, len(s.Ranges))
		for _, r := range s.Ranges {
			u = append(u, imap.UIDRange{Start: imap.UID(r[0]), Stop: imap.UID(r[1])})
		}
		return u
	}
	q := make(imap.SeqSet, 0, len(s.Ranges))
	for _, r := range s.Ranges {
		q = append(q, imap.SeqRange{Start: r[0], Stop: r[1]})
	}
	return q
}

type c02Req struct {
	Op             string               `json:"op"`
	A              string               `json:"a,omitempty"`
	B              string               `json:"b,omitempty"`
	ReadOnly       bool                 `json:"readonly,omitempty"`
	CondStore      bool                 `json:"condstore,omitempty"`
	Attrs          []imap.MailboxAttr   `json:"attrs,omitempty"`
	LOpts          *imap.ListOptions    `json:"lopts,omitempty"`
	StOpts         *imap.StatusOptions  `json:"stopts,omitempty"`
	Flags          []imap.Flag          `json:"flags,omitempty"`
	Time           time.Time            `json:"time"`
	Payload        []byte               `json:"payload,omitempty"`
	UID            bool                 `json:"uid,omitempty"`
	Set            c02Set               `json:"set"`
	Crit           *imap.SearchCriteria `json:"crit,omitempty"`
	SrOpts         *imap.SearchOptions  `json:"sropts,omitempty"`
	FOpts          *imap.FetchOptions   `json:"fopts,omitempty"`
	StoreOp        int                  `json:"storeop,omitempty"`
	Silent         bool                 `json:"silent,omitempty"`
	UnchangedSince uint64               `json:"unchangedsince,omitempty"`
}

// issue performs the API call and waits for its completion; the error is the client's.
func (e *c02Env) issue(q *c02Req) (err error) {
	c := e.client
	defer func() {
		if r := recover(); r != nil {
			err = fmt.Errorf("panic: %v", r)
		}
	}()
	switch q.Op {
	case "Login":
		return c.Login(q.A, q.B).Wait()
	case "AuthPlain":
		return c.Authenticate(sasl.NewPlainClient("", q.A, q.B))
	case "Select":
		var o *imap.SelectOptions
		if q.ReadOnly || q.CondStore {
			o = &imap.SelectOptions{ReadOnly: q.ReadOnly, CondStore: q.CondStore}
		}
		_, err := c.Select(q.A, o).Wait()
		return err
	case "Create":
		var o *imap.CreateOptions
		if q.Attrs != nil {
			o = &imap.CreateOptions{SpecialUse: q.Attrs}
		}
		return c.Create(q.A, o).Wait()
	case "Delete":
		return c.Delete(q.A).Wait()
	case "Rename":
		return c.Rename(q.A, q.B).Wait()
	case "Subscribe":
		return c.Subscribe(q.A).Wait()
	case "Unsubscribe":
		return c.Unsubscribe(q.A).Wait()
	case "List":
		_, err := c.List(q.A, q.B, q.LOpts).Collect()
		return err
	case "Status":
		_, err := c.Status(q.A, q.StOpts).Wait()
		return err
	case "Append":
		var o *imap.AppendOptions
		if q.Flags != nil || !q.Time.IsZero() {
			o = &imap.AppendOptions{Flags: q.Flags, Time: q.Time}
		}
		ac := c.Append(q.A, int64(len(q.Payload)), o)
		_, werr := ac.Write(q.Payload)
		cerr := ac.Close()
		_, err := ac.Wait()
		if err == nil {
			err = werr
		}
		if err == nil {
			err = cerr
		}
		return err
	case "Expunge":
		return c.Expunge().Close()
	case "UIDExpunge":
		return c.UIDExpunge(q.Set.numSet(true).(imap.UIDSet)).Close()
	case "Search":
		if q.UID {
			_, err := c.UIDSearch(q.Crit, q.SrOpts).Wait()
			return err
		}
		_, err := c.Search(q.Crit, q.SrOpts).Wait()
		return err
	case "Fetch":
		return c.Fetch(q.Set.numSet(q.UID), q.FOpts).Close()
	case "Store":
		var o *imap.StoreOptions
		if q.UnchangedSince != 0 {
			o = &imap.StoreOptions{UnchangedSince: q.UnchangedSince}
		}
		return c.Store(q.Set.numSet(q.UID), &imap.StoreFlags{Op: imap.StoreFlagsOp(q.StoreOp), Silent: q.Silent, Flags: q.Flags}, o).Close()
	case "Copy":
		_, err := c.Copy(q.Set.numSet(q.UID), q.A).Wait()
		return err
	case "Move":
		_, err := c.Move(q.Set.numSet(q.UID), q.A).Wait()
		return err
	case "Unselect":
		return c.Unselect().Wait()
	case "Close":
		return c.UnselectAndExpunge().Wait()
	}
	return fmt.Errorf("unknown op %q", q.Op)
}

type c02Obs struct {
	Caps     []string
	FirstTag int
	Wire     []byte
	Calls    []c02Call
	Err      string
	Hung     bool
	Refused  bool // a synchronising literal was announced and no continuation request came
}

// run evaluates one request on the environment.
func (e *c02Env) run(q *c02Req) (*c02Obs, error) {
	if q.Op == "Login" || q.Op == "AuthPlain" {
		if err := e.connect(); err != nil {
			return nil, err
		}
	} else if err := e.ready(); err != nil {
		return nil, err
	}
	caps := e.client.Caps()
	var capl []string
	for c := range caps {
		capl = append(capl, string(c))
	}
	sort.Strings(capl)
	e.ses.take()
	mo, mi := e.tap.marks()
	obs := &c02Obs{Caps: capl}
	done := make(chan error, 1)
	go func() { done <- e.issue(q) }()
	select {
	case err := <-done:
		if err != nil {
			obs.Err = err.Error()
		}
	case <-time.After(8 * time.Second):
		obs.Hung = true
	}
	// the backend calls of a command happen before its tagged response; give a failed
	// pipeline (Move fallback) a moment to drain
	if (obs.Err != "" && q.Op == "Move") || obs.Hung {
		time.Sleep(20 * time.Millisecond)
	}
	out, in := e.tap.since(mo, mi)
	obs.Wire = out
	obs.Calls = e.ses.take()
	if len(out) > 1 && out[0] == 'T' {
		fmt.Sscanf(string(out[1:]), "%d", &obs.FirstTag)
	}
	nsync := c02SyncLiterals(out)
	nplus := 0
	for _, l := range strings.Split(string(in), "\r\n") {
		if strings.HasPrefix(l, "+ ") || l == "+" {
			nplus++
		}
	}
	obs.Refused = nsync > nplus
	// after an error the server may be about to end the connection (refused non-synchronizing
	// literal): make sure the connection is still usable before the next case depends on it
	if obs.Err != "" && !obs.Hung {
		alive := make(chan error, 1)
		cl := e.client
		go func() { alive <- cl.Noop().Wait() }()
		select {
		case err := <-alive:
			if err != nil {
				obs.Hung = false
				e.drop()
				return obs, nil
			}
		case <-time.After(3 * time.Second):
			e.drop()
			return obs, nil
		}
	}
	// follow-up state
	st := e.client.State()
	switch {
	case obs.Hung || st == imap.ConnStateLogout || st == imap.ConnStateNone:
		e.drop()
	case q.Op == "Login" || q.Op == "AuthPlain":
		if obs.Err == "" {
			e.state = "auth"
			if e.cfg.UTF8 {
				e.client.Enable(imap.CapUTF8Accept).Wait()
			}
		}
	case q.Op == "Unselect" || q.Op == "Close":
		// whatever happened, select again before the next case (Client.State() may lag
		// behind the completion of the command)
		e.state = "auth"
	case q.Op == "Select":
		if obs.Err == "" {
			e.state = "selected"
		} else {
			e.state = "auth"
		}
	}
	return obs, nil
}

func c02JSON(v interface{}) json.RawMessage {
	b, err := json.Marshal(v)
	if err != nil {
		b, _ = json.Marshal(fmt.Sprintf("%+v", v))
	}
	return b
}
