package main

// C09: the in-memory backend (imapserver/imapmemserver) against the reference mailbox model
// Model/MemRef.v.  Random and scripted command histories over several mailboxes and 1..2
// sessions are run on a real imapserver+imapmemserver through raw TCP connections; every
// response is parsed by the independent tokenizer of c09wire.go, projected, and compared in
// Coq with the model's prediction (memref_mismatches).  Direct oracles written from the
// property text (no model): crash-freedom, UID monotonicity and non-reuse, UIDVALIDITY
// freshness, APPENDUID/COPYUID exactness, STORE/EXPUNGE/MOVE exactness, STATUS counts.

import (
	"bytes"
	"encoding/json"
	"fmt"
	"math/rand"
	"os"
	"path/filepath"
	"sort"
	"strings"
	"time"
)

func init() { runners["C09"] = runC09 }

// ---- commands ---------------------------------------------------------------------------------------

type c09Cmd struct {
	Sess     int    `json:"sess"`
	Kind     string `json:"kind"`
	Line     string `json:"line"`
	Lit      []byte `json:"lit,omitempty"`
	Coq      string `json:"-"`
	MarkSeen bool   `json:"-"`
	NoDate   string `json:"nodate,omitempty"` // APPEND without date-time: the mailbox (wire form); Coq has @TIME@ @ZONE@
	Key      string `json:"-"`                // non-trivial class ("" = trivial)
}

type c09Gen struct {
	r     *rand.Rand
	names []string
	nsess int
	// a rough idea of the server state, only used to make most commands meaningful
	exists map[string]bool
	sel    []string       // per session: selected name ("" = none)
	count  map[string]int // messages per mailbox (approximate)
	sizes  []int64        // sizes of the messages appended so far (boundary values for sizes and origins)
}

// a number at or next to the size of a message appended earlier
func (g *c09Gen) nearSize() (int64, bool) {
	if len(g.sizes) == 0 {
		return 0, false
	}
	v := g.sizes[g.r.Intn(len(g.sizes))] + int64(g.r.Intn(3)-1)
	if v < 0 {
		v = 0
	}
	return v, true
}

func (g *c09Gen) existing() []string {
	var l []string
	for _, n := range g.names {
		if g.exists[n] {
			l = append(l, n)
		}
	}
	return l
}

var c09Names = []string{"INBOX", "a", "b", "a/b", "a/b/c", "Archive", "x y", "Trash", "a%b", "ab"}

func c09Quote(s string) string {
	return `"` + strings.NewReplacer(`\`, `\\`, `"`, `\"`).Replace(s) + `"`
}

// mailbox name as written on the wire and as the backend receives it (ExpectMailbox folds INBOX)
func (g *c09Gen) name() (wire, model string) {
	n := g.names[g.r.Intn(len(g.names))]
	if ex := g.existing(); len(ex) > 0 && g.r.Intn(5) != 0 {
		n = ex[g.r.Intn(len(ex))]
	}
	switch g.r.Intn(12) {
	case 0:
		if n == "INBOX" {
			v := []string{"inbox", "Inbox", "iNBOX"}[g.r.Intn(3)]
			return v, "INBOX"
		}
	case 1:
		n = []string{"nosuch", "a/", "zz/y", ""}[g.r.Intn(4)]
	}
	if strings.ContainsAny(n, " %*\"\\") || n == "" || g.r.Intn(3) == 0 {
		return c09Quote(n), n
	}
	return n, n
}

var c09FlagPool = []string{`\Seen`, `\Deleted`, `\Answered`, `\Flagged`, `\Draft`, `\SEEN`, `\deleted`, `$Foo`, `$foo`, `foo`, `FOO`, `Bar`, `\Custom`}

func (g *c09Gen) flags(max int) []string {
	n := g.r.Intn(max + 1)
	var out []string
	for i := 0; i < n; i++ {
		out = append(out, c09FlagPool[g.r.Intn(len(c09FlagPool))])
	}
	return out
}

// sequence-set text and its model term (ranges as imapnum stores them after parsing)
func (g *c09Gen) set(uid bool) string {
	num := func() string {
		switch g.r.Intn(14) {
		case 0:
			return "*"
		case 1:
			return fmt.Sprint(8 + g.r.Intn(6))
		case 2:
			return []string{"4294967295", "4294967294", "100"}[g.r.Intn(3)]
		}
		return fmt.Sprint(1 + g.r.Intn(6))
	}
	var parts []string
	for i := 0; i <= g.r.Intn(3); i++ {
		switch g.r.Intn(5) {
		case 0, 1:
			parts = append(parts, num())
		case 2:
			parts = append(parts, num()+":*")
		case 3:
			parts = append(parts, "*:"+num())
		default:
			parts = append(parts, num()+":"+num())
		}
	}
	if g.r.Intn(6) == 0 {
		return "1:*"
	}
	return strings.Join(parts, ",")
}

// the parsed form of a set text: imapnum.Set after AddRange of every element, computed by an
// independent reimplementation of the canonical form (sorted, merged, "*" = 0 last)
func c09SetRanges(s string) string {
	set, err := imapserverParseSet(s) // c19.go: uses the real AddRange (covered by C15)
	if err != nil {
		panic(err)
	}
	return coqNumSetRanges(set)
}

// ---- messages -----------------------------------------------------------------------------------------

var c09Vocab = []string{"hello", "World", "foo", "BAR", "invoice", "re: plan", "x", "Quarterly report"}
var c09Addr = []string{"alice@example.org", "Bob <bob@example.com>", "carol@EXAMPLE.net"}

var c09Base = time.Date(2020, 3, 10, 0, 0, 0, 0, time.UTC)

func (g *c09Gen) pick(l []string) string { return l[g.r.Intn(len(l))] }

func (g *c09Gen) dateHeader() string {
	switch g.r.Intn(10) {
	case 0:
		return ""
	case 1:
		return g.pick([]string{"yesterday", "32 Foo 2020 10:00:00 +0000", "Tue, 10 Mar 2020", "10 Mar 2020 25:00:00 +0000"})
	}
	zones := []int{0, -5 * 3600, 9*3600 + 1800, 14 * 3600, -12 * 3600, 3600}
	z := zones[g.r.Intn(len(zones))]
	t := c09Base.Add(time.Duration(g.r.Intn(6)-2)*24*time.Hour + time.Duration(g.r.Intn(86400))*time.Second).In(time.FixedZone("", z))
	switch g.r.Intn(3) {
	case 0:
		return t.Format("2 Jan 2006 15:04:05 -0700")
	case 1:
		return t.Format("Mon, 2 Jan 2006 15:04 -0700")
	}
	return t.Format("Mon, 02 Jan 2006 15:04:05 -0700")
}

func (g *c09Gen) simpleHeader(extra string) string {
	var sb strings.Builder
	add := func(k, v string) {
		switch g.r.Intn(12) {
		case 0:
			k = strings.ToUpper(k)
		case 1:
			k = strings.ToLower(k)
		}
		sep := ": "
		if g.r.Intn(15) == 0 {
			sep = ":"
		}
		sb.WriteString(k + sep + v + "\r\n")
	}
	if extra != "" {
		sb.WriteString(extra)
	}
	if g.r.Intn(4) != 0 {
		add("From", g.pick(c09Addr))
	}
	if g.r.Intn(2) == 0 {
		add("To", g.pick(c09Addr))
	}
	if g.r.Intn(5) == 0 {
		add("Cc", g.pick(c09Addr)+", "+g.pick(c09Addr))
	}
	if g.r.Intn(5) != 0 {
		s := g.pick(c09Vocab)
		if g.r.Intn(4) == 0 {
			s += "\r\n " + g.pick(c09Vocab)
		}
		add("Subject", s)
	}
	if d := g.dateHeader(); d != "" {
		add("Date", d)
	}
	if g.r.Intn(3) == 0 {
		add("X-K", g.pick([]string{"v", "V2", "", "hello there"}))
	}
	if g.r.Intn(8) == 0 {
		add("X-K", "second")
	}
	if g.r.Intn(8) == 0 {
		add("Message-ID", "<m"+fmt.Sprint(g.r.Intn(100))+"@example.org>")
	}
	return sb.String()
}

func (g *c09Gen) bodyText() string {
	var sb strings.Builder
	for i := 0; i <= g.r.Intn(3); i++ {
		sb.WriteString(g.pick(c09Vocab) + " " + g.pick(c09Vocab) + "\r\n")
	}
	return sb.String()
}

func (g *c09Gen) simpleMsg() string {
	return g.simpleHeader("") + "\r\n" + g.bodyText()
}

func (g *c09Gen) multipart(depth int, digest bool) string {
	b := g.pick([]string{"b", "XyZ", "=_bound-1", "b"})
	sub := g.pick([]string{"mixed", "alternative", "Mixed"})
	if digest {
		sub = "digest"
	}
	ct := "multipart/" + sub
	if g.r.Intn(6) == 0 {
		ct = "Multipart/" + sub
	}
	param := "boundary=" + b
	if strings.ContainsAny(b, "=") || g.r.Intn(3) == 0 {
		param = `boundary="` + b + `"`
	}
	if g.r.Intn(4) == 0 {
		param = "charset=x; " + param
	}
	hdr := g.simpleHeader("Content-Type: " + ct + "; " + param + "\r\n")
	var sb strings.Builder
	sb.WriteString(hdr + "\r\n")
	if g.r.Intn(3) == 0 {
		sb.WriteString("preamble line\r\n")
	}
	nparts := g.r.Intn(4)
	for i := 0; i < nparts; i++ {
		if i == 0 {
			sb.WriteString("--" + b)
		} else {
			sb.WriteString("\r\n--" + b)
		}
		if g.r.Intn(8) == 0 {
			sb.WriteString(" \t")
		}
		sb.WriteString("\r\n")
		switch k := g.r.Intn(10); {
		case k < 4:
			if digest && g.r.Intn(2) == 0 {
				// implicit message/rfc822
				sb.WriteString("\r\n" + g.simpleMsg())
			} else {
				sb.WriteString("Content-Type: text/plain\r\nX-Part: " + fmt.Sprint(i+1) + "\r\n\r\n" + g.bodyText())
				if g.r.Intn(12) == 0 {
					// a part larger than the multipart reader's 4096-byte buffer, with a boundary look-alike
					sb.WriteString(strings.Repeat("q", 3000+g.r.Intn(3000)) + "\r\n--" + b + "z\r\n" + strings.Repeat("w", 2000+g.r.Intn(3000)) + "\r\n")
				}
			}
		case k < 5:
			sb.WriteString("\r\n") // no header, empty body
		case k < 6 && depth > 0:
			inner := g.multipart(depth-1, false)
			sb.WriteString(inner)
		case k < 8:
			sb.WriteString("Content-Type: message/rfc822\r\n\r\n" + g.simpleMsg())
		case k < 9:
			sb.WriteString("X-Part: bare\r\n\r\n--" + b + "X is not a boundary\r\ntext\r\n")
		default:
			sb.WriteString("Content-Type: text/html\r\n\r\n")
		}
	}
	switch g.r.Intn(8) {
	case 0: // no final boundary
	case 1:
		sb.WriteString("\r\n--" + b + "--")
	default:
		if nparts == 0 {
			sb.WriteString("--" + b + "--\r\n")
		} else {
			sb.WriteString("\r\n--" + b + "--\r\n")
		}
		if g.r.Intn(3) == 0 {
			sb.WriteString("epilogue\r\n")
		}
	}
	return sb.String()
}

func (g *c09Gen) message() []byte {
	switch k := g.r.Intn(100); {
	case k < 40:
		return []byte(g.simpleMsg())
	case k < 44:
		return []byte(g.simpleHeader("")) // header only, no blank line
	case k < 47:
		s := g.simpleMsg()
		return []byte(strings.TrimRight(s, "\r\n"))
	case k < 49:
		return []byte{}
	case k < 52:
		return []byte(g.pick([]string{"hello\r\n", " leading space: x\r\n\r\nbody\r\n", "no colon here\r\nA: b\r\n\r\nbody\r\n", "A: b\r\nbad line\r\nC: d\r\n\r\nbody\r\n", ": empty key\r\nA: b\r\n\r\nx\r\n", "A b: c\r\n\r\nx\r\n"}))
	case k < 85:
		return []byte(g.multipart(2, g.r.Intn(6) == 0))
	case k < 89:
		return []byte("Content-Type: message/rfc822\r\nSubject: outer\r\n\r\n" + g.simpleMsg())
	case k < 94:
		return []byte(g.simpleHeader("") + "\r\n" + strings.Repeat(g.pick([]string{"x", "y", "Z"}), 2000+g.r.Intn(4000)) + "\r\nend " + g.pick(c09Vocab) + "\r\n")
	default:
		return []byte(strings.ReplaceAll(g.simpleMsg(), "\r\n", "\n"))
	}
}

func (g *c09Gen) internalDate() (wire string, abs, zone int64) {
	zones := []int{0, -5 * 3600, 9*3600 + 1800, 14 * 3600, -12 * 3600}
	z := zones[g.r.Intn(len(zones))]
	secs := []int{0, 1, 43200, 86399, 3600 * 5, 3600 * 19}[g.r.Intn(6)]
	t := c09Base.Add(time.Duration(g.r.Intn(6)-2)*24*time.Hour + time.Duration(secs)*time.Second).In(time.FixedZone("", z))
	return t.Format("_2-Jan-2006 15:04:05 -0700"), t.Unix() + c09Epoch, int64(z)
}

// ---- FETCH ----------------------------------------------------------------------------------------------

type c09Section struct {
	Part      []uint64
	Spec      string // "", HEADER, TEXT, MIME
	Fields    []string
	FieldsNot []string
	Partial   bool
	Off, Size int64
	Peek      bool
	Obs       string // RFC822, RFC822.HEADER, RFC822.TEXT
}

func (s *c09Section) wire() string {
	if s.Obs != "" {
		return s.Obs
	}
	var sb strings.Builder
	sb.WriteString("BODY")
	if s.Peek {
		sb.WriteString(".PEEK")
	}
	sb.WriteString("[")
	var ps []string
	for _, p := range s.Part {
		ps = append(ps, fmt.Sprint(p))
	}
	sb.WriteString(strings.Join(ps, "."))
	if len(ps) > 0 && s.Spec != "" {
		sb.WriteString(".")
	}
	sb.WriteString(s.Spec)
	if len(s.Fields) > 0 {
		sb.WriteString(".FIELDS (" + strings.Join(s.Fields, " ") + ")")
	} else if len(s.FieldsNot) > 0 {
		sb.WriteString(".FIELDS.NOT (" + strings.Join(s.FieldsNot, " ") + ")")
	}
	sb.WriteString("]")
	if s.Partial {
		sb.WriteString(fmt.Sprintf("<%d.%d>", s.Off, s.Size))
	}
	return sb.String()
}

func (s *c09Section) coq() string {
	spec := map[string]string{"": "SpecNone", "HEADER": "SpecHeader", "TEXT": "SpecText", "MIME": "SpecMime"}[s.Spec]
	partial := "None"
	if s.Partial {
		partial = coqSome(coqPair(coqZ(s.Off), coqZ(s.Size)))
	}
	return fmt.Sprintf("{| sc_part := %s; sc_spec := %s; sc_fields := %s; sc_fields_not := %s; sc_partial := %s; sc_peek := %s |}",
		c09Nums(s.Part), spec, c09Strs(s.Fields), c09Strs(s.FieldsNot), partial, coqBool(s.Peek))
}

var c09Parts = [][]uint64{{}, {}, {}, {}, {1}, {1}, {1}, {2}, {2}, {3}, {1, 1}, {1, 1}, {1, 2}, {2, 1}, {2, 1}, {2, 2}, {1, 1, 1}, {2, 1, 1}, {2, 1, 2}, {3, 1}, {0}, {4294967295}, {1, 0}, {4}}
var c09Fields = []string{"Subject", "from", "DATE", "X-K", "Content-Type", "nonexistent", "to", "x-part"}

func (g *c09Gen) section() *c09Section {
	s := &c09Section{Peek: g.r.Intn(3) != 0}
	if g.r.Intn(12) == 0 {
		s.Obs = g.pick([]string{"RFC822", "RFC822.HEADER", "RFC822.TEXT"})
		s.Peek = s.Obs == "RFC822.HEADER"
		switch s.Obs {
		case "RFC822.HEADER":
			s.Spec = "HEADER"
		case "RFC822.TEXT":
			s.Spec = "TEXT"
		}
		return s
	}
	s.Part = c09Parts[g.r.Intn(len(c09Parts))]
	switch g.r.Intn(8) {
	case 0, 1:
		s.Spec = "HEADER"
	case 2:
		s.Spec = "TEXT"
	case 3:
		if len(s.Part) > 0 {
			s.Spec = "MIME"
		}
	case 4:
		s.Spec = "HEADER"
		n := 1 + g.r.Intn(3)
		for i := 0; i < n; i++ {
			f := g.pick(c09Fields)
			if g.r.Intn(2) == 0 {
				s.Fields = append(s.Fields, f)
			} else {
				s.FieldsNot = append(s.FieldsNot, f)
			}
		}
		if len(s.Fields) > 0 {
			s.FieldsNot = nil
		}
	}
	if g.r.Intn(3) == 0 {
		s.Partial = true
		offs := []int64{0, 0, 1, 5, 20, 100, 1000, 4294967296, 9223372036854775807}
		sizes := []int64{1, 5, 30, 100, 0, 4294967295, 9223372036854775807, 9223372036854775806}
		s.Off = offs[g.r.Intn(len(offs))]
		s.Size = sizes[g.r.Intn(len(sizes))]
		if v, ok := g.nearSize(); ok && g.r.Intn(4) == 0 {
			s.Off = v
		}
		if v, ok := g.nearSize(); ok && g.r.Intn(6) == 0 {
			s.Size = v
		}
	}
	return s
}

func (g *c09Gen) fetch(sess int) c09Cmd {
	uid := g.r.Intn(3) == 0
	set := g.set(uid)
	var items []string
	var secs []string
	flags, date, size := false, false, false
	markSeen := false
	if g.r.Intn(10) == 0 {
		items = []string{"FAST"}
		flags, date, size = true, true, true
	} else {
		n := 1 + g.r.Intn(3)
		for i := 0; i < n; i++ {
			switch g.r.Intn(7) {
			case 0:
				items = append(items, "FLAGS")
				flags = true
			case 1:
				items = append(items, "INTERNALDATE")
				date = true
			case 2:
				items = append(items, "RFC822.SIZE")
				size = true
			case 3:
				items = append(items, "UID")
			default:
				s := g.section()
				items = append(items, s.wire())
				secs = append(secs, coqPair(s.coq(), coqHxS(s.Obs)))
				if !s.Peek {
					markSeen = true
				}
			}
		}
	}
	att := "(" + strings.Join(items, " ") + ")"
	if len(items) == 1 && (g.r.Intn(2) == 0 || items[0] == "FAST") {
		att = items[0]
	}
	line := "FETCH " + set + " " + att
	if uid {
		line = "UID " + line
	}
	key := ""
	if len(secs) > 0 {
		key = "fetch"
	}
	return c09Cmd{Sess: sess, Kind: "FETCH", Line: line, MarkSeen: markSeen, Key: key,
		Coq: fmt.Sprintf("CFetch %s %s {| fo_flags := %s; fo_date := %s; fo_size := %s; fo_sections := %s |}",
			coqBool(uid), c09SetRanges(set), coqBool(flags), coqBool(date), coqBool(size), coqList(secs))}
}

// ---- SEARCH ---------------------------------------------------------------------------------------------

type c09Key struct {
	K      string
	S, S2  string
	D      int
	N      int64
	Sub    []c09Key
	SetTxt string
}

func c09Day(d int) time.Time   { return c09Base.Add(time.Duration(d) * 24 * time.Hour) }
func c09Title(s string) string { return s[:1] + strings.ToLower(s[1:]) }

func (k c09Key) wire() string {
	switch k.K {
	case "ALL", "NEW", "OLD", "ANSWERED", "DELETED", "DRAFT", "FLAGGED", "RECENT", "SEEN",
		"UNANSWERED", "UNDELETED", "UNDRAFT", "UNFLAGGED", "UNSEEN":
		return k.K
	case "SEQ":
		return k.SetTxt
	case "UID":
		return "UID " + k.SetTxt
	case "KEYWORD", "UNKEYWORD":
		return k.K + " " + k.S
	case "HEADER":
		return "HEADER " + c09Quote(k.S) + " " + c09Quote(k.S2)
	case "BCC", "CC", "FROM", "SUBJECT", "TO", "BODY", "TEXT":
		return k.K + " " + c09Quote(k.S)
	case "SINCE", "BEFORE", "ON", "SENTSINCE", "SENTBEFORE", "SENTON":
		return k.K + " " + c09Day(k.D).Format("2-Jan-2006")
	case "LARGER", "SMALLER":
		return fmt.Sprintf("%s %d", k.K, k.N)
	case "NOT":
		return "NOT " + k.Sub[0].wire()
	case "OR":
		return "OR " + k.Sub[0].wire() + " " + k.Sub[1].wire()
	case "LIST":
		var p []string
		for _, s := range k.Sub {
			p = append(p, s.wire())
		}
		return "(" + strings.Join(p, " ") + ")"
	}
	panic("bad key " + k.K)
}

func (k c09Key) coq() string {
	day := func() string { return coqZ(c09Day(k.D).Unix() + c09Epoch) }
	switch k.K {
	case "ALL":
		return "KAll"
	case "NEW":
		return "KNew"
	case "OLD":
		return "KOld"
	case "ANSWERED", "DELETED", "DRAFT", "FLAGGED", "RECENT", "SEEN":
		return "(KFlag " + coqHxS(`\`+c09Title(k.K)) + ")"
	case "UNANSWERED", "UNDELETED", "UNDRAFT", "UNFLAGGED", "UNSEEN":
		return "(KNotFlag " + coqHxS(`\`+c09Title(k.K[2:])) + ")"
	case "SEQ":
		return "(KSeq " + c09SetRanges(k.SetTxt) + ")"
	case "UID":
		return "(KUid " + c09SetRanges(k.SetTxt) + ")"
	case "KEYWORD":
		return "(KFlag " + coqHxS(k.S) + ")"
	case "UNKEYWORD":
		return "(KNotFlag " + coqHxS(k.S) + ")"
	case "HEADER":
		return "(KHeader " + coqHxS(k.S) + " " + coqHxS(k.S2) + ")"
	case "BCC", "CC", "FROM", "SUBJECT", "TO":
		return "(KHeader " + coqHxS(c09Title(k.K)) + " " + coqHxS(k.S) + ")"
	case "BODY":
		return "(KBody " + coqHxS(k.S) + ")"
	case "TEXT":
		return "(KText " + coqHxS(k.S) + ")"
	case "SINCE":
		return "(KSince " + day() + ")"
	case "BEFORE":
		return "(KBefore " + day() + ")"
	case "ON":
		return "(KOn " + day() + ")"
	case "SENTSINCE":
		return "(KSentSince " + day() + ")"
	case "SENTBEFORE":
		return "(KSentBefore " + day() + ")"
	case "SENTON":
		return "(KSentOn " + day() + ")"
	case "LARGER":
		return "(KLarger " + coqZ(k.N) + ")"
	case "SMALLER":
		return "(KSmaller " + coqZ(k.N) + ")"
	case "NOT":
		return "(KNot " + k.Sub[0].coq() + ")"
	case "OR":
		return "(KOr " + k.Sub[0].coq() + " " + k.Sub[1].coq() + ")"
	case "LIST":
		var p []string
		for _, s := range k.Sub {
			p = append(p, s.coq())
		}
		return "(KList " + coqList(p) + ")"
	}
	panic("bad key")
}

func (g *c09Gen) key(depth int) c09Key {
	simple := []string{"ALL", "NEW", "OLD", "ANSWERED", "DELETED", "DRAFT", "FLAGGED", "RECENT", "SEEN",
		"UNANSWERED", "UNDELETED", "UNDRAFT", "UNFLAGGED", "UNSEEN"}
	words := []string{"hello", "WORLD", "foo", "bar", "invoice", "plan", "x", "report", "example.org", "bob", "zzz", "quarterly rep", "end"}
	switch k := g.r.Intn(20); {
	case k < 4:
		return c09Key{K: g.pick(simple)}
	case k < 6:
		return c09Key{K: "SEQ", SetTxt: g.set(false)}
	case k < 8:
		return c09Key{K: "UID", SetTxt: g.set(true)}
	case k < 9:
		return c09Key{K: g.pick([]string{"KEYWORD", "UNKEYWORD"}), S: g.pick([]string{"$Foo", "foo", "FOO", "Bar", "nokw"})}
	case k < 10:
		return c09Key{K: "HEADER", S: g.pick([]string{"X-K", "x-k", "Subject", "Date", "Content-Type", "X-Part", "Nope"}), S2: g.pick([]string{"", "v", "V", "hello", "multipart", "2020", "second", "SECOND", "econ"})}
	case k < 12:
		return c09Key{K: g.pick([]string{"BCC", "CC", "FROM", "SUBJECT", "TO"}), S: g.pick(words)}
	case k < 13:
		return c09Key{K: g.pick([]string{"BODY", "TEXT"}), S: g.pick(words)}
	case k < 15:
		return c09Key{K: g.pick([]string{"SINCE", "BEFORE", "ON", "SENTSINCE", "SENTBEFORE", "SENTON"}), D: g.r.Intn(8) - 3}
	case k < 17:
		sz := []int64{0, 1, 10, 60, 100, 150, 300, 2000, 5000, 9223372036854775807}
		n := sz[g.r.Intn(len(sz))]
		if v, ok := g.nearSize(); ok && g.r.Intn(3) != 0 {
			n = v
		}
		return c09Key{K: g.pick([]string{"LARGER", "SMALLER"}), N: n}
	case k < 18 && depth > 0:
		return c09Key{K: "NOT", Sub: []c09Key{g.key(depth - 1)}}
	case k < 19 && depth > 0:
		return c09Key{K: "OR", Sub: []c09Key{g.key(depth - 1), g.key(depth - 1)}}
	case depth > 0:
		var sub []c09Key
		for i := 0; i <= g.r.Intn(3); i++ {
			sub = append(sub, g.key(depth-1))
		}
		return c09Key{K: "LIST", Sub: sub}
	}
	return c09Key{K: g.pick(simple)}
}

// a plain (non-extended) SEARCH with the given keys
func c09SearchCmd(sess int, uid bool, keys []c09Key) c09Cmd {
	var ws, cs []string
	for _, k := range keys {
		ws = append(ws, k.wire())
		cs = append(cs, k.coq())
	}
	line := "SEARCH " + strings.Join(ws, " ")
	if uid {
		line = "UID " + line
	}
	return c09Cmd{Sess: sess, Kind: "SEARCH", Line: line, Key: "search",
		Coq: fmt.Sprintf("CSearch %s {| sr_ext := false; sr_min := false; sr_max := false; sr_all := false; sr_count := false |} %s",
			coqBool(uid), coqList(cs))}
}

func (g *c09Gen) search(sess int) c09Cmd {
	uid := g.r.Intn(3) == 0
	var keys []c09Key
	for i := 0; i <= g.r.Intn(3); i++ {
		keys = append(keys, g.key(2))
	}
	var ws, cs []string
	for _, k := range keys {
		ws = append(ws, k.wire())
		cs = append(cs, k.coq())
	}
	ext, mn, mx, all, cnt := false, false, false, false, false
	ret := ""
	if g.r.Intn(3) == 0 {
		ext = true
		var opts []string
		if g.r.Intn(2) == 0 {
			mn = true
			opts = append(opts, "MIN")
		}
		if g.r.Intn(2) == 0 {
			mx = true
			opts = append(opts, "MAX")
		}
		if g.r.Intn(2) == 0 {
			all = true
			opts = append(opts, "ALL")
		}
		if g.r.Intn(2) == 0 {
			cnt = true
			opts = append(opts, "COUNT")
		}
		ret = "RETURN (" + strings.Join(opts, " ") + ") "
	}
	line := "SEARCH " + ret + strings.Join(ws, " ")
	if uid {
		line = "UID " + line
	}
	key := ""
	if len(keys) >= 2 {
		key = "search"
	}
	return c09Cmd{Sess: sess, Kind: "SEARCH", Line: line, Key: key,
		Coq: fmt.Sprintf("CSearch %s {| sr_ext := %s; sr_min := %s; sr_max := %s; sr_all := %s; sr_count := %s |} %s",
			coqBool(uid), coqBool(ext), coqBool(mn), coqBool(mx), coqBool(all), coqBool(cnt), coqList(cs))}
}

// ---- STATUS / LIST ---------------------------------------------------------------------------------------

var c09StatusItems = []string{"MESSAGES", "UIDNEXT", "UIDVALIDITY", "UNSEEN", "DELETED", "SIZE", "APPENDLIMIT", "DELETED-STORAGE", "RECENT"}

func (g *c09Gen) statusOpts() (wire, coq string) {
	var on [9]bool
	var ws []string
	for i := 0; i <= g.r.Intn(5); i++ {
		j := g.r.Intn(9)
		on[j] = true
		ws = append(ws, c09StatusItems[j])
	}
	f := []string{"so_messages", "so_uidnext", "so_uidvalidity", "so_unseen", "so_deleted", "so_size", "so_appendlimit", "so_deleted_storage", "so_recent"}
	var cs []string
	for i := range f {
		cs = append(cs, f[i]+" := "+coqBool(on[i]))
	}
	return "(" + strings.Join(ws, " ") + ")", "{| " + strings.Join(cs, "; ") + " |}"
}

func (g *c09Gen) list(sess int) c09Cmd {
	refs := []string{"", "", "", "a", "a/", "a/b", "x", "/"}
	pats := []string{"*", "%", "a/%", "a*", "*b", "INBOX", "%/%", "a/b/c", "x*y", "*/*", "a%", "%b", "", "Arch%", "a/b*", "inbox", "/a"}
	ref := g.pick(refs)
	lsub := g.r.Intn(6) == 0
	var ps []string
	if !lsub && g.r.Intn(5) == 0 {
		for i := 0; i <= g.r.Intn(3); i++ {
			ps = append(ps, g.pick(pats))
		}
	} else {
		ps = []string{g.pick(pats)}
	}
	pw := func(p string) string {
		if p == "" || strings.ContainsAny(p, " ") || g.r.Intn(3) == 0 {
			return c09Quote(p)
		}
		return p
	}
	var line string
	selSub := false
	retW, retC := "", "None"
	if lsub {
		line = "LSUB " + c09Quote(ref) + " " + pw(ps[0])
		selSub = true
	} else {
		line = "LIST "
		if g.r.Intn(5) == 0 {
			line += "(SUBSCRIBED) "
			selSub = true
		}
		line += c09Quote(ref) + " "
		if len(ps) > 1 || (g.r.Intn(8) == 0 && ps[0] != "") {
			var w []string
			for _, p := range ps {
				w = append(w, pw(p))
			}
			line += "(" + strings.Join(w, " ") + ")"
		} else {
			line += pw(ps[0])
		}
		if g.r.Intn(5) == 0 {
			w, c := g.statusOpts()
			retW, retC = " RETURN (STATUS "+w+")", coqSome(c)
			line += retW
		}
	}
	// readListCmd drops empty patterns (LIST only)
	var mp []string
	for _, p := range ps {
		if p != "" || lsub {
			mp = append(mp, p)
		}
	}
	if !lsub && len(ps) > 1 && len(mp) == 0 {
		// "(\"\" \"\")": BAD, not generated
		mp = []string{"*"}
		line = "LIST \"\" *"
		ref = ""
		retC = "None"
		selSub = false
	}
	key := ""
	if strings.ContainsAny(strings.Join(mp, ""), "*%") {
		key = "list"
	}
	return c09Cmd{Sess: sess, Kind: "LIST", Line: line, Key: key,
		Coq: fmt.Sprintf("CList %s %s %s %s %s", coqBool(lsub), coqBool(selSub), coqHxS(ref), c09Strs(mp), retC)}
}

// ---- one random command -----------------------------------------------------------------------------------

func (g *c09Gen) storeFlagsWire(fl []string, paren bool) string {
	if paren || len(fl) == 0 {
		return "(" + strings.Join(fl, " ") + ")"
	}
	return strings.Join(fl, " ")
}

func (g *c09Gen) appendCmd(sess int, nameW, nameM string, msg []byte) c09Cmd {
	g.sizes = append(g.sizes, int64(len(msg)))
	fl := g.flags(3)
	dw, abs, zone := g.internalDate()
	line := "APPEND " + nameW
	if len(fl) > 0 || g.r.Intn(4) == 0 {
		line += " (" + strings.Join(fl, " ") + ")"
	}
	if g.r.Intn(8) == 0 {
		// no date-time: the server takes the current time; the harness reads it back
		line += fmt.Sprintf(" {%d}", len(msg))
		return c09Cmd{Sess: sess, Kind: "APPEND", Line: line, Lit: msg, Key: "append", NoDate: nameW,
			Coq: fmt.Sprintf("CAppend %s %s @TIME@ @ZONE@ %s", coqHxS(nameM), c09Strs(fl), coqHx(msg))}
	}
	line += " " + c09Quote(dw)
	line += fmt.Sprintf(" {%d}", len(msg))
	return c09Cmd{Sess: sess, Kind: "APPEND", Line: line, Lit: msg, Key: "append",
		Coq: fmt.Sprintf("CAppend %s %s %s %s %s", coqHxS(nameM), c09Strs(fl), coqZ(abs), coqZ(zone), coqHx(msg))}
}

func (g *c09Gen) random() c09Cmd {
	sess := g.r.Intn(g.nsess)
	nw, nm := g.name()
	k := g.r.Intn(100)
	if g.sel != nil && g.sel[sess] == "" && g.r.Intn(3) != 0 {
		k = 40 // SELECT
	}
	switch {
	case k < 5:
		if g.r.Intn(3) != 0 {
			nm = g.names[g.r.Intn(len(g.names))]
			nw = c09Quote(nm)
		}
		w := nw
		m := nm
		if g.r.Intn(6) == 0 && nm != "" {
			w, m = c09Quote(nm+"/"), nm+"/"
		}
		if g.exists != nil {
			g.exists[strings.TrimRight(m, "/")] = true
		}
		return c09Cmd{Sess: sess, Kind: "CREATE", Line: "CREATE " + w, Coq: "CCreate " + coqHxS(m), Key: "ns"}
	case k < 8:
		if g.exists != nil {
			delete(g.exists, nm)
		}
		return c09Cmd{Sess: sess, Kind: "DELETE", Line: "DELETE " + nw, Coq: "CDelete " + coqHxS(nm), Key: "ns"}
	case k < 11:
		n2m := g.names[g.r.Intn(len(g.names))]
		n2w := c09Quote(n2m)
		if g.exists != nil && g.exists[nm] && !g.exists[n2m] {
			delete(g.exists, nm)
			g.exists[n2m] = true
			g.count[n2m] = g.count[nm]
			for i := range g.sel {
				if g.sel[i] == nm {
					g.sel[i] = n2m
				}
			}
		}
		return c09Cmd{Sess: sess, Kind: "RENAME", Line: "RENAME " + nw + " " + n2w, Coq: "CRename " + coqHxS(nm) + " " + coqHxS(n2m), Key: "ns"}
	case k < 14:
		if g.r.Intn(3) == 0 {
			return c09Cmd{Sess: sess, Kind: "UNSUBSCRIBE", Line: "UNSUBSCRIBE " + nw, Coq: "CUnsubscribe " + coqHxS(nm)}
		}
		return c09Cmd{Sess: sess, Kind: "SUBSCRIBE", Line: "SUBSCRIBE " + nw, Coq: "CSubscribe " + coqHxS(nm)}
	case k < 21:
		return g.list(sess)
	case k < 27:
		w, c := g.statusOpts()
		return c09Cmd{Sess: sess, Kind: "STATUS", Line: "STATUS " + nw + " " + w, Coq: "CStatus " + coqHxS(nm) + " " + c, Key: "status"}
	case k < 39:
		if g.count != nil && g.exists[nm] {
			g.count[nm]++
		}
		return g.appendCmd(sess, nw, nm, g.message())
	case k < 45:
		ex := g.r.Intn(4) == 0
		kind := "SELECT"
		if ex {
			kind = "EXAMINE"
		}
		if g.sel != nil {
			g.sel[sess] = ""
			if g.exists[nm] {
				g.sel[sess] = nm
			}
		}
		return c09Cmd{Sess: sess, Kind: kind, Line: kind + " " + nw, Coq: "CSelect " + coqHxS(nm) + " " + coqBool(ex), Key: "select"}
	case k < 46:
		if g.sel != nil {
			g.sel[sess] = ""
		}
		return c09Cmd{Sess: sess, Kind: "UNSELECT", Line: "UNSELECT", Coq: "CUnselect"}
	case k < 47:
		if g.sel != nil {
			g.sel[sess] = ""
		}
		return c09Cmd{Sess: sess, Kind: "CLOSE", Line: "CLOSE", Coq: "CClose", Key: "close"}
	case k < 57:
		uid := g.r.Intn(3) == 0
		set := g.set(uid)
		op := g.r.Intn(3)
		silent := g.r.Intn(4) == 0
		fl := g.flags(3)
		item := []string{"FLAGS", "+FLAGS", "-FLAGS"}[op]
		if g.r.Intn(5) == 0 {
			item = strings.ToLower(item)
		}
		if silent {
			item += ".SILENT"
		}
		line := "STORE " + set + " " + item + " " + g.storeFlagsWire(fl, g.r.Intn(3) != 0)
		if uid {
			line = "UID " + line
		}
		return c09Cmd{Sess: sess, Kind: "STORE", Line: line, Key: "store",
			Coq: fmt.Sprintf("CStore %s %s %s %s %s", coqBool(uid), c09SetRanges(set), []string{"StSet", "StAdd", "StDel"}[op], coqBool(silent), c09Strs(fl))}
	case k < 62:
		uid := g.r.Intn(3) == 0
		set := g.set(uid)
		line := "COPY " + set + " " + nw
		if uid {
			line = "UID " + line
		}
		return c09Cmd{Sess: sess, Kind: "COPY", Line: line, Key: "copy",
			Coq: fmt.Sprintf("CCopy %s %s %s", coqBool(uid), c09SetRanges(set), coqHxS(nm))}
	case k < 66:
		uid := g.r.Intn(3) == 0
		set := g.set(uid)
		line := "MOVE " + set + " " + nw
		if uid {
			line = "UID " + line
		}
		return c09Cmd{Sess: sess, Kind: "MOVE", Line: line, Key: "move",
			Coq: fmt.Sprintf("CMove %s %s %s", coqBool(uid), c09SetRanges(set), coqHxS(nm))}
	case k < 70:
		if g.r.Intn(2) == 0 {
			set := g.set(true)
			return c09Cmd{Sess: sess, Kind: "EXPUNGE", Line: "UID EXPUNGE " + set, Key: "expunge",
				Coq: "CExpunge " + coqSome(c09SetRanges(set))}
		}
		return c09Cmd{Sess: sess, Kind: "EXPUNGE", Line: "EXPUNGE", Coq: "CExpunge None", Key: "expunge"}
	case k < 82:
		return g.search(sess)
	case k < 99:
		return g.fetch(sess)
	}
	return c09Cmd{Sess: sess, Kind: "NOOP", Line: "NOOP", Coq: "CNoop"}
}

// ---- running a history ---------------------------------------------------------------------------------------

type c09Step struct {
	Cmd c09Cmd
	Res *c09Result
}

type c09Runner struct {
	h    *H
	corr *CorrFile
	// uid oracle: per UIDVALIDITY the highest UID seen so far
	hist int
}

// runHistory executes cmds on a fresh server; returns the steps executed (a crash ends it)
func (r *c09Runner) runHistory(nsess int, cmds []c09Cmd, src string, post func(step int, st *c09Step, conns []*c09Conn) bool) []c09Step {
	h := r.h
	r.hist++
	desc := map[string]interface{}{"src": src, "sessions": nsess, "commands": cmds}
	h.InFlight(desc)
	ms := startMemServer(nil, false)
	defer ms.Close()
	var conns []*c09Conn
	for i := 0; i < nsess; i++ {
		cc, err := c09Dial(ms.ln.Addr().String())
		if err != nil {
			h.Fail("c09/setup", "cannot connect: "+err.Error(), desc)
			return nil
		}
		defer cc.Close()
		if _, _, tg, err := cc.exchange("LOGIN u p", nil); err != nil || tg.Status != "OK" {
			h.Fail("c09/setup", "LOGIN failed", desc)
			return nil
		}
		conns = append(conns, cc)
	}
	maxUID := map[uint64]uint64{} // uidvalidity -> highest UID handed out (APPENDUID/COPYUID)
	var observer *c09Conn
	defer func() {
		if observer != nil {
			observer.Close()
		}
	}()
	var steps []c09Step
	for si := range cmds {
		c := &cmds[si]
		cc := conns[c.Sess]
		t0 := time.Now()
		tag, un, tagged, err := cc.exchange(c.Line, c.Lit)
		t1 := time.Now()
		st := c09Step{Cmd: *c}
		crash := func(why string) {
			st.Cmd.Coq = strings.NewReplacer("@TIME@", "0%Z", "@ZONE@", "0%Z").Replace(st.Cmd.Coq)
			st.Res = &c09Result{Crash: true}
			steps = append(steps, st)
			logtxt := ms.log.String()
			sig := "c09/crash:" + c.Kind
			if i := strings.Index(logtxt, "panic handling command"); i >= 0 {
				l := logtxt[i:]
				if j := strings.IndexByte(l, '\n'); j > 0 {
					l = l[:j]
				}
				why += "; server log: " + l
			}
			d := map[string]interface{}{"src": src, "sessions": nsess, "commands": cmds[:si+1], "transcript": cc.log}
			h.Fail(sig, "the connection broke while handling a syntactically valid "+c.Kind+" command: "+why, d)
		}
		if err != nil {
			crash(err.Error())
			break
		}
		res, perr := c09Project(c.Kind, tag, un, tagged, c.MarkSeen)
		if perr != nil {
			crash("unexpected response: " + perr.Error())
			break
		}
		if strings.Contains(ms.log.String(), "panic") {
			crash("panic reported in the server log")
			break
		}
		if c.NoDate != "" {
			// read the internal date the server chose through an observer connection
			// (EXAMINE + UID FETCH ... INTERNALDATE: no state change)
			tm, zn := int64(0), int64(0)
			if res.Code == "APPENDUID" {
				if observer == nil {
					if observer, err = c09Dial(ms.ln.Addr().String()); err == nil {
						observer.exchange("LOGIN u p", nil)
					}
				}
				ok := false
				if observer != nil {
					if _, _, tg, err := observer.exchange("EXAMINE "+c.NoDate, nil); err == nil && tg.Status == "OK" {
						otag, oun, otg, err := observer.exchange(fmt.Sprintf("UID FETCH %d INTERNALDATE", res.UID), nil)
						if err == nil {
							if ores, err := c09Project("FETCH", otag, oun, otg, false); err == nil {
								for _, d := range ores.Data {
									for _, it := range d.FItems {
										if it.K == "DATE" {
											tm, zn, ok = it.T, it.Z, true
										}
									}
								}
							}
						}
						observer.exchange("UNSELECT", nil)
					}
				}
				if !ok {
					crash("cannot read back the internal date of the appended message")
					break
				}
				if tm-c09Epoch < t0.Unix()-1 || tm-c09Epoch > t1.Unix()+1 {
					h.Fail("c09/internaldate-default", fmt.Sprintf("APPEND without date-time at %v got internal date %v", t0.Unix(), tm-c09Epoch),
						map[string]interface{}{"src": src, "sessions": nsess, "commands": cmds[:si+1]})
				}
			}
			st.Cmd.Coq = strings.Replace(strings.Replace(st.Cmd.Coq, "@TIME@", coqZ(tm), 1), "@ZONE@", coqZ(zn), 1)
		}
		st.Res = res
		steps = append(steps, st)
		// direct oracle: UIDs handed out are strictly increasing per UIDVALIDITY and never reused
		chk := func(uv uint64, uids []uint64) {
			for _, u := range uids {
				if u <= maxUID[uv] {
					h.Fail("c09/uid-reused", fmt.Sprintf("UID %d handed out under UIDVALIDITY %d after UID %d", u, uv, maxUID[uv]),
						map[string]interface{}{"src": src, "sessions": nsess, "commands": cmds[:si+1]})
				}
				maxUID[uv] = u
			}
		}
		if res.Code == "APPENDUID" {
			chk(res.UV, []uint64{res.UID})
		}
		if res.Code == "COPYUID" {
			chk(res.UV, res.Dst)
		}
		for _, d := range res.Data {
			if d.K == "COPYUID" {
				chk(d.UV, d.Dst)
			}
		}
		h.Hist(c.Kind + ":" + []string{"OK", "NO", "BAD"}[res.Class])
		key := ""
		if c.Key != "" && res.Class == 0 {
			b, _ := json.Marshal(res)
			key = c.Kind + "|" + c.Line + "|" + string(b)
			if len(key) > 400 {
				key = key[:400]
			}
		}
		h.Eval(key)
		// bring every view up to date (the model assumes fresh views)
		dead := false
		for _, oc := range conns {
			if _, _, tg, err := oc.exchange("NOOP", nil); err != nil || tg.Status != "OK" {
				dead = true
			}
		}
		if dead || strings.Contains(ms.log.String(), "panic") {
			st2 := c09Step{Cmd: c09Cmd{Sess: c.Sess, Kind: "NOOP", Line: "NOOP", Coq: "CNoop"}, Res: &c09Result{Crash: true}}
			steps = append(steps, st2)
			h.Fail("c09/crash:NOOP", "a connection broke while polling after "+c.Kind,
				map[string]interface{}{"src": src, "sessions": nsess, "commands": cmds[:si+1], "log": c09Clip(ms.log.String())})
			break
		}
		if post != nil && !post(si, &steps[len(steps)-1], conns) {
			break
		}
	}
	// correspondence case
	var terms []string
	var lines []string
	for _, s := range steps {
		terms = append(terms, fmt.Sprintf("(%d%%nat, %s, %s)", s.Cmd.Sess, s.Cmd.Coq, s.Res.coq()))
		lines = append(lines, fmt.Sprintf("%d: %s", s.Cmd.Sess, c09Clip(s.Cmd.Line)))
	}
	if len(steps) > 0 {
		r.corr.Add(fmt.Sprintf("(%d%%nat, %s)", nsess, coqList(terms)),
			map[string]interface{}{"src": src, "sessions": nsess, "commands": cmds[:len(steps)], "lines": lines})
	}
	if r.hist%40 == 1 {
		h.Sample(map[string]interface{}{"src": src, "lines": lines})
	}
	return steps
}

func (g *c09Gen) historyCmds(n int) []c09Cmd {
	var cmds []c09Cmd
	g.exists = map[string]bool{}
	g.count = map[string]int{}
	g.sel = make([]string, g.nsess)
	// a plausible start: some mailboxes, some messages, a selection per session
	for _, nm := range []string{"INBOX", "a", "a/b"} {
		if g.r.Intn(6) != 0 {
			cmds = append(cmds, c09Cmd{Sess: 0, Kind: "CREATE", Line: "CREATE " + nm, Coq: "CCreate " + coqHxS(nm)})
			g.exists[nm] = true
		}
	}
	for i := 0; i < 2+g.r.Intn(5); i++ {
		nm := g.pick([]string{"INBOX", "INBOX", "a"})
		cmds = append(cmds, g.appendCmd(g.r.Intn(g.nsess), nm, nm, g.message()))
		g.count[nm]++
	}
	for s := 0; s < g.nsess; s++ {
		nm := g.pick([]string{"INBOX", "INBOX", "a"})
		cmds = append(cmds, c09Cmd{Sess: s, Kind: "SELECT", Line: "SELECT " + nm, Coq: "CSelect " + coqHxS(nm) + " false", Key: "select"})
		if g.exists[nm] {
			g.sel[s] = nm
		}
	}
	for len(cmds) < n {
		cmds = append(cmds, g.random())
	}
	return cmds
}

func runC09(h *H) {
	imports := []string{"From GoImap.Base Require Import Bytes.", "From GoImap.Model Require Import NumSet Search MemRefMsg MemRef MemRefCorr."}
	r := &c09Runner{h: h}
	r.corr = h.NewCorr("history", imports, "memref_mismatches", h.Pick(15, 15)).Type("hist_case")
	h.Rule("Command histories (CREATE/DELETE/RENAME/SUBSCRIBE/LIST/LSUB/STATUS/APPEND/SELECT/EXAMINE/UNSELECT/CLOSE/STORE/COPY/MOVE/EXPUNGE/UID EXPUNGE/SEARCH/FETCH, seq and UID forms) over up to 10 mailbox names and 1..2 sessions on a real imapserver+imapmemserver via raw TCP; after every command every session is polled (NOOP). Every response is parsed by an independent tokenizer and projected (tagged class and code incl. APPENDUID/COPYUID, SELECT data, STATUS items, LIST/LSUB lines, SEARCH/ESEARCH numbers, FETCH items with section labels, origins and octets); the whole history is replayed on the model in Coq (memref_mismatches). Messages: plain, header-only, malformed, bare-LF, multipart (nested, digest, message/rfc822, missing/odd boundaries), large; sets with *, reversed and out-of-range numbers; sections with part paths, HEADER/TEXT/MIME/HEADER.FIELDS[.NOT], partial ranges up to 2^63-1; search keys of every kind with NOT/OR/lists. Direct oracles (no model): no crash/panic/close, UIDs handed out strictly increase per UIDVALIDITY, and scripted scenarios for UIDVALIDITY freshness, APPENDUID/COPYUID, STORE/EXPUNGE/MOVE exactness and STATUS counts. Non-trivial = a successful state-changing or data-returning command; distinct by command text and projected response.")

	// 1. corpus
	r.corpus()
	// 2. scripted scenarios with direct oracles
	nsc := h.Pick(45, 400)
	for i := 0; i < nsc; i++ {
		r.scenario(newRand(h.Seed*7919+int64(i)), i)
	}
	// 3. section-heavy histories: structured messages, many part paths and partial ranges
	nsec := h.Pick(20, 250)
	for i := 0; i < nsec; i++ {
		g := &c09Gen{r: newRand(h.Seed*104729 + int64(i)), names: c09Names, nsess: 1}
		r.runHistory(1, g.sectionCmds(), fmt.Sprintf("sections:%d", i), nil)
	}
	// 4. crash probes: syntactically valid commands with extreme numbers, deep nesting, odd
	//    messages (direct oracle only)
	npr := h.Pick(25, 300)
	for i := 0; i < npr; i++ {
		g := &c09Gen{r: newRand(h.Seed*15485863 + int64(i)), names: c09Names, nsess: 1}
		r.probe(g.probeLines(), fmt.Sprintf("probe:%d", i))
	}
	// 5. random histories
	nh := h.Pick(80, 1000)
	for i := 0; i < nh; i++ {
		g := &c09Gen{r: newRand(h.Seed*1000003 + int64(i)), names: c09Names}
		g.nsess = 1 + g.r.Intn(2)
		cmds := g.historyCmds(h.Pick(28, 45) + g.r.Intn(10))
		r.runHistory(g.nsess, cmds, fmt.Sprintf("random:%d", i), nil)
	}
}

// ---- corpus: known nasty inputs first --------------------------------------------------------------------------

func c09Plain(sess int, kind, line, coq string) c09Cmd {
	return c09Cmd{Sess: sess, Kind: kind, Line: line, Coq: coq, Key: strings.ToLower(kind)}
}

func c09AppendFixed(name string, flags []string, msg string) c09Cmd {
	t := c09Base.Add(12 * time.Hour)
	line := "APPEND " + name
	if len(flags) > 0 {
		line += " (" + strings.Join(flags, " ") + ")"
	}
	line += " " + c09Quote(t.Format("_2-Jan-2006 15:04:05 -0700")) + fmt.Sprintf(" {%d}", len(msg))
	return c09Cmd{Sess: 0, Kind: "APPEND", Line: line, Lit: []byte(msg), Key: "append",
		Coq: fmt.Sprintf("CAppend %s %s %s %s %s", coqHxS(name), c09Strs(flags), coqZ(t.Unix()+c09Epoch), "0%Z", coqHxS(msg))}
}

func c09FetchFixed(uid bool, set string, secs []*c09Section, flags bool) c09Cmd {
	var items, cs []string
	mark := false
	if flags {
		items = append(items, "FLAGS")
	}
	for _, s := range secs {
		items = append(items, s.wire())
		cs = append(cs, coqPair(s.coq(), coqHxS(s.Obs)))
		if !s.Peek {
			mark = true
		}
	}
	line := "FETCH " + set + " (" + strings.Join(items, " ") + ")"
	if uid {
		line = "UID " + line
	}
	return c09Cmd{Sess: 0, Kind: "FETCH", Line: line, MarkSeen: mark, Key: "fetch",
		Coq: fmt.Sprintf("CFetch %s %s {| fo_flags := %s; fo_date := false; fo_size := false; fo_sections := %s |}",
			coqBool(uid), c09SetRanges(set), coqBool(flags), coqList(cs))}
}

const c09AllStatus = "{| so_messages := true; so_uidnext := true; so_uidvalidity := true; so_unseen := true; so_deleted := true; so_size := true; so_appendlimit := true; so_deleted_storage := true; so_recent := true |}"
const c09AllStatusW = "(MESSAGES UIDNEXT UIDVALIDITY UNSEEN DELETED SIZE APPENDLIMIT DELETED-STORAGE RECENT)"

func (r *c09Runner) corpus() {
	msg := "From: a@example.org\r\nSubject: hi\r\n\r\nbody one\r\n"
	base := []c09Cmd{
		c09Plain(0, "CREATE", "CREATE INBOX", "CCreate "+coqHxS("INBOX")),
		c09Plain(0, "CREATE", "CREATE other", "CCreate "+coqHxS("other")),
		c09AppendFixed("INBOX", nil, msg),
		c09AppendFixed("INBOX", []string{`\Deleted`}, msg),
		c09AppendFixed("INBOX", []string{`\Seen`, "Foo"}, "Content-Type: multipart/mixed; boundary=b\r\n\r\n--b--\r\n"),
		c09Plain(0, "SELECT", "SELECT INBOX", "CSelect "+coqHxS("INBOX")+" false"),
	}
	with := func(extra ...c09Cmd) []c09Cmd { return append(append([]c09Cmd{}, base...), extra...) }
	big := int64(9223372036854775807)
	// partial range whose end overflows int64 (c056cd1)
	r.runHistory(1, with(
		c09FetchFixed(false, "1", []*c09Section{{Partial: true, Off: 1, Size: big, Peek: true}}, false),
		c09FetchFixed(false, "1:3", []*c09Section{{Partial: true, Off: big, Size: big, Peek: true}, {Partial: true, Off: 5, Size: big - 4}, {Spec: "TEXT", Partial: true, Off: 2, Size: big}}, true),
	), "corpus:partial-overflow", nil)
	// STATUS / LIST-STATUS DELETED-STORAGE (33f65d1)
	r.runHistory(1, with(
		c09Plain(0, "STATUS", "STATUS INBOX (DELETED-STORAGE)", "CStatus "+coqHxS("INBOX")+" {| so_messages := false; so_uidnext := false; so_uidvalidity := false; so_unseen := false; so_deleted := false; so_size := false; so_appendlimit := false; so_deleted_storage := true; so_recent := false |}"),
		c09Plain(0, "STATUS", "STATUS INBOX "+c09AllStatusW, "CStatus "+coqHxS("INBOX")+" "+c09AllStatus),
		c09Plain(0, "LIST", `LIST "" * RETURN (STATUS `+c09AllStatusW+`)`, "CList false false "+coqHxS("")+" "+c09Strs([]string{"*"})+" "+coqSome(c09AllStatus)),
	), "corpus:deleted-storage", nil)
	// "*" after the highest UID has been expunged (2c3916f), "*" after a larger number (df7886e), UID EXPUNGE * (f8dfd21)
	r.runHistory(1, with(
		c09Plain(0, "STORE", `STORE 3 +FLAGS (\Deleted)`, "CStore false "+c09SetRanges("3")+" StAdd false "+c09Strs([]string{`\Deleted`})),
		c09Plain(0, "EXPUNGE", "UID EXPUNGE 3", "CExpunge "+coqSome(c09SetRanges("3"))),
		c09FetchFixed(true, "*", nil, true),
		c09FetchFixed(true, "10,*", nil, true),
		c09FetchFixed(false, "10,*", nil, true),
		c09Plain(0, "SEARCH", "UID SEARCH UID *", "CSearch true {| sr_ext := false; sr_min := false; sr_max := false; sr_all := false; sr_count := false |} [KUid "+c09SetRanges("*")+"]"),
		c09Plain(0, "SEARCH", "SEARCH 10,* NOT UID 7:*", "CSearch false {| sr_ext := false; sr_min := false; sr_max := false; sr_all := false; sr_count := false |} [KSeq "+c09SetRanges("10,*")+"; KNot (KUid "+c09SetRanges("7:*")+")]"),
		c09Plain(0, "STORE", "UID STORE 10,* +FLAGS.SILENT (x)", "CStore true "+c09SetRanges("10,*")+" StAdd true "+c09Strs([]string{"x"})),
		c09Plain(0, "EXPUNGE", "UID EXPUNGE *", "CExpunge "+coqSome(c09SetRanges("*"))),
		c09Plain(0, "EXPUNGE", "UID EXPUNGE 7:*", "CExpunge "+coqSome(c09SetRanges("7:*"))),
		c09FetchFixed(true, "1:*", nil, true),
	), "corpus:star", nil)
	// BODY[] is the stored message (header-only, malformed first line)
	r.runHistory(1, []c09Cmd{
		c09Plain(0, "CREATE", "CREATE INBOX", "CCreate "+coqHxS("INBOX")),
		c09AppendFixed("INBOX", nil, "A: b\r\n"),
		c09AppendFixed("INBOX", nil, "hello\r\n"),
		c09AppendFixed("INBOX", nil, "A: b\n\nlf only\n"),
		c09Plain(0, "SELECT", "SELECT INBOX", "CSelect "+coqHxS("INBOX")+" false"),
		c09FetchFixed(false, "1:*", []*c09Section{{Peek: true}, {Obs: "RFC822"}, {Spec: "HEADER", Peek: true}, {Spec: "TEXT", Peek: true}}, false),
	}, "corpus:body-verbatim", nil)
	// SEARCH SMALLER 0 / LARGER 0 with an empty message: SearchCriteria's 0 = unset (known finding)
	zero := []c09Cmd{
		c09Plain(0, "CREATE", "CREATE INBOX", "CCreate "+coqHxS("INBOX")),
		c09AppendFixed("INBOX", nil, ""),
		c09AppendFixed("INBOX", nil, "A: b\r\n\r\nx\r\n"),
		c09Plain(0, "SELECT", "SELECT INBOX", "CSelect "+coqHxS("INBOX")+" false"),
		c09SearchCmd(0, false, []c09Key{{K: "SMALLER", N: 0}}),
		c09SearchCmd(0, false, []c09Key{{K: "LARGER", N: 0}}),
	}
	r.runHistory(1, zero, "corpus:search-size-zero", func(step int, st *c09Step, conns []*c09Conn) bool {
		want := map[string]string{"SEARCH SMALLER 0": "[]", "SEARCH LARGER 0": "[2]"}[st.Cmd.Line]
		if want != "" {
			for _, d := range st.Res.Data {
				if d.K == "SEARCH" && fmt.Sprint(d.Nums) != want {
					r.h.Fail("c09/search-size-zero", fmt.Sprintf("%q on an empty and a 10-octet message returned %v, RFC 3501 says %s", st.Cmd.Line, d.Nums, want),
						map[string]interface{}{"src": "corpus:search-size-zero", "sessions": 1, "commands": zero[:step+1]})
				}
			}
		}
		return true
	})
	// a header field that occurs more than once: SEARCH HEADER looks at every occurrence
	rep := []c09Cmd{
		c09Plain(0, "CREATE", "CREATE INBOX", "CCreate "+coqHxS("INBOX")),
		c09AppendFixed("INBOX", nil, "Received: from alpha\r\nReceived: from beta\r\nX-K: first\r\nSubject: one\r\nX-K: second target\r\n\r\nbody\r\n"),
		c09AppendFixed("INBOX", nil, "Received: from beta\r\nX-K: target\r\nX-K: \r\n\r\nbody\r\n"),
		c09AppendFixed("INBOX", nil, "Received: from gamma\r\nKeywords: a\r\nKeywords: INVOICE\r\n\r\nbody\r\n"),
		c09Plain(0, "SELECT", "SELECT INBOX", "CSelect "+coqHxS("INBOX")+" false"),
		c09SearchCmd(0, false, []c09Key{{K: "HEADER", S: "Received", S2: "from beta"}}),
		c09SearchCmd(0, false, []c09Key{{K: "NOT", Sub: []c09Key{{K: "HEADER", S: "Received", S2: "from beta"}}}}),
		c09SearchCmd(0, false, []c09Key{{K: "HEADER", S: "x-k", S2: "TARGET"}}),
		c09SearchCmd(0, false, []c09Key{{K: "HEADER", S: "X-K", S2: "first"}}),
		c09SearchCmd(0, false, []c09Key{{K: "HEADER", S: "keywords", S2: "invoice"}}),
		c09SearchCmd(0, false, []c09Key{{K: "HEADER", S: "X-K", S2: ""}}),
	}
	repWant := map[int]string{5: "[1 2]", 6: "[3]", 7: "[1 2]", 8: "[1]", 9: "[3]", 10: "[1 2]"}
	r.runHistory(1, rep, "corpus:search-header-repeated", func(step int, st *c09Step, conns []*c09Conn) bool {
		if want := repWant[step]; want != "" {
			for _, d := range st.Res.Data {
				if d.K == "SEARCH" && fmt.Sprint(d.Nums) != want {
					r.h.Fail("c09/search-header-repeated", fmt.Sprintf("%q on messages with repeated header fields returned %v, expected %s (every occurrence of the field counts)", st.Cmd.Line, d.Nums, want),
						map[string]interface{}{"src": "corpus:search-header-repeated", "sessions": 1, "commands": rep[:step+1]})
				}
			}
		}
		return true
	})
	// EXAMINE is read-only (RFC 3501 6.3.2: "no changes to the permanent state of the mailbox, including
	// per-user state, are permitted"; 6.4.2: CLOSE on a mailbox selected by EXAMINE removes no messages
	// and gives no error).  Session 1 examines, session 0 observes independently.
	r.examineReadOnly()
	for seed := int64(1); seed <= int64(r.h.Pick(12, 120)); seed++ {
		r.searchRes(seed)
	}
	// BODYSTRUCTURE of a multipart without parts: crash oracle only (not modelled)
	r.probe([]string{"CREATE INBOX", "APPEND INBOX {52}\x00Content-Type: multipart/mixed; boundary=b\r\n\r\n--b--\r\n", "APPEND INBOX {45}\x00Content-Type: multipart/mixed; boundary=b\r\n\r\n",
		"SELECT INBOX", "FETCH 1:2 BODYSTRUCTURE", "FETCH 1:2 BODY", "FETCH 1:2 FULL", "FETCH 1:2 ALL", "FETCH 1:2 (ENVELOPE BODY[1] BODY[1.MIME] BINARY[1] BINARY.SIZE[1])"}, "corpus:bodystructure-empty-multipart")
}

// examineReadOnly: after EXAMINE, FETCH BODY[] / STORE / CLOSE / EXPUNGE / UID EXPUNGE / MOVE by the examining
// session must leave the mailbox as an independent session sees it (STATUS counts, FETCH FLAGS) unchanged.
// The history is also replayed on the model like every other history.
func (r *c09Runner) examineReadOnly() {
	msg := "From: a@example.org\r\nSubject: hi\r\n\r\nbody one\r\n"
	status := func() c09Cmd {
		return c09Plain(0, "STATUS", "STATUS INBOX "+c09AllStatusW, "CStatus "+coqHxS("INBOX")+" "+c09AllStatus)
	}
	on1 := func(c c09Cmd) c09Cmd { c.Sess = 1; return c }
	examine := c09Plain(1, "EXAMINE", "EXAMINE INBOX", "CSelect "+coqHxS("INBOX")+" true")
	cmds := []c09Cmd{
		c09Plain(0, "CREATE", "CREATE INBOX", "CCreate "+coqHxS("INBOX")),
		c09Plain(0, "CREATE", "CREATE other", "CCreate "+coqHxS("other")),
		c09AppendFixed("INBOX", nil, msg),
		c09AppendFixed("INBOX", nil, msg),
		examine,
		on1(c09FetchFixed(false, "1", []*c09Section{{}}, false)), // 5: FETCH 1 (BODY[])
		status(), // 6
		c09Plain(1, "STORE", `STORE 2 +FLAGS (\Flagged)`, "CStore false "+c09SetRanges("2")+" StAdd false "+c09Strs([]string{`\Flagged`})),
		c09Plain(0, "SELECT", "SELECT INBOX", "CSelect "+coqHxS("INBOX")+" false"),
		c09FetchFixed(false, "1:2", nil, true), // 9: FETCH 1:2 (FLAGS) by the observer
		c09Plain(0, "STORE", `STORE 2 +FLAGS.SILENT (\Deleted)`, "CStore false "+c09SetRanges("2")+" StAdd true "+c09Strs([]string{`\Deleted`})),
		c09Plain(1, "CLOSE", "CLOSE", "CClose"), // 11
		status(),                                // 12
		examine,
		c09Plain(1, "EXPUNGE", "EXPUNGE", "CExpunge None"),
		status(), // 15
		c09Plain(1, "EXPUNGE", "UID EXPUNGE 1:*", "CExpunge "+coqSome(c09SetRanges("1:*"))),
		status(), // 17
		c09Plain(1, "MOVE", "MOVE 1 other", "CMove false "+c09SetRanges("1")+" "+coqHxS("other")),
		status(), // 19
		on1(c09FetchFixed(false, "1:2", []*c09Section{{Spec: "TEXT"}}, true)),
		c09FetchFixed(false, "1:2", nil, true), // 21
	}
	const src = "corpus:examine-readonly"
	item := func(st *c09Step, name string) string {
		for _, d := range st.Res.Data {
			if d.K == "STATUS" {
				for _, it := range d.Items {
					if strings.EqualFold(it[0], name) {
						return it[1]
					}
				}
			}
		}
		return "?"
	}
	r.runHistory(2, cmds, src, func(step int, st *c09Step, conns []*c09Conn) bool {
		fail := func(what, text string) {
			r.h.Fail("c09/examine-not-readonly:"+what, text+" (RFC 3501 6.3.2: EXAMINE permits no change to the permanent state of the mailbox)",
				map[string]interface{}{"src": src, "sessions": 2, "commands": cmds[:step+1]})
		}
		flagsOf := func(seq uint64) ([]string, bool) {
			for _, d := range st.Res.Data {
				if d.K == "FETCH" && d.Seq == seq {
					for _, it := range d.FItems {
						if it.K == "FLAGS" {
							return it.Flags, true
						}
					}
				}
			}
			return nil, false
		}
		switch step {
		case 6:
			if u := item(st, "UNSEEN"); u != "2" {
				fail("fetch-set-seen", "after EXAMINE INBOX and FETCH 1 (BODY[]) by the examining session, STATUS UNSEEN seen by another session is "+u+", not 2")
			}
		case 9:
			if fl, ok := flagsOf(2); !ok || c09HasFold(fl, `\Flagged`) {
				fail("store-persisted", fmt.Sprintf("after EXAMINE INBOX and STORE 2 +FLAGS (\\Flagged) by the examining session, another session sees message 2 with flags %v", fl))
			}
			if fl, ok := flagsOf(1); !ok || c09HasFold(fl, `\Seen`) {
				fail("fetch-set-seen", fmt.Sprintf("after EXAMINE INBOX and FETCH 1 (BODY[]) by the examining session, another session sees message 1 with flags %v", fl))
			}
		case 11:
			if st.Res.Class != 0 {
				fail("close-refused", "CLOSE of a mailbox selected by EXAMINE was not answered OK (RFC 3501 6.4.2: no messages are removed, and no error is given)")
			}
		case 12, 15, 17, 19:
			if m := item(st, "MESSAGES"); m != "2" {
				what := map[int]string{12: "close-expunged", 15: "expunge-removed", 17: "uid-expunge-removed", 19: "move-removed"}[step]
				fail(what, fmt.Sprintf("INBOX holds 2 messages, message 2 is \\Deleted; after %q by the session which selected it with EXAMINE, STATUS MESSAGES seen by another session is %s, not 2", cmds[step-1].Line, m))
			}
		case 21:
			for seq := uint64(1); seq <= 2; seq++ {
				if fl, ok := flagsOf(seq); ok && c09HasFold(fl, `\Seen`) {
					fail("fetch-set-seen", fmt.Sprintf("after EXAMINE INBOX and FETCH 1:2 (FLAGS BODY[TEXT]) by the examining session, another session sees message %d with flags %v", seq, fl))
				}
			}
		}
		return true
	})
}

// probe runs raw command lines (a literal is written "LINE {n}\x00payload") with the crash oracle only.
func (r *c09Runner) probe(lines []string, src string) {
	h := r.h
	desc := map[string]interface{}{"src": src, "lines": lines}
	h.InFlight(desc)
	ms := startMemServer(nil, false)
	defer ms.Close()
	cc, err := c09Dial(ms.ln.Addr().String())
	if err != nil {
		h.Fail("c09/setup", err.Error(), desc)
		return
	}
	defer cc.Close()
	cc.exchange("LOGIN u p", nil)
	for _, l := range lines {
		var lit []byte
		if i := strings.IndexByte(l, 0); i >= 0 {
			lit = []byte(l[i+1:])
			l = l[:i]
		}
		_, _, tg, err := cc.exchange(l, lit)
		h.Eval("")
		kind := strings.Fields(l)[0]
		if err != nil || strings.Contains(ms.log.String(), "panic") {
			why := "connection closed"
			if err != nil {
				why = err.Error()
			}
			logtxt := ms.log.String()
			if i := strings.Index(logtxt, "panic handling command"); i >= 0 {
				e := logtxt[i:]
				if j := strings.IndexByte(e, '\n'); j > 0 {
					e = e[:j]
				}
				why += "; server log: " + e
			}
			h.Fail("c09/crash:"+kind, "the connection broke while handling "+c09Clip(l)+": "+why, map[string]interface{}{"src": src, "lines": lines, "transcript": cc.log})
			return
		}
		if tg != nil {
			h.Hist("probe:" + kind + ":" + tg.Status)
		}
	}
}

// ---- scripted scenarios with direct oracles ---------------------------------------------------------------------

type c09Snap struct {
	UIDs  []uint64
	Flags map[uint64][]string
	Size  map[uint64]uint64
}

// snapshot of the selected mailbox through the session itself (UID FETCH 1:* (FLAGS RFC822.SIZE))
func c09Snapshot(cc *c09Conn) (*c09Snap, error) {
	tag, un, tagged, err := cc.exchange("UID FETCH 1:* (FLAGS RFC822.SIZE)", nil)
	if err != nil {
		return nil, err
	}
	res, err := c09Project("FETCH", tag, un, tagged, false)
	if err != nil {
		return nil, err
	}
	s := &c09Snap{Flags: map[uint64][]string{}, Size: map[uint64]uint64{}}
	for i, d := range res.Data {
		if d.K != "FETCH" {
			continue
		}
		if d.Seq != uint64(i+1) {
			return nil, fmt.Errorf("snapshot: sequence number %d at position %d", d.Seq, i+1)
		}
		var u uint64
		var fl []string
		for _, it := range d.FItems {
			switch it.K {
			case "UID":
				u = it.N
			case "FLAGS":
				fl = it.Flags
			case "SIZE":
				s.Size[u] = it.N
			}
		}
		s.UIDs = append(s.UIDs, u)
		s.Flags[u] = fl
	}
	return s, nil
}

// independent evaluation of a sequence-set text: "*" = max
func c09InSet(set string, max, q uint64) bool {
	for _, e := range strings.Split(set, ",") {
		p := strings.SplitN(e, ":", 2)
		val := func(x string) uint64 {
			if x == "*" {
				return max
			}
			var v uint64
			fmt.Sscan(x, &v)
			return v
		}
		a := val(p[0])
		b := a
		if len(p) == 2 {
			b = val(p[1])
		}
		if a > b {
			a, b = b, a
		}
		if a <= q && q <= b {
			return true
		}
	}
	return false
}

func c09HasFold(l []string, f string) bool {
	for _, x := range l {
		if strings.EqualFold(x, f) {
			return true
		}
	}
	return false
}

func c09SameFlagsFold(a, b []string) bool {
	for _, x := range a {
		if !c09HasFold(b, x) {
			return false
		}
	}
	for _, x := range b {
		if !c09HasFold(a, x) {
			return false
		}
	}
	return true
}

func (r *c09Runner) scenario(rng *rand.Rand, idx int) {
	h := r.h
	g := &c09Gen{r: rng, names: []string{"INBOX", "dst"}, nsess: 1}
	var cmds []c09Cmd
	cmds = append(cmds, c09Plain(0, "CREATE", "CREATE INBOX", "CCreate "+coqHxS("INBOX")), c09Plain(0, "CREATE", "CREATE dst", "CCreate "+coqHxS("dst")))
	nmsg := 1 + rng.Intn(7)
	var bodies [][]byte
	for i := 0; i < nmsg; i++ {
		m := g.message()
		bodies = append(bodies, m)
		cmds = append(cmds, g.appendCmd(0, "INBOX", "INBOX", m))
	}
	for i := 0; i < rng.Intn(3); i++ {
		cmds = append(cmds, g.appendCmd(0, "dst", "dst", g.message()))
	}
	cmds = append(cmds, c09Plain(0, "SELECT", "SELECT INBOX", "CSelect "+coqHxS("INBOX")+" false"))
	nsetup := len(cmds)
	// boundary searches: sizes at and next to the size of a message (direct oracle below)
	for i := 0; i < 2; i++ {
		sz := int64(len(bodies[rng.Intn(len(bodies))]))
		n := sz + int64(rng.Intn(3)-1)
		if n < 1 {
			n = 1
		}
		cmds = append(cmds, c09SearchCmd(0, rng.Intn(2) == 0, []c09Key{{K: g.pick([]string{"LARGER", "SMALLER"}), N: n}}))
	}
	// single-key searches: every key kind in isolation
	for i := 0; i < 3; i++ {
		cmds = append(cmds, c09SearchCmd(0, rng.Intn(3) == 0, []c09Key{g.key(1)}))
	}
	// operations under test
	for i := 0; i < 6+rng.Intn(6); i++ {
		var c c09Cmd
		for {
			c = g.random()
			switch c.Kind {
			case "STORE", "EXPUNGE", "COPY", "MOVE", "APPEND", "STATUS", "FETCH", "SEARCH":
			default:
				continue
			}
			break
		}
		c.Sess = 0
		cmds = append(cmds, c)
	}
	// uidvalidity part: delete and recreate dst
	cmds = append(cmds,
		c09Plain(0, "STATUS", "STATUS dst (UIDVALIDITY UIDNEXT MESSAGES)", "CStatus "+coqHxS("dst")+" {| so_messages := true; so_uidnext := true; so_uidvalidity := true; so_unseen := false; so_deleted := false; so_size := false; so_appendlimit := false; so_deleted_storage := false; so_recent := false |}"),
		c09Plain(0, "DELETE", "DELETE dst", "CDelete "+coqHxS("dst")),
		c09Plain(0, "CREATE", "CREATE dst", "CCreate "+coqHxS("dst")),
		c09Plain(0, "STATUS", "STATUS dst (UIDVALIDITY UIDNEXT MESSAGES)", "CStatus "+coqHxS("dst")+" {| so_messages := true; so_uidnext := true; so_uidvalidity := true; so_unseen := false; so_deleted := false; so_size := false; so_appendlimit := false; so_deleted_storage := false; so_recent := false |}"),
	)
	src := fmt.Sprintf("scenario:%d", idx)
	fail := func(sig, what string, step int) {
		h.Fail(sig, what, map[string]interface{}{"src": src, "sessions": 1, "commands": cmds[:step+1]})
	}
	var before *c09Snap
	seenUV := map[string][]uint64{}
	appended := 0
	r.runHistory(1, cmds, src, func(step int, st *c09Step, conns []*c09Conn) bool {
		cc := conns[0]
		c := st.Cmd
		res := st.Res
		if step < nsetup-1 {
			// APPENDUID during setup: the n-th append gets UID n
			if c.Kind == "APPEND" && strings.HasPrefix(c.Line, "APPEND INBOX") {
				appended++
				if res.Code != "APPENDUID" || res.UID != uint64(appended) {
					fail("c09/appenduid", fmt.Sprintf("append number %d into a fresh mailbox answered %s %d", appended, res.Code, res.UID), step)
				}
			}
			return true
		}
		after, err := c09Snapshot(cc)
		if err != nil {
			fail("c09/crash:snapshot", "snapshot failed: "+err.Error(), step)
			return false
		}
		h.Eval("")
		defer func() { before = after }()
		// UIDs strictly increase along the mailbox
		for i := 1; i < len(after.UIDs); i++ {
			if after.UIDs[i] <= after.UIDs[i-1] {
				fail("c09/uid-order", fmt.Sprintf("UIDs not strictly increasing: %v", after.UIDs), step)
			}
		}
		if step == nsetup-1 {
			// after SELECT: every appended message is there with the bytes that were appended
			if len(after.UIDs) != nmsg {
				fail("c09/appenduid", fmt.Sprintf("%d messages appended, %d present", nmsg, len(after.UIDs)), step)
			}
			for i, u := range after.UIDs {
				if i < len(bodies) && after.Size[u] != uint64(len(bodies[i])) {
					fail("c09/append-size", fmt.Sprintf("message %d: RFC822.SIZE %d, appended %d octets", u, after.Size[u], len(bodies[i])), step)
				}
			}
			// BODY[] is the message that was appended (PEEK: no state change, not part of the history)
			if tag, un, tg, err := cc.exchange("FETCH 1:* (BODY.PEEK[])", nil); err == nil {
				if fr, err := c09Project("FETCH", tag, un, tg, false); err == nil {
					for i, d := range fr.Data {
						for _, it := range d.FItems {
							if it.K == "BODY" && i < len(bodies) && !bytes.Equal(it.Data, bodies[i]) {
								fail("c09/body-not-verbatim", fmt.Sprintf("message %d: BODY[] returns %d octets %q, appended %d octets %q", i+1, len(it.Data), c09Clip(string(it.Data)), len(bodies[i]), c09Clip(string(bodies[i]))), step)
							}
						}
					}
				}
			}
			return true
		}
		if before == nil || res.Class != 0 {
			if res.Class != 0 && before != nil && fmt.Sprint(before.UIDs) != fmt.Sprint(after.UIDs) {
				fail("c09/failed-command-changed-state", c.Kind+" failed but the message list changed", step)
			}
			return true
		}
		maxSeq := uint64(len(before.UIDs))
		maxUID := uint64(0)
		if len(before.UIDs) > 0 {
			maxUID = before.UIDs[len(before.UIDs)-1]
		}
		f := strings.Fields(c.Line)
		uidCmd := f[0] == "UID"
		if uidCmd {
			f = f[1:]
		}
		addressed := func(i int, u uint64) bool {
			if uidCmd {
				return c09InSet(f[1], maxUID, u)
			}
			return c09InSet(f[1], maxSeq, uint64(i+1))
		}
		switch c.Kind {
		case "SEARCH":
			// SEARCH [UID] LARGER|SMALLER n alone: exactly the messages whose size is above/below n
			if len(f) == 3 && (f[1] == "LARGER" || f[1] == "SMALLER") {
				var n uint64
				fmt.Sscan(f[2], &n)
				var want []uint64
				for i, u := range after.UIDs {
					if (f[1] == "LARGER" && after.Size[u] > n) || (f[1] == "SMALLER" && after.Size[u] < n) {
						if uidCmd {
							want = append(want, u)
						} else {
							want = append(want, uint64(i+1))
						}
					}
				}
				for _, d := range res.Data {
					if d.K == "SEARCH" && fmt.Sprint(d.Nums) != fmt.Sprint(want) {
						sig := "c09/search-size-wrong"
						if n == 0 {
							sig = "c09/search-size-zero" // SearchCriteria encodes "unset" as 0
						}
						fail(sig, fmt.Sprintf("%q returned %v, the sizes %v say %v", c.Line, d.Nums, after.Size, want), step)
					}
				}
			}
		case "DELETE":
			if c.Line == "DELETE dst" {
				seenUV["old"] = append(seenUV["old"], seenUV["dst"]...)
				seenUV["dst"] = nil
			}
		case "STORE":
			if fmt.Sprint(before.UIDs) != fmt.Sprint(after.UIDs) {
				fail("c09/store-changed-list", "STORE changed the message list", step)
				return true
			}
			item := strings.ToUpper(f[2])
			flagTxt := strings.Trim(strings.Join(f[3:], " "), "()")
			fl := strings.Fields(flagTxt)
			for i, u := range before.UIDs {
				old, now := before.Flags[u], after.Flags[u]
				var want []string
				if !addressed(i, u) {
					want = old
				} else {
					switch {
					case strings.HasPrefix(item, "+"):
						want = append(append([]string{}, old...), fl...)
					case strings.HasPrefix(item, "-"):
						for _, x := range old {
							if !c09HasFold(fl, x) {
								want = append(want, x)
							}
						}
					default:
						want = fl
					}
				}
				if !c09SameFlagsFold(want, now) {
					fail("c09/store-wrong", fmt.Sprintf("after %q message UID %d (seq %d) has flags %v, expected %v (addressed=%v, before %v)", c.Line, u, i+1, now, want, addressed(i, u), old), step)
				}
			}
		case "EXPUNGE":
			var want []uint64
			for _, u := range before.UIDs {
				del := c09HasFold(before.Flags[u], `\Deleted`)
				if uidCmd {
					del = del && c09InSet(f[1], maxUID, u)
				}
				if !del {
					want = append(want, u)
				}
			}
			if fmt.Sprint(want) != fmt.Sprint(after.UIDs) {
				fail("c09/expunge-wrong", fmt.Sprintf("after %q the mailbox holds UIDs %v, expected %v (before %v, flags %v)", c.Line, after.UIDs, want, before.UIDs, before.Flags), step)
			}
		case "MOVE", "COPY":
			var want, moved []uint64
			for i, u := range before.UIDs {
				if addressed(i, u) {
					moved = append(moved, u)
					if c.Kind == "COPY" {
						want = append(want, u)
					}
				} else {
					want = append(want, u)
				}
			}
			if fmt.Sprint(want) != fmt.Sprint(after.UIDs) {
				fail("c09/"+strings.ToLower(c.Kind)+"-wrong", fmt.Sprintf("after %q the source holds UIDs %v, expected %v (before %v)", c.Line, after.UIDs, want, before.UIDs), step)
			}
			src, dst := res.Src, res.Dst
			for _, d := range res.Data {
				if d.K == "COPYUID" {
					src, dst = d.Src, d.Dst
				}
			}
			if fmt.Sprint(src) != fmt.Sprint(moved) && !(len(moved) == 0 && len(src) == 0) {
				fail("c09/copyuid-wrong", fmt.Sprintf("%q: COPYUID source %v, addressed %v", c.Line, src, moved), step)
			}
			if len(dst) != len(src) {
				fail("c09/copyuid-wrong", fmt.Sprintf("%q: COPYUID %v -> %v", c.Line, src, dst), step)
			}
		case "STATUS":
			if strings.Contains(c.Line, "INBOX") || strings.Contains(strings.ToUpper(c.Line), "INBOX") {
				for _, d := range res.Data {
					if d.K != "STATUS" {
						continue
					}
					unseen, deleted, size, dsize := 0, 0, uint64(0), uint64(0)
					for _, u := range after.UIDs {
						if !c09HasFold(after.Flags[u], `\Seen`) {
							unseen++
						}
						if c09HasFold(after.Flags[u], `\Deleted`) {
							deleted++
							dsize += after.Size[u]
						}
						size += after.Size[u]
					}
					want := map[string]string{"MESSAGES": fmt.Sprint(len(after.UIDs)), "UNSEEN": fmt.Sprint(unseen), "DELETED": fmt.Sprint(deleted),
						"SIZE": fmt.Sprint(size), "DELETED-STORAGE": fmt.Sprint(dsize), "RECENT": "0"}
					for _, kv := range d.Items {
						if w, ok := want[kv[0]]; ok && w != kv[1] {
							fail("c09/status-wrong", fmt.Sprintf("%q: %s %s, the message list says %s", c.Line, kv[0], kv[1], w), step)
						}
					}
				}
			}
			if strings.Contains(c.Line, "STATUS dst (UIDVALIDITY") {
				for _, d := range res.Data {
					for _, kv := range d.Items {
						if kv[0] == "UIDVALIDITY" {
							var v uint64
							fmt.Sscan(kv[1], &v)
							for _, old := range seenUV["old"] {
								if old == v {
									fail("c09/uidvalidity-reused", fmt.Sprintf("dst was deleted and created again and has UIDVALIDITY %d again", v), step)
								}
							}
							seenUV["dst"] = append(seenUV["dst"], v)
						}
					}
				}
			}
		case "APPEND":
			if strings.HasPrefix(c.Line, "APPEND INBOX") || strings.HasPrefix(strings.ToUpper(c.Line), "APPEND INBOX") || strings.HasPrefix(strings.ToUpper(c.Line), `APPEND "INBOX"`) {
				if len(after.UIDs) != len(before.UIDs)+1 || res.Code != "APPENDUID" || after.UIDs[len(after.UIDs)-1] != res.UID || res.UID <= maxUID {
					fail("c09/appenduid", fmt.Sprintf("%q answered %s %d; UIDs before %v after %v", c09Clip(c.Line), res.Code, res.UID, before.UIDs, after.UIDs), step)
				} else if after.Size[res.UID] != uint64(len(c.Lit)) {
					fail("c09/append-size", fmt.Sprintf("appended %d octets, RFC822.SIZE %d", len(c.Lit), after.Size[res.UID]), step)
				}
			}
		}
		return true
	})
	_ = sort.Strings
	_ = bytes.Equal
	_ = os.Getenv
	_ = filepath.Join
}

// ---- section-heavy histories -------------------------------------------------------------------------------------

func (g *c09Gen) sectionCmds() []c09Cmd {
	cmds := []c09Cmd{c09Plain(0, "CREATE", "CREATE INBOX", "CCreate "+coqHxS("INBOX"))}
	n := 2 + g.r.Intn(3)
	for i := 0; i < n; i++ {
		var m []byte
		switch g.r.Intn(6) {
		case 0:
			m = g.message()
		case 1:
			m = []byte("Content-Type: message/rfc822\r\nSubject: outer\r\n\r\n" + g.multipart(1, false))
		default:
			m = []byte(g.multipart(2, g.r.Intn(5) == 0))
		}
		cmds = append(cmds, g.appendCmd(0, "INBOX", "INBOX", m))
	}
	cmds = append(cmds, c09Plain(0, "SELECT", "SELECT INBOX", "CSelect "+coqHxS("INBOX")+" false"))
	for i := 0; i < 6+g.r.Intn(5); i++ {
		var secs []*c09Section
		for j := 0; j <= g.r.Intn(3); j++ {
			s := g.section()
			s.Peek = g.r.Intn(6) != 0
			if s.Obs != "" {
				s.Peek = s.Obs == "RFC822.HEADER"
			}
			secs = append(secs, s)
		}
		cmds = append(cmds, c09FetchFixed(g.r.Intn(4) == 0, g.pick([]string{"1:*", "1:*", "1", "2", "*", "2:3"}), secs, g.r.Intn(3) == 0))
	}
	return cmds
}

// ---- crash probes -----------------------------------------------------------------------------------------------------

func (g *c09Gen) probeLines() []string {
	lit := func(cmd string, msg string) string { return fmt.Sprintf("%s {%d}\x00%s", cmd, len(msg), msg) }
	lines := []string{"CREATE INBOX", "CREATE other"}
	for i := 0; i < 2+g.r.Intn(3); i++ {
		lines = append(lines, lit("APPEND INBOX (\\Deleted $x)", string(g.message())))
	}
	lines = append(lines, lit("APPEND INBOX", ""), "SELECT INBOX")
	bigs := []string{"0", "1", "4294967295", "4294967296", "9223372036854775807", "2147483648"}
	nums := []string{"1", "2", "*", "4294967295", "4294967294"}
	num := func() string { return nums[g.r.Intn(len(nums))] }
	big := func() string { return bigs[g.r.Intn(len(bigs))] }
	set := func() string {
		switch g.r.Intn(4) {
		case 0:
			return num() + ":" + num()
		case 1:
			return num() + "," + num() + ":" + num()
		case 2:
			return "1:*"
		}
		return num()
	}
	part := func() string {
		var p []string
		for i := 0; i <= g.r.Intn(12); i++ {
			p = append(p, g.pick([]string{"1", "2", "0", "4294967295", "3"}))
		}
		return strings.Join(p, ".")
	}
	for i := 0; i < 25; i++ {
		uid := ""
		if g.r.Intn(3) == 0 {
			uid = "UID "
		}
		switch g.r.Intn(16) {
		case 0:
			lines = append(lines, uid+"FETCH "+set()+" (BODY.PEEK[]<"+big()+"."+big()+"> BODY.PEEK[TEXT]<"+big()+"."+big()+">)")
		case 1:
			lines = append(lines, uid+"FETCH "+set()+" (BODY.PEEK["+part()+"] BODY.PEEK["+part()+".MIME] BODY.PEEK["+part()+".HEADER]<"+big()+"."+big()+">)")
		case 2:
			lines = append(lines, uid+"FETCH "+set()+" "+g.pick([]string{"ALL", "FULL", "FAST", "BODYSTRUCTURE", "BODY", "ENVELOPE", "(ENVELOPE BODYSTRUCTURE BODY INTERNALDATE)", "BINARY[]", "BINARY.PEEK[1]<0.10>", "BINARY.SIZE[1.2]"}))
		case 3:
			lines = append(lines, uid+"SEARCH "+g.pick([]string{"LARGER", "SMALLER"})+" "+big())
		case 4:
			lines = append(lines, uid+"SEARCH "+strings.Repeat("NOT ", 1+g.r.Intn(40))+"SEEN")
		case 5:
			k := "ALL"
			for j := 0; j < 1+g.r.Intn(25); j++ {
				k = "OR " + k + " (UID " + set() + " " + set() + ")"
			}
			lines = append(lines, uid+"SEARCH "+k)
		case 6:
			lines = append(lines, uid+"SEARCH RETURN ("+g.pick([]string{"", "MIN", "MAX COUNT", "ALL MIN MAX COUNT", "SAVE"})+") "+set()+" UID "+set())
		case 7:
			lines = append(lines, "STATUS INBOX "+c09AllStatusW, `LIST "" `+g.pick([]string{"%*%*%*%*%*", "*%*%*a*%*/*", `"%/%/%/%"`})+` RETURN (STATUS `+c09AllStatusW+` SUBSCRIBED CHILDREN)`)
		case 8:
			lines = append(lines, uid+"STORE "+set()+" "+g.pick([]string{"FLAGS", "+FLAGS.SILENT", "-FLAGS"})+" "+g.pick([]string{"()", `(\Seen \seen \SEEN)`, "a b c", `\Deleted`}))
		case 9:
			lines = append(lines, uid+"COPY "+set()+" "+g.pick([]string{"INBOX", "other", "nosuch"}), uid+"MOVE "+set()+" "+g.pick([]string{"INBOX", "other", "nosuch"}))
		case 10:
			lines = append(lines, "UID EXPUNGE "+set(), "EXPUNGE")
		case 11:
			lines = append(lines, "RENAME INBOX moved", "RENAME moved INBOX", "DELETE other", "CREATE other/", "SUBSCRIBE other", `LSUB "" *`)
		case 12:
			lines = append(lines, uid+"FETCH "+set()+" (BODY.PEEK[HEADER.FIELDS ("+g.pick([]string{"a", `"" x`, "subject SUBJECT Subject", `"x y" {3+}` + "\r\nabc"})+")])")
		case 13:
			lines = append(lines, "EXAMINE INBOX", "CLOSE", "SELECT INBOX", "SELECT nosuch", "SELECT INBOX")
		case 14:
			lines = append(lines, uid+"SEARCH "+g.pick([]string{"SINCE 1-Jan-0001", "BEFORE 31-Dec-9999", "ON 29-Feb-2020", "SENTSINCE 1-Jan-1970", "SENTBEFORE 1-Jan-0001"})+" "+g.pick([]string{"HEADER \"\" \"\"", "HEADER x \"\"", "TEXT \"\"", "BODY \"\"", "KEYWORD $x UNKEYWORD $x"}))
		default:
			lines = append(lines, uid+"FETCH "+set()+" (UID FLAGS RFC822.SIZE RFC822 RFC822.HEADER RFC822.TEXT)")
		}
	}
	return lines
}
