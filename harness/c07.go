package main

import (
	"encoding/json"
	"fmt"
	"os"
	"regexp"
	"strconv"
	"strings"

	imap "github.com/emersion/go-imap/v2"
	"github.com/emersion/go-imap/v2/imapserver"
)

func init() { runners["C07"] = runC07 }

type trOp struct {
	K     string `json:"k"` // new close num expunge mflags fflags poll
	Sid   int    `json:"sid,omitempty"`
	N     uint32 `json:"n,omitempty"`
	UID   uint32 `json:"uid,omitempty"`
	Src   int    `json:"src,omitempty"` // 0 = nil source
	Allow bool   `json:"allow,omitempty"`
}

func (o trOp) coq() string {
	switch o.K {
	case "new":
		return fmt.Sprintf("ONewSession %d", o.Sid)
	case "close":
		return fmt.Sprintf("OClose %d", o.Sid)
	case "num":
		return fmt.Sprintf("OQueueNum %d", o.N)
	case "expunge":
		return fmt.Sprintf("OQueueExpunge %d", o.N)
	case "mflags":
		return "OQueueMboxFlags 0"
	case "fflags":
		src := "None"
		if o.Src != 0 {
			src = fmt.Sprintf("(Some %d)", o.Src)
		}
		return fmt.Sprintf("OQueueMsgFlags %d %d 0 %s", o.N, o.UID, src)
	case "poll":
		return fmt.Sprintf("OPoll %d %s", o.Sid, coqBool(o.Allow))
	}
	panic("bad op")
}

type eUpd struct {
	Kind int    `json:"kind"` // 1 expunge 2 exists 3 flags 4 fetch
	A, B uint32 `json:"-"`
	Desc string `json:"d"`
}

var (
	reExpunge = regexp.MustCompile(`^\* (\d+) EXPUNGE$`)
	reExists  = regexp.MustCompile(`^\* (\d+) EXISTS$`)
	reFlags   = regexp.MustCompile(`^\* FLAGS \(`)
	reFetch   = regexp.MustCompile(`^\* (\d+) FETCH \((?:UID (\d+) )?FLAGS \(`)
)

func parseUpdates(lines []string) ([]eUpd, error) {
	var out []eUpd
	u32 := func(s string) uint32 { v, _ := strconv.ParseUint(s, 10, 32); return uint32(v) }
	for _, l := range lines {
		if m := reExpunge.FindStringSubmatch(l); m != nil {
			out = append(out, eUpd{1, u32(m[1]), 0, l})
		} else if m := reExists.FindStringSubmatch(l); m != nil {
			out = append(out, eUpd{2, u32(m[1]), 0, l})
		} else if reFlags.MatchString(l) {
			out = append(out, eUpd{3, 0, 0, l})
		} else if m := reFetch.FindStringSubmatch(l); m != nil {
			out = append(out, eUpd{4, u32(m[1]), u32(m[2]), l})
		} else {
			return out, fmt.Errorf("unexpected untagged line %q", l)
		}
	}
	return out, nil
}

// one client connection whose stub session delegates Poll to a tracker session
type trSess struct {
	sid  int
	rc   *rawConn
	st   *imapserver.SessionTracker
	view []int // oracle: ids the client currently sees
	told int   // oracle: how many appended ids the client has been told about (index in appendLog)
}

type c07Env struct {
	h    *H
	ts   *testServer
	pool []*rawConn
	poll map[*stubSession]*imapserver.SessionTracker
}

func runC07(h *H) {
	imports := []string{"From GoImap.Base Require Import Bytes.", "From GoImap.Model Require Import Tracker TrackerCorr."}
	corr := h.NewCorr("tracker", imports, "tr_mismatches", 150).Type("tr_case")
	h.Rule("histories of NewSession/Close/QueueNumMessages(+k, k in 0..3)/QueueExpunge/QueueMessageFlags(with and without source)/QueueMailboxFlags/Poll(allow in {true,false}) on the real MailboxTracker with up to 3 sessions; Poll is driven through a real server connection (NOOP => allowExpunge, FETCH => not) and the emitted updates are read off the wire; Decode/EncodeSeqNum are queried for every number 0..K on every live session after every step. Corpus, exhaustive short histories, seeded random up to 25 steps. Non-trivial = at least one poll happened while the queue held an expunge, or an append of k>=2 was pending; distinct by history.")

	// every connection gets its own stub; the harness attaches a tracker session to it later
	attach := map[*stubSession]*imapserver.SessionTracker{}
	var stubs []*stubSession
	ts := startServer(srvOpts{InsecureAuth: true, Configure: func(s *stubSession) {
		stubs = append(stubs, s)
		s.onPoll = func(w *imapserver.UpdateWriter, allow bool) error {
			ts := attach[s]
			if ts == nil {
				return nil
			}
			return ts.Poll(w, allow)
		}
	}})
	defer ts.Close()
	type connStub struct {
		rc *rawConn
		s  *stubSession
	}
	var free []connStub
	getConn := func() connStub {
		if len(free) > 0 {
			c := free[len(free)-1]
			free = free[:len(free)-1]
			return c
		}
		rc := ts.dial()
		rc.greeting()
		rc.cmd("LOGIN u p")
		rc.cmd("SELECT INBOX")
		return connStub{rc, ts.lastSession()}
	}

	runHistory := func(n0 uint32, ops []trOp, src string) {
		h.InFlight(map[string]interface{}{"n0": n0, "ops": ops})
		mt := imapserver.NewMailboxTracker(n0)
		sessions := map[int]*trSess{}
		conns := map[int]connStub{}
		var order []int
		// oracle state
		var L []int
		nextID := 0
		var appendLog []int
		for i := uint32(0); i < n0; i++ {
			L = append(L, nextID)
			nextID++
		}
		K := n0 + 2
		for _, o := range ops {
			if o.K == "num" && o.N+2 > K {
				K = o.N + 2
			}
		}
		nontrivial := false
		pendingBig := false
		var steps []string
		var observed []map[string]interface{}
		for i, o := range ops {
			desc := map[string]interface{}{"n0": n0, "ops": ops[:i+1]}
			h.InFlight(desc)
			kind := 0
			var em []eUpd
			func() {
				defer func() {
					if r := recover(); r != nil {
						kind = 1
					}
				}()
				switch o.K {
				case "new":
					cs := getConn()
					st := mt.NewSession()
					attach[cs.s] = st
					conns[o.Sid] = cs
					sessions[o.Sid] = &trSess{sid: o.Sid, rc: cs.rc, st: st, view: append([]int(nil), L...), told: len(appendLog)}
					order = append(order, o.Sid)
				case "close":
					if s := sessions[o.Sid]; s != nil {
						s.st.Close()
						attach[conns[o.Sid].s] = nil
						free = append(free, conns[o.Sid])
						delete(sessions, o.Sid)
						delete(conns, o.Sid)
						for k, v := range order {
							if v == o.Sid {
								order = append(order[:k], order[k+1:]...)
								break
							}
						}
					}
				case "num":
					mt.QueueNumMessages(o.N)
					if int(o.N) > len(L) {
						if int(o.N)-len(L) >= 2 && len(sessions) > 0 {
							pendingBig = true
						}
						for len(L) < int(o.N) {
							L = append(L, nextID)
							appendLog = append(appendLog, nextID)
							nextID++
						}
					}
				case "expunge":
					mt.QueueExpunge(o.N)
					L = append(L[:o.N-1:o.N-1], L[o.N:]...)
				case "mflags":
					mt.QueueMailboxFlags([]imap.Flag{imap.FlagSeen})
				case "fflags":
					var srcT *imapserver.SessionTracker
					if s := sessions[o.Src]; s != nil {
						srcT = s.st
					}
					// the UID written with the update names the message the flags belong to
					// (oracle: it must be the message the client has at that number)
					if o.N >= 1 && int(o.N) <= len(L) {
						o.UID = uint32(L[o.N-1] + 1)
					} else if o.UID < 1000 {
						o.UID += 1000
					}
					ops[i].UID = o.UID
					mt.QueueMessageFlags(o.N, imap.UID(o.UID), []imap.Flag{imap.FlagSeen}, srcT)
				case "poll":
					s := sessions[o.Sid]
					if s == nil {
						return
					}
					line := "NOOP"
					if !o.Allow {
						line = "FETCH 1 FLAGS"
					}
					un, tagged, err := s.rc.cmd(line)
					if err != nil || respClass(tagged) != "OK" {
						panic(fmt.Sprintf("poll command failed: %q %v", tagged, err))
					}
					var perr error
					em, perr = parseUpdates(un)
					if perr != nil {
						h.Fail("poll-output", perr.Error(), desc)
					}
					kind = 2
					// oracle: apply the updates to the client's view
					for _, u := range em {
						switch u.Kind {
						case 1:
							if !o.Allow {
								h.Fail("expunge-when-disallowed", fmt.Sprintf("EXPUNGE %d emitted by Poll(allowExpunge=false)", u.A), desc)
							}
							if u.A == 0 || int(u.A) > len(s.view) {
								h.Fail("expunge-out-of-view", fmt.Sprintf("EXPUNGE %d but the client sees %d messages", u.A, len(s.view)), desc)
							} else {
								s.view = append(s.view[:u.A-1:u.A-1], s.view[u.A:]...)
								nontrivial = true
							}
						case 4:
							if u.B >= 1 && u.B < 1000 && (u.A == 0 || int(u.A) > len(s.view) || s.view[u.A-1] != int(u.B)-1) {
								h.Fail("flags-for-wrong-message", fmt.Sprintf("%q: the flags belong to message id %d, but the client's view at that point is %v (number %d is another message)", u.Desc, u.B-1, s.view, u.A), desc)
							}
						case 2:
							if int(u.A) < len(s.view) {
								h.Fail("exists-shrinks", fmt.Sprintf("EXISTS %d but the client sees %d messages", u.A, len(s.view)), desc)
							}
							for len(s.view) < int(u.A) && s.told < len(appendLog) {
								s.view = append(s.view, appendLog[s.told])
								s.told++
							}
						}
					}
					if o.Allow && fmt.Sprint(s.view) != fmt.Sprint(L) {
						h.Fail("replay-differs", fmt.Sprintf("after a full poll the client's reconstructed view %v differs from the mailbox %v", s.view, L), desc)
					}
				}
			}()
			// observations + oracle for the translations
			var sobs []string
			obsJ := map[string]interface{}{"op": o, "kind": kind, "emitted": em}
			for _, sid := range order {
				s := sessions[sid]
				var ds, es []string
				var dj, ej []uint32
				for q := uint32(0); q <= K; q++ {
					d := s.st.DecodeSeqNum(q)
					e := s.st.EncodeSeqNum(q)
					ds = append(ds, coqN(uint64(d)))
					es = append(es, coqN(uint64(e)))
					dj = append(dj, d)
					ej = append(ej, e)
					if q >= 1 && int(q) <= len(s.view) {
						want := uint32(0)
						for p, id := range L {
							if id == s.view[q-1] {
								want = uint32(p + 1)
							}
						}
						if d != want {
							h.Fail(fmt.Sprintf("decode-wrong:%v", want == 0), fmt.Sprintf("session %d: DecodeSeqNum(%d)=%d, the client's message %d is at server position %d", sid, q, d, q, want), desc)
						}
					}
					if q >= 1 {
						want := uint32(0)
						if int(q) <= len(L) {
							for p, id := range s.view {
								if id == L[q-1] {
									want = uint32(p + 1)
								}
							}
						}
						if e != want {
							cls := "other"
							if want == 0 && e != 0 {
								cls = "unknown-message-visible"
							}
							h.Fail("encode-wrong:"+cls, fmt.Sprintf("session %d: EncodeSeqNum(%d)=%d, correct client-side number is %d (0 = client has not been told)", sid, q, e, want), desc)
						}
					}
				}
				if pendingBig {
					nontrivial = true
				}
				sobs = append(sobs, fmt.Sprintf("(%d, %s, %s)", sid, coqList(ds), coqList(es)))
				obsJ[fmt.Sprintf("s%d", sid)] = map[string]interface{}{"decode": dj, "encode": ej}
			}
			var ems []string
			for _, u := range em {
				ems = append(ems, fmt.Sprintf("(%d, %d, %d)", u.Kind, u.A, u.B))
			}
			steps = append(steps, fmt.Sprintf("(%s, (%d, %s), %s)", o.coq(), kind, coqList(ems), coqList(sobs)))
			observed = append(observed, obsJ)
		}
		// release sessions
		for sid, s := range sessions {
			s.st.Close()
			attach[conns[sid].s] = nil
			free = append(free, conns[sid])
		}
		key := ""
		if nontrivial {
			key = fmt.Sprintf("%d|%v", n0, ops)
		}
		h.Eval(key)
		h.Hist("src:" + src)
		h.Hist(fmt.Sprintf("len:%d", len(ops)))
		corr.Add(fmt.Sprintf("(%d, %d, %s)", n0, K, coqList(steps)), map[string]interface{}{"n0": n0, "ops": ops, "observed": observed})
		if nontrivial && h.Rng.Intn(40) == 0 {
			h.Sample(map[string]interface{}{"n0": n0, "ops": ops})
		}
	}

	if h.Replay != "" {
		var wrap struct {
			Case struct {
				N0  uint32 `json:"n0"`
				Ops []trOp `json:"ops"`
			} `json:"case"`
		}
		b, _ := os.ReadFile(h.Replay)
		json.Unmarshal(b, &wrap)
		runHistory(wrap.Case.N0, wrap.Case.Ops, "replay")
		return
	}

	N := func(sid int) trOp { return trOp{K: "new", Sid: sid} }
	P := func(sid int, allow bool) trOp { return trOp{K: "poll", Sid: sid, Allow: allow} }
	Q := func(n uint32) trOp { return trOp{K: "num", N: n} }
	X := func(k uint32) trOp { return trOp{K: "expunge", N: k} }
	// corpus
	runHistory(5, []trOp{N(1), Q(7)}, "corpus")
	runHistory(5, []trOp{N(1), Q(7), X(6), P(1, false), P(1, true)}, "corpus")
	runHistory(3, []trOp{N(1), Q(5), X(2), {K: "fflags", N: 1, UID: 9}, P(1, false)}, "corpus")
	runHistory(3, []trOp{N(1), Q(3), P(1, true)}, "corpus")
	runHistory(3, []trOp{N(1), X(3), Q(3), X(1), P(1, false), Q(4), P(1, true)}, "corpus")
	runHistory(2, []trOp{N(1), N(2), X(1), P(1, true), Q(3), {K: "fflags", N: 2, UID: 5, Src: 1}, P(2, false), P(2, true), P(1, true)}, "corpus")
	runHistory(0, []trOp{N(1), Q(2), X(1), X(1), Q(1), P(1, true)}, "corpus")
	runHistory(2, []trOp{N(1), X(3), X(0), Q(1)}, "corpus")
	// exhaustive short histories over a small alphabet, one session pre-created
	// flag changes around an expunge of the same number: the two changes concern different
	// messages and neither may be moved across the expunge
	F := func(n uint32, src int) trOp { return trOp{K: "fflags", N: n, UID: 1, Src: src} }
	for _, x := range []uint32{1, 2, 3, 4, 5} {
		for _, src := range []int{0, 1, 2} {
			runHistory(5, []trOp{N(1), N(2), F(3, src), X(x), F(3, src), P(1, true), P(2, false), P(2, true)}, "corpus-flags-around-expunge")
			runHistory(5, []trOp{N(1), F(3, src), F(3, src), X(x), F(2, src), F(3, src), P(1, false), P(1, true)}, "corpus-flags-around-expunge")
		}
	}
	alpha := []trOp{Q(3), Q(4), Q(5), X(1), X(2), X(3), P(1, true), P(1, false), {K: "fflags", N: 1, UID: 1, Src: 1}, N(2), P(2, true), {K: "close", Sid: 2}}
	depth := h.Pick(3, 4)
	var rec func(prefix []trOp)
	rec = func(prefix []trOp) {
		if len(prefix) == depth {
			// skip histories that create session 2 twice
			c := 0
			for _, o := range prefix {
				if o.K == "new" {
					c++
				}
			}
			if c > 1 {
				return
			}
			runHistory(3, append([]trOp{N(1)}, prefix...), "exhaustive")
			return
		}
		for _, o := range alpha {
			rec(append(prefix, o))
		}
	}
	rec(nil)
	h.Note("exhaustive: all %d^%d histories over the %d-op alphabet after NewSession (minus duplicate-session ones)", len(alpha), depth, len(alpha))
	// random
	for i := 0; i < h.Pick(250, 4000); i++ {
		n0 := uint32(h.Rng.Intn(5))
		n := int(n0)
		var ops []trOp
		live := map[int]bool{}
		nextSid := 1
		for k := 3 + h.Rng.Intn(h.Pick(14, 25)); k > 0; k-- {
			switch r := h.Rng.Intn(12); {
			case r == 0 && nextSid <= 3:
				ops = append(ops, N(nextSid))
				live[nextSid] = true
				nextSid++
			case r == 1 && len(live) > 1:
				for sid := range live {
					ops = append(ops, trOp{K: "close", Sid: sid})
					delete(live, sid)
					break
				}
			case r <= 4:
				n += h.Rng.Intn(4)
				if n == 0 {
					n = 1
				}
				ops = append(ops, Q(uint32(n)))
			case r <= 7 && n > 0:
				ops = append(ops, X(uint32(1+h.Rng.Intn(n))))
				n--
			case r == 8:
				if h.Rng.Intn(2) == 0 {
					ops = append(ops, trOp{K: "mflags"})
				} else {
					f := trOp{K: "fflags", N: uint32(1 + h.Rng.Intn(n+1)), UID: uint32(1 + h.Rng.Intn(9)), Src: h.Rng.Intn(nextSid)}
					ops = append(ops, f)
					if int(f.N) <= n && n > 1 && h.Rng.Intn(3) == 0 {
						// the same number again after it has been expunged (now another message)
						ops = append(ops, X(f.N))
						n--
						if int(f.N) <= n {
							ops = append(ops, f)
						}
					}
				}
			default:
				if nextSid == 1 {
					ops = append(ops, N(nextSid))
					live[nextSid] = true
					nextSid++
				} else {
					ops = append(ops, P(1+h.Rng.Intn(nextSid-1), h.Rng.Intn(2) == 0))
				}
			}
		}
		runHistory(n0, ops, "random")
	}
	_ = strings.TrimSpace
}
