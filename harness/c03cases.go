package main

// C03: one driver per command family (see c03.go).

import (
	"bytes"
	"fmt"
	"mime"
	netmail "net/mail"
	"sort"
	"strings"
	"time"
	"unicode/utf8"

	imap "github.com/emersion/go-imap/v2"
	"github.com/emersion/go-imap/v2/imapserver"
)

// emit adds one correspondence case.  wireOK=false: the stub saw a writer error or panic.
func (x *c3Ctx) emit(term string, desc map[string]interface{}) {
	x.corr.Add(term, desc)
}
func coqWire(wire []byte, ok bool) string { return c3Cksum(wire, ok) }

func c3Short(b []byte) string {
	if len(b) > 600 {
		return fmt.Sprintf("%q...(%d bytes)", b[:600], len(b))
	}
	return fmt.Sprintf("%q", b)
}

// ---- FETCH --------------------------------------------------------------------------------

type c3FetchSpec struct {
	UID      bool     `json:"uid"`
	BodyMode int      `json:"body_mode"` // 0 not requested, 1 BODY, 2 BODYSTRUCTURE
	Req      c3Set    `json:"req"`
	Msgs     []c3Msgd `json:"msgs"`
}

func (x *c3Ctx) genFetch() *c3FetchSpec {
	g := x.g
	sp := &c3FetchSpec{UID: g.p(30), BodyMode: []int{0, 1, 2, 2}[g.n(4)]}
	n := []int{1, 1, 1, 1, 2, 3}[g.n(6)]
	seq := uint32(1 + g.n(3))
	used := map[uint32]bool{}
	for i := 0; i < n; i++ {
		uid := uint32(10 + g.n(50))
		for used[uid] {
			uid++
		}
		used[uid] = true
		uidFirst := sp.UID && g.p(96)
		m := c3Msgd{Seq: seq, Items: g.items(uidFirst, uid)}
		if uidFirst && len(m.Items) > 1 && g.p(15) {
			// the backend writes the UID later (possibly after a literal or after 32 items)
			j := 1 + g.n(len(m.Items)-1)
			u := m.Items[0]
			copy(m.Items, m.Items[1:j+1])
			m.Items[j] = u
		}
		sp.Msgs = append(sp.Msgs, m)
		if g.p(97) {
			seq += uint32(1 + g.n(3))
		}
		if g.p(1) {
			seq = 0
		}
	}
	// the requested set: normally covers what the backend returns
	switch r := g.n(100); {
	case r < 45:
		sp.Req = c3Set{{1, 0}} // 1:*
	case r < 95:
		s := c3Set{}
		var keys []uint32
		for _, m := range sp.Msgs {
			k := m.Seq
			if sp.UID {
				k = 0
				for _, it := range m.Items {
					if it.Kind == "uid" {
						k = uint32(it.N)
						break
					}
				}
			}
			if k != 0 {
				keys = append(keys, k)
			}
		}
		sort.Slice(keys, func(i, j int) bool { return keys[i] < keys[j] })
		for _, k := range keys {
			if len(s) > 0 && s[len(s)-1][1]+1 >= k {
				if k > s[len(s)-1][1] {
					s[len(s)-1][1] = k
				}
			} else {
				s = append(s, [2]uint32{k, k})
			}
		}
		if len(s) == 0 {
			s = c3Set{{1, 1}}
		}
		sp.Req = s
	default:
		sp.Req = c3Set{{1, 1}}
	}
	return sp
}

func c3WriteItems(mw *imapserver.FetchResponseWriter, items []*c3Item) error {
	for _, it := range items {
		switch it.Kind {
		case "uid":
			mw.WriteUID(imap.UID(it.N))
		case "flags":
			mw.WriteFlags(c3ImapFlags(it.Flags))
		case "size":
			mw.WriteRFC822Size(it.Z)
		case "idate":
			mw.WriteInternalDate(it.Time.goTime())
		case "env":
			mw.WriteEnvelope(it.Env.imap())
		case "body":
			mw.WriteBodyStructure(it.BS.imap())
		case "section":
			wc := mw.WriteBodySection(it.Sec.imap(), int64(len(it.Data)))
			if _, err := wc.Write(it.Data); err != nil {
				return err
			}
			if err := wc.Close(); err != nil {
				return err
			}
		case "binary":
			wc := mw.WriteBinarySection(&imap.FetchItemBinarySection{Part: it.Part}, int64(len(it.Data)))
			if _, err := wc.Write(it.Data); err != nil {
				return err
			}
			if err := wc.Close(); err != nil {
				return err
			}
		case "binsize":
			mw.WriteBinarySectionSize(&imap.FetchItemBinarySection{Part: it.Part}, uint32(it.N))
		}
	}
	return nil
}

func c3ItemShape(it *c3Item) string {
	switch it.Kind {
	case "env":
		if it.Env == nil {
			return "env0"
		}
		return fmt.Sprintf("env%d%d", len(it.Env.InReplyTo), len(it.Env.Subject)%7)
	case "body":
		return "bs" + c3BSShape(it.BS)
	case "section":
		return fmt.Sprintf("sec%s%d/%d", it.Sec.Spec, len(it.Sec.Part), c3SizeClass(len(it.Data)))
	case "binary":
		return fmt.Sprintf("bin%d/%d", len(it.Part), c3SizeClass(len(it.Data)))
	case "flags":
		return fmt.Sprintf("fl%d", len(it.Flags))
	}
	return it.Kind
}
func c3SizeClass(n int) int {
	switch {
	case n == 0:
		return 0
	case n < 4096:
		return 1
	case n == 4096:
		return 2
	case n < 10000:
		return 3
	}
	return 4
}
func c3BSShape(b *c3BS) string {
	if b.Multi {
		s := "M("
		for _, c := range b.Children {
			s += c3BSShape(c)
		}
		return s + ")"
	}
	s := "s"
	if b.Msg != nil {
		s = "m[" + c3BSShape(b.Msg.Body) + "]"
	} else if b.Text != nil {
		s = "t"
	}
	if b.Ext != nil {
		s += "x"
	}
	return s
}

func (x *c3Ctx) fetchCase(fixed *c3FetchSpec) {
	h := x.h
	c := x.ensureSelected()
	sp := fixed
	if sp == nil {
		sp = x.genFetch()
	}
	h.InFlight(map[string]interface{}{"family": "fetch", "rev2": x.rev2, "utf8": x.utf8, "spec": sp})
	handlerDone := make(chan struct{})
	c.sess.onFetch = func(w *imapserver.FetchWriter, numSet imap.NumSet, options *imap.FetchOptions) (err error) {
		defer close(handlerDone)
		defer func() {
			if r := recover(); r != nil {
				c.setSrvErr()
				panic(r) // imapserver logs the panic and closes the connection
			}
		}()
		for _, m := range sp.Msgs {
			mw := w.CreateMessage(m.Seq)
			werr := c3WriteItems(mw, m.Items)
			cerr := mw.Close()
			if werr != nil || cerr != nil {
				c.setSrvErr()
				if werr != nil {
					return werr
				}
				return cerr
			}
		}
		return nil
	}
	opts := &imap.FetchOptions{Flags: true}
	switch sp.BodyMode {
	case 1:
		opts.BodyStructure = &imap.FetchItemBodyStructure{Extended: false}
	case 2:
		opts.BodyStructure = &imap.FetchItemBodyStructure{Extended: true}
	}
	var req imap.NumSet = sp.Req.seq()
	if sp.UID {
		req = sp.Req.uid()
	}
	var obs []c3Msgd
	var cerr error
	done := c.run(15*time.Second, func() {
		cmd := c.client.Fetch(req, opts)
		for {
			msg := cmd.Next()
			if msg == nil {
				break
			}
			md := c3Msgd{Seq: msg.SeqNum}
			for {
				it := msg.Next()
				if it == nil {
					break
				}
				ci, err := c3ItemOf(it)
				if err != nil && cerr == nil {
					cerr = err
				}
				if ci != nil {
					md.Items = append(md.Items, ci)
				}
			}
			obs = append(obs, md)
		}
		if err := cmd.Close(); err != nil {
			cerr = err
		}
	})
	c3WaitHandler(handlerDone)
	srvErr := c.takeSrvErr()
	wire, tag := c.finish(srvErr || cerr != nil || !done)
	desc := map[string]interface{}{"family": "fetch", "rev2": x.rev2, "utf8": x.utf8, "spec": sp, "wire": c3Short(wire), "srv_err": srvErr}
	if cerr != nil {
		desc["client_err"] = cerr.Error()
	}
	// what the property demands
	var want []c3Msgd
	inDomain := true
	seen := map[uint32]bool{}
	for _, m := range sp.Msgs {
		items, ok := c3NormItems(m.Items, sp.BodyMode)
		inDomain = inDomain && ok
		key := m.Seq
		if sp.UID {
			key = 0
			// the UID is written once, anywhere among the items ("all attribute combinations":
			// the order of the Write* calls is the backend's)
			nuid := 0
			for _, it := range m.Items {
				if it.Kind == "uid" {
					key = uint32(it.N)
					nuid++
				}
			}
			inDomain = inDomain && nuid == 1
		}
		inDomain = inDomain && key != 0 && !seen[key] && c3SetHas(sp.Req, key) && m.Seq != 0
		for _, it := range m.Items {
			if it.Kind == "uid" && it.N == 0 {
				inDomain = false
			}
		}
		seen[key] = true
		want = append(want, c3Msgd{Seq: m.Seq, Items: items})
	}
	shape := ""
	for _, m := range sp.Msgs {
		for _, it := range m.Items {
			shape += c3ItemShape(it) + ","
		}
		shape += ";"
	}
	key := fmt.Sprintf("fetch|%v%v|%d%v|%v|%s", x.rev2, x.utf8, sp.BodyMode, sp.UID, inDomain, shape)
	h.Eval(key)
	h.Hist(fmt.Sprintf("fetch:bodymode=%d", sp.BodyMode))
	if !inDomain {
		h.Hist("fetch:outside-domain")
		why := "routing"
		for _, m := range sp.Msgs {
			for _, it := range m.Items {
				if _, ok := c3NormItems([]*c3Item{it}, sp.BodyMode); !ok {
					why = it.Kind
				}
			}
		}
		h.Hist("fetch:outside-domain:" + why)
	}
	if srvErr {
		h.Hist("fetch:server-refused")
	}
	if !done {
		if inDomain && !srvErr {
			h.Fail("fetch-hang", "FETCH did not complete within 15 s", desc)
		}
		x.drop()
		return
	}
	if inDomain {
		switch {
		case srvErr:
			h.Fail("fetch-server-refuses-valid-data", "a writer call failed or panicked on data inside the domain", desc)
		case cerr != nil:
			h.Fail("fetch-client-error:"+c3ErrClass(cerr), "the client failed to decode the FETCH responses: "+cerr.Error(), desc)
		default:
			if d := c3Diff(want, c3TextNilIsZero(obs)); d != "" {
				desc["want"] = want
				desc["got"] = obs
				h.Fail("fetch-mismatch:"+d, "delivered FETCH data differs from the supplied data at "+d, desc)
			}
		}
	}
	var tb c3Tables
	for _, m := range sp.Msgs {
		for _, it := range m.Items {
			switch it.Kind {
			case "env":
				tb.env(it.Env)
			case "body":
				tb.bs(it.BS)
			case "idate":
				tb.time(it.Time)
			}
		}
	}
	tb.wire(wire)
	obsTerm := "None"
	if cerr == nil {
		obsTerm = "(Some " + coqMsgs(obs, true) + ")"
	}
	x.emit(fmt.Sprintf("KFetch %s %s %s %s %s %s %s %s %s %s", tb.coq(), coqBool(x.q()), coqBool(sp.BodyMode == 1), coqBool(sp.BodyMode == 2),
		coqBool(sp.UID), c3HxS(tag), sp.Req.coq(), coqMsgs(sp.Msgs, false), coqWire(wire, !srvErr), obsTerm), desc)
	if srvErr || cerr != nil {
		x.drop()
	}
	if len(h.samples) < 4 && inDomain {
		h.Sample(map[string]interface{}{"family": "fetch", "wire": c3Short(wire)})
	}
}

// c3WaitHandler waits until the stub's handler has returned: the client can fail on the first
// bytes of a broken response while the handler is still writing.
func c3WaitHandler(done chan struct{}) {
	select {
	case <-done:
	case <-time.After(2 * time.Second):
	}
}

func c3SetHas(s c3Set, n uint32) bool {
	for _, r := range s {
		if r[1] == 0 {
			if n >= r[0] {
				return true
			}
		} else if n >= r[0] && n <= r[1] {
			return true
		}
	}
	return false
}

func c3ErrClass(err error) string {
	s := err.Error()
	for _, k := range []string{"EOF", "expected", "unsupported", "closed", "timeout", "key without value", "in envelope", "in section"} {
		if strings.Contains(s, k) {
			return strings.ReplaceAll(k, " ", "-")
		}
	}
	return "other"
}

// ---- LIST (and LIST-STATUS) ------------------------------------------------------------------

func c3NormStatus(o *c3StatusOpts, s *c3Status) (*c3Status, bool) {
	ok := utf8.ValidString(s.Mailbox)
	out := &c3Status{Mailbox: c3NormMailbox(s.Mailbox)}
	// an item the backend leaves unset is not sent and is delivered unset
	if o.Messages {
		out.Messages = s.Messages
	}
	if o.UIDNext {
		out.UIDNext = s.UIDNext
	}
	if o.UIDValidity {
		out.UIDValidity = s.UIDValidity
	}
	if o.Unseen {
		out.Unseen = s.Unseen
	}
	if o.Deleted {
		out.Deleted = s.Deleted
	}
	if o.Size {
		out.Size = s.Size
		ok = ok && (s.Size == nil || *s.Size >= 0)
	}
	if o.DeletedStorage {
		out.DeletedStorage = s.DeletedStorage
		ok = ok && (s.DeletedStorage == nil || *s.DeletedStorage >= 0)
	}
	if o.AppendLimit {
		out.AppendLimit = s.AppendLimit
		if s.AppendLimit == nil { // "no limit" is delivered as the largest number
			m := uint32(4294967295)
			out.AppendLimit = &m
		}
	}
	return out, ok
}

func c3NormList(l *c3List, rs *c3StatusOpts) (*c3List, bool) {
	ok := c3DelimOK(l.Delim) && utf8.ValidString(l.Mailbox) && utf8.ValidString(l.OldName)
	out := &c3List{Delim: l.Delim, Mailbox: c3NormMailbox(l.Mailbox), ChildInfo: l.ChildInfo, OldName: c3NormMailbox(l.OldName)}
	for _, a := range l.Attrs {
		ok = ok && c3ValidAttr(a)
		out.Attrs = append(out.Attrs, c3Canon(c3KnownAttrs, c3Canon(c3KnownFlags, a)))
	}
	if rs != nil && l.Status != nil {
		st, o := c3NormStatus(rs, l.Status)
		ok = ok && o && st.Mailbox == out.Mailbox
		out.Status = st
	}
	return out, ok
}

func (x *c3Ctx) listCase(fixed []*c3List) {
	h, g := x.h, x.g
	c := x.get()
	var rs *c3StatusOpts
	if g.p(50) {
		rs = g.statusOpts()
	}
	var l []*c3List
	if fixed != nil {
		l = fixed
	} else {
		for i, n := 0, []int{0, 1, 1, 2, 3, 5}[g.n(6)]; i < n; i++ {
			l = append(l, g.listData(rs))
		}
	}
	spec := map[string]interface{}{"family": "list", "rev2": x.rev2, "utf8": x.utf8, "return_status": rs, "data": l}
	h.InFlight(spec)
	handlerDone := make(chan struct{})
	c.sess.onList = func(w *imapserver.ListWriter, ref string, patterns []string, options *imap.ListOptions) (err error) {
		defer close(handlerDone)
		defer func() {
			if r := recover(); r != nil {
				c.setSrvErr()
				panic(r)
			}
		}()
		for _, d := range l {
			if err := w.WriteList(d.imap()); err != nil {
				c.setSrvErr()
				return err
			}
		}
		return nil
	}
	var opts *imap.ListOptions
	if rs != nil {
		opts = &imap.ListOptions{ReturnStatus: rs.imap()}
	}
	var got []*imap.ListData
	var cerr error
	done := c.run(10*time.Second, func() { got, cerr = c.client.List("", "*", opts).Collect() })
	c3WaitHandler(handlerDone)
	srvErr := c.takeSrvErr()
	wire, tag := c.finish(srvErr || cerr != nil || !done)
	var obs []*c3List
	for _, d := range got {
		obs = append(obs, c3ListOf(d))
	}
	desc := map[string]interface{}{"spec": spec, "wire": c3Short(wire), "srv_err": srvErr}
	if cerr != nil {
		desc["client_err"] = cerr.Error()
	}
	inDomain := true
	var want []*c3List
	for _, d := range l {
		n, ok := c3NormList(d, rs)
		inDomain = inDomain && ok
		want = append(want, n)
	}
	shape := ""
	for _, d := range l {
		shape += fmt.Sprintf("%d%v%v%v,", len(d.Attrs), d.ChildInfo != nil, d.OldName != "", d.Status != nil)
	}
	h.Eval(fmt.Sprintf("list|%v%v|%v|%v|%s", x.rev2, x.utf8, rs != nil, inDomain, shape))
	h.Hist("list")
	if !done {
		if inDomain && !srvErr {
			h.Fail("list-hang", "LIST did not complete", desc)
		}
		x.drop()
		return
	}
	if inDomain {
		switch {
		case srvErr:
			h.Fail("list-server-refuses-valid-data", "WriteList failed on data inside the domain", desc)
		case cerr != nil:
			h.Fail("list-client-error:"+c3ErrClass(cerr), "the client failed to decode the LIST responses: "+cerr.Error(), desc)
		default:
			if d := c3Diff(want, obs); d != "" {
				desc["want"], desc["got"] = want, obs
				h.Fail("list-mismatch:"+d, "delivered LIST data differs from the supplied data at "+d, desc)
			}
		}
	}
	var lt, ot []string
	for _, d := range l {
		lt = append(lt, d.coq())
	}
	for _, d := range obs {
		ot = append(ot, d.coq())
	}
	rsTerm := "None"
	if rs != nil {
		rsTerm = "(Some " + rs.coq() + ")"
	}
	x.emit(fmt.Sprintf("KList %s %s %s %s %s %s", coqBool(x.q()), rsTerm, c3HxS(tag), coqList(lt), coqWire(wire, !srvErr),
		coqOpt(cerr == nil, coqList(ot))), desc)
	if srvErr || cerr != nil {
		x.drop()
	}
}

// ---- STATUS --------------------------------------------------------------------------------------

func (x *c3Ctx) statusCase() {
	h, g := x.h, x.g
	c := x.get()
	o := g.statusOpts()
	reqMbox := g.pick("INBOX", "inbox", "Inbox", "box", "Sent", "Entwürfe", "a/b")
	dataMbox := reqMbox
	switch r := g.n(100); {
	case r < 50:
		dataMbox = c3NormMailbox(reqMbox)
	case r < 60:
		dataMbox = g.mailbox()
	}
	sd := g.status(o, dataMbox, g.p(92))
	spec := map[string]interface{}{"family": "status", "rev2": x.rev2, "utf8": x.utf8, "options": o, "request": reqMbox, "data": sd}
	h.InFlight(spec)
	c.sess.onStatus = func(mailbox string, options *imap.StatusOptions) (*imap.StatusData, error) { return sd.imap(), nil }
	var got *imap.StatusData
	var cerr error
	done := c3Timeout(10*time.Second, func() { got, cerr = c.client.Status(reqMbox, o.imap()).Wait() })
	wire, tag := c.finish(cerr != nil || !done)
	// the server writes the line itself: an encoder error or a panic shows as a failed command
	srvErr := !c3TaggedOK(wire, tag)
	desc := map[string]interface{}{"spec": spec, "wire": c3Short(wire)}
	if cerr != nil {
		desc["client_err"] = cerr.Error()
	}
	want, inDomain := c3NormStatus(o, sd)
	inDomain = inDomain && c3NormMailbox(reqMbox) == want.Mailbox
	h.Eval(fmt.Sprintf("status|%v%v|%v|%v|%v", x.rev2, x.utf8, *o, inDomain, reqMbox == dataMbox))
	h.Hist("status")
	if !done {
		if inDomain {
			h.Fail("status-hang", "STATUS did not complete", desc)
		}
		x.drop()
		return
	}
	obs := c3StatusOf(got)
	if inDomain {
		if cerr != nil {
			h.Fail("status-error:"+c3ErrClass(cerr), "STATUS failed on data inside the domain: "+cerr.Error(), desc)
		} else if d := c3Diff(want, obs); d != "" {
			desc["want"], desc["got"] = want, obs
			h.Fail("status-mismatch:"+d, "delivered STATUS data differs from the supplied data at "+d, desc)
		}
	}
	obsTerm := "None"
	if cerr == nil {
		obsTerm = "(Some " + obs.coq() + ")"
	}
	x.emit(fmt.Sprintf("KStatus %s %s %s %s %s %s %s", coqBool(x.q()), o.coq(), c3HxS(tag), c3HxS(reqMbox), sd.coq(), coqWire(wire, !srvErr), obsTerm), desc)
	if cerr != nil {
		x.drop()
	}
}

// ---- SELECT ------------------------------------------------------------------------------------------

func (x *c3Ctx) selectCase() {
	h, g := x.h, x.g
	c := x.get()
	reqMbox := g.pick("INBOX", "inbox", "box", "Sent", "Entwürfe")
	sd := &c3Select{Flags: g.flags(false), PermFlags: g.flags(true), Num: g.u32(), UIDNext: g.u32(), UIDValidity: g.u32()}
	if g.p(50) {
		sd.List = g.listData(nil)
		sd.List.Status = nil
		if g.p(80) {
			sd.List.Mailbox = c3NormMailbox(reqMbox)
			if g.p(20) {
				sd.List.Mailbox = reqMbox
			}
		}
	}
	// RFC 9051 6.3.2: the LIST response of a SELECT carries the canonical name, with OLDNAME =
	// the name the command used
	renamed := false
	if sd.List != nil && g.p(15) {
		sd.List.Mailbox = "Canonical " + reqMbox
		sd.List.OldName = reqMbox
		renamed = true
	}
	readOnly := g.p(30)
	was := c.selected
	spec := map[string]interface{}{"family": "select", "rev2": x.rev2, "utf8": x.utf8, "request": reqMbox, "read_only": readOnly, "was_selected": was, "data": sd}
	h.InFlight(spec)
	c.sess.onSelect = func(mailbox string, options *imap.SelectOptions) (*imap.SelectData, error) {
		d := &imap.SelectData{Flags: c3ImapFlags(sd.Flags), PermanentFlags: c3ImapFlags(sd.PermFlags), NumMessages: sd.Num, UIDNext: imap.UID(sd.UIDNext), UIDValidity: sd.UIDValidity}
		if sd.List != nil {
			d.List = sd.List.imap()
		}
		return d, nil
	}
	var got *imap.SelectData
	var cerr error
	done := c3Timeout(10*time.Second, func() { got, cerr = c.client.Select(reqMbox, &imap.SelectOptions{ReadOnly: readOnly}).Wait() })
	wire, tag := c.finish(cerr != nil || !done)
	c.sess.onSelect = nil
	// the server writes these lines itself; an encoder error (invalid flag, attribute) ends the command early
	srvErr := !c3TaggedOK(wire, tag)
	desc := map[string]interface{}{"spec": spec, "wire": c3Short(wire)}
	if cerr != nil {
		desc["client_err"] = cerr.Error()
	}
	inDomain := c3FlagsOK(sd.Flags) && c3FlagsOK(sd.PermFlags)
	for _, f := range sd.Flags {
		inDomain = inDomain && f != `\*`
	}
	want := &c3Select{Flags: c3NormFlags(sd.Flags), PermFlags: c3NormFlags(sd.PermFlags), Num: sd.Num, UIDNext: sd.UIDNext, UIDValidity: sd.UIDValidity}
	if sd.List != nil {
		nl, ok := c3NormList(sd.List, nil)
		inDomain = inDomain && ok && (nl.Mailbox == c3NormMailbox(reqMbox) || renamed)
		want.List = nl
	}
	h.Eval(fmt.Sprintf("select|%v%v|%v%v|%d%d|%v|%v", x.rev2, x.utf8, readOnly, was, len(sd.Flags), len(sd.PermFlags), sd.List != nil, inDomain))
	h.Hist("select")
	if !done {
		if inDomain {
			h.Fail("select-hang", "SELECT did not complete", desc)
		}
		x.drop()
		return
	}
	var obs *c3Select
	if got != nil {
		obs = &c3Select{Flags: c3Flags(got.Flags), PermFlags: c3Flags(got.PermanentFlags), Num: got.NumMessages, UIDNext: uint32(got.UIDNext), UIDValidity: got.UIDValidity, List: c3ListOf(got.List)}
	}
	if inDomain {
		if cerr != nil {
			h.Fail("select-error:"+c3ErrClass(cerr), "SELECT failed on data inside the domain: "+cerr.Error(), desc)
		} else if renamed && obs != nil && obs.List == nil {
			desc["want"], desc["got"] = want, obs
			h.Fail("select-list-oldname-dropped", "SELECT "+reqMbox+": the LIST data naming the canonical mailbox (OLDNAME = the requested name) was not delivered to the command", desc)
		} else if d := c3Diff(want, obs); d != "" {
			desc["want"], desc["got"] = want, obs
			h.Fail("select-mismatch:"+d, "delivered SELECT data differs from the supplied data at "+d, desc)
		}
	}
	obsTerm := "None"
	if cerr == nil {
		obsTerm = "(Some " + obs.coq() + ")"
		c.selected = true
	}
	x.emit(fmt.Sprintf("KSelect %s %s %s %s %s %s %s %s %s", coqBool(x.rev2), coqBool(x.q()), coqBool(was), coqBool(readOnly), c3HxS(tag), c3HxS(reqMbox),
		sd.coq(), coqWire(wire, !srvErr), obsTerm), desc)
	if cerr != nil {
		x.drop()
	}
}

// ---- SEARCH ---------------------------------------------------------------------------------------------

func (x *c3Ctx) searchCase() {
	h, g := x.h, x.g
	c := x.ensureSelected()
	uid := g.p(40)
	var o *imap.SearchOptions
	if g.p(60) {
		o = &imap.SearchOptions{ReturnMin: g.p(40), ReturnMax: g.p(40), ReturnAll: g.p(50), ReturnCount: g.p(40)}
	}
	eo := imap.SearchOptions{}
	if o != nil {
		eo = *o
	}
	extended := eo.ReturnMin || eo.ReturnMax || eo.ReturnAll || eo.ReturnCount
	set := g.numset(true, true)
	sd := &c3Search{UID: g.p(50), Min: g.u32(), Max: g.u32(), Count: g.u32()}
	if g.p(70) {
		sd.UID = uid
	}
	switch r := g.n(100); {
	case r < 8:
		sd.All = nil
		set = c3Set{}
	case r < 52 && uid || r < 14:
		sd.All = set.uid()
	default:
		sd.All = set.seq()
	}
	spec := map[string]interface{}{"family": "search", "rev2": x.rev2, "utf8": x.utf8, "uid": uid, "options": o, "all": set, "all_nil": sd.All == nil, "data_uid": sd.UID, "min": sd.Min, "max": sd.Max, "count": sd.Count}
	h.InFlight(spec)
	c.sess.onSearch = func(kind imapserver.NumKind, crit *imap.SearchCriteria, options *imap.SearchOptions) (*imap.SearchData, error) {
		return &imap.SearchData{All: sd.All, UID: sd.UID, Min: sd.Min, Max: sd.Max, Count: sd.Count}, nil
	}
	var got *imap.SearchData
	var cerr error
	done := c3Timeout(20*time.Second, func() {
		if uid {
			got, cerr = c.client.UIDSearch(&imap.SearchCriteria{}, o).Wait()
		} else {
			got, cerr = c.client.Search(&imap.SearchCriteria{}, o).Wait()
		}
	})
	wire, tag := c.finish(cerr != nil || !done)
	srvErr := !c3TaggedOK(wire, tag)
	desc := map[string]interface{}{"spec": spec, "wire": c3Short(wire)}
	if cerr != nil {
		desc["client_err"] = cerr.Error()
	}
	// domain: a canonical static set of the kind the command asked for
	inDomain := c3SetCanon(set) && !c3SetDynamic(set) // a missing set is the empty set
	esearch := x.rev2 || extended
	eff := eo
	if !extended {
		eff.ReturnAll = true
	}
	want := &c3Search{}
	if esearch {
		want.UID = sd.UID
		if eff.ReturnAll && len(set) > 0 {
			want.All = sd.All
		}
		if eff.ReturnMin {
			want.Min = sd.Min
		}
		if eff.ReturnMax {
			want.Max = sd.Max
		}
		if eff.ReturnCount {
			want.Count = sd.Count
		}
	} else {
		if uid {
			want.All = set.uid()
		} else {
			want.All = set.seq()
		}
	}
	h.Eval(fmt.Sprintf("search|%v%v|%v|%v|%d|%v", x.rev2, x.utf8, uid, eff, len(set), inDomain))
	h.Hist(fmt.Sprintf("search:esearch=%v", esearch))
	if !done {
		if inDomain {
			h.Fail("search-hang", "SEARCH did not complete", desc)
		}
		x.drop()
		return
	}
	var obs *c3Search
	if got != nil {
		obs = &c3Search{All: got.All, UID: got.UID, Min: got.Min, Max: got.Max, Count: got.Count}
	}
	if inDomain {
		if cerr != nil {
			h.Fail("search-error:"+c3ErrClass(cerr), "SEARCH failed on data inside the domain: "+cerr.Error(), desc)
		} else if c3SearchKey(want) != c3SearchKey(obs) {
			desc["want"], desc["got"] = c3SearchKey(want), c3SearchKey(obs)
			h.Fail("search-mismatch", "delivered SEARCH data differs from the supplied data", desc)
		}
	}
	obsTerm := "None"
	if cerr == nil {
		obsTerm = "(Some " + obs.coq() + ")"
	}
	x.emit(fmt.Sprintf("KSearch %s %s %s %s (mkSeO %s %s %s %s) %s %s %s", coqBool(x.rev2), coqBool(extended), coqBool(uid), c3HxS(tag),
		coqBool(eo.ReturnMin), coqBool(eo.ReturnMax), coqBool(eo.ReturnAll), coqBool(eo.ReturnCount), sd.coq(), coqWire(wire, !srvErr), obsTerm), desc)
	if cerr != nil {
		x.drop()
	}
}

// c3SearchKey: sets compared by their ranges; an absent or empty set are the same result
func c3SearchKey(s *c3Search) string {
	if s == nil {
		return "nil"
	}
	all := ""
	switch v := s.All.(type) {
	case imap.SeqSet:
		if len(v) > 0 {
			all = v.String()
		}
	case imap.UIDSet:
		if len(v) > 0 {
			all = v.String()
		}
	}
	return fmt.Sprintf("%s|%v|%d|%d|%d", all, s.UID, s.Min, s.Max, s.Count)
}
func c3SetCanon(s c3Set) bool {
	for i, r := range s {
		if r[0] == 0 || (r[1] != 0 && r[1] < r[0]) {
			return false
		}
		if i > 0 {
			p := s[i-1]
			if p[1] == 0 || uint64(p[1])+1 >= uint64(r[0]) {
				return false
			}
		}
	}
	return true
}
func c3SetDynamic(s c3Set) bool {
	for _, r := range s {
		if r[0] == 0 || r[1] == 0 {
			return true
		}
	}
	return false
}

// ---- NAMESPACE ---------------------------------------------------------------------------------------------

func (x *c3Ctx) namespaceCase() {
	h, g := x.h, x.g
	c := x.get()
	gen := func() *[]c3NS {
		switch r := g.n(100); {
		case r < 35:
			return nil
		case r < 45:
			return &[]c3NS{}
		}
		l := []c3NS{}
		for i, n := 0, 1+g.n(2); i < n; i++ {
			p := g.pick("", "INBOX.", "#shared/", "Other Users/", "~", "Entwürfe/", `q"uote\`, "line\r\n", "=?utf-8?q?x?=")
			if g.p(10) {
				p = g.text()
			}
			l = append(l, c3NS{p, g.delim()})
		}
		return &l
	}
	ns := [3]*[]c3NS{gen(), gen(), gen()}
	spec := map[string]interface{}{"family": "namespace", "rev2": x.rev2, "utf8": x.utf8, "data": ns}
	h.InFlight(spec)
	c.sess.onNamespace = func() (*imap.NamespaceData, error) {
		return &imap.NamespaceData{Personal: c3NSImap(ns[0]), Other: c3NSImap(ns[1]), Shared: c3NSImap(ns[2])}, nil
	}
	var got *imap.NamespaceData
	var cerr error
	done := c3Timeout(10*time.Second, func() { got, cerr = c.client.Namespace().Wait() })
	wire, tag := c.finish(cerr != nil || !done)
	desc := map[string]interface{}{"spec": spec, "wire": c3Short(wire)}
	if cerr != nil {
		desc["client_err"] = cerr.Error()
	}
	inDomain := true
	var want [3]*[]c3NS
	for i, l := range ns {
		if l != nil && len(*l) > 0 {
			want[i] = l
			for _, d := range *l {
				inDomain = inDomain && c3DelimOK(d.Delim)
			}
		}
	}
	h.Eval(fmt.Sprintf("namespace|%v%v|%v%v%v|%v", x.rev2, x.utf8, ns[0] != nil, ns[1] != nil, ns[2] != nil, inDomain))
	h.Hist("namespace")
	if !done {
		if inDomain {
			h.Fail("namespace-hang", "NAMESPACE did not complete", desc)
		}
		x.drop()
		return
	}
	var obs [3]*[]c3NS
	if got != nil {
		obs = [3]*[]c3NS{c3NSOf(got.Personal), c3NSOf(got.Other), c3NSOf(got.Shared)}
	}
	if inDomain {
		if cerr != nil {
			h.Fail("namespace-error:"+c3ErrClass(cerr), "NAMESPACE failed on data inside the domain: "+cerr.Error(), desc)
		} else if d := c3Diff(want, obs); d != "" {
			desc["want"], desc["got"] = want, obs
			h.Fail("namespace-mismatch:"+d, "delivered NAMESPACE data differs from the supplied data", desc)
		}
	}
	nsTerm := func(v [3]*[]c3NS) string {
		return fmt.Sprintf("(mkNS %s %s %s)", coqNSList(v[0]), coqNSList(v[1]), coqNSList(v[2]))
	}
	x.emit(fmt.Sprintf("KNamespace %s %s %s %s %s", coqBool(x.q()), c3HxS(tag), nsTerm(ns), coqWire(wire, c3TaggedOK(wire, tag)), coqOpt(cerr == nil, nsTerm(obs))), desc)
	if cerr != nil {
		x.drop()
	}
}

// ---- APPEND / COPY / MOVE ---------------------------------------------------------------------------------------

func (x *c3Ctx) copyMoveAppendCase() {
	h, g := x.h, x.g
	c := x.ensureSelected()
	genCopy := func() (*imap.CopyData, string) {
		if g.p(15) {
			return nil, "None"
		}
		src, dst := g.numset(true, true), g.numset(true, true)
		if g.p(10) {
			src = c3Set{}
		}
		d := &imap.CopyData{UIDValidity: g.u32(), SourceUIDs: src.uid(), DestUIDs: dst.uid()}
		if g.p(5) {
			d.SourceUIDs = nil
		}
		return d, fmt.Sprintf("(Some (mkCD %d %s %s))", d.UIDValidity, c3SetOfUID(d.SourceUIDs).coq(), c3SetOfUID(d.DestUIDs).coq())
	}
	copyWant := func(d *imap.CopyData) (string, bool) {
		if d == nil || len(d.SourceUIDs) == 0 || len(d.DestUIDs) == 0 {
			return "0||", true
		}
		s, t := c3SetOfUID(d.SourceUIDs), c3SetOfUID(d.DestUIDs)
		ok := c3SetCanon(s) && c3SetCanon(t) && !c3SetDynamic(s) && !c3SetDynamic(t)
		return fmt.Sprintf("%d|%s|%s", d.UIDValidity, d.SourceUIDs.String(), d.DestUIDs.String()), ok
	}
	copyObs := func(v uint32, s, t imap.NumSet) (string, string) {
		su, _ := s.(imap.UIDSet)
		tu, _ := t.(imap.UIDSet)
		ss, ts := "", ""
		if len(su) > 0 {
			ss = su.String()
		}
		if len(tu) > 0 {
			ts = tu.String()
		}
		return fmt.Sprintf("%d|%s|%s", v, ss, ts), fmt.Sprintf("(%d, %s, %s)", v, c3SetOfUID(su).coq(), c3SetOfUID(tu).coq())
	}
	switch g.n(3) {
	case 0: // APPEND
		var ad *imap.AppendData
		adTerm := "None"
		if g.p(85) {
			ad = &imap.AppendData{UID: imap.UID(g.u32()), UIDValidity: g.u32()}
			adTerm = fmt.Sprintf("(Some (mkAD %d %d))", ad.UID, ad.UIDValidity)
		}
		spec := map[string]interface{}{"family": "append", "data": ad}
		h.InFlight(spec)
		c.sess.onAppend = func(mailbox string, r imap.LiteralReader, options *imap.AppendOptions) (*imap.AppendData, error) {
			readAllLimited(r)
			return ad, nil
		}
		var got *imap.AppendData
		var cerr error
		done := c3Timeout(10*time.Second, func() {
			cmd := c.client.Append("box", 3, nil)
			cmd.Write([]byte("abc"))
			cmd.Close()
			got, cerr = cmd.Wait()
		})
		wire, tag := c.finish(cerr != nil || !done)
		desc := map[string]interface{}{"spec": spec, "wire": c3Short(wire)}
		h.Eval(fmt.Sprintf("append|%v", ad != nil))
		h.Hist("append")
		if !done {
			h.Fail("append-hang", "APPEND did not complete", desc)
			x.drop()
			return
		}
		if cerr != nil {
			if ad == nil || ad.UID != 0 {
				h.Fail("append-error", fmt.Sprintf("APPEND failed: %v", cerr), desc)
			}
			x.emit(fmt.Sprintf("KAppend %s %s %s None", c3HxS(tag), adTerm, coqWire(wire, c3TaggedOK(wire, tag))), desc)
			x.drop()
			return
		}
		want := imap.AppendData{}
		if ad != nil {
			want = *ad
		}
		if *got != want {
			desc["got"] = got
			h.Fail("append-mismatch", "delivered APPENDUID data differs from the supplied data", desc)
		}
		x.emit(fmt.Sprintf("KAppend %s %s %s (Some (%d, %d))", c3HxS(tag), adTerm, coqWire(wire, true), got.UID, got.UIDValidity), desc)
	case 1: // COPY
		cd, cdTerm := genCopy()
		spec := map[string]interface{}{"family": "copy", "data": cd}
		h.InFlight(spec)
		c.sess.onCopy = func(numSet imap.NumSet, dest string) (*imap.CopyData, error) { return cd, nil }
		var got *imap.CopyData
		var cerr error
		done := c3Timeout(10*time.Second, func() { got, cerr = c.client.Copy(imap.SeqSetNum(1), "dest").Wait() })
		wire, tag := c.finish(cerr != nil || !done)
		desc := map[string]interface{}{"spec": spec, "wire": c3Short(wire)}
		if cerr != nil {
			desc["client_err"] = cerr.Error()
		}
		want, inDomain := copyWant(cd)
		h.Eval(fmt.Sprintf("copy|%s|%v", want, inDomain))
		h.Hist("copy")
		if !done {
			if inDomain {
				h.Fail("copy-hang", "COPY did not complete", desc)
			}
			x.drop()
			return
		}
		obsTerm := "None"
		if cerr == nil {
			o, t := copyObs(got.UIDValidity, got.SourceUIDs, got.DestUIDs)
			obsTerm = "(Some " + t + ")"
			if inDomain && o != want {
				desc["want"], desc["got"] = want, o
				h.Fail("copy-mismatch", "delivered COPYUID data differs from the supplied data", desc)
			}
		} else if inDomain {
			h.Fail("copy-error:"+c3ErrClass(cerr), "COPY failed on data inside the domain: "+cerr.Error(), desc)
		}
		x.emit(fmt.Sprintf("KCopy %s %s %s %s", c3HxS(tag), cdTerm, coqWire(wire, c3TaggedOK(wire, tag)), obsTerm), desc)
		if cerr != nil {
			x.drop()
		}
	default: // MOVE
		cd, cdTerm := genCopy()
		uid := g.p(40)
		var exp []uint32
		for i, n := 0, g.n(4); i < n; i++ {
			exp = append(exp, 1+uint32(g.n(9)))
		}
		spec := map[string]interface{}{"family": "move", "data": cd, "uid": uid, "expunged": exp}
		h.InFlight(spec)
		handlerDone := make(chan struct{})
		c.sess.onMove = func(w *imapserver.MoveWriter, numSet imap.NumSet, dest string) error {
			defer close(handlerDone)
			if err := w.WriteCopyData(cd); err != nil {
				c.setSrvErr()
				return err
			}
			for _, n := range exp {
				if err := w.WriteExpunge(n); err != nil {
					c.setSrvErr()
					return err
				}
			}
			return nil
		}
		c.mu.Lock()
		c.expunged = nil
		c.mu.Unlock()
		var obsKey, obsT string
		var cerr error
		done := c3Timeout(10*time.Second, func() {
			var ns imap.NumSet = imap.SeqSetNum(1)
			if uid {
				ns = imap.UIDSetNum(1)
			}
			got, err := c.client.Move(ns, "dest").Wait()
			cerr = err
			if err == nil {
				obsKey, obsT = copyObs(got.UIDValidity, got.SourceUIDs, got.DestUIDs)
			}
		})
		c3WaitHandler(handlerDone)
		srvErr := c.takeSrvErr()
		wire, tag := c.finish(srvErr || cerr != nil || !done)
		desc := map[string]interface{}{"spec": spec, "wire": c3Short(wire), "srv_err": srvErr}
		if cerr != nil {
			desc["client_err"] = cerr.Error()
		}
		want, inDomain := copyWant(cd)
		h.Eval(fmt.Sprintf("move|%s|%v|%v|%d", want, inDomain, uid, len(exp)))
		h.Hist("move")
		if !done {
			if inDomain {
				h.Fail("move-hang", "MOVE did not complete", desc)
			}
			x.drop()
			return
		}
		obsTerm := "None"
		if cerr == nil {
			obsTerm = "(Some " + obsT + ")"
			c.mu.Lock()
			gotExp := append([]uint32(nil), c.expunged...)
			c.mu.Unlock()
			if inDomain && obsKey != want {
				desc["want"], desc["got"] = want, obsKey
				h.Fail("move-mismatch", "delivered COPYUID data of MOVE differs from the supplied data", desc)
			}
			if inDomain && fmt.Sprint(gotExp) != fmt.Sprint(exp) {
				desc["expunged_got"] = gotExp
				h.Fail("move-expunge-mismatch", "EXPUNGE notifications of MOVE differ from the supplied ones", desc)
			}
		} else if inDomain {
			h.Fail("move-error:"+c3ErrClass(cerr), "MOVE failed on data inside the domain: "+cerr.Error(), desc)
		}
		var et []string
		for _, n := range exp {
			et = append(et, fmt.Sprint(n))
		}
		x.emit(fmt.Sprintf("KMove %s %s %s %s %s %s", c3HxS(tag), coqBool(uid), cdTerm, coqList(et), coqWire(wire, !srvErr), obsTerm), desc)
		if cerr != nil || srvErr {
			x.drop()
		}
	}
}

// ---- EXPUNGE -------------------------------------------------------------------------------------------------------

func (x *c3Ctx) expungeCase() {
	h, g := x.h, x.g
	c := x.ensureSelected()
	var exp []uint32
	for i, n := 0, []int{0, 1, 2, 3, 8, 140}[g.n(6)]; i < n; i++ {
		exp = append(exp, g.u32())
		if g.p(85) {
			exp[i] = 1 + uint32(g.n(20))
		}
	}
	uid := g.p(40)
	spec := map[string]interface{}{"family": "expunge", "uid": uid, "expunged": exp}
	h.InFlight(spec)
	c.sess.onExpunge = func(w *imapserver.ExpungeWriter, uids *imap.UIDSet) error {
		for _, n := range exp {
			if err := w.WriteExpunge(n); err != nil {
				return err
			}
		}
		return nil
	}
	var got []uint32
	var cerr error
	done := c3Timeout(10*time.Second, func() {
		if uid {
			got, cerr = c.client.UIDExpunge(imap.UIDSetNum(1)).Collect()
		} else {
			got, cerr = c.client.Expunge().Collect()
		}
	})
	wire, tag := c.finish(cerr != nil || !done)
	desc := map[string]interface{}{"spec": spec, "wire": c3Short(wire)}
	inDomain := true
	for _, n := range exp {
		inDomain = inDomain && n != 0
	}
	h.Eval(fmt.Sprintf("expunge|%v|%v|%v", uid, exp, inDomain))
	h.Hist("expunge")
	if !done {
		h.Fail("expunge-hang", "EXPUNGE did not complete", desc)
		x.drop()
		return
	}
	if inDomain {
		if cerr != nil {
			h.Fail("expunge-error", "EXPUNGE failed: "+cerr.Error(), desc)
		} else if fmt.Sprint(got) != fmt.Sprint(exp) {
			desc["got"] = got
			h.Fail("expunge-mismatch", "delivered EXPUNGE numbers differ from the supplied ones", desc)
		}
	}
	var et, ot []string
	for _, n := range exp {
		et = append(et, fmt.Sprint(n))
	}
	for _, n := range got {
		ot = append(ot, fmt.Sprint(n))
	}
	x.emit(fmt.Sprintf("KExpunge %s %s %s %s %s", c3HxS(tag), coqBool(uid), coqList(et), coqWire(wire, true), coqOpt(cerr == nil, coqList(ot))), desc)
	if cerr != nil {
		x.drop()
	}
}

// ---- unilateral updates written from Session.Poll (UpdateWriter) ---------------------------------------------------

func (x *c3Ctx) pollCase() {
	h, g := x.h, x.g
	c := x.ensureSelected()
	type mf struct {
		Seq, UID uint32
		Flags    []string
	}
	var exp, exists []uint32
	var mflags [][]string
	var msgs []mf
	for i, n := 0, g.n(3); i < n; i++ {
		exp = append(exp, 1+uint32(g.n(30)))
	}
	if g.p(60) {
		exists = append(exists, g.u32())
	}
	if g.p(50) {
		mflags = append(mflags, c3NormFlags(c3OnlyValid(g.flags(false))))
	}
	for i, n := 0, g.n(3); i < n; i++ {
		m := mf{Seq: 1 + uint32(i) + uint32(g.n(3))*10, Flags: c3NormFlags(c3OnlyValid(g.flags(false)))}
		if g.p(70) {
			m.UID = 1 + uint32(g.n(1000))
		}
		msgs = append(msgs, m)
	}
	spec := map[string]interface{}{"family": "poll", "expunged": exp, "exists": exists, "flags": mflags, "messages": msgs}
	h.InFlight(spec)
	c.mu.Lock()
	c.expunged, c.exists, c.mflags, c.fetched = nil, nil, nil, nil
	c.mu.Unlock()
	c.sess.onPoll = func(w *imapserver.UpdateWriter, allowExpunge bool) error {
		for _, m := range msgs {
			if err := w.WriteMessageFlags(m.Seq, imap.UID(m.UID), c3ImapFlags(m.Flags)); err != nil {
				return err
			}
		}
		for _, n := range exp {
			if err := w.WriteExpunge(n); err != nil {
				return err
			}
		}
		for _, n := range exists {
			if err := w.WriteNumMessages(n); err != nil {
				return err
			}
		}
		for _, f := range mflags {
			if err := w.WriteMailboxFlags(c3ImapFlags(f)); err != nil {
				return err
			}
		}
		return nil
	}
	var cerr error
	done := c3Timeout(10*time.Second, func() { cerr = c.client.Noop().Wait() })
	c.sess.onPoll = nil
	wire, _ := c.finish(cerr != nil || !done)
	desc := map[string]interface{}{"spec": spec, "wire": c3Short(wire)}
	h.Eval(fmt.Sprintf("poll|%d|%d|%d|%d", len(exp), len(exists), len(mflags), len(msgs)))
	h.Hist("poll")
	if !done || cerr != nil {
		h.Fail("poll-error", fmt.Sprintf("NOOP with unilateral updates failed: %v", cerr), desc)
		x.drop()
		return
	}
	// the FETCH handler runs in its own goroutine
	for i := 0; i < 200; i++ {
		c.mu.Lock()
		n := len(c.fetched)
		c.mu.Unlock()
		if n >= len(msgs) {
			break
		}
		time.Sleep(5 * time.Millisecond)
	}
	c.mu.Lock()
	gotExp, gotExists, gotFlags := append([]uint32(nil), c.expunged...), append([]uint32(nil), c.exists...), append([][]string(nil), c.mflags...)
	gotMsgs := append([]c3Msgd(nil), c.fetched...)
	c.mu.Unlock()
	sort.Slice(gotMsgs, func(i, j int) bool { return gotMsgs[i].Seq < gotMsgs[j].Seq })
	var want []c3Msgd
	for _, m := range msgs {
		md := c3Msgd{Seq: m.Seq}
		if m.UID != 0 {
			md.Items = append(md.Items, &c3Item{Kind: "uid", N: uint64(m.UID)})
		}
		md.Items = append(md.Items, &c3Item{Kind: "flags", Flags: m.Flags})
		want = append(want, md)
	}
	sort.Slice(want, func(i, j int) bool { return want[i].Seq < want[j].Seq })
	// an empty FLAGS list is delivered as a non-nil empty list or nil: compare by content
	norm := func(l [][]string) string { return c3JSON(l) }
	if fmt.Sprint(gotExp) != fmt.Sprint(exp) || fmt.Sprint(gotExists) != fmt.Sprint(exists) || (len(mflags) > 0 && len(mflags[0]) > 0 && norm(gotFlags) != norm(mflags)) || c3Diff(want, gotMsgs) != "" {
		desc["got"] = map[string]interface{}{"expunged": gotExp, "exists": gotExists, "flags": gotFlags, "messages": gotMsgs}
		h.Fail("poll-mismatch", "unilateral updates delivered to the handlers differ from what the backend wrote", desc)
	}
}

func c3OnlyValid(l []string) []string {
	var out []string
	for _, f := range l {
		if c3ValidFlag(f) && f != `\*` {
			out = append(out, f)
		}
	}
	return out
}

// ---- CAPABILITY ----------------------------------------------------------------------------------------------------------

func (x *c3Ctx) capabilityCase() {
	h := x.h
	for _, sel := range []bool{false, true} {
		var c *c3Conn
		if sel {
			c = x.ensureSelected()
		} else {
			c = x.get()
		}
		var got imap.CapSet
		var cerr error
		done := c3Timeout(10*time.Second, func() { got, cerr = c.client.Capability().Wait() })
		wire, tag := c.finish(cerr != nil || !done)
		desc := map[string]interface{}{"family": "capability", "wire": c3Short(wire)}
		h.Eval(fmt.Sprintf("capability|%v%v|%v", x.rev2, x.utf8, sel))
		h.Hist("capability")
		if !done || cerr != nil {
			h.Fail("capability-error", fmt.Sprintf("CAPABILITY failed: %v", cerr), desc)
			x.drop()
			return
		}
		// the capability list is the server's own data: what it wrote is what must arrive
		line := strings.SplitN(string(wire), "\r\n", 2)[0]
		var caps []string
		if strings.HasPrefix(line, "* CAPABILITY") {
			caps = strings.Fields(line[len("* CAPABILITY"):])
		}
		var gl []string
		for k := range got {
			gl = append(gl, string(k))
		}
		sort.Strings(gl)
		wl := append([]string(nil), caps...)
		sort.Strings(wl)
		if len(caps) == 0 || fmt.Sprint(gl) != fmt.Sprint(wl) {
			desc["got"] = gl
			h.Fail("capability-mismatch", "delivered capability set differs from the capabilities the server wrote", desc)
		}
		x.emit(fmt.Sprintf("KCapability %s %s %s (Some %s)", c3HxS(tag), c3Strs(caps), coqWire(wire, true), c3Strs(gl)), desc)
	}
}

// ---- fixed corpus: the inputs of the findings first -------------------------------------------------------------------------

func c3Corpus(x *c3Ctx) {
	x.rev2, x.utf8 = false, false
	one := func(items ...*c3Item) *c3FetchSpec {
		return &c3FetchSpec{Req: c3Set{{1, 0}}, BodyMode: 2, Msgs: []c3Msgd{{Seq: 1, Items: items}}}
	}
	uidf := func(items ...*c3Item) *c3FetchSpec {
		return &c3FetchSpec{UID: true, Req: c3Set{{1, 0}}, Msgs: []c3Msgd{{Seq: 1, Items: items}}}
	}
	body1 := func(items ...*c3Item) *c3FetchSpec {
		return &c3FetchSpec{Req: c3Set{{1, 0}}, BodyMode: 1, Msgs: []c3Msgd{{Seq: 1, Items: items}}}
	}
	env := func(subject, name string) *c3Env {
		return &c3Env{Date: c3TimeOf(time.Time{}), Subject: subject, From: &[]c3Addr{{name, "a", "b"}}, MsgID: "i@d"}
	}
	txt := int64(3)
	sp := func(desc string, kv ...c3KV) *c3BS {
		p := append([]c3KV{}, kv...)
		return &c3BS{Type: "text", Subtype: "plain", Params: &p, Desc: desc, Enc: "7bit", Size: 10, Text: &txt, Ext: &c3Ext{}}
	}
	specs := []*c3FetchSpec{
		one(&c3Item{Kind: "binsize", Part: []int{1}, N: 42}),
		one(&c3Item{Kind: "binsize", Part: nil, N: 0}),
		one(&c3Item{Kind: "section", Sec: &c3Section{Partial: &[2]int64{5000000000, 10}}, Data: []byte("abc")}),
		one(&c3Item{Kind: "section", Sec: &c3Section{Partial: &[2]int64{4294967296, 1}}, Data: []byte{}}),
		one(&c3Item{Kind: "env", Env: env("=?utf-8?q?hello?=", "=?utf-8?b?aGk=?=")}),
		one(&c3Item{Kind: "env", Env: env("a =?x", "=?")}),
		one(&c3Item{Kind: "body", BS: sp("=?utf-8?q?desc?=", c3KV{"name", "=?utf-8?q?file?="})}),
		one(&c3Item{Kind: "body", BS: sp("é =?utf-8?q?x?=", c3KV{"name", strings.Repeat("=?", 40)})}),
		one(&c3Item{Kind: "env", Env: nil}),
		// a parameter whose name is the empty string (body and disposition parameters)
		one(&c3Item{Kind: "body", BS: sp("d", c3KV{"", "x"})}),
		one(&c3Item{Kind: "body", BS: sp("d", c3KV{"", "x"}, c3KV{"a", ""})}),
		one(&c3Item{Kind: "body", BS: &c3BS{Type: "application", Subtype: "pdf", Enc: "base64", Size: 1,
			Ext: &c3Ext{Disp: &c3Disp{Value: "attachment", Params: &[]c3KV{{"", ""}}}}}}),
		// a text part whose Text is nil, as BODYSTRUCTURE and as BODY
		one(&c3Item{Kind: "body", BS: &c3BS{Type: "text", Subtype: "plain", Enc: "7bit", Size: 10, Ext: &c3Ext{}}}),
		one(&c3Item{Kind: "body", BS: &c3BS{Type: "TEXT", Subtype: "html", Size: 0, Ext: &c3Ext{Lang: &[]string{"en"}, Loc: "loc"}}}),
		body1(&c3Item{Kind: "body", BS: &c3BS{Type: "text", Subtype: "plain", Enc: "7bit", Size: 10}}),
		one(&c3Item{Kind: "body", BS: &c3BS{Multi: true, Subtype: "mixed", Ext: &c3Ext{}, Children: []*c3BS{
			{Type: "text", Subtype: "plain", Size: 3, Ext: &c3Ext{}}, {Type: "image", Subtype: "png", Size: 4, Ext: &c3Ext{}}}}}),
		// UID FETCH answered with a literal before the UID
		uidf(&c3Item{Kind: "section", Sec: &c3Section{}, Data: []byte("hello")}, &c3Item{Kind: "uid", N: 7}),
		uidf(&c3Item{Kind: "flags", Flags: []string{`\Seen`}}, &c3Item{Kind: "binary", Part: []int{1}, Data: []byte("ab")}, &c3Item{Kind: "uid", N: 9},
			&c3Item{Kind: "section", Sec: &c3Section{Spec: "TEXT"}, Data: bytes.Repeat([]byte("y"), 5000)}),
		one(&c3Item{Kind: "flags", Flags: []string{`\Seen`}}, &c3Item{Kind: "section", Sec: &c3Section{}, Data: bytes.Repeat([]byte("x"), 4097)},
			&c3Item{Kind: "section", Sec: &c3Section{Spec: "HEADER"}, Data: []byte{}}, &c3Item{Kind: "binary", Part: []int{1, 2}, Data: []byte("\x00\xff\r\n")}),
	}
	for _, s := range specs {
		x.fetchCase(s)
	}
	inbox := func(name string) {
		c := x.get()
		o := &c3StatusOpts{Messages: true}
		n := uint32(3)
		sd := &c3Status{Mailbox: "INBOX", Messages: &n}
		c.sess.onStatus = func(mailbox string, options *imap.StatusOptions) (*imap.StatusData, error) { return sd.imap(), nil }
		var got *imap.StatusData
		var cerr error
		c3Timeout(10*time.Second, func() { got, cerr = c.client.Status(name, o.imap()).Wait() })
		wire, tag := c.finish(cerr != nil)
		desc := map[string]interface{}{"family": "status", "request": name, "wire": c3Short(wire)}
		x.h.Eval("corpus-status-" + name)
		if cerr != nil || got.NumMessages == nil || *got.NumMessages != 3 {
			x.h.Fail("status-mismatch:.Messages", "STATUS "+name+": the data for INBOX was not delivered to the command", desc)
		}
		if cerr == nil {
			x.emit(fmt.Sprintf("KStatus false %s %s %s %s %s (Some %s)", o.coq(), c3HxS(tag), c3HxS(name), sd.coq(), coqWire(wire, true), c3StatusOf(got).coq()), desc)
		}
	}
	inbox("inbox")
	inbox("InBoX")
}

// ---- facts about the Go libraries which the model and the theorems' hypotheses rely on ----------------------------------------

func c3MimeFacts(h *H) {
	g := &c3Gen{h}
	n := h.Pick(1500, 20000)
	for i := 0; i < n; i++ {
		s := g.text()
		if i%3 == 0 {
			b := make([]byte, g.n(40))
			for j := range b {
				b[j] = byte(g.n(256))
			}
			s = string(b)
		}
		h.Eval("")
		enc := mime.QEncoding.Encode("utf-8", s)
		if c3NeedsEncoding(s) != (enc != s) {
			h.Fail("library-hypothesis:needs-encoding", "mime.QEncoding.Encode changes s iff s has a byte outside printable ASCII/tab", s)
		}
		if c3DecodeText(enc) != s && c3NeedsEncoding(s) {
			h.Fail("library-hypothesis:qword-roundtrip", "DecodeHeader(QEncoding.Encode(s)) != s", s)
		}
		if !strings.Contains(s, "=?") && c3DecodeText(s) != s {
			h.Fail("library-hypothesis:decode-identity", "DecodeHeader changes a string without \"=?\"", s)
		}
	}
	// message identifiers
	for i := 0; i < n/3; i++ {
		id := g.msgid()
		h.Eval("")
		if c3MsgIDOK(id) {
			if c3MsgID("<"+id+">") != id {
				h.Fail("library-hypothesis:msgid", "mail.Header.MessageID(<id>) != id for a well-formed id", id)
			}
			id2 := g.msgid()
			if c3MsgIDOK(id2) {
				l := c3MsgIDList("<" + id + "> <" + id2 + ">")
				if len(l) != 2 || l[0] != id || l[1] != id2 {
					h.Fail("library-hypothesis:msgid-list", "MsgIDList(<a> <b>) != [a b]", []string{id, id2})
				}
			}
		}
	}
	// dates
	for i := 0; i < n/3; i++ {
		t := g.time(false)
		h.Eval("")
		if !c3TimeOK(t) {
			continue
		}
		t = c3ZoneFix(t)
		gt := t.goTime()
		if p, err := netmail.ParseDate(gt.Format(c3EnvLayout)); err != nil || c3TimeOf(p) != c3NormTime(t) {
			h.Fail("library-hypothesis:env-date", "ParseDate(Format(t)) != t truncated to the second", t)
		}
		if p, err := time.Parse(c3IDateLayout, gt.Format(c3IDateLayout)); err != nil || c3TimeOf(p) != c3NormTime(t) {
			h.Fail("library-hypothesis:internal-date", "time.Parse(Format(t)) != t truncated to the second", t)
		}
		for _, c := range []byte(gt.Format(c3IDateLayout)) {
			if c < 32 || c > 126 {
				h.Fail("library-hypothesis:internal-date-plain", "Format(t) is not printable ASCII", t)
			}
		}
	}
	// strings.EqualFold against the constants the client compares media types with: over all
	// runes, only ASCII case, U+017F (s) and U+212A (k) fold onto ASCII letters
	for r := rune(0); r <= 0x10FFFF; r++ {
		if r >= 0xD800 && r <= 0xDFFF {
			continue
		}
		for _, c := range "abcdefghijklmnopqrstuvwxyz0123456789" {
			if r == c || r == c-32 && c >= 'a' {
				continue
			}
			if strings.EqualFold(string(r), string(c)) && !((r == 0x17F && c == 's') || (r == 0x212A && c == 'k')) {
				h.Fail("library-hypothesis:equal-fold", "unexpected simple case folding onto an ASCII letter", []rune{r, c})
			}
		}
	}
	if !strings.EqualFold("meſſage", "MESSAGE") || !strings.EqualFold("K", "k") {
		h.Fail("library-hypothesis:equal-fold", "U+017F / U+212A no longer fold onto s / k", nil)
	}
	h.Eval("equal-fold-exhaustive")
	_ = utf8.RuneError
}
