package main

import (
	"fmt"
	"regexp"
	"strings"
	"sync"
	"time"
	"unicode/utf8"

	imap "github.com/emersion/go-imap/v2"
	"github.com/emersion/go-imap/v2/imapclient"
)

func init() { runners["C18"] = runC18 }

type capCfg struct {
	Caps   string `json:"caps"`
	Enable bool   `json:"enable_utf8"`
}

func (c capCfg) has(x string) bool {
	for _, f := range strings.Fields(c.Caps) {
		if f == x {
			return true
		}
	}
	return false
}
func (c capCfg) litPlus() bool  { return c.has("LITERAL+") }
func (c capCfg) litMinus() bool { return c.has("LITERAL-") || c.has("LITERAL+") || c.has("IMAP4rev2") }
func (c capCfg) utf8() bool     { return c.has("IMAP4rev2") || c.Enable }

// scanQuoted returns the contents of the quoted strings of a command text (literals already
// replaced by placeholders) or an error when a quote is not closed on the line.
func scanQuoted(line string) ([]string, error) {
	var out []string
	i := 0
	for i < len(line) {
		if line[i] != '"' {
			i++
			continue
		}
		i++
		var sb strings.Builder
		closed := false
		for i < len(line) {
			if line[i] == '\\' && i+1 < len(line) {
				sb.WriteByte(line[i+1])
				i += 2
				continue
			}
			if line[i] == '"' {
				closed = true
				i++
				break
			}
			sb.WriteByte(line[i])
			i++
		}
		if !closed {
			return out, fmt.Errorf("unterminated quoted string (a CR/LF inside it?)")
		}
		out = append(out, sb.String())
	}
	return out, nil
}

// checkLegal applies the C18 rules to one received command.
func checkLegal(cfg capCfg, c *peerCmd) []string {
	var bad []string
	for _, l := range c.Lits {
		if l.NonSync && !(cfg.litPlus() || (cfg.litMinus() && l.Size <= 4096)) {
			bad = append(bad, fmt.Sprintf("nonsync-literal: non-synchronising literal of %d bytes although the server advertised [%s]", l.Size, cfg.Caps))
		}
	}
	qs, err := scanQuoted(strings.TrimRight(c.Line, "\r\n"))
	if err != nil {
		bad = append(bad, "quoted-crlf: "+err.Error())
	}
	for _, q := range qs {
		for i := 0; i < len(q); i++ {
			switch {
			case q[i] == 0 || q[i] == '\r' || q[i] == '\n':
				bad = append(bad, fmt.Sprintf("quoted-ctl: byte 0x%02x inside a quoted string", q[i]))
			case q[i] >= 0x80 && !cfg.utf8():
				bad = append(bad, fmt.Sprintf("quoted-8bit: byte 0x%02x inside a quoted string without IMAP4rev2 / UTF8=ACCEPT", q[i]))
			}
		}
	}
	if strings.ContainsAny(strings.TrimRight(c.Line, "\r\n"), "\r\n\x00") {
		bad = append(bad, "ctl-in-line: bare CR, LF or NUL in command text")
	}
	return bad
}

func runC18(h *H) {
	imports := []string{"From GoImap.Base Require Import Bytes.", "From GoImap.Model Require Import Wire ClientWrite."}
	corr := h.NewCorr("cmdbytes", imports, "cw_mismatches", 600).Type("cw_case")
	h.Rule("real imapclient.Client against a scripted server, for capability sets {IMAP4rev1, +LITERAL-, +LITERAL+, IMAP4rev2, rev1+rev2, +ENABLE UTF8=ACCEPT (enabled or not)}: LOGIN, SELECT, EXAMINE, CREATE, DELETE, RENAME, SUBSCRIBE, UNSUBSCRIBE, STATUS, COPY, MOVE, LIST, SEARCH (string keys; the MODSEQ entry name) and APPEND (sizes 0, 1, 4095..4097, 5000) with string arguments from the classes {plain, space, quote, backslash, CR, LF, NUL, 8-bit UTF-8, invalid UTF-8, 4096 and 4097 bytes, empty}; the server delays every continuation request (payload before '+' is a violation) and in a second pass refuses every synchronising literal with a tagged NO or BAD [TOOBIG], alternating (any payload byte afterwards is a violation; other commands and the connection must stay usable); in a third pass only the first literal of LOGIN, RENAME and APPEND (its mailbox name, message of 11 and 5000 bytes) is refused: no byte of the command may follow and the next literal must get its own continuation request. The string classes include multi-byte strings above 4096 bytes but below 4096 characters (2049 x e-acute, 1400 x euro sign + LF). A further history pass varies the server's ANSWER to ENABLE UTF8=ACCEPT (ENABLED naming it, empty ENABLED, ENABLED of another capability, bare OK, NO, BAD; UTF8=ACCEPT advertised or not): 8-bit quoted strings are legal afterwards only if the server's ENABLED named UTF8=ACCEPT. Every received command is scanned by an independent tokenizer against the advertised capabilities; the exact bytes of string-only commands are re-derived by the model inside Coq. Non-trivial = the argument needed a literal or 8-bit quoting; distinct by (caps, command, argument).")

	cfgs := []capCfg{{"IMAP4rev1", false}, {"IMAP4rev1 LITERAL-", false}, {"IMAP4rev1 LITERAL+", false}, {"IMAP4rev2", false},
		{"IMAP4rev1 IMAP4rev2", false}, {"IMAP4rev1 ENABLE UTF8=ACCEPT", false}, {"IMAP4rev1 ENABLE UTF8=ACCEPT", true}, {"IMAP4rev1 ENABLE UTF8=ACCEPT LITERAL+", true},
		// UTF8=ONLY advertised but nothing enabled: 8-bit quoting is still not allowed
		{"IMAP4rev1 ENABLE UTF8=ONLY", false}, {"IMAP4rev1 ENABLE UTF8=ONLY LITERAL-", false}}
	strs := []string{"abc", "a b", `a"b`, `a\b`, "a\rb", "a\nb", "a\x00b", "é", "a\xffb", "", strings.Repeat("x", 4096), strings.Repeat("y", 4097), "x\r\nA9 LOGOUT"}
	if h.Thorough() {
		strs = append(strs, strings.Repeat("é", 2048), "\"", "\\", "\r", "\n", " ", "{5}", "{5+}\r\n")
	}
	// the 4096 threshold is one of BYTES: multi-byte strings whose byte length is above it while
	// their character count is below it, with and without a character that forces a literal even
	// under UTF-8 quoting (quick tier: first pass only, they cost large literals)
	// quick tier: one astring command, one mailbox command and SEARCH get them
	wideOps := map[string]bool{"LOGIN": true, "SELECT": true, "SEARCH": true}
	wide := []string{strings.Repeat("é", 2049), strings.Repeat("€", 1400) + "\n"}
	if h.Thorough() {
		wide = append(wide, strings.Repeat("é", 4096), strings.Repeat("é", 4097), strings.Repeat("\U0001F600", 1025), "\r"+strings.Repeat("ü", 2048))
	}

	type op struct {
		name string
		run  func(c *imapclient.Client, s string) error
		// model arguments: kinds "s" astring, "m" mailbox
		kinds string
		wire  string
	}
	ops := []op{
		{"LOGIN", func(c *imapclient.Client, s string) error { return c.Login(s, "pw").Wait() }, "ss", "LOGIN"},
		{"SELECT", func(c *imapclient.Client, s string) error { _, err := c.Select(s, nil).Wait(); return err }, "m", "SELECT"},
		{"EXAMINE", func(c *imapclient.Client, s string) error {
			_, err := c.Select(s, &imap.SelectOptions{ReadOnly: true}).Wait()
			return err
		}, "m", "EXAMINE"},
		{"CREATE", func(c *imapclient.Client, s string) error { return c.Create(s, nil).Wait() }, "m", "CREATE"},
		{"DELETE", func(c *imapclient.Client, s string) error { return c.Delete(s).Wait() }, "m", "DELETE"},
		{"RENAME", func(c *imapclient.Client, s string) error { return c.Rename(s, "other").Wait() }, "mm", "RENAME"},
		{"SUBSCRIBE", func(c *imapclient.Client, s string) error { return c.Subscribe(s).Wait() }, "m", "SUBSCRIBE"},
		{"UNSUBSCRIBE", func(c *imapclient.Client, s string) error { return c.Unsubscribe(s).Wait() }, "m", "UNSUBSCRIBE"},
		{"STATUS", func(c *imapclient.Client, s string) error {
			_, err := c.Status(s, &imap.StatusOptions{NumMessages: true}).Wait()
			return err
		}, "", ""},
		{"COPY", func(c *imapclient.Client, s string) error { _, err := c.Copy(imap.SeqSetNum(1), s).Wait(); return err }, "", ""},
		{"MOVE", func(c *imapclient.Client, s string) error { _, err := c.Move(imap.SeqSetNum(1), s).Wait(); return err }, "", ""},
		{"LIST", func(c *imapclient.Client, s string) error { _, err := c.List("", s, nil).Collect(); return err }, "", ""},
		{"SEARCH", func(c *imapclient.Client, s string) error {
			_, err := c.Search(&imap.SearchCriteria{Body: []string{s}, Header: []imap.SearchCriteriaHeaderField{{Key: "Subject", Value: s}}}, nil).Wait()
			return err
		}, "", ""},
		// RFC 7162 search-modseq-ext: the entry name is a quoted string on the wire, so the same
		// rules apply to it as to every other string argument (kept last: on a client that writes
		// it unchecked the injected line kills the connection)
		{"SEARCH-MODSEQ", func(c *imapclient.Client, s string) error {
			_, err := c.Search(&imap.SearchCriteria{ModSeq: &imap.SearchCriteriaModSeq{ModSeq: 5, MetadataName: s, MetadataType: imap.SearchCriteriaMetadataAll}}, nil).Wait()
			return err
		}, "", ""},
	}

	for pass := 0; pass < 2; pass++ {
		refuse := pass == 1
		for _, cfg := range cfgs {
			peer := newPeer("* OK [CAPABILITY " + cfg.Caps + "] ready\r\n")
			idleTag := ""
			refusals := 0
			peer.ContDelay = 15 * time.Millisecond
			peer.OnLiteral = func(p *scriptedPeer, c *peerCmd, size int) string {
				if refuse {
					refusals++
					if refusals%2 == 0 {
						return "BAD [TOOBIG] literal refused"
					}
					return "NO literal refused"
				}
				return ""
			}
			peer.OnCommand = func(p *scriptedPeer, c *peerCmd) {
				switch {
				case c.Name == "ENABLE":
					p.Send("* ENABLED UTF8=ACCEPT\r\n" + c.Tag + " OK done\r\n")
				case c.Name == "IDLE":
					idleTag = c.Tag
					p.Send("+ idling\r\n")
				case c.Tag == "DONE":
					p.Send(idleTag + " OK done\r\n")
				case c.Name == "CAPABILITY":
					p.Send("* CAPABILITY " + cfg.Caps + "\r\n" + c.Tag + " OK done\r\n")
				case c.Name == "LOGIN":
					// keep the capability set stable (a LOGIN OK without the code makes the client
					// forget it and ask again, which would make its choices timing dependent)
					p.Send(c.Tag + " OK [CAPABILITY " + cfg.Caps + "] done\r\n")
				case c.Name == "SEARCH":
					p.Send("* SEARCH\r\n" + c.Tag + " OK done\r\n")
				default:
					p.Send(c.Tag + " OK done\r\n")
				}
			}
			client, _ := peer.dialClient(nil)
			if err := client.WaitGreeting(); err != nil {
				h.Fail("greeting", err.Error(), cfg)
				continue
			}
			if cfg.Enable {
				if _, err := client.Enable(imap.CapUTF8Accept).Wait(); err != nil {
					h.Fail("enable", err.Error(), cfg)
				}
			}
			dead := false
			passStrs := strs
			if !refuse || h.Thorough() {
				passStrs = append(append([]string(nil), strs...), wide...)
			}
			for _, o := range ops {
				for si, s := range passStrs {
					if dead {
						break
					}
					if si >= len(strs) && !h.Thorough() && !wideOps[o.name] {
						continue
					}
					desc := map[string]interface{}{"caps": cfg, "command": o.name, "arg_hex": fmt.Sprintf("%x", s[:min(len(s), 64)]), "arg_bytes": len(s), "arg_runes": utf8.RuneCountInString(s), "refuse_literals": refuse}
					h.InFlight(desc)
					before := len(peer.Commands())
					var err error
					if !withTimeout(5*time.Second, func() { err = o.run(client, s) }) {
						h.Fail("client-hang:"+o.name, fmt.Sprintf("%s(%q) did not return", o.name, s), desc)
						dead = true
						break
					}
					cmds := peer.Commands()[before:]
					nontrivial := false
					for _, c := range cmds {
						if len(c.Lits) > 0 || strings.ContainsAny(c.Line, "\x80\xc3\xff") {
							nontrivial = true
						}
						for _, b := range checkLegal(cfg, c) {
							desc["sent"] = string(c.Raw)
							sig := "illegal-output:" + strings.SplitN(b, ":", 2)[0]
							if o.name == "SEARCH-MODSEQ" {
								sig += ":search-modseq-entry-name"
							}
							h.Fail(sig, fmt.Sprintf("%s(%q) under [%s enabled=%v]: %s", o.name, s, cfg.Caps, cfg.Enable, b), desc)
						}
					}
					if refuse {
						// a refusal of its literal may fail this command, but must not kill the client
						if st := client.State(); st == imap.ConnStateLogout {
							h.Fail("refusal-kills-client", fmt.Sprintf("after the server refused the literal of %s(%q) with a tagged NO the whole client is closed (state logout)", o.name, s), desc)
							dead = true
						}
					} else if err != nil {
						// every command is answered OK by the peer
						if _, ok := err.(*imap.Error); !ok {
							h.Fail("command-error:"+o.name, fmt.Sprintf("%s(%q): %v", o.name, s, err), desc)
							if client.State() == imap.ConnStateLogout {
								dead = true
							}
						}
					}
					key := ""
					if nontrivial {
						key = fmt.Sprintf("%v|%s|%x|%v", cfg, o.name, s, refuse)
					}
					h.Eval(key)
					h.Hist("cmd:" + o.name)
					// model: exact bytes of string-only commands (first pass only: all literals granted)
					if !refuse && o.kinds != "" && len(cmds) == 1 {
						args := []string{}
						vals := []string{s, "pw"}
						if o.name == "RENAME" {
							vals = []string{s, "other"}
						}
						for i, k := range o.kinds {
							if k == 's' {
								args = append(args, "(CAString "+coqHxS(vals[i])+")")
							} else {
								args = append(args, "(CAMailbox "+coqHxS(vals[i])+")")
							}
						}
						corr.Add(fmt.Sprintf("(%s, %s, %s, %s, %s, %s, %s)", coqList(capTerms(cfg)), coqBool(cfg.Enable), coqHxS(cmds[0].Tag), coqHxS(o.wire), coqList(args), coqHx(cmds[0].Raw), coqBool(true)), desc)
					}
					if nontrivial && h.Rng.Intn(60) == 0 {
						h.Sample(map[string]interface{}{"caps": cfg.Caps, "command": o.name, "arg": s, "sent": string(cmds[0].Raw[:min(len(cmds[0].Raw), 80)])})
					}
				}
			}
			// APPEND sizes
			for _, n := range []int{0, 1, 4095, 4096, 4097, 5000} {
				if dead {
					break
				}
				desc := map[string]interface{}{"caps": cfg, "command": "APPEND", "size": n, "refuse_literals": refuse}
				h.InFlight(desc)
				before := len(peer.Commands())
				ok := withTimeout(5*time.Second, func() {
					ac := client.Append("box", int64(n), nil)
					ac.Write([]byte(strings.Repeat("z", n)))
					ac.Close()
					ac.Wait()
				})
				if !ok {
					h.Fail("client-hang:APPEND", fmt.Sprintf("APPEND of %d bytes did not return", n), desc)
					dead = true
					break
				}
				for _, c := range peer.Commands()[before:] {
					for _, b := range checkLegal(cfg, c) {
						desc["sent"] = string(c.Raw[:min(len(c.Raw), 100)])
						h.Fail("illegal-output:"+strings.SplitN(b, ":", 2)[0], fmt.Sprintf("APPEND(%d) under [%s]: %s", n, cfg.Caps, b), desc)
					}
				}
				if refuse && client.State() == imap.ConnStateLogout {
					h.Fail("refusal-kills-client", fmt.Sprintf("after the server refused the literal of APPEND(%d) with a tagged NO the whole client is closed", n), desc)
					dead = true
				}
				h.Eval(fmt.Sprintf("%v|APPEND|%d|%v", cfg, n, refuse))
				h.Hist("cmd:APPEND")
			}
			for _, v := range peer.Violations() {
				h.Fail("literal-sync", v, map[string]interface{}{"caps": cfg, "refuse_literals": refuse})
			}
			withTimeout(3*time.Second, func() { client.Close() })
			peer.Close()
		}
	}

	// history: ENABLE UTF8=ACCEPT, then UNAUTHENTICATE (RFC 8437: the enabled extensions are
	// reset): afterwards 8-bit strings must again go out as literals, not as UTF-8 quoted strings
	{
		cfg := capCfg{"IMAP4rev1 ENABLE UTF8=ACCEPT UNAUTHENTICATE", true}
		peer := newPeer("* OK [CAPABILITY " + cfg.Caps + "] ready\r\n")
		peer.ContDelay = 5 * time.Millisecond
		peer.OnCommand = func(p *scriptedPeer, c *peerCmd) {
			switch {
			case c.Name == "ENABLE":
				p.Send("* ENABLED UTF8=ACCEPT\r\n" + c.Tag + " OK done\r\n")
			case c.Name == "CAPABILITY":
				p.Send("* CAPABILITY " + cfg.Caps + "\r\n" + c.Tag + " OK done\r\n")
			case c.Name == "LOGIN" || c.Name == "UNAUTHENTICATE":
				p.Send(c.Tag + " OK [CAPABILITY " + cfg.Caps + "] done\r\n")
			case c.Name == "SEARCH":
				p.Send("* SEARCH\r\n" + c.Tag + " OK done\r\n")
			default:
				p.Send(c.Tag + " OK done\r\n")
			}
		}
		client, _ := peer.dialClient(nil)
		if err := client.WaitGreeting(); err != nil {
			h.Fail("greeting", err.Error(), cfg)
		} else {
			steps := []struct {
				name    string
				enabled bool
				run     func() error
			}{
				{"LOGIN", false, func() error { return client.Login("u", "p").Wait() }},
				{"ENABLE", false, func() error { _, err := client.Enable(imap.CapUTF8Accept).Wait(); return err }},
				{"CREATE-8bit-enabled", true, func() error { return client.Create("bôx", nil).Wait() }},
				{"UNAUTHENTICATE", true, func() error { return client.Unauthenticate().Wait() }},
				{"LOGIN-8bit-after-unauthenticate", false, func() error { return client.Login("rené", "päss").Wait() }},
				{"SEARCH-8bit-after-unauthenticate", false, func() error {
					_, err := client.Search(&imap.SearchCriteria{Body: []string{"café"}}, nil).Wait()
					return err
				}},
				{"ENABLE-again", false, func() error { _, err := client.Enable(imap.CapUTF8Accept).Wait(); return err }},
				{"CREATE-8bit-enabled-again", true, func() error { return client.Create("bôx2", nil).Wait() }},
			}
			for _, st := range steps {
				desc := map[string]interface{}{"caps": cfg.Caps, "history_step": st.name, "utf8_enabled_before": st.enabled}
				h.InFlight(desc)
				before := len(peer.Commands())
				var err error
				if !withTimeout(5*time.Second, func() { err = st.run() }) {
					h.Fail("client-hang:"+st.name, st.name+" did not return", desc)
					break
				}
				if err != nil {
					h.Fail("command-error:"+st.name, fmt.Sprintf("%s: %v", st.name, err), desc)
				}
				for _, c := range peer.Commands()[before:] {
					for _, b := range checkLegal(capCfg{cfg.Caps, st.enabled}, c) {
						desc["sent"] = string(c.Raw)
						h.Fail("illegal-output:"+strings.SplitN(b, ":", 2)[0]+":after-unauthenticate", fmt.Sprintf("%s under [%s], UTF8=ACCEPT enabled=%v at that point: %s", st.name, cfg.Caps, st.enabled, b), desc)
					}
				}
				h.Eval("unauth-history|" + st.name)
				h.Hist("cmd:history-" + st.name)
			}
			for _, v := range peer.Violations() {
				h.Fail("literal-sync", v, map[string]interface{}{"caps": cfg, "history": "enable-unauthenticate"})
			}
		}
		withTimeout(3*time.Second, func() { client.Close() })
		peer.Close()
	}

	// history: what the server ANSWERS to ENABLE UTF8=ACCEPT decides whether UTF8=ACCEPT is enabled,
	// not what the client asked for: only an untagged ENABLED naming it, followed by a tagged OK,
	// enables it. A bare tagged OK (RFC 5161: unknown names are silently ignored), an empty
	// ENABLED, an ENABLED naming something else, NO and BAD leave it off, whether or not the
	// server advertised UTF8=ACCEPT; afterwards 8-bit strings must still go out as literals
	{
		type enableAnswer struct {
			name, untagged, status string
			enables                bool
		}
		answers := []enableAnswer{
			{"ENABLED UTF8=ACCEPT + OK", "* ENABLED UTF8=ACCEPT\r\n", "OK done", true},
			{"empty ENABLED + OK", "* ENABLED\r\n", "OK done", false},
			{"bare OK", "", "OK done", false},
			{"bare OK with text naming the capability", "", "OK UTF8=ACCEPT noted", false},
			{"ENABLED of another capability + OK", "* ENABLED CONDSTORE\r\n", "OK done", false},
			{"NO", "", "NO not now", false},
			{"BAD", "", "BAD unknown command", false},
		}
		requests := [][]imap.Cap{{imap.CapUTF8Accept}, {imap.CapMetadata, imap.CapUTF8Accept}}
		for ci, caps := range []string{"IMAP4rev1 ENABLE", "IMAP4rev1 ENABLE UTF8=ACCEPT", "IMAP4rev1 ENABLE LITERAL- QUOTA"} {
			for ai, ans := range answers {
				// quick tier: one of the two request shapes per answer, alternating
				reqs := requests
				if !h.Thorough() {
					reqs = requests[(ai+ci)%2 : (ai+ci)%2+1]
				}
				for _, req := range reqs {
					ans := ans
					peer := newPeer("* OK [CAPABILITY " + caps + "] ready\r\n")
					peer.ContDelay = 2 * time.Millisecond
					peer.OnCommand = func(p *scriptedPeer, c *peerCmd) {
						switch {
						case c.Name == "ENABLE":
							p.Send(ans.untagged + c.Tag + " " + ans.status + "\r\n")
						case c.Name == "CAPABILITY":
							p.Send("* CAPABILITY " + caps + "\r\n" + c.Tag + " OK done\r\n")
						case c.Name == "LOGIN":
							p.Send(c.Tag + " OK [CAPABILITY " + caps + "] done\r\n")
						case c.Name == "SEARCH":
							p.Send("* SEARCH\r\n" + c.Tag + " OK done\r\n")
						default:
							p.Send(c.Tag + " OK done\r\n")
						}
					}
					client, _ := peer.dialClient(nil)
					base := map[string]interface{}{"caps": caps, "enable_request": fmt.Sprint(req), "enable_answer": ans.name, "server_enabled_utf8": ans.enables}
					if err := client.WaitGreeting(); err != nil {
						h.Fail("greeting", err.Error(), base)
						peer.Close()
						continue
					}
					steps := []struct {
						name    string
						enabled bool
						run     func() error
					}{
						{"LOGIN", false, func() error { return client.Login("u", "p").Wait() }},
						{"ENABLE", false, func() error {
							_, err := client.Enable(req...).Wait()
							if _, refused := err.(*imap.Error); refused {
								return nil // NO / BAD is the scripted answer
							}
							return err
						}},
						{"NOOP", ans.enables, func() error { return client.Noop().Wait() }},
						{"SEARCH-8bit", ans.enables, func() error {
							_, err := client.Search(&imap.SearchCriteria{Text: []string{"café"}, Header: []imap.SearchCriteriaHeaderField{{Key: "Subject", Value: "naïve"}}}, nil).Wait()
							return err
						}},
						{"CREATE-8bit", ans.enables, func() error { return client.Create("bôx", nil).Wait() }},
						{"LOGIN-8bit", ans.enables, func() error { return client.Login("rené", "päss").Wait() }},
						{"RENAME-8bit", ans.enables, func() error { return client.Rename("bôx", "cœur").Wait() }},
					}
					for _, st := range steps {
						desc := map[string]interface{}{"history_step": st.name}
						for k, v := range base {
							desc[k] = v
						}
						h.InFlight(desc)
						before := len(peer.Commands())
						var err error
						if !withTimeout(5*time.Second, func() { err = st.run() }) {
							h.Fail("client-hang:"+st.name, st.name+" did not return", desc)
							break
						}
						if err != nil {
							h.Fail("command-error:"+st.name, fmt.Sprintf("%s: %v", st.name, err), desc)
						}
						nontrivial := false
						for _, c := range peer.Commands()[before:] {
							if len(c.Lits) > 0 || strings.ContainsAny(c.Line, "\xc3\xc5") {
								nontrivial = true
							}
							for _, b := range checkLegal(capCfg{caps, st.enabled}, c) {
								desc["sent"] = string(c.Raw)
								h.Fail("illegal-output:"+strings.SplitN(b, ":", 2)[0]+":enable-answer", fmt.Sprintf("%s under [%s] after ENABLE %v was answered with %s (UTF8=ACCEPT enabled by the server: %v): %s", st.name, caps, req, ans.name, st.enabled, b), desc)
							}
						}
						key := ""
						if nontrivial {
							key = fmt.Sprintf("enable-answer|%s|%s|%v|%s", caps, ans.name, req, st.name)
						}
						h.Eval(key)
						h.Hist("cmd:enable-answer-" + st.name)
					}
					for _, v := range peer.Violations() {
						h.Fail("literal-sync", v, base)
					}
					withTimeout(3*time.Second, func() { client.Close() })
					peer.Close()
				}
			}
		}
	}

	// history: LITERAL+ advertised before LOGIN, the LOGIN OK carries no capability code (so the
	// client must ask again) and the new capability list, without LITERAL+, arrives late: an
	// APPEND written in between must not assume the old capabilities
	{
		pre := "IMAP4rev1 LITERAL+"
		post := "IMAP4rev1"
		peer := newPeer("* OK [CAPABILITY " + pre + "] ready\r\n")
		loggedIn := false
		var held []string
		var hmu sync.Mutex
		peer.OnCommand = func(p *scriptedPeer, c *peerCmd) {
			switch {
			case c.Name == "LOGIN":
				loggedIn = true
				p.Send(c.Tag + " OK logged in\r\n")
			case c.Name == "CAPABILITY" && loggedIn:
				// answered only after the APPEND has been seen (or after a while)
				hmu.Lock()
				held = append(held, c.Tag)
				hmu.Unlock()
			case c.Name == "CAPABILITY":
				p.Send("* CAPABILITY " + pre + "\r\n" + c.Tag + " OK done\r\n")
			default:
				p.Send(c.Tag + " OK done\r\n")
			}
		}
		release := func() {
			hmu.Lock()
			for _, t := range held {
				peer.Send("* CAPABILITY " + post + "\r\n" + t + " OK done\r\n")
			}
			held = nil
			hmu.Unlock()
		}
		client, _ := peer.dialClient(nil)
		desc := map[string]interface{}{"history": "LITERAL+ before LOGIN, none after, CAPABILITY reply delayed", "caps_before": pre, "caps_after": post}
		h.InFlight(desc)
		if err := client.WaitGreeting(); err != nil {
			h.Fail("greeting", err.Error(), desc)
		} else if err := client.Login("u", "p").Wait(); err != nil {
			h.Fail("command-error:LOGIN", err.Error(), desc)
		} else {
			before := len(peer.Commands())
			done := make(chan struct{})
			go func() {
				defer close(done)
				payload := []byte("Subject: x\r\n\r\nhello\r\n")
				ac := client.Append("Drafts", int64(len(payload)), nil)
				ac.Write(payload)
				ac.Close()
				ac.Wait()
			}()
			// let the APPEND header (and, if the client is wrong, its payload) arrive first
			time.Sleep(150 * time.Millisecond)
			release()
			go func() {
				for i := 0; i < 40; i++ {
					time.Sleep(50 * time.Millisecond)
					release()
				}
			}()
			select {
			case <-done:
			case <-time.After(5 * time.Second):
				var seen []string
				for _, c := range peer.Commands() {
					seen = append(seen, c.Tag+" "+c.Name+" "+fmt.Sprint(len(c.Lits)))
				}
				desc["peer_saw"] = seen
				h.Fail("client-hang:APPEND", "APPEND after LOGIN did not return", desc)
			}
			for _, c := range peer.Commands()[before:] {
				if c.Name != "APPEND" {
					continue
				}
				for _, b := range checkLegal(capCfg{post, false}, c) {
					desc["sent"] = string(c.Raw[:min(len(c.Raw), 100)])
					h.Fail("illegal-output:"+strings.SplitN(b, ":", 2)[0]+":stale-capabilities", "APPEND written after LOGIN, before the new capability list arrived: "+b, desc)
				}
			}
			h.Eval("stale-caps-after-login")
			h.Hist("cmd:history-stale-capabilities")
		}
		for _, v := range peer.Violations() {
			h.Fail("literal-sync", v, desc)
		}
		withTimeout(3*time.Second, func() { client.Close() })
		peer.Close()
	}

	// third pass: the server refuses only the FIRST literal of a command with two string
	// arguments; the command fails, nothing of it may follow, and the next literal-bearing
	// command must get its own continuation request (none may be left over for the dead command)
	for _, cfg := range cfgs {
		peer := newPeer("* OK [CAPABILITY " + cfg.Caps + "] ready\r\n")
		peer.ContDelay = 5 * time.Millisecond
		peer.OnLiteral = func(p *scriptedPeer, c *peerCmd, size int) string {
			if (c.Name == "LOGIN" || c.Name == "RENAME") && len(c.Lits) == 0 {
				return "NO literal refused"
			}
			// APPEND: the literal of the mailbox name (the only one above 4096 bytes here)
			if c.Name == "APPEND" && len(c.Lits) == 0 && size > 4096 {
				return "NO name too long"
			}
			return ""
		}
		peer.OnCommand = func(p *scriptedPeer, c *peerCmd) {
			switch {
			case c.Name == "CAPABILITY":
				p.Send("* CAPABILITY " + cfg.Caps + "\r\n" + c.Tag + " OK done\r\n")
			case c.Name == "LOGIN":
				p.Send(c.Tag + " OK [CAPABILITY " + cfg.Caps + "] done\r\n")
			default:
				p.Send(c.Tag + " OK done\r\n")
			}
		}
		client, _ := peer.dialClient(nil)
		if err := client.WaitGreeting(); err != nil {
			h.Fail("greeting", err.Error(), cfg)
			continue
		}
		dead := false
		for _, two := range []string{"LOGIN", "RENAME", "APPEND", "APPEND-5000"} {
			for _, s := range []string{"a\rb", "c\nd", strings.Repeat("q", 4097)} {
				if dead {
					break
				}
				if strings.HasPrefix(two, "APPEND") && len(s) <= 4096 {
					continue // the mailbox name goes out as a quoted (modified UTF-7) string
				}
				desc := map[string]interface{}{"caps": cfg, "command": two, "arg_hex": fmt.Sprintf("%x", s), "refuse_first_literal": true}
				h.InFlight(desc)
				before := len(peer.Commands())
				if !withTimeout(5*time.Second, func() {
					switch two {
					case "LOGIN":
						client.Login(s, s).Wait()
					case "RENAME":
						client.Rename(s, s).Wait()
					default:
						// the mailbox name is the first literal; the message is the second one
						n := 11
						if two == "APPEND-5000" {
							n = 5000
						}
						ac := client.Append(s, int64(n), nil)
						ac.Write([]byte(strings.Repeat("hello world", n)[:n]))
						ac.Close()
						ac.Wait()
					}
				}) {
					h.Fail("client-hang:"+two, fmt.Sprintf("%s(%q, %q) did not return after its first literal was refused", two, s, s), desc)
					dead = true
					break
				}
				if client.State() == imap.ConnStateLogout {
					h.Fail("refusal-kills-client", fmt.Sprintf("after the server refused the first literal of %s the whole client is closed", two), desc)
					dead = true
					break
				}
				// the next literal-bearing command must go through
				var aerr error
				ok := withTimeout(5*time.Second, func() {
					ac := client.Append("box", 3, nil)
					ac.Write([]byte("abc"))
					ac.Close()
					_, aerr = ac.Wait()
				})
				sync := false
				// nothing of the refused command may follow its refusal: whatever the peer read
				// afterwards has to be a new command of the client ("T<n> ...")
				leaked := false
				for i, c := range peer.Commands()[before:] {
					if i > 0 && !reClientTag.Match(c.Raw) {
						leaked = true
						desc["received_after_refusal"] = string(c.Raw[:min(len(c.Raw), 100)])
						h.Fail("payload-after-refusal:"+two, fmt.Sprintf("the server refused the first literal of %s (the mailbox name) with a tagged NO, yet bytes of that command reached it afterwards: the next thing it read was %q", two, string(c.Raw[:min(len(c.Raw), 60)])), desc)
						break
					}
				}
				if leaked {
					dead = true // the stream is out of step from here on
					break
				}
				for _, c := range peer.Commands()[before:] {
					for _, l := range c.Lits {
						if !l.NonSync {
							sync = true
						}
					}
					for _, b := range checkLegal(cfg, c) {
						h.Fail("illegal-output:"+strings.SplitN(b, ":", 2)[0], fmt.Sprintf("%s under [%s]: %s", c.Name, cfg.Caps, b), desc)
					}
				}
				if !ok {
					h.Fail("stale-continuation:"+two, fmt.Sprintf("after the first literal of %s(%q, %q) was refused with a tagged NO, the next command (APPEND {3}) never sent its literal although the server sent '+': a continuation request of the dead command swallowed it", two, s, s), desc)
					dead = true
				} else if aerr != nil {
					h.Fail("stale-continuation:"+two, fmt.Sprintf("APPEND after a refused %s literal failed: %v", two, aerr), desc)
				}
				key := ""
				if sync {
					key = fmt.Sprintf("%v|%s2|%x|first-refused", cfg, two, s)
				}
				h.Eval(key)
				h.Hist("cmd:" + two + "-first-literal-refused")
			}
		}
		for _, v := range peer.Violations() {
			h.Fail("literal-sync", v, map[string]interface{}{"caps": cfg, "refuse_first_literal": true})
		}
		withTimeout(3*time.Second, func() { client.Close() })
		peer.Close()
	}
}

// reClientTag matches the start of a command of the real client (tags are T1, T2, ...).
var reClientTag = regexp.MustCompile(`^T[0-9]+ `)

func capTerms(c capCfg) []string {
	var out []string
	for _, f := range strings.Fields(c.Caps) {
		out = append(out, coqHxS(f))
	}
	return out
}

func min(a, b int) int {
	if a < b {
		return a
	}
	return b
}
