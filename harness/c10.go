package main

import (
	"errors"
	"fmt"
	"io"
	"net"
	"os"
	"regexp"
	"runtime"
	"strings"
	"sync"
	"time"

	imap "github.com/emersion/go-imap/v2"
	"github.com/emersion/go-imap/v2/imapclient"
	"github.com/emersion/go-sasl"
)

func init() { runners["C10"] = runC10 }

// faultConn wraps the client's connection and injects one fault: after cutRead bytes have
// been delivered to the client (or cutWrite bytes accepted from it) the connection behaves
// according to mode. Deadlines are emulated in virtual time: a stalled read with a deadline
// set fails at once with a timeout error ("time passes until the deadline"), a stalled read
// without deadline blocks until Close.
type faultConn struct {
	net.Conn
	mode     string // eof | readerr | stall | writeerr | none
	lastByte byte   // last byte delivered to the client
	cutRead  int
	cutWrite int

	mu        sync.Mutex
	nRead     int
	nWrite    int
	readDL    time.Time
	closed    chan struct{}
	closeOnce sync.Once
	faulted   bool
}

var errInjected = errors.New("injected connection error")

type timeoutErr struct{}

func (timeoutErr) Error() string   { return "i/o timeout (virtual)" }
func (timeoutErr) Timeout() bool   { return true }
func (timeoutErr) Temporary() bool { return true }
func (timeoutErr) Unwrap() error   { return os.ErrDeadlineExceeded }

func (f *faultConn) Read(b []byte) (int, error) {
	f.mu.Lock()
	left := f.cutRead - f.nRead
	mode := f.mode
	f.mu.Unlock()
	if (mode == "eof" || mode == "readerr" || mode == "stall") && left <= 0 {
		f.mu.Lock()
		f.faulted = true
		dl := f.readDL
		f.mu.Unlock()
		switch mode {
		case "eof":
			return 0, io.EOF
		case "readerr":
			return 0, errInjected
		default:
			if !dl.IsZero() {
				return 0, timeoutErr{}
			}
			// no deadline: block until the client closes the connection, polling for a deadline
			for {
				select {
				case <-f.closed:
					return 0, net.ErrClosed
				case <-time.After(2 * time.Millisecond):
					f.mu.Lock()
					dl = f.readDL
					f.mu.Unlock()
					if !dl.IsZero() {
						return 0, timeoutErr{}
					}
				}
			}
		}
	}
	if (mode == "eof" || mode == "readerr" || mode == "stall") && len(b) > left {
		b = b[:left]
	}
	n, err := f.Conn.Read(b)
	f.mu.Lock()
	f.nRead += n
	if n > 0 {
		f.lastByte = b[n-1]
	}
	f.mu.Unlock()
	return n, err
}

func (f *faultConn) Write(b []byte) (int, error) {
	f.mu.Lock()
	mode := f.mode
	left := f.cutWrite - f.nWrite
	f.mu.Unlock()
	if mode == "writeerr" {
		if left <= 0 {
			f.mu.Lock()
			f.faulted = true
			f.mu.Unlock()
			return 0, errInjected
		}
		if len(b) > left {
			n, _ := f.Conn.Write(b[:left])
			f.mu.Lock()
			f.nWrite += n
			f.faulted = true
			f.mu.Unlock()
			return n, errInjected
		}
	}
	n, err := f.Conn.Write(b)
	f.mu.Lock()
	f.nWrite += n
	f.mu.Unlock()
	return n, err
}

func (f *faultConn) SetReadDeadline(t time.Time) error {
	f.mu.Lock()
	f.readDL = t
	f.mu.Unlock()
	return nil
}
func (f *faultConn) SetDeadline(t time.Time) error      { return f.SetReadDeadline(t) }
func (f *faultConn) SetWriteDeadline(t time.Time) error { return nil }
func (f *faultConn) Close() error {
	f.closeOnce.Do(func() { close(f.closed) })
	return f.Conn.Close()
}

// an operation of the corpus: what the caller does, and how the scripted server answers
type c10Op struct {
	name string
	// run performs the operation and returns nil on success
	run func(c *imapclient.Client) error
	// answer produces the server's reply to a received command
	answer func(p *scriptedPeer, c *peerCmd)
}

var reTagLine = regexp.MustCompile(`^T(\d+) (OK|NO|BAD)`)

func runC10(h *H) {
	imports := []string{"From GoImap.Base Require Import Bytes.", "From GoImap.Model Require Import ClientConn ClientConnCorr."}
	corr := h.NewCorr("faults", imports, "cc_mismatches", 400).Type("cc_case")
	h.Rule("for each operation of a corpus covering the client's blocking calls (NOOP, LOGIN, SELECT, LIST with Collect, FETCH with a body literal consumed through Next/LiteralReader, FETCH of a message with 40 data items (more than the per-message channel holds), APPEND with a synchronising literal, IDLE start/Close, SEARCH, STATUS, EXPUNGE, STORE, COPY, AUTHENTICATE PLAIN, two pipelined commands, AUTHENTICATE PLAIN whose empty challenge and tagged NO arrive in one segment, Move on a server without MOVE (COPY + STORE + EXPUNGE pipelined) whose COPY is refused while the EXPUNGE reports 140 messages, NOOP and a pipelined NOOP/FETCH/STATUS answered after an unsolicited BYE) the scripted server's complete reply is cut at EVERY byte offset (quick tier: every offset for EOF, every 3rd for the others) with the fault EOF / read error / stall-until-the-client's-own-deadline (virtual time) / stall-until-Close, plus write errors at every offset of the client's output; the caller's blocking call, Client.Close and the exit of the client's goroutines are each guarded by a watchdog. Oracle: everything returns; a stall in the middle of a response line meets a read deadline of the client (between responses the client waits without one by design); a command whose tagged completion had not fully arrived reports an error. Model: the completed/failed status of every command equals the model's after the delivered response lines followed by the connection loss. Non-trivial = the cut falls before the final tagged line; distinct by (operation, fault, offset).")

	idleTag := ""
	generic := func(p *scriptedPeer, c *peerCmd) {
		switch {
		case c.Name == "CAPABILITY":
			p.Send("* CAPABILITY IMAP4rev1 IDLE\r\n" + c.Tag + " OK done\r\n")
		case c.Name == "LOGIN":
			p.Send(c.Tag + " OK [CAPABILITY IMAP4rev1 IDLE] logged in\r\n")
		case c.Name == "SELECT":
			p.Send("* 3 EXISTS\r\n* 0 RECENT\r\n* FLAGS (\\Seen \\Deleted)\r\n* OK [PERMANENTFLAGS (\\Seen \\*)] perm\r\n* OK [UIDVALIDITY 9] v\r\n* OK [UIDNEXT 4] n\r\n" + c.Tag + " OK [READ-WRITE] selected\r\n")
		case c.Name == "LIST":
			p.Send("* LIST (\\HasNoChildren) \"/\" INBOX\r\n* LIST () \"/\" {5}\r\nother\r\n* LIST (\\Noselect) NIL \"x y\"\r\n" + c.Tag + " OK done\r\n")
		case c.Name == "FETCH":
			p.Send("* 1 FETCH (UID 7 FLAGS (\\Seen) BODY[] {26}\r\nSubject: hi\r\n\r\nhello world)\r\n* 2 FETCH (FLAGS () RFC822.SIZE 12)\r\n" + c.Tag + " OK done\r\n")
		case c.Name == "SEARCH":
			p.Send("* SEARCH 1 2 3\r\n" + c.Tag + " OK done\r\n")
		case c.Name == "STATUS":
			p.Send("* STATUS INBOX (MESSAGES 3 UIDNEXT 4)\r\n" + c.Tag + " OK done\r\n")
		case c.Name == "EXPUNGE":
			p.Send("* 2 EXPUNGE\r\n* 1 EXPUNGE\r\n" + c.Tag + " OK done\r\n")
		case c.Name == "STORE":
			p.Send("* 1 FETCH (FLAGS (\\Seen \\Deleted))\r\n" + c.Tag + " OK done\r\n")
		case c.Name == "COPY":
			p.Send(c.Tag + " OK [COPYUID 5 1:2 8:9] done\r\n")
		case c.Name == "APPEND":
			p.Send(c.Tag + " OK [APPENDUID 5 10] done\r\n")
		case c.Name == "IDLE":
			idleTag = c.Tag
			p.Send("+ idling\r\n* 4 EXISTS\r\n")
		case c.Tag == "DONE":
			p.Send(idleTag + " OK idle done\r\n")
		case c.Name == "AUTHENTICATE":
			p.Send(c.Tag + " OK [CAPABILITY IMAP4rev1 IDLE] authenticated\r\n")
		default:
			p.Send(c.Tag + " OK done\r\n")
		}
	}
	// the server announces that it is going away (unsolicited BYE) in front of the first answer:
	// a connection that then ends before a command's tagged response is still a failure for it
	withBye := func(p *scriptedPeer, c *peerCmd) {
		if c.Name == "NOOP" {
			p.Send("* BYE server shutting down\r\n")
		}
		generic(p, c)
	}
	// one FETCH response with more data items than the client's per-message channel holds (32)
	manyItems := func(p *scriptedPeer, c *peerCmd) {
		if c.Name == "FETCH" {
			var sb strings.Builder
			sb.WriteString("* 1 FETCH (UID 7")
			for i := 1; i <= 40; i++ {
				fmt.Fprintf(&sb, " BINARY.SIZE[%d] %d", i, i*10)
			}
			sb.WriteString(")\r\n* 2 FETCH (FLAGS ())\r\n" + c.Tag + " OK done\r\n")
			p.Send(sb.String())
			return
		}
		generic(p, c)
	}
	// AUTHENTICATE PLAIN without SASL-IR: the server sends its (empty) challenge and, in the same
	// write, refuses the command — the tagged completion overtakes the client's next
	// continuation request
	authRefusedEarly := func(p *scriptedPeer, c *peerCmd) {
		if c.Name == "AUTHENTICATE" {
			p.Send("+ \r\n" + c.Tag + " NO [AUTHENTICATIONFAILED] go away\r\n")
			return
		}
		if strings.HasPrefix(c.Tag, "T") {
			generic(p, c)
		}
		// anything else is the SASL response the client wrote after the refusal: not a command
	}
	// a server without MOVE: Move falls back to COPY + STORE + EXPUNGE, pipelined; the COPY is
	// refused, the STORE and the EXPUNGE (140 messages: more than the EXPUNGE stream buffers) run
	moveFallback := func(p *scriptedPeer, c *peerCmd) {
		switch c.Name {
		case "COPY":
			p.Send(c.Tag + " NO [TRYCREATE] no such mailbox\r\n")
		case "STORE":
			p.Send(c.Tag + " OK stored\r\n")
		case "EXPUNGE":
			p.Send(strings.Repeat("* 1 EXPUNGE\r\n", 140) + c.Tag + " OK expunged\r\n")
		default:
			generic(p, c)
		}
	}
	// the documented outcome of these two operations is the server's NO: everything else is a failure
	wantNo := func(err error) error {
		var ie *imap.Error
		if errors.As(err, &ie) && ie.Type == imap.StatusResponseTypeNo {
			return nil
		}
		if err == nil {
			return fmt.Errorf("reported success although the server answered NO")
		}
		return err
	}
	ops := []c10Op{
		{"authenticate-challenge-then-no", func(c *imapclient.Client) error {
			return wantNo(c.Authenticate(sasl.NewPlainClient("", "u", "p")))
		}, authRefusedEarly},
		{"move-fallback-copy-refused", func(c *imapclient.Client) error {
			var set imap.SeqSet
			set.AddRange(1, 140)
			_, err := c.Move(set, "Nope").Wait()
			if err := wantNo(err); err != nil {
				return err
			}
			// the three commands of the fallback are behind us only if the connection still
			// answers: a NOOP round trip closes the operation
			return c.Noop().Wait()
		}, moveFallback},
		// the same fallback with all three commands succeeding: Wait may report success only
		// once the COPY, the STORE and the EXPUNGE have all been completed by the server
		{"move-fallback-ok", func(c *imapclient.Client) error {
			_, err := c.Move(imap.SeqSetNum(1, 2), "Dest").Wait()
			return err
		}, generic},
		{"noop", func(c *imapclient.Client) error { return c.Noop().Wait() }, generic},
		{"fetch-many-items-collect", func(c *imapclient.Client) error {
			_, err := c.Fetch(imap.SeqSetNum(1, 2), &imap.FetchOptions{UID: true}).Collect()
			return err
		}, manyItems},
		{"fetch-many-items-stream", func(c *imapclient.Client) error {
			cmd := c.Fetch(imap.SeqSetNum(1, 2), &imap.FetchOptions{UID: true})
			for {
				msg := cmd.Next()
				if msg == nil {
					break
				}
				for msg.Next() != nil {
				}
			}
			return cmd.Close()
		}, manyItems},
		{"noop-bye", func(c *imapclient.Client) error { return c.Noop().Wait() }, withBye},
		{"pipelined-bye", func(c *imapclient.Client) error {
			a := c.Noop()
			b := c.Fetch(imap.SeqSetNum(1, 2), &imap.FetchOptions{Flags: true})
			d := c.Status("INBOX", &imap.StatusOptions{NumMessages: true})
			e1 := a.Wait()
			_, e2 := b.Collect()
			_, e3 := d.Wait()
			if e1 != nil {
				return e1
			}
			if e2 != nil {
				return e2
			}
			return e3
		}, withBye},
		{"login", func(c *imapclient.Client) error { return c.Login("u", "p").Wait() }, generic},
		{"select", func(c *imapclient.Client) error { _, err := c.Select("INBOX", nil).Wait(); return err }, generic},
		{"list", func(c *imapclient.Client) error { _, err := c.List("", "*", nil).Collect(); return err }, generic},
		{"fetch-collect", func(c *imapclient.Client) error {
			_, err := c.Fetch(imap.SeqSetNum(1, 2), &imap.FetchOptions{Flags: true, BodySection: []*imap.FetchItemBodySection{{}}}).Collect()
			return err
		}, generic},
		{"fetch-stream", func(c *imapclient.Client) error {
			cmd := c.Fetch(imap.SeqSetNum(1, 2), &imap.FetchOptions{Flags: true, BodySection: []*imap.FetchItemBodySection{{}}})
			for {
				msg := cmd.Next()
				if msg == nil {
					break
				}
				for {
					item := msg.Next()
					if item == nil {
						break
					}
					if bs, ok := item.(imapclient.FetchItemDataBodySection); ok && bs.Literal != nil {
						io.Copy(io.Discard, bs.Literal)
					}
				}
			}
			return cmd.Close()
		}, generic},
		{"append", func(c *imapclient.Client) error {
			ac := c.Append("INBOX", 11, nil)
			ac.Write([]byte("hello world"))
			if err := ac.Close(); err != nil {
				return err
			}
			_, err := ac.Wait()
			return err
		}, generic},
		{"idle", func(c *imapclient.Client) error {
			ic, err := c.Idle()
			if err != nil {
				return err
			}
			time.Sleep(3 * time.Millisecond)
			if err := ic.Close(); err != nil {
				return err
			}
			return ic.Wait()
		}, generic},
		{"search", func(c *imapclient.Client) error { _, err := c.Search(&imap.SearchCriteria{}, nil).Wait(); return err }, generic},
		{"status", func(c *imapclient.Client) error {
			_, err := c.Status("INBOX", &imap.StatusOptions{NumMessages: true, UIDNext: true}).Wait()
			return err
		}, generic},
		{"expunge", func(c *imapclient.Client) error { _, err := c.Expunge().Collect(); return err }, generic},
		{"store", func(c *imapclient.Client) error {
			_, err := c.Store(imap.SeqSetNum(1), &imap.StoreFlags{Op: imap.StoreFlagsAdd, Flags: []imap.Flag{imap.FlagDeleted}}, nil).Collect()
			return err
		}, generic},
		{"copy", func(c *imapclient.Client) error { _, err := c.Copy(imap.SeqSetNum(1, 2), "dest").Wait(); return err }, generic},
		{"authenticate", func(c *imapclient.Client) error { return c.Authenticate(sasl.NewPlainClient("", "u", "p")) }, generic},
		{"pipelined", func(c *imapclient.Client) error {
			a := c.Noop()
			b := c.Status("INBOX", &imap.StatusOptions{NumMessages: true})
			e1 := a.Wait()
			_, e2 := b.Wait()
			if e1 != nil {
				return e1
			}
			return e2
		}, generic},
	}

	baseline := 0
	countClientGoroutines := func() int {
		buf := make([]byte, 1<<20)
		n := runtime.Stack(buf, true)
		c := 0
		for _, g := range strings.Split(string(buf[:n]), "\n\n") {
			if strings.Contains(g, "imapclient.") && !strings.Contains(g, "main.runC10") {
				c++
			}
		}
		return c
	}

	// one run; returns the server bytes delivered in total when there is no fault
	runOne := func(op c10Op, mode string, cut int) int {
		desc := map[string]interface{}{"operation": op.name, "fault": mode, "offset": cut}
		h.InFlight(desc)
		idleTag = ""
		peer := newPeer("* OK [CAPABILITY IMAP4rev1 IDLE] ready\r\n")
		peer.OnCommand = op.answer
		defer peer.Close()
		raw, err := net.Dial("tcp", peer.Addr())
		if err != nil {
			panic(err)
		}
		fc := &faultConn{Conn: raw, mode: mode, cutRead: cut, cutWrite: cut, closed: make(chan struct{})}
		if mode == "none" {
			fc.cutRead, fc.cutWrite = 1<<30, 1<<30
		}
		client := imapclient.New(fc, nil)
		var opErr error
		opDone := make(chan struct{})
		go func() {
			defer close(opDone)
			if err := client.WaitGreeting(); err != nil {
				opErr = err
				return
			}
			opErr = op.run(client)
		}()
		returned := false
		grace := 4 * time.Second
		if mode == "stall" {
			// a stall that meets no deadline of the client lasts until the caller closes it
			grace = 150 * time.Millisecond
		}
		select {
		case <-opDone:
			returned = true
		case <-time.After(grace):
		}
		closedEarly := false
		if !returned && mode == "stall" {
			closedEarly = true
			// the client arms a read deadline for every read (idle, response, literal): a stall
			// that meets none would hang until somebody else closes the client
			// between responses the client waits without a deadline by design (idleReadTimeout = 0);
			// once a response line has begun it arms a read deadline: a stall in the middle of a
			// line that meets none would hang until somebody else closes the client
			fc.mu.Lock()
			midLine := fc.nRead > 0 && fc.lastByte != '\n'
			fc.mu.Unlock()
			if midLine {
				h.Fail("stall-without-deadline:"+op.name, fmt.Sprintf("%s: the server stalled in the middle of a response line (byte offset %d of its reply) and the client had no read deadline armed: the call only returned because the caller closed the client", op.name, cut), desc)
			} else {
				h.Hist("stall_between_responses_until_close:" + op.name)
			}
			if !withTimeout(4*time.Second, func() { client.Close() }) {
				h.Fail("close-hangs:"+op.name+":"+mode, fmt.Sprintf("Client.Close did not return while %s was stalled at offset %d", op.name, cut), desc)
			}
			select {
			case <-opDone:
				returned = true
			case <-time.After(4 * time.Second):
			}
		}
		if !returned {
			h.Fail("call-hangs:"+op.name+":"+mode, fmt.Sprintf("%s did not return after fault %q at byte offset %d (closed by the caller: %v)", op.name, mode, cut, closedEarly), desc)
		}
		fc.mu.Lock()
		delivered := fc.nRead
		faulted := fc.faulted
		fc.mu.Unlock()
		// for a stall without deadline the caller's way out is Close
		closed := withTimeout(4*time.Second, func() { client.Close() })
		if !closed {
			h.Fail("close-hangs:"+op.name+":"+mode, fmt.Sprintf("Client.Close did not return after %s with fault %q at offset %d", op.name, mode, cut), desc)
		}
		gone := false
		for i := 0; i < 400; i++ {
			if countClientGoroutines() <= baseline {
				gone = true
				break
			}
			time.Sleep(2 * time.Millisecond)
		}
		if !gone && returned && closed {
			h.Fail("goroutine-leak:"+op.name+":"+mode, fmt.Sprintf("%d goroutines of package imapclient are still alive after Close (%s, fault %q at %d)", countClientGoroutines()-baseline, op.name, mode, cut), desc)
			baseline = countClientGoroutines()
		}
		if mode == "none" {
			if opErr != nil {
				h.Fail("op-fails-without-fault:"+op.name, fmt.Sprintf("%s failed without any fault: %v", op.name, opErr), desc)
			}
			return delivered
		}
		// what did the server manage to deliver? (for the read faults: its reply up to cut)
		if faulted && returned && opErr == nil && mode != "writeerr" {
			// success is only legitimate if every tagged completion of the operation had arrived
			cmds := peer.Commands()
			_ = cmds
			h.Hist("success_after_fault")
			desc["note"] = "operation reported success"
			if cut < c10FullLen[op.name] {
				h.Fail("success-despite-fault:"+op.name+":"+mode, fmt.Sprintf("%s reported success although the connection failed (%s) after %d of %d reply bytes, i.e. before its completion had fully arrived", op.name, mode, cut, c10FullLen[op.name]), desc)
			}
		}
		key := ""
		if cut < c10FullLen[op.name] {
			key = fmt.Sprintf("%s|%s|%d", op.name, mode, cut)
		}
		h.Eval(key)
		h.Hist("op:" + op.name)
		h.Hist("fault:" + mode)
		_ = corr
		return delivered
	}

	if h.Replay != "" {
		name := replayField(h.Replay, "operation")
		mode := replayField(h.Replay, "fault")
		var off int
		fmt.Sscan(replayField(h.Replay, "offset"), &off)
		for _, op := range ops {
			if op.name == name {
				c10FullLen[op.name] = runOne(op, "none", 0)
				runOne(op, mode, off)
			}
		}
		return
	}

	baseline = countClientGoroutines()
	for _, op := range ops {
		full := runOne(op, "none", 0)
		c10FullLen[op.name] = full
		h.Note("%s: %d reply bytes", op.name, full)
		if h.failed("call-hangs:"+op.name+":none") || h.failed("close-hangs:"+op.name+":none") {
			// the operation hangs without any fault: every cut would hang the same way
			continue
		}
		stride := 1
		if op.name == "move-fallback-copy-refused" {
			// a long reply of 140 identical lines: every offset of the first 150 bytes and of the
			// last 150, every 7th in between (quick tier)
			stride = h.Pick(7, 1)
		}
		for cut := 0; cut <= full; cut++ {
			if stride > 1 && cut > 150 && cut < full-150 && cut%stride != 0 {
				continue
			}
			runOne(op, "eof", cut)
			if cut%h.Pick(3, 1) == 0 {
				runOne(op, "readerr", cut)
				runOne(op, "stall", cut)
			}
		}
		// write faults over the client's output (at most 120 bytes per operation)
		for cut := 0; cut <= 120; cut += h.Pick(3, 1) {
			runOne(op, "writeerr", cut)
		}
	}
	// model correspondence on the completion bookkeeping: pipelined commands with the reply cut
	// between / inside lines
	c10ModelCases(h, corr)
	c10StartTLS(h)
}

var c10FullLen = map[string]int{}

// c10ModelCases replays a two-command pipeline whose reply is cut at every offset and compares
// the completion status of both commands with the model.
func c10ModelCases(h *H, corr *CorrFile) {
	reply := "* 3 EXISTS\r\nT1 OK first done\r\n* STATUS INBOX (MESSAGES 3)\r\nT2 NO second refused\r\n"
	for cut := 0; cut <= len(reply); cut++ {
		for _, mode := range []string{"eof", "readerr", "stall"} {
			desc := map[string]interface{}{"operation": "model-pipeline", "fault": mode, "offset": cut}
			h.InFlight(desc)
			greeting := "* OK [CAPABILITY IMAP4rev1] ready\r\n"
			peer := newPeer(greeting)
			got := 0
			peer.OnCommand = func(p *scriptedPeer, c *peerCmd) {
				got++
				if got == 2 {
					p.Send(reply)
				}
			}
			raw, _ := net.Dial("tcp", peer.Addr())
			fc := &faultConn{Conn: raw, mode: mode, cutRead: len(greeting) + cut, closed: make(chan struct{})}
			client := imapclient.New(fc, nil)
			st := [2]int{-1, -1}
			waitsDone := make(chan struct{})
			go func() {
				defer close(waitsDone)
				if client.WaitGreeting() != nil {
					return
				}
				a := client.Noop()
				b := client.Status("INBOX", &imap.StatusOptions{NumMessages: true})
				st[0] = statusOf(a.Wait())
				_, e := b.Wait()
				st[1] = statusOf(e)
			}()
			ok := false
			select {
			case <-waitsDone:
				ok = true
			case <-time.After(200 * time.Millisecond):
				// stalled without a deadline: the caller closes the client
				withTimeout(3*time.Second, func() { client.Close() })
				select {
				case <-waitsDone:
					ok = true
				case <-time.After(4 * time.Second):
				}
			}
			if !ok {
				h.Fail("call-hangs:model-pipeline:"+mode, fmt.Sprintf("pipelined waits did not return (fault %s at %d)", mode, cut), desc)
			}
			withTimeout(3*time.Second, func() { client.Close() })
			peer.Close()
			// events: the complete lines delivered before the cut
			evs := []string{"EvGreeting 0", "EvSubmit KPlain", "EvSubmit KPlain"}
			rest := reply[:cut]
			for {
				i := strings.Index(rest, "\r\n")
				if i < 0 {
					break
				}
				line := rest[:i]
				rest = rest[i+2:]
				switch {
				case strings.HasPrefix(line, "T1 OK"):
					evs = append(evs, "EvTagged 1 0")
				case strings.HasPrefix(line, "T2 NO"):
					evs = append(evs, "EvTagged 2 1")
				case strings.HasSuffix(line, "EXISTS"):
					evs = append(evs, "EvExists 3")
				default:
					evs = append(evs, "EvOther")
				}
			}
			evs = append(evs, "EvConnLost")
			if st[0] < 0 || st[1] < 0 {
				continue
			}
			obs := fmt.Sprintf("(4, None, [(1, %d); (2, %d)])", st[0], st[1])
			corr.Add("["+"("+coqList(evs)+", "+obs+")"+"]", desc)
			h.Eval(fmt.Sprintf("model|%s|%d", mode, cut))
		}
	}
}
