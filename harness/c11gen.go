package main

// C11 generators: grammar-based server responses of every kind the client parses, with
// boundary numbers and occasional deliberate violations; mutators; garbage; nesting bombs.

import (
	"fmt"
	"math/rand"
	"strconv"
	"strings"
)

type c11Gen struct{ r *rand.Rand }

func (g *c11Gen) pick(l ...string) string { return l[g.r.Intn(len(l))] }
func (g *c11Gen) chance(p int) bool       { return g.r.Intn(100) < p }

var c11Boundary = []string{"0", "1", "2", "9", "10", "2147483647", "2147483648", "4294967295", "4294967296",
	"9223372036854775807", "9223372036854775808", "18446744073709551615", "18446744073709551616", "00", "01", "-1", "99999999999999999999999"}

// a number for a 32-bit field: mostly small and valid
func (g *c11Gen) num() string {
	switch x := g.r.Intn(20); {
	case x < 12:
		return strconv.Itoa(1 + g.r.Intn(50))
	case x < 15:
		return strconv.Itoa(g.r.Intn(100000))
	case x < 16:
		return "4294967295"
	default:
		return c11Boundary[g.r.Intn(len(c11Boundary))]
	}
}

// a number that is valid everywhere a nz-number is expected
func (g *c11Gen) nz() string {
	if g.chance(6) {
		return g.pick("4294967295", "4294967294", "2147483648")
	}
	if g.chance(5) {
		return g.num()
	}
	return strconv.Itoa(1 + g.r.Intn(60))
}

func (g *c11Gen) num64() string {
	if g.chance(15) {
		return g.pick("9223372036854775807", "9223372036854775808", "4294967296", "0", "18446744073709551615")
	}
	return strconv.Itoa(g.r.Intn(1000000))
}

var c11Words = []string{"a", "b", "INBOX", "inbox", "foo", "Foo Bar", "x/y", "", "NIL", "nil", "a&AOk-b", "&", "&-", "a&b", "T1", "\xc3\xa9", "\xff", "me\xc5\xbf\xc5\xbfage",
	"text", "TEXT", "message", "rfc822", "global", "plain", "7BIT", "mixed", "=?utf-8?q?a?=", "<id@x>", "Mon, 2 Jan 2006 15:04:05 -0700", "\\", "\"", "(", ")", "{", "}", "%", "*", "]", "[",
	"/shared/comment", "/private/x", "STORAGE", "MESSAGE", "user", "~", "#news.", "/", ".", "quoted\\\"inside"}

func (g *c11Gen) word() string { return c11Words[g.r.Intn(len(c11Words))] }

func c11Quote(s string) string {
	var sb strings.Builder
	sb.WriteByte('"')
	for i := 0; i < len(s); i++ {
		if s[i] == '"' || s[i] == '\\' {
			sb.WriteByte('\\')
		}
		sb.WriteByte(s[i])
	}
	sb.WriteByte('"')
	return sb.String()
}

func c11Literal(s string) string { return fmt.Sprintf("{%d}\r\n%s", len(s), s) }

func (g *c11Gen) str() string {
	w := g.word()
	switch x := g.r.Intn(20); {
	case x < 14:
		return c11Quote(w)
	case x < 18:
		return c11Literal(w)
	case x < 19:
		return g.pick("{3}\r\nab", "{abc", "{5", "{1+}\r\nx", "{0}\r\n", "{18446744073709551616}\r\nx", "{9223372036854775807}\r\nabc", "{2} \r\nab", "{2}\nab", "\"abc", "\"a\\")
	default:
		return w
	}
}

func c11IsAtom(s string) bool {
	if s == "" {
		return false
	}
	for i := 0; i < len(s); i++ {
		c := s[i]
		if c <= 0x20 || c == 0x7f || (c >= 0x80 && c <= 0x9f) || strings.IndexByte("(){%*\"\\]", c) >= 0 {
			return false
		}
	}
	return true
}

func (g *c11Gen) astring() string {
	w := g.word()
	if c11IsAtom(w) && g.chance(50) {
		return w
	}
	return g.str()
}

func (g *c11Gen) nstring() string {
	if g.chance(30) {
		return "NIL"
	}
	return g.str()
}

func (g *c11Gen) mailbox() string {
	if g.chance(40) {
		return g.pick("INBOX", "inbox", "InBoX", "foo", "\"foo\"", "\"a&AOk-b\"", "\"Foo Bar\"", "{3}\r\nfoo")
	}
	return g.astring()
}

func (g *c11Gen) flag() string {
	return g.pick("\\Seen", "\\SEEN", "\\Answered", "\\Deleted", "\\Draft", "\\Flagged", "\\*", "$Forwarded", "$junk", "foo", "\\Recent", "\\", "\\\\x", "\\noselect", "\\HasChildren", "\\Haschildren", "\\Sent", "x]y", "\xc4\xb0x")
}

func (g *c11Gen) list(n int, item func() string) string {
	var it []string
	for i := 0; i < n; i++ {
		it = append(it, item())
	}
	return "(" + strings.Join(it, " ") + ")"
}

func (g *c11Gen) flagList() string { return g.list(g.r.Intn(4), g.flag) }

func (g *c11Gen) caps() string {
	n := g.r.Intn(5)
	var sb strings.Builder
	for i := 0; i < n; i++ {
		sb.WriteString(" " + g.pick("IMAP4rev1", "IMAP4rev2", "IDLE", "MOVE", "UIDPLUS", "LITERAL+", "LITERAL-", "AUTH=PLAIN", "X", "ESEARCH", "SORT", "THREAD=REFERENCES"))
	}
	return sb.String()
}

func (g *c11Gen) seqSet() string {
	n := 1 + g.r.Intn(3)
	var it []string
	for i := 0; i < n; i++ {
		switch x := g.r.Intn(20); {
		case x < 9:
			it = append(it, g.nz())
		case x < 16:
			it = append(it, g.nz()+":"+g.nz())
		case x < 17:
			it = append(it, g.pick("*", "1:*", "*:5", "*:*"))
		case x < 18:
			it = append(it, g.pick("0", "0:3", "3:0", "1:4294967295", "4294967295", "4294967296", "1:4294967296"))
		default:
			it = append(it, g.pick("", "a", "1:", ":2", "1:2:3", "01", "1.2", "-1"))
		}
	}
	s := strings.Join(it, ",")
	if g.chance(3) {
		return "$"
	}
	return s
}

func (g *c11Gen) address() string {
	if g.chance(8) {
		return g.pick("NIL", "()", "(NIL NIL NIL)", "(NIL NIL NIL NIL NIL)")
	}
	return "(" + g.nstring() + " " + g.nstring() + " " + g.nstring() + " " + g.nstring() + ")"
}

func (g *c11Gen) addrList() string {
	if g.chance(40) {
		return "NIL"
	}
	n := 1 + g.r.Intn(2)
	var sb strings.Builder
	sb.WriteByte('(')
	for i := 0; i < n; i++ {
		if g.chance(50) && i > 0 {
			sb.WriteByte(' ')
		}
		sb.WriteString(g.address())
	}
	sb.WriteByte(')')
	return sb.String()
}

func (g *c11Gen) envelope() string {
	var it []string
	it = append(it, g.nstring(), g.nstring())
	for i := 0; i < 6; i++ {
		it = append(it, g.addrList())
	}
	it = append(it, g.nstring(), g.nstring())
	if g.chance(5) {
		it = it[:len(it)-1-g.r.Intn(3)]
	}
	return "(" + strings.Join(it, " ") + ")"
}

func (g *c11Gen) params() string {
	if g.chance(50) {
		return "NIL"
	}
	n := 2 * (1 + g.r.Intn(2))
	if g.chance(8) {
		n--
	}
	return g.list(n, func() string {
		if g.chance(5) {
			return "\"\""
		}
		return g.str()
	})
}

func (g *c11Gen) extValue(depth int) string {
	switch x := g.r.Intn(10); {
	case x < 4:
		return g.str()
	case x < 6:
		return g.pick("NIL", "1", "atom", "4294967296")
	case x < 9 && depth < 4:
		return g.list(g.r.Intn(3), func() string { return g.extValue(depth + 1) })
	default:
		return "()"
	}
}

func (g *c11Gen) disposition() string {
	if g.chance(50) {
		return "NIL"
	}
	return "(" + g.str() + " " + g.params() + ")"
}

func (g *c11Gen) language() string {
	switch g.r.Intn(3) {
	case 0:
		return "NIL"
	case 1:
		return g.str()
	}
	return g.list(1+g.r.Intn(2), g.str)
}

func (g *c11Gen) extTail() string {
	var sb strings.Builder
	if g.chance(60) {
		sb.WriteString(" " + g.disposition())
		if g.chance(60) {
			sb.WriteString(" " + g.language())
			if g.chance(60) {
				sb.WriteString(" " + g.nstring())
				for g.chance(30) {
					sb.WriteString(" " + g.extValue(0))
				}
			}
		}
	}
	return sb.String()
}

func (g *c11Gen) body(depth int) string {
	if depth < 4 && g.chance(35) {
		// multipart
		n := 1 + g.r.Intn(3)
		var sb strings.Builder
		sb.WriteByte('(')
		for i := 0; i < n; i++ {
			if i > 0 && g.chance(20) {
				sb.WriteByte(' ')
			}
			sb.WriteString(g.body(depth + 1))
		}
		sb.WriteString(" " + g.str())
		if g.chance(50) {
			sb.WriteString(" " + g.params() + g.extTail())
		}
		sb.WriteByte(')')
		return sb.String()
	}
	typ, sub := g.pick("text", "TEXT", "image", "application", "audio", "te\xc5\xbft"), g.pick("plain", "html", "png", "octet-stream")
	kind := 0
	if depth < 4 && g.chance(20) {
		typ, sub, kind = g.pick("message", "MESSAGE", "me\xc5\xbfsage"), g.pick("rfc822", "RFC822", "global", "delivery-status"), 2
	}
	var sb strings.Builder
	sb.WriteString("(" + c11Quote(typ) + " " + c11Quote(sub) + " " + g.params() + " " + g.nstring() + " " + g.nstring() + " " + g.nstring() + " ")
	if g.chance(5) {
		sb.WriteString("-1")
	} else {
		sb.WriteString(g.num())
	}
	if g.chance(8) {
		sb.WriteByte(')')
		return sb.String()
	}
	lt, ls := strings.ToLower(typ), strings.ToLower(sub)
	switch {
	case kind == 2 && (lt == "message" || typ == "me\xc5\xbfsage") && (ls == "rfc822" || ls == "global"):
		sb.WriteString(" " + g.envelope() + " " + g.body(depth+1) + " " + g.num64())
	case lt == "text":
		sb.WriteString(" " + g.num64())
	}
	if g.chance(50) {
		sb.WriteString(" " + g.nstring() + g.extTail())
	}
	sb.WriteByte(')')
	return sb.String()
}

func (g *c11Gen) sectionPart() string {
	n := g.r.Intn(3)
	var it []string
	for i := 0; i < n; i++ {
		it = append(it, strconv.Itoa(1+g.r.Intn(9)))
	}
	if g.chance(5) {
		it = append(it, g.pick("0", "4294967296", ""))
	}
	return strings.Join(it, ".")
}

func (g *c11Gen) section() string {
	p := g.sectionPart()
	spec := g.pick("", "", "HEADER", "TEXT", "MIME", "header", "HEADER.FIELDS (a b)", "HEADER.FIELDS.NOT (\"x\")", "HEADER.FIELDS ()", "header.fields (From {2}\r\nTo)", "X\xc5\xbf", "HEADER.FIELDS")
	s := p
	if spec != "" {
		if p != "" {
			s += "."
		}
		s += spec
	}
	s = "[" + s + "]"
	if g.chance(30) {
		s += "<" + g.num64() + ">"
	}
	return s
}

var c11Dates = []string{"17-Jul-1996 02:44:25 -0700", " 1-Jan-2020 00:00:00 +0000", "1-Jan-2020 00:00:00 +0000", "01-jan-2020 23:59:59 +2400", "31-Feb-2020 00:00:00 +0000",
	"29-Feb-2020 10:00:00 -0130", "29-Feb-2021 10:00:00 -0130", "1-Jan-0001 00:00:00 +0000", "1-Jan-0001 01:00:00 +0100", "31-Dec-0000 23:00:00 -0100", "1-Jan-2020 24:00:00 +0000",
	"1-Jan-2020 1:00:00 +0000", "1-Jan-2020 10:0:00 +0000", "1-Jan-2020 10:00:00.5 +0000", "1-Jan-2020 10:00:00,000 +0000", "1-Jan-2020  10:00:00   +0000", "1-Jan-2020 10:00:00 +0060",
	"1-Jan-2020 10:00:00 +2500", "1-Jan-2020 10:00:00 Z", "1-Jan-2020 10:00:00 +0000x", "1-Jan-20 10:00:00 +0000", "1-Foo-2020 10:00:00 +0000", "", "0-Jan-2020 10:00:00 +0000", "32-Jan-2020 10:00:00 +0000",
	"1-JAN-9999 10:00:00 -0000", "1-Jan-0001 00:00:00.000 +0000", "1-Jan-0001 00:00:00.001 +0000", "1-Jan-2020 10:00:60 +0000", "1-Jan-2020 10:60:00 +0000", "001-Jan-2020 10:00:00 +0000"}

func (g *c11Gen) msgAtt() string {
	switch g.r.Intn(14) {
	case 0:
		return "FLAGS " + g.flagList()
	case 1:
		return "UID " + g.nz()
	case 2:
		return "RFC822.SIZE " + g.num64()
	case 3:
		return "INTERNALDATE " + c11Quote(c11Dates[g.r.Intn(len(c11Dates))])
	case 4:
		return "ENVELOPE " + g.envelope()
	case 5:
		return g.pick("BODYSTRUCTURE ", "BODY ", "bodystructure ", "BODY") + g.body(0)
	case 6:
		return "BODY" + g.section() + " " + g.pick(g.nstring(), c11Literal("hello"), "NIL", "\"q\"")
	case 7:
		return "BINARY[" + g.sectionPart() + "] " + g.pick("~{3}\r\nabc", "NIL", "\"q\"", "{2}\r\nab")
	case 8:
		return "BINARY.SIZE[" + g.sectionPart() + "] " + g.num()
	case 9:
		return "MODSEQ (" + g.pick("1", "0", "18446744073709551615", "18446744073709551616", "77") + ")"
	case 10:
		return g.pick("RFC822 NIL", "X-GM-MSGID 5", "UID 0", "BODY.PEEK[] NIL", "BODY\xc5\xbfTRUCTURE "+g.body(0), "uid "+g.nz(), "U\xc4\xb1D 3", "MODSEQ(5)", "FLAGS(\\Seen)")
	case 11:
		return "UID " + g.num()
	default:
		return "FLAGS " + g.flagList()
	}
}

func (g *c11Gen) fetch() string {
	n := 1 + g.r.Intn(4)
	if g.chance(3) {
		n = 34 + g.r.Intn(3)
	}
	return "* " + g.nz() + " FETCH " + g.list(n, g.msgAtt) + "\r\n"
}

func (g *c11Gen) thread(depth int) string {
	var sb strings.Builder
	sb.WriteByte('(')
	n := g.r.Intn(4)
	for i := 0; i < n; i++ {
		if i > 0 {
			sb.WriteByte(' ')
		}
		sb.WriteString(g.nz())
	}
	if depth < 4 {
		m := g.r.Intn(3)
		for i := 0; i < m; i++ {
			if (n > 0 || i > 0) && g.chance(50) {
				sb.WriteByte(' ')
			}
			sb.WriteString(g.thread(depth + 1))
		}
		if m > 0 && g.chance(5) {
			sb.WriteString(" " + g.nz())
		}
	}
	sb.WriteByte(')')
	return sb.String()
}

func (g *c11Gen) esearch() string {
	var sb strings.Builder
	sb.WriteString("* ESEARCH")
	if g.chance(80) {
		sb.WriteString(" (" + g.pick("TAG", "TAG", "TAG", "tag", "X") + " " + g.pick("\"T1\"", "\"T1\"", "T1", "\"T2\"", "{2}\r\nT1", "\"\"") + ")")
	}
	if g.chance(40) {
		sb.WriteString(" UID")
	}
	n := g.r.Intn(4)
	for i := 0; i < n; i++ {
		switch g.r.Intn(8) {
		case 0:
			sb.WriteString(" MIN " + g.nz())
		case 1:
			sb.WriteString(" MAX " + g.nz())
		case 2, 3:
			sb.WriteString(" " + g.pick("ALL", "ALL", "all") + " " + g.seqSet())
		case 4:
			sb.WriteString(" COUNT " + g.num())
		case 5:
			sb.WriteString(" MODSEQ " + g.num64())
		case 6:
			sb.WriteString(" " + g.pick("X-FOO", "PARTIAL", "RELEVANCY") + " " + g.extValue(0))
		default:
			sb.WriteString(" " + g.pick("MIN 0", "MAX 0", "COUNT", "ALL", "MIN", "m\xc4\xb1n 3"))
		}
	}
	sb.WriteString("\r\n")
	return sb.String()
}

func (g *c11Gen) status() string {
	n := g.r.Intn(5)
	var it []string
	for i := 0; i < n; i++ {
		switch g.r.Intn(11) {
		case 0:
			it = append(it, "MESSAGES "+g.num())
		case 1:
			it = append(it, "UIDNEXT "+g.num())
		case 2:
			it = append(it, "UIDVALIDITY "+g.num())
		case 3:
			it = append(it, "UNSEEN "+g.num())
		case 4:
			it = append(it, "DELETED "+g.num())
		case 5:
			it = append(it, "SIZE "+g.num64())
		case 6:
			it = append(it, "APPENDLIMIT "+g.pick("NIL", g.num(), "nil"))
		case 7:
			it = append(it, "DELETED-STORAGE "+g.num64())
		case 8:
			it = append(it, "HIGHESTMODSEQ "+g.num64())
		case 9:
			it = append(it, g.pick("X-FOO", "RECENT", "messages")+" "+g.extValue(0))
		default:
			it = append(it, g.pick("MESSAGES", "X {abc", "X {3", "MAILBOXID (abc)", "Y \"q"))
		}
	}
	return "* STATUS " + g.mailbox() + " (" + strings.Join(it, " ") + ")\r\n"
}

func (g *c11Gen) delim() string {
	return g.pick("\"/\"", "\".\"", "NIL", "\"\\\\\"", "\"\"", "\"ab\"", "\"\xc3\xa9\"", "\"\xff\"", "\"\xef\xbf\xbd\"", "nil", "/")
}

func (g *c11Gen) listResp() string {
	var sb strings.Builder
	sb.WriteString("* LIST " + g.flagList() + " " + g.delim() + " " + g.mailbox())
	if g.chance(30) {
		n := 1 + g.r.Intn(2)
		sb.WriteString(" " + g.list(n, func() string {
			switch g.r.Intn(4) {
			case 0:
				return g.pick("CHILDINFO", "\"CHILDINFO\"", "childinfo") + " " + g.list(g.r.Intn(3), func() string { return g.pick("\"SUBSCRIBED\"", "SUBSCRIBED", "subscribed", "\"x\"") })
			case 1:
				return g.pick("OLDNAME", "\"OLDNAME\"") + " (" + g.mailbox() + ")"
			default:
				return g.astring() + " " + g.extValue(0)
			}
		}))
	}
	sb.WriteString("\r\n")
	return sb.String()
}

func (g *c11Gen) nsList() string {
	if g.chance(40) {
		return "NIL"
	}
	return g.list(1+g.r.Intn(2), func() string {
		s := "(" + g.str() + " " + g.delim()
		for g.chance(25) {
			s += " " + g.extValue(0)
		}
		return s + ")"
	})
}

func (g *c11Gen) quota() string {
	return "* QUOTA " + g.pick("\"\"", "user", "\"user\"", g.astring()) + " " + g.list(g.r.Intn(3), func() string {
		return g.pick("STORAGE", "MESSAGE", "storage", "X") + " " + g.num64() + " " + g.num64()
	}) + "\r\n"
}

func (g *c11Gen) quotaRoot() string {
	s := "* QUOTAROOT " + g.mailbox()
	for g.chance(60) {
		s += " " + g.pick("\"\"", "user", "\"user\"", g.astring())
	}
	return s + "\r\n"
}

func (g *c11Gen) metadata() string {
	if g.chance(30) {
		s := "* METADATA " + g.mailbox() + " " + g.astring()
		for g.chance(50) {
			s += " " + g.astring()
		}
		return s + "\r\n"
	}
	return "* METADATA " + g.mailbox() + " " + g.list(g.r.Intn(3), func() string {
		return g.pick("/shared/comment", "/private/x", g.astring()) + " " + g.pick(g.nstring(), "NIL", "{NIL", "~{2}\r\nab", g.str())
	}) + "\r\n"
}

func (g *c11Gen) respText() string {
	switch g.r.Intn(5) {
	case 0:
		return ""
	case 1:
		return " "
	case 2:
		return " done"
	}
	return " " + g.pick("completed", "[x", "hello world", "\xff\xfe", "[]")
}

func (g *c11Gen) untaggedCode() string {
	switch g.r.Intn(12) {
	case 0:
		return "CAPABILITY" + g.caps()
	case 1:
		return "PERMANENTFLAGS " + g.flagList()
	case 2:
		return "UIDNEXT " + g.num()
	case 3:
		return "UIDVALIDITY " + g.num()
	case 4:
		return "COPYUID " + g.num() + " " + g.seqSet() + " " + g.seqSet()
	case 5:
		return "HIGHESTMODSEQ " + g.num64()
	case 6:
		return g.pick("NOMODSEQ", "CLOSED", "READ-WRITE", "ALERT", "UNSEEN 5", "X a b c", "UNSEEN", "BADCHARSET (a b)")
	case 7:
		return "APPENDUID " + g.num() + " " + g.num()
	default:
		return g.pick("UIDNEXT", "uidnext 5", "COPYUID 1 1", "PERMANENTFLAGS", "CAPABILITY (", "X ]", "")
	}
}

func (g *c11Gen) statusResp() string {
	typ := g.pick("OK", "OK", "NO", "BAD", "BYE", "PREAUTH", "ok")
	if g.chance(60) {
		return "* " + typ + " [" + g.untaggedCode() + "]" + g.respText() + "\r\n"
	}
	return "* " + typ + g.respText() + "\r\n"
}

func (g *c11Gen) tagged(tag string) string {
	typ := g.pick("OK", "OK", "OK", "NO", "BAD", "BYE", "ok", "PREAUTH")
	if g.chance(50) {
		var code string
		switch g.r.Intn(8) {
		case 0:
			code = "APPENDUID " + g.nz() + " " + g.nz()
		case 1:
			code = "APPENDUID " + g.num() + " " + g.num()
		case 2, 3:
			code = "COPYUID " + g.nz() + " " + g.seqSet() + " " + g.seqSet()
		case 4:
			code = "CAPABILITY" + g.caps()
		default:
			code = g.untaggedCode()
		}
		return tag + " " + typ + " [" + code + "]" + g.respText() + "\r\n"
	}
	return tag + " " + typ + g.respText() + "\r\n"
}

// response returns one generated response and the command kinds it is meant for.
func (g *c11Gen) response() (string, []string) {
	switch g.r.Intn(26) {
	case 0, 1, 2, 3, 4:
		return g.fetch(), []string{"Fetch", "Noop", "Fetch"}
	case 5:
		s := "* SEARCH"
		for n := g.r.Intn(6); n > 0; n-- {
			s += " " + g.nz()
		}
		if g.chance(20) {
			s += " (MODSEQ " + g.num64() + ")"
		}
		return s + "\r\n", []string{"Search", "UIDSearch"}
	case 6, 7:
		return g.esearch(), []string{"Search", "UIDSearch"}
	case 8:
		s := "* SORT"
		for n := g.r.Intn(6); n > 0; n-- {
			s += " " + g.nz()
		}
		return s + "\r\n", []string{"Sort"}
	case 9, 10:
		s := "* THREAD"
		for n := g.r.Intn(3); n > 0; n-- {
			s += g.pick(" ", "") + g.thread(0)
		}
		return s + "\r\n", []string{"Thread"}
	case 11, 12:
		return g.listResp(), []string{"List", "Select"}
	case 13, 14:
		return g.status(), []string{"Status"}
	case 15:
		return "* NAMESPACE " + g.nsList() + " " + g.nsList() + " " + g.nsList() + "\r\n", []string{"Namespace"}
	case 16:
		return g.quota(), []string{"GetQuota", "GetQuotaRoot"}
	case 17:
		return g.quotaRoot() + g.quota(), []string{"GetQuotaRoot"}
	case 18:
		return g.metadata(), []string{"GetMetadata", "Noop"}
	case 19:
		return "* " + g.pick("CAPABILITY", "ENABLED") + g.caps() + "\r\n", []string{"Capability", "Enable"}
	case 20:
		return "* FLAGS " + g.flagList() + "\r\n", []string{"Select", "Noop"}
	case 21:
		return "* " + g.num() + " " + g.pick("EXISTS", "RECENT", "EXPUNGE", "EXPUNGE", "exists", "FETCH", "X") + "\r\n", []string{"Select", "Expunge", "Noop"}
	case 22, 23:
		return g.statusResp(), []string{"Select", "Move", "Noop"}
	case 24:
		return g.pick("+ go\r\n", "+\r\n", "* VANISHED 1:3\r\n", "* BYE bye\r\n", "* \r\n", "*\r\n", "\r\n", "* 1\r\n", "* 12345678901 EXISTS\r\n", "T2 OK x\r\n", "* ESEARCH\r\n", "* SEARCH\r\n", "* THREAD\r\n", "* LIST\r\n"), []string{"Noop", "Search", "Thread"}
	default:
		return g.tagged("T1"), []string{"Copy", "Append", "Noop", "Move", "Capability"}
	}
}

var c11Kinds = []string{"Noop", "Fetch", "Search", "UIDSearch", "Sort", "Thread", "Expunge", "Status", "List", "Select", "Copy", "Move", "Append",
	"GetQuota", "GetQuotaRoot", "GetMetadata", "Namespace", "Capability", "Enable"}

func (g *c11Gen) cmdFor(kinds []string) c11Cmd {
	k := kinds[g.r.Intn(len(kinds))]
	if g.chance(10) {
		k = c11Kinds[g.r.Intn(len(c11Kinds))]
	}
	c := c11Cmd{Kind: k}
	switch k {
	case "Status", "Select", "GetQuotaRoot", "GetMetadata":
		c.Param = g.pick("INBOX", "inbox", "foo", "Foo Bar", "a\xc3\xa9b")
	case "GetQuota":
		c.Param = g.pick("user", "x", "STORAGE")
	}
	return c
}

// stream builds a stream of a few responses, usually followed by the tagged completion.
func (g *c11Gen) stream() (string, c11Cmd) {
	n := 1 + g.r.Intn(3)
	var sb strings.Builder
	var kinds []string
	for i := 0; i < n; i++ {
		s, k := g.response()
		sb.WriteString(s)
		kinds = append(kinds, k...)
	}
	if g.chance(70) {
		sb.WriteString(g.tagged("T1"))
	}
	if g.chance(15) {
		s, _ := g.response()
		sb.WriteString(s)
	}
	return sb.String(), g.cmdFor(kinds)
}

// ---- mutations ------------------------------------------------------------------------------

var c11Tokens = []string{"(", ")", " ", "NIL", "\"", "{", "}", "[", "]", "\r\n", "\n", "\r", "*", "0", "1", "4294967295", "4294967296", "9223372036854775808", "\\", "{3}\r\n", "T1", "OK", "+", "$", ":", ",", "\x00", "\xff", "~", "<", ">", ".", "%"}

func (g *c11Gen) mutate(s string) string {
	b := []byte(s)
	n := 1 + g.r.Intn(3)
	for i := 0; i < n && len(b) > 0; i++ {
		p := g.r.Intn(len(b))
		switch g.r.Intn(9) {
		case 0: // flip a byte
			b[p] = byte(g.r.Intn(256))
		case 1: // delete a byte
			b = append(b[:p], b[p+1:]...)
		case 2, 3: // insert a token
			t := c11Tokens[g.r.Intn(len(c11Tokens))]
			b = append(b[:p], append([]byte(t), b[p:]...)...)
		case 4: // truncate
			b = b[:p]
		case 5: // duplicate a span
			q := p + g.r.Intn(len(b)-p)
			b = append(b[:q], append(append([]byte(nil), b[p:q]...), b[q:]...)...)
		case 6: // replace a digit run by a boundary number
			j := p
			for j < len(b) && (b[j] < '0' || b[j] > '9') {
				j++
			}
			k := j
			for k < len(b) && b[k] >= '0' && b[k] <= '9' {
				k++
			}
			if k > j {
				b = append(b[:j], append([]byte(c11Boundary[g.r.Intn(len(c11Boundary))]), b[k:]...)...)
			}
		case 7: // delete a span
			q := p + g.r.Intn(1+c11MinInt(8, len(b)-p))
			b = append(b[:p], b[q:]...)
		default: // change letter case
			if b[p] >= 'a' && b[p] <= 'z' {
				b[p] -= 32
			} else if b[p] >= 'A' && b[p] <= 'Z' {
				b[p] += 32
			}
		}
	}
	return string(b)
}

func c11MinInt(a, b int) int {
	if a < b {
		return a
	}
	return b
}

func (g *c11Gen) garbage() string {
	n := 1 + g.r.Intn(40)
	var sb strings.Builder
	if g.chance(60) {
		sb.WriteString(g.pick("* ", "* 1 ", "T1 ", "* OK ", "* 1 FETCH (", "* SEARCH ", "* LIST ", "* STATUS x (", "* ESEARCH ", "* THREAD "))
	}
	for i := 0; i < n; i++ {
		if g.chance(70) {
			sb.WriteString(c11Tokens[g.r.Intn(len(c11Tokens))])
		} else if g.chance(50) {
			sb.WriteString(g.word())
		} else {
			sb.WriteByte(byte(g.r.Intn(256)))
		}
	}
	if g.chance(60) {
		sb.WriteString("\r\n")
	}
	return sb.String()
}
