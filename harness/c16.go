package main

import (
	"encoding/base64"
	"encoding/json"
	"fmt"
	"os"
	"strings"
	"sync"
	"time"
	"unicode/utf8"

	"golang.org/x/text/transform"

	imap "github.com/emersion/go-imap/v2"
	"github.com/emersion/go-imap/v2/imapserver"
	shim "github.com/emersion/go-imap/v2/verifshim"
)

func init() { runners["C16"] = runC16 }

func errClass(err error) int {
	switch err {
	case nil:
		return 0
	case transform.ErrShortDst:
		return 1
	case transform.ErrShortSrc:
		return 2
	case shim.ErrInvalidUTF7:
		return 3
	}
	return 8
}

func allPrintable(s string) bool {
	for i := 0; i < len(s); i++ {
		if s[i] < 0x20 || s[i] > 0x7e {
			return false
		}
	}
	return true
}

// trStream is one transformer obtained from utf7.Encoding, fed its own input in source chunks
// of `chunk` bytes into destination buffers of `curCap` bytes, one Transform call per step.
type trStream struct {
	isDec         bool
	input         string
	chunk0, cap0  int
	tr            transform.Transformer
	chunk, curCap int
	pending, rest []byte
	result        []byte
	calls         []trCall
	finalErr      error
	done          bool
}

func newTrStream(isDec bool, input string, chunk, capN int) *trStream {
	st := &trStream{isDec: isDec, input: input, chunk0: chunk, cap0: capN, chunk: chunk, curCap: capN, pending: []byte{}, rest: []byte(input)}
	if isDec {
		st.tr = shim.UTF7().NewDecoder().Transformer
	} else {
		st.tr = shim.UTF7().NewEncoder().Transformer
	}
	st.tr.Reset()
	return st
}

func (st *trStream) step() {
	if st.done {
		return
	}
	if len(st.calls) >= 4000 {
		st.done = true
		return
	}
	if len(st.rest) > 0 && len(st.pending) < st.chunk {
		n := st.chunk - len(st.pending)
		if n > len(st.rest) {
			n = len(st.rest)
		}
		st.pending = append(st.pending, st.rest[:n]...)
		st.rest = st.rest[n:]
	}
	atEOF := len(st.rest) == 0
	dst := make([]byte, st.curCap)
	nDst, nSrc, err := st.tr.Transform(dst, st.pending, atEOF)
	st.calls = append(st.calls, trCall{st.curCap, string(st.pending), atEOF, string(dst[:nDst]), nSrc, errClass(err)})
	st.result = append(st.result, dst[:nDst]...)
	st.pending = append([]byte(nil), st.pending[nSrc:]...)
	switch {
	case err == transform.ErrShortDst:
		if nDst == 0 {
			st.curCap *= 2
		}
	case err == transform.ErrShortSrc:
		if atEOF {
			st.finalErr = err
			st.done = true
		} else if nSrc == 0 {
			st.chunk *= 2
		}
	case err != nil:
		st.finalErr = err
		st.done = true
	case atEOF && len(st.pending) == 0:
		st.done = true
	}
}

func (st *trStream) coq() string {
	var cs []string
	for _, c := range st.calls {
		cs = append(cs, fmt.Sprintf("(%d, %s, %s, %s, %d, %d)", c.Cap, coqHxS(c.Src), coqBool(c.EOF), coqHxS(c.Out), c.NSrc, c.Err))
	}
	return "(" + coqBool(st.isDec) + ", " + coqList(cs) + ")"
}

type trCall struct {
	Cap  int    `json:"cap"`
	Src  string `json:"src"`
	EOF  bool   `json:"eof"`
	Out  string `json:"out"`
	NSrc int    `json:"nsrc"`
	Err  int    `json:"err"`
}

func runC16(h *H) {
	imports := []string{"From GoImap.Base Require Import Bytes.", "From GoImap.Model Require Import Utf7 Utf7Transform Utf7Corr."}
	encCorr := h.NewCorr("encode", imports, "enc_mismatches", 2500).Type("enc_case")
	decCorr := h.NewCorr("decode", imports, "dec_mismatches", 2500).Type("dec_case")
	trCorr := h.NewCorr("transform", imports, "trf_mismatches", 300).Type("trf_case")
	h.Rule("encoder: all strings up to the tier's length over a 10-code-point alphabet {a,&,-,~,U+0001,U+007F,U+00E9,U+20AC,U+FFFD,U+1F600} plus invalid-UTF-8 corpus and random valid UTF-8 up to 200 code points (crossing transform.String's 128-byte chunks); decoder: all byte strings up to the tier's length over {&,-,A,k,l,=,',',+,a,0x1F,0x80,CR} plus corpus, encoder outputs and their mutations; explicit Transform calls: a driver feeding source chunks of 1..7 bytes into destination buffers of 1..12 bytes, every call recorded; 2..4 transformers from utf7.Encoding driven at the same time with interleaved Transform calls (round robin and random schedules), and 8 goroutines using the one-shot API concurrently; names drawn from Unicode classes that normalisation/case/width folding would change (combining sequences, singletons, Hangul jamo, compatibility forms, ignorables, noncharacters); mailbox names (corpus, Unicode classes, random) through imapwire Encoder.Mailbox/ExpectMailbox and as CREATE argument and LIST pattern/response of a real imapserver. Oracles on the real code: name read back / seen by the backend == name sent, every transformer behaves as when used alone, decode(encode s) == s for valid UTF-8, output printable ASCII, decoder output utf8.Valid, listed malformed forms rejected, chunked result == one-shot result. Non-trivial = input contains a non-ASCII/control code point (encoder) or a base64 shift (decoder); distinct by input.")

	encOne := func(s string, src string) string {
		h.InFlight(map[string]interface{}{"encode": []byte(s)})
		out, err := shim.UTF7().NewEncoder().String(s)
		desc := map[string]interface{}{"encode_hex": fmt.Sprintf("%x", s)}
		if err != nil {
			h.Fail("encode-error", fmt.Sprintf("encoder returned error %v", err), desc)
		}
		if !allPrintable(out) {
			h.Fail("encode-nonprintable", fmt.Sprintf("encoder output %q is not printable ASCII", out), desc)
		}
		if utf8.ValidString(s) {
			back, err := shim.UTF7().NewDecoder().String(out)
			if err != nil || back != s {
				h.Fail("roundtrip", fmt.Sprintf("decode(encode(%q)) = %q, %v", s, back, err), desc)
			}
		}
		key := ""
		if !allPrintable(s) {
			key = "e|" + s
		}
		h.Eval(key)
		h.Hist("enc:" + src)
		encCorr.Add("("+coqHxS(s)+", "+coqHxS(out)+")", desc)
		if key != "" && h.Rng.Intn(3000) == 0 {
			h.Sample(map[string]interface{}{"encode": s, "out": out})
		}
		return out
	}
	decOne := func(t string, src string) {
		h.InFlight(map[string]interface{}{"decode": []byte(t)})
		out, err := shim.UTF7().NewDecoder().String(t)
		desc := map[string]interface{}{"decode_hex": fmt.Sprintf("%x", t), "decode": t}
		term := "None"
		if err == nil {
			term = coqSome(coqHxS(out))
			if !utf8.ValidString(out) {
				h.Fail("decode-invalid-utf8", fmt.Sprintf("decoder accepted %q and produced invalid UTF-8 %x", t, out), desc)
			}
			// malformed forms that must be rejected
			if !allPrintable(t) {
				h.Fail("decode-accepts-nonprintable", fmt.Sprintf("decoder accepted %q containing a byte outside 0x20..0x7e", t), desc)
			}
			if strings.Contains(t, "=") && strings.Contains(t, "&") {
				// '=' is only legal outside a shift
				in := false
				for i := 0; i < len(t); i++ {
					switch {
					case !in && t[i] == '&':
						in = true
					case in && t[i] == '-':
						in = false
					case in && t[i] == '=':
						h.Fail("decode-accepts-padding", fmt.Sprintf("decoder accepted %q with '=' inside a shift", t), desc)
					}
				}
			}
			// every shift must decode to non-printable code points only, and shifts must not be adjacent
			if i := strings.Index(t, "-&"); i >= 0 && i+2 < len(t) && t[i+2] != '-' {
				// "x-&y": adjacent only if the '-' closes a non-empty shift
				j := strings.LastIndex(t[:i], "&")
				if j >= 0 && j+1 < i && !strings.Contains(t[j:i], "-") {
					h.Fail("decode-accepts-adjacent-shifts", fmt.Sprintf("decoder accepted %q with back-to-back shifts", t), desc)
				}
			}
			// canonical re-encoding gives back something that decodes to the same
			re, _ := shim.UTF7().NewEncoder().String(out)
			back, err2 := shim.UTF7().NewDecoder().String(re)
			if err2 != nil || back != out {
				h.Fail("roundtrip", fmt.Sprintf("decode(encode(%q)) = %q, %v", out, back, err2), desc)
			}
		} else if errClass(err) != 3 {
			h.Fail("decode-error-class", fmt.Sprintf("decoder returned unexpected error %v on %q", err, t), desc)
		}
		key := ""
		if strings.Contains(t, "&") {
			key = "d|" + t
		}
		h.Eval(key)
		h.Hist("dec:" + src)
		if err == nil {
			h.Hist("dec_accepted")
		} else {
			h.Hist("dec_rejected")
		}
		decCorr.Add("("+coqHxS(t)+", "+term+")", desc)
	}
	// explicit Transform driver; decoder selects the transformer
	drive := func(isDec bool, input string, chunk, capN int, src string) {
		h.InFlight(map[string]interface{}{"transform": []byte(input), "dec": isDec, "chunk": chunk, "cap": capN})
		st := newTrStream(isDec, input, chunk, capN)
		for !st.done {
			st.step()
		}
		calls, result, finalErr := st.calls, st.result, st.finalErr
		desc := map[string]interface{}{"transform_hex": fmt.Sprintf("%x", input), "dec": isDec, "chunk": chunk, "cap": capN, "calls": calls}
		// oracle: chunked == one-shot
		var one string
		var oneErr error
		if isDec {
			one, oneErr = shim.UTF7().NewDecoder().String(input)
		} else {
			one, oneErr = shim.UTF7().NewEncoder().String(input)
		}
		if (oneErr == nil) != (finalErr == nil) || (oneErr == nil && one != string(result)) {
			h.Fail("chunking", fmt.Sprintf("driving Transform with %d-byte source chunks and a %d-byte destination gives (%q, %v), one-shot gives (%q, %v)", chunk, capN, result, finalErr, one, oneErr), desc)
		}
		var cs []string
		for _, c := range calls {
			cs = append(cs, fmt.Sprintf("(%d, %s, %s, %s, %d, %d)", c.Cap, coqHxS(c.Src), coqBool(c.EOF), coqHxS(c.Out), c.NSrc, c.Err))
		}
		key := ""
		if len(calls) > 2 {
			key = fmt.Sprintf("t|%v|%s|%d|%d", isDec, input, chunk, capN)
		}
		h.Eval(key)
		h.Hist("transform:" + src)
		trCorr.Add("("+coqBool(isDec)+", "+coqList(cs)+")", desc)
	}

	// several transformers handed out by utf7.Encoding, each with its own input, chunking and
	// destination size; their Transform calls are interleaved (sched seed 0: round robin,
	// otherwise a random schedule). Each stream must behave exactly as if it ran alone.
	type trSpec struct {
		Dec   bool   `json:"dec"`
		Hex   string `json:"hex"`
		Chunk int    `json:"chunk"`
		Cap   int    `json:"cap"`
	}
	interleave := func(specs []trSpec, sseed int64, src string) {
		unhex := func(s string) string {
			var out []byte
			fmt.Sscanf(s, "%x", &out)
			return string(out)
		}
		desc := map[string]interface{}{"interleave": specs, "sched_seed": sseed}
		h.InFlight(desc)
		type want struct {
			out string
			err error
		}
		var wants []want
		for _, sp := range specs {
			var w want
			if sp.Dec {
				w.out, w.err = shim.UTF7().NewDecoder().String(unhex(sp.Hex))
			} else {
				w.out, w.err = shim.UTF7().NewEncoder().String(unhex(sp.Hex))
			}
			wants = append(wants, w)
		}
		var sts []*trStream
		for _, sp := range specs {
			sts = append(sts, newTrStream(sp.Dec, unhex(sp.Hex), sp.Chunk, sp.Cap))
		}
		var rng = newRand(sseed)
		for turn := 0; ; turn++ {
			var live []*trStream
			for _, st := range sts {
				if !st.done {
					live = append(live, st)
				}
			}
			if len(live) == 0 {
				break
			}
			if sseed == 0 {
				live[turn%len(live)].step()
			} else {
				st := live[rng.Intn(len(live))]
				for n := 1 + rng.Intn(3); n > 0; n-- {
					st.step()
				}
			}
		}
		for i, st := range sts {
			w := wants[i]
			if (w.err == nil) != (st.finalErr == nil) || (w.err == nil && w.out != string(st.result)) {
				h.Fail("interleaved", fmt.Sprintf("%d transformers from utf7.Encoding driven with interleaved Transform calls: stream %d (decoder=%v, input %q, %d-byte source chunks, %d-byte destination) gives (%q, %v), alone it gives (%q, %v)", len(sts), i, st.isDec, st.input, st.chunk0, st.cap0, st.result, st.finalErr, w.out, w.err), desc)
			}
			if i == 0 && h.Rng.Intn(3) == 0 {
				// each stream's own call record is an ordinary case of the transformer model
				d := map[string]interface{}{"interleave": specs, "sched_seed": sseed, "stream": i, "calls": st.calls}
				trCorr.Add(st.coq(), d)
			}
		}
		h.Eval(fmt.Sprintf("i|%v|%d", specs, sseed))
		h.Hist("interleaved:" + src)
	}
	// the path a mailbox name really travels: imapwire's Encoder.Mailbox, then the peer's
	// ExpectMailbox (which wrap the encoder / decoder above)
	mailboxWire := func(name string, src string) {
		want := name
		if strings.EqualFold(name, "INBOX") {
			want = "INBOX"
		}
		for _, wc := range []wcfg{{Client: true}, {Client: true, QuotedUTF8: true}, {Client: false}} {
			out, err := wireEncode(wc, func(enc *shim.Encoder) { enc.Mailbox(name) })
			desc := map[string]interface{}{"mailbox": name, "mailbox_hex": fmt.Sprintf("%x", name), "wire": string(out)}
			if err != nil {
				h.Fail("mailbox-wire:encode", fmt.Sprintf("Encoder.Mailbox(%q): %v", name, err), desc)
				continue
			}
			o := wireDecode(6, !wc.Client, append(append([]byte(nil), out...), " x\r\n"...))
			if o.Class != 0 || o.Val != want {
				h.Fail("mailbox-wire:roundtrip", fmt.Sprintf("mailbox %+q written as %q is read back as %+q (class %d)", name, out, o.Val, o.Class), desc)
			}
		}
		key := ""
		if !allPrintable(name) || strings.Contains(name, "&") {
			key = "wire|" + name
		}
		h.Eval(key)
		h.Hist("mailbox-wire:" + src)
	}

	if h.Replay != "" {
		var wrap struct {
			Case struct {
				Enc   *string  `json:"encode_hex"`
				Dec   *string  `json:"decode_hex"`
				Tr    *string  `json:"transform_hex"`
				IsDec bool     `json:"dec"`
				Chunk int      `json:"chunk"`
				Cap   int      `json:"cap"`
				Mbox  *string  `json:"mailbox_hex"`
				Inter []trSpec `json:"interleave"`
				SSeed int64    `json:"sched_seed"`
			} `json:"case"`
		}
		b, _ := os.ReadFile(h.Replay)
		json.Unmarshal(b, &wrap)
		unhex := func(s string) string {
			var out []byte
			fmt.Sscanf(s, "%x", &out)
			return string(out)
		}
		switch {
		case wrap.Case.Inter != nil:
			interleave(wrap.Case.Inter, wrap.Case.SSeed, "replay")
		case wrap.Case.Mbox != nil:
			mailboxWire(unhex(*wrap.Case.Mbox), "replay")
		case wrap.Case.Enc != nil:
			encOne(unhex(*wrap.Case.Enc), "replay")
		case wrap.Case.Dec != nil:
			decOne(unhex(*wrap.Case.Dec), "replay")
		case wrap.Case.Tr != nil:
			drive(wrap.Case.IsDec, unhex(*wrap.Case.Tr), wrap.Case.Chunk, wrap.Case.Cap, "replay")
		}
		return
	}

	// ---- encoder ----
	var encOuts []string
	for _, s := range []string{"", "INBOX", "a&b", "&", "&&", "-", "&-", "~peter/mail/台北/日本語", "\x00", "\x7f", "é", "€", "😀", "a😀b", "\xff", "\xc3", "\xed\xa0\x80", "\xf4\x90\x80\x80", "\xc0\x80", "\xe2\x82", "a\xffb", "é&é", "�", "\U0010ffff", "￿", "a\r\nb"} {
		encOuts = append(encOuts, encOne(s, "corpus"))
	}
	cps := []string{"a", "&", "-", "~", "\x01", "\x7f", "é", "€", "�", "😀"}
	elen := h.Pick(4, 5)
	var erec func(p string, n int)
	cnt := 0
	erec = func(p string, n int) {
		if n > 0 {
			o := encOne(p, "exhaustive")
			if cnt%37 == 0 {
				encOuts = append(encOuts, o)
			}
			cnt++
		}
		if n == elen {
			return
		}
		for _, c := range cps {
			erec(p+c, n+1)
		}
	}
	erec("", 0)
	h.Note("encoder exhaustive: all strings of 1..%d code points over %q", elen, cps)
	randUTF8 := func(n int) string {
		var sb strings.Builder
		for i := 0; i < n; i++ {
			switch h.Rng.Intn(8) {
			case 0:
				sb.WriteRune(rune(h.Rng.Intn(0x20)))
			case 1:
				sb.WriteRune(rune(0x80 + h.Rng.Intn(0x780)))
			case 2:
				r := rune(0x800 + h.Rng.Intn(0xF800))
				if r >= 0xD800 && r < 0xE000 {
					r = 0xFFFD
				}
				sb.WriteRune(r)
			case 3:
				sb.WriteRune(rune(0x10000 + h.Rng.Intn(0x100000)))
			case 4:
				sb.WriteByte('&')
			case 5:
				cl := uniClasses[h.Rng.Intn(len(uniClasses))]
				sb.WriteRune(cl.lo + rune(h.Rng.Intn(int(cl.hi-cl.lo)+1)))
			default:
				sb.WriteRune(rune(0x20 + h.Rng.Intn(0x5f)))
			}
		}
		return sb.String()
	}
	var randStrs []string
	for i := 0; i < h.Pick(400, 6000); i++ {
		s := randUTF8(1 + h.Rng.Intn(h.Pick(60, 200)))
		randStrs = append(randStrs, s)
		encOuts = append(encOuts, encOne(s, "random"))
	}
	// names built from the Unicode classes that text transformations other than the identity
	// treat specially (see uniClasses): every class bound alone and after/before ASCII, every
	// base letter followed by every combining mark, and random mixes
	var uniNames []string
	for _, cl := range uniClasses {
		for _, r := range []rune{cl.lo, cl.hi} {
			uniNames = append(uniNames, string(r), "a"+string(r), string(r)+"b/&"+string(r))
		}
	}
	for _, b := range uniBases {
		for _, m := range uniMarks {
			uniNames = append(uniNames, string(b)+string(m), "Caf"+string(b)+string(m)+string(m)+"/x")
		}
	}
	for i := 0; i < h.Pick(150, 1500); i++ {
		var sb strings.Builder
		for n := 1 + h.Rng.Intn(8); n > 0; n-- {
			switch h.Rng.Intn(4) {
			case 0:
				sb.WriteRune(rune(0x20 + h.Rng.Intn(0x5f)))
			case 1:
				sb.WriteRune(uniBases[h.Rng.Intn(len(uniBases))])
				sb.WriteRune(uniMarks[h.Rng.Intn(len(uniMarks))])
			default:
				cl := uniClasses[h.Rng.Intn(len(uniClasses))]
				sb.WriteRune(cl.lo + rune(h.Rng.Intn(int(cl.hi-cl.lo)+1)))
			}
		}
		uniNames = append(uniNames, sb.String())
	}
	for _, s := range uniNames {
		encOuts = append(encOuts, encOne(s, "unicode-classes"))
	}
	// long runs crossing transform.String's 128-byte chunks
	for _, n := range []int{40, 43, 64, 100, 127, 128, 129, 200, 300} {
		encOuts = append(encOuts, encOne(strings.Repeat("é", n), "long"))
		encOuts = append(encOuts, encOne(strings.Repeat("a", n-1)+"😀"+strings.Repeat("&", 3), "long"))
	}
	// ---- mailbox names on the wire (see mailboxWire) ----
	for _, name := range []string{"R&D", "a&b", "&", "&&", "AT&T", "Sales & Marketing", "a&-b", "&-", "Entwürfe", "台北/日本語", "x&y/é", "~peter/mail/台北", "plain", "a b", "-&-", "inbox", "InBox", "INBOX/x"} {
		mailboxWire(name, "corpus")
	}
	for _, name := range uniNames {
		mailboxWire(name, "unicode-classes")
	}
	for _, name := range randStrs {
		mailboxWire(name, "random")
	}
	c16Server(h, append(append([]string(nil), uniNames...), randStrs[:h.Pick(60, 400)]...))
	// ---- decoder ----
	for _, t := range []string{"", "&", "&-", "&&", "&AGE", "&AGE-", "&AGEAYg-", "&AOk-", "&AOk-&AOk-", "&AOk-a&AOk-", "&AOk-&-", "&-&AOk-", "&AOk=-", "&AOk", "&AO-", "&A-", "&AA-", "&AAA-", "&2D3eAA-", "&2D0-", "&3gDYPQ-", "&2D3YPQ-", "&,,8-", "&AOk\r\n-", "&AO\nk-", "a\x80", "a\x1f", "\x7f", "&AOkA-", "&AOkAAA-", "&AOl-", "&AOm-", "&AOn-", "&AGE=-", "&AOk--", "-", "a-b", "&AAAAAA-", "&ACYAJg-", "&ImIAJg-"} {
		decOne(t, "corpus")
	}
	// every sequence of up to 3 UTF-16 units over {BMP, high and low surrogate bounds}, as one shift
	units := []uint16{0x0041, 0x00e9, 0xd800, 0xdbff, 0xdc00, 0xdfff, 0xffff}
	b64 := base64.NewEncoding("ABCDEFGHIJKLMNOPQRSTUVWXYZabcdefghijklmnopqrstuvwxyz0123456789+,").WithPadding(base64.NoPadding)
	var urec func(p []uint16)
	urec = func(p []uint16) {
		if len(p) > 0 {
			raw := make([]byte, 0, 2*len(p))
			for _, u := range p {
				raw = append(raw, byte(u>>8), byte(u))
			}
			decOne("&"+b64.EncodeToString(raw)+"-", "utf16-units")
			decOne("x&"+b64.EncodeToString(raw)+"-y", "utf16-units")
		}
		if len(p) == 3 {
			return
		}
		for _, u := range units {
			urec(append(append([]uint16(nil), p...), u))
		}
	}
	urec(nil)
	dalpha := []byte{'&', '-', 'A', 'k', 'l', '=', ',', '+', 'a', 0x1f, 0x80, '\r'}
	dlen := h.Pick(4, 5)
	var drec func(p []byte)
	drec = func(p []byte) {
		if len(p) > 0 {
			decOne(string(p), "exhaustive")
		}
		if len(p) == dlen {
			return
		}
		for _, c := range dalpha {
			drec(append(p, c))
		}
	}
	drec(nil)
	h.Note("decoder exhaustive: all byte strings of length 1..%d over %q", dlen, dalpha)
	for i, o := range encOuts {
		decOne(o, "encoder-output")
		if len(o) > 0 && i%2 == 0 {
			b := []byte(o)
			p := h.Rng.Intn(len(b))
			switch h.Rng.Intn(4) {
			case 0:
				b[p] = "&-A=,+a\x80"[h.Rng.Intn(8)]
			case 1:
				b = append(b[:p], b[p+1:]...)
			case 2:
				b = append(b[:p], append([]byte{"&-Ak"[h.Rng.Intn(4)]}, b[p:]...)...)
			default:
				b[p] ^= 1 << uint(h.Rng.Intn(7))
			}
			decOne(string(b), "mutated")
		}
	}
	// ---- explicit Transform calls ----
	tcorp := []string{"a&b", "é", "a😀b&", "~peter/mail/台北/日本語", "&&&", "\x01\x02\x03", "aé&éa", "\xffa"}
	tcorp = append(tcorp, randStrs[:h.Pick(20, 150)]...)
	for _, s := range tcorp {
		if len(s) > 40 {
			s = s[:40]
			for !utf8.ValidString(s) && len(s) > 0 {
				s = s[:len(s)-1]
			}
		}
		for chunk := 1; chunk <= h.Pick(5, 7); chunk += 2 {
			for capN := 1; capN <= h.Pick(9, 12); capN += h.Pick(4, 1) {
				drive(false, s, chunk, capN, "encoder")
			}
		}
		enc, _ := shim.UTF7().NewEncoder().String(s)
		for chunk := 1; chunk <= h.Pick(5, 7); chunk += 2 {
			for capN := 1; capN <= h.Pick(9, 12); capN += h.Pick(4, 1) {
				drive(true, enc, chunk, capN, "decoder")
			}
		}
	}
	for _, t := range []string{"&AOk-&AOk-", "&AOk", "a&-b", "&AGE-", "&AOk-a&AOk-", "ab\x80", "&AOk-&-&AOk-"} {
		for chunk := 1; chunk <= 4; chunk++ {
			for _, capN := range []int{1, 2, 3, 64} {
				drive(true, t, chunk, capN, "decoder-malformed")
			}
		}
	}
	// ---- several transformers in use at the same time ----
	// pool: valid encoded names (many shifts), malformed forms, plain ASCII, raw names for encoders
	var ipool []trSpec
	hx := func(s string) string { return fmt.Sprintf("%x", s) }
	for _, t := range []string{"&AOk-&AOk-", "&AP8-&AP8-", "caf&AOk-", "&AP8-!", "abc", "&AOk", "a&-b", "&AOk-a&AOk-", "&AOk-&-&AOk-", "&ZeVnLIqe-/&2D3eCg-x", "ab\x80", "&-&-&-"} {
		ipool = append(ipool, trSpec{Dec: true, Hex: hx(t)})
	}
	for _, s := range append(append([]string(nil), tcorp...), uniNames[:h.Pick(40, 300)]...) {
		if len(s) > 40 {
			s = s[:40]
			for !utf8.ValidString(s) && len(s) > 0 {
				s = s[:len(s)-1]
			}
		}
		enc, _ := shim.UTF7().NewEncoder().String(s)
		ipool = append(ipool, trSpec{Dec: true, Hex: hx(enc)}, trSpec{Dec: false, Hex: hx(s)})
	}
	// every ordered pair of the first (hand-written) entries, whole tokens per call, round robin
	for i := 0; i < 12; i++ {
		for j := 0; j < 12; j++ {
			for _, chunk := range []int{1, 3, 5} {
				a, b := ipool[i], ipool[j]
				a.Chunk, a.Cap, b.Chunk, b.Cap = chunk, 64, chunk, 64
				interleave([]trSpec{a, b}, 0, "pairs")
			}
		}
	}
	for i := 0; i < h.Pick(300, 3000); i++ {
		k := 2 + h.Rng.Intn(3)
		var specs []trSpec
		for ; k > 0; k-- {
			sp := ipool[h.Rng.Intn(len(ipool))]
			sp.Chunk, sp.Cap = 1+h.Rng.Intn(7), 1+h.Rng.Intn(12)
			specs = append(specs, sp)
		}
		sseed := int64(0)
		if h.Rng.Intn(4) != 0 {
			sseed = 1 + h.Rng.Int63n(1<<40)
		}
		interleave(specs, sseed, "random")
	}
	// concurrent one-shot use, as every connection of a server (and every client of a process)
	// does for each mailbox name: the results must be the sequential ones
	type cjob struct {
		dec     bool
		in, out string
		ok      bool
	}
	var jobs []cjob
	for _, sp := range ipool {
		var in string
		{
			var raw []byte
			fmt.Sscanf(sp.Hex, "%x", &raw)
			in = string(raw)
		}
		var out string
		var err error
		if sp.Dec {
			out, err = shim.UTF7().NewDecoder().String(in)
		} else {
			out, err = shim.UTF7().NewEncoder().String(in)
		}
		jobs = append(jobs, cjob{sp.Dec, in, out, err == nil})
	}
	var mu sync.Mutex
	var cfail []string
	var wg sync.WaitGroup
	stopAt := time.Now().Add(time.Duration(h.Pick(1500, 8000)) * time.Millisecond)
	ncalls := 0
	for g := 0; g < 8; g++ {
		wg.Add(1)
		go func(g int) {
			defer wg.Done()
			n := 0
			for i := g; time.Now().Before(stopAt) && n < h.Pick(20000, 200000); i += 7 {
				j := jobs[i%len(jobs)]
				var out string
				var err error
				if j.dec {
					out, err = shim.UTF7().NewDecoder().String(j.in)
				} else {
					out, err = shim.UTF7().NewEncoder().String(j.in)
				}
				n++
				if (err == nil) != j.ok || (j.ok && out != j.out) {
					mu.Lock()
					cfail = append(cfail, fmt.Sprintf("decoder=%v input %q: (%q, %v) while 7 other goroutines use utf7.Encoding, (%q, ok=%v) alone", j.dec, j.in, out, err, j.out, j.ok))
					mu.Unlock()
					break
				}
			}
			mu.Lock()
			ncalls += n
			mu.Unlock()
		}(g)
	}
	wg.Wait()
	h.Note("concurrent one-shot use: %d String calls from 8 goroutines", ncalls)
	h.Hist("concurrent")
	h.Eval("concurrent")
	if len(cfail) > 0 {
		h.Fail("concurrent", cfail[0], map[string]interface{}{"concurrent": cfail})
	}
}

// uniClasses: code point ranges that Unicode-aware transformations (normalisation forms,
// case and width folding, removal of default-ignorables, replacement of noncharacters) do
// not map to themselves; a lossless name encoding must carry all of them unchanged.
var uniClasses = []struct{ lo, hi rune }{
	{0x0300, 0x036f},   // combining diacritical marks (incl. singletons U+0340/41/43/44)
	{0x0370, 0x03ff},   // Greek (U+0374, U+037E, U+0387 singletons; sigma forms)
	{0x00a0, 0x00ff},   // Latin-1 (NBSP, soft hyphen, micro sign, precomposed letters)
	{0x0130, 0x0131},   // dotted/dotless i
	{0x017f, 0x017f},   // long s
	{0x0958, 0x095f},   // Devanagari composition exclusions
	{0x1100, 0x11ff},   // Hangul conjoining jamo
	{0xac00, 0xd7a3},   // precomposed Hangul syllables
	{0x1e00, 0x1fff},   // Latin extended additional, Greek extended (oxia singletons)
	{0x2000, 0x200f},   // spaces (U+2000/2001 singletons), ZWSP, ZWNJ, ZWJ, marks
	{0x2028, 0x202e},   // line/paragraph separators, bidi controls
	{0x2060, 0x2064},   // word joiner, invisible operators
	{0x2100, 0x214f},   // letterlike (OHM, KELVIN, ANGSTROM signs)
	{0x2329, 0x232a},   // angle brackets (singletons)
	{0x2460, 0x24ff},   // enclosed alphanumerics
	{0x2adc, 0x2adc},   // forking (composition exclusion)
	{0x3000, 0x3000},   // ideographic space
	{0x3041, 0x309f},   // Hiragana with voiced marks U+3099/309A
	{0xf900, 0xfaff},   // CJK compatibility ideographs
	{0xfb00, 0xfb4f},   // alphabetic presentation forms (ligatures, Hebrew exclusions)
	{0xfdd0, 0xfdef},   // noncharacters
	{0xfe00, 0xfe0f},   // variation selectors
	{0xfeff, 0xfeff},   // BOM / ZWNBSP
	{0xff00, 0xffef},   // half/fullwidth forms
	{0xfffe, 0xffff},   // noncharacters
	{0xe000, 0xf8ff},   // private use
	{0x1d15e, 0x1d164}, // musical symbols (composition exclusions)
	{0x2f800, 0x2fa1d}, // CJK compatibility ideographs supplement
	{0xe0100, 0xe01ef}, // variation selectors supplement
	{0x10fffe, 0x10ffff},
}

var uniBases = []rune{'e', 'A', 'o', 'n', 'c', 0x00e9, 0x03b1, 0x0391, 0x0415, 0x304b, 0x30cf, 0x1112, 0x0928, 0x05e9}
var uniMarks = []rune{0x0301, 0x0300, 0x0308, 0x030a, 0x0323, 0x0327, 0x0345, 0x0306, 0x3099, 0x309a, 0x1161, 0x11ab, 0x093c, 0x05c1}

// c16Server sends the names, encoded by hand-quoting the modified UTF-7 form, to a real
// imapserver as CREATE argument and as LIST pattern; the backend must see exactly the name,
// and the name written back in the LIST response must be read back unchanged.
func c16Server(h *H, names []string) {
	var reply string
	ts := startServer(srvOpts{PreAuth: true, Configure: func(s *stubSession) {
		s.onList = func(w *imapserver.ListWriter, ref string, patterns []string, options *imap.ListOptions) error {
			return w.WriteList(&imap.ListData{Mailbox: reply, Delim: '/'})
		}
	}})
	defer ts.Close()
	rc := ts.dial()
	defer rc.Close()
	if _, err := rc.readLine(5 * time.Second); err != nil {
		h.Fail("server:greeting", fmt.Sprintf("no greeting: %v", err), nil)
		return
	}
	quote := func(s string) string {
		return "\"" + strings.NewReplacer("\\", "\\\\", "\"", "\\\"").Replace(s) + "\""
	}
	for _, name := range names {
		if name == "" || strings.EqualFold(name, "INBOX") {
			continue
		}
		enc, err := shim.UTF7().NewEncoder().String(name)
		if err != nil {
			continue
		}
		desc := map[string]interface{}{"server_mailbox": name, "mailbox_hex": fmt.Sprintf("%x", name), "wire": enc}
		h.InFlight(desc)
		reply = name
		sess := ts.lastSession()
		if sess != nil {
			sess.TakeCalls()
		}
		_, tagged, err := rc.cmd("CREATE " + quote(enc))
		if err != nil || !isOK(tagged) {
			h.Fail("server:create", fmt.Sprintf("CREATE %s for %+q: %q, %v", quote(enc), name, tagged, err), desc)
			return
		}
		unt, tagged, err := rc.cmd("LIST \"\" " + quote(enc))
		if err != nil || !isOK(tagged) {
			h.Fail("server:list", fmt.Sprintf("LIST \"\" %s for %+q: %q, %v", quote(enc), name, tagged, err), desc)
			return
		}
		sess = ts.lastSession()
		for _, c := range sess.TakeCalls() {
			switch c.Name {
			case "Create":
				if got, _ := c.Args["mailbox"].(string); got != name {
					h.Fail("server:create-name", fmt.Sprintf("CREATE %s (name %+q): the backend is asked to create %+q", quote(enc), name, got), desc)
				}
				h.Hist("server:create")
			case "List":
				pats, _ := c.Args["patterns"].([]string)
				if len(pats) != 1 || pats[0] != name {
					h.Fail("server:list-pattern", fmt.Sprintf("LIST \"\" %s (pattern %+q): the backend is asked for %+q", quote(enc), name, pats), desc)
				}
				h.Hist("server:list")
			}
		}
		found := false
		for _, l := range unt {
			if i := strings.Index(l, "\"/\" "); i >= 0 && strings.HasPrefix(l, "* LIST") {
				o := wireDecode(6, false, []byte(l[i+4:]+" x\r\n"))
				found = true
				if o.Class != 0 || o.Val != name {
					h.Fail("server:list-reply", fmt.Sprintf("mailbox %+q listed as %q is read back as %+q (class %d)", name, l, o.Val, o.Class), desc)
				}
			}
		}
		if !found {
			h.Fail("server:list-reply", fmt.Sprintf("no LIST response for %+q: %q", name, unt), desc)
		}
		h.Eval("srv|" + name)
	}
}
