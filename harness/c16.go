package main

import (
	"encoding/base64"
	"encoding/json"
	"fmt"
	"os"
	"strings"
	"unicode/utf8"

	"golang.org/x/text/transform"

	shim "github.com/emersion/go-imap/v2/verifshim"
)

func init() { runners["C16"] = runC16 }

func errClass(err error) int {
	switch err {
	case nil:
		return 0
	case transform.ErrShortDst:
		return 1
	case transform.ErrShortSrc:
		return 2
	case shim.ErrInvalidUTF7:
		return 3
	}
	return 8
}

func allPrintable(s string) bool {
	for i := 0; i < len(s); i++ {
		if s[i] < 0x20 || s[i] > 0x7e {
			return false
		}
	}
	return true
}

type trCall struct {
	Cap  int    `json:"cap"`
	Src  string `json:"src"`
	EOF  bool   `json:"eof"`
	Out  string `json:"out"`
	NSrc int    `json:"nsrc"`
	Err  int    `json:"err"`
}

func runC16(h *H) {
	imports := []string{"From GoImap.Base Require Import Bytes.", "From GoImap.Model Require Import Utf7 Utf7Transform Utf7Corr."}
	encCorr := h.NewCorr("encode", imports, "enc_mismatches", 2500).Type("enc_case")
	decCorr := h.NewCorr("decode", imports, "dec_mismatches", 2500).Type("dec_case")
	trCorr := h.NewCorr("transform", imports, "trf_mismatches", 300).Type("trf_case")
	h.Rule("encoder: all strings up to the tier's length over a 10-code-point alphabet {a,&,-,~,U+0001,U+007F,U+00E9,U+20AC,U+FFFD,U+1F600} plus invalid-UTF-8 corpus and random valid UTF-8 up to 200 code points (crossing transform.String's 128-byte chunks); decoder: all byte strings up to the tier's length over {&,-,A,k,l,=,',',+,a,0x1F,0x80,CR} plus corpus, encoder outputs and their mutations; explicit Transform calls: a driver feeding source chunks of 1..7 bytes into destination buffers of 1..12 bytes, every call recorded. Oracles on the real code: decode(encode s) == s for valid UTF-8, output printable ASCII, decoder output utf8.Valid, listed malformed forms rejected, chunked result == one-shot result. Non-trivial = input contains a non-ASCII/control code point (encoder) or a base64 shift (decoder); distinct by input.")

	encOne := func(s string, src string) string {
		h.InFlight(map[string]interface{}{"encode": []byte(s)})
		out, err := shim.UTF7().NewEncoder().String(s)
		desc := map[string]interface{}{"encode_hex": fmt.Sprintf("%x", s)}
		if err != nil {
			h.Fail("encode-error", fmt.Sprintf("encoder returned error %v", err), desc)
		}
		if !allPrintable(out) {
			h.Fail("encode-nonprintable", fmt.Sprintf("encoder output %q is not printable ASCII", out), desc)
		}
		if utf8.ValidString(s) {
			back, err := shim.UTF7().NewDecoder().String(out)
			if err != nil || back != s {
				h.Fail("roundtrip", fmt.Sprintf("decode(encode(%q)) = %q, %v", s, back, err), desc)
			}
		}
		key := ""
		if !allPrintable(s) {
			key = "e|" + s
		}
		h.Eval(key)
		h.Hist("enc:" + src)
		encCorr.Add("("+coqHxS(s)+", "+coqHxS(out)+")", desc)
		if key != "" && h.Rng.Intn(3000) == 0 {
			h.Sample(map[string]interface{}{"encode": s, "out": out})
		}
		return out
	}
	decOne := func(t string, src string) {
		h.InFlight(map[string]interface{}{"decode": []byte(t)})
		out, err := shim.UTF7().NewDecoder().String(t)
		desc := map[string]interface{}{"decode_hex": fmt.Sprintf("%x", t), "decode": t}
		term := "None"
		if err == nil {
			term = coqSome(coqHxS(out))
			if !utf8.ValidString(out) {
				h.Fail("decode-invalid-utf8", fmt.Sprintf("decoder accepted %q and produced invalid UTF-8 %x", t, out), desc)
			}
			// malformed forms that must be rejected
			if !allPrintable(t) {
				h.Fail("decode-accepts-nonprintable", fmt.Sprintf("decoder accepted %q containing a byte outside 0x20..0x7e", t), desc)
			}
			if strings.Contains(t, "=") && strings.Contains(t, "&") {
				// '=' is only legal outside a shift
				in := false
				for i := 0; i < len(t); i++ {
					switch {
					case !in && t[i] == '&':
						in = true
					case in && t[i] == '-':
						in = false
					case in && t[i] == '=':
						h.Fail("decode-accepts-padding", fmt.Sprintf("decoder accepted %q with '=' inside a shift", t), desc)
					}
				}
			}
			// every shift must decode to non-printable code points only, and shifts must not be adjacent
			if i := strings.Index(t, "-&"); i >= 0 && i+2 < len(t) && t[i+2] != '-' {
				// "x-&y": adjacent only if the '-' closes a non-empty shift
				j := strings.LastIndex(t[:i], "&")
				if j >= 0 && j+1 < i && !strings.Contains(t[j:i], "-") {
					h.Fail("decode-accepts-adjacent-shifts", fmt.Sprintf("decoder accepted %q with back-to-back shifts", t), desc)
				}
			}
			// canonical re-encoding gives back something that decodes to the same
			re, _ := shim.UTF7().NewEncoder().String(out)
			back, err2 := shim.UTF7().NewDecoder().String(re)
			if err2 != nil || back != out {
				h.Fail("roundtrip", fmt.Sprintf("decode(encode(%q)) = %q, %v", out, back, err2), desc)
			}
		} else if errClass(err) != 3 {
			h.Fail("decode-error-class", fmt.Sprintf("decoder returned unexpected error %v on %q", err, t), desc)
		}
		key := ""
		if strings.Contains(t, "&") {
			key = "d|" + t
		}
		h.Eval(key)
		h.Hist("dec:" + src)
		if err == nil {
			h.Hist("dec_accepted")
		} else {
			h.Hist("dec_rejected")
		}
		decCorr.Add("("+coqHxS(t)+", "+term+")", desc)
	}
	// explicit Transform driver; decoder selects the transformer
	drive := func(isDec bool, input string, chunk, capN int, src string) {
		var tr transform.Transformer
		if isDec {
			tr = shim.UTF7().NewDecoder().Transformer
		} else {
			tr = shim.UTF7().NewEncoder().Transformer
		}
		tr.Reset()
		h.InFlight(map[string]interface{}{"transform": []byte(input), "dec": isDec, "chunk": chunk, "cap": capN})
		var calls []trCall
		var result []byte
		pending := []byte{}
		rest := []byte(input)
		var finalErr error
		curCap := capN
		for steps := 0; steps < 4000; steps++ {
			// feed
			if len(rest) > 0 && len(pending) < chunk {
				n := chunk - len(pending)
				if n > len(rest) {
					n = len(rest)
				}
				pending = append(pending, rest[:n]...)
				rest = rest[n:]
			}
			atEOF := len(rest) == 0
			dst := make([]byte, curCap)
			nDst, nSrc, err := tr.Transform(dst, pending, atEOF)
			calls = append(calls, trCall{curCap, string(pending), atEOF, string(dst[:nDst]), nSrc, errClass(err)})
			result = append(result, dst[:nDst]...)
			pending = append([]byte(nil), pending[nSrc:]...)
			if err == transform.ErrShortDst {
				if nDst == 0 {
					curCap *= 2
				}
				continue
			}
			if err == transform.ErrShortSrc {
				if atEOF {
					finalErr = err
					break
				}
				if nSrc == 0 {
					chunk *= 2
				}
				continue
			}
			if err != nil {
				finalErr = err
				break
			}
			if atEOF && len(pending) == 0 {
				break
			}
		}
		desc := map[string]interface{}{"transform_hex": fmt.Sprintf("%x", input), "dec": isDec, "chunk": chunk, "cap": capN, "calls": calls}
		// oracle: chunked == one-shot
		var one string
		var oneErr error
		if isDec {
			one, oneErr = shim.UTF7().NewDecoder().String(input)
		} else {
			one, oneErr = shim.UTF7().NewEncoder().String(input)
		}
		if (oneErr == nil) != (finalErr == nil) || (oneErr == nil && one != string(result)) {
			h.Fail("chunking", fmt.Sprintf("driving Transform with %d-byte source chunks and a %d-byte destination gives (%q, %v), one-shot gives (%q, %v)", chunk, capN, result, finalErr, one, oneErr), desc)
		}
		var cs []string
		for _, c := range calls {
			cs = append(cs, fmt.Sprintf("(%d, %s, %s, %s, %d, %d)", c.Cap, coqHxS(c.Src), coqBool(c.EOF), coqHxS(c.Out), c.NSrc, c.Err))
		}
		key := ""
		if len(calls) > 2 {
			key = fmt.Sprintf("t|%v|%s|%d|%d", isDec, input, chunk, capN)
		}
		h.Eval(key)
		h.Hist("transform:" + src)
		trCorr.Add("("+coqBool(isDec)+", "+coqList(cs)+")", desc)
	}

	if h.Replay != "" {
		var wrap struct {
			Case struct {
				Enc   *string `json:"encode_hex"`
				Dec   *string `json:"decode_hex"`
				Tr    *string `json:"transform_hex"`
				IsDec bool    `json:"dec"`
				Chunk int     `json:"chunk"`
				Cap   int     `json:"cap"`
			} `json:"case"`
		}
		b, _ := os.ReadFile(h.Replay)
		json.Unmarshal(b, &wrap)
		unhex := func(s string) string {
			var out []byte
			fmt.Sscanf(s, "%x", &out)
			return string(out)
		}
		switch {
		case wrap.Case.Enc != nil:
			encOne(unhex(*wrap.Case.Enc), "replay")
		case wrap.Case.Dec != nil:
			decOne(unhex(*wrap.Case.Dec), "replay")
		case wrap.Case.Tr != nil:
			drive(wrap.Case.IsDec, unhex(*wrap.Case.Tr), wrap.Case.Chunk, wrap.Case.Cap, "replay")
		}
		return
	}

	// ---- encoder ----
	var encOuts []string
	for _, s := range []string{"", "INBOX", "a&b", "&", "&&", "-", "&-", "~peter/mail/台北/日本語", "\x00", "\x7f", "é", "€", "😀", "a😀b", "\xff", "\xc3", "\xed\xa0\x80", "\xf4\x90\x80\x80", "\xc0\x80", "\xe2\x82", "a\xffb", "é&é", "�", "\U0010ffff", "￿", "a\r\nb"} {
		encOuts = append(encOuts, encOne(s, "corpus"))
	}
	cps := []string{"a", "&", "-", "~", "\x01", "\x7f", "é", "€", "�", "😀"}
	elen := h.Pick(4, 5)
	var erec func(p string, n int)
	cnt := 0
	erec = func(p string, n int) {
		if n > 0 {
			o := encOne(p, "exhaustive")
			if cnt%37 == 0 {
				encOuts = append(encOuts, o)
			}
			cnt++
		}
		if n == elen {
			return
		}
		for _, c := range cps {
			erec(p+c, n+1)
		}
	}
	erec("", 0)
	h.Note("encoder exhaustive: all strings of 1..%d code points over %q", elen, cps)
	randUTF8 := func(n int) string {
		var sb strings.Builder
		for i := 0; i < n; i++ {
			switch h.Rng.Intn(8) {
			case 0:
				sb.WriteRune(rune(h.Rng.Intn(0x20)))
			case 1:
				sb.WriteRune(rune(0x80 + h.Rng.Intn(0x780)))
			case 2:
				r := rune(0x800 + h.Rng.Intn(0xF800))
				if r >= 0xD800 && r < 0xE000 {
					r = 0xFFFD
				}
				sb.WriteRune(r)
			case 3:
				sb.WriteRune(rune(0x10000 + h.Rng.Intn(0x100000)))
			case 4:
				sb.WriteByte('&')
			default:
				sb.WriteRune(rune(0x20 + h.Rng.Intn(0x5f)))
			}
		}
		return sb.String()
	}
	var randStrs []string
	for i := 0; i < h.Pick(400, 6000); i++ {
		s := randUTF8(1 + h.Rng.Intn(h.Pick(60, 200)))
		randStrs = append(randStrs, s)
		encOuts = append(encOuts, encOne(s, "random"))
	}
	// long runs crossing transform.String's 128-byte chunks
	for _, n := range []int{40, 43, 64, 100, 127, 128, 129, 200, 300} {
		encOuts = append(encOuts, encOne(strings.Repeat("é", n), "long"))
		encOuts = append(encOuts, encOne(strings.Repeat("a", n-1)+"😀"+strings.Repeat("&", 3), "long"))
	}
	// ---- the path a mailbox name really travels: imapwire's Encoder.Mailbox, then the peer's
	// ExpectMailbox (which wrap the encoder / decoder above) ----
	for _, name := range []string{"R&D", "a&b", "&", "&&", "AT&T", "Sales & Marketing", "a&-b", "&-", "Entwürfe", "台北/日本語", "x&y/é", "~peter/mail/台北", "plain", "a b", "-&-"} {
		for _, wc := range []wcfg{{Client: true}, {Client: true, QuotedUTF8: true}, {Client: false}} {
			out, err := wireEncode(wc, func(enc *shim.Encoder) { enc.Mailbox(name) })
			desc := map[string]interface{}{"mailbox": name, "wire": string(out)}
			if err != nil {
				h.Fail("mailbox-wire:encode", fmt.Sprintf("Encoder.Mailbox(%q): %v", name, err), desc)
				continue
			}
			o := wireDecode(6, !wc.Client, append(append([]byte(nil), out...), " x\r\n"...))
			if o.Class != 0 || o.Val != name {
				h.Fail("mailbox-wire:roundtrip", fmt.Sprintf("mailbox %q written as %q is read back as %q (class %d)", name, out, o.Val, o.Class), desc)
			}
			h.Eval("wire|" + name)
			h.Hist("src:mailbox-wire")
		}
	}
	// ---- decoder ----
	for _, t := range []string{"", "&", "&-", "&&", "&AGE", "&AGE-", "&AGEAYg-", "&AOk-", "&AOk-&AOk-", "&AOk-a&AOk-", "&AOk-&-", "&-&AOk-", "&AOk=-", "&AOk", "&AO-", "&A-", "&AA-", "&AAA-", "&2D3eAA-", "&2D0-", "&3gDYPQ-", "&2D3YPQ-", "&,,8-", "&AOk\r\n-", "&AO\nk-", "a\x80", "a\x1f", "\x7f", "&AOkA-", "&AOkAAA-", "&AOl-", "&AOm-", "&AOn-", "&AGE=-", "&AOk--", "-", "a-b", "&AAAAAA-", "&ACYAJg-", "&ImIAJg-"} {
		decOne(t, "corpus")
	}
	// every sequence of up to 3 UTF-16 units over {BMP, high and low surrogate bounds}, as one shift
	units := []uint16{0x0041, 0x00e9, 0xd800, 0xdbff, 0xdc00, 0xdfff, 0xffff}
	b64 := base64.NewEncoding("ABCDEFGHIJKLMNOPQRSTUVWXYZabcdefghijklmnopqrstuvwxyz0123456789+,").WithPadding(base64.NoPadding)
	var urec func(p []uint16)
	urec = func(p []uint16) {
		if len(p) > 0 {
			raw := make([]byte, 0, 2*len(p))
			for _, u := range p {
				raw = append(raw, byte(u>>8), byte(u))
			}
			decOne("&"+b64.EncodeToString(raw)+"-", "utf16-units")
			decOne("x&"+b64.EncodeToString(raw)+"-y", "utf16-units")
		}
		if len(p) == 3 {
			return
		}
		for _, u := range units {
			urec(append(append([]uint16(nil), p...), u))
		}
	}
	urec(nil)
	dalpha := []byte{'&', '-', 'A', 'k', 'l', '=', ',', '+', 'a', 0x1f, 0x80, '\r'}
	dlen := h.Pick(4, 5)
	var drec func(p []byte)
	drec = func(p []byte) {
		if len(p) > 0 {
			decOne(string(p), "exhaustive")
		}
		if len(p) == dlen {
			return
		}
		for _, c := range dalpha {
			drec(append(p, c))
		}
	}
	drec(nil)
	h.Note("decoder exhaustive: all byte strings of length 1..%d over %q", dlen, dalpha)
	for i, o := range encOuts {
		decOne(o, "encoder-output")
		if len(o) > 0 && i%2 == 0 {
			b := []byte(o)
			p := h.Rng.Intn(len(b))
			switch h.Rng.Intn(4) {
			case 0:
				b[p] = "&-A=,+a\x80"[h.Rng.Intn(8)]
			case 1:
				b = append(b[:p], b[p+1:]...)
			case 2:
				b = append(b[:p], append([]byte{"&-Ak"[h.Rng.Intn(4)]}, b[p:]...)...)
			default:
				b[p] ^= 1 << uint(h.Rng.Intn(7))
			}
			decOne(string(b), "mutated")
		}
	}
	// ---- explicit Transform calls ----
	tcorp := []string{"a&b", "é", "a😀b&", "~peter/mail/台北/日本語", "&&&", "\x01\x02\x03", "aé&éa", "\xffa"}
	tcorp = append(tcorp, randStrs[:h.Pick(20, 150)]...)
	for _, s := range tcorp {
		if len(s) > 40 {
			s = s[:40]
			for !utf8.ValidString(s) && len(s) > 0 {
				s = s[:len(s)-1]
			}
		}
		for chunk := 1; chunk <= h.Pick(5, 7); chunk += 2 {
			for capN := 1; capN <= h.Pick(9, 12); capN += h.Pick(4, 1) {
				drive(false, s, chunk, capN, "encoder")
			}
		}
		enc, _ := shim.UTF7().NewEncoder().String(s)
		for chunk := 1; chunk <= h.Pick(5, 7); chunk += 2 {
			for capN := 1; capN <= h.Pick(9, 12); capN += h.Pick(4, 1) {
				drive(true, enc, chunk, capN, "decoder")
			}
		}
	}
	for _, t := range []string{"&AOk-&AOk-", "&AOk", "a&-b", "&AGE-", "&AOk-a&AOk-", "ab\x80", "&AOk-&-&AOk-"} {
		for chunk := 1; chunk <= 4; chunk++ {
			for _, capN := range []int{1, 2, 3, 64} {
				drive(true, t, chunk, capN, "decoder-malformed")
			}
		}
	}
}
