package main

import (
	"bufio"
	"crypto/tls"
	"fmt"
	"io"
	"net"
	"strings"
	"time"

	"github.com/emersion/go-imap/v2/imapclient"
)

// c10StartTLS: the blocking call of the STARTTLS upgrade (NewStartTLS) returns whatever the
// server sends together with, or after, its tagged OK and however the connection ends then.
func c10StartTLS(h *H) {
	greeting := "* OK [CAPABILITY IMAP4rev1 STARTTLS LOGINDISABLED] ready\r\n"
	suffixes := []string{"", "* BYE going away\r\n", "\n", "* OK [CAPABILITY IMAP4rev1 AUTH=PLAIN] hi\r\n", "T2 OK x\r\n", "\x16\x03\x01"}
	hangs := 0
	for _, status := range []string{"OK begin TLS now", "NO not now", "BAD what"} {
		for _, suffix := range suffixes {
			for _, then := range []string{"close", "alert-then-close", "reset"} {
				desc := map[string]interface{}{"operation": "starttls", "completion": status, "sent_with_completion": suffix, "then": then}
				h.InFlight(desc)
				cli, srv := net.Pipe()
				go func() {
					defer srv.Close()
					br := bufio.NewReader(srv)
					io.WriteString(srv, greeting)
					for {
						srv.SetReadDeadline(time.Now().Add(10 * time.Second))
						line, err := br.ReadString('\n')
						if err != nil {
							return
						}
						f := strings.Fields(line)
						if len(f) >= 2 && strings.EqualFold(f[1], "STARTTLS") {
							io.WriteString(srv, f[0]+" "+status+"\r\n"+suffix)
							break
						}
						if len(f) >= 1 {
							io.WriteString(srv, "* CAPABILITY IMAP4rev1 STARTTLS LOGINDISABLED\r\n"+f[0]+" OK done\r\n")
						}
					}
					switch then {
					case "alert-then-close":
						buf := make([]byte, 4096)
						srv.SetReadDeadline(time.Now().Add(2 * time.Second))
						br.Read(buf)
						srv.Write([]byte{0x15, 0x03, 0x01, 0x00, 0x02, 0x02, 0x28})
					case "reset":
						buf := make([]byte, 16)
						srv.SetReadDeadline(time.Now().Add(2 * time.Second))
						br.Read(buf)
					}
				}()
				done := make(chan error, 1)
				go func() {
					c, err := imapclient.NewStartTLS(cli, &imapclient.Options{TLSConfig: &tls.Config{InsecureSkipVerify: true}})
					if c != nil {
						c.Close()
					}
					done <- err
				}()
				select {
				case <-done:
					// returned (the TLS handshake itself is lazy: a nil error says nothing about it)
				case <-time.After(8 * time.Second):
					hangs++
					h.Fail("call-hangs:starttls:"+then, fmt.Sprintf("NewStartTLS did not return within 8 s (tagged %q and %q sent in one write, then %s)", status, suffix, then), desc)
					cli.Close()
				}
				h.Eval(fmt.Sprintf("starttls|%s|%q|%s", status, suffix, then))
				h.Hist("op:starttls")
				if hangs >= 3 {
					return // established; every further hang would cost another watchdog period
				}
			}
		}
	}
}
