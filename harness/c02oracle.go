package main

// C02: Coq term printing for requests / observed calls, the map-iteration order recovered from
// the wire, and the direct oracle (expected backend calls computed in Go from the property
// text, independently of the Coq model).

import (
	"bytes"
	"fmt"
	"reflect"
	"strings"
	"time"
	"unicode/utf8"

	imap "github.com/emersion/go-imap/v2"
)

// ---- Coq terms -----------------------------------------------------------------------------

func c02Range(start, stop uint32) string { return fmt.Sprintf("(%d, %d)", start, stop) }

func c02NSetSeq(s imap.SeqSet) string {
	var it []string
	for _, r := range s {
		it = append(it, c02Range(r.Start, r.Stop))
	}
	return coqList(it)
}
func c02NSetUID(s imap.UIDSet) string {
	var it []string
	for _, r := range s {
		it = append(it, c02Range(uint32(r.Start), uint32(r.Stop)))
	}
	return coqList(it)
}
func c02NumArg(ns imap.NumSet) string {
	if imap.IsSearchRes(ns) {
		return "NRes"
	}
	switch s := ns.(type) {
	case imap.SeqSet:
		return "(NSet " + c02NSetSeq(s) + ")"
	case imap.UIDSet:
		return "(NSet " + c02NSetUID(s) + ")"
	}
	return "NRes"
}

const zeroTimeUnix = -62135596800

func c02Time(t time.Time) string {
	_, off := t.Zone()
	return fmt.Sprintf("(mkT %s %s %s)", coqZ(t.Unix()-zeroTimeUnix), coqZ(int64(t.Nanosecond())), coqZ(int64(off)))
}

func c02Strs(l []string) string {
	var it []string
	for _, s := range l {
		it = append(it, coqHxS(s))
	}
	return coqList(it)
}
func c02Flags(l []imap.Flag) string {
	var it []string
	for _, s := range l {
		it = append(it, coqHxS(string(s)))
	}
	return coqList(it)
}
func c02Attrs(l []imap.MailboxAttr) string {
	var it []string
	for _, s := range l {
		it = append(it, coqHxS(string(s)))
	}
	return coqList(it)
}
func c02Ints(l []int) string {
	var it []string
	for _, v := range l {
		it = append(it, coqZ(int64(v)))
	}
	return coqList(it)
}
func c02Partial(p *imap.SectionPartial) string {
	if p == nil {
		return "None"
	}
	return fmt.Sprintf("(Some (%s, %s))", coqZ(p.Offset), coqZ(p.Size))
}

func c02FetchOpts(o *imap.FetchOptions) string {
	if o == nil {
		o = &imap.FetchOptions{}
	}
	bs := "None"
	if o.BodyStructure != nil {
		bs = "(Some " + coqBool(o.BodyStructure.Extended) + ")"
	}
	var secs, bins, bsz []string
	for _, s := range o.BodySection {
		secs = append(secs, fmt.Sprintf("(mkSec %s %s %s %s %s %s)", coqHxS(string(s.Specifier)), c02Ints(s.Part),
			c02Strs(s.HeaderFields), c02Strs(s.HeaderFieldsNot), c02Partial(s.Partial), coqBool(s.Peek)))
	}
	for _, s := range o.BinarySection {
		bins = append(bins, fmt.Sprintf("(mkBin %s %s %s)", c02Ints(s.Part), c02Partial(s.Partial), coqBool(s.Peek)))
	}
	for _, s := range o.BinarySectionSize {
		bsz = append(bsz, c02Ints(s.Part))
	}
	return fmt.Sprintf("(mkFetch %s %s %s %s %s %s %s %s %s %s %d)", bs, coqBool(o.Envelope), coqBool(o.Flags),
		coqBool(o.InternalDate), coqBool(o.RFC822Size), coqBool(o.UID), coqList(secs), coqList(bins), coqList(bsz),
		coqBool(o.ModSeq), o.ChangedSince)
}

func c02StatusOpts(o *imap.StatusOptions) string {
	if o == nil {
		o = &imap.StatusOptions{}
	}
	return fmt.Sprintf("(mkSt %s %s %s %s %s %s %s %s %s)", coqBool(o.NumMessages), coqBool(o.UIDNext), coqBool(o.UIDValidity),
		coqBool(o.NumUnseen), coqBool(o.NumDeleted), coqBool(o.Size), coqBool(o.AppendLimit), coqBool(o.DeletedStorage),
		coqBool(o.HighestModSeq))
}
func c02ListOpts(o *imap.ListOptions) string {
	if o == nil {
		o = &imap.ListOptions{}
	}
	st := "None"
	if o.ReturnStatus != nil {
		st = "(Some " + c02StatusOpts(o.ReturnStatus) + ")"
	}
	return fmt.Sprintf("(mkLO %s %s %s %s %s %s %s %s)", coqBool(o.SelectSubscribed), coqBool(o.SelectRemote),
		coqBool(o.SelectRecursiveMatch), coqBool(o.SelectSpecialUse), coqBool(o.ReturnSubscribed), coqBool(o.ReturnChildren),
		st, coqBool(o.ReturnSpecialUse))
}
func c02SearchOpts(o *imap.SearchOptions) string {
	if o == nil {
		o = &imap.SearchOptions{}
	}
	return fmt.Sprintf("(mkSO %s %s %s %s %s)", coqBool(o.ReturnMin), coqBool(o.ReturnMax), coqBool(o.ReturnAll),
		coqBool(o.ReturnCount), coqBool(o.ReturnSave))
}

// caller-side criteria (ccrit)
func c02CCrit(c *imap.SearchCriteria) string {
	var seqs, uids, hdr, nots, ors []string
	for _, s := range c.SeqNum {
		seqs = append(seqs, c02NSetSeq(s))
	}
	for _, s := range c.UID {
		uids = append(uids, c02NumArg(s))
	}
	for _, h := range c.Header {
		hdr = append(hdr, coqPair(coqHxS(h.Key), coqHxS(h.Value)))
	}
	for i := range c.Not {
		nots = append(nots, c02CCrit(&c.Not[i]))
	}
	for i := range c.Or {
		ors = append(ors, coqPair(c02CCrit(&c.Or[i][0]), c02CCrit(&c.Or[i][1])))
	}
	ms := "None"
	if c.ModSeq != nil {
		ms = fmt.Sprintf("(Some (%d, %s, %s))", c.ModSeq.ModSeq, coqHxS(c.ModSeq.MetadataName), coqHxS(string(c.ModSeq.MetadataType)))
	}
	return fmt.Sprintf("(CC %s %s %s %s %s %s %s %s %s %s %s %s %s %s %s %s)", coqList(seqs), coqList(uids),
		c02Time(c.Since), c02Time(c.Before), c02Time(c.SentSince), c02Time(c.SentBefore),
		coqList(hdr), c02Strs(c.Body), c02Strs(c.Text), c02Flags(c.Flag), c02Flags(c.NotFlag),
		coqZ(c.Larger), coqZ(c.Smaller), ms, coqList(nots), coqList(ors))
}

// server-side criteria (Search.criteria): times are seconds since the zero time; the "$"
// marker is the empty UID set
func c02ZTime(t time.Time) string { return coqZ(t.Unix() - zeroTimeUnix) }
func c02Crit(c *imap.SearchCriteria) string {
	var seqs, uids, hdr, nots, ors []string
	for _, s := range c.SeqNum {
		seqs = append(seqs, c02NSetSeq(s))
	}
	for _, s := range c.UID {
		if imap.IsSearchRes(s) {
			uids = append(uids, "[]")
		} else {
			uids = append(uids, c02NSetUID(s))
		}
	}
	for _, h := range c.Header {
		hdr = append(hdr, coqPair(coqHxS(h.Key), coqHxS(h.Value)))
	}
	for i := range c.Not {
		nots = append(nots, c02Crit(&c.Not[i]))
	}
	for i := range c.Or {
		ors = append(ors, coqPair(c02Crit(&c.Or[i][0]), c02Crit(&c.Or[i][1])))
	}
	return fmt.Sprintf("(Crit %s %s %s %s %s %s %s %s %s %s %s %s %s %s %s)", coqList(seqs), coqList(uids),
		c02ZTime(c.Since), c02ZTime(c.Before), c02ZTime(c.SentSince), c02ZTime(c.SentBefore),
		coqList(hdr), c02Strs(c.Body), c02Strs(c.Text), c02Flags(c.Flag), c02Flags(c.NotFlag),
		coqZ(c.Larger), coqZ(c.Smaller), coqList(nots), coqList(ors))
}

func c02ReqTerm(q *c02Req) string {
	switch q.Op {
	case "Login":
		return fmt.Sprintf("(QLogin %s %s)", coqHxS(q.A), coqHxS(q.B))
	case "Select":
		return fmt.Sprintf("(QSelect %s %s %s)", coqHxS(q.A), coqBool(q.ReadOnly), coqBool(q.CondStore))
	case "Create":
		return fmt.Sprintf("(QCreate %s %s)", coqHxS(q.A), c02Attrs(q.Attrs))
	case "Delete":
		return fmt.Sprintf("(QDelete %s)", coqHxS(q.A))
	case "Rename":
		return fmt.Sprintf("(QRename %s %s)", coqHxS(q.A), coqHxS(q.B))
	case "Subscribe":
		return fmt.Sprintf("(QSubscribe %s)", coqHxS(q.A))
	case "Unsubscribe":
		return fmt.Sprintf("(QUnsubscribe %s)", coqHxS(q.A))
	case "List":
		return fmt.Sprintf("(QList %s %s %s)", coqHxS(q.A), coqHxS(q.B), c02ListOpts(q.LOpts))
	case "Status":
		return fmt.Sprintf("(QStatus %s %s)", coqHxS(q.A), c02StatusOpts(q.StOpts))
	case "Append":
		return fmt.Sprintf("(QAppend %s %s %s %s)", coqHxS(q.A), c02Flags(q.Flags), c02Time(q.Time), coqHx(q.Payload))
	case "Expunge":
		return "QExpunge"
	case "UIDExpunge":
		return fmt.Sprintf("(QUIDExpunge %s)", c02NumArg(q.Set.numSet(true)))
	case "Search":
		return fmt.Sprintf("(QSearch %s %s %s)", coqBool(q.UID), c02CCrit(q.Crit), c02SearchOpts(q.SrOpts))
	case "Fetch":
		return fmt.Sprintf("(QFetch %s %s %s)", coqBool(q.UID), c02NumArg(q.Set.numSet(q.UID)), c02FetchOpts(q.FOpts))
	case "Store":
		return fmt.Sprintf("(QStore %s %s %d %s %s %d)", coqBool(q.UID), c02NumArg(q.Set.numSet(q.UID)), q.StoreOp,
			coqBool(q.Silent), c02Flags(q.Flags), q.UnchangedSince)
	case "Copy":
		return fmt.Sprintf("(QCopy %s %s %s)", coqBool(q.UID), c02NumArg(q.Set.numSet(q.UID)), coqHxS(q.A))
	case "Move":
		return fmt.Sprintf("(QMove %s %s %s)", coqBool(q.UID), c02NumArg(q.Set.numSet(q.UID)), coqHxS(q.A))
	case "Unselect":
		return "QUnselect"
	case "Close":
		return "QClose"
	}
	return "QExpunge"
}

func c02CallTerm(c *c02Call) string {
	switch c.Op {
	case "Login":
		return fmt.Sprintf("(BLogin %s %s)", coqHxS(c.A), coqHxS(c.B))
	case "Select":
		return fmt.Sprintf("(BSelect %s %s)", coqHxS(c.A), coqBool(c.ReadOnly))
	case "Create":
		return fmt.Sprintf("(BCreate %s %s)", coqHxS(c.A), c02Attrs(c.Attrs))
	case "Delete":
		return fmt.Sprintf("(BDelete %s)", coqHxS(c.A))
	case "Rename":
		return fmt.Sprintf("(BRename %s %s)", coqHxS(c.A), coqHxS(c.B))
	case "Subscribe":
		return fmt.Sprintf("(BSubscribe %s)", coqHxS(c.A))
	case "Unsubscribe":
		return fmt.Sprintf("(BUnsubscribe %s)", coqHxS(c.A))
	case "List":
		return fmt.Sprintf("(BList %s %s %s)", coqHxS(c.A), c02Strs(c.Patterns), c02ListOpts(c.LOpts))
	case "Status":
		return fmt.Sprintf("(BStatus %s %s)", coqHxS(c.A), c02StatusOpts(c.StOpts))
	case "Append":
		return fmt.Sprintf("(BAppend %s %s %s %s)", coqHxS(c.A), c02Flags(c.Flags), c02Time(c.Time), coqHx(c.Payload))
	case "Expunge":
		if c.HasSet {
			return fmt.Sprintf("(BExpunge (Some %s))", c02NumArg(c.Set))
		}
		return "(BExpunge None)"
	case "Search":
		return fmt.Sprintf("(BSearch %s %s %s)", coqBool(c.UID), c02Crit(c.Crit), c02SearchOpts(c.SrOpts))
	case "Fetch":
		return fmt.Sprintf("(BFetch %s %s %s)", coqBool(c.UID), c02NumArg(c.Set), c02FetchOpts(c.FOpts))
	case "Store":
		return fmt.Sprintf("(BStore %s %s %d %s %s)", coqBool(c.UID), c02NumArg(c.Set), int(c.StoreOp), coqBool(c.Silent), c02Flags(c.Flags))
	case "Copy":
		return fmt.Sprintf("(BCopy %s %s %s)", coqBool(c.UID), c02NumArg(c.Set), coqHxS(c.A))
	case "Move":
		return fmt.Sprintf("(BMove %s %s %s)", coqBool(c.UID), c02NumArg(c.Set), coqHxS(c.A))
	case "Unselect":
		return "BUnselect"
	}
	return "BUnselect"
}

// ---- map-iteration order recovered from the wire ---------------------------------------------

var (
	c02FetchNames  = []string{"BODY", "BODYSTRUCTURE", "ENVELOPE", "FLAGS", "INTERNALDATE", "RFC822.SIZE", "MODSEQ"}
	c02StatusNames = []string{"MESSAGES", "UIDNEXT", "UIDVALIDITY", "UNSEEN", "DELETED", "SIZE", "APPENDLIMIT", "DELETED-STORAGE", "HIGHESTMODSEQ"}
	c02SearchNames = []string{"MIN", "MAX", "ALL", "COUNT", "SAVE"}
)

// orderFrom lists the indices of names in the order their atoms appear in the atom list text
// (space separated), followed by the indices that do not appear.
func c02OrderFrom(listText string, names []string) []int {
	var order []int
	seen := map[int]bool{}
	for _, tok := range strings.Fields(listText) {
		for i, n := range names {
			if tok == n && !seen[i] {
				seen[i] = true
				order = append(order, i)
			}
		}
	}
	for i := range names {
		if !seen[i] {
			order = append(order, i)
		}
	}
	for len(order) < 9 {
		order = append(order, len(order))
	}
	return order
}

// c02Order extracts the relevant atom list from the client's bytes for the command.
func c02Order(q *c02Req, wire []byte) []int {
	w := string(wire)
	switch q.Op {
	case "Fetch":
		// "(" items ... up to the first section item
		i := strings.Index(w, "(")
		if i < 0 {
			break
		}
		rest := w[i+1:]
		if j := strings.IndexAny(rest, "[)"); j >= 0 {
			section := rest[j] == '['
			rest = rest[:j]
			if section {
				// the last token before "[" is the section item's own name: drop it
				if k := strings.LastIndex(rest, " "); k >= 0 {
					rest = rest[:k]
				} else {
					rest = ""
				}
			}
		}
		return c02OrderFrom(rest, c02FetchNames)
	case "Status":
		// the item list is the last parenthesised list of the line
		if i := strings.LastIndex(w, "("); i >= 0 {
			return c02OrderFrom(strings.TrimRight(w[i+1:], ")\r\n"), c02StatusNames)
		}
	case "List":
		if i := strings.LastIndex(w, "STATUS ("); i >= 0 {
			rest := w[i+len("STATUS ("):]
			if j := strings.Index(rest, ")"); j >= 0 {
				rest = rest[:j]
			}
			return c02OrderFrom(rest, c02StatusNames)
		}
	case "Search":
		if i := strings.Index(w, "SEARCH RETURN ("); i >= 0 {
			rest := w[i+len("SEARCH RETURN ("):]
			if j := strings.Index(rest, ")"); j >= 0 {
				rest = rest[:j]
			}
			return c02OrderFrom(rest, c02SearchNames)
		}
	}
	return []int{0, 1, 2, 3, 4, 5, 6, 7, 8}
}

// c02SyncLiterals walks the client's bytes line by line (skipping literal payloads) and
// counts the synchronising literal headers.
func c02SyncLiterals(out []byte) int {
	n := 0
	for len(out) > 0 {
		i := bytes.Index(out, []byte("\r\n"))
		if i < 0 {
			break
		}
		line := out[:i]
		out = out[i+2:]
		if len(line) == 0 || line[len(line)-1] != '}' {
			continue
		}
		j := bytes.LastIndexByte(line, '{')
		if j < 0 {
			continue
		}
		body := string(line[j+1 : len(line)-1])
		nonsync := strings.HasSuffix(body, "+")
		body = strings.TrimSuffix(body, "+")
		var size int
		if _, err := fmt.Sscanf(body, "%d", &size); err != nil || fmt.Sprint(size) != body {
			continue
		}
		if !nonsync {
			n++
		}
		if size > len(out) {
			break
		}
		out = out[size:]
	}
	return n
}

// ---- direct oracle ---------------------------------------------------------------------------

func c02NormMbox(m string) string {
	if strings.EqualFold(m, "INBOX") {
		return "INBOX"
	}
	return m
}

var c02KnownFlags = []string{"\\Seen", "\\Answered", "\\Flagged", "\\Deleted", "\\Draft", "$Forwarded", "$MDNSent", "$Junk", "$NotJunk", "$Phishing", "$Important"}
var c02KnownAttrs = []string{"\\NonExistent", "\\Noinferiors", "\\Noselect", "\\HasChildren", "\\HasNoChildren", "\\Marked", "\\Unmarked", "\\Subscribed", "\\Remote", "\\All", "\\Archive", "\\Drafts", "\\Flagged", "\\Junk", "\\Sent", "\\Trash", "\\Important"}

func asciiLower(s string) string {
	b := []byte(s)
	for i, c := range b {
		if 'A' <= c && c <= 'Z' {
			b[i] = c + 32
		}
	}
	return string(b)
}
func asciiUpper(s string) string {
	b := []byte(s)
	for i, c := range b {
		if 'a' <= c && c <= 'z' {
			b[i] = c - 32
		}
	}
	return string(b)
}

// flags and attributes are case-insensitive: the well-known ones are compared in canonical case
func c02CanonIn(known []string, s string) string {
	for _, k := range known {
		if asciiLower(k) == asciiLower(s) {
			return k
		}
	}
	return s
}
func c02NormFlags(l []imap.Flag) []string {
	out := []string{}
	for _, f := range l {
		out = append(out, c02CanonIn(c02KnownFlags, string(f)))
	}
	return out
}
func c02NormAttrs(l []imap.MailboxAttr) []string {
	out := []string{}
	for _, f := range l {
		out = append(out, c02CanonIn(c02KnownAttrs, c02CanonIn(c02KnownFlags, string(f))))
	}
	return out
}

func c02IsAtomChar(ch byte) bool {
	switch ch {
	case '(', ')', '{', ' ', '%', '*', '"', '\\', ']':
		return false
	}
	return ch > 0x1f && !(ch >= 0x7f && ch <= 0x9f)
}
func c02ValidFlag(s string) bool {
	if s == "\\*" {
		return true
	}
	if s == "" || s == "\\" {
		return false
	}
	for i := 0; i < len(s); i++ {
		if s[i] == '\\' {
			if i != 0 {
				return false
			}
		} else if !c02IsAtomChar(s[i]) {
			return false
		}
	}
	return true
}

// the calendar day of a time in its own zone, as the UTC midnight
func c02Day(t time.Time) time.Time {
	if t.IsZero() {
		return time.Time{}
	}
	y, m, d := t.Date()
	return time.Date(y, m, d, 0, 0, 0, 0, time.UTC)
}

type c02Expect struct {
	Supported bool // the request only uses features the server implements
	WF        bool // arguments the syntax and the server's limits can carry
	Garbage   bool // API misuse for which no faithful delivery is defined (not judged)
	Why       string
	Calls     []c02Call
}

func c02Short(s string) bool { return len(s) <= 4096 }

func c02ValidName(s string) bool { return utf8.ValidString(s) }

// c02Utf7Len is the length of the modified UTF-7 form of a valid UTF-8 name.
func c02Utf7Len(s string) int {
	n := 0
	run := 0 // UTF-16 code units in the current shifted run
	flush := func() {
		if run > 0 {
			n += 2 + (run*16+5)/6
			run = 0
		}
	}
	for _, r := range s {
		switch {
		case r == '&':
			flush()
			n += 2
		case r >= 0x20 && r <= 0x7e:
			flush()
			n++
		case r >= 0x10000:
			run += 2
		default:
			run++
		}
	}
	flush()
	return n
}
func c02NameOK(s string) bool { return c02ValidName(s) && c02Utf7Len(s) <= 4096 }

// c02RangesWF: every range is one the API can build (Start <= Stop, or Stop = * (0), or * alone)
func c02RangesWF(s c02Set) bool {
	for _, r := range s.Ranges {
		a, b := r[0], r[1]
		if !((a != 0 && (a <= b || b == 0)) || (a == 0 && b == 0)) {
			return false
		}
	}
	return true
}

func c02SetOK(s c02Set, uid bool) bool {
	if s.Res {
		return uid
	}
	return len(s.Ranges) > 0 && c02RangesWF(s)
}

// c02CanonSet rebuilds a set of well-formed ranges through the API: the same numbers in
// canonical form (what a set denotes is what matters).
func c02CanonSet(ns imap.NumSet) imap.NumSet {
	if imap.IsSearchRes(ns) {
		return ns
	}
	switch s := ns.(type) {
	case imap.SeqSet:
		var out imap.SeqSet
		for _, r := range s {
			out.AddRange(r.Start, r.Stop)
		}
		return out
	case imap.UIDSet:
		var out imap.UIDSet
		for _, r := range s {
			out.AddRange(r.Start, r.Stop)
		}
		return out
	}
	return ns
}

func c02DateOK(t time.Time) bool {
	if t.IsZero() {
		return true
	}
	y, m, d := t.Date()
	return y >= 1 && y <= 9999 && !(y == 1 && m == 1 && d == 1)
}

func c02NormCrit(c *imap.SearchCriteria, e *c02Expect, depth int) *imap.SearchCriteria {
	if depth > 998 {
		e.WF, e.Why = false, "criteria nested deeper than the server's list depth limit"
	}
	out := &imap.SearchCriteria{}
	for _, s := range c.SeqNum {
		var rs [][2]uint32
		for _, r := range s {
			rs = append(rs, [2]uint32{r.Start, r.Stop})
		}
		if !c02RangesWF(c02Set{Ranges: rs}) {
			e.Garbage, e.Why = true, "range with Start > Stop"
		} else if len(rs) == 0 {
			e.WF, e.Why = false, "empty sequence set"
		}
		out.SeqNum = append(out.SeqNum, c02CanonSet(s).(imap.SeqSet))
	}
	for _, s := range c.UID {
		if !imap.IsSearchRes(s) {
			var rs [][2]uint32
			for _, r := range s {
				rs = append(rs, [2]uint32{uint32(r.Start), uint32(r.Stop)})
			}
			if !c02RangesWF(c02Set{Ranges: rs}) {
				e.Garbage, e.Why = true, "range with Start > Stop"
			} else if len(rs) == 0 {
				e.WF, e.Why = false, "empty UID set"
			}
			s = c02CanonSet(s).(imap.UIDSet)
		}
		out.UID = append(out.UID, s)
	}
	for _, t := range []time.Time{c.Since, c.Before, c.SentSince, c.SentBefore} {
		if !c02DateOK(t) {
			e.WF, e.Why = false, "date outside 0001-01-02..9999-12-31"
		}
	}
	out.Since, out.Before, out.SentSince, out.SentBefore = c02Day(c.Since), c02Day(c.Before), c02Day(c.SentSince), c02Day(c.SentBefore)
	for _, h := range c.Header {
		if !c02Short(h.Key) || !c02Short(h.Value) {
			e.WF, e.Why = false, "string longer than 4096"
		}
		k := h.Key
		switch asciiUpper(k) {
		case "BCC", "CC", "FROM", "SUBJECT", "TO":
			k = asciiUpper(k[:1]) + asciiLower(k[1:]) // header names are case-insensitive
		}
		out.Header = append(out.Header, imap.SearchCriteriaHeaderField{Key: k, Value: h.Value})
	}
	for _, s := range append(append([]string{}, c.Body...), c.Text...) {
		if !c02Short(s) {
			e.WF, e.Why = false, "string longer than 4096"
		}
	}
	out.Body = append(out.Body, c.Body...)
	out.Text = append(out.Text, c.Text...)
	for _, f := range append(append([]imap.Flag{}, c.Flag...), c.NotFlag...) {
		if !c02ValidFlag(string(f)) {
			e.WF, e.Why = false, "invalid flag"
		}
	}
	for _, f := range c02NormFlags(c.Flag) {
		out.Flag = append(out.Flag, imap.Flag(f))
	}
	for _, f := range c02NormFlags(c.NotFlag) {
		out.NotFlag = append(out.NotFlag, imap.Flag(f))
	}
	if c.Larger < 0 || c.Smaller < 0 {
		e.Garbage, e.Why = true, "negative size"
	}
	out.Larger, out.Smaller = c.Larger, c.Smaller
	if c.ModSeq != nil {
		e.Supported, e.Why = false, "MODSEQ search key (CONDSTORE)"
	}
	for i := range c.Not {
		out.Not = append(out.Not, *c02NormCrit(&c.Not[i], e, depth+1))
	}
	for i := range c.Or {
		out.Or = append(out.Or, [2]imap.SearchCriteria{*c02NormCrit(&c.Or[i][0], e, depth+1), *c02NormCrit(&c.Or[i][1], e, depth+1)})
	}
	return out
}

func c02PartialOK(p *imap.SectionPartial) bool { return p == nil || (p.Offset >= 0 && p.Size >= 0) }
func c02PartOK(p []int) bool {
	for _, v := range p {
		if v < 0 || int64(v) > 4294967295 {
			return false
		}
	}
	return true
}

// c02Expected computes what the property demands for a request under the client's capabilities.
func c02Expected(q *c02Req, caps map[string]bool) *c02Expect {
	e := &c02Expect{Supported: true, WF: true}
	bad := func(why string) { e.WF, e.Why = false, why }
	name := func(s string) {
		if !c02ValidName(s) {
			e.Garbage, e.Why = true, "mailbox name that is not valid UTF-8"
		} else if !c02NameOK(s) {
			bad("mailbox name longer than 4096 bytes encoded")
		}
	}
	set := func() {
		if !q.Set.Res && !c02RangesWF(q.Set) {
			e.Garbage, e.Why = true, "range with Start > Stop"
		} else if !c02SetOK(q.Set, q.UID || q.Op == "UIDExpunge") {
			bad("empty number set")
		}
	}
	flags := func() {
		for _, f := range q.Flags {
			if !c02ValidFlag(string(f)) {
				bad("invalid flag")
			}
		}
	}
	kind := q.UID || q.Set.Res
	switch q.Op {
	case "Login":
		if !c02Short(q.A) || !c02Short(q.B) {
			bad("string longer than 4096")
		}
		e.Calls = []c02Call{{Op: "Login", A: q.A, B: q.B}}
	case "AuthPlain":
		// SASL PLAIN separates its fields with NUL and is sent as one line
		if strings.ContainsRune(q.A, 0) || strings.ContainsRune(q.B, 0) || q.A == "" {
			e.Garbage, e.Why = true, "NUL inside / empty PLAIN credentials"
		}
		if len(q.A)+len(q.B) > 2000 {
			bad("credentials too long for one line")
		}
		e.Calls = []c02Call{{Op: "Login", A: q.A, B: q.B}}
	case "Select":
		name(q.A)
		if q.CondStore {
			e.Supported, e.Why = false, "CONDSTORE select parameter"
		}
		e.Calls = []c02Call{{Op: "Select", A: c02NormMbox(q.A), ReadOnly: q.ReadOnly}}
	case "Create":
		name(q.A)
		for _, a := range q.Attrs {
			if !strings.HasPrefix(string(a), "\\") || !c02ValidFlag(string(a)) || a == "\\*" {
				bad("invalid mailbox attribute")
			}
		}
		var attrs []imap.MailboxAttr
		for _, a := range c02NormAttrs(q.Attrs) {
			attrs = append(attrs, imap.MailboxAttr(a))
		}
		e.Calls = []c02Call{{Op: "Create", A: c02NormMbox(q.A), Attrs: attrs}}
	case "Delete", "Subscribe", "Unsubscribe":
		name(q.A)
		e.Calls = []c02Call{{Op: q.Op, A: c02NormMbox(q.A)}}
	case "Rename":
		name(q.A)
		name(q.B)
		e.Calls = []c02Call{{Op: "Rename", A: c02NormMbox(q.A), B: c02NormMbox(q.B)}}
	case "List":
		name(q.A)
		name(q.B)
		o := imap.ListOptions{}
		if q.LOpts != nil {
			o = *q.LOpts
		}
		if o.SelectSpecialUse || o.ReturnSpecialUse {
			e.Supported, e.Why = false, "SPECIAL-USE list option"
		}
		if o.ReturnStatus != nil && o.ReturnStatus.HighestModSeq {
			e.Supported, e.Why = false, "HIGHESTMODSEQ status item (CONDSTORE)"
		}
		if o.SelectRecursiveMatch && !o.SelectSubscribed {
			bad("RECURSIVEMATCH without SUBSCRIBED")
		}
		var pats []string
		if q.B != "" {
			pats = []string{q.B} // the empty pattern is the hierarchy-delimiter query: no pattern
		}
		e.Calls = []c02Call{{Op: "List", A: c02NormMbox(q.A), Patterns: pats, LOpts: &o}}
	case "Status":
		name(q.A)
		o := imap.StatusOptions{}
		if q.StOpts != nil {
			o = *q.StOpts
		}
		if o.HighestModSeq {
			e.Supported, e.Why = false, "HIGHESTMODSEQ status item (CONDSTORE)"
		}
		e.Calls = []c02Call{{Op: "Status", A: c02NormMbox(q.A), StOpts: &o}}
	case "Append":
		name(q.A)
		flags()
		t := q.Time
		if !t.IsZero() {
			if _, off := t.Zone(); off%60 != 0 {
				t = t.UTC() // the zone of a date-time has whole minutes: same instant in UTC
			}
			y, _, _ := t.Date()
			if y < 1 || y > 9999 || !c02DateOK(t) {
				bad("date-time not representable (year)")
			}
			t = t.Truncate(time.Second) // IMAP date-time has a resolution of one second
		}
		var fl []imap.Flag
		for _, f := range c02NormFlags(q.Flags) {
			fl = append(fl, imap.Flag(f))
		}
		e.Calls = []c02Call{{Op: "Append", A: c02NormMbox(q.A), Flags: fl, Time: t, Payload: q.Payload}}
	case "Expunge":
		e.Calls = []c02Call{{Op: "Expunge"}}
	case "UIDExpunge":
		set()
		e.Calls = []c02Call{{Op: "Expunge", HasSet: true, Set: c02CanonSet(q.Set.numSet(true))}}
	case "Search":
		cr := c02NormCrit(q.Crit, e, 1)
		o := imap.SearchOptions{}
		if q.SrOpts != nil {
			o = *q.SrOpts
		}
		if !o.ReturnMin && !o.ReturnMax && !o.ReturnAll && !o.ReturnCount && !o.ReturnSave {
			o.ReturnAll = true // a plain SEARCH returns all matches
		}
		e.Calls = []c02Call{{Op: "Search", UID: q.UID, Crit: cr, SrOpts: &o}}
	case "Fetch":
		set()
		o := imap.FetchOptions{}
		if q.FOpts != nil {
			o = *q.FOpts
		}
		if o.ModSeq || o.ChangedSince != 0 {
			e.Supported, e.Why = false, "MODSEQ / CHANGEDSINCE (CONDSTORE)"
		}
		for _, s := range o.BodySection {
			switch s.Specifier {
			case imap.PartSpecifierNone, imap.PartSpecifierHeader, imap.PartSpecifierMIME, imap.PartSpecifierText:
			default:
				e.Garbage, e.Why = true, "unknown part specifier"
			}
			if (len(s.HeaderFields) > 0 || len(s.HeaderFieldsNot) > 0) && s.Specifier != imap.PartSpecifierHeader {
				e.Garbage, e.Why = true, "header field list without HEADER"
			}
			if len(s.HeaderFields) > 0 && len(s.HeaderFieldsNot) > 0 {
				e.Garbage, e.Why = true, "both HeaderFields and HeaderFieldsNot"
			}
			for _, f := range append(append([]string{}, s.HeaderFields...), s.HeaderFieldsNot...) {
				if !c02Short(f) {
					bad("string longer than 4096")
				}
			}
			if !c02PartOK(s.Part) || !c02PartialOK(s.Partial) {
				bad("part number / partial out of range")
			}
		}
		for _, s := range o.BinarySection {
			if !c02PartOK(s.Part) || !c02PartialOK(s.Partial) {
				bad("part number / partial out of range")
			}
		}
		for _, s := range o.BinarySectionSize {
			if !c02PartOK(s.Part) {
				bad("part number out of range")
			}
		}
		o.UID = o.UID || q.UID // UID FETCH always returns the UID
		e.Calls = []c02Call{{Op: "Fetch", UID: kind, Set: c02CanonSet(q.Set.numSet(q.UID)), FOpts: &o}}
	case "Store":
		set()
		flags()
		if q.UnchangedSince != 0 {
			e.Supported, e.Why = false, "UNCHANGEDSINCE (CONDSTORE)"
		}
		if q.StoreOp < 0 || q.StoreOp > 2 {
			bad("unknown store op")
		}
		var fl []imap.Flag
		for _, f := range c02NormFlags(q.Flags) {
			fl = append(fl, imap.Flag(f))
		}
		e.Calls = []c02Call{{Op: "Store", UID: kind, Set: c02CanonSet(q.Set.numSet(q.UID)), StoreOp: imap.StoreFlagsOp(q.StoreOp), Silent: q.Silent, Flags: fl}}
	case "Copy":
		set()
		name(q.A)
		e.Calls = []c02Call{{Op: "Copy", UID: kind, Set: c02CanonSet(q.Set.numSet(q.UID)), A: c02NormMbox(q.A)}}
	case "Move":
		set()
		name(q.A)
		if caps["MOVE"] || caps["IMAP4rev2"] {
			e.Calls = []c02Call{{Op: "Move", UID: kind, Set: c02CanonSet(q.Set.numSet(q.UID)), A: c02NormMbox(q.A)}}
		} else {
			// documented fallback: COPY, STORE +FLAGS.SILENT (\Deleted), EXPUNGE
			ex := c02Call{Op: "Expunge"}
			if q.UID && (caps["UIDPLUS"] || caps["IMAP4rev2"]) {
				ex.HasSet, ex.Set = true, c02CanonSet(q.Set.numSet(true))
			}
			e.Calls = []c02Call{
				{Op: "Copy", UID: kind, Set: c02CanonSet(q.Set.numSet(q.UID)), A: c02NormMbox(q.A)},
				{Op: "Store", UID: kind, Set: c02CanonSet(q.Set.numSet(q.UID)), StoreOp: imap.StoreFlagsAdd, Silent: true, Flags: []imap.Flag{imap.FlagDeleted}},
				ex,
			}
		}
	case "Unselect":
		e.Calls = []c02Call{{Op: "Unselect"}}
	case "Close":
		e.Calls = []c02Call{{Op: "Expunge"}, {Op: "Unselect"}}
	}
	return e
}

// ---- comparison of calls (Go side) ------------------------------------------------------------

func c02SetEq(a, b imap.NumSet) bool {
	if a == nil || b == nil {
		return a == nil && b == nil
	}
	if imap.IsSearchRes(a) || imap.IsSearchRes(b) {
		return imap.IsSearchRes(a) && imap.IsSearchRes(b)
	}
	return a.String() == b.String() && setIsUID(a) == setIsUID(b)
}

func c02StrsEq(a, b []string) bool {
	if len(a) != len(b) {
		return false
	}
	for i := range a {
		if a[i] != b[i] {
			return false
		}
	}
	return true
}
func c02FlagsEq(a, b []imap.Flag) bool {
	if len(a) != len(b) {
		return false
	}
	for i := range a {
		if a[i] != b[i] {
			return false
		}
	}
	return true
}

func c02CritEq(a, b *imap.SearchCriteria) string {
	if len(a.SeqNum) != len(b.SeqNum) {
		return "SeqNum count"
	}
	for i := range a.SeqNum {
		if a.SeqNum[i].String() != b.SeqNum[i].String() {
			return "SeqNum"
		}
	}
	if len(a.UID) != len(b.UID) {
		return "UID count"
	}
	for i := range a.UID {
		if !c02SetEq(a.UID[i], b.UID[i]) {
			return "UID"
		}
	}
	for _, p := range [][3]interface{}{{"Since", a.Since, b.Since}, {"Before", a.Before, b.Before}, {"SentSince", a.SentSince, b.SentSince}, {"SentBefore", a.SentBefore, b.SentBefore}} {
		if !p[1].(time.Time).Equal(p[2].(time.Time)) {
			return p[0].(string)
		}
	}
	if len(a.Header) != len(b.Header) {
		return "Header count"
	}
	for i := range a.Header {
		if a.Header[i] != b.Header[i] {
			return "Header"
		}
	}
	if !c02StrsEq(a.Body, b.Body) {
		return "Body"
	}
	if !c02StrsEq(a.Text, b.Text) {
		return "Text"
	}
	if !c02FlagsEq(a.Flag, b.Flag) {
		return "Flag"
	}
	if !c02FlagsEq(a.NotFlag, b.NotFlag) {
		return "NotFlag"
	}
	if a.Larger != b.Larger {
		return "Larger"
	}
	if a.Smaller != b.Smaller {
		return "Smaller"
	}
	if (a.ModSeq == nil) != (b.ModSeq == nil) {
		return "ModSeq"
	}
	if len(a.Not) != len(b.Not) {
		return "Not count"
	}
	for i := range a.Not {
		if d := c02CritEq(&a.Not[i], &b.Not[i]); d != "" {
			return "Not." + d
		}
	}
	if len(a.Or) != len(b.Or) {
		return "Or count"
	}
	for i := range a.Or {
		for k := 0; k < 2; k++ {
			if d := c02CritEq(&a.Or[i][k], &b.Or[i][k]); d != "" {
				return "Or." + d
			}
		}
	}
	return ""
}

func c02FetchEq(a, b *imap.FetchOptions) string {
	if (a.BodyStructure == nil) != (b.BodyStructure == nil) || (a.BodyStructure != nil && a.BodyStructure.Extended != b.BodyStructure.Extended) {
		return "BodyStructure"
	}
	if a.Envelope != b.Envelope || a.Flags != b.Flags || a.InternalDate != b.InternalDate || a.RFC822Size != b.RFC822Size || a.UID != b.UID {
		return "flags"
	}
	if a.ModSeq != b.ModSeq || a.ChangedSince != b.ChangedSince {
		return "modseq"
	}
	if len(a.BodySection) != len(b.BodySection) {
		return "BodySection count"
	}
	ints := func(x, y []int) bool {
		if len(x) != len(y) {
			return false
		}
		for i := range x {
			if x[i] != y[i] {
				return false
			}
		}
		return true
	}
	part := func(x, y *imap.SectionPartial) bool {
		if x == nil || y == nil {
			return x == nil && y == nil
		}
		return *x == *y
	}
	for i := range a.BodySection {
		x, y := a.BodySection[i], b.BodySection[i]
		if x.Specifier != y.Specifier || !ints(x.Part, y.Part) || !c02StrsEq(x.HeaderFields, y.HeaderFields) ||
			!c02StrsEq(x.HeaderFieldsNot, y.HeaderFieldsNot) || !part(x.Partial, y.Partial) || x.Peek != y.Peek {
			return fmt.Sprintf("BodySection[%d]", i)
		}
	}
	if len(a.BinarySection) != len(b.BinarySection) {
		return "BinarySection count"
	}
	for i := range a.BinarySection {
		x, y := a.BinarySection[i], b.BinarySection[i]
		if !ints(x.Part, y.Part) || !part(x.Partial, y.Partial) || x.Peek != y.Peek {
			return fmt.Sprintf("BinarySection[%d]", i)
		}
	}
	if len(a.BinarySectionSize) != len(b.BinarySectionSize) {
		return "BinarySectionSize count"
	}
	for i := range a.BinarySectionSize {
		if !ints(a.BinarySectionSize[i].Part, b.BinarySectionSize[i].Part) {
			return fmt.Sprintf("BinarySectionSize[%d]", i)
		}
	}
	return ""
}

// c02CallDiff names the first argument in which the delivered call differs from the expected one.
func c02CallDiff(want, got *c02Call) string {
	if want.Op != got.Op {
		return "operation"
	}
	if want.A != got.A {
		return "A"
	}
	if want.B != got.B {
		return "B"
	}
	if want.ReadOnly != got.ReadOnly {
		return "readonly"
	}
	if len(want.Attrs) != len(got.Attrs) {
		return "attrs"
	}
	for i := range want.Attrs {
		if want.Attrs[i] != got.Attrs[i] {
			return "attrs"
		}
	}
	if !c02StrsEq(want.Patterns, got.Patterns) {
		return "patterns"
	}
	if (want.LOpts == nil) != (got.LOpts == nil) || (want.LOpts != nil && !reflect.DeepEqual(*want.LOpts, *got.LOpts)) {
		return "listoptions"
	}
	if (want.StOpts == nil) != (got.StOpts == nil) || (want.StOpts != nil && *want.StOpts != *got.StOpts) {
		return "statusoptions"
	}
	if !c02FlagsEq(want.Flags, got.Flags) {
		return "flags"
	}
	if !want.Time.Equal(got.Time) {
		return "time"
	}
	if !want.Time.IsZero() {
		_, o1 := want.Time.Zone()
		_, o2 := got.Time.Zone()
		if o1 != o2 {
			return "timezone"
		}
	}
	if !bytes.Equal(want.Payload, got.Payload) {
		return "payload"
	}
	if want.HasSet != got.HasSet || want.UID != got.UID {
		return "numkind"
	}
	if !c02SetEq(want.Set, got.Set) {
		return "numset"
	}
	if (want.Crit == nil) != (got.Crit == nil) {
		return "criteria"
	}
	if want.Crit != nil {
		if d := c02CritEq(want.Crit, got.Crit); d != "" {
			return "criteria." + d
		}
	}
	if (want.SrOpts == nil) != (got.SrOpts == nil) || (want.SrOpts != nil && *want.SrOpts != *got.SrOpts) {
		return "searchoptions"
	}
	if (want.FOpts == nil) != (got.FOpts == nil) {
		return "fetchoptions"
	}
	if want.FOpts != nil {
		if d := c02FetchEq(want.FOpts, got.FOpts); d != "" {
			return "fetchoptions." + d
		}
	}
	if want.StoreOp != got.StoreOp || want.Silent != got.Silent {
		return "storemode"
	}
	return ""
}
