package main

import (
	"bufio"
	"bytes"
	"encoding/json"
	"errors"
	"fmt"
	"os"
	"strings"
	"unicode/utf8"

	imap "github.com/emersion/go-imap/v2"
	shim "github.com/emersion/go-imap/v2/verifshim"
)

func init() { runners["C01"] = runC01 }

type wcfg struct {
	QuotedUTF8, LiteralMinus, LiteralPlus, Client bool
	Cont                                          int // 0 none, 1 granted, 2 cancelled
}

func (c wcfg) coq() string {
	cont := "None"
	switch c.Cont {
	case 1:
		cont = "(Some true)"
	case 2:
		cont = "(Some false)"
	}
	return fmt.Sprintf("(mkCfg %s %s %s %s %s)", coqBool(c.QuotedUTF8), coqBool(c.LiteralMinus), coqBool(c.LiteralPlus), coqBool(c.Client), cont)
}

func (c wcfg) String() string {
	return fmt.Sprintf("utf8=%v lit-=%v lit+=%v client=%v cont=%d", c.QuotedUTF8, c.LiteralMinus, c.LiteralPlus, c.Client, c.Cont)
}

// wireEncode runs f on a real Encoder and returns the bytes written (without the final
// CRLF added to collect the deferred error) and the encoder error.
func wireEncode(c wcfg, f func(enc *shim.Encoder)) ([]byte, error) {
	var buf bytes.Buffer
	bw := bufio.NewWriter(&buf)
	side := shim.ConnSideServer
	if c.Client {
		side = shim.ConnSideClient
	}
	enc := shim.NewEncoder(bw, side)
	enc.QuotedUTF8, enc.LiteralMinus, enc.LiteralPlus = c.QuotedUTF8, c.LiteralMinus, c.LiteralPlus
	if c.Cont != 0 {
		enc.NewContinuationRequest = func() *shim.ContinuationRequest {
			cr := shim.NewContinuationRequest()
			if c.Cont == 1 {
				cr.Done("")
			} else {
				cr.Cancel(errors.New("refused"))
			}
			return cr
		}
	}
	f(enc)
	err := enc.CRLF()
	out := buf.Bytes()
	if err == nil {
		out = bytes.TrimSuffix(out, []byte("\r\n"))
	}
	return out, err
}

type decOut struct {
	Class int    `json:"class"` // 0 ok 1 no-match 2 error
	Val   string `json:"val"`
	Rem   int    `json:"rem"`
}

// wireDecode runs one Decoder method on the input.
func wireDecode(kind int, server bool, in []byte) decOut {
	r := bytes.NewReader(in)
	br := bufio.NewReader(r)
	side := shim.ConnSideClient
	if server {
		side = shim.ConnSideServer
	}
	dec := shim.NewDecoder(br, side)
	var ok bool
	var val string
	switch kind {
	case 1:
		ok = dec.Quoted(&val)
	case 2:
		ok = dec.Literal(&val)
	case 3:
		ok = dec.String(&val)
	case 4:
		ok = dec.ExpectAString(&val)
	case 5:
		ok = dec.ExpectNString(&val)
	case 6:
		ok = dec.ExpectMailbox(&val)
	case 7:
		var ns imap.NumSet
		ok = dec.ExpectNumSet(shim.NumKindSeq, &ns)
		if ok {
			val = ns.String()
		}
	case 8:
		f, err := shim.ExpectFlag(dec)
		ok, val = err == nil, string(f)
	case 9:
		f, err := shim.ExpectMailboxAttr(dec)
		ok, val = err == nil, string(f)
	case 10:
		var n uint32
		ok = dec.Number(&n)
		val = fmt.Sprint(n)
	case 11:
		var n int64
		ok = dec.Number64(&n)
		val = fmt.Sprint(n)
	case 12:
		var n uint64
		ok = dec.ModSeq(&n)
		val = fmt.Sprint(n)
	case 13:
		ok = dec.Atom(&val)
	case 14:
		ok = dec.SP()
	case 15:
		ok = dec.CRLF()
	case 16:
		ok = dec.DiscardValue()
	}
	rem := br.Buffered() + r.Len()
	switch {
	case dec.Err() != nil:
		return decOut{2, "", 0}
	case !ok:
		return decOut{1, "", rem}
	}
	return decOut{0, val, rem}
}

type wval struct {
	K string `json:"k"` // atom str num list
	S string `json:"s,omitempty"`
	N uint32 `json:"n,omitempty"`
	L []wval `json:"l,omitempty"`
}

func (v wval) coq() string {
	switch v.K {
	case "atom":
		return "(WAtom " + coqHxS(v.S) + ")"
	case "str":
		return "(WStr " + coqHxS(v.S) + ")"
	case "num":
		return fmt.Sprintf("(WNum %d)", v.N)
	}
	var l []string
	for _, x := range v.L {
		l = append(l, x.coq())
	}
	return "(WList " + coqList(l) + ")"
}

func (v wval) write(enc *shim.Encoder) {
	switch v.K {
	case "atom":
		enc.Atom(v.S)
	case "str":
		enc.String(v.S)
	case "num":
		enc.Number(v.N)
	default:
		enc.List(len(v.L), func(i int) { v.L[i].write(enc) })
	}
}

func (v wval) depth() int {
	d := 0
	for _, x := range v.L {
		if xd := x.depth(); xd > d {
			d = xd
		}
	}
	if v.K == "list" && len(v.L) > 0 {
		return d + 1
	}
	return d
}

func nest(n int, leaf wval) wval {
	v := leaf
	for i := 0; i < n; i++ {
		v = wval{K: "list", L: []wval{v}}
	}
	return v
}

var wellKnownFlags = []string{`\Seen`, `\Answered`, `\Flagged`, `\Deleted`, `\Draft`, `$Forwarded`, `$MDNSent`, `$Junk`, `$NotJunk`, `$Phishing`, `$Important`}
var wellKnownAttrs = []string{`\NonExistent`, `\Noinferiors`, `\Noselect`, `\HasChildren`, `\HasNoChildren`, `\Marked`, `\Unmarked`, `\Subscribed`, `\Remote`, `\All`, `\Archive`, `\Drafts`, `\Flagged`, `\Junk`, `\Sent`, `\Trash`, `\Important`}

func canonOf(known []string, s string) string {
	for _, k := range known {
		if strings.EqualFold(k, s) && isASCII(s) {
			return k
		}
	}
	return s
}

func isASCII(s string) bool {
	for i := 0; i < len(s); i++ {
		if s[i] >= 0x80 {
			return false
		}
	}
	return true
}

func runC01(h *H) {
	imports := []string{"From GoImap.Base Require Import Bytes.", "From GoImap.Model Require Import NumSet Utf7 Wire WireCorr."}
	encCorr := h.NewCorr("encode", imports, "wenc_mismatches", 1500).Type("wenc_case")
	decCorr := h.NewCorr("decode", imports, "wdec_mismatches", 2500).Type("wdec_case")
	h.Rule("every Encoder primitive (String, Quoted, Mailbox, NumSet, Flag, MailboxAttr, Number, Number64, nested List) under all 8 mode combinations x 2 sides x continuation {absent, granted, cancelled}: strings over {NUL,CR,LF,\",\\,SP,a,0x80,e-acute,0xFF} exhaustively to the tier's length, lengths 4094..4099, random; mailbox names incl. every case variant of INBOX and names of 120..1000 bytes whose non-ASCII runs straddle the UTF-7 transformer's 128-byte chunks; flags/attributes over atom and non-atom characters; numbers at 0, 2^32-1, 2^63-1, negative; number sets from the C15 generator; nestings 0..3 and 997..1001, also with empty lists at every level. Each accepted output is decoded by the peer's real Decoder with four different trailers (oracle: same value modulo INBOX/flag canonicalisation, exactly the written bytes consumed) and by the model; every Decoder method is additionally run on mutated outputs and on garbage. Non-trivial = the value needed escaping, a literal, UTF-7, canonicalisation or was refused; distinct by (config, kind, value).")

	var cfgs []wcfg
	for m := 0; m < 8; m++ {
		for _, client := range []bool{true, false} {
			c := wcfg{QuotedUTF8: m&1 != 0, LiteralMinus: m&2 != 0, LiteralPlus: m&4 != 0, Client: client}
			if client {
				for cont := 0; cont <= 2; cont++ {
					c.Cont = cont
					cfgs = append(cfgs, c)
				}
			} else {
				cfgs = append(cfgs, c)
			}
		}
	}
	trailers := []string{" x\r\n", ")\r\n", "\r\n", " (a)\r\n"}
	var decInputs [][2]interface{} // (kind, server, input) collected for the decoder correspondence

	addDec := func(kind int, server bool, in []byte, src string) {
		h.InFlight(map[string]interface{}{"decode_kind": kind, "server": server, "input": in})
		o := wireDecode(kind, server, in)
		h.Eval("")
		h.Hist(fmt.Sprintf("dec:%s:class%d", src, o.Class))
		decCorr.Add(fmt.Sprintf("(%d, %s, %s, (%d, %s, %d))", kind, coqBool(server), coqHx(in), o.Class, coqHxS(o.Val), o.Rem),
			map[string]interface{}{"decode_kind": kind, "server": server, "input_hex": fmt.Sprintf("%x", in), "observed": o})
	}
	_ = decInputs

	// one encoder case: write, record for the model, run the round-trip oracle
	encCase := func(c wcfg, kindName, term string, decKind int, want string, wantOK bool, f func(enc *shim.Encoder), nontrivial bool, desc map[string]interface{}) {
		desc["config"] = c.String()
		desc["kind"] = kindName
		h.InFlight(desc)
		out, err := wireEncode(c, f)
		exp := "None"
		if err == nil {
			exp = coqSome(coqHx(out))
		}
		encCorr.Add("("+c.coq()+", "+term+", "+exp+")", desc)
		key := ""
		if nontrivial || err != nil {
			key = c.String() + "|" + kindName + "|" + term
		}
		h.Eval(key)
		h.Hist("enc:" + kindName)
		if err != nil {
			h.Hist("enc_refused")
			return
		}
		if key != "" && h.Rng.Intn(1500) == 0 {
			h.Sample(map[string]interface{}{"config": c.String(), "kind": kindName, "value": desc["value"], "written": string(out)})
		}
		if decKind == 0 {
			return
		}
		// the peer decodes what this side wrote
		for ti, tr := range trailers {
			in := append(append([]byte(nil), out...), tr...)
			o := wireDecode(decKind, c.Client, in)
			if o.Class != 0 || (wantOK && o.Val != want) || o.Rem != len(tr) {
				sig := "roundtrip:" + kindName
				if o.Class != 0 {
					sig = "encoder-accepts-undecodable:" + kindName
				}
				desc["written"] = string(out)
				desc["decoded"] = o
				h.Fail(sig, fmt.Sprintf("%s %q written as %q under [%s]; peer decoder: class=%d value=%q unread=%d (expected value %q, unread %d)", kindName, desc["value"], out, c, o.Class, o.Val, o.Rem, want, len(tr)), desc)
			}
			if ti < 2 {
				addDec(decKind, c.Client, in, "encoder-output")
			}
		}
	}

	strCase := func(c wcfg, s string) {
		nt := strings.ContainsAny(s, "\x00\r\n\"\\") || !isASCII(s) || len(s) > 4096
		encCase(c, "string", "(EString "+coqHxS(s)+")", 4, s, true, func(enc *shim.Encoder) { enc.String(s) }, nt, map[string]interface{}{"value": s, "value_hex": fmt.Sprintf("%x", s)})
	}
	mboxCase := func(c wcfg, s string) {
		want := s
		if strings.EqualFold(s, "INBOX") {
			want = "INBOX"
		}
		nt := !isASCII(s) || strings.ContainsAny(s, "&\"\\") || strings.EqualFold(s, "INBOX")
		encCase(c, "mailbox", "(EMailbox "+coqHxS(s)+")", 6, want, utf8.ValidString(s), func(enc *shim.Encoder) { enc.Mailbox(s) }, nt, map[string]interface{}{"value": s, "value_hex": fmt.Sprintf("%x", s)})
	}
	flagCase := func(c wcfg, s string) {
		encCase(c, "flag", "(EFlag "+coqHxS(s)+")", 8, canonOf(wellKnownFlags, s), isASCII(s), func(enc *shim.Encoder) { enc.Flag(imap.Flag(s)) }, true, map[string]interface{}{"value": s})
	}
	attrCase := func(c wcfg, s string) {
		encCase(c, "attr", "(EAttr "+coqHxS(s)+")", 9, canonOf(wellKnownAttrs, canonOf(wellKnownFlags, s)), isASCII(s), func(enc *shim.Encoder) { enc.MailboxAttr(imap.MailboxAttr(s)) }, true, map[string]interface{}{"value": s})
	}
	numCase := func(c wcfg, n uint32) {
		encCase(c, "number", fmt.Sprintf("(ENumber %d)", n), 10, fmt.Sprint(n), true, func(enc *shim.Encoder) { enc.Number(n) }, n == 0 || n == max32, map[string]interface{}{"value": fmt.Sprint(n)})
	}
	num64Case := func(c wcfg, n int64) {
		encCase(c, "number64", "(ENumber64 "+coqZ(n)+")", 11, fmt.Sprint(n), true, func(enc *shim.Encoder) { enc.Number64(n) }, true, map[string]interface{}{"value": fmt.Sprint(n)})
	}
	setCase := func(c wcfg, s imap.SeqSet) {
		encCase(c, "numset", "(ENumSet "+coqNumSetRanges(s)+")", 7, s.String(), true, func(enc *shim.Encoder) { enc.NumSet(s) }, len(s) != 1, map[string]interface{}{"value": s.String()})
	}
	valCase := func(c wcfg, v wval) {
		b, _ := json.Marshal(v)
		d := map[string]interface{}{"value": fmt.Sprintf("nesting depth %d", v.depth())}
		if len(b) < 300 {
			d["value"] = string(b)
		}
		// DiscardValue is the generic reader: it must consume exactly the value when the
		// nesting is below the decoder's cap
		dk := 16
		if v.depth() >= 1000 {
			dk = 0
		}
		encCase(c, "value", "(EVal "+v.coq()+")", dk, "", false, func(enc *shim.Encoder) { v.write(enc) }, v.depth() > 0, d)
		if dk == 0 {
			out, err := wireEncode(c, func(enc *shim.Encoder) { v.write(enc) })
			if err == nil {
				o := wireDecode(16, c.Client, append(out, " x\r\n"...))
				if o.Class != 2 {
					h.Fail("depth-cap", fmt.Sprintf("a list nested %d deep is not refused by the decoder (class %d)", v.depth(), o.Class), d)
				}
				addDec(16, c.Client, append(out, " x\r\n"...), "deep-nesting")
			}
		}
	}

	if h.Replay != "" {
		var wrap struct {
			Case struct {
				Kind   string `json:"kind"`
				Hex    string `json:"value_hex"`
				Value  string `json:"value"`
				DK     int    `json:"decode_kind"`
				Server bool   `json:"server"`
				InHex  string `json:"input_hex"`
			} `json:"case"`
		}
		b, _ := os.ReadFile(h.Replay)
		json.Unmarshal(b, &wrap)
		var raw []byte
		fmt.Sscanf(wrap.Case.Hex, "%x", &raw)
		switch wrap.Case.Kind {
		case "string":
			for _, c := range cfgs {
				strCase(c, string(raw))
			}
		case "mailbox":
			for _, c := range cfgs {
				mboxCase(c, string(raw))
			}
		case "flag":
			flagCase(cfgs[0], wrap.Case.Value)
		case "attr":
			attrCase(cfgs[0], wrap.Case.Value)
		case "number64":
			var n int64
			fmt.Sscan(wrap.Case.Value, &n)
			num64Case(cfgs[0], n)
		default:
			if wrap.Case.DK != 0 {
				var in []byte
				fmt.Sscanf(wrap.Case.InHex, "%x", &in)
				addDec(wrap.Case.DK, wrap.Case.Server, in, "replay")
			}
		}
		return
	}

	// ---- strings ----
	alpha := []string{"\x00", "\r", "\n", "\"", "\\", " ", "a", "\x80", "é", "\xff"}
	var strs []string
	var gen func(p string, n int)
	slen := h.Pick(2, 3)
	gen = func(p string, n int) {
		strs = append(strs, p)
		if n == slen {
			return
		}
		for _, a := range alpha {
			gen(p+a, n+1)
		}
	}
	gen("", 0)
	for _, s := range strs {
		for _, c := range cfgs {
			strCase(c, s)
		}
	}
	h.Note("strings: all %d strings of up to %d symbols over %q under %d configurations", len(strs), slen, alpha, len(cfgs))
	for _, n := range []int{4094, 4095, 4096, 4097, 4099} {
		for _, c := range cfgs {
			strCase(c, strings.Repeat("a", n))
			strCase(c, strings.Repeat("a", n-1)+"\x80")
		}
	}
	for i := 0; i < h.Pick(150, 3000); i++ {
		b := make([]byte, h.Rng.Intn(40))
		for j := range b {
			if h.Rng.Intn(4) == 0 {
				b[j] = byte(h.Rng.Intn(256))
			} else {
				b[j] = byte(0x20 + h.Rng.Intn(0x5f))
			}
		}
		strCase(cfgs[h.Rng.Intn(len(cfgs))], string(b))
	}
	// ---- mailboxes ----
	var inboxes []string
	for m := 0; m < 32; m++ {
		b := []byte("inbox")
		for i := range b {
			if m&(1<<uint(i)) != 0 {
				b[i] -= 32
			}
		}
		inboxes = append(inboxes, string(b))
	}
	mboxes := append(inboxes, "", "inbox2", "INBOX/x", "a&b", "&", "Entwürfe", "台北/日本語", "a\"b", "a\\b", "a b", "x\r\ny", "😀", "İNBOX", "ınbox", "ſ", "\xff", "a\x80", "&AOk-", "~peter/mail/台北")
	for _, s := range mboxes {
		for _, c := range cfgs {
			mboxCase(c, s)
		}
	}
	// long names: the UTF-7 transformer works on 128-byte source chunks, so a non-ASCII run that
	// straddles a chunk boundary (after an earlier expanding character) is a separate path
	for _, n := range []int{120, 124, 126, 127, 128, 250, 254, 375, 376, 377, 380, 505, 1000} {
		for _, s := range []string{"é/" + strings.Repeat("a", n) + "éé", strings.Repeat("a", n) + "日本語y", "&" + strings.Repeat("b", n) + "ü&ü", strings.Repeat("é", n)} {
			mboxCase(cfgs[0], s)
			mboxCase(cfgs[len(cfgs)-1], s)
		}
	}
	// ---- flags / attributes ----
	flagSeeds := []string{"", `\`, `\*`, `\\`, `\Seen`, `\seen`, `\SEEN`, `$forwarded`, `$MDNSENT`, `$Phishing`, `\Foo`, `Foo`, `a\b`, `a b`, `a(b`, `a)b`, `a{b`, `a%b`, `a*b`, `a"b`, `a]b`, "a\x7fb", "a\x01b", "a\x80b", "a\xa0b", "a\xe9b", "$Phİshing", `\Noselect`, `\noselect`, `\HASCHILDREN`, `\Flagged`, `\FLAGGED`, `\Junk`, `\junk`, `$junk`, `\Important`, `\a*`, `**`, `\`, `\\Seen`, `x\`}
	for _, s := range flagSeeds {
		flagCase(cfgs[0], s)
		flagCase(cfgs[len(cfgs)-1], s)
		attrCase(cfgs[0], s)
	}
	fa := []byte{'\\', 'a', 'S', '$', '*', ' ', '(', 0x7f, 0xe9}
	var frec func(p []byte)
	frec = func(p []byte) {
		if len(p) > 0 {
			flagCase(cfgs[0], string(p))
			attrCase(cfgs[0], string(p))
		}
		if len(p) == h.Pick(3, 4) {
			return
		}
		for _, c := range fa {
			frec(append(p, c))
		}
	}
	frec(nil)
	// ---- numbers ----
	for _, n := range []uint32{0, 1, 9, 10, 4294967294, max32} {
		numCase(cfgs[0], n)
	}
	for _, n := range []int64{0, 1, 4096, 4294967296, 9223372036854775807, -1, -9223372036854775808} {
		num64Case(cfgs[0], n)
		num64Case(cfgs[3], n)
	}
	// ---- number sets ----
	setCase(cfgs[0], imap.SeqSet{})
	// an empty set is refused whatever its provenance (nil, literal, pre-sized, emptied by
	// re-slicing): only the SearchRes marker itself is written as "$"
	{
		used := imap.UIDSet{{Start: 3, Stop: 5}, {Start: 9, Stop: 9}}
		usedSeq := imap.SeqSet{{Start: 3, Stop: 5}}
		empties := []struct {
			name string
			set  imap.NumSet
		}{
			{"nil-uidset", imap.UIDSet(nil)}, {"uidset-literal", imap.UIDSet{}}, {"uidset-make-0", make(imap.UIDSet, 0)},
			{"uidset-make-0-cap-1", make(imap.UIDSet, 0, 1)}, {"uidset-make-0-cap-8", make(imap.UIDSet, 0, 8)}, {"uidset-resliced", used[:0]},
			{"nil-seqset", imap.SeqSet(nil)}, {"seqset-make-0-cap-8", make(imap.SeqSet, 0, 8)}, {"seqset-resliced", usedSeq[:0]},
		}
		for _, c := range []wcfg{cfgs[0], cfgs[len(cfgs)-1]} {
			for _, e := range empties {
				e := e
				out, err := wireEncode(c, func(enc *shim.Encoder) { enc.NumSet(e.set) })
				desc := map[string]interface{}{"value": "empty set (" + e.name + ")"}
				encCase(c, "numset", "(ENumSet [])", 0, "", false, func(enc *shim.Encoder) { enc.NumSet(e.set) }, true, desc)
				if err == nil {
					h.Fail("empty-set-written:"+e.name, fmt.Sprintf("an empty number set (%s) was written as %q under [%s] instead of being refused", e.name, out, c), desc)
				}
			}
		}
	}
	r15 := &c15Run{h: h}
	for i := 0; i < h.Pick(150, 2000); i++ {
		var s imap.SeqSet
		for k := 1 + h.Rng.Intn(5); k > 0; k-- {
			s.AddRange(r15.randEndpoint(), r15.randEndpoint())
		}
		setCase(cfgs[h.Rng.Intn(len(cfgs))], s)
	}
	// ---- nested lists ----
	leafs := []wval{{K: "atom", S: "NIL"}, {K: "str", S: "a b"}, {K: "num", N: 7}, {K: "str", S: "x\r\ny"}}
	for d := 0; d <= 3; d++ {
		for _, l := range leafs {
			for _, c := range []wcfg{cfgs[0], cfgs[1], cfgs[len(cfgs)-1]} {
				valCase(c, nest(d, l))
				valCase(c, wval{K: "list", L: []wval{nest(d, l), l, {K: "list"}}})
			}
		}
	}
	for _, d := range []int{997, 998, 999, 1000, 1001} {
		valCase(cfgs[len(cfgs)-1], nest(d, wval{K: "atom", S: "x"}))
		valCase(cfgs[1], nest(d, wval{K: "list"}))
	}
	// nesting in which every level also holds an empty list in front of the nested one: the
	// empty lists must not move the depth counter either way
	nestWithEmpties := func(n int, leaf wval) wval {
		v := leaf
		for i := 0; i < n; i++ {
			v = wval{K: "list", L: []wval{{K: "list"}, v}}
		}
		return v
	}
	for _, d := range []int{3, 500, 999, 1000, 1001, 1500} {
		valCase(cfgs[len(cfgs)-1], nestWithEmpties(d, wval{K: "atom", S: "x"}))
	}
	// many empty lists first, then a legal nesting: the counter must be back where it started
	{
		var items []wval
		for i := 0; i < 1200; i++ {
			items = append(items, wval{K: "list"})
		}
		items = append(items, nest(5, wval{K: "atom", S: "x"}))
		valCase(cfgs[1], wval{K: "list", L: items})
	}
	// ---- decoder on mutated and raw inputs ----
	seeds := []string{`"a\"b" x`, "{3}\r\nabc x", "{3+}\r\nabc x", "{3} \r\nabc", "{3}\nabc", "{99999999999999999999}\r\n", "{3}\r\nab", "{0}\r\n x", "{-1}\r\n", "{3+\r\nabc", "NIL x", "nil x", "NILx ", `"abc`, `"ab\`, "atom", "atom ", "ato(m", "4294967295 ", "4294967296 ", "007 ", "9223372036854775807 ", "9223372036854775808 ", "18446744073709551615 ", "18446744073709551616 ", "1:3,5 ", "$ ", "1:* ", "0 ", "1,,2 ", `\Seen `, `\* `, `\ `, `\`, `Seen)`, " x", " \r\n", "  x", "(a", "\r\n", " \r\n", "\n", "\rx", "x", "()", "(a b (c \"d\") {1}\r\nz) ", "((((", "(a  b)", "(a b", "inbox ", "INBOX ", `"&AOk-" `, `"&AOk" `, "&AOk- ", "a&b "}
	for _, s := range seeds {
		for kind := 1; kind <= 16; kind++ {
			addDec(kind, true, []byte(s), "seed")
			if kind <= 6 || kind == 16 {
				addDec(kind, false, []byte(s), "seed")
			}
		}
	}
	for i := 0; i < h.Pick(1500, 30000); i++ {
		s := []byte(seeds[h.Rng.Intn(len(seeds))])
		for k := h.Rng.Intn(3); k >= 0 && len(s) > 0; k-- {
			p := h.Rng.Intn(len(s))
			switch h.Rng.Intn(4) {
			case 0:
				s[p] = "\"\\{}()+ \r\n*%]a0$\x00\x80"[h.Rng.Intn(18)]
			case 1:
				s = append(s[:p], s[p+1:]...)
			case 2:
				s = append(s[:p], append([]byte{"\"\\{}() \r\n19"[h.Rng.Intn(11)]}, s[p:]...)...)
			default:
				s = s[:p]
			}
		}
		addDec(1+h.Rng.Intn(16), h.Rng.Intn(2) == 0, s, "mutated")
	}
}
