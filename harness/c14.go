package main

import (
	"encoding/json"
	"errors"
	"fmt"
	"io"
	"os"
	"runtime"
	"strings"
	"sync"
	"syscall"
	"time"
)

func init() { runners["C14"] = runC14 }

// a scripted concurrent scenario: per session a list of command lines
type c14Scenario struct {
	Name     string     `json:"name"`
	Sessions [][]string `json:"sessions"`
	Repeat   int        `json:"repeat"`
	// Fill: messages per mailbox at the start (0 = the tier's default)
	Fill int `json:"fill,omitempty"`
}

func runC14(h *H) {
	h.Rule("2..8 sessions on one server with the in-memory backend, each running its own command list concurrently (no synchronisation between sessions) over mailboxes A, B, C pre-filled with messages: targeted scenarios (COPY and MOVE in opposite directions between two mailboxes, expunge during fetch, LIST/STATUS during RENAME/DELETE/CREATE, LIST/LSUB during SUBSCRIBE/UNSUBSCRIBE, IDLE ended while another session stores flags on more messages than the idle channel holds, ENVELOPE of a message and of its copies fetched concurrently (also a targeted run: a fresh message with a long header is copied, then its envelope is fetched in both mailboxes at the same moment), STORE during COPY, several sessions removing the SAME messages of one mailbox at overlapping times: EXPUNGE / UID EXPUNGE / CLOSE in parallel on \\Deleted messages that a feeder session keeps appending to a mailbox of 150 messages which other sessions fetch; MOVE of messages that another session expunges or moves as well) repeated many times, plus seeded random command mixes. Every command has a watchdog; a command that gets no tagged completion within the limit and a further grace period of 45 s is a stall (a deadlock never ends, a slow command does; mailboxes are re-created every 250 repetitions to keep them small): the histories of all sessions and a goroutine dump are the replay. A command under which the server ends the connection (no tagged completion, EOF/reset) did not complete either (oracle no-completion), and a panic recovered by the server is reported with the library frames of its stack (oracle server-panic; once the server has logged a panic the grace period is 8 s). With VERIF_RACE=1 the same run is executed by a -race build and race reports involving imapserver packages are violations. Non-trivial = at least two sessions ran a mutating command on a shared mailbox; distinct by scenario and seed.")

	var runScenario func(sc c14Scenario, src string)
	runChunked := func(sc c14Scenario, src string) {
		// a fresh server every 250 repetitions: the scenarios append/copy messages, and mailboxes
		// of tens of thousands of messages make commands slow, which is not what is tested here
		for left := sc.Repeat; left > 0 && !h.failed("stall:"+sc.Name); left -= 250 {
			part := sc
			part.Repeat = left
			if part.Repeat > 250 {
				part.Repeat = 250
			}
			runScenario(part, src)
		}
	}
	runScenario = func(sc c14Scenario, src string) {
		desc := map[string]interface{}{"scenario": sc}
		h.InFlight(desc)
		t0 := time.Now()
		ms := startMemServer([]string{"A", "B", "C"}, false)
		defer ms.Close()
		// fill the mailboxes
		setup := ms.dial(0)
		setup.rc.cmd("LOGIN u p")
		for _, m := range []string{"A", "B", "C"} {
			fill := h.Pick(12, 40)
			if sc.Fill > 0 {
				fill = sc.Fill
			}
			for i := 0; i < fill; i++ {
				flags := ""
				if i%3 == 0 {
					flags = `\Deleted`
				}
				if err := setup.appendMsg(m, flags, fmt.Sprintf("msg %s %d %s", m, i, strings.Repeat("x", 200))); err != nil {
					h.Fail("setup", err.Error(), desc)
					return
				}
			}
		}
		setup.rc.Close()

		var wg sync.WaitGroup
		var mu sync.Mutex
		stalled := ""
		dropped := ""
		panicked := func() bool { return strings.Contains(ms.log.String(), "panic") }
		conns := make([]*memConn, len(sc.Sessions))
		for i := range sc.Sessions {
			conns[i] = ms.dial(i + 1)
			conns[i].grace = 45 * time.Second // a deadlock never ends; a slow command does
			conns[i].hurry = panicked         // ... unless the server has just recovered from a panic
			conns[i].rc.cmd("LOGIN u p")
		}
		for i, cmds := range sc.Sessions {
			wg.Add(1)
			go func(i int, cmds []string) {
				defer wg.Done()
				mc := conns[i]
				for r := 0; r < sc.Repeat; r++ {
					for _, line := range cmds {
						mu.Lock()
						st := stalled
						mu.Unlock()
						if st != "" {
							return
						}
						var stall bool
						var err error
						if strings.HasPrefix(line, "APPEND ") {
							done := make(chan error, 1)
							// "APPEND <mailbox> [<flag>]"
							f := append(strings.Fields(line), "")
							mc.mu.Lock()
							mc.hist = append(mc.hist, line)
							mc.mu.Unlock()
							go func() { done <- mc.appendMsg(f[1], f[2], "appended") }()
							select {
							case err = <-done:
								if ne, ok := err.(interface{ Timeout() bool }); ok && ne.Timeout() {
									stall = true
								}
							case <-time.After(6 * time.Second):
								stall = true
							}
							_ = err
						} else if line == "IDLE" {
							stall, err = mc.idle(2*time.Millisecond, 10*time.Second)
						} else {
							_, _, stall, err = mc.run(line, 6*time.Second)
						}
						if stall {
							mu.Lock()
							if stalled == "" {
								stalled = fmt.Sprintf("session %d: %q got no tagged completion within 6s", i+1, line)
							}
							mu.Unlock()
							return
						}
						if err != nil {
							// the connection ended under a command: that command never completes
							if connEnded(err) {
								mu.Lock()
								if dropped == "" {
									dropped = fmt.Sprintf("session %d: %q got no tagged completion, the server ended the connection (%v)", i+1, line, err)
								}
								mu.Unlock()
							}
							return
						}
					}
				}
			}(i, cmds)
		}
		wg.Wait()
		if panicked() {
			desc["server_log"] = panicLines(ms.log.String())
		}
		if dropped != "" {
			hist := map[string][]string{}
			for i, c := range conns {
				hh := c.history()
				if len(hh) > 12 {
					hh = hh[len(hh)-12:]
				}
				hist[fmt.Sprintf("session%d", i+1)] = hh
			}
			desc["last_commands"] = hist
			h.Fail("no-completion:"+sc.Name, "a command never completes: "+dropped, desc)
		}
		if stalled != "" {
			hist := map[string][]string{}
			for i, c := range conns {
				hh := c.history()
				if len(hh) > 12 {
					hh = hh[len(hh)-12:]
				}
				hist[fmt.Sprintf("session%d", i+1)] = hh
			}
			buf := make([]byte, 1<<20)
			n := runtime.Stack(buf, true)
			var blocked []string
			for _, g := range strings.Split(string(buf[:n]), "\n\n") {
				if strings.Contains(g, "sync.(*Mutex).Lock") && strings.Contains(g, "imapmemserver") {
					lines := strings.Split(g, "\n")
					var fn []string
					for _, l := range lines {
						if strings.Contains(l, "imapmemserver.") || strings.Contains(l, "imapserver.(") {
							fn = append(fn, strings.TrimSpace(l))
						}
					}
					if len(fn) > 6 {
						fn = fn[:6]
					}
					blocked = append(blocked, strings.Join(fn, " <- "))
				}
			}
			desc["last_commands"] = hist
			desc["goroutines_blocked_on_mutex"] = blocked
			h.Fail("stall:"+sc.Name, "commands block each other forever: "+stalled, desc)
		}
		if panicked() {
			h.Fail("server-panic", strings.Join(panicLines(ms.log.String()), " | "), desc)
		}
		for _, c := range conns {
			c.mu.Lock()
			if c.slow > 0 {
				h.Hist(fmt.Sprintf("slow-but-completed-commands x%d", c.slow))
			}
			c.mu.Unlock()
			c.rc.Close()
		}
		if os.Getenv("DBG") != "" {
			fmt.Fprintln(os.Stderr, sc.Name, time.Since(t0))
		}
		h.Eval(fmt.Sprintf("%s|%d|%d", sc.Name, sc.Repeat, h.Seed))
		h.Hist("scenario:" + src)
		h.Sample(map[string]interface{}{"scenario": sc.Name, "sessions": len(sc.Sessions), "repeat": sc.Repeat})
	}

	if h.Replay != "" {
		var wrap struct {
			Case struct {
				Scenario c14Scenario `json:"scenario"`
			} `json:"case"`
		}
		b, _ := os.ReadFile(h.Replay)
		json.Unmarshal(b, &wrap)
		runScenario(wrap.Case.Scenario, "replay")
		return
	}

	rep := h.Pick(300, 3000)
	nrand := h.Pick(20, 200)
	if os.Getenv("VERIF_RACE") != "" {
		// the race detector slows the run down several times
		rep, nrand = rep/6, nrand/3
	}
	del3 := []string{`APPEND A \Deleted`, `APPEND A \Deleted`, `APPEND A \Deleted`}
	scenarios := []c14Scenario{
		{"copy-opposite", [][]string{{"SELECT A", "COPY 1:10 B"}, {"SELECT B", "COPY 1:10 A"}}, rep * 8, 0},
		{"move-opposite", [][]string{{"SELECT A", "MOVE 1:2 B", "NOOP"}, {"SELECT B", "MOVE 1:2 A", "NOOP"}}, rep, 0},
		{"copy-move-status", [][]string{{"SELECT A", "COPY 1:10 B"}, {"SELECT B", "MOVE 1 A"}, {"STATUS A (MESSAGES UNSEEN)", "STATUS B (MESSAGES)", `LIST "" *`}}, rep, 0},
		{"expunge-during-fetch", [][]string{{"SELECT A", "FETCH 1:* (FLAGS BODY.PEEK[])"}, {"SELECT A", `STORE 1:* +FLAGS (\Deleted)`, "EXPUNGE", "APPEND A"}, {"SELECT A", "UID FETCH 1:* FLAGS", "NOOP"}}, rep, 0},
		// several sessions remove the SAME messages of one mailbox at overlapping times (every removal
		// collects its messages in one critical section and applies it in a later one): a feeder keeps
		// appending \Deleted messages that all of EXPUNGE / UID EXPUNGE / CLOSE, running in parallel, pick up
		{"expunge-same-batch", [][]string{del3, {"SELECT A", "EXPUNGE", "UID EXPUNGE 1:*", "EXPUNGE"}, {"SELECT A", "UID EXPUNGE 1:*", "EXPUNGE", "EXPUNGE"}, {"SELECT A", "EXPUNGE", "EXPUNGE", "EXPUNGE"}, {"SELECT A", "EXPUNGE", "CLOSE"}, {"SELECT A", "FETCH 1:* (UID FLAGS)", "FETCH 1:* (UID FLAGS)"}, {"SELECT A", "UID FETCH 1:* FLAGS", "FETCH 1:* (UID FLAGS)"}, {"SELECT A", "FETCH 1:* (UID FLAGS)", "NOOP"}}, rep / 2, 150},
		// ... MOVE of messages that another session expunges (or also moves) while they are copied
		{"move-vs-expunge", [][]string{{`APPEND A \Deleted`, `APPEND A \Deleted`, `APPEND B \Deleted`, `APPEND B \Deleted`}, {"SELECT A", "MOVE 1:* B"}, {"SELECT A", "EXPUNGE", "EXPUNGE"}, {"SELECT B", "UID MOVE 1:* A"}, {"SELECT B", "EXPUNGE", "EXPUNGE"}, {"SELECT A", "FETCH 1:* (UID FLAGS)"}}, rep / 2, 6},
		{"move-same-messages", [][]string{{"APPEND A", "APPEND A", "APPEND B"}, {"SELECT A", "MOVE 1:4 B"}, {"SELECT A", "UID MOVE 1:* B"}, {"SELECT B", "MOVE 1:4 A"}, {"SELECT B", `STORE 1:* +FLAGS.SILENT (\Deleted)`, "CLOSE"}, {"SELECT A", `STORE 1:* +FLAGS.SILENT (\Deleted)`, "EXPUNGE"}}, rep / 2, 6},
		{"list-during-rename", [][]string{{`LIST "" *`, `LIST "" % RETURN (STATUS (MESSAGES))`, "STATUS C (MESSAGES)"}, {"RENAME C D", "RENAME D C"}, {"CREATE X", "DELETE X"}, {"SELECT C", "FETCH 1 FLAGS", "UNSELECT"}}, rep, 0},
		{"list-during-subscribe", [][]string{{`LIST "" *`, `LSUB "" *`, `LIST (SUBSCRIBED) "" *`}, {"SUBSCRIBE A", "UNSUBSCRIBE A", "SUBSCRIBE B"}, {"UNSUBSCRIBE B", "SUBSCRIBE C", `LIST "" % RETURN (SUBSCRIBED)`}}, rep, 0},
		// an idling session ends its IDLE while another session queues a burst of more updates than
		// the idle notification channel holds
		{"idle-during-burst", [][]string{{"SELECT A", "IDLE", "IDLE", "IDLE"}, {"SELECT A", `STORE 1:* +FLAGS.SILENT (\Seen)`, `STORE 1:* -FLAGS.SILENT (\Seen)`, "NOOP"}, {"STATUS A (MESSAGES)", "SELECT A", "NOOP"}}, rep / 10, 150},
		// envelopes of a message and of its copy in another mailbox fetched concurrently
		{"envelope-of-copies", [][]string{{"APPEND A", "SELECT A", "COPY 1:* C", "FETCH 1:* (ENVELOPE)", "APPEND A", "MOVE * B"}, {"SELECT C", "FETCH 1:* (ENVELOPE BODYSTRUCTURE)", "SELECT B", "FETCH 1:* (ENVELOPE)"}, {"SELECT A", "FETCH 1:* (ENVELOPE)", "UID FETCH 1:* (ENVELOPE RFC822.SIZE)"}}, rep / 2, 3},
		{"store-during-copy", [][]string{{"SELECT A", `STORE 1:* +FLAGS (\Seen)`, `STORE 1:* -FLAGS (\Seen)`}, {"SELECT A", "COPY 1:5 C"}, {"SELECT C", "SEARCH SEEN", "UID SEARCH ALL"}}, rep, 0},
	}
	// C14_ONLY=<substring of a scenario name>: run only these (for debugging a scenario)
	only := func(name string) bool {
		o := os.Getenv("C14_ONLY")
		return o == "" || strings.Contains(name, o)
	}
	for _, sc := range scenarios {
		if only(sc.Name) {
			runChunked(sc, "targeted")
		}
	}
	// targeted: a freshly appended message is copied to another mailbox, then its envelope is
	// fetched in both mailboxes at the same moment (whatever a message and its copies share must
	// not be written under two different mailbox locks)
	if only("envelope-of-fresh-copy") {
		ms := startMemServer([]string{"A", "C"}, false)
		setup := ms.dial(0)
		setup.rc.cmd("LOGIN u p")
		a, c := ms.dial(1), ms.dial(2)
		for _, mc := range []*memConn{a, c} {
			mc.grace = 45 * time.Second
			mc.rc.cmd("LOGIN u p")
		}
		a.rc.cmd("SELECT A")
		c.rc.cmd("SELECT C")
		setup.rc.cmd("SELECT A")
		var hdr strings.Builder
		for i := 0; i < 300; i++ {
			fmt.Fprintf(&hdr, "X-Filler-%d: %s\r\n", i, strings.Repeat("v", 60))
		}
		rounds := h.Pick(60, 300)
		if os.Getenv("VERIF_RACE") != "" {
			rounds = h.Pick(40, 120)
		}
		desc := map[string]interface{}{"scenario": "envelope-of-fresh-copy", "rounds": rounds}
		h.InFlight(desc)
		for r := 0; r < rounds; r++ {
			msg := fmt.Sprintf("From: a%d@example.org\r\nTo: b@example.org\r\nSubject: round %d\r\nDate: Tue, 10 Mar 2020 10:00:00 +0000\r\n%s\r\nbody\r\n", r, r, hdr.String())
			if _, _, tagged, err := setup.rc.interactive(fmt.Sprintf("APPEND A {%d}", len(msg)), []string{msg + "\r\n"}); err != nil || !isOK(tagged) {
				h.Fail("setup", fmt.Sprintf("APPEND: %v %s", err, tagged), desc)
				break
			}
			if _, tagged, _ := setup.rc.cmd("COPY * C"); !isOK(tagged) {
				h.Fail("setup", "COPY: "+tagged, desc)
				break
			}
			// both sessions learn about the new message first, so that "*" is the new message
			a.rc.cmd("NOOP")
			c.rc.cmd("NOOP")
			var wg sync.WaitGroup
			stalledAt := ""
			var smu sync.Mutex
			for _, mc := range []*memConn{a, c} {
				wg.Add(1)
				go func(mc *memConn) {
					defer wg.Done()
					if _, _, stall, _ := mc.run("FETCH * (ENVELOPE)", 6*time.Second); stall {
						smu.Lock()
						stalledAt = fmt.Sprintf("session %d: FETCH * (ENVELOPE) got no tagged completion", mc.id)
						smu.Unlock()
					}
				}(mc)
			}
			wg.Wait()
			if stalledAt != "" {
				h.Fail("stall:envelope-of-fresh-copy", stalledAt, desc)
				break
			}
		}
		if strings.Contains(ms.log.String(), "panic") {
			h.Fail("server-panic", strings.Join(panicLines(ms.log.String()), " | "), desc)
		}
		h.Eval("envelope-of-fresh-copy")
		h.Hist("scenario:targeted")
		for _, mc := range []*memConn{setup, a, c} {
			mc.rc.Close()
		}
		ms.Close()
	}

	// random mixes
	verbs := []string{"SELECT A", "SELECT B", "SELECT C", "EXAMINE A", "FETCH 1:* FLAGS", "UID FETCH 1:* (FLAGS)", "COPY 1:3 A", "COPY 1:3 B", "COPY 1 C",
		"MOVE 1 A", "MOVE 1 B", "UID MOVE 1:2 C", `STORE 1:* +FLAGS (\Deleted)`, `STORE 1 -FLAGS (\Deleted)`, "EXPUNGE", "UID EXPUNGE 1:*", "NOOP", "CLOSE", "UNSELECT",
		"STATUS A (MESSAGES)", "STATUS B (MESSAGES UIDNEXT)", `LIST "" *`, "APPEND A", "APPEND B", `APPEND A \Deleted`, `APPEND B \Deleted`, "MOVE 1:* A", "UID MOVE 1:* B", "SEARCH ALL", "UID SEARCH DELETED",
		"SUBSCRIBE A", "UNSUBSCRIBE A", `LSUB "" *`}
	for i := 0; i < nrand; i++ {
		sc := c14Scenario{Name: fmt.Sprintf("random-%d", i), Repeat: h.Pick(10, 30)}
		for s := 2 + h.Rng.Intn(h.Pick(4, 7)); s > 0; s-- {
			var cmds []string
			for k := 5 + h.Rng.Intn(10); k > 0; k-- {
				cmds = append(cmds, verbs[h.Rng.Intn(len(verbs))])
			}
			sc.Sessions = append(sc.Sessions, cmds)
		}
		if only(sc.Name) {
			runChunked(sc, "random")
		}
	}
}

// connEnded: the error of a command means that the peer closed (or reset) the connection, as
// opposed to a read deadline or a refusal.
func connEnded(err error) bool {
	if err == nil {
		return false
	}
	if errors.Is(err, io.EOF) || errors.Is(err, io.ErrUnexpectedEOF) || errors.Is(err, syscall.ECONNRESET) || errors.Is(err, syscall.EPIPE) {
		return true
	}
	return false
}

// panicLines returns the lines of a server log that report a recovered panic, each followed by
// the first frames of the library in its stack trace.
func panicLines(log string) []string {
	var out []string
	lines := strings.Split(log, "\n")
	for i, l := range lines {
		if !strings.Contains(l, "panic") || strings.HasPrefix(l, "\t") || strings.HasPrefix(l, "panic(") {
			continue
		}
		frames := 0
		for _, m := range lines[i+1:] {
			if strings.Contains(m, "panic handling command") {
				break
			}
			if strings.HasPrefix(m, "github.com/emersion/go-imap/v2/imapserver/imapmemserver.") && frames < 3 {
				l += " <- " + strings.TrimPrefix(m, "github.com/emersion/go-imap/v2/imapserver/")
				frames++
			}
		}
		out = append(out, l)
		if len(out) == 4 {
			break
		}
	}
	return out
}
