package main

import (
	"encoding/base64"
	"encoding/json"
	"fmt"
	"io"
	"os"
	"strings"
	"time"

	"github.com/emersion/go-imap/v2/imapserver"
)

func init() { runners["C05"] = runC05 }

type srvCfg struct {
	TLSConfig bool `json:"tlsconfig"`
	Insecure  bool `json:"insecure"`
	PreAuth   bool `json:"preauth"`
	Unauth    bool `json:"unauth"`
	TLS       bool `json:"tls"` // implicit TLS transport
	// the backend session implements SessionSASL (not a parameter of the model: the model's
	// AUTHENTICATE is the same with either backend)
	SASL bool `json:"sasl"`
	// the listener is a Unix domain socket (not a parameter of the model either: only TLS makes
	// a connection secure, a local socket is plaintext like TCP)
	Unix bool `json:"unix,omitempty"`
}

func (c srvCfg) coq() string {
	return fmt.Sprintf("(mkScfg %s %s %s %s)", coqBool(c.TLSConfig), coqBool(c.Insecure), coqBool(c.PreAuth), coqBool(c.Unauth))
}

// a command of the C05 alphabet: its model constructor and how to speak it on the wire
type c05Cmd struct {
	Coq  string
	Line string
	// follow-ups answered to continuation requests
	Follow []string
	NCalls int // max backend calls whose outcome can be scripted
}

var c05Alphabet = func() []c05Cmd {
	plain := base64.StdEncoding.EncodeToString([]byte("\x00user\x00pass"))
	return []c05Cmd{
		{"CCapability", "CAPABILITY", nil, 0}, {"CNoop", "NOOP", nil, 0}, {"CLogout", "LOGOUT", nil, 0},
		{"CStartTLS", "STARTTLS", nil, 0}, {"CLogin", "LOGIN user pass", nil, 1}, {"CAuthPlain", "AUTHENTICATE PLAIN " + plain, nil, 1},
		{"CUnauthenticate", "UNAUTHENTICATE", nil, 1}, {"CEnable", "ENABLE UTF8=ACCEPT", nil, 0},
		{"CSelect", "SELECT INBOX", nil, 2}, {"CExamine", "EXAMINE INBOX", nil, 2},
		{"CCreate", "CREATE a", nil, 1}, {"CDelete", "DELETE a", nil, 1}, {"CRename", "RENAME a b", nil, 1},
		{"CSubscribe", "SUBSCRIBE a", nil, 1}, {"CUnsubscribe", "UNSUBSCRIBE a", nil, 1},
		{"CList", `LIST "" *`, nil, 1}, {"CLsub", `LSUB "" *`, nil, 1}, {"CStatus", "STATUS a (MESSAGES)", nil, 1},
		{"CAppend", "APPEND a {3}", []string{"abc\r\n"}, 1}, {"CAppend", "APPEND a {3+}\r\nabc", nil, 1}, {"CNamespace", "NAMESPACE", nil, 1}, {"CIdle", "IDLE", []string{"DONE\r\n"}, 1},
		{"CClose", "CLOSE", nil, 2}, {"CUnselect", "UNSELECT", nil, 1}, {"CExpunge", "EXPUNGE", nil, 1}, {"CUidExpunge", "UID EXPUNGE 1:*", nil, 1},
		{"(CFetch false)", "FETCH 1 FLAGS", nil, 1}, {"(CFetch true)", "UID FETCH 1 FLAGS", nil, 1},
		{"(CStore false)", `STORE 1 +FLAGS (\Seen)`, nil, 1}, {"(CStore true)", `UID STORE 1 +FLAGS (\Seen)`, nil, 1},
		{"(CSearch false)", "SEARCH ALL", nil, 1}, {"(CSearch true)", "UID SEARCH ALL", nil, 1},
		{"(CCopy false)", "COPY 1 b", nil, 1}, {"(CCopy true)", "UID COPY 1 b", nil, 1},
		{"(CMove false)", "MOVE 1 b", nil, 1}, {"(CMove true)", "UID MOVE 1 b", nil, 1},
		{"CUnknown", "FROBNICATE", nil, 0},
	}
}()

var callCoq = map[string]string{"Login": "KLogin", "Unauthenticate": "KUnauth", "Select": "KSelect", "Unselect": "KUnselect", "Create": "KCreate",
	"Delete": "KDelete", "Rename": "KRename", "Subscribe": "KSubscribe", "Unsubscribe": "KUnsubscribe", "List": "KList", "Status": "KStatus",
	"Append": "KAppend", "Namespace": "KNamespace", "Idle": "KIdle", "Expunge": "KExpunge", "Fetch": "KFetch", "Store": "KStore",
	"Search": "KSearch", "Copy": "KCopy", "Move": "KMove"}
var stateCoq = map[string]string{"notauth": "SNotAuth", "auth": "SAuth", "selected": "SSelected", "logout": "SLogout"}

// which states RFC 9051 permits a backend operation in (independent table for the oracle)
func permittedIn(call, state string) bool {
	switch call {
	case "Login":
		return state == "notauth"
	case "Unselect", "Expunge", "Fetch", "Store", "Search", "Copy", "Move":
		return state == "selected"
	default:
		return state == "auth" || state == "selected"
	}
}

type c05Step struct {
	Cmd   int    `json:"cmd"`
	Outs  []bool `json:"outs"`
	Line  string `json:"line"`
	Class string `json:"class"`
	Bye   bool   `json:"bye"`
	Calls []Call `json:"calls"`
	State string `json:"state"`
	TLS   bool   `json:"tls"`
}

func runC05(h *H) {
	imports := []string{"From GoImap.Base Require Import Bytes.", "From GoImap.Model Require Import ServerConn ServerConnCorr."}
	corr := h.NewCorr("serve", imports, "sc_mismatches", 250).Type("sc_case")
	h.Rule("command sequences over the full command alphabet (36 forms incl. UID variants, AUTHENTICATE PLAIN, IDLE, APPEND with a synchronising and with a non-synchronising literal, STARTTLS with a real handshake, an unknown command), each backend call scripted to succeed or fail, on a raw connection to the real server for the configurations {implicit TLS, plaintext} x {TLSConfig} x {InsecureAuth} x {greeting OK, PREAUTH} x {UNAUTHENTICATE supported} x {backend with its own SASL mechanisms (SessionSASL) or the built-in PLAIN}. Observed per command: tagged class, BYE/close, the backend calls with the connection state each saw (verif hook), state and transport afterwards. Exhaustive up to the tier's length from several start prefixes plus seeded random longer sequences. Oracle: every call permitted by RFC 9051 in the state it saw; Login only over TLS unless InsecureAuth; nothing processed after LOGOUT/BYE. Non-trivial = at least one backend call was made or refused for state/TLS reasons; distinct by (config, sequence, outcomes).")

	var cfgs []srvCfg
	for m := 0; m < 64; m++ {
		c := srvCfg{TLSConfig: m&1 != 0, Insecure: m&2 != 0, PreAuth: m&4 != 0, Unauth: m&8 != 0, TLS: m&16 != 0, SASL: m&32 != 0}
		if c.TLS && !c.TLSConfig {
			continue // an implicit-TLS listener needs a TLS configuration
		}
		cfgs = append(cfgs, c)
	}
	for m := 0; m < 4; m++ {
		cfgs = append(cfgs, srvCfg{TLSConfig: m&1 != 0, SASL: m&2 != 0, Unix: true})
	}
	servers := map[srvCfg]*testServer{}
	getServer := func(c srvCfg) *testServer {
		if ts := servers[c]; ts != nil {
			return ts
		}
		o := srvOpts{InsecureAuth: c.Insecure, PreAuth: c.PreAuth, Unauth: c.Unauth, SASL: c.SASL, TLSListener: c.TLS, Unix: c.Unix,
			Configure: func(s *stubSession) { s.recordPoll = true }}
		if c.TLSConfig {
			o.TLSConfig = testTLSConfig
		}
		ts := startServer(o)
		servers[c] = ts
		return ts
	}
	defer func() {
		for _, ts := range servers {
			ts.Close()
		}
	}()

	runSeq := func(c srvCfg, seq []int, outs [][]bool, src string) {
		desc := map[string]interface{}{"config": c, "seq": seq, "outs": outs}
		h.InFlight(desc)
		ts := getServer(c)
		rc := ts.dial()
		defer rc.Close()
		g, err := rc.greeting()
		if err != nil {
			h.Fail("no-greeting", fmt.Sprintf("no greeting: %v", err), desc)
			return
		}
		stub := ts.lastSession()
		wantGreeting := "* OK "
		if c.PreAuth {
			wantGreeting = "* PREAUTH "
		}
		if !strings.HasPrefix(g, wantGreeting) {
			h.Fail("greeting", fmt.Sprintf("greeting %q, expected %q", g, wantGreeting), desc)
		}
		tlsNow := c.TLS
		var steps []c05Step
		var terms []string
		closed := false
		nontrivial := false
		for i, ci := range seq {
			cmd := c05Alphabet[ci]
			var queue []bool
			if i < len(outs) {
				queue = append(queue, outs[i]...)
			}
			stub.mu.Lock()
			stub.fail = func(name string) bool {
				if len(queue) == 0 {
					return false
				}
				ok := queue[0]
				queue = queue[1:]
				return !ok
			}
			stub.mu.Unlock()
			stub.TakeCalls()
			st := c05Step{Cmd: ci, Line: cmd.Line}
			if i < len(outs) {
				st.Outs = outs[i]
			}
			if closed {
				// the model stops at logout: nothing may be processed any more
				break
			}
			un, _, tagged, err := rc.interactive(cmd.Line, cmd.Follow)
			if err != nil {
				h.Fail("no-completion", fmt.Sprintf("%q: no tagged completion (%v)", cmd.Line, err), desc)
				return
			}
			st.Class = respClass(tagged)
			for _, l := range un {
				if strings.HasPrefix(l, "* BYE") {
					st.Bye = true
				}
			}
			if cmd.Coq == "CUnknown" && !st.Bye {
				// the BYE for an unknown pre-auth command is written after the tagged BAD
				if l, err := rc.readLine(80e6); err == nil && strings.HasPrefix(l, "* BYE") {
					st.Bye = true
				}
			}
			if cmd.Coq == "CStartTLS" && st.Class == "OK" {
				if err := rc.upgradeTLS(); err != nil {
					h.Fail("starttls-handshake", fmt.Sprintf("TLS handshake after STARTTLS OK failed: %v", err), desc)
					return
				}
				tlsNow = true
			}
			st.Calls = stub.TakeCalls()
			st.State = connStateName(stub.conn.VerifState())
			st.TLS = tlsNow
			if st.Bye {
				closed = true
			}
			// ---- oracle ----
			for _, k := range st.Calls {
				nontrivial = true
				if !permittedIn(k.Name, k.State) {
					h.Fail("call-in-wrong-state:"+k.Name, fmt.Sprintf("%q reached the backend (%s) while the connection state was %s", cmd.Line, k.Name, k.State), desc)
				}
				if k.Name == "Login" && !(st.TLS || c.TLS) && !c.Insecure {
					h.Fail("creds-without-tls", fmt.Sprintf("%q delivered credentials to the backend over plaintext without InsecureAuth", cmd.Line), desc)
				}
			}
			if st.Class == "BAD" || st.Class == "NO" {
				nontrivial = true
			}
			steps = append(steps, st)
			var outsC, callsC []string
			for _, o := range st.Outs {
				outsC = append(outsC, coqBool(o))
			}
			for _, k := range st.Calls {
				name := callCoq[k.Name]
				if k.Name == "Poll" {
					name = "(KPoll " + coqBool(k.Args["allow"].(bool)) + ")"
				}
				callsC = append(callsC, fmt.Sprintf("(%s, %s)", name, stateCoq[k.State]))
			}
			cls := map[string]string{"OK": "ROk", "NO": "RNo", "BAD": "RBad"}[st.Class]
			if cls == "" {
				h.Fail("class", fmt.Sprintf("%q: unexpected completion %q", cmd.Line, tagged), desc)
				return
			}
			terms = append(terms, fmt.Sprintf("(%s, %s, (%s, %s, %s, %s, %s))", cmd.Coq, coqList(outsC), coqList(callsC), cls, coqBool(st.Bye), stateCoq[st.State], coqBool(st.TLS)))
		}
		if closed {
			// after BYE the server must have closed the connection: further commands get nothing
			rc.c.Write([]byte("Z9 NOOP\r\n"))
			if l, err := rc.readLine(80e6); err == nil && strings.HasPrefix(l, "Z9 ") {
				h.Fail("processed-after-logout", fmt.Sprintf("a command sent after BYE was answered: %q", l), desc)
			}
		}
		key := ""
		if nontrivial {
			key = fmt.Sprintf("%v|%v|%v", c, seq, outs)
		}
		h.Eval(key)
		h.Hist("src:" + src)
		h.Hist(fmt.Sprintf("cfg:tls=%v,insecure=%v,preauth=%v", c.TLS, c.Insecure, c.PreAuth))
		corr.Add(fmt.Sprintf("(%s, %s, %s)", c.coq(), coqBool(c.TLS), coqList(terms)), map[string]interface{}{"config": c, "steps": steps})
		if nontrivial && h.Rng.Intn(400) == 0 {
			var lines []string
			for _, s := range steps {
				lines = append(lines, fmt.Sprintf("%s -> %s %s", s.Line, s.Class, s.State))
			}
			h.Sample(map[string]interface{}{"config": c, "transcript": lines})
		}
	}

	if h.Replay != "" {
		var wrap struct {
			Case struct {
				Config srvCfg    `json:"config"`
				Seq    []int     `json:"seq"`
				Outs   [][]bool  `json:"outs"`
				Steps  []c05Step `json:"steps"`
			} `json:"case"`
		}
		b, _ := os.ReadFile(h.Replay)
		json.Unmarshal(b, &wrap)
		seq, outs := wrap.Case.Seq, wrap.Case.Outs
		if len(seq) == 0 {
			for _, s := range wrap.Case.Steps {
				seq = append(seq, s.Cmd)
				outs = append(outs, s.Outs)
			}
		}
		runSeq(wrap.Case.Config, seq, outs, "replay")
		return
	}

	idx := func(coq string) int {
		for i, c := range c05Alphabet {
			if c.Coq == coq {
				return i
			}
		}
		panic(coq)
	}
	login, sel := idx("CLogin"), idx("CSelect")
	// prefixes reaching every state
	prefixes := [][]int{{}, {login}, {login, sel}}
	// 1. every command x every outcome assignment from every reachable state, in every config
	for _, c := range cfgs {
		for _, pre := range prefixes {
			for ci, cmd := range c05Alphabet {
				if c.SASL && cmd.Coq != "CAuthPlain" && cmd.Coq != "CLogin" && cmd.Coq != "CCapability" && cmd.Coq != "CStartTLS" {
					continue // the SASL backend only matters to authentication
				}
				nOut := 1 << uint(cmd.NCalls)
				for o := 0; o < nOut; o++ {
					var outs []bool
					for b := 0; b < cmd.NCalls; b++ {
						outs = append(outs, o&(1<<uint(b)) == 0)
					}
					seq := append(append([]int(nil), pre...), ci)
					allOuts := make([][]bool, len(seq))
					allOuts[len(seq)-1] = outs
					// follow with probes that reveal the resulting state
					seq = append(seq, idx("CNoop"), idx("(CFetch false)"))
					runSeq(c, seq, allOuts, "single")
				}
			}
		}
	}
	// 2. all pairs (quick) / triples (thorough) of commands with all-success outcomes in 4 configs
	sel4 := []srvCfg{{TLSConfig: true, Insecure: true}, {TLSConfig: true, SASL: true}, {TLSConfig: true, TLS: true, Unauth: true}, {Insecure: true, PreAuth: true, Unauth: true, SASL: true}}
	depth := h.Pick(2, 3)
	var rec func(c srvCfg, p []int)
	rec = func(c srvCfg, p []int) {
		if len(p) == depth {
			runSeq(c, append(append([]int(nil), p...), idx("CNoop")), nil, "exhaustive")
			return
		}
		for ci := range c05Alphabet {
			rec(c, append(p, ci))
		}
	}
	for _, c := range sel4[:h.Pick(2, 4)] {
		rec(c, nil)
	}
	h.Note("exhaustive: all %d^%d command sequences (all backend calls succeeding) in %d configurations", len(c05Alphabet), depth, h.Pick(2, 4))
	// 2b. a command sent in the same plaintext segment as STARTTLS is not a command of the
	// protected session: the backend must never be reached by it, whatever the handshake does
	for _, c := range cfgs {
		if c.TLS || !c.TLSConfig || c.PreAuth || c.Unix {
			continue
		}
		for _, injected := range []string{"B LOGIN mallory injected", "B AUTHENTICATE PLAIN AG1hbGxvcnkAaW5qZWN0ZWQ=", "B NOOP"} {
			ts := getServer(c)
			rc := ts.dial()
			rc.greeting()
			stub := ts.lastSession()
			desc := map[string]interface{}{"config": c, "segment": "A STARTTLS\r\n" + injected + "\r\n"}
			h.InFlight(desc)
			io.WriteString(rc.c, "A STARTTLS\r\n"+injected+"\r\n")
			l, _ := rc.readLine(5 * time.Second)
			var after []string
			if strings.HasPrefix(l, "A OK") {
				if err := rc.upgradeTLS(); err == nil {
					for {
						l2, err := rc.readLine(500 * time.Millisecond)
						if err != nil {
							break
						}
						after = append(after, l2)
					}
				}
			}
			for _, k := range stub.Calls() {
				if k.Name == "Login" || k.Name == "Authenticate" {
					h.Fail("plaintext-command-after-starttls:"+k.Name, fmt.Sprintf("%q sent in plaintext together with STARTTLS reached the backend as %s %v (responses inside TLS: %q)", injected, k.Name, k.Args, after), desc)
				}
			}
			for _, l2 := range after {
				if strings.HasPrefix(l2, "B ") {
					h.Fail("plaintext-command-after-starttls:answered", fmt.Sprintf("%q sent in plaintext together with STARTTLS was answered inside TLS: %q", injected, l2), desc)
				}
			}
			rc.Close()
			h.Eval(fmt.Sprintf("starttls-pipelined|%v|%s", c, injected))
			h.Hist("starttls_pipelined_plaintext")
		}
	}
	// 3. random longer sequences with random outcomes
	for i := 0; i < h.Pick(300, 5000); i++ {
		c := cfgs[h.Rng.Intn(len(cfgs))]
		var seq []int
		var outs [][]bool
		for k := 3 + h.Rng.Intn(8); k > 0; k-- {
			ci := h.Rng.Intn(len(c05Alphabet))
			if h.Rng.Intn(3) == 0 {
				ci = []int{login, sel, idx("CStartTLS"), idx("CUnselect"), idx("CUnauthenticate")}[h.Rng.Intn(5)]
			}
			seq = append(seq, ci)
			var o []bool
			for b := 0; b < c05Alphabet[ci].NCalls; b++ {
				o = append(o, h.Rng.Intn(4) != 0)
			}
			outs = append(outs, o)
		}
		runSeq(c, seq, outs, "random")
	}
	_ = imapserver.ErrAuthFailed
}
