#!/bin/sh
# usage: sfmodel.sh <replay.json>  — prints the ServerFrame model's tokens and calls for a C04/C06 replay
python3 - "$1" <<'PY' > /tmp/sfm.v
import json,sys
r=json.load(open(sys.argv[1])); c=r['case']
st0 = 'SAuth' if c.get('preauth') else 'SNotAuth'
lp = 'true' if c.get('literal_plus') else 'false'
print('From GoImap.Base Require Import Bytes.\nFrom GoImap.Model Require Import Wire ServerConn ServerFrame ServerFrameCorr.')
print('Definition cfg := mkFcfg true %s false (fun d => bytes_eqb d (hx "%s")).' % (lp, ' 5-Nov-2020 12:34:56 +0100'.encode().hex()))
print('Definition f := Eval vm_compute in run_stream cfg %s (hx "%s").' % (st0, c['stream_hex']))
print('Eval vm_compute in (toks (rev (fs_out f))).')
print('Eval vm_compute in (rev (fs_calls f)).')
PY
cd /verif/coq && coqc -Q Base GoImap.Base -Q Model GoImap.Model /tmp/sfm.v 2>&1 | grep -v "^WARNING" | head -60
