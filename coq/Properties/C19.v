(* Properties/C19.v — combining search criteria yields their intersection (statements only). *)
From Coq Require Import Sorting.Permutation.
From GoImap.Base Require Import Bytes.
From GoImap.Model Require Import NumSet Search SearchModSeq.
From GoImap.Proofs Require Import SearchSpec SearchProofs SearchModSeqProofs.
Open Scope Z_scope.

Theorem C19_and_intersection : forall a b m, 0 <= m_size m ->
  matches m (and_ a b) = matches m a && matches m b.
Proof. exact and_intersection. Qed.
Print Assumptions C19_and_intersection.

(* SearchCriteria.And with the ModSeq field (CONDSTORE), at every nesting level, for every
   assignment [mq] of mod-sequences to metadata entries; [and_] above is its restriction to the
   ModSeq-free criteria the server parser builds (C19_and_modseq_free) *)
Theorem C19_and_intersection_modseq : forall mq a b m, 0 <= m_size m ->
  xmatches mq m (xand a b) = xmatches mq m a && xmatches mq m b.
Proof. exact xand_intersection. Qed.
Print Assumptions C19_and_intersection_modseq.

Theorem C19_and_keeps_modseq : forall mq a b m v n t, 0 <= m_size m ->
  (match a with XCrit _ _ _ _ _ _ _ _ _ _ _ _ _ q _ _ => q end = Some (v, n, t) \/
   match b with XCrit _ _ _ _ _ _ _ _ _ _ _ _ _ q _ _ => q end = Some (v, n, t)) ->
  (mq n t < v)%N -> xmatches mq m (xand a b) = false.
Proof. exact xand_keeps_modseq. Qed.
Print Assumptions C19_and_keeps_modseq.

Theorem C19_and_modseq_free : forall a b, xand (embed a) (embed b) = embed (and_ a b).
Proof. exact xand_embed. Qed.
Print Assumptions C19_and_modseq_free.

Theorem C19_keys_conjunction : forall ks m, 0 <= m_size m -> forallb wf_key ks = true ->
  matches m (parse_keys ks) = forallb (key_matches m) ks.
Proof. exact keys_conjunction. Qed.
Print Assumptions C19_keys_conjunction.

Theorem C19_keys_permutation : forall ks ks' m, 0 <= m_size m -> forallb wf_key ks = true ->
  Permutation ks ks' -> matches m (parse_keys ks) = matches m (parse_keys ks').
Proof. exact keys_permutation. Qed.
Print Assumptions C19_keys_permutation.

(* non-vacuity: a message and criteria on which both sides are true, and one where the
   size bound of the first operand decides *)
Definition ex_msg (size : Z) : msg :=
  {| m_seq := 1; m_uid := 7; m_date := 500; m_sent := Some 400; m_flag := fun _ => false;
     m_size := size; m_text := fun _ => true; m_body := fun _ => true; m_hdr := fun _ _ => true |}.
Example C19_nonvacuous :
  matches (ex_msg 50) (and_ (size_crit 0 100) (size_crit 5 0)) = true /\
  matches (ex_msg 150) (and_ (size_crit 0 100) (size_crit 5 0)) = false /\
  matches (ex_msg 50) (parse_keys [KSmaller 100; KLarger 5; KSince 100; KNot (KFlag SEEN)]) = true.
Proof. vm_compute. repeat split. Qed.

(* ModSeq: both operands constrain different metadata entries; the message satisfies one only *)
Example C19_modseq_nonvacuous :
  let a := XCrit [] [] 0 0 0 0 [] [] [] [] [] 0 0 (Some (5%N, [], [])) [] [] in
  let b := XCrit [] [] 0 0 0 0 [] [] [] [] [] 0 0 (Some (42%N, s2b "/flags/\seen", s2b "priv")) [] [] in
  let mq := fun n _ => match n with [] => 10%N | _ => 40%N end in
  xmatches mq (ex_msg 50) a = true /\ xmatches mq (ex_msg 50) b = false /\
  xmatches mq (ex_msg 50) (xand a b) = false /\ xmatches (fun _ _ => 50%N) (ex_msg 50) (xand a b) = true.
Proof. vm_compute. repeat split. Qed.
