(* Properties/C19.v — combining search criteria yields their intersection (statements only). *)
From Coq Require Import Sorting.Permutation.
From GoImap.Base Require Import Bytes.
From GoImap.Model Require Import NumSet Search.
From GoImap.Proofs Require Import SearchSpec SearchProofs.
Open Scope Z_scope.

Theorem C19_and_intersection : forall a b m, 0 <= m_size m ->
  matches m (and_ a b) = matches m a && matches m b.
Proof. exact and_intersection. Qed.
Print Assumptions C19_and_intersection.

Theorem C19_keys_conjunction : forall ks m, 0 <= m_size m -> forallb wf_key ks = true ->
  matches m (parse_keys ks) = forallb (key_matches m) ks.
Proof. exact keys_conjunction. Qed.
Print Assumptions C19_keys_conjunction.

Theorem C19_keys_permutation : forall ks ks' m, 0 <= m_size m -> forallb wf_key ks = true ->
  Permutation ks ks' -> matches m (parse_keys ks) = matches m (parse_keys ks').
Proof. exact keys_permutation. Qed.
Print Assumptions C19_keys_permutation.

(* non-vacuity: a message and criteria on which both sides are true, and one where the
   size bound of the first operand decides *)
Definition ex_msg (size : Z) : msg :=
  {| m_seq := 1; m_uid := 7; m_date := 500; m_sent := Some 400; m_flag := fun _ => false;
     m_size := size; m_text := fun _ => true; m_body := fun _ => true; m_hdr := fun _ _ => true |}.
Example C19_nonvacuous :
  matches (ex_msg 50) (and_ (size_crit 0 100) (size_crit 5 0)) = true /\
  matches (ex_msg 150) (and_ (size_crit 0 100) (size_crit 5 0)) = false /\
  matches (ex_msg 50) (parse_keys [KSmaller 100; KLarger 5; KSince 100; KNot (KFlag SEEN)]) = true.
Proof. vm_compute. repeat split. Qed.
