(* Properties/C17.v — STARTTLS boundary: early plaintext is never treated as protected data. *)
From GoImap.Base Require Import Bytes.
From GoImap.Model Require Import StartTLS ServerConn.
From GoImap.Proofs Require Import StartTLSProofs ServerConnSpec ServerConnProofs.
Open Scope N_scope.

Theorem C17_switch_exact : forall line suffix chunks,
  ~ In LF line -> concat chunks = line ++ LF :: suffix ->
  starttls_switch chunks = Some (line ++ [LF], suffix).
Proof. exact switch_exact. Qed.
Print Assumptions C17_switch_exact.

Theorem C17_switch_conservation : forall chunks l t,
  starttls_switch chunks = Some (l, t) -> l ++ t = concat chunks.
Proof. exact switch_conservation. Qed.
Print Assumptions C17_switch_conservation.

Theorem C17_switch_needs_line : forall chunks, ~ In LF (concat chunks) -> starttls_switch chunks = None.
Proof. exact switch_needs_line. Qed.
Print Assumptions C17_switch_needs_line.

(* the server accepts credentials on an unencrypted connection only if explicitly configured
   to (from the C05 model) *)
Theorem C17_creds_need_tls : forall cmds cfg c c' r s,
  In (c', r) (serve_conns cfg c cmds) -> In (KLogin, s) (r_calls r) ->
  tls c' = true \/ c_insecure cfg = true.
Proof. exact serve_creds. Qed.
Print Assumptions C17_creds_need_tls.

(* ... and advertises LOGINDISABLED / no AUTH= exactly in that situation *)
Theorem C17_logindisabled : forall cfg c, st c = SNotAuth ->
  adv_logindisabled cfg c = negb (tls c || c_insecure cfg) /\ adv_auth cfg c = (tls c || c_insecure cfg).
Proof. intros cfg [s t] H; cbn in H; subst; unfold adv_logindisabled, adv_auth, can_auth; cbn.
  destruct t, (c_insecure cfg); auto. Qed.
Print Assumptions C17_logindisabled.

Example C17_nonvacuous :
  starttls_switch [s2b "A1 STAR"; s2b "TTLS"; [n2b 13]; LF :: s2b "A2 LOGIN u p"; [n2b 13; LF]]
  = Some (s2b "A1 STARTTLS" ++ [n2b 13; LF], s2b "A2 LOGIN u p" ++ [n2b 13; LF]).
Proof. vm_compute. reflexivity. Qed.
