(* Properties/C07.v — sequence-number translation between a client's view and the mailbox. *)
From GoImap.Base Require Import Bytes.
From GoImap.Model Require Import Tracker.
From GoImap.Proofs Require Import TrackerSpec TrackerProofs.
Open Scope N_scope.

Theorem C07_replay_inv : forall n0 ops t s, fresh_sids [] ops = true -> run n0 ops = Some t ->
  In s (t_sess t) ->
  replay (s_view s) (s_queue s) = t_L t /\ NoDup (t_L t) /\ NoDup (s_view s) /\ t_n t = N.of_nat (length (t_L t)).
Proof. exact replay_inv. Qed.
Print Assumptions C07_replay_inv.

Theorem C07_poll_order : forall t sid allow s t' em, find_sess sid (t_sess t) = Some s ->
  step t (OPoll sid allow) = (t', OutPoll em) ->
  exists rest, s_queue s = em ++ rest /\
    (allow = false -> forallb (fun u => negb (is_expunge u)) em = true /\
                      (rest = [] \/ exists k r, rest = UExpunge k :: r)) /\
    (allow = true -> rest = []) /\
    (forall s', find_sess sid (t_sess t') = Some s' ->
                s_queue s' = rest /\ s_view s' = replay (s_view s) em).
Proof. exact poll_order. Qed.
Print Assumptions C07_poll_order.

Theorem C07_decode_spec : forall n0 ops t s c id, fresh_sids [] ops = true -> run n0 ops = Some t ->
  In s (t_sess t) -> nth1 (s_view s) c = Some id ->
  decode t s c = pos_of id (t_L t).
Proof. exact decode_spec. Qed.
Print Assumptions C07_decode_spec.

Theorem C07_encode_spec : forall n0 ops t s p id, fresh_sids [] ops = true -> run n0 ops = Some t ->
  In s (t_sess t) -> nth1 (t_L t) p = Some id ->
  encode t s p = pos_of id (s_view s).
Proof. exact encode_spec. Qed.
Print Assumptions C07_encode_spec.

Theorem C07_encode_out_of_range : forall t s p, nth1 (t_L t) p = None -> t_n t = N.of_nat (length (t_L t)) ->
  encode t s p = 0.
Proof. exact encode_out_of_range. Qed.
Print Assumptions C07_encode_out_of_range.

Theorem C07_decode_encode : forall n0 ops t s c, fresh_sids [] ops = true -> run n0 ops = Some t ->
  In s (t_sess t) -> 1 <= c <= N.of_nat (length (s_view s)) ->
  decode t s c <> 0 -> encode t s (decode t s c) = c.
Proof. exact decode_encode. Qed.
Print Assumptions C07_decode_encode.

Theorem C07_pos_of_spec : forall id l, (pos_of id l = 0 <-> ~ In id l) /\
  (forall p, p <> 0 -> pos_of id l = p -> nth1 l p = Some id).
Proof. exact pos_of_spec. Qed.
Print Assumptions C07_pos_of_spec.

(* non-vacuity: a history with an append of 2, an expunge and a poll without expunges *)
Example C07_nonvacuous :
  let ops := [ONewSession 1; OQueueNum 5; OQueueExpunge 2; OQueueMsgFlags 1 9 0 None; OPoll 1 false] in
  fresh_sids [] ops = true /\
  match run 3 ops with
  | Some t => match t_sess t with
              | [s] => (map (decode t s) [1; 2; 3; 4; 5], map (encode t s) [1; 2; 3; 4; 5]) =
                       ([1; 0; 2; 3; 4], [1; 3; 4; 5; 0])
              | _ => False
              end
  | None => False
  end.
Proof. vm_compute. split; reflexivity. Qed.
