(* Properties/C13.v — the client is safe for concurrent use.
   (Not part of the main _CoqProject build: it depends on the generated Gen/FieldAccess.v.) *)
From Coq Require Import List String Bool.
From GoImap.Base Require Import Bytes.
From GoImap.Model Require Import ClientConn Lockset.
From GoImap.Proofs Require Import ClientConnProofs LocksetProofs.
From GoImap.Gen Require Import FieldAccess.
Open Scope N_scope.

(* the table regenerated from /repo's source: every access to a field declared under
   Client.mutex holds the mutex on every path (the constructor, which runs before the reader
   goroutine is started, is exempt) *)
Theorem C13_guarded_fields_locked : table_ok guarded_accesses = true.
Proof. vm_compute. reflexivity. Qed.
Print Assumptions C13_guarded_fields_locked.

Theorem C13_no_concurrent_guarded_access : forall ts i j t u,
  mutex_ok ts -> disciplined ts -> i <> j ->
  nth_error ts i = Some t -> nth_error ts j = Some u ->
  at_guarded t = true -> at_guarded u = true -> False.
Proof. exact no_concurrent_guarded_access. Qed.
Print Assumptions C13_no_concurrent_guarded_access.

(* submission, completion and connection loss are atomic sections under Client.mutex (table
   above), so every schedule is a sequence of the model's events: tags stay unique and every
   command completes exactly once in all of them *)
Theorem C13_exactly_once : forall evs, let c := run evs in
  NoDup (pending_tags c ++ done_tags c) /\
  (forall t, In t (pending_tags c ++ done_tags c) <-> 1 <= t <= c_tag c).
Proof. exact exactly_once. Qed.
Print Assumptions C13_exactly_once.

Theorem C13_tags_unique : forall evs k, c_closed (run evs) = false ->
  c_tag (run (evs ++ [EvSubmit k])) = c_tag (run evs) + 1 /\
  ~ In (c_tag (run evs) + 1) (pending_tags (run evs) ++ done_tags (run evs)).
Proof. exact tags_unique. Qed.
Print Assumptions C13_tags_unique.

Theorem C13_close_completes_all : forall evs evs', let c := run (evs ++ EvConnLost :: evs') in
  c_pending c = [] /\ c_closed c = true /\
  (forall t, In t (pending_tags (run evs)) -> In (t, 3) (c_done c)) /\
  (forall t, 1 <= t <= c_tag c -> In t (done_tags c)).
Proof. exact close_completes_all. Qed.
Print Assumptions C13_close_completes_all.

Example C13_nonvacuous : (10 <= List.length guarded_accesses)%nat /\
  table_ok [("state", "f", "p", true, false, false)%string] = false.
Proof. split; [vm_compute; repeat constructor | reflexivity]. Qed.
