(* Properties/C15.v — number sets behave as mathematical sets (statements only). *)
From Coq Require Import Sorting.Sorted.
From GoImap.Base Require Import Bytes.
From GoImap.Model Require Import NumSet.
From GoImap.Proofs Require Import NumSetSpec NumSetProofs.
Open Scope N_scope.

Theorem C15_ops_canon : forall ops, forallb wf_op ops = true ->
  exists s, run_ops ops = Some s /\ canon s = true.
Proof. exact ops_canon. Qed.
Print Assumptions C15_ops_canon.

Theorem C15_ops_den : forall ops s q, forallb wf_op ops = true -> run_ops ops = Some s -> q < M32 ->
  den s q = existsb (fun o => op_den o q) ops.
Proof. exact ops_den. Qed.
Print Assumptions C15_ops_den.

Theorem C15_contains_spec : forall s q, canon s = true -> q < M32 ->
  contains s q = Some (den s q && negb (q =? 0)).
Proof. exact contains_spec. Qed.
Print Assumptions C15_contains_spec.

Theorem C15_dynamic_iff : forall s, canon s = true -> dynamic s = den s 0.
Proof. exact dynamic_iff. Qed.
Print Assumptions C15_dynamic_iff.

Theorem C15_string_parse : forall s, canon s = true -> s <> [] ->
  parse_set (to_string s) = Some (Some s).
Proof. exact string_parse. Qed.
Print Assumptions C15_string_parse.

Theorem C15_parse_accepts_grammar : forall t rs, g_set t rs ->
  exists s, parse_set t = Some (Some s) /\ canon s = true /\
            forall q, q < M32 -> den s q = existsb (fun r => rden r q) rs.
Proof. exact parse_accepts_grammar. Qed.
Print Assumptions C15_parse_accepts_grammar.

Theorem C15_parse_only_grammar : forall t r, parse_set t = Some r -> exists rs, g_set t rs.
Proof. exact parse_only_grammar. Qed.
Print Assumptions C15_parse_only_grammar.

Theorem C15_nums_spec : forall s, canon s = true -> dynamic s = false ->
  exists l, nums s = NumsOk l /\ StronglySorted N.lt l /\
            forall q, In q l <-> (q <> 0 /\ den s q = true).
Proof. exact nums_spec. Qed.
Print Assumptions C15_nums_spec.

Theorem C15_nums_dynamic : forall s, canon s = true -> dynamic s = true -> nums s = NumsNotStatic.
Proof. exact nums_dynamic. Qed.
Print Assumptions C15_nums_dynamic.

(* non-vacuity: a reachable canonical set with a range ending at 2^32-1 and a "*" *)
Example C15_nonvacuous :
  let ops := [AddRange 3 1; AddNum 7; AddRange 4294967295 4294967290; AddNum 0] in
  forallb wf_op ops = true /\
  option_map to_string (run_ops ops) = Some (s2b "1:3,7,4294967290:4294967295,*") /\
  option_map canon (run_ops ops) = Some true.
Proof. vm_compute. repeat split. Qed.
