(* Properties/C14.v — concurrent sessions never deadlock: the lock-order graph regenerated from
   /repo's current source (Gen/LockGraph.v, written by /verif/lockgraph on every run) is
   acyclic, hence no state of any number of threads following it is a deadlock.
   (Not part of the main _CoqProject build: it depends on the generated file.) *)
From Coq Require Import List NArith.
Import ListNotations.
From Coq Require Import String.
From GoImap.Model Require Import Locks Lockset.
From GoImap.Proofs Require Import LocksProofs LocksetProofs.
From GoImap.Gen Require Import LockGraph ServerFieldAccess.

Theorem C14_lock_order_acyclic : graph_ok lock_edges = true.
Proof. vm_compute. reflexivity. Qed.
Print Assumptions C14_lock_order_acyclic.

Theorem C14_no_deadlock : forall cfg, respects lock_edges cfg -> ~ deadlocked cfg.
Proof. intros cfg. exact (no_deadlock lock_edges cfg C14_lock_order_acyclic). Qed.
Print Assumptions C14_no_deadlock.

Theorem C14_no_nested_same_class : forall a, edge_in lock_edges a a = false.
Proof. intros a. exact (graph_ok_no_self_loop lock_edges a C14_lock_order_acyclic). Qed.
Print Assumptions C14_no_nested_same_class.

(* the generic theorem, independent of the generated graph *)
Theorem C14_generic : forall g cfg, graph_ok g = true -> respects g cfg -> ~ deadlocked cfg.
Proof. exact no_deadlock. Qed.
Print Assumptions C14_generic.

(* no data race on the fields the server structs declare under a mutex (Mailbox, User, Server,
   MailboxTracker, SessionTracker): on the table regenerated from /repo's source every such field
   has a common lock, held on every path to every access that can run with the in-memory backend *)
Theorem C14_guarded_fields_lockset : lockset_ok server_guarded_accesses = true.
Proof. vm_compute. reflexivity. Qed.
Print Assumptions C14_guarded_fields_lockset.

Theorem C14_common_lock : forall a, In a server_guarded_accesses -> a2_exempt a = false ->
  exists cls, In cls (a2_held a) /\
    forall b, In b server_guarded_accesses -> a2_field b = a2_field a -> a2_exempt b = false -> In cls (a2_held b).
Proof. exact (lockset_common_lock server_guarded_accesses C14_guarded_fields_lockset). Qed.
Print Assumptions C14_common_lock.

(* two threads inside accesses guarded by the same mutex cannot both hold it *)
Theorem C14_no_concurrent_guarded_access : forall ts i j t u,
  mutex_ok ts -> disciplined ts -> i <> j ->
  nth_error ts i = Some t -> nth_error ts j = Some u ->
  at_guarded t = true -> at_guarded u = true -> False.
Proof. exact no_concurrent_guarded_access. Qed.
Print Assumptions C14_no_concurrent_guarded_access.

(* non-vacuity: the graph is not empty, and a cyclic graph is rejected by the same check *)
Example C14_nonvacuous : (1 <= List.length lock_edges)%nat /\ graph_ok [(0%N, 1%N); (1%N, 0%N)] = false /\ graph_ok [(3%N, 3%N)] = false.
Proof. repeat split; vm_compute; try reflexivity. apply le_S_n. repeat constructor. Qed.
Example C14_lockset_nonvacuous :
  (20 <= List.length server_guarded_accesses)%nat /\
  lockset_ok [("M.x", "f", "p", true, ["M.mutex"], false); ("M.x", "g", "q", false, [], false)]%string = false /\
  lockset_ok [("M.x", "f", "p", true, ["M.mutex"; "U.mutex"], false); ("M.x", "g", "q", false, ["U.mutex"], false)]%string = true.
Proof. repeat split; vm_compute; try reflexivity. do 20 apply le_n_S. apply le_0_n. Qed.
