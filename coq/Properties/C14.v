(* Properties/C14.v — concurrent sessions never deadlock: the lock-order graph regenerated from
   /repo's current source (Gen/LockGraph.v, written by /verif/lockgraph on every run) is
   acyclic, hence no state of any number of threads following it is a deadlock.
   (Not part of the main _CoqProject build: it depends on the generated file.) *)
From Coq Require Import List NArith.
Import ListNotations.
From GoImap.Model Require Import Locks.
From GoImap.Proofs Require Import LocksProofs.
From GoImap.Gen Require Import LockGraph.

Theorem C14_lock_order_acyclic : graph_ok lock_edges = true.
Proof. vm_compute. reflexivity. Qed.
Print Assumptions C14_lock_order_acyclic.

Theorem C14_no_deadlock : forall cfg, respects lock_edges cfg -> ~ deadlocked cfg.
Proof. intros cfg. exact (no_deadlock lock_edges cfg C14_lock_order_acyclic). Qed.
Print Assumptions C14_no_deadlock.

Theorem C14_no_nested_same_class : forall a, edge_in lock_edges a a = false.
Proof. intros a. exact (graph_ok_no_self_loop lock_edges a C14_lock_order_acyclic). Qed.
Print Assumptions C14_no_nested_same_class.

(* the generic theorem, independent of the generated graph *)
Theorem C14_generic : forall g cfg, graph_ok g = true -> respects g cfg -> ~ deadlocked cfg.
Proof. exact no_deadlock. Qed.
Print Assumptions C14_generic.

(* non-vacuity: the graph is not empty, and a cyclic graph is rejected by the same check *)
Example C14_nonvacuous : (1 <= length lock_edges)%nat /\ graph_ok [(0%N, 1%N); (1%N, 0%N)] = false /\ graph_ok [(3%N, 3%N)] = false.
Proof. repeat split; vm_compute; try reflexivity. apply le_S_n. repeat constructor. Qed.
