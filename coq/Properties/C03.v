(* Properties/C03.v — server responses are decoded by the client into the data the backend
   supplied (statements only).

   For every command family: if the backend's data d is inside the stated domain (wf_X, boolean,
   Proofs/RespSpec.v) and the server writes its response bytes for d (srv_X = Some bytes: the
   encoder refuses only invalid flags/attributes, negative numbers and empty number sets), then
   the client's reader, run on exactly these bytes with the requesting command pending,
   completes the command with OK and with norm_X d as the command's data: equal data up to the
   normal form spelled out in Proofs/RespSpec.v.  Body literals come back byte-identical and
   in the order sent (FSection / FBinary data in C03_fetch).  The theorems hold for every
   configuration: q (IMAP4rev2 or UTF8=ACCEPT enabled: 8-bit quoted strings), rev2 (ESEARCH
   instead of SEARCH, no RECENT), extended / BODY vs BODYSTRUCTURE, UID or sequence-number
   commands, and for all library functions x satisfying ext_ok (Go's mime, time, net/mail and
   go-message are used, not modelled; the hypotheses are re-validated by the harness). *)
From GoImap.Base Require Import Bytes.
From GoImap.Model Require Import NumSet MatchList Utf7 Wire Resp RespFetch RespCmd.
From GoImap.Proofs Require Import RespSpec RespCmdProofs RespExtModel.
Open Scope N_scope.

Theorem C03_fetch : forall x q nonext extd tag uid req msgs bytes,
  ext_ok x -> wf_tag tag = true -> wf_fetch x nonext extd uid req msgs = true ->
  srv_fetch x q nonext extd tag uid msgs = Some bytes ->
  exists recv, client x tag (init_fetch uid req) bytes =
               Done (PFetch uid req recv (norm_msgs nonext extd msgs)) OKb.
Proof. exact fetch_cmd. Qed.
Print Assumptions C03_fetch.

Theorem C03_list : forall x q rs tag l bytes,
  wf_tag tag = true -> forallb (wf_list rs) l = true -> srv_list q rs tag l = Some bytes ->
  client x tag (init_list (has_status rs)) bytes = Done (PList (has_status rs) None (map (norm_list rs) l)) OKb.
Proof. exact list_cmd. Qed.
Print Assumptions C03_list.

Theorem C03_status : forall x q o tag mbox d bytes,
  wf_tag tag = true -> wf_status d = true -> same_mailbox mbox (norm_mailbox (sd_mailbox d)) = true ->
  srv_status q o tag d = Some bytes ->
  client x tag (init_status mbox) bytes = Done (PStatus mbox (norm_status o d)) OKb.
Proof. exact status_cmd. Qed.
Print Assumptions C03_status.

Theorem C03_select : forall x rev2 q was_selected readonly tag mbox d bytes,
  wf_tag tag = true -> wf_select mbox d = true -> srv_select rev2 q was_selected readonly tag d = Some bytes ->
  client x tag (init_select mbox) bytes = Done (PSelect mbox (norm_select d)) OKb.
Proof. exact select_cmd. Qed.
Print Assumptions C03_select.

(* a SearchData without a number set (nil All) stands for the empty set: fill_all *)
Theorem C03_search : forall x rev2 extended uid tag o d bytes,
  wf_tag tag = true -> wf_search (fill_all d) = true -> srv_search_cmd rev2 extended uid tag o d = Some bytes ->
  client x tag init_search bytes = Done (PSearch (norm_search rev2 extended o (fill_all d))) OKb.
Proof. intros x rev2 extended uid tag o d bytes. exact (search_cmd x rev2 extended uid tag o (fill_all d) bytes). Qed.
Print Assumptions C03_search.

Theorem C03_append : forall x tag d bytes,
  wf_tag tag = true -> wf_append d = true -> srv_append tag d = Some bytes ->
  client x tag init_append bytes = Done (PAppend (norm_append d)) OKb.
Proof. exact append_cmd. Qed.
Print Assumptions C03_append.

Theorem C03_copy : forall x tag d bytes,
  wf_tag tag = true -> wf_copy d = true -> srv_copy tag d = Some bytes ->
  client x tag init_copy bytes = Done (PCopy (norm_copy d)) OKb.
Proof. exact copy_cmd. Qed.
Print Assumptions C03_copy.

Theorem C03_move : forall x tag uid d expunged bytes,
  wf_tag tag = true -> wf_copy d = true -> wf_seqs expunged = true -> srv_move tag uid d expunged = Some bytes ->
  client x tag init_move bytes = Done (PMove (norm_copy d)) OKb.
Proof. exact move_cmd. Qed.
Print Assumptions C03_move.

Theorem C03_namespace : forall x q tag d bytes,
  wf_tag tag = true -> wf_ns d = true -> srv_namespace q tag d = Some bytes ->
  client x tag init_namespace bytes = Done (PNamespace (norm_ns d)) OKb.
Proof. exact namespace_cmd. Qed.
Print Assumptions C03_namespace.

Theorem C03_capability : forall x tag caps bytes,
  wf_tag tag = true -> forallb wf_cap caps = true -> srv_capability tag caps = Some bytes ->
  client x tag init_capability bytes = Done (PCapability caps) OKb.
Proof. exact capability_cmd. Qed.
Print Assumptions C03_capability.

Theorem C03_expunge : forall x tag uid l bytes,
  wf_tag tag = true -> wf_seqs l = true -> srv_expunge tag uid l = Some bytes ->
  client x tag init_expunge bytes = Done (PExpunge l) OKb.
Proof. exact expunge_cmd. Qed.
Print Assumptions C03_expunge.

(* the hypotheses on the library functions are consistent: a fully defined instance exists *)
Theorem C03_library_hypotheses_satisfiable : exists x : ext, ext_ok x.
Proof. exact ext_ok_satisfiable. Qed.
Print Assumptions C03_library_hypotheses_satisfiable.

(* non-vacuity: data inside the domains, the bytes the server model writes for them, and what
   the client model delivers (with the normal forms at work: INBOX, flag and attribute case,
   sender/reply-to defaulting, nil/empty, 7BIT, LIST-STATUS pairing, a literal with CRLF) *)
Example C03_nonvacuous :
  let o := mkSO true false false false false false true false false in
  let d := mkLD [s2b "\noselect"] 47 (s2b "inbox") (Some true) []
                (Some (mkSD (s2b "InBox") (Some 3) 0 0 None None None None None)) in
  let x := mkExt (fun s => s) (fun s => s) (fun _ => s2b "Mon, 02 Jan 2006 15:04:05 -0700") (fun _ => zero_time)
                 (fun _ => s2b " 2-Jan-2006 15:04:05 -0700") (fun _ => None) (fun s => s) (fun s => [s]) in
  let env := mkEnv zero_time (s2b "hi") (Some [mkAddr [] (s2b "a") (s2b "b")]) None (Some []) None None None [] [] in
  let bs := BMulti [BSingle (s2b "TEXT") (s2b "plain") (Some [(s2b "Charset", s2b "utf-8")]) [] [] [] 5 None (Some 1%Z) None]
                   (s2b "mixed") None in
  let msgs := [(7, [FUid 9; FFlags [s2b "\seen"]; FEnvelope (Some env); FBody bs;
                    FSection (mkSec (s2b "HEADER") [1%Z] [s2b "To"] [] (Some (5%Z, 9%Z)) true) (hx "610d0a62")])] in
  (forallb (wf_list (Some o)) [d] = true /\
   option_map string_of_list_ascii (srv_list false (Some o) (s2b "T1") [d]) =
     Some ("* LIST (\noselect) ""/"" INBOX (CHILDINFO (""SUBSCRIBED""))" ++ String "013" (String "010"
           ("* STATUS INBOX (MESSAGES 3 APPENDLIMIT NIL)" ++ String "013" (String "010"
           ("T1 OK LIST completed" ++ String "013" (String "010" ""))))))%string /\
   map (norm_list (Some o)) [d] =
     [mkLD [s2b "\Noselect"] 47 (s2b "INBOX") (Some true) []
           (Some (mkSD (s2b "INBOX") (Some 3) 0 0 None None None (Some 4294967295) None))]) /\
  (wf_fetch x true false true [(1, 0)] msgs = true /\
   (exists bytes, srv_fetch x false true false (s2b "T2") true msgs = Some bytes) /\
   norm_msgs true false msgs =
     [(7, [CUid 9; CFlags [s2b "\Seen"];
           CEnvelope (mkEnv zero_time (s2b "hi") (Some [mkAddr [] (s2b "a") (s2b "b")]) (Some [mkAddr [] (s2b "a") (s2b "b")])
                            None None None None [] []);
           CBody (BMulti [BSingle (s2b "TEXT") (s2b "plain") (Some [(s2b "charset", s2b "utf-8")]) [] [] (s2b "7BIT") 5 None (Some 1%Z) None]
                         (s2b "mixed") None) false;
           CSection (mkSec (s2b "HEADER") [1%Z] [s2b "To"] [] (Some (5%Z, 0%Z)) false) (Some (hx "610d0a62"))])]).
Proof. vm_compute. repeat split; eexists; reflexivity. Qed.
