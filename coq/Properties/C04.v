(* Properties/C04.v — placeholder until the proofs land. *)
From GoImap.Base Require Import Bytes.
From GoImap.Model Require Import Wire ServerConn ServerFrame.
Theorem C04_placeholder : True.
Proof. exact I. Qed.
Print Assumptions C04_placeholder.
