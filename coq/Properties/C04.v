(* Properties/C04.v — server command framing: literal payloads are never parsed as commands. *)
From GoImap.Base Require Import Bytes.
From GoImap.Model Require Import NumSet MatchList Utf7 Wire ServerConn ServerFrame.
From GoImap.Proofs Require Import ServerFrameSpec ServerFrameProofs.
Open Scope N_scope.

Theorem C04_frames_agree : forall cfg st0 cs, st0 <> SLogout -> forallb wf_cmd cs = true ->
  let f := run_stream cfg st0 (render cs) in
  rev (fs_starts f) = starts_from 0 cs /\
  out_tags (rev (fs_out f)) = tags_upto cs /\
  (forall k s, In k (fs_calls f) -> In s (call_strings k) -> In s (arg_values cs)).
Proof. exact frames_agree. Qed.
Print Assumptions C04_frames_agree.

Theorem C04_one_completion : forall cfg st0 s,
  let f := run_stream cfg st0 s in
  (length (filter is_tagged (fs_out f)) <= length (fs_starts f))%nat /\
  (length (fs_starts f) <= S (length (filter is_tagged (fs_out f))))%nat.
Proof. exact one_completion. Qed.
Print Assumptions C04_one_completion.

Theorem C04_literal_continuation : forall s,
  match s_literal s with
  | SOk v rest k =>
      exists n nonsync r, lit_header s = SOk (n, nonsync) r O /\ n <= 4096 /\
        v = firstn (N.to_nat n) r /\ rest = skipn (N.to_nat n) r /\
        k = (if nonsync then O else 1%nat)
  | SErr _ _ k _ => k = O
  | SNo _ => True
  end.
Proof. exact literal_continuation. Qed.
Print Assumptions C04_literal_continuation.

Theorem C04_refused_nonsync_closes : forall cfg f total s tag r1 r2 name r3,
  dec_atom s = DOk tag r1 -> has_plus tag = false ->
  dec_sp r1 = DOk tt r2 -> dec_atom r2 = DOk name r3 ->
  bytes_eqb (ascii_upper name) (s2b "UID") = false ->
  let h := handle_cmd cfg (fs_conn f) name r3 in
  (h_close h = true \/ (snd (discard_line (h_crlf h) (h_rest h)) = true /\ h_cls h <> 0)) ->
  snd (read_command cfg f total s) = None /\
  exists outs, fs_out (fst (read_command cfg f total s)) = OBye :: outs.
Proof. exact refused_nonsync_closes. Qed.
Print Assumptions C04_refused_nonsync_closes.

(* a tag containing "+" (whose tagged response would read as a continuation request) ends the
   connection without any response, whatever follows it *)
Theorem C04_plus_tag_ends_silently : forall cfg f total s tag r1 r2 name r3,
  dec_atom s = DOk tag r1 -> has_plus tag = true ->
  dec_sp r1 = DOk tt r2 -> dec_atom r2 = DOk name r3 ->
  snd (read_command cfg f total s) = None /\
  fs_out (fst (read_command cfg f total s)) = fs_out f /\
  fs_calls (fst (read_command cfg f total s)) = fs_calls f.
Proof. exact plus_tag_ends_silently. Qed.
Print Assumptions C04_plus_tag_ends_silently.

(* a literal header whose size is not a readable number (it overflows int64) and whose line ends
   with "+}" announces octets that cannot be skipped: the error closes the connection *)
Theorem C04_unreadable_nonsync_size_closes : forall s r r',
  dec_special (ch "{") s = DOk tt r -> dec_number64 r = DNo r' -> partial_header_nonsync r' = true ->
  lit_header s = SErr (io_or_syntax r') true O r'.
Proof. exact unreadable_nonsync_size_closes. Qed.
Print Assumptions C04_unreadable_nonsync_size_closes.

(* the rest of a failed command's line is discarded up to its first LF: a bare CR (or any byte
   other than LF) does not end it, so nothing after it on that line is parsed as a command *)
Theorem C04_discarded_line_ends_at_lf : forall text rest, forallb not_lf text = true ->
  fst (discard_line false (text ++ LF_ :: rest)) = rest.
Proof. exact discard_line_ends_at_lf. Qed.
Print Assumptions C04_discarded_line_ends_at_lf.

Theorem C04_discarded_line_without_lf_ends_input : forall s, forallb not_lf s = true ->
  discard_line false s = ([], false).
Proof. exact discard_line_no_lf_is_eof. Qed.
Print Assumptions C04_discarded_line_without_lf_ends_input.

(* non-vacuity: payloads full of command-like text, a refused synchronising literal, and a
   refused non-synchronising literal that ends the connection before A6 *)
Definition ex_payload := s2b "X1 CREATE evil" ++ CRLF_ ++ s2b "X2 DELETE INBOX" ++ CRLF_.
Definition ex_cmds := [ mkCmd (s2b "A1") (s2b "LOGIN") [mkArg ex_payload FSync; mkArg (s2b "pw") FAtom];
                        mkCmd (s2b "A2") (s2b "noop") [];
                        mkCmd (s2b "A3") (s2b "CREATE") [mkArg (rep 5000 (s2b "x")) FSync];
                        mkCmd (s2b "A4") (s2b "DELETE") [mkArg (s2b "a b") FQuoted];
                        mkCmd (s2b "A5") (s2b "RENAME") [mkArg (s2b "x") FAtom; mkArg (rep 5000 (s2b "x")) FNonSync];
                        mkCmd (s2b "A6") (s2b "NOOP") [] ].
Example C04_nonvacuous :
  forallb wf_cmd ex_cmds = true /\
  tags_upto ex_cmds = map s2b ["A1"; "A2"; "A3"; "A4"; "A5"]%string /\
  out_tags (rev (fs_out (run_stream (mkFcfg true false false (fun _ => false) (fun _ => false)) SNotAuth (render ex_cmds))))
    = map s2b ["A1"; "A2"; "A3"; "A4"; "A5"]%string.
Proof. vm_compute. repeat split. Qed.
