(* Properties/C08.v — on-the-wire mailbox view consistency across sessions.

   Model: Model/MemView.v (imapmemserver mailbox/session + the response/poll plumbing of
   imapserver, on top of the tracker model of C07).  A history is any list of (connection,
   command) pairs, one command at a time, for any number of connections and mailboxes;
   [run_log] runs it and logs, for every response, the connection it was written to and the
   command of that connection it answers ([run_log_erase]: forgetting the annotation gives the
   model's own run [sys_run], which is what the correspondence run compares with the real
   server).  [items_of c log] is what connection c received.

   Two observers (Proofs/MemViewSpec.v): [wire_run] sees only the wire and keeps the announced
   count; [view_run]/[gone_run] also follow message identity (UIDs) using the ghost UID list
   of each EXISTS.                                                                           *)
From GoImap.Base Require Import Bytes.
From Coq Require Import Sorting.Permutation.
From GoImap.Model Require Import NumSet Tracker MemView.
From GoImap.Proofs Require Import TrackerSpec MemViewSpec MemViewProofs MemViewReadOnly.
Open Scope N_scope.

(* The wire observer accepts everything every connection ever receives (it rejects a sequence
   number outside 1..announced count in FETCH/EXPUNGE/SEARCH, an EXPUNGE while a non-UID
   FETCH/STORE/SEARCH is answered, an EXISTS that lowers the count, a numbered response with no
   mailbox selected), and the count it holds is the length of the session's list. *)
Theorem C08_wire_accepts : forall nmb nconn h st log c, run_log (sys_init nmb nconn) h = (st, log) ->
  wire_run (items_of c log) = Some (cnt_of (view_of st c)).
Proof. exact reach_wire. Qed.
Print Assumptions C08_wire_accepts.

(* clause 1, at every position of every stream *)
Theorem C08_seq_in_range : forall nmb nconn h st log c pre ctx e post,
  run_log (sys_init nmb nconn) h = (st, log) -> items_of c log = pre ++ (ctx, e) :: post ->
  exists cnt, wire_run pre = Some cnt /\
    match e with
    | EvFetch n _ _ | EvExpunge n => exists k, cnt = Some k /\ 1 <= n <= k
    | EvSearch false nums => exists k, cnt = Some k /\ Forall (fun n => 1 <= n <= k) nums
    | _ => True
    end.
Proof. exact seq_in_range. Qed.
Print Assumptions C08_seq_in_range.

(* clause 2 *)
Theorem C08_no_expunge_in_fetch_store_search : forall nmb nconn h st log c pre ctx n post,
  run_log (sys_init nmb nconn) h = (st, log) -> items_of c log = pre ++ (ctx, EvExpunge n) :: post ->
  nonuid_fss ctx = false.
Proof. exact no_expunge_in_fetch_store_search. Qed.
Print Assumptions C08_no_expunge_in_fetch_store_search.

(* clause 3 *)
Theorem C08_count_shrinks_only_by_expunge : forall nmb nconn h st log c pre ctx e post k k',
  run_log (sys_init nmb nconn) h = (st, log) -> items_of c log = pre ++ (ctx, e) :: post ->
  wire_run pre = Some (Some k) -> wire_run (pre ++ [(ctx, e)]) = Some (Some k') -> k' < k ->
  (exists n, e = EvExpunge n) /\ k' = k - 1.
Proof. exact count_shrinks_only_by_expunge. Qed.
Print Assumptions C08_count_shrinks_only_by_expunge.

(* The observer with identity accepts every stream too: in particular every FETCH response
   (from FETCH, STORE or a flag update) carries the UID of the message that has that number in
   the client's list, and every EXISTS announces only messages the client does not have.  Its
   list is the tracker's ghost list of the session. *)
Theorem C08_view_accepts : forall nmb nconn h st log c, run_log (sys_init nmb nconn) h = (st, log) ->
  view_run (items_of c log) = Some (view_of st c).
Proof. intros. eapply reach_view; eauto. Qed.
Print Assumptions C08_view_accepts.

(* clause 4: since the SELECT, told = what the client was told about, l = its list now, gone =
   what EXPUNGE responses removed: told is l and gone together without repetition (each message is
   still listed or was reported once, never both, never twice), and nothing reported is in the
   mailbox.  After NOOP l is the mailbox (next theorem), so the messages that left the mailbox
   are exactly those reported, once each. *)
Theorem C08_removed_reported_once : forall nmb nconn h st log c m mb,
  run_log (sys_init nmb nconn) h = (st, log) -> sel_of st c = Some (m, mb) ->
  exists l gone told,
    gone_run (items_of c log) = Some (Some l, gone, told) /\ view_of st c = Some l /\
    Permutation told (l ++ gone) /\ NoDup told /\ NoDup (l ++ gone) /\
    (forall u, In u gone -> ~ In u (uids_of mb)).
Proof. exact removed_reported_once. Qed.
Print Assumptions C08_removed_reported_once.

(* clause 5: after a NOOP answered OK the list the client reconstructs is the mailbox's list *)
Theorem C08_noop_syncs : forall nmb nconn h st log c st' l m mb,
  run_log (sys_init nmb nconn) h = (st, log) -> step_log st c CNoop = (st', l) ->
  In (c, (Some CNoop, EvDone StOK DNone)) l -> sel_of st' c = Some (m, mb) ->
  view_of st' c = Some (uids_of mb).
Proof. exact noop_syncs. Qed.
Print Assumptions C08_noop_syncs.

(* no tracker guard ("expunge sequence number out of range", "cannot decrease mailbox number of
   messages", unknown update) ever panics *)
Theorem C08_no_crash : forall nmb nconn h st log, run_log (sys_init nmb nconn) h = (st, log) ->
  s_crash st = false.
Proof. exact no_crash. Qed.
Print Assumptions C08_no_crash.

(* the annotated log is the model's run *)
Theorem C08_log_is_run : forall h st st' log, run_log st h = (st', log) ->
  sys_run st h = (st', erase_log log).
Proof. exact run_log_erase. Qed.
Print Assumptions C08_log_is_run.

(* ---- the read-only view (EXAMINE) ----------------------------------------------------------
   A connection carries the read-only bit of its view ([ro_of], the backend's
   MailboxView.readOnly); [contents st] is, for every mailbox, its messages (UID, \Deleted, in
   order) and its uidNext, i.e. everything but the tracker. *)

(* a SELECT/EXAMINE answered OK leaves its own form in the bit *)
Theorem C08_select_records_readonly : forall st c cn m ro st' evs, get (s_conns st) c = Some cn ->
  handle_cmd st c (CSelect m ro) = (st', evs) -> In (EvDone StOK DNone) evs ->
  ro_of st' c = ro /\ exists cn', get (s_conns st') c = Some cn' /\ c_sel cn' = Some m.
Proof. exact select_records_ro. Qed.
Print Assumptions C08_select_records_readonly.

(* a read-only view never changes a mailbox: whatever command other than APPEND and COPY (which
   add messages to the mailbox they name, whatever is selected) a connection with a read-only
   view issues, in any state, no mailbox's messages, flags or uidNext change -- the step includes
   what the idling connections are sent afterwards.  [C08_readonly_no_change_log]: the same in the
   vocabulary of [run_log]. *)
Theorem C08_readonly_no_change : forall st c cm st' l, ro_of st c = true -> adds cm = false ->
  sys_step st c cm = (st', l) -> contents st' = contents st.
Proof. exact readonly_no_change. Qed.
Print Assumptions C08_readonly_no_change.

Theorem C08_readonly_no_change_log : forall st c cm st' l, ro_of st c = true -> adds cm = false ->
  step_log st c cm = (st', l) -> contents st' = contents st.
Proof. exact readonly_no_change_log. Qed.
Print Assumptions C08_readonly_no_change_log.

(* and what it answers: STORE, UID EXPUNGE, MOVE: NO, the whole state (trackers included) as it
   was; CLOSE: only leaves the mailbox; EXPUNGE: a NOOP; FETCH: as if every section were PEEK *)
Theorem C08_readonly_refuses : forall st c m mb, sel_of st c = Some (m, mb) -> ro_of st c = true ->
  (forall uidk s o silent, handle_cmd st c (CStore uidk s o silent) = (st, [EvDone StNO DNone])) /\
  (forall s, handle_cmd st c (CUidExpunge s) = (st, [EvDone StNO DNone])) /\
  (forall uidk s d, handle_cmd st c (CMove uidk s d) = (st, [EvDone StNO DNone])) /\
  handle_cmd st c CClose = (sys_unselect st c, [EvDone StOK DNone]) /\
  handle_cmd st c CExpunge = handle_cmd st c CNoop /\
  (forall uidk s wflags seen, handle_cmd st c (CFetch uidk s wflags seen) =
                              handle_cmd st c (CFetch uidk s wflags false)).
Proof. exact readonly_refuses. Qed.
Print Assumptions C08_readonly_refuses.

(* non-vacuity of the read-only clauses: session 1 EXAMINEs a mailbox of two messages (one
   \Deleted) that session 0 has SELECTed; its STORE / UID EXPUNGE / MOVE get NO, its FETCH of a
   non-PEEK body, EXPUNGE and CLOSE go through, and the mailbox is as before; the same commands
   after a SELECT do change it. *)
Example C08_readonly_nonvacuous :
  let pre := [(0, CAppend 0 true); (0, CAppend 0 false); (0, CSelect 0 false)] in
  let cmds := [(1, CStore false [(1, 0)] SDel false); (1, CFetch false [(1, 0)] true true);
               (1, CUidExpunge [(1, 0)]); (1, CMove false [(1, 1)] 1); (1, CExpunge); (1, CClose);
               (0, CNoop)] in
  let '(st_ro, log_ro) := run_log (sys_init 2 2) (pre ++ (1, CSelect 0 true) :: cmds) in
  let '(st_rw, log_rw) := run_log (sys_init 2 2) (pre ++ (1, CSelect 0 false) :: cmds) in
  map snd (items_of 1 log_ro) =
    [EvExists 2 [1; 2]; EvUidNext 3; EvDone StOK DNone;
     EvDone StNO DNone;
     EvFetch 1 1 (Some true); EvFetch 2 2 (Some false); EvDone StOK DNone;
     EvDone StNO DNone; EvDone StNO DNone; EvDone StOK DNone; EvDone StOK DNone] /\
  map snd (items_of 0 log_ro) =
    [EvDone StOK (DAppendUid 1); EvDone StOK (DAppendUid 2);
     EvExists 2 [1; 2]; EvUidNext 3; EvDone StOK DNone; EvDone StOK DNone] /\
  contents st_ro = [([mkMsg 1 true; mkMsg 2 false], 3); ([], 1)] /\
  contents st_rw = [([], 3); ([], 1)].
Proof. vm_compute. repeat split; reflexivity. Qed.

(* non-vacuity: two sessions on one mailbox of three messages; session 1 expunges message 2 and
   appends while session 0's view is stale; session 0 then fetches (no EXPUNGE allowed), moves
   message 1 away, and NOOPs.  The streams are the expected ones, and the wire observer does
   discriminate: it rejects the responses the unrepaired server used to send. *)
Example C08_nonvacuous :
  let h := [(0, CAppend 0 false); (0, CAppend 0 true); (0, CAppend 0 false);
            (0, CSelect 0 false); (1, CSelect 0 false);
            (1, CExpunge); (1, CAppend 0 false);
            (0, CFetch false [(1, 0)] false false);
            (0, CMove false [(1, 1)] 1);
            (0, CNoop)] in
  let '(st, log) := run_log (sys_init 2 2) h in
  map snd (items_of 0 log) =
    [EvDone StOK (DAppendUid 1); EvDone StOK (DAppendUid 2); EvDone StOK (DAppendUid 3);
     EvExists 3 [1; 2; 3]; EvUidNext 4; EvDone StOK DNone;
     EvFetch 1 1 None; EvFetch 3 3 None; EvDone StOK DNone;
     EvCopyUid [1] [1]; EvExpunge 2; EvExists 3 [4]; EvExpunge 1; EvDone StOK DNone;
     EvDone StOK DNone] /\
  view_of st 0 = Some [3; 4] /\ view_of st 1 = Some [1; 3; 4] /\
  (* MOVE 3 on three messages used to answer "* 0 EXPUNGE" *)
  wire_run [(Some (CSelect 0 false), EvExists 3 []); (Some (CMove false [(3, 3)] 1), EvExpunge 0)] = None /\
  (* MOVE 1 on three messages used to answer "* 2 EXPUNGE", "* 1 EXPUNGE" and then the poll's
     "* 1 EXPUNGE": in range, but the client's list is then empty while UID 2 and 3 are still there *)
  view_run [(Some (CSelect 0 false), EvExists 3 [1; 2; 3]); (Some (CMove false [(1, 1)] 1), EvExpunge 2);
            (Some (CMove false [(1, 1)] 1), EvExpunge 1); (Some (CMove false [(1, 1)] 1), EvExpunge 1);
            (Some (CFetch true [(1, 0)] false false), EvFetch 1 2 None)] = None /\
  (* "* 0 FETCH" *)
  wire_run [(Some (CSelect 0 false), EvExists 1 []); (Some (CFetch true [(1, 0)] true false), EvFetch 0 2 None)] = None /\
  (* EXPUNGE while answering a FETCH *)
  wire_run [(Some (CSelect 0 false), EvExists 3 []); (Some (CFetch false [(1, 0)] false false), EvExpunge 2)] = None.
Proof. vm_compute. repeat split; reflexivity. Qed.
