(* Properties/C02.v — client commands reach the server backend with the caller's arguments
   intact (statements only).  [w_req] = what imapclient writes for an API call (Model/CmdClient.v),
   [serve_line] = the backend calls imapserver makes for a command line (Model/CmdServer.v),
   [norm_req] = the caller's arguments under the normalisations the property allows, [wf_req] =
   arguments the command syntax and the server's limits can carry (Proofs/CmdSpec.v).          *)
From GoImap.Base Require Import Bytes.
From GoImap.Model Require Import NumSet NumSetCorr MatchList Utf7 Wire Search ClientWrite CmdDate CmdTypes CmdClient CmdServer.
From GoImap.Proofs Require Import NumSetSpec Utf7Spec WireSpec SearchSpec CmdDateProofs CmdSpec CmdSearch CmdProofs.
Open Scope N_scope.

(* every command line the client writes for a well-formed request is read by the server as
   exactly the backend call(s) the request denotes — for every capability configuration, with
   UTF8=ACCEPT enabled or not, LITERAL+ or not, every iteration order of the Go maps involved,
   granted or refused continuation requests *)
Theorem C02_delivery : forall c lp order tag q,
  wf_req q -> covers order -> wf_tag tag ->
  Forall2 (delivers lp tag) (w_req c order q) (norm_req c q).
Proof. exact req_delivery. Qed.
Print Assumptions C02_delivery.

(* ... and the encoder never refuses a well-formed request (so the statement above is not
   vacuous), provided the server grants the continuation requests the client asks for *)
Theorem C02_encodable : forall c order tag q,
  wf_req q -> c_cont c = Some true ->
  Forall (fun body => w_line tag body <> None) (w_req c order q).
Proof. exact req_encodable. Qed.
Print Assumptions C02_encodable.

(* SEARCH, stage by stage: the server's readSearchKey returns the keys writeSearchKey sent for
   every criteria tree ... *)
Theorem C02_search_keys : forall cfg c segs rest fuel d kd,
  client_side cfg = true -> wf_crit c ->
  (d + crit_depth c < MAX_DEPTH)%nat -> (kd + crit_depth c < MAX_DEPTH)%nat ->
  (2 * crit_depth c <= fuel)%nat -> delimited rest ->
  w_key cfg c = Some segs ->
  read_key fuel d kd (flatten segs ++ rest) = Some (KList (keys_sent c), rest).
Proof. exact read_key_w_key. Qed.
Print Assumptions C02_search_keys.

(* ... and the excluded case: at maxSearchKeyDepth enclosing NOT / OR keys (kd) readSearchKey
   refuses, for every input and every fuel; the recursion through NOT / OR is bounded like the
   one through parentheses *)
Theorem C02_search_key_too_deep : forall fuel d kd s,
  (MAX_DEPTH <= kd)%nat -> read_key fuel d kd s = None.
Proof. exact read_key_too_deep. Qed.
Print Assumptions C02_search_key_too_deep.

(* in particular a chain of NOT keys, which needs no parenthesis and no login, is refused once
   it is maxSearchKeyDepth long, whatever follows it *)
Theorem C02_search_not_chain_refused : forall n fuel d kd s,
  (MAX_DEPTH <= kd + n)%nat -> read_key fuel d kd (not_chain n s) = None.
Proof. exact read_key_not_chain. Qed.
Print Assumptions C02_search_not_chain_refused.

(* ... folding them with SearchCriteria.And rebuilds the caller's tree: no key is merged with
   its neighbour, dropped or weakened ... *)
Theorem C02_search_rebuild : forall c, wf_crit c ->
  fold_left apply_key (keys_sent c) empty_crit = norm_crit c.
Proof. exact apply_keys_sent. Qed.
Print Assumptions C02_search_rebuild.

(* ... and the rebuilt criteria select exactly the messages the keys stand for (RFC 3501
   meaning of each key, Proofs/SearchSpec.v) *)
Theorem C02_search_semantics : forall c m, wf_crit c -> (0 <= m_size m)%Z ->
  forallb wf_key (keys_sent c) = true ->
  matches m (norm_crit c) = forallb (key_matches m) (keys_sent c).
Proof. exact search_semantics. Qed.
Print Assumptions C02_search_semantics.

(* the two date layouts round-trip on every day of the years 1..9999 *)
Theorem C02_date_roundtrip : forall d, day_in_range d = true -> parse_date (fmt_date d) = Some d.
Proof. exact date_roundtrip. Qed.
Print Assumptions C02_date_roundtrip.

Theorem C02_datetime_roundtrip : forall t, day_in_range (t_day t) = true ->
  (t_off t mod 60 = 0)%Z -> (-86400 < t_off t < 86400)%Z ->
  parse_datetime (fmt_datetime t) = Some (mkT (t_sec t) 0 (t_off t)).
Proof. exact datetime_roundtrip. Qed.
Print Assumptions C02_datetime_roundtrip.

(* non-vacuity: a well-formed SEARCH with nested keys, a SMALLER next to a NOT, 8-bit and CRLF
   strings, a date pair written as ON, and the SAVE option, delivered as its normal form; the
   pattern of LIST with '&'; and an argument the encoder refuses *)
Definition ex_cfg := mkCcfg [s2b "IMAP4rev1"; s2b "LITERAL-"] false (Some true).
Definition ex_crit :=
  CC [[(1, 5)]] [NRes] (mkT (738000 * 86400 + 3661) 5 (-19800)) (mkT (738001 * 86400 + 60) 0 (-19800)) tzero tzero
     [(s2b "subject", hx "c3a9")] [hx "610d0a62"] [] [s2b "\seen"] [] 0 100 None
     [CC [] [] tzero tzero tzero tzero [] [] [] [] [] 0 5 None [] []] [].
Example C02_nonvacuous :
  map (fun b => option_map (fun sg => serve_line false (flatten sg)) (w_line (s2b "T1") b))
      (w_req ex_cfg [4; 0; 1; 2; 3; 5; 6; 7; 8]%nat (QSearch true ex_crit (mkSO false false false false true)))
  = map (fun calls => Some (Some calls)) (norm_req ex_cfg (QSearch true ex_crit (mkSO false false false false true))) /\
  option_map (fun sg => string_of_list_ascii (flatten sg))
    (hd None (w_req ex_cfg [] (QList [] (s2b "a&b*") list_empty))) = Some "LIST """" ""a&-b*"""%string /\
  w_req ex_cfg [] (QStore false (NSet [(1, 1)]) 0 false [s2b "a b"] 0) = [None].
Proof. vm_compute. repeat split. Qed.
