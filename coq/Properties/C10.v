(* Properties/C10.v — every client command terminates, whatever happens to the connection
   (the completion bookkeeping; the runtime side is decided by the fault-injection run). *)
From GoImap.Base Require Import Bytes.
From GoImap.Model Require Import ClientConn.
From GoImap.Proofs Require Import ClientConnProofs.
Open Scope N_scope.

Theorem C10_close_completes_all : forall evs evs', let c := run (evs ++ EvConnLost :: evs') in
  c_pending c = [] /\ c_closed c = true /\
  (forall t, In t (pending_tags (run evs)) -> In (t, 3) (c_done c)) /\
  (forall t, 1 <= t <= c_tag c -> In t (done_tags c)).
Proof. exact close_completes_all. Qed.
Print Assumptions C10_close_completes_all.

Theorem C10_exactly_once : forall evs, let c := run evs in
  NoDup (pending_tags c ++ done_tags c) /\
  (forall t, In t (pending_tags c ++ done_tags c) <-> 1 <= t <= c_tag c).
Proof. exact exactly_once. Qed.
Print Assumptions C10_exactly_once.

Theorem C10_done_monotone : forall evs e t s, In (t, s) (c_done (run evs)) -> In (t, s) (c_done (run (evs ++ [e]))).
Proof. exact done_monotone. Qed.
Print Assumptions C10_done_monotone.

Example C10_nonvacuous :
  let c := run [EvGreeting 0; EvSubmit KPlain; EvSubmit KPlain; EvTagged 1 0; EvConnLost; EvSubmit KPlain] in
  c_done c = [(3, 3); (2, 3); (1, 0)] /\ c_pending c = [] /\ c_closed c = true.
Proof. vm_compute. repeat split. Qed.
