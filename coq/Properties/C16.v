(* Properties/C16.v — modified UTF-7 mailbox-name encoding is lossless and safe. *)
From GoImap.Base Require Import Bytes.
From GoImap.Model Require Import Utf7.
From GoImap.Proofs Require Import Utf7Spec Utf7Proofs.
Open Scope N_scope.

Theorem C16_roundtrip : forall runes, forallb scalar runes = true ->
  utf7_decode (utf7_encode (utf8_of runes)) = Some (utf8_of runes).
Proof. exact utf7_roundtrip. Qed.
Print Assumptions C16_roundtrip.

Theorem C16_encode_printable : forall s, forallb printable_b (utf7_encode s) = true.
Proof. exact utf7_encode_printable. Qed.
Print Assumptions C16_encode_printable.

Theorem C16_decode_valid : forall t u, utf7_decode t = Some u -> valid_utf8 u.
Proof. exact utf7_decode_valid. Qed.
Print Assumptions C16_decode_valid.

Theorem C16_decode_input_printable : forall t u, utf7_decode t = Some u -> forallb printable_b t = true.
Proof. exact utf7_decode_input_printable. Qed.
Print Assumptions C16_decode_input_printable.

Theorem C16_reject_unterminated : forall pre b, ~ In DASHb b ->
  utf7_decode (pre ++ AMPb :: b) = None.
Proof. exact utf7_reject_unterminated. Qed.
Print Assumptions C16_reject_unterminated.

Theorem C16_reject_adjacent_shifts : forall pre b1 b2 post,
  b1 <> [] -> b2 <> [] -> ~ In DASHb b1 -> ~ In DASHb b2 ->
  utf7_decode (pre ++ AMPb :: b1 ++ DASHb :: AMPb :: b2 ++ DASHb :: post) = None.
Proof. exact utf7_reject_adjacent_shifts. Qed.
Print Assumptions C16_reject_adjacent_shifts.

Theorem C16_shift_content : forall seg out, decode_b64 seg = Some out ->
  forallb (fun c => negb (printable c)) out = true /\
  forallb (fun c => match b64val c with Some _ => true | None => false end) seg = true /\
  Nat.even (length (match b64_decode seg with Some b => b | None => [] end)) = true.
Proof. exact decode_b64_no_printable. Qed.
Print Assumptions C16_shift_content.

(* non-vacuity *)
Example C16_nonvacuous :
  forallb scalar [126; 233; 8364; 128512; 38; 1] = true /\
  utf7_encode (utf8_of [126; 233; 8364; 128512; 38; 1]) = s2b "~&AOkgrNg93gA-&-&AAE-" /\
  utf7_decode (s2b "&AOk-&AOk-") = None /\ utf7_decode (s2b "&AGE-") = None.
Proof. vm_compute. repeat split. Qed.
