(* Properties/C05.v — server state machine: the backend is reached only in permitted states. *)
From GoImap.Base Require Import Bytes.
From GoImap.Model Require Import ServerConn.
From GoImap.Proofs Require Import ServerConnSpec ServerConnProofs.

Theorem C05_calls_permitted : forall cmds cfg c r k s,
  In r (serve cfg c cmds) -> In (k, s) (r_calls r) -> permitted k s = true.
Proof. exact serve_calls_permitted. Qed.
Print Assumptions C05_calls_permitted.

Theorem C05_creds_need_tls : forall cmds cfg c c' r s,
  In (c', r) (serve_conns cfg c cmds) -> In (KLogin, s) (r_calls r) ->
  tls c' = true \/ c_insecure cfg = true.
Proof. exact serve_creds. Qed.
Print Assumptions C05_creds_need_tls.

Theorem C05_refines_rfc_diagram : forall cfg c m outs, st c <> SLogout ->
  st (r_conn (handle cfg c m outs)) = rfc_next cfg c m (outcome1 outs) (outcome2 outs).
Proof. exact handle_refines_rfc. Qed.
Print Assumptions C05_refines_rfc_diagram.

Theorem C05_tls_monotone : forall cfg c m outs,
  tls (r_conn (handle cfg c m outs)) = tls c \/
  (m = CStartTLS /\ tls c = false /\ st c = SNotAuth /\ c_tlsconfig cfg = true /\
   tls (r_conn (handle cfg c m outs)) = true).
Proof. exact handle_tls_monotone. Qed.
Print Assumptions C05_tls_monotone.

Theorem C05_bye : forall cfg c m outs, st c <> SLogout ->
  (r_bye (handle cfg c m outs) = true <-> (m = CLogout \/ (m = CUnknown /\ st c = SNotAuth))) /\
  (r_bye (handle cfg c m outs) = true -> st (r_conn (handle cfg c m outs)) = SLogout).
Proof. exact handle_bye. Qed.
Print Assumptions C05_bye.

Theorem C05_logout_ends_processing : forall cfg c cmds, st c = SLogout -> serve cfg c cmds = [].
Proof. exact serve_stops_at_logout. Qed.
Print Assumptions C05_logout_ends_processing.

Theorem C05_refused_reaches_no_backend : forall cfg c m outs,
  r_class (handle cfg c m outs) = RBad -> r_calls (handle cfg c m outs) = [].
Proof. exact handle_bad_no_calls. Qed.
Print Assumptions C05_refused_reaches_no_backend.

(* non-vacuity: a run that logs in over plaintext with InsecureAuth, selects, fails a second
   SELECT (leaving no mailbox selected) and logs out *)
Example C05_nonvacuous :
  let cfg := mkScfg true true false false in
  map (fun r => (r_class r, st (r_conn r), length (r_calls r)))
      (serve cfg (init_conn cfg false)
         [(CFetch false, []); (CLogin, []); (CSelect, []); (CSelect, [true; false]); (CFetch false, []); (CLogout, []); (CNoop, [])])
  = [(RBad, SNotAuth, 0%nat); (ROk, SAuth, 1%nat); (ROk, SSelected, 1%nat); (RNo, SAuth, 2%nat);
     (RBad, SAuth, 0%nat); (ROk, SLogout, 0%nat)].
Proof. vm_compute. reflexivity. Qed.
