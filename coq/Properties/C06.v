(* Properties/C06.v — server robustness: bounded buffering, termination, refusal before reading. *)
From GoImap.Base Require Import Bytes.
From GoImap.Model Require Import NumSet MatchList Utf7 Wire ServerConn ServerFrame.
From GoImap.Proofs Require Import WireSpec WireProofs ServerFrameSpec ServerFrameProofs.
Open Scope N_scope.

Theorem C06_literal_buffer_cap : forall s v rest k, s_literal s = SOk v rest k -> (length v <= 4096)%nat.
Proof. exact literal_buffer_cap. Qed.
Print Assumptions C06_literal_buffer_cap.

Theorem C06_serve_terminates : forall k cfg f total s, (length s < k)%nat ->
  serve_bytes k cfg f total s = serve_bytes (S (length s)) cfg f total s.
Proof. exact serve_fuel_enough. Qed.
Print Assumptions C06_serve_terminates.

Theorem C06_append_limit_refused : forall cfg c name s h, bytes_eqb (ascii_upper name) (s2b "APPEND") = true ->
  handle_cmd cfg c name s = h -> h_cls h = 0 ->
  forall m fl d p, In (SAppend m fl d p) (h_calls h) -> N.of_nat (length p) <= APPEND_LIMIT.
Proof. exact append_limit_refused. Qed.
Print Assumptions C06_append_limit_refused.

(* list nesting is bounded: at or above the cap the generic reader reports an error (C01) *)
Theorem C06_nesting_bounded : forall cfg v segs rest fuel, wf_wval v -> (MAX_DEPTH <= wdepth v)%nat ->
  enc_val cfg v = Some segs ->
  discard_value fuel (peer_server cfg) 0 (flatten segs ++ rest) = DErr.
Proof. exact value_too_deep. Qed.
Print Assumptions C06_nesting_bounded.

Theorem C06_refused_nonsync_closes : forall cfg f total s tag r1 r2 name r3,
  dec_atom s = DOk tag r1 -> has_plus tag = false ->
  dec_sp r1 = DOk tt r2 -> dec_atom r2 = DOk name r3 ->
  bytes_eqb (ascii_upper name) (s2b "UID") = false ->
  let h := handle_cmd cfg (fs_conn f) name r3 in
  (h_close h = true \/ (snd (discard_line (h_crlf h) (h_rest h)) = true /\ h_cls h <> 0)) ->
  snd (read_command cfg f total s) = None /\
  exists outs, fs_out (fst (read_command cfg f total s)) = OBye :: outs.
Proof. exact refused_nonsync_closes. Qed.
Print Assumptions C06_refused_nonsync_closes.

Example C06_nonvacuous :
  s_literal (s2b "{3}" ++ CRLF_ ++ s2b "abc x") = SOk (s2b "abc") (s2b " x") 1%nat /\
  s_literal (s2b "{4097+}" ++ CRLF_ ++ s2b "abc") = SErr 4 true O (s2b "abc").
Proof. vm_compute. split; reflexivity. Qed.
