(* Properties/C06.v — placeholder until the proofs land. *)
From GoImap.Base Require Import Bytes.
From GoImap.Model Require Import Wire ServerConn ServerFrame.
Theorem C06_placeholder : True.
Proof. exact I. Qed.
Print Assumptions C06_placeholder.
