(* Properties/C01.v — wire encoder/decoder round-trip for every IMAP data value. *)
From GoImap.Base Require Import Bytes.
From GoImap.Model Require Import NumSet MatchList Utf7 Wire.
From GoImap.Proofs Require Import NumSetSpec Utf7Spec WireSpec WireProofs.
Open Scope N_scope.

Theorem C01_quoted_roundtrip : forall s rest, dec_quoted (enc_quoted s ++ rest) = DOk s rest.
Proof. exact quoted_roundtrip. Qed.
Print Assumptions C01_quoted_roundtrip.

Theorem C01_string_roundtrip : forall cfg s segs rest, fits_int64 s ->
  enc_string cfg s = Some segs ->
  dec_string (peer_server cfg) (flatten segs ++ rest) = DOk s rest /\
  dec_astring (peer_server cfg) (flatten segs ++ rest) = DOk s rest /\
  dec_nstring (peer_server cfg) (flatten segs ++ rest) = DOk s rest.
Proof. exact string_roundtrip. Qed.
Print Assumptions C01_string_roundtrip.

Theorem C01_string_quoted_only_if_valid : forall cfg s, valid_quoted cfg s = true ->
  enc_string cfg s = Some [SBytes (enc_quoted s)] /\
  forallb (fun c => negb ((b2n c =? 0) || (b2n c =? 13) || (b2n c =? 10))) (enc_quoted s) = true /\
  (quoted_utf8 cfg = false -> forallb (fun c => b2n c <=? 127) (enc_quoted s) = true).
Proof. exact string_quoted_only_if_valid. Qed.
Print Assumptions C01_string_quoted_only_if_valid.

Theorem C01_mailbox_roundtrip : forall cfg runes segs rest, forallb scalar runes = true ->
  fits_int64 (utf7_encode (utf8_of runes)) -> delimited rest ->
  enc_mailbox cfg (utf8_of runes) = Some segs ->
  dec_mailbox (peer_server cfg) (flatten segs ++ rest) =
    DOk (if equal_fold_ascii (utf8_of runes) INBOX then INBOX else utf8_of runes) rest.
Proof. exact mailbox_roundtrip. Qed.
Print Assumptions C01_mailbox_roundtrip.

Theorem C01_numset_roundtrip : forall s segs rest, canon s = true -> delimited rest ->
  enc_numset s = Some segs -> dec_numset (flatten segs ++ rest) = DOk (Some s) rest.
Proof. exact numset_roundtrip. Qed.
Print Assumptions C01_numset_roundtrip.

Theorem C01_numset_empty_refused : enc_numset [] = None.
Proof. exact numset_empty_refused. Qed.
Print Assumptions C01_numset_empty_refused.

Theorem C01_flag_roundtrip : forall f segs rest, delimited rest -> enc_flag f = Some segs ->
  dec_flag (flatten segs ++ rest) = DOk (canonical_flag f) rest.
Proof. exact flag_roundtrip. Qed.
Print Assumptions C01_flag_roundtrip.

Theorem C01_attr_roundtrip : forall a segs rest, delimited rest -> enc_mailbox_attr a = Some segs ->
  dec_mailbox_attr (flatten segs ++ rest) = DOk (canonical_attr (canonical_flag a)) rest.
Proof. exact attr_roundtrip. Qed.
Print Assumptions C01_attr_roundtrip.

Theorem C01_canonical_flag_spec : forall f, seven_bit f ->
  (canonical_flag f = f \/ (In (canonical_flag f) known_flags /\ ascii_lower (canonical_flag f) = ascii_lower f)).
Proof. exact canonical_flag_spec. Qed.
Print Assumptions C01_canonical_flag_spec.

Theorem C01_flag_refused : forall f, enc_flag f = None <-> (f <> s2b "\*" /\ is_valid_flag f = false).
Proof. exact flag_refused. Qed.
Print Assumptions C01_flag_refused.

Theorem C01_number_roundtrip : forall n rest, n < 4294967296 ->
  (match rest with [] => False | c :: _ => is_digit c = false end) ->
  dec_number (enc_number n ++ rest) = DOk n rest.
Proof. exact number_roundtrip. Qed.
Print Assumptions C01_number_roundtrip.

Theorem C01_number64_roundtrip : forall z segs rest, (z < 9223372036854775808)%Z ->
  (match rest with [] => False | c :: _ => is_digit c = false end) ->
  enc_number64 z = Some segs -> dec_number64 (flatten segs ++ rest) = DOk (Z.to_N z) rest /\ (0 <= z)%Z.
Proof. exact number64_roundtrip. Qed.
Print Assumptions C01_number64_roundtrip.

Theorem C01_value_discard : forall cfg v segs rest fuel, wf_wval v -> (wdepth v < MAX_DEPTH)%nat ->
  delimited rest -> enc_val cfg v = Some segs ->
  (length (flatten segs ++ rest) < fuel)%nat ->
  discard_value fuel (peer_server cfg) 0 (flatten segs ++ rest) = DOk tt rest.
Proof. exact value_discard. Qed.
Print Assumptions C01_value_discard.

Theorem C01_value_too_deep : forall cfg v segs rest fuel, wf_wval v -> (MAX_DEPTH <= wdepth v)%nat ->
  enc_val cfg v = Some segs ->
  discard_value fuel (peer_server cfg) 0 (flatten segs ++ rest) = DErr.
Proof. exact value_too_deep. Qed.
Print Assumptions C01_value_too_deep.

(* non-vacuity *)
Example C01_nonvacuous :
  let cfg := mkCfg false true false true (Some true) in
  option_map flatten (enc_string cfg (hx "610d0a62")) = Some (s2b "{4+}" ++ hx "0d0a610d0a62") /\
  dec_astring true (s2b "{4+}" ++ hx "0d0a610d0a62" ++ s2b " x") = DOk (hx "610d0a62") (s2b " x") /\
  option_map flatten (enc_mailbox cfg (s2b "inBox")) = Some (s2b "INBOX") /\
  enc_flag (s2b "\") = None /\ enc_number64 (-1)%Z = None.
Proof. vm_compute. repeat split. Qed.
