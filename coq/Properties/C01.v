(* Properties/C01.v — placeholder until the proofs land (statements in Proofs/WireProofs.v). *)
From GoImap.Base Require Import Bytes.
From GoImap.Model Require Import Wire.
Theorem C01_placeholder : dec_quoted (enc_quoted (s2b "a""b\c") ++ s2b " x") = DOk (s2b "a""b\c") (s2b " x").
Proof. vm_compute. reflexivity. Qed.
Print Assumptions C01_placeholder.
