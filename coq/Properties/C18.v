(* Properties/C18.v — the client only uses syntax the server advertised; literal sync. *)
From GoImap.Base Require Import Bytes.
From GoImap.Model Require Import NumSet MatchList Utf7 Wire ClientWrite.
From GoImap.Proofs Require Import WireSpec WireProofs ClientWriteProofs.
Open Scope N_scope.

Theorem C18_string_legal : forall caps en cont s segs,
  enc_string (client_cfg caps en cont) s = Some segs ->
  legal_string_segs (cap_in "LITERAL+" caps)
                    (cap_in "LITERAL-" caps || cap_in "IMAP4rev2" caps || cap_in "LITERAL+" caps)
                    (cap_in "IMAP4rev2" caps || en) s segs.
Proof. exact string_legal. Qed.
Print Assumptions C18_string_legal.

Theorem C18_mailbox_legal : forall caps en cont name segs,
  enc_mailbox (client_cfg caps en cont) name = Some segs ->
  segs = [SBytes INBOX] \/
  legal_string_segs (cap_in "LITERAL+" caps)
                    (cap_in "LITERAL-" caps || cap_in "IMAP4rev2" caps || cap_in "LITERAL+" caps)
                    (cap_in "IMAP4rev2" caps || en) (utf7_encode name) segs.
Proof. exact mailbox_legal. Qed.
Print Assumptions C18_mailbox_legal.

Theorem C18_refused_literal_no_payload : forall caps en s,
  valid_quoted (client_cfg caps en (Some false)) s = false ->
  cap_in "LITERAL+" caps = false ->
  (cap_in "LITERAL-" caps || cap_in "IMAP4rev2" caps = false \/ 4096 < N.of_nat (length s)) ->
  enc_string (client_cfg caps en (Some false)) s = None.
Proof. exact refused_literal_no_payload. Qed.
Print Assumptions C18_refused_literal_no_payload.

Theorem C18_append_literal_legal : forall caps size, append_literal_sync caps size = false ->
  (cap_in "LITERAL-" caps || cap_in "IMAP4rev2" caps || cap_in "LITERAL+" caps) = true /\ size <= 4096.
Proof. exact append_literal_legal. Qed.
Print Assumptions C18_append_literal_legal.

Theorem C18_cmd_write_args_legal : forall caps en cont args segs,
  enc_cargs (client_cfg caps en cont) args = Some segs ->
  Forall (fun a => exists sg, enc_carg (client_cfg caps en cont) a = Some sg /\
            match a with
            | CAString s => legal_string_segs (cap_in "LITERAL+" caps)
                              (cap_in "LITERAL-" caps || cap_in "IMAP4rev2" caps || cap_in "LITERAL+" caps)
                              (cap_in "IMAP4rev2" caps || en) s sg
            | CAMailbox n => sg = [SBytes INBOX] \/
                             legal_string_segs (cap_in "LITERAL+" caps)
                              (cap_in "LITERAL-" caps || cap_in "IMAP4rev2" caps || cap_in "LITERAL+" caps)
                              (cap_in "IMAP4rev2" caps || en) (utf7_encode n) sg
            end) args.
Proof. exact cmd_write_args_legal. Qed.
Print Assumptions C18_cmd_write_args_legal.

Example C18_nonvacuous :
  let caps := [s2b "IMAP4rev1"; s2b "LITERAL-"] in
  option_map flatten (cmd_write (client_cfg caps false (Some true)) (s2b "T1") (s2b "LOGIN")
                        [CAString (hx "610d62"); CAString (rep 4097 (s2b "x"))])
  = Some (s2b "T1 LOGIN {3+}" ++ [CR_; LF_] ++ hx "610d62" ++ s2b " {4097}" ++ [CR_; LF_] ++ rep 4097 (s2b "x") ++ [CR_; LF_]).
Proof. vm_compute. reflexivity. Qed.
