(* Properties/C12.v — client routes responses to the right command and mirrors protocol state. *)
From GoImap.Base Require Import Bytes.
From GoImap.Model Require Import ClientConn.
From GoImap.Proofs Require Import ClientConnProofs ClientRouteProofs.
Open Scope N_scope.

Theorem C12_exactly_once : forall evs, let c := run evs in
  NoDup (pending_tags c ++ done_tags c) /\
  (forall t, In t (pending_tags c ++ done_tags c) <-> 1 <= t <= c_tag c).
Proof. exact exactly_once. Qed.
Print Assumptions C12_exactly_once.

Theorem C12_tagged_own_status : forall evs t s p rest, c_closed (run evs) = false ->
  take_tag t (c_pending (run evs)) = Some (p, rest) ->
  let c' := run (evs ++ [EvTagged t s]) in
  In (t, s) (c_done c') /\ c_pending c' = rest /\
  (s <> 0 -> c_state c' = c_state (run evs) /\ c_mbox c' = c_mbox (run evs)).
Proof. exact tagged_own_status. Qed.
Print Assumptions C12_tagged_own_status.

Theorem C12_done_monotone : forall evs e t s, In (t, s) (c_done (run evs)) -> In (t, s) (c_done (run (evs ++ [e]))).
Proof. exact done_monotone. Qed.
Print Assumptions C12_done_monotone.

Theorem C12_unilateral_routing : forall evs e, unilateral e = true ->
  let c := run evs in let c' := run (evs ++ [e]) in
  c_done c' = c_done c /\ pending_tags c' = pending_tags c /\ c_state c' = c_state c /\ c_tag c' = c_tag c.
Proof. exact unilateral_routing. Qed.
Print Assumptions C12_unilateral_routing.

Theorem C12_mailbox_iff_selected : forall evs, let c := run evs in
  c_closed c = false -> (c_mbox c <> None <-> c_state c = S_SEL).
Proof. exact mailbox_iff_selected. Qed.
Print Assumptions C12_mailbox_iff_selected.

Theorem C12_data_to_oldest_pending : forall evs e t n f data,
  wants e = Some (f, data) -> In (t, n) (route (run evs) e) ->
  In n data /\
  exists p, In p (c_pending (run evs)) /\ p_tag p = t /\ f p = true /\
            (forall q, In q (c_pending (run evs)) -> f q = true -> t <= p_tag q).
Proof. exact data_to_oldest_pending. Qed.
Print Assumptions C12_data_to_oldest_pending.

Theorem C12_data_complete : forall evs e f data,
  wants e = Some (f, data) -> c_closed (run evs) = false ->
  (exists p, In p (c_pending (run evs)) /\ f p = true) ->
  map snd (route (run evs) e) = data.
Proof. exact data_complete. Qed.
Print Assumptions C12_data_complete.

Theorem C12_collected_frozen : forall evs evs' t,
  In t (done_tags (run evs)) -> collected (evs ++ evs') t = collected evs t.
Proof. exact collected_frozen. Qed.
Print Assumptions C12_collected_frozen.

Theorem C12_collected_only_issued : forall evs t, c_tag (run evs) < t -> collected evs t = [].
Proof. exact collected_only_issued. Qed.
Print Assumptions C12_collected_only_issued.

Example C12_data_nonvacuous :
  let evs := [EvGreeting 1; EvSubmit KPlain; EvSubmit KList; EvSubmit KList; EvTagged 1 0;
              EvListData 11; EvListData 12; EvTagged 2 0; EvListData 21; EvTagged 3 0; EvListData 99] in
  collected evs 2 = [11; 12] /\ collected evs 3 = [21] /\ collected evs 1 = [].
Proof. vm_compute. repeat split. Qed.

(* non-vacuity: two pipelined commands answered out of order, one refused, a SELECT with its
   data block, a unilateral EXPUNGE *)
Example C12_nonvacuous :
  let c := run [EvGreeting 0; EvSubmit KLogin; EvTagged 1 0; EvSubmit KPlain; EvSubmit KPlain; EvTagged 3 1; EvTagged 2 0;
                EvSubmit (KSelect 7); EvExists 5; EvFlags [1; 2]; EvPermFlags [1; 4]; EvTagged 4 0; EvExpunge 2] in
  c_state c = S_SEL /\ c_mbox c = Some (mkMb 7 4 [1; 2] [1; 4]) /\ c_done c = [(4, 0); (2, 0); (3, 1); (1, 0)] /\ c_pending c = [].
Proof. vm_compute. repeat split. Qed.
