(* Properties/C09.v — the in-memory backend obeys IMAP mailbox semantics (statements only).

   Model: Model/MemRef.v + Model/MemRefMsg.v, a transcription of imapserver/imapmemserver
   (user.go, mailbox.go, message.go, session.go) as driven by imapserver's command handlers,
   tied to the code by the C09 correspondence run.  All theorems quantify over ALL command
   histories ([reachable], [leads], [run]) or over all arguments of one command in any
   well-formed state ([state_ok], which every reachable state satisfies: C09_reachable_ok).
   Declarative side: Proofs/MemRefSpec.v.

   Conventions: [fits32 mb] = uidNext and the message count of that mailbox have not left
   uint32 (the model's counters are unbounded; Go's wrap after 2^32-1 allocations);
   [wire_set]/[wire_cmd] = numbers as the wire parser can deliver them.                      *)
From Coq Require Import Sorting.Sorted Sorting.Permutation.
From GoImap.Base Require Import Bytes.
From GoImap.Model Require Import NumSet MatchList Search MemRefMsg MemRef.
From GoImap.Proofs Require Import SearchSpec MemRefSpec MemRefMsgProofs MemRefInv MemRefOps MemRefQuery.
Open Scope N_scope.

(* ---- every reachable state is well formed ---- *)
Theorem C09_reachable_ok : forall s, reachable s -> state_ok s.
Proof. exact reachable_ok. Qed.
Print Assumptions C09_reachable_ok.

(* ---- UIDs strictly increase ... ---- *)
Theorem C09_uids_strictly_increase : forall s i mb,
  reachable s -> nth_error (st_heap s) i = Some mb -> mailbox_ok mb.
Proof. exact uids_strictly_increase. Qed.
Print Assumptions C09_uids_strictly_increase.

(* ---- ... and are never reused: after any further history the mailbox object is still
   there with the same UIDVALIDITY, uidNext has not decreased, and whatever then carries a
   UID below the old uidNext is one of the old messages (same octets and date) ---- *)
Theorem C09_uid_never_reused : forall h s s' i mb, state_ok s -> leads s h s' ->
  nth_error (st_heap s) i = Some mb ->
  exists mb', nth_error (st_heap s') i = Some mb' /\ extends mb mb'.
Proof. exact uid_never_reused. Qed.
Print Assumptions C09_uid_never_reused.

(* ---- UIDVALIDITY identifies one creation; a deleted name never gets its old value back ---- *)
Theorem C09_uidvalidity_unique : forall s i j a b, reachable s ->
  nth_error (st_heap s) i = Some a -> nth_error (st_heap s) j = Some b ->
  mb_uv a = mb_uv b -> i = j.
Proof. exact uidvalidity_unique. Qed.
Print Assumptions C09_uidvalidity_unique.

Theorem C09_recreated_uidvalidity_differs : forall s n i a k s1 r1 h s2 j b,
  reachable s -> lookup n (st_names s) = Some i -> nth_error (st_heap s) i = Some a ->
  step s (k, CDelete n) = Some (s1, r1) -> leads s1 h s2 ->
  lookup n (st_names s2) = Some j -> nth_error (st_heap s2) j = Some b ->
  mb_uv b <> mb_uv a.
Proof. exact recreated_uidvalidity_differs. Qed.
Print Assumptions C09_recreated_uidvalidity_differs.

(* ---- sequence sets: the backend addresses exactly the messages RFC 3501 says ---- *)
Theorem C09_set_resolution : forall mx s q, wire_set s = true -> 0 < mx -> mx < M32 -> 0 < q -> q < M32 ->
  set_has (static_set mx s) q = set_addresses mx s q.
Proof. exact static_set_spec. Qed.
Print Assumptions C09_set_resolution.

Theorem C09_addressed : forall uid set mb sm, mailbox_ok mb -> fits32 mb -> wire_set set = true ->
  In sm (numbered mb) -> addressed uid set mb sm = spec_addressed uid set mb sm.
Proof. exact addressed_spec. Qed.
Print Assumptions C09_addressed.

(* ---- flag sets are stored case-folded, sorted and duplicate-free in every reachable state
   (the premise [flags_canon] of the COPY/MOVE theorems: a copy carries the same flag list) ---- *)
Theorem C09_reachable_flags_canon : forall s i mb,
  reachable s -> nth_error (st_heap s) i = Some mb -> flags_canon mb.
Proof. exact reachable_flags_canon. Qed.
Print Assumptions C09_reachable_flags_canon.

(* ---- APPENDUID and COPYUID name the actual new messages ---- *)
Theorem C09_append_exact : forall s k n fl t z buf s' r, state_ok s ->
  step s (k, CAppend n fl t z buf) = Some (s', r) -> r_class r = 0 ->
  exists i mb, lookup n (st_names s) = Some i /\ nth_error (st_heap s) i = Some mb /\
    r_code r = CodeAppendUid (mb_uv mb) (mb_next mb) /\ r_data r = [] /\
    nth_error (st_heap s') i =
      Some {| mb_name := mb_name mb; mb_uv := mb_uv mb; mb_next := mb_next mb + 1; mb_sub := mb_sub mb;
              mb_msgs := mb_msgs mb ++ [ {| mm_uid := mb_next mb; mm_flags := flags_add fl [];
                                           mm_time := t; mm_zone := z; mm_buf := buf |} ] |} /\
    (forall f, has_flag f (flags_add fl []) = flag_in f fl) /\
    others_unchanged s s' [i] /\ st_names s' = st_names s /\ st_sel s' = st_sel s /\ st_prev s' = st_prev s.
Proof. exact append_exact. Qed.
Print Assumptions C09_append_exact.

Theorem C09_copy_exact : forall s k uid set dest s' r, state_ok s -> wire_set set = true ->
  step s (k, CCopy uid set dest) = Some (s', r) -> r_class r = 0 ->
  exists i mb j dmb, sel_of s k = Some i /\ nth_error (st_heap s) i = Some mb /\
    lookup dest (st_names s) = Some j /\ nth_error (st_heap s) j = Some dmb /\ i <> j /\
    (fits32 mb -> flags_canon mb ->
     let src := map snd (filter (spec_addressed uid set mb) (numbered mb)) in
     nth_error (st_heap s') j =
       Some {| mb_name := mb_name dmb; mb_uv := mb_uv dmb; mb_next := mb_next dmb + N.of_nat (length src);
               mb_sub := mb_sub dmb; mb_msgs := mb_msgs dmb ++ copies src (mb_next dmb) |} /\
     r_code r = match src with
                | [] => CodeNone
                | _ => CodeCopyUid (mb_uv dmb) (map mm_uid src) (count_from (mb_next dmb) (length src))
                end) /\
    r_data r = [] /\
    others_unchanged s s' [j] /\ st_names s' = st_names s /\ st_sel s' = st_sel s.
Proof. exact copy_exact. Qed.
Print Assumptions C09_copy_exact.

(* ---- STORE set/add/remove changes exactly the addressed messages' flags, case-insensitively ---- *)
Theorem C09_store_exact : forall s k uid set op silent fl s' r, state_ok s -> wire_set set = true ->
  step s (k, CStore uid set op silent fl) = Some (s', r) -> r_class r = 0 ->
  exists i mb mb', sel_of s k = Some i /\ nth_error (st_heap s) i = Some mb /\
    nth_error (st_heap s') i = Some mb' /\
    mb_name mb' = mb_name mb /\ mb_uv mb' = mb_uv mb /\ mb_next mb' = mb_next mb /\ mb_sub mb' = mb_sub mb /\
    length (mb_msgs mb') = length (mb_msgs mb) /\
    (fits32 mb ->
     forall q m m', nth_error (mb_msgs mb) q = Some m -> nth_error (mb_msgs mb') q = Some m' ->
       if spec_addressed uid set mb (N.of_nat (S q), m) then store_spec op fl m m' else m' = m) /\
    (fits32 mb ->
     r_data r = if silent then []
                else map (fun sm => RFetch (fst sm) [FUid (mm_uid (snd sm)); FFlags (mm_flags (snd sm))])
                         (filter (spec_addressed uid set mb) (numbered mb'))) /\
    others_unchanged s s' [i] /\ st_names s' = st_names s /\ st_sel s' = st_sel s.
Proof. exact store_exact. Qed.
Print Assumptions C09_store_exact.

(* ---- EXPUNGE, UID EXPUNGE, CLOSE and MOVE remove exactly the eligible messages ---- *)
(* [ro_of s k = false]: the session opened its mailbox with SELECT.  After EXAMINE (read-only) nothing is
   removed: C09_readonly_no_change below.  STORE and MOVE need no such premise: on a read-only mailbox
   they are refused, so [r_class r = 0] already excludes it. *)
Theorem C09_expunge_exact : forall s k uids s' r, state_ok s ->
  match uids with Some set => wire_set set = true | None => True end ->
  ro_of s k = false ->
  step s (k, CExpunge uids) = Some (s', r) -> r_class r = 0 ->
  exists i mb, sel_of s k = Some i /\ nth_error (st_heap s) i = Some mb /\
    (fits32 mb ->
     nth_error (st_heap s') i = Some (set_msgs (filter (fun m => negb (spec_expunged uids mb m)) (mb_msgs mb)) mb)) /\
    others_unchanged s s' [i] /\ st_names s' = st_names s /\ st_sel s' = st_sel s.
Proof. exact expunge_exact. Qed.
Print Assumptions C09_expunge_exact.

Theorem C09_close_exact : forall s k s' r, state_ok s -> ro_of s k = false -> step s (k, CClose) = Some (s', r) -> r_class r = 0 ->
  exists i mb, sel_of s k = Some i /\ nth_error (st_heap s) i = Some mb /\
    nth_error (st_heap s') i = Some (set_msgs (filter (fun m => negb (msg_has m (s2b "\Deleted"))) (mb_msgs mb)) mb) /\
    sel_of s' k = None /\ others_unchanged s s' [i] /\ st_names s' = st_names s.
Proof. exact close_exact. Qed.
Print Assumptions C09_close_exact.

Theorem C09_move_exact : forall s k uid set dest s' r, state_ok s -> wire_set set = true ->
  step s (k, CMove uid set dest) = Some (s', r) -> r_class r = 0 ->
  exists i mb j dmb, sel_of s k = Some i /\ nth_error (st_heap s) i = Some mb /\
    lookup dest (st_names s) = Some j /\ nth_error (st_heap s) j = Some dmb /\ i <> j /\
    (fits32 mb -> flags_canon mb ->
     let src := map snd (filter (spec_addressed uid set mb) (numbered mb)) in
     nth_error (st_heap s') j =
       Some {| mb_name := mb_name dmb; mb_uv := mb_uv dmb; mb_next := mb_next dmb + N.of_nat (length src);
               mb_sub := mb_sub dmb; mb_msgs := mb_msgs dmb ++ copies src (mb_next dmb) |} /\
     nth_error (st_heap s') i =
       Some (set_msgs (map snd (filter (fun sm => negb (spec_addressed uid set mb sm)) (numbered mb))) mb) /\
     r_data r = match src with
                | [] => []
                | _ => [RCopyUid (mb_uv dmb) (map mm_uid src) (count_from (mb_next dmb) (length src))]
                end) /\
    r_code r = CodeNone /\
    others_unchanged s s' [i; j] /\ st_names s' = st_names s /\ st_sel s' = st_sel s.
Proof. exact move_exact. Qed.
Print Assumptions C09_move_exact.

(* ---- a command that fails changes nothing ---- *)
Theorem C09_failed_command_no_change : forall s k c s' r, step s (k, c) = Some (s', r) -> r_class r <> 0 ->
  match c with CSelect _ _ => with_sel s' (st_sel s) = s | _ => s' = s end.
Proof. exact failed_command_no_change. Qed.
Print Assumptions C09_failed_command_no_change.

(* ---- STATUS, SELECT, LIST, SEARCH, FETCH return exactly what the state says ---- *)
Theorem C09_status_exact : forall s k n o s' r, state_ok s -> step s (k, CStatus n o) = Some (s', r) -> r_class r = 0 ->
  s' = s /\
  exists i mb items, lookup n (st_names s) = Some i /\ nth_error (st_heap s) i = Some mb /\
    r_data r = [RStatus n items] /\
    (N.of_nat (length (mb_msgs mb)) < M32 ->
     (so_messages o = true -> status_value items "MESSAGES" = Some (Some (N.of_nat (length (mb_msgs mb))))) /\
     (so_uidnext o = true -> status_value items "UIDNEXT" = Some (Some (mb_next mb))) /\
     (so_uidvalidity o = true -> status_value items "UIDVALIDITY" = Some (Some (mb_uv mb))) /\
     (so_unseen o = true -> status_value items "UNSEEN" =
        Some (Some (count_where (fun m => negb (msg_has m (s2b "\Seen"))) (mb_msgs mb)))) /\
     (so_deleted o = true -> status_value items "DELETED" =
        Some (Some (count_where (fun m => msg_has m (s2b "\Deleted")) (mb_msgs mb)))) /\
     (so_size o = true -> status_value items "SIZE" = Some (Some (sum_sizes (mb_msgs mb)))) /\
     (so_deleted_storage o = true -> status_value items "DELETED-STORAGE" =
        Some (Some (sum_sizes (filter (fun m => msg_has m (s2b "\Deleted")) (mb_msgs mb)))))).
Proof. exact status_exact. Qed.
Print Assumptions C09_status_exact.

Theorem C09_select_exact : forall s k n ex s' r, state_ok s -> step s (k, CSelect n ex) = Some (s', r) -> r_class r = 0 ->
  exists i mb fl, lookup n (st_names s) = Some i /\ nth_error (st_heap s) i = Some mb /\
    ((k < length (st_sel s))%nat -> sel_of s' k = Some i) /\ st_heap s' = st_heap s /\ st_names s' = st_names s /\
    In (RSelect (N.of_nat (length (mb_msgs mb))) (mb_uv mb) (mb_next mb) fl (fl ++ [s2b "\*"])) (r_data r) /\
    (forall f, In f fl <-> exists m, In m (mb_msgs mb) /\ In f (mm_flags m)).
Proof. exact select_exact. Qed.
Print Assumptions C09_select_exact.

(* SELECT opens the mailbox read-write, EXAMINE read-only *)
Theorem C09_select_records_readonly : forall s k n ex s' r,
  step s (k, CSelect n ex) = Some (s', r) -> r_class r = 0 ->
  (k < length (st_ro s))%nat -> ro_of s' k = ex.
Proof. exact select_records_readonly. Qed.
Print Assumptions C09_select_records_readonly.

(* ---- EXAMINE is read-only (RFC 3501 6.3.2, 6.4.2): the complement of C09_expunge_exact / C09_close_exact ----
   STORE, MOVE and UID EXPUNGE are refused (NO without response code) and change nothing; EXPUNGE answers OK
   and removes nothing; CLOSE only drops the selection; FETCH (even of BODY[] without PEEK) leaves every
   mailbox, message and flag as it was. *)
Theorem C09_readonly_no_change : forall s k c s' r i, state_ok s ->
  sel_of s k = Some i -> ro_of s k = true -> step s (k, c) = Some (s', r) ->
  match c with
  | CStore _ _ _ _ _ | CMove _ _ _ | CExpunge (Some _) => s' = s /\ r = no_plain
  | CExpunge None => s' = s /\ r = ok []
  | CClose => s' = set_sel s k None /\ st_heap s' = st_heap s /\ r = ok []
  | CFetch _ _ _ => st_heap s' = st_heap s /\ st_names s' = st_names s /\ st_sel s' = st_sel s /\ r_class r = 0
  | _ => True
  end.
Proof. exact readonly_no_change. Qed.
Print Assumptions C09_readonly_no_change.

Theorem C09_list_exact : forall s k lsub sel_sub ref pats ret s' r, state_ok s -> pats <> [] ->
  step s (k, CList lsub sel_sub ref pats ret) = Some (s', r) ->
  s' = s /\ r_class r = 0 /\
  StronglySorted bytes_lt (list_names (r_data r)) /\
  (forall n, In n (list_names (r_data r)) <-> name_listed s sel_sub ref pats n).
Proof. exact list_exact. Qed.
Print Assumptions C09_list_exact.

(* PARTIAL.  Full statement: the same without the hypothesis [forallb wf_key keys = true].
   It is false of the code: imap.SearchCriteria encodes "no bound" as 0 / the zero time, so
   SEARCH SMALLER 0 returns every message (RFC 3501: none), LARGER 0 also returns empty
   messages, and a date key naming 1-Jan-0001 is ignored; [wf_key] (Proofs/SearchSpec.v, C19)
   excludes exactly these arguments.  The check reports them as known finding
   C09-search-size-zero.  For every other key the theorem is the full statement. *)
Theorem C09_search_exact_partial : forall s k uid ret keys s' r, state_ok s -> forallb wf_key keys = true ->
  step s (k, CSearch uid ret keys) = Some (s', r) -> r_class r = 0 ->
  s' = s /\
  exists i mb, sel_of s k = Some i /\ nth_error (st_heap s) i = Some mb /\
    let hits := filter (fun sm => forallb (key_matches (msg_view (fst sm) (snd sm)))
                                        (map (static_key (seq_max mb) (uid_max mb)) keys)) (numbered mb) in
    let nums := map (fun sm => if uid then mm_uid (snd sm) else fst sm) hits in
    r_data r = [do_search mb uid ret keys] /\
    (sr_ext ret = false -> r_data r = [RSearch nums]) /\
    (sr_ext ret = true -> exists all mn mx cnt, r_data r = [RESearch uid all mn mx cnt] /\
        (sr_all ret = true -> all = nums) /\
        (sr_count ret = true -> cnt = Some (N.of_nat (length nums))) /\
        (sr_min ret = true -> nums <> [] -> exists v, mn = Some v /\ In v nums /\ forall x, In x nums -> v <= x) /\
        (sr_max ret = true -> nums <> [] -> exists v, mx = Some v /\ In v nums /\ forall x, In x nums -> x <= v)).
Proof. exact search_exact. Qed.
Print Assumptions C09_search_exact_partial.

Theorem C09_search_set_keys : forall mb q m set, mailbox_ok mb -> fits32 mb -> wire_set set = true ->
  In (q, m) (numbered mb) ->
  key_matches (msg_view q m) (KSeq (static_set (seq_max mb) set)) = set_addresses (seq_max mb) set q /\
  key_matches (msg_view q m) (KUid (static_set (uid_max mb) set)) = set_addresses (last_uid mb) set (mm_uid m).
Proof. exact search_set_keys. Qed.
Print Assumptions C09_search_set_keys.

Theorem C09_fetch_exact : forall s k uid set o s' r, state_ok s -> wire_set set = true ->
  step s (k, CFetch uid set o) = Some (s', r) -> r_class r = 0 ->
  exists i mb mb', sel_of s k = Some i /\ nth_error (st_heap s) i = Some mb /\
    nth_error (st_heap s') i = Some mb' /\
    let seen := negb (ro_of s k) && existsb (fun p => negb (sc_peek (fst p))) (fo_sections o) in
    (fits32 mb ->
     mb' = set_msgs (map (fun sm => if spec_addressed uid set mb sm && seen then mark_seen (snd sm) else snd sm)
                         (numbered mb)) mb /\
     map Some (r_data r) = map (fun sm => fetch_one o (fst sm) (snd sm))
                                (filter (spec_addressed uid set mb) (numbered mb'))) /\
    (forall m f, msg_has (mark_seen m) f = msg_has m f || flag_in f [s2b "\Seen"]) /\
    others_unchanged s s' [i] /\ st_names s' = st_names s /\ st_sel s' = st_sel s.
Proof. exact fetch_exact. Qed.
Print Assumptions C09_fetch_exact.

Theorem C09_fetch_one_items : forall o q m items, fetch_one o q m = Some (RFetch q items) ->
  In (FUid (mm_uid m)) items /\
  (fo_flags o = true -> In (FFlags (mm_flags m)) items) /\
  (fo_size o = true -> In (FSize (N.of_nat (length (mm_buf m)))) items) /\
  (fo_date o = true -> In (FDate (mm_time m) (mm_zone m)) items) /\
  (forall it obs, In (it, obs) (fo_sections o) ->
     exists d, body_section (mm_buf m) it = Some d /\ In (FBody (section_label it obs) d) items).
Proof. exact fetch_one_items. Qed.
Print Assumptions C09_fetch_one_items.

(* ---- partial ranges: for ANY origin and size in 0 .. 2^63-1 the extraction is defined and is
   the requested slice; sections are at most 3|message|+2 octets ---- *)
Theorem C09_partial_exact : forall b off size,
  (0 <= off < I63)%Z -> (0 <= size < I63)%Z -> (Z.of_nat (length b) < I63)%Z ->
  ext_partial b (Some (off, size)) = Some (partial_spec b off size).
Proof. exact ext_partial_exact. Qed.
Print Assumptions C09_partial_exact.

Theorem C09_section_bound : forall buf it t,
  section_text buf it = Some t -> (length t <= 3 * length buf + 2)%nat.
Proof. exact section_text_bound. Qed.
Print Assumptions C09_section_bound.

Theorem C09_body_section_exact : forall buf it t off size,
  section_text buf it = Some t -> sc_partial it = Some (off, size) ->
  (0 <= off < I63)%Z -> (0 <= size < I63)%Z -> (3 * Z.of_nat (length buf) + 2 < I63)%Z ->
  body_section buf it = Some (partial_spec t off size).
Proof. exact body_section_exact. Qed.
Print Assumptions C09_body_section_exact.

(* ---- no syntactically valid command makes the handler panic, along any history ---- *)
Theorem C09_step_no_crash : forall s k c, state_ok s -> msgs_fit s -> wire_cmd c = true ->
  step s (k, c) <> None.
Proof. exact step_no_crash. Qed.
Print Assumptions C09_step_no_crash.

Theorem C09_run_no_crash : forall n h,
  Forall (fun kc => wire_cmd (snd kc) = true /\ cmd_fits (snd kc)) h ->
  run (init n) h <> None.
Proof. exact run_no_crash. Qed.
Print Assumptions C09_run_no_crash.

(* ---- non-vacuity: a history that creates, appends, stores, expunges, deletes and recreates;
   the pre-fix partial extraction does panic on the corpus input; "*" after a larger number ---- *)
Definition ex_msg : bytes := s2b "A: b".
Definition ex_hist : history :=
  [(0%nat, CCreate (s2b "INBOX")); (0%nat, CCreate (s2b "x"));
   (0%nat, CAppend (s2b "INBOX") [s2b "\Seen"] 1%Z 0%Z ex_msg);
   (0%nat, CAppend (s2b "INBOX") [s2b "\DELETED"] 1%Z 0%Z ex_msg);
   (0%nat, CAppend (s2b "INBOX") [] 1%Z 0%Z ex_msg);
   (0%nat, CSelect (s2b "INBOX") false);
   (0%nat, CExpunge (Some [(0, 0)]));
   (0%nat, CStore true [(10, 10); (0, 0)] StAdd false [s2b "X"]);
   (0%nat, CCopy false [(1, 0)] (s2b "x"));
   (0%nat, CDelete (s2b "x")); (0%nat, CCreate (s2b "x"));
   (0%nat, CStatus (s2b "x") {| so_messages := true; so_uidnext := true; so_uidvalidity := true; so_unseen := false;
                                so_deleted := false; so_size := false; so_appendlimit := false;
                                so_deleted_storage := false; so_recent := false |})].
Example C09_nonvacuous :
  (* the history runs; UID EXPUNGE * removed nothing (message 3 is not \Deleted), the store hit
     message 3 through "*", two messages were copied and got UIDs 1 2, the recreated mailbox
     has UIDVALIDITY 3 (it had 2) *)
  option_map (fun p => map (fun r => (r_class r, r_code r)) (snd p)) (run (init 1) ex_hist) =
    Some [(0, CodeNone); (0, CodeNone); (0, CodeAppendUid 1 1); (0, CodeAppendUid 1 2); (0, CodeAppendUid 1 3);
          (0, CodeAtom (s2b "READ-WRITE")); (0, CodeNone); (0, CodeNone);
          (0, CodeCopyUid 2 [1; 2; 3] [1; 2; 3]); (0, CodeNone); (0, CodeNone); (0, CodeNone)] /\
  option_map (fun p => nth 7 (map r_data (snd p)) []) (run (init 1) ex_hist) =
    Some [RFetch 3 [FUid 3; FFlags [s2b "x"]]] /\
  option_map (fun p => nth 11 (map r_data (snd p)) []) (run (init 1) ex_hist) =
    Some [RStatus (s2b "x") [(s2b "MESSAGES", Some 0); (s2b "UIDNEXT", Some 1); (s2b "UIDVALIDITY", Some 3)]] /\
  ext_partial_old (s2b "hello") (Some (1, 9223372036854775807)%Z) = None /\
  ext_partial (s2b "hello") (Some (1, 9223372036854775807)%Z) = Some (s2b "ello").
Proof. vm_compute. repeat split. Qed.
