(* Properties/C11.v — the client never panics or blows up on arbitrary server bytes
   (statements only; model: Model/ClientResp.v, spec: Proofs/ClientRespSpec.v).            *)
From GoImap.Base Require Import Bytes.
From GoImap.Model Require Import NumSet Wire ClientResp.
From GoImap.Proofs Require Import ClientRespSpec ClientRespProofs.
Open Scope N_scope.

(* For every set of pending tags and EVERY server byte stream: *)

(* the reader terminates on the model's own fuel (fuel = input length + 1 at every loop and
   recursion): no loop iteration and no recursive call happens without consuming input *)
Theorem C11_terminates : forall tags input, read_stream tags input <> Fuel.
Proof. exact no_fuel. Qed.
Print Assumptions C11_terminates.

(* no panic site of the reader is reachable (typ[0], Set.insert's index arithmetic) *)
Theorem C11_no_crash : forall tags input, read_stream tags input <> Crash.
Proof. exact no_crash. Qed.
Print Assumptions C11_no_crash.

(* the step count (one tick per loop iteration and per call of a recursive reader) is
   bounded by a linear function of the input length, whether the stream is accepted or not *)
Theorem C11_linear_steps : forall tags input s, final_state (read_stream tags input) = Some s ->
  (s_ticks s <= 2 * length input + 2)%nat.
Proof. exact ticks_linear. Qed.
Print Assumptions C11_linear_steps.

(* the Go call depth of the recursive readers (DiscardValue, readThreadList, readNestedBody)
   never exceeds the two caps together, however deep the input nests *)
Theorem C11_depth_bounded : forall tags input s, final_state (read_stream tags input) = Some s ->
  (s_maxd s <= MAX_BODY_DEPTH + MAX_LIST_DEPTH)%nat.
Proof. exact depth_bounded. Qed.
Print Assumptions C11_depth_bounded.

(* everything handed to the caller — also what was handed over before a later error —
   satisfies the protocol invariants: sequence numbers and UIDs >= 1, result sets canonical
   and without "*", structures no deeper than the cap, numbers inside their Go types *)
Theorem C11_delivered_valid : forall tags input s, final_state (read_stream tags input) = Some s ->
  forallb ev_valid (s_log s) = true.
Proof. exact delivered_valid. Qed.
Print Assumptions C11_delivered_valid.

(* the panic branch of SearchData.AllSeqNums / AllUIDs (dynamic set) is unreachable on any
   delivered ESEARCH data and on the set built from any prefix of the SEARCH numbers *)
Theorem C11_accessors_safe : forall tags input s, final_state (read_stream tags input) = Some s ->
  (forall d, In (EvESearch d) (s_log s) -> exists l, all_nums d = AccOk l) /\
  (forall k, exists l, search_all_nums (firstn k (search_nums_of (rev (s_log s)))) = AccOk l).
Proof. exact accessors_safe. Qed.
Print Assumptions C11_accessors_safe.

(* non-vacuity: an accepted stream that delivers data; a nesting bomb stopped at the cap with
   the depth instrument at its bound; the inputs that used to be delivered are errors *)
Definition crlf_ : bytes := [CR_; LF_].
Example C11_nonvacuous :
  (match read_stream [s2b "T1"]
           (s2b "* 2 FETCH (UID 7 BODYSTRUCTURE ((""text"" ""plain"" NIL NIL NIL ""7BIT"" 1 1) ""mixed""))" ++ crlf_ ++
            s2b "* SEARCH 4 2" ++ crlf_ ++ s2b "T1 OK done" ++ crlf_) with
   | Ok _ s => (length (s_log s) =? 6)%nat && nilb (s_in s) && (0 <? s_ticks s)%nat
   | _ => false
   end = true) /\
  (match read_stream [] (s2b "* 1 FETCH (BODYSTRUCTURE " ++ rep 3000 (s2b "(")) with
   | Err s => (s_maxd s =? 1001)%nat && (s_ticks s <=? 2 * 3025 + 2)%nat
   | _ => false
   end = true) /\
  (forall t, In t ["* SEARCH 0"; "* 0 EXPUNGE"; "* 0 FETCH (UID 1)"; "* 1 FETCH (UID 0)"; "* SORT 0"; "* THREAD (0)";
                   "* ESEARCH ALL 1:*"; "* ESEARCH MIN 0"; "* OK [COPYUID 1 1:* 2] x"]%string ->
     match read_stream [] (s2b t ++ crlf_) with Err _ => True | _ => False end).
Proof.
  split; [vm_compute; reflexivity|]. split; [vm_compute; reflexivity|].
  intros t H. repeat (destruct H as [<-|H]; [vm_compute; exact I|]). destruct H.
Qed.
