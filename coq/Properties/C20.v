(* Properties/C20.v — LIST wildcard matching follows IMAP semantics (statements only). *)
From GoImap.Base Require Import Bytes.
From GoImap.Model Require Import MatchList.
From GoImap.Proofs Require Import MatchListSpec MatchListProofs.

Theorem C20_matchlist_spec : forall name d ref pat,
  exists b, match_list_top name d ref pat = Some b /\ (b = true <-> list_matches name d ref pat).
Proof. exact matchlist_spec. Qed.
Print Assumptions C20_matchlist_spec.

Theorem C20_percent_single_byte_delim : forall c n1 n2, no_delim [c] n1 n2 <-> ~ In c n1.
Proof. exact no_delim_single. Qed.
Print Assumptions C20_percent_single_byte_delim.

Theorem C20_percent_no_delim : forall n1 n2, no_delim [] n1 n2.
Proof. exact no_delim_none. Qed.
Print Assumptions C20_percent_no_delim.

(* non-vacuity: the relation holds and fails on concrete inputs, and the model agrees *)
Example C20_nonvacuous :
  match_list_top (s2b "Misato/Misato/Misato") (s2b "/") [] (s2b "Mis*to/Mis%to") = Some true /\
  match_list_top (s2b "Misato/Misato") (s2b "/") [] (s2b "Misat%Misato") = Some false /\
  match_list_top (s2b "Misato/Misato") (s2b "/") (s2b "Shinji") (s2b "/Misato/*") = Some true.
Proof. vm_compute. repeat split. Qed.
