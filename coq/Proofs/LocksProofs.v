(* Proofs/LocksProofs.v — generic theorem for C14. *)
From Coq Require Import List NArith Bool Lia.
Import ListNotations.
From GoImap.Model Require Import Locks.
Open Scope N_scope.

(* the check is a sound acyclicity certificate: it yields a rank function that strictly
   increases along every edge *)
Lemma graph_ok_rank : forall g, graph_ok g = true ->
  exists r : N -> N, forall a b, edge_in g a b = true -> r a < r b.
Proof.
  intros g Hok.
  exists (ranks (S (length g)) g (fun _ => 0)).
  intros a b Hedge.
  unfold graph_ok in Hok.
  rewrite forallb_forall in Hok.
  unfold edge_in in Hedge.
  apply existsb_exists in Hedge.
  destruct Hedge as [e [Hin He]].
  apply andb_true_iff in He.
  destruct He as [Ha Hb].
  apply N.eqb_eq in Ha.
  apply N.eqb_eq in Hb.
  specialize (Hok e Hin).
  apply N.ltb_lt in Hok.
  subst a b.
  exact Hok.
Qed.

(* weight of a thread under a rank function: the rank of the class it is blocked on *)
Definition weight (r : N -> N) (t : thread) : N :=
  match waiting t with Some l => r (fst l) | None => 0 end.

Lemma wf_path_src_blocked : forall cfg u v,
  wf_path cfg u v -> exists l, waiting u = Some l.
Proof.
  intros cfg u v H.
  destruct H as [t u H | t u v H _];
    destruct H as [_ [_ [l [Hw _]]]]; exists l; exact Hw.
Qed.

Lemma waits_for_weight : forall g cfg (r : N -> N),
  (forall a b, edge_in g a b = true -> r a < r b) ->
  respects g cfg ->
  forall t u, waits_for cfg t u -> (exists l', waiting u = Some l') ->
  weight r t < weight r u.
Proof.
  intros g cfg r Hr Hresp t u Hwf [l' Hu].
  destruct Hwf as [_ [Hinu [l [Hw Hheld]]]].
  unfold weight.
  rewrite Hw, Hu.
  apply Hr.
  exact (Hresp u l' l Hinu Hu Hheld).
Qed.

Lemma wf_path_weight : forall g cfg (r : N -> N),
  (forall a b, edge_in g a b = true -> r a < r b) ->
  respects g cfg ->
  forall t v, wf_path cfg t v -> (exists l', waiting v = Some l') ->
  weight r t < weight r v.
Proof.
  intros g cfg r Hr Hresp t v Hp.
  induction Hp as [t u Hw | t u v Hw Hp IH]; intros Hv.
  - exact (waits_for_weight g cfg r Hr Hresp t u Hw Hv).
  - pose proof (wf_path_src_blocked cfg u v Hp) as Hu.
    pose proof (waits_for_weight g cfg r Hr Hresp t u Hw Hu) as H1.
    specialize (IH Hv).
    eapply N.lt_trans; eassumption.
Qed.

(* for any number of threads and in every state in which nested acquisitions follow the graph,
   there is no deadlock *)
Lemma no_deadlock : forall g cfg, graph_ok g = true -> respects g cfg -> ~ deadlocked cfg.
Proof.
  intros g cfg Hok Hresp [t Hp].
  destruct (graph_ok_rank g Hok) as [r Hr].
  pose proof (wf_path_src_blocked cfg t t Hp) as Ht.
  pose proof (wf_path_weight g cfg r Hr Hresp t t Hp Ht) as H.
  exact (N.lt_irrefl _ H).
Qed.

(* the check rejects self-loops and two-cycles (sanity of the certificate) *)
Lemma graph_ok_no_self_loop : forall g a, graph_ok g = true -> edge_in g a a = false.
Proof.
  intros g a Hok.
  destruct (graph_ok_rank g Hok) as [r Hr].
  destruct (edge_in g a a) eqn:E; [|reflexivity].
  exfalso.
  exact (N.lt_irrefl _ (Hr a a E)).
Qed.

