(* Proofs/Utf7Proofs.v — proofs for C16 about Model/Utf7.v. *)
From GoImap.Base Require Import Bytes.
From GoImap.Model Require Import Utf7.
From GoImap.Proofs Require Import Utf7Spec Utf7Codec Utf7Lemmas.
Open Scope N_scope.

(* every valid UTF-8 name decodes back to exactly itself *)
Lemma utf7_roundtrip : forall runes, forallb scalar runes = true ->
  utf7_decode (utf7_encode (utf8_of runes)) = Some (utf8_of runes).
Proof.
  intros runes Hs. unfold utf7_decode, utf7_encode, utf8_of. fold (ebytes runes).
  rewrite (map_b2n_n2b (ebytes runes)) by apply ebytes_bytes.
  rewrite map_b2n_n2b by (apply printable_Forall; apply enc_loop_printable).
  change (@nil N) with (rev (ebytes [])) at 1.
  rewrite (roundtrip_loop runes [] Hs eq_refl eq_refl). reflexivity.
Qed.

(* the encoder only ever emits printable ASCII, for every input (valid UTF-8 or not) *)
Lemma utf7_encode_printable : forall s, forallb printable_b (utf7_encode s) = true.
Proof.
  intros s. unfold utf7_encode. apply printable_b_map. apply enc_loop_printable.
Qed.

(* whatever the decoder accepts, its output is valid UTF-8 *)
Lemma utf7_decode_valid : forall t u, utf7_decode t = Some u -> valid_utf8 u.
Proof.
  intros t u H. unfold utf7_decode in H.
  destruct (dec_loop (map b2n t) (MDirect true)) as [o|] eqn:E; [|discriminate].
  cbn [option_map] in H. inversion H; subst.
  apply dec_loop_runes in E. destruct E as [rs [Hs Ho]].
  exists rs. split; [exact Hs|]. unfold utf8_of. fold (ebytes rs). rewrite Ho. reflexivity.
Qed.

(* the decoder accepts only printable ASCII input *)
Lemma utf7_decode_input_printable : forall t u, utf7_decode t = Some u -> forallb printable_b t = true.
Proof.
  intros t u H. unfold utf7_decode in H.
  destruct (dec_loop (map b2n t) (MDirect true)) as [o|] eqn:E; [|discriminate].
  apply dec_loop_input_printable in E. apply printable_b_unmap. apply E.
Qed.

(* an unterminated shift is rejected *)
Lemma utf7_reject_unterminated : forall pre b, ~ In DASHb b ->
  utf7_decode (pre ++ AMPb :: b) = None.
Proof.
  intros pre b Hn. unfold utf7_decode. rewrite map_app. cbn [map].
  change (b2n AMPb) with AMP.
  rewrite dec_loop_prefix_none; [reflexivity|].
  apply dec_unterminated_tail. apply notin_map_b2n. exact Hn.
Qed.

(* two base64 shifts may not be adjacent *)
Lemma utf7_reject_adjacent_shifts : forall pre b1 b2 post,
  b1 <> [] -> b2 <> [] -> ~ In DASHb b1 -> ~ In DASHb b2 ->
  utf7_decode (pre ++ AMPb :: b1 ++ DASHb :: AMPb :: b2 ++ DASHb :: post) = None.
Proof.
  intros pre b1 b2 post H1 H2 Hn1 Hn2. unfold utf7_decode.
  rewrite map_app. cbn [map]. rewrite map_app. cbn [map]. rewrite map_app. cbn [map].
  change (b2n AMPb) with AMP. change (b2n DASHb) with DASH.
  rewrite dec_loop_prefix_none; [reflexivity|].
  apply dec_adjacent_tail.
  - destruct b1; [congruence|discriminate].
  - destruct b2; [congruence|discriminate].
  - apply notin_map_b2n. exact Hn1.
  - apply notin_map_b2n. exact Hn2.
Qed.

(* a base64 shift never yields printable ASCII (it must have been written directly), and an
   accepted shift consists of alphabet characters only (no '=' padding, no stray bytes) *)
Lemma decode_b64_no_printable : forall seg out, decode_b64 seg = Some out ->
  forallb (fun c => negb (printable c)) out = true /\
  forallb (fun c => match b64val c with Some _ => true | None => false end) seg = true /\
  Nat.even (length (match b64_decode seg with Some b => b | None => [] end)) = true.
Proof.
  intros seg out H. split; [|split].
  - apply decode_b64_runes in H. destruct H as [rs [_ [Hn Ho]]]. subst out.
    apply (ebytes_nonpr rs Hn).
  - apply decode_b64_inv in H. destruct H as [b [Hb _]].
    eapply b64_decode_alphabet. exact Hb.
  - apply decode_b64_inv in H. destruct H as [b [Hb [Ho _]]]. rewrite Hb.
    rewrite <- Nat.negb_odd, Ho. reflexivity.
Qed.
