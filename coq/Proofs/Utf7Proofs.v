(* Proofs/Utf7Proofs.v — proofs for C16 about Model/Utf7.v. *)
From GoImap.Base Require Import Bytes.
From GoImap.Model Require Import Utf7.
From GoImap.Proofs Require Import Utf7Spec.
Open Scope N_scope.

(* every valid UTF-8 name decodes back to exactly itself *)
Lemma utf7_roundtrip : forall runes, forallb scalar runes = true ->
  utf7_decode (utf7_encode (utf8_of runes)) = Some (utf8_of runes).
Admitted.

(* the encoder only ever emits printable ASCII, for every input (valid UTF-8 or not) *)
Lemma utf7_encode_printable : forall s, forallb printable_b (utf7_encode s) = true.
Admitted.

(* whatever the decoder accepts, its output is valid UTF-8 *)
Lemma utf7_decode_valid : forall t u, utf7_decode t = Some u -> valid_utf8 u.
Admitted.

(* the decoder accepts only printable ASCII input *)
Lemma utf7_decode_input_printable : forall t u, utf7_decode t = Some u -> forallb printable_b t = true.
Admitted.

(* an unterminated shift is rejected *)
Lemma utf7_reject_unterminated : forall pre b, ~ In DASHb b ->
  utf7_decode (pre ++ AMPb :: b) = None.
Admitted.

(* two base64 shifts may not be adjacent *)
Lemma utf7_reject_adjacent_shifts : forall pre b1 b2 post,
  b1 <> [] -> b2 <> [] -> ~ In DASHb b1 -> ~ In DASHb b2 ->
  utf7_decode (pre ++ AMPb :: b1 ++ DASHb :: AMPb :: b2 ++ DASHb :: post) = None.
Admitted.

(* a base64 shift never yields printable ASCII (it must have been written directly), and an
   accepted shift consists of alphabet characters only (no '=' padding, no stray bytes) *)
Lemma decode_b64_no_printable : forall seg out, decode_b64 seg = Some out ->
  forallb (fun c => negb (printable c)) out = true /\
  forallb (fun c => match b64val c with Some _ => true | None => false end) seg = true /\
  Nat.even (length (match b64_decode seg with Some b => b | None => [] end)) = true.
Admitted.
